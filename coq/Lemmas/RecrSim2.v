(* RecrSim2.v — semantic preservation of [recreate], part 2: statements (blocks, if,
   if-set, match, loops), lines (`x := e`, `(a, b) := e`) and the induction itself.

   [rline f]   what the pass with fuel f does to a LINE of a block: the result simulates
               the argument, and if the line yields a value, the scopes it leaves agree with
               the environment the pass leaves ([post]).
   Closure creation is a parameter of this file (hypotheses [anonfn_case], [fndecl_case],
   vacuous for cl = false); it is discharged in RecrClos. *)
From SSL.Model Require Import Base Ty Float Value Ops Seq Syntax Rt Recreate Exec Check.
From SSL.Lemmas Require Import ExecLemmas FoldLemmas RecrUnfold RecrMono RecrDefs RecrKeeps RecrSim1.

Arguments matches : simpl never.
Local Open Scope Z_scope.

Section Sim.
Variable powf : fbits -> fbits -> fbits.
Variable pre : prelude.
Variable cl : bool.
Notation E := (exec powf pre).
Notation RC f := (recreate powf f []).
Notation simE := (simE powf pre).
Notation rexpr := (rexpr powf pre cl).

Definition post (e' : lenv) (sc : scopes) (x : instr) : Prop :=
  forall n st st1 sc1 v, E n st sc x = (st1, sc1, SVal v) -> agree e' sc1.

Definition rline (f : nat) : Prop := forall e i i' e',
  RC f e i = Ok (i', e') -> wfi cl true i = true -> dok i' = true ->
  simE e i i' /\ forall sc, agree e sc -> post e' sc i.

Lemma okr_proj st sc sc' s : okr (st, sc, s) -> okr (st, sc', s).
Proof. intros H. exact H. Qed.

(* ================================================================= *)
(* lines of a block                                                   *)
(* ================================================================= *)
Lemma rlines f (IH : rline f) : forall l e l' e',
  rec_list_def (RC f) l e = Ok (l', e') ->
  forallb (wfi cl true) l = true -> forallb dok l' = true ->
  forall sc, agree e sc -> forall n st,
    okl (ex_list_def (E n) l st sc) -> ex_list_def (E n) l' st sc = ex_list_def (E n) l st sc.
Proof.
  induction l as [|x l IHl]; intros e l' e' H W D sc Ha n st.
  - injection H as <- <-. reflexivity.
  - cbn [rec_list_def] in H. fold (rec_list_def (RC f)) in H.
    inv_bind H p Hp. destruct p as [x' e1]. inv_bind H q Hq. destruct q as [l1 e2].
    injection H as <- <-.
    cbn [forallb] in W, D. apply andb_true_iff in W. apply andb_true_iff in D.
    destruct W as [Wx Wl]. destruct D as [Dx Dl].
    destruct (IH _ _ _ _ Hp Wx Dx) as [Sx Px].
    rewrite !ex_list_cons. specialize (Sx sc Ha n st). specialize (Px sc Ha n st).
    destruct (E n st sc x) as [[st1 sc1] s1].
    destruct s1; intros Hok; try (rewrite Sx; [reflexivity|exact Hok]).
    rewrite (Sx (okr_val _ _ _)).
    specialize (IHl _ _ _ Hq Wl Dl sc1 (Px _ _ _ eq_refl) n st1).
    destruct (ex_list_def (E n) l st1 sc1) as [[[st2 sc2] o2] s2].
    rewrite IHl; [reflexivity|]. destruct o2; exact Hok.
Qed.

Lemma rc_block f (IH : rline f) e body i' e' :
  RC (S f) e (IBlock body) = Ok (i', e') -> forallb (wfi cl true) body = true -> dok i' = true ->
  e' = e /\ noconst i' /\ simE e (IBlock body) i'.
Proof.
  intros H W D. rewrite recreate_S_IBlock in H. inv_bind H p Hp. destruct p as [body' e1].
  injection H as <- <-. cbn [dok] in D.
  split; [reflexivity|]. split; [nc|].
  intros sc Ha n st. destruct n as [|n]; [intros Hok; exfalso; exact (E0_not_ok _ _ _ _ _ Hok)|].
  rewrite !exec_S_IBlock.
  pose proof (rlines f IH _ _ _ _ Hp W D ([] :: sc) (agree_push _ _ Ha) n st) as HL.
  pose proof (ex_list_shape (E n) body st ([] :: sc)) as Sh.
  destruct (ex_list_def (E n) body st ([] :: sc)) as [[[st2 sc2] o2] s2].
  destruct (Sh _ _ _ _ eq_refl) as [[vs [-> [-> _]]]|[-> Hn]]; intros Hok.
  - rewrite HL; [reflexivity|]. split; discriminate.
  - rewrite HL; [reflexivity|]. exact Hok.
Qed.

(* ================================================================= *)
(* if                                                                 *)
(* ================================================================= *)
Lemma if_sim e c c' t t' fl fl' : wfi cl false c = true ->
  simE e c c' -> simE e t t' -> simE e fl fl' -> simE e (IIfElse c t fl) (IIfElse c' t' fl').
Proof.
  intros Wc Sc St Sf sc Ha n st.
  destruct n as [|n]; [intros Hok; exfalso; exact (E0_not_ok _ _ _ _ _ Hok)|].
  rewrite !exec_S_IIfElse. apply with_val_sim; [apply (keepsE powf pre cl); exact Wc|apply Sc; exact Ha|].
  intros st1 v. destruct v as [b| | | | | | | | |]; try reflexivity.
  destruct b; [apply St|apply Sf]; exact Ha.
Qed.

Lemma rc_if f (IH : rexpr f) e c t fl i' e' :
  RC (S f) e (IIfElse c t fl) = Ok (i', e') ->
  wfi cl false c = true -> wfi cl false t = true -> wfi cl false fl = true -> dok i' = true ->
  e' = e /\ noconst i' /\ simE e (IIfElse c t fl) i'.
Proof.
  intros H Wc Wt Wf D. rewrite recreate_S_IIfElse in H. inv_bind H p Hp. destruct p as [c' e1].
  assert (Hc : (exists b, c' = IVar (VBool b)) \/
               (forall b, c' <> IVar (VBool b))).
  { destruct c' as [ | | | | | | | | | | | | | | | | | | | | | |v| | ]; try (right; intros ?; discriminate).
    destruct v as [b| | | | | | | | |]; try (right; intros ?; discriminate). left; eauto. }
  destruct Hc as [[b ->]|Hc].
  - destruct (IH _ _ _ _ Hp Wc eq_refl) as [-> [_ Sc]].
    destruct b.
    + destruct (IH _ _ _ _ H Wt D) as [-> [Nc St]].
      split; [reflexivity|]. split; [exact Nc|].
      intros sc Ha n st Hok. destruct n as [|n]; [exfalso; exact (E0_not_ok _ _ _ _ _ Hok)|].
      rewrite exec_S_IIfElse in Hok |- *.
      rewrite (with_val_const powf pre n sc c _ st _ (Sc sc Ha n) Hok) in Hok |- *.
      rewrite <- (St sc Ha n st Hok) in Hok |- *. apply E_up. exact Hok.
    + destruct (IH _ _ _ _ H Wf D) as [-> [Nc Sf]].
      split; [reflexivity|]. split; [exact Nc|].
      intros sc Ha n st Hok. destruct n as [|n]; [exfalso; exact (E0_not_ok _ _ _ _ _ Hok)|].
      rewrite exec_S_IIfElse in Hok |- *.
      rewrite (with_val_const powf pre n sc c _ st _ (Sc sc Ha n) Hok) in Hok |- *.
      rewrite <- (Sf sc Ha n st Hok) in Hok |- *. apply E_up. exact Hok.
  - assert (H' : obind (RC f e1 t) (fun '(t', e) => obind (RC f e fl) (fun '(f', e) =>
                   Ok (IIfElse c' t' f', e))) = Ok (i', e')).
    { destruct c'; try exact H. destruct v as [b| | | | | | | | |]; try exact H.
      exfalso. exact (Hc b eq_refl). }
    clear H. inv_bind H' q Hq. destruct q as [t' e2]. inv_bind H' r Hr. destruct r as [f' e3].
    injection H' as <- <-. cbn [dok] in D. repeat rewrite andb_true_iff in D.
    destruct D as [[Dc Dt] Df].
    destruct (IH _ _ _ _ Hp Wc Dc) as [-> [_ Sc]].
    destruct (IH _ _ _ _ Hq Wt Dt) as [-> [_ St]].
    destruct (IH _ _ _ _ Hr Wf Df) as [-> [_ Sf]].
    split; [reflexivity|]. split; [nc|]. apply if_sim; assumption.
Qed.

(* ================================================================= *)
(* if-set                                                             *)
(* ================================================================= *)
Lemma rc_setif f (IH : rexpr f) e nm t x ifm els i' e' :
  RC (S f) e (ISetIfElse nm t x ifm els) = Ok (i', e') ->
  wfi cl false x = true -> wfi cl false ifm = true -> wfi cl false els = true -> dok i' = true ->
  e' = e /\ noconst i' /\ simE e (ISetIfElse nm t x ifm els) i'.
Proof.
  intros H Wx Wa Wb D. rewrite recreate_S_ISetIfElse in H.
  inv_bind H p Hp. destruct p as [x' e1]. inv_bind H q Hq. destruct q as [ifm' e2].
  inv_bind H r Hr. destruct r as [els' e3]. injection H as <- <-.
  cbn [dok] in D. repeat rewrite andb_true_iff in D. destruct D as [[Dx Da] Db].
  destruct (IH _ _ _ _ Hp Wx Dx) as [-> [_ Sx]].
  destruct (IH _ _ _ _ Hq Wa Da) as [_ [_ Sa]].
  destruct (IH _ _ _ _ Hr Wb Db) as [-> [_ Sb]].
  split; [reflexivity|]. split; [nc|].
  intros sc Ha n st. destruct n as [|n]; [intros Hok; exfalso; exact (E0_not_ok _ _ _ _ _ Hok)|].
  rewrite !exec_S_ISetIfElse.
  apply with_val_sim; [apply (keepsE powf pre cl); exact Wx|apply Sx; exact Ha|].
  intros st1 v. destruct (matches (as_type v) t).
  - specialize (Sa ([(nm, v)] :: sc) (agree_bind_layer e sc nm t v Ha) n st1).
    destruct (E n st1 ([(nm, v)] :: sc) ifm) as [[st2 sc2] s2].
    intros Hok. rewrite Sa; [reflexivity|exact Hok].
  - apply Sb. exact Ha.
Qed.

(* ================================================================= *)
(* match                                                              *)
(* ================================================================= *)
Definition armE (e : lenv) (a a' : arm) : Prop :=
  match a, a' with
  | ArmType n t b, ArmType n' t' b' =>
      n' = n /\ t' = t /\ simE (lenv_insert n (LOther t) (lenv_push e)) b b'
  | ArmValue cs b, ArmValue cs' b' => Forall2 (simE e) cs cs' /\ simE e b b'
  | ArmOther b, ArmOther b' => simE e b b'
  | _, _ => False
  end.

Lemma armE_at e sc n a a' : agree e sc -> armE e a a' -> arm_rel (E n) sc a a'.
Proof.
  intros Ha. destruct a as [nm t b|cs b|b], a' as [nm' t' b'|cs' b'|b']; cbn [armE arm_rel]; try tauto.
  - intros [-> [-> S]]. split; [reflexivity|]. split; [reflexivity|].
    intros v. apply S. apply agree_bind_layer. exact Ha.
  - intros [Scs Sb]. split; [apply (Forall2_at_sc powf pre e); assumption|apply Sb; exact Ha].
  - intros S. apply S. exact Ha.
Qed.

Lemma rarm f (IH : rexpr f) a e a' e' :
  rec_arm_def (RC f) a e = Ok (a', e') -> wf_arm cl a = true -> dok_arm a' = true ->
  e' = e /\ armE e a a'.
Proof.
  destruct a as [nm t b|cs b|b]; cbn [rec_arm_def wf_arm]; intros H W D.
  - inv_bind H p Hp. destruct p as [b' e1]. injection H as <- <-. cbn [dok_arm] in D.
    destruct (IH _ _ _ _ Hp W D) as [_ [_ S]]. split; [reflexivity|]. cbn [armE]. auto.
  - inv_bind H p Hp. destruct p as [cs' e1]. inv_bind H q Hq. destruct q as [b' e2].
    injection H as <- <-. cbn [dok_arm] in D.
    apply andb_true_iff in W. apply andb_true_iff in D. destruct W as [Wc Wb]. destruct D as [Dc Db].
    destruct (rexprs powf pre cl f IH _ _ _ _ Hp Wc Dc) as [-> [Sc _]].
    destruct (IH _ _ _ _ Hq Wb Db) as [-> [_ Sb]]. split; [reflexivity|]. cbn [armE]. auto.
  - inv_bind H p Hp. destruct p as [b' e1]. injection H as <- <-. cbn [dok_arm] in D.
    destruct (IH _ _ _ _ Hp W D) as [-> [_ S]]. split; [reflexivity|exact S].
Qed.

Lemma rarms f (IH : rexpr f) : forall arms e arms' e',
  rec_arms_def (RC f) arms e = Ok (arms', e') ->
  forallb (wf_arm cl) arms = true -> forallb dok_arm arms' = true ->
  e' = e /\ Forall2 (armE e) arms arms'.
Proof.
  induction arms as [|a arms IHl]; intros e arms' e' H W D.
  - injection H as <- <-. split; [reflexivity|constructor].
  - cbn [rec_arms_def] in H. fold (rec_arms_def (RC f)) in H.
    inv_bind H p Hp. destruct p as [a' e1]. inv_bind H q Hq. destruct q as [l1 e2].
    injection H as <- <-.
    cbn [forallb] in W, D. apply andb_true_iff in W. apply andb_true_iff in D.
    destruct W as [Wa Wl]. destruct D as [Da Dl].
    destruct (rarm f IH _ _ _ _ Hp Wa Da) as [-> Sa].
    destruct (IHl _ _ _ Hq Wl Dl) as [-> Sl].
    split; [reflexivity|]. constructor; assumption.
Qed.

Lemma arm_keepsE n a : wf_arm cl a = true -> arm_keeps (E n) a.
Proof.
  destruct a as [nm t b|cs b|b]; cbn [wf_arm arm_keeps]; intros W.
  - apply (keepsE powf pre cl). exact W.
  - apply andb_true_iff in W. destruct W as [Wc Wb].
    split; [apply (keeps_all powf pre cl); exact Wc|apply (keepsE powf pre cl); exact Wb].
  - apply (keepsE powf pre cl). exact W.
Qed.

Lemma rc_match f (IH : rexpr f) e x arms i' e' :
  RC (S f) e (IMatch x arms) = Ok (i', e') ->
  wfi cl false x = true -> forallb (wf_arm cl) arms = true -> dok i' = true ->
  e' = e /\ noconst i' /\ simE e (IMatch x arms) i'.
Proof.
  intros H Wx Wa D. rewrite recreate_S_IMatch in H.
  inv_bind H p Hp. destruct p as [x' e1]. inv_bind H q Hq. destruct q as [arms' e2].
  injection H as <- <-. cbn [dok] in D. fold dok_arm in D.
  apply andb_true_iff in D. destruct D as [Dx Da].
  destruct (IH _ _ _ _ Hp Wx Dx) as [-> [_ Sx]].
  destruct (rarms f IH _ _ _ _ Hq Wa Da) as [-> Sa].
  split; [reflexivity|]. split; [nc|].
  intros sc Ha n st. destruct n as [|n]; [intros Hok; exfalso; exact (E0_not_ok _ _ _ _ _ Hok)|].
  rewrite !exec_S_IMatch.
  apply with_val_sim; [apply (keepsE powf pre cl); exact Wx|apply Sx; exact Ha|].
  intros st1 v. apply match_arms_sim.
  - revert Wa. apply forallb_Forall. intros a. apply arm_keepsE.
  - clear -Sa Ha. induction Sa as [|a a' l l' Haa _ IHF]; [constructor|].
    constructor; [apply (armE_at e); assumption|exact IHF].
Qed.

(* ================================================================= *)
(* loop                                                               *)
(* ================================================================= *)
Lemma rc_loop f (IH : rexpr f) e b i' e' :
  RC (S f) e (ILoop b) = Ok (i', e') -> wfi cl false b = true -> dok i' = true ->
  e' = e /\ noconst i' /\ simE e (ILoop b) i'.
Proof.
  intros H Wb D. rewrite recreate_S_ILoop in H. inv_bind H p Hp. destruct p as [b' e1].
  injection H as <- <-. cbn [dok] in D.
  destruct (IH _ _ _ _ Hp Wb D) as [-> [_ Sb]].
  split; [reflexivity|]. split; [nc|].
  intros sc Ha n st. destruct n as [|n]; [intros Hok; exfalso; exact (E0_not_ok _ _ _ _ _ Hok)|].
  rewrite !exec_S_ILoop. apply loop_sim; [apply (keepsE powf pre cl); exact Wb|apply Sb; exact Ha].
Qed.

(* ================================================================= *)
(* x := e                                                             *)
(* ================================================================= *)
Lemma lvar_of_instr_const x lv u : nc1 x ->
  lvar_of_instr x = Ok lv -> lv = LVariable u -> x = IVar u.
Proof.
  intros N H ->. destruct x; cbn [lvar_of_instr] in H;
    try (destruct (rt _) as [t0| | |]; cbn [obind] in H; discriminate H);
    try discriminate H.
  - injection H as ->. destruct N.
  - injection H as ->. reflexivity.
Qed.

Lemma rl_set f (IH : rexpr f) e nm x i' e' :
  RC (S f) e (ISet nm x) = Ok (i', e') -> wfi cl false x = true -> dok i' = true ->
  simE e (ISet nm x) i' /\ forall sc, agree e sc -> post e' sc (ISet nm x).
Proof.
  intros H Wx D. rewrite recreate_S_ISet in H. inv_bind H p Hp. destruct p as [x' e1].
  inv_bind H lv Hlv. injection H as <- <-. cbn [dok] in D.
  destruct (IH _ _ _ _ Hp Wx D) as [-> [[N _] Sx]]. split.
  - apply (wrap_sim powf pre cl (fun y => ISet nm y)); [|exact Wx|exact Sx].
    eexists. intros; apply exec_S_ISet.
  - intros sc Ha n st st1 sc1 v HE. destruct n as [|n]; [rewrite exec_O in HE; discriminate HE|].
    rewrite exec_S_ISet in HE. unfold with_val_def in HE.
    pose proof (keepsE powf pre cl n x Wx st sc) as K.
    destruct (E n st sc x) as [[st2 sc2] s2] eqn:Ex. unfold scs in K; cbn [fst snd] in K. subst sc2.
    destruct s2; try discriminate HE. injection HE as <- <- <-.
    apply agree_insert; [|exact Ha]. intros u Hu.
    pose proof (lvar_of_instr_const _ _ _ N Hlv Hu) as ->.
    pose proof (sim_const powf pre n sc x u st (Sx sc Ha n)) as HC.
    rewrite Ex in HC. specialize (HC (okr_val _ _ _)). injection HC as _ ->. reflexivity.
Qed.

(* ================================================================= *)
(* (a, b) := e                                                        *)
(* ================================================================= *)
Lemma zip_nil {A} (g : A -> outcome lvar) xs e : zip_insert g [] xs e = Ok e.
Proof. reflexivity. Qed.
Lemma zip_cons_nil {A} (g : A -> outcome lvar) n ids e : zip_insert g (n :: ids) [] e = Ok e.
Proof. reflexivity. Qed.
Lemma zip_cons {A} (g : A -> outcome lvar) n ids x xs e :
  zip_insert g (n :: ids) (x :: xs) e = obind (g x) (fun lv => zip_insert g ids xs (lenv_insert n lv e)).
Proof. reflexivity. Qed.

Lemma dbind_nil vs sc : destruct_bind_def [] vs sc = sc.
Proof. reflexivity. Qed.
Lemma dbind_cons_nil n ids sc : destruct_bind_def (n :: ids) [] sc = sc.
Proof. reflexivity. Qed.
Lemma dbind_cons n ids v vs sc :
  destruct_bind_def (n :: ids) (v :: vs) sc = destruct_bind_def ids vs (scopes_insert n v sc).
Proof. reflexivity. Qed.

(* right-hand side folded to a constant tuple *)
Lemma zip_const_agree ids : forall vs e sc e',
  agree e sc -> zip_insert (fun v => Ok (LVariable v)) ids vs e = Ok e' ->
  agree e' (destruct_bind_def ids vs sc).
Proof.
  induction ids as [|n ids IH]; intros vs e sc e' Ha H.
  - rewrite zip_nil in H. injection H as <-. rewrite dbind_nil. exact Ha.
  - destruct vs as [|v vs].
    + rewrite zip_cons_nil in H. injection H as <-. rewrite dbind_cons_nil. exact Ha.
    + rewrite zip_cons in H. cbn [obind] in H. rewrite dbind_cons.
      apply (IH _ _ _ _ (agree_insert e sc n (LVariable v) v ltac:(intros u [= ->]; reflexivity) Ha) H).
Qed.

(* right-hand side a tuple literal *)
Lemma zip_instr_agree ids : forall es vs e sc e',
  agree e sc -> Forall nc1 es -> Forall2 (fun x v => forall u, x = IVar u -> v = u) es vs ->
  zip_insert lvar_of_instr ids es e = Ok e' -> agree e' (destruct_bind_def ids vs sc).
Proof.
  induction ids as [|n ids IH]; intros es vs e sc e' Ha N F H.
  - rewrite zip_nil in H. injection H as <-. rewrite dbind_nil. exact Ha.
  - destruct F as [|x v es vs Hxv F].
    + rewrite zip_cons_nil in H. injection H as <-. rewrite dbind_cons_nil. exact Ha.
    + rewrite zip_cons in H. inv_bind H lv Hlv. rewrite dbind_cons.
      inversion N as [|? ? Nx Nes]; subst.
      apply (IH _ _ _ _ _ (agree_insert e sc n lv v
               (fun u Hu => eq_sym (Hxv u (lvar_of_instr_const _ _ _ Nx Hlv Hu))) Ha) Nes F H).
Qed.

(* any other right-hand side: the static type has at least as many components as names *)
Lemma dbind_no_values ids sc : destruct_bind_def ids [] sc = sc.
Proof. destruct ids; reflexivity. Qed.

Lemma zip_other_agree ids : forall ts vs e sc e',
  agree e sc -> (length ids <= length ts)%nat ->
  zip_insert (fun t => Ok (LOther t)) ids ts e = Ok e' -> agree e' (destruct_bind_def ids vs sc).
Proof.
  induction ids as [|n ids IH]; intros ts vs e sc e' Ha L H.
  - rewrite zip_nil in H. injection H as <-. rewrite dbind_nil. exact Ha.
  - destruct ts as [|t ts]; [cbn [length] in L; lia|].
    rewrite zip_cons in H. cbn [obind] in H. cbn [length] in L.
    destruct vs as [|v vs].
    + rewrite dbind_cons_nil. rewrite <- (dbind_no_values ids sc).
      apply (IH ts [] (lenv_insert n (LOther t) e) sc e'); [|lia|exact H].
      apply agree_insert_nonconst; [intros u; discriminate|exact Ha].
    + rewrite dbind_cons.
      apply (IH ts vs (lenv_insert n (LOther t) e) (scopes_insert n v sc) e'); [|lia|exact H].
      apply agree_insert; [intros u; discriminate|exact Ha].
Qed.

(* the values of a tuple literal, component by component *)
Lemma runs_consts n : forall es st sc vs st' sc',
  runs (E n) es st sc vs st' sc' -> Forall2 (fun x v => forall u, x = IVar u -> v = u) es vs.
Proof.
  induction 1 as [|x l st sc st1 sc1 v vs st2 sc2 Hx _ IH]; constructor; [|exact IH].
  intros u ->. destruct n as [|n]; [rewrite exec_O in Hx; discriminate Hx|].
  rewrite exec_S_IVar in Hx. injection Hx as _ _ ->. reflexivity.
Qed.

Lemma tuple_value_runs n es st sc st1 sc1 vs :
  E n st sc (ITuple es) = (st1, sc1, SVal (VTup vs)) ->
  exists m, runs (E m) es st sc vs st1 sc1.
Proof.
  destruct n as [|n]; [rewrite exec_O; discriminate|]. rewrite exec_S_ITuple. unfold with_list_def.
  intros H. exists n.
  pose proof (ex_list_shape (E n) es st sc) as Sh.
  destruct (ex_list_def (E n) es st sc) as [[[st2 sc2] o2] s2] eqn:EL.
  destruct (Sh _ _ _ _ eq_refl) as [[ws [-> [-> _]]]|[-> Hn]].
  - injection H as <- <- <-. apply (ex_list_runs (E n) _ _ _ _ _ _ _ EL).
  - injection H as _ _ ->. destruct Hn.
Qed.

Lemma destruct_generic ids x e :
  (forall vs, x <> IVar (VTup vs)) -> (forall es, x <> ITuple es) ->
  destruct_insert ids x e =
  obind (rt x) (fun t =>
    match flatten_tuple t with
    | Some ts => zip_insert (fun t => Ok (LOther t)) ids ts e
    | None => zip_insert (fun t => Ok (LOther t)) ids (map (fun _ => TNever) ids) e
    end).
Proof.
  intros H1 H2. destruct x; try reflexivity.
  - exfalso. exact (H2 es eq_refl).
  - destruct v; try reflexivity. exfalso. exact (H1 vs eq_refl).
Qed.

Lemma rl_destruct f (IH : rexpr f) e ids x i' e' :
  RC (S f) e (IDestruct ids x) = Ok (i', e') -> wfi cl false x = true -> dok i' = true ->
  simE e (IDestruct ids x) i' /\ forall sc, agree e sc -> post e' sc (IDestruct ids x).
Proof.
  intros H Wx D. rewrite recreate_S_IDestruct in H. inv_bind H p Hp. destruct p as [x' e1].
  inv_bind H e2 He2. injection H as <- <-. cbn [dok] in D.
  apply andb_true_iff in D. destruct D as [DC D].
  destruct (IH _ _ _ _ Hp Wx D) as [-> [[_ N] Sx]]. split.
  - apply (wrap_sim powf pre cl (fun y => IDestruct ids y)); [|exact Wx|exact Sx].
    eexists. intros; apply exec_S_IDestruct.
  - intros sc Ha n st st1 sc1 v HE. destruct n as [|n]; [rewrite exec_O in HE; discriminate HE|].
    rewrite exec_S_IDestruct in HE. unfold with_val_def in HE.
    pose proof (keepsE powf pre cl n x Wx st sc) as K.
    pose proof (Sx sc Ha n st) as Sx1.
    destruct (E n st sc x) as [[st2 sc2] s2] eqn:Ex. unfold scs in K; cbn [fst snd] in K. subst sc2.
    destruct s2 as [w| | | | | |]; try discriminate HE.
    destruct w as [| | | | | |vs| | |]; try discriminate HE. injection HE as <- <- <-.
    specialize (Sx1 (okr_val _ _ _)).
    assert (Hx' : (exists ws, x' = IVar (VTup ws)) \/ (exists es, x' = ITuple es) \/
                  ((forall ws, x' <> IVar (VTup ws)) /\ (forall es, x' <> ITuple es))).
    { destruct x'; try (right; right; split; intros; discriminate).
      - right; left; eauto.
      - destruct v; try (right; right; split; intros; discriminate). left; eauto. }
    destruct Hx' as [[ws ->]|[[es ->]|[H1 H2]]].
    + (* constant *)
      destruct n as [|n]; [rewrite exec_O in Sx1; discriminate Sx1|].
      rewrite exec_S_IVar in Sx1. injection Sx1 as <- <-.
      cbn [destruct_insert] in He2. apply (zip_const_agree ids _ _ _ _ Ha He2).
    + (* tuple literal *)
      destruct (tuple_value_runs _ _ _ _ _ _ _ Sx1) as [m R].
      cbn [destruct_insert] in He2.
      apply (zip_instr_agree ids es vs _ _ _ Ha N (runs_consts m _ _ _ _ _ _ R) He2).
    + rewrite (destruct_generic ids x' e H1 H2) in He2. inv_bind He2 T HT.
      assert (DC' : match flatten_tuple T with
                    | Some ts => Nat.leb (length ids) (length ts) | None => true end = true).
      { unfold dcond in DC. rewrite HT in DC. destruct x'; try exact DC.
        - exfalso. exact (H2 es eq_refl).
        - destruct v; try (cbn [rt] in HT; injection HT as <-; cbn [as_type flatten_tuple]; reflexivity).
          exfalso. exact (H1 vs0 eq_refl). }
      destruct (flatten_tuple T) as [ts|].
      * apply Nat.leb_le in DC'. apply (zip_other_agree ids ts vs _ _ _ Ha DC' He2).
      * apply (zip_other_agree ids (map (fun _ : name => TNever) ids) vs _ _ _ Ha);
          [rewrite map_length; lia|exact He2].
Qed.

(* ================================================================= *)
(* the induction                                                      *)
(* ================================================================= *)
Hypothesis anonfn_case : forall f, rexpr f -> rline f -> forall e ps body ret i' e',
  RC (S f) e (IAnonFn ps body ret) = Ok (i', e') ->
  cl = true -> forallb (wfi cl true) body = true -> dok i' = true ->
  e' = e /\ noconst i' /\ simE e (IAnonFn ps body ret) i'.

Hypothesis fndecl_case : forall f, rexpr f -> rline f -> forall e nm ps body ret i' e',
  RC (S f) e (IFnDecl nm ps body ret) = Ok (i', e') ->
  cl = true -> forallb (wfi cl true) body = true -> dok i' = true ->
  simE e (IFnDecl nm ps body ret) i' /\ forall sc, agree e sc -> post e' sc (IFnDecl nm ps body ret).

Lemma rexpr_O : rexpr 0.
Proof. intros e i i' e' H. rewrite recreate_O in H. discriminate H. Qed.

Lemma rline_O : rline 0.
Proof. intros e i i' e' H. rewrite recreate_O in H. discriminate H. Qed.

Lemma rexpr_S f : rexpr f -> rline f -> rexpr (S f).
Proof.
  intros IH IHl e i i' e' H W D.
  destruct i; cbn [wfi] in W; repeat rewrite andb_true_iff in W.
  - (* IAnonFn *) destruct W as [Wc Wb]. apply (anonfn_case f IH IHl _ _ _ _ _ _ H Wc Wb D).
  - (* IArray *) apply (rc_array powf pre cl f IH _ _ _ _ _ H W D).
  - (* IArrayRepeat *) destruct W as [Wa Wb]. apply (rc_repeat powf pre cl f IH _ _ _ _ _ H Wa Wb D).
  - (* IBlock *) apply (rc_block f IHl _ _ _ _ H W D).
  - apply (rc_break powf pre f _ _ _ H).
  - apply (rc_continue powf pre f _ _ _ H).
  - (* IDestruct *) destruct W as [C _]. discriminate C.
  - apply (rc_field powf pre cl f IH _ _ _ _ _ H W D).
  - (* IFnDecl *) destruct W as [[C _] _]. discriminate C.
  - (* IIfElse *) destruct W as [[Wc Wt] Wf]. apply (rc_if f IH _ _ _ _ _ _ H Wc Wt Wf D).
  - apply (rc_local powf pre f _ _ _ _ _ H).
  - apply (rc_loop f IH _ _ _ _ H W D).
  - (* IMatch *) destruct W as [Wx Wa]. apply (rc_match f IH _ _ _ _ _ H Wx Wa D).
  - apply (rc_mut powf pre cl f IH _ _ _ _ _ H W D).
  - (* IReduce *) destruct W as [[Wa Wb] Wc]. apply (rc_reduce powf pre cl f IH _ _ _ _ _ _ H Wa Wb Wc D).
  - (* ISet *) destruct W as [C _]. discriminate C.
  - (* ISetIfElse *) destruct W as [[Wx Wa] Wb]. apply (rc_setif f IH _ _ _ _ _ _ _ _ H Wx Wa Wb D).
  - (* ISlicing *) destruct W as [[[Wl Wa] Wb] Wc].
    apply (rc_slicing powf pre cl f IH _ _ _ _ _ _ _ H Wl Wa Wb Wc D).
  - apply (rc_struct powf pre cl f IH _ _ _ _ H W D).
  - apply (rc_tuple powf pre cl f IH _ _ _ _ H W D).
  - apply (rc_tuple_access powf pre cl f IH _ _ _ _ _ H W D).
  - apply (rc_type_filter powf pre cl f IH _ _ _ _ _ H W D).
  - apply (rc_var powf pre f _ _ _ _ H).
  - (* IBin *) destruct W as [Wa Wb].
    destruct (binop_eq_dec op And) as [->|NA]; [apply (rc_and powf pre cl f IH _ _ _ _ _ H Wa Wb D)|].
    destruct (binop_eq_dec op Or) as [->|NO]; [apply (rc_or powf pre cl f IH _ _ _ _ _ H Wa Wb D)|].
    apply (rc_bin powf pre cl f IH _ _ _ _ _ _ NA NO H Wa Wb D).
  - (* IUn *) destruct W as [Wo Wx]. apply (rc_un powf pre cl f IH _ _ _ _ _ H Wo Wx D).
Qed.

(* an expression used as a line *)
Lemma line_of_expr f (IH : rexpr f) e i i' e' :
  RC f e i = Ok (i', e') -> wfi cl false i = true -> dok i' = true ->
  simE e i i' /\ forall sc, agree e sc -> post e' sc i.
Proof.
  intros H W D. destruct (IH _ _ _ _ H W D) as [-> [_ S]]. split; [exact S|].
  intros sc Ha n st st1 sc1 v HE.
  pose proof (keepsE powf pre cl n i W st sc) as K. rewrite HE in K.
  unfold scs in K; cbn [fst snd] in K. subst sc1. exact Ha.
Qed.

Lemma rline_S f : rexpr f -> rline f -> rline (S f).
Proof.
  intros IH IHl e i i' e' H W D.
  pose proof (rexpr_S f IH IHl) as IHS.
  destruct i; try (apply (line_of_expr (S f) IHS _ _ _ _ H W D)).
  - (* IDestruct *) cbn [wfi andb] in W. apply (rl_destruct f IH _ _ _ _ _ H W D).
  - (* IFnDecl *) cbn [wfi andb] in W. apply andb_true_iff in W. destruct W as [Wc Wb].
    apply (fndecl_case f IH IHl _ _ _ _ _ _ _ H Wc Wb D).
  - (* ISet *) cbn [wfi andb] in W. apply (rl_set f IH _ _ _ _ _ H W D).
Qed.

Theorem rall : forall f, rexpr f /\ rline f.
Proof.
  induction f as [|f [IH IHl]]; [split; [apply rexpr_O|apply rline_O]|].
  split; [apply rexpr_S|apply rline_S]; assumption.
Qed.

End Sim.

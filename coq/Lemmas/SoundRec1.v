(* SoundRec1.v — layer 3, the constant-propagation pass (1/3): the type-level functions
   the checker uses are MONOTONE under narrowing.  When the pass replaces a name by the
   constant it is bound to, or folds an operation, static types can only get smaller
   (w.r.t. [matches]); every side condition of the typing rules survives that, and every
   result type gets smaller too.  "T' = TNever" is always a possible outcome (a folded
   `if true { return .. } else ..`), which the rules tolerate ([qres], SoundTyping.v). *)
From SSL.Model Require Import Base Ty Float Value Ops Seq Syntax Rt Recreate Exec Check.
From SSL.Lemmas Require Import TyLemmas ValueLemmas SeqLemmas ExecLemmas SoundLemmas CellLemmas
  SoundDefs SoundVals SoundTyping Sound3 Sound4.

Arguments matches : simpl never.
Arguments ty_eqb : simpl never.
Arguments concat : simpl never.

Local Open Scope Z_scope.

Ltac mfalse H :=
  rewrite matches_unfold in H; cbn beta iota in H;
  try (rewrite ty_eqb_unfold in H; cbn beta iota in H); discriminate H.

(* ---- below `!` there is only `!` ---- *)
Lemma below_never T : wf_ty T = true -> matches T TNever = true -> T = TNever.
Proof.
  intros W M. destruct T as [| | | | | | |ps r|e|ts|ms|e|fs]; try reflexivity;
    try (rewrite matches_nm_never in M by reflexivity; discriminate M).
  exfalso. destruct (wf_multi_inv _ W) as [L [S _]]. rewrite matches_multi_l in M.
  destruct ms as [|m ms]; [cbn in L; lia|]. cbn [forallb] in M. apply andb_true_iff in M.
  destruct M as [M _]. rewrite matches_nm_never in M; [discriminate M|].
  apply simple_nm. apply S. left. reflexivity.
Qed.

Lemma wf_simple_cases T :
  wf_ty T = true ->
  T = TNever \/ T = TAny \/ simple T = true \/
  (exists ms, T = TMulti ms /\ ms <> [] /\ forall m, In m ms -> simple m = true /\ wf_ty m = true).
Proof.
  intros W. destruct T as [| | | | | | |ps r|e|ts|ms|e|fs];
    try (right; right; left; reflexivity); try (left; reflexivity); try (right; left; reflexivity).
  right. right. right. exists ms. split; [reflexivity|].
  destruct (wf_multi_inv _ W) as [L [S [Wm _]]]. split; [destruct ms; [cbn in L; lia|discriminate]|].
  intros m Hm. auto.
Qed.

(* ================================================================= *)
(* A. the Option-returning queries                                    *)
(* ================================================================= *)
Section QueryMono.
Variable q : ty -> option ty.
Hypothesis q_multi : forall ms, q (TMulti ms) = fold_concat (map q ms).
Hypothesis q_any : q TAny = None.
Hypothesis q_never : q TNever = None.
Hypothesis q_wf : forall t r, wf_ty t = true -> q t = Some r -> wf_ty r = true.
Hypothesis q_base : forall m' m r,
  simple m' = true -> simple m = true -> wf_ty m' = true -> wf_ty m = true ->
  matches m' m = true -> q m = Some r -> exists r', q m' = Some r' /\ matches r' r = true.

Lemma q_mono_simple m' T R :
  simple m' = true -> wf_ty m' = true -> wf_ty T = true ->
  matches m' T = true -> q T = Some R -> exists r', q m' = Some r' /\ matches r' R = true.
Proof.
  intros S W' W M H.
  destruct (wf_simple_cases T W) as [->|[->|[ST|[ms [-> [Hne Hms]]]]]].
  - rewrite q_never in H. discriminate H.
  - rewrite q_any in H. discriminate H.
  - apply (q_base m' T R); assumption.
  - rewrite matches_multi_r in M by exact S. apply existsb_exists in M. destruct M as [m [Hm Mm]].
    pose proof (q_wf _ _ W H) as WR. rewrite q_multi in H.
    destruct (query_member_upper q ms R m WR H Hm) as [rm [Em Mr]].
    destruct (Hms m Hm) as [Sm Wm].
    destruct (q_base m' m rm S Sm W' Wm Mm Em) as [r' [E' M']].
    exists r'. split; [exact E'|]. apply (matches_trans _ _ _ M' Mr).
Qed.

Lemma fold_concat_below l R :
  l <> [] -> (forall m, In m l -> exists r, q m = Some r /\ matches r R = true) ->
  exists R', fold_concat (map q l) = Some R' /\ matches R' R = true.
Proof.
  intros Hne H. destruct l as [|m0 rest]; [congruence|]. cbn [map].
  destruct (H m0 (or_introl eq_refl)) as [r0 [E0 M0]]. rewrite E0.
  unfold fold_concat, fold_opt.
  assert (G : forall rest acc, matches acc R = true ->
            (forall m, In m rest -> exists r, q m = Some r /\ matches r R = true) ->
            exists R', fold_left (fun acc c => match acc, c with
                                             | Some a, Some c => Some (concat a c)
                                             | _, _ => None end) (map q rest) (Some acc) = Some R'
                       /\ matches R' R = true).
  { clear. induction rest as [|m rest IH]; intros acc Ma Hr.
    - exists acc. split; [reflexivity|exact Ma].
    - cbn [map fold_left]. destruct (Hr m (or_introl eq_refl)) as [r [E M]]. rewrite E.
      apply IH; [rewrite concat_least, Ma, M; reflexivity|].
      intros x Hx. apply Hr. right. exact Hx. }
  apply G; [exact M0|]. intros m Hm. apply H. right. exact Hm.
Qed.

Lemma q_mono T' T R :
  wf_ty T' = true -> wf_ty T = true -> matches T' T = true -> q T = Some R ->
  T' = TNever \/ exists R', q T' = Some R' /\ matches R' R = true.
Proof.
  intros W' W M H.
  destruct (wf_simple_cases T' W') as [->|[->|[ST|[ms [-> [Hne Hms]]]]]].
  - left. reflexivity.
  - exfalso. rewrite (matches_any_l_wf T W M) in H. rewrite q_any in H. discriminate H.
  - right. apply (q_mono_simple T' T R); assumption.
  - right. rewrite q_multi. apply fold_concat_below; [exact Hne|].
    intros m Hm. destruct (Hms m Hm) as [Sm Wm].
    rewrite matches_multi_l in M. rewrite forallb_forall in M.
    apply (q_mono_simple m T R Sm Wm W (M m Hm) H).
Qed.

Lemma qres_mono T' T R :
  wf_ty T' = true -> wf_ty T = true -> matches T' T = true -> qres q T R ->
  exists R', qres q T' R' /\ matches R' R = true.
Proof.
  intros W' W M [H|[-> ->]].
  - destruct (q_mono T' T R W' W M H) as [->|[R' [E' M']]].
    + exists TNever. split; [right; auto|apply matches_never_l].
    + exists R'. split; [left; exact E'|exact M'].
  - rewrite (below_never T' W' M). exists TNever. split; [right; auto|apply matches_never_l].
Qed.

End QueryMono.

Lemma qres_tuple_mono k T' T R :
  wf_ty T' = true -> wf_ty T = true -> matches T' T = true -> qres (tuple_element_at k) T R ->
  exists R', qres (tuple_element_at k) T' R' /\ matches R' R = true.
Proof.
  apply qres_mono; try reflexivity.
  - intros t r. apply tuple_element_at_wf.
  - intros m' m r S' S W' W M H. destruct m; try discriminate S; try discriminate H. cbn [tuple_element_at] in H.
    destruct m'; try discriminate S'; try (mfalse M). rewrite matches_tup in M.
    destruct (all2_nth_r _ _ _ _ _ M H) as [x [Hx Mx]]. exists x. cbn [tuple_element_at].
    split; [exact Hx|exact Mx].
Qed.

Lemma qres_field_mono f T' T R :
  wf_ty T' = true -> wf_ty T = true -> matches T' T = true -> qres (field_type f) T R ->
  exists R', qres (field_type f) T' R' /\ matches R' R = true.
Proof.
  apply qres_mono; try reflexivity.
  - intros t r. apply field_type_wf.
  - intros m' m r S' S W' W M H. destruct m; try discriminate S; try discriminate H. cbn [field_type] in H.
    destruct m'; try discriminate S'; try (mfalse M). rewrite matches_struct in M.
    rewrite forallb_forall in M. specialize (M (f, r) (assoc_in _ _ _ H)). cbn [fst snd] in M.
    cbn [field_type]. destruct (assoc f fs0) as [a|]; [|discriminate M]. exists a.
    split; [reflexivity|exact M].
Qed.

Lemma qres_index_mono T' T R :
  wf_ty T' = true -> wf_ty T = true -> matches T' T = true -> qres index_result T R ->
  exists R', qres index_result T' R' /\ matches R' R = true.
Proof.
  apply qres_mono; try reflexivity.
  - intros t r. apply index_result_wf.
  - intros m' m r S' S W' W M H. destruct m; try discriminate S; try discriminate H; cbn [index_result] in H;
      injection H as <-; destruct m'; try discriminate S'; try (mfalse M).
    + exists TString. split; [reflexivity|reflexivity].
    + rewrite matches_arr in M. exists m'. split; [reflexivity|exact M].
Qed.

Lemma qres_mut_mono T' T R :
  wf_ty T' = true -> wf_ty T = true -> matches T' T = true -> qres mut_element_type_spec T R ->
  exists R', qres mut_element_type_spec T' R' /\ matches R' R = true.
Proof.
  apply qres_mono; try reflexivity.
  - intros t r. apply mut_element_type_spec_wf.
  - intros m' m r S' S W' W M H. destruct m; try discriminate S; try discriminate H; cbn [mut_element_type_spec] in H;
      injection H as <-; destruct m'; try discriminate S'; try (mfalse M).
    rewrite matches_mut in M. exists m'. split; [reflexivity|apply ty_eqb_matches; exact M].
Qed.

Lemma qres_ret_mono T' T R :
  wf_ty T' = true -> wf_ty T = true -> matches T' T = true -> qres fn_return_type T R ->
  exists R', qres fn_return_type T' R' /\ matches R' R = true.
Proof.
  apply qres_mono; try reflexivity.
  - intros t r. apply fn_return_type_wf.
  - intros m' m r S' S W' W M H. destruct m; try discriminate S; try discriminate H; cbn [fn_return_type] in H;
      injection H as <-; destruct m'; try discriminate S'; try (mfalse M).
    rewrite matches_fun in M. apply andb_true_iff in M. exists m'. split; [reflexivity|apply M].
Qed.

Lemma element_type_mono T' T R :
  wf_ty T' = true -> wf_ty T = true -> matches T' T = true -> element_type T = Some R ->
  T' = TNever \/ exists R', element_type T' = Some R' /\ matches R' R = true.
Proof.
  apply q_mono; try reflexivity.
  - intros t r. apply element_type_wf.
  - intros m' m r S' S W' W M H. destruct m; try discriminate S; try discriminate H; cbn [element_type] in H;
      injection H as <-; destruct m'; try discriminate S'; try (mfalse M).
    rewrite matches_arr in M. exists m'. split; [reflexivity|exact M].
Qed.

(* ================================================================= *)
(* B. the pure binary operators                                       *)
(* ================================================================= *)
Lemma pair_mono l' r' l r X :
  matches l' l = true -> matches r' r = true ->
  matches (pair_ty l r) X = true -> matches (pair_ty l' r') X = true.
Proof.
  intros Ml Mr M. apply (matches_trans _ (pair_ty l r)); [|exact M].
  rewrite pair_matches, Ml, Mr. reflexivity.
Qed.

Lemma can_be_used_pure_mono o l r l' r' :
  pure_op o = true -> can_be_used o l r = Ok true ->
  matches l' l = true -> matches r' r = true -> can_be_used o l' r' = Ok true.
Proof.
  intros P H Ml Mr. destruct o; try discriminate P; cbn [can_be_used] in *; try reflexivity;
    injection H as H; f_equal;
    unfold can_be_used_add, can_be_used_num, can_be_used_int, can_be_used_bit in *;
    apply (pair_mono l' r' l r); assumption.
Qed.

Lemma add_rt_mono l r l' r' R :
  wf_ty l = true -> wf_ty r = true -> wf_ty l' = true -> wf_ty r' = true ->
  can_be_used_add l r = true -> matches l' l = true -> matches r' r = true ->
  add_return_type l r = Ok R ->
  exists R', add_return_type l' r' = Ok R' /\ matches R' R = true.
Proof.
  intros Wl Wr Wl' Wr' C Ml Mr H. unfold add_return_type in *.
  rewrite can_be_used_add_spec in C.
  destruct (element_type l) as [le|] eqn:El.
  - (* arrays *)
    assert (A : matches l (TArr TAny) = true /\ matches r (TArr TAny) = true).
    { repeat (apply orb_true_iff in C; destruct C as [C|C]);
        apply andb_true_iff in C; destruct C as [C1 C2]; try (split; assumption);
        exfalso.
      - rewrite (below_scalar_no_elem TInt l) in El by (auto || exact C1). discriminate El.
      - rewrite (below_scalar_no_elem TFloat l) in El by (auto || exact C1). discriminate El.
      - rewrite (below_scalar_no_elem TString l) in El by (auto || exact C1). discriminate El. }
    destruct A as [Al Ar].
    pose proof (element_type_wf _ _ Wl El) as Wle.
    assert (Hr' : forall re, (element_type r = Some re \/ (element_type r = None /\ re = TNever)) ->
              wf_ty re = true ->
              exists re', (element_type r' = Some re' \/ (element_type r' = None /\ re' = TNever)) /\
                          matches re' re = true).
    { intros re [Er|[Er ->]] Wre.
      - destruct (element_type_mono r' r re Wr' Wr Mr Er) as [->|[re' [Er' Mre]]].
        + exists TNever. split; [right; split; reflexivity|apply matches_never_l].
        + exists re'. split; [left; exact Er'|exact Mre].
      - assert (r = TNever) as ->.
        { destruct r; try reflexivity; exfalso;
            apply (element_type_guard _ Wr Ar); try discriminate; exact Er. }
        rewrite (below_never r' Wr' Mr). exists TNever. split; [right; split; reflexivity|reflexivity]. }
    destruct (element_type_mono l' l le Wl' Wl Ml El) as [->|[le' [El' Mle]]].
    + exists TNever. cbn [element_type]. split; [reflexivity|apply matches_never_l].
    + rewrite El'.
      assert (Fin : forall re, wf_ty re = true ->
                (element_type r = Some re \/ (element_type r = None /\ re = TNever)) ->
                R = TArr (concat le re) ->
                exists R', match element_type r' with
                           | Some re0 => Ok (TArr (concat le' re0))
                           | None => Ok (TArr (concat le' TNever)) end = Ok R' /\
                           matches R' R = true).
      { intros re Wre Hre ->. destruct (Hr' re Hre Wre) as [re' [[Er'|[Er' ->]] Mre]]; rewrite Er';
          eexists; (split; [reflexivity|]); rewrite matches_arr;
          apply concat_mono; try (apply wf_keys_ok; assumption); assumption. }
      destruct (element_type r) as [re|] eqn:Er; injection H as <-.
      * apply (Fin re); [apply (element_type_wf _ _ Wr Er)|left; reflexivity|reflexivity].
      * apply (Fin TNever); [reflexivity|right; split; reflexivity|reflexivity].
  - (* scalars (or `!`) *)
    injection H as <-.
    assert (El' : element_type l' = None).
    { repeat (apply orb_true_iff in C; destruct C as [C|C]);
        apply andb_true_iff in C; destruct C as [C1 C2].
      - apply (below_scalar_no_elem TInt); [auto|apply (matches_trans _ _ _ Ml C1)].
      - apply (below_scalar_no_elem TFloat); [auto|apply (matches_trans _ _ _ Ml C1)].
      - apply (below_scalar_no_elem TString); [auto|apply (matches_trans _ _ _ Ml C1)].
      - assert (l = TNever) as ->.
        { destruct l; try reflexivity; exfalso;
            apply (element_type_guard _ Wl C1); try discriminate; exact El. }
        rewrite (below_never l' Wl' Ml). reflexivity. }
    rewrite El'. exists l'. split; [reflexivity|exact Ml].
Qed.

Lemma bin_rt_pure_mono o l r l' r' R :
  pure_op o = true ->
  wf_ty l = true -> wf_ty r = true -> wf_ty l' = true -> wf_ty r' = true ->
  can_be_used o l r = Ok true -> bin_rt o l r = Ok R ->
  matches l' l = true -> matches r' r = true ->
  exists R', bin_rt o l' r' = Ok R' /\ matches R' R = true.
Proof.
  intros P Wl Wr Wl' Wr' C H Ml Mr.
  destruct o; try discriminate P; cbn [bin_rt] in *;
    try (injection H as <-; eexists; split; [reflexivity|first [exact Ml|reflexivity]]).
  cbn [can_be_used] in C. injection C as C.
  apply (add_rt_mono l r l' r' R); assumption.
Qed.

(* ================================================================= *)
(* C. assignment                                                      *)
(* ================================================================= *)
(* the two functions [assign_ok] is instantiated with, for each assignment operator,
   survive a narrower right operand and a ty_eqb-equal content type *)
Definition assign_pair_mono (cbu : ty -> ty -> bool) (rtf : ty -> ty -> outcome ty) : Prop :=
  forall e e' T2 T2' R,
    wf_ty e = true -> wf_ty e' = true -> wf_ty T2 = true -> wf_ty T2' = true ->
    ty_eqb e' e = true -> matches T2' T2 = true ->
    cbu e T2 = true -> rtf e T2 = Ok R -> matches R e = true ->
    cbu e' T2' = true /\ exists R', rtf e' T2' = Ok R' /\ matches R' e' = true.

Lemma eqb_below e' e : ty_eqb e' e = true -> matches e' e = true /\ matches e e' = true.
Proof.
  intros H. split; apply ty_eqb_matches; [exact H|rewrite ty_eqb_sym; exact H].
Qed.

Lemma assign_pair_plain : assign_pair_mono (fun _ _ => true) (fun _ x => Ok x).
Proof.
  intros e e' T2 T2' R We We' W2 W2' He M _ H MR. injection H as <-.
  destruct (eqb_below _ _ He) as [_ Mee']. split; [reflexivity|]. exists T2'. split; [reflexivity|].
  apply (matches_trans _ T2); [exact M|]. apply (matches_trans _ e); assumption.
Qed.

Lemma assign_pair_add : assign_pair_mono can_be_used_add add_return_type.
Proof.
  intros e e' T2 T2' R We We' W2 W2' He M C H MR.
  destruct (eqb_below _ _ He) as [Me'e Mee']. split.
  - unfold can_be_used_add in *. apply (pair_mono e' T2' e T2); assumption.
  - destruct (add_rt_mono e T2 e' T2' R We W2 We' W2' C Me'e M H) as [R' [HR' MR']].
    exists R'. split; [exact HR'|].
    apply (matches_trans _ R); [exact MR'|]. apply (matches_trans _ e); assumption.
Qed.

Lemma assign_pair_arith cbu :
  (forall l r l' r', matches l' l = true -> matches r' r = true -> cbu l r = true -> cbu l' r' = true) ->
  assign_pair_mono cbu arith_assign_rt.
Proof.
  intros Hcbu e e' T2 T2' R We We' W2 W2' He M C H MR.
  destruct (eqb_below _ _ He) as [Me'e Mee']. split; [apply (Hcbu e T2); assumption|].
  unfold arith_assign_rt in *. rewrite (matches_eqb_r _ e' e He).
  destruct (matches (TArr TNever) e); injection H as <-.
  - exists e'. split; [reflexivity|apply matches_refl; exact We'].
  - exists T2'. split; [reflexivity|].
    apply (matches_trans _ T2); [exact M|]. apply (matches_trans _ e); assumption.
Qed.

Lemma cbu_num_mono l r l' r' :
  matches l' l = true -> matches r' r = true -> can_be_used_num l r = true -> can_be_used_num l' r' = true.
Proof. unfold can_be_used_num. apply pair_mono. Qed.
Lemma cbu_int_mono l r l' r' :
  matches l' l = true -> matches r' r = true -> can_be_used_int l r = true -> can_be_used_int l' r' = true.
Proof. unfold can_be_used_int. apply pair_mono. Qed.
Lemma cbu_bit_mono l r l' r' :
  matches l' l = true -> matches r' r = true -> can_be_used_bit l r = true -> can_be_used_bit l' r' = true.
Proof. unfold can_be_used_bit. apply pair_mono. Qed.

Lemma assign_op_pair aop :
  aop = Assign \/ (exists bop, assign_base aop = Some bop) ->
  exists cbu rtf, assign_pair_mono cbu rtf /\
    forall X Y, can_be_used aop X Y = assign_ok X Y cbu rtf.
Proof.
  intros [->|[bop H]].
  - exists (fun _ _ => true), (fun _ x => Ok x). split; [apply assign_pair_plain|reflexivity].
  - destruct aop; try discriminate H.
    + exists can_be_used_add, add_return_type. split; [apply assign_pair_add|reflexivity].
    + exists can_be_used_num, arith_assign_rt. split; [apply assign_pair_arith, cbu_num_mono|reflexivity].
    + exists can_be_used_num, arith_assign_rt. split; [apply assign_pair_arith, cbu_num_mono|reflexivity].
    + exists can_be_used_num, arith_assign_rt. split; [apply assign_pair_arith, cbu_num_mono|reflexivity].
    + exists can_be_used_int, arith_assign_rt. split; [apply assign_pair_arith, cbu_int_mono|reflexivity].
    + exists can_be_used_int, arith_assign_rt. split; [apply assign_pair_arith, cbu_int_mono|reflexivity].
    + exists can_be_used_int, arith_assign_rt. split; [apply assign_pair_arith, cbu_int_mono|reflexivity].
    + exists can_be_used_bit, arith_assign_rt. split; [apply assign_pair_arith, cbu_bit_mono|reflexivity].
    + exists can_be_used_bit, arith_assign_rt. split; [apply assign_pair_arith, cbu_bit_mono|reflexivity].
    + exists can_be_used_bit, arith_assign_rt. split; [apply assign_pair_arith, cbu_bit_mono|reflexivity].
    + exists can_be_used_num, arith_assign_rt. split; [apply assign_pair_arith, cbu_num_mono|reflexivity].
Qed.

Lemma assign_single_mut e T2 cbu rtf :
  assign_ok_single (TMut e) T2 cbu rtf = Ok true <->
  cbu e T2 = true /\ exists R, rtf e T2 = Ok R /\ matches R e = true.
Proof.
  unfold assign_ok_single. cbn [mut_element_type_spec]. split.
  - destruct (rtf e T2) as [R| | |]; cbn [obind]; try discriminate. intros H. injection H as H.
    apply andb_true_iff in H. destruct H as [A B]. split; [exact A|]. exists R. auto.
  - intros [A [R [HR MR]]]. rewrite HR. cbn [obind]. rewrite A, MR. reflexivity.
Qed.

Lemma assign_ok_multi_all ms T cbu rtf :
  (forall m, In m ms -> assign_ok_single m T cbu rtf = Ok true) ->
  assign_ok (TMulti ms) T cbu rtf = Ok true.
Proof.
  unfold assign_ok. induction ms as [|m ms IH]; intros H; [reflexivity|]. cbn [fold_left obind].
  rewrite (H m (or_introl eq_refl)). apply IH. intros x Hx. apply H. right. exact Hx.
Qed.

(* a simple type below an accepted assignment target *)
Lemma assign_member_mono cbu rtf (HP : assign_pair_mono cbu rtf) m' L T2 T2' :
  simple m' = true -> wf_ty m' = true -> wf_ty L = true -> wf_ty T2 = true -> wf_ty T2' = true ->
  matches m' L = true -> matches T2' T2 = true ->
  assign_ok L T2 cbu rtf = Ok true ->
  assign_ok_single m' T2' cbu rtf = Ok true.
Proof.
  intros S W' WL W2 W2' M M2 H.
  assert (Single : forall m, simple m = true \/ m = L -> is_multi m = false -> wf_ty m = true ->
            matches m' m = true -> assign_ok_single m T2 cbu rtf = Ok true ->
            assign_ok_single m' T2' cbu rtf = Ok true).
  { intros m _ NM Wm Mm Hm. destruct (assign_ok_single_some _ _ _ _ Hm) as [vt Hvt].
    assert (m = TMut vt) as ->.
    { destruct m; try discriminate Hvt; try discriminate NM. cbn in Hvt. injection Hvt as <-. reflexivity. }
    destruct m'; try discriminate S; try (mfalse Mm). rewrite matches_mut in Mm.
    apply assign_single_mut in Hm. destruct Hm as [C [R [HR MR]]].
    apply assign_single_mut. cbn [wf_ty] in *.
    apply (HP vt m' T2 T2' R); assumption. }
  destruct (wf_simple_cases L WL) as [->|[->|[SL|[ms [-> [Hne Hms]]]]]].
  - discriminate H.
  - discriminate H.
  - rewrite assign_ok_nonmulti in H by (destruct L; try discriminate SL; reflexivity).
    apply (Single L); try assumption; [right; reflexivity|destruct L; try discriminate SL; reflexivity].
  - rewrite matches_multi_r in M by exact S. apply existsb_exists in M. destruct M as [m [Hm Mm]].
    destruct (Hms m Hm) as [Sm Wm].
    apply (Single m); try assumption; [left; exact Sm|destruct m; try discriminate Sm; reflexivity|].
    apply (assign_ok_multi_member ms T2 cbu rtf m H Hm).
Qed.

Theorem assign_mono aop L T2 L' T2' :
  aop = Assign \/ (exists bop, assign_base aop = Some bop) ->
  wf_ty L = true -> wf_ty T2 = true -> wf_ty L' = true -> wf_ty T2' = true ->
  matches L' L = true -> matches T2' T2 = true ->
  can_be_used aop L T2 = Ok true ->
  can_be_used aop L' T2' = Ok true \/ L' = TNever.
Proof.
  intros Hop WL W2 WL' W2' ML M2 H.
  destruct (assign_op_pair aop Hop) as [cbu [rtf [HP Hs]]]. rewrite Hs in *.
  destruct (wf_simple_cases L' WL') as [->|[->|[SL|[ms [-> [Hne Hms]]]]]].
  - right. reflexivity.
  - exfalso. rewrite (matches_any_l_wf L WL ML) in H. discriminate H.
  - left. rewrite assign_ok_nonmulti by (destruct L'; try discriminate SL; reflexivity).
    apply (assign_member_mono cbu rtf HP L' L T2 T2'); assumption.
  - left. apply assign_ok_multi_all. intros m Hm. destruct (Hms m Hm) as [Sm Wm].
    rewrite matches_multi_l in ML. rewrite forallb_forall in ML.
    apply (assign_member_mono cbu rtf HP m L T2 T2'); try assumption. apply ML. exact Hm.
Qed.

(* ================================================================= *)
(* D. calls                                                           *)
(* ================================================================= *)
Lemma args_ok_mono p p' Ta Ta' :
  all2 (fun x y => matches y x) p' p = true -> all2 matches Ta' Ta = true ->
  args_ok p Ta = true -> args_ok p' Ta' = true.
Proof.
  intros Mp Ma H. unfold args_ok in *. apply andb_true_iff in H. destruct H as [Hl Ha].
  apply Nat.eqb_eq in Hl. apply andb_true_iff. split.
  - apply Nat.eqb_eq. rewrite (all2_length _ _ _ Mp), (all2_length _ _ _ Ma). exact Hl.
  - rewrite all2_flip in Mp.
    apply (all2_trans_in matches (fun a p => matches a p) (fun a p => matches a p) Ta' Ta p');
      [| exact Ma |].
    + intros x y z _ _ _. apply matches_trans.
    + apply (all2_trans_in (fun a p => matches a p) matches (fun a p => matches a p) Ta p p');
        [|exact Ha|exact Mp]. intros x y z _ _ _. apply matches_trans.
Qed.

Lemma call_member_mono m' Tf Ta Ta' :
  simple m' = true -> wf_ty Tf = true -> matches m' Tf = true ->
  all2 matches Ta' Ta = true -> call_ok Tf Ta = true -> fun_member_ok Ta' m' = true.
Proof.
  intros S W M Ma H.
  assert (Single : forall m, matches m' m = true -> fun_member_ok Ta m = true -> fun_member_ok Ta' m' = true).
  { intros m Mm Hm. destruct m; try discriminate Hm. cbn [fun_member_ok] in Hm.
    destruct m'; try discriminate S; try (mfalse Mm). rewrite matches_fun in Mm.
    apply andb_true_iff in Mm. destruct Mm as [Mp _]. cbn [fun_member_ok].
    apply (args_ok_mono ps ps0 Ta Ta'); assumption. }
  destruct (wf_simple_cases Tf W) as [->|[->|[ST|[ms [-> [Hne Hms]]]]]]; try discriminate H.
  - apply (Single Tf M). destruct Tf; try discriminate ST; exact H.
  - rewrite matches_multi_r in M by exact S. apply existsb_exists in M. destruct M as [m [Hm Mm]].
    cbn [call_ok] in H. rewrite forallb_forall in H. apply (Single m Mm (H m Hm)).
Qed.

Theorem call_mono Tf Tf' Ta Ta' :
  wf_ty Tf = true -> wf_ty Tf' = true -> matches Tf' Tf = true ->
  all2 matches Ta' Ta = true -> call_ok Tf Ta = true ->
  call_ok Tf' Ta' = true \/ Tf' = TNever.
Proof.
  intros W W' M Ma H.
  destruct (wf_simple_cases Tf' W') as [->|[->|[ST|[ms [-> [Hne Hms]]]]]].
  - right. reflexivity.
  - exfalso. rewrite (matches_any_l_wf Tf W M) in H. discriminate H.
  - left. assert (E : call_ok Tf' Ta' = fun_member_ok Ta' Tf') by (destruct Tf'; try discriminate ST; reflexivity).
    rewrite E. apply (call_member_mono Tf' Tf Ta Ta'); assumption.
  - left. cbn [call_ok]. apply forallb_forall. intros m Hm. destruct (Hms m Hm) as [Sm Wm].
    rewrite matches_multi_l in M. rewrite forallb_forall in M.
    apply (call_member_mono m Tf Ta Ta'); try assumption. apply M. exact Hm.
Qed.

(* ================================================================= *)
(* E. destructuring                                                   *)
(* ================================================================= *)
Lemma all2_matches_length l1 l2 : all2 matches l1 l2 = true -> length l1 = length l2.
Proof. apply all2_length. Qed.

Lemma flat_fold_least : forall rest a0 ts,
  all2 matches a0 ts = true ->
  (forall c, In c rest -> exists tc, c = Some tc /\ all2 matches tc ts = true) ->
  exists ts', fold_left flat_step rest (Some a0) = Some ts' /\ all2 matches ts' ts = true.
Proof.
  induction rest as [|c rest IH]; intros a0 ts M0 Hr.
  - exists a0. split; [reflexivity|exact M0].
  - destruct (Hr c (or_introl eq_refl)) as [tc [-> Mc]]. cbn [fold_left flat_step].
    assert (El : length a0 = length tc)
      by (rewrite (all2_length _ _ _ M0), (all2_length _ _ _ Mc); reflexivity).
    rewrite El, Nat.eqb_refl. apply IH; [|intros c Hc; apply Hr; right; exact Hc].
    clear - M0 Mc. revert tc ts M0 Mc.
    induction a0 as [|a a0 IHa]; intros [|c tc] [|t ts] M0 Mc; cbn [all2 zip_with] in *;
      try reflexivity; try discriminate.
    apply andb_true_iff in M0. destruct M0 as [Ma M0].
    apply andb_true_iff in Mc. destruct Mc as [Mc1 Mc].
    rewrite concat_least, Ma, Mc1. cbn [andb]. apply IHa; assumption.
Qed.

Theorem flatten_mono T' T ts :
  wf_ty T' = true -> wf_ty T = true -> matches T' T = true -> flatten_tuple T = Some ts ->
  T' = TNever \/ exists ts', flatten_tuple T' = Some ts' /\ all2 matches ts' ts = true.
Proof.
  intros W' W M H.
  assert (Simple : forall m', simple m' = true -> matches m' T = true ->
            exists tm, flatten_tuple m' = Some tm /\ all2 matches tm ts = true).
  { intros m' S Mm.
    assert (Tup : exists a_, m' = TTup a_).
    { clear - S Mm W H. revert ts H Mm. induction T as [T IH] using ty_size_ind. intros ts H Mm.
      destruct T as [| | | | | | |ps r|e|tts|ms|e|fs]; try discriminate H.
      - destruct m'; try discriminate S; try (mfalse Mm). eauto.
      - rewrite matches_multi_r in Mm by exact S. apply existsb_exists in Mm.
        destruct Mm as [m [Hm Mm]].
        destruct (flatten_member_upper ms ts m W H Hm) as [tm [Em _]].
        destruct (wf_multi_inv _ W) as [_ [_ [Wm _]]].
        apply (IH m ltac:(szs) (Wm m Hm) tm Em Mm). }
    destruct Tup as [a_ ->]. exists a_. split; [reflexivity|].
    apply (flatten_tag T a_ ts W Mm H). }
  destruct (wf_simple_cases T' W') as [->|[->|[ST|[ms [-> [Hne Hms]]]]]].
  - left. reflexivity.
  - exfalso. rewrite (matches_any_l_wf T W M) in H. discriminate H.
  - right. apply Simple; assumption.
  - right. rewrite flatten_multi. destruct ms as [|m0 ms]; [congruence|]. cbn [map].
    rewrite matches_multi_l in M. rewrite forallb_forall in M.
    destruct (Simple m0 (proj1 (Hms m0 (or_introl eq_refl))) (M m0 (or_introl eq_refl))) as [t0 [E0 M0]].
    rewrite E0. apply flat_fold_least; [exact M0|].
    intros c Hc. apply in_map_iff in Hc. destruct Hc as [m [<- Hm]].
    apply Simple; [apply (Hms m); right; exact Hm|apply M; right; exact Hm].
Qed.

(* ================================================================= *)
(* F. match coverage                                                  *)
(* ================================================================= *)
Definition arm_pat (a : arm) : option (option ty) :=
  match a with
  | ArmType _ t _ => Some (Some t)
  | ArmOther _ => Some None
  | ArmValue _ _ => None
  end.

Lemma arm_covers_pats arms arms' m :
  map arm_pat arms' = map arm_pat arms -> arm_covers arms' m = arm_covers arms m.
Proof.
  revert arms'. induction arms as [|a arms IH]; intros [|a' arms'] H; try discriminate H;
    [reflexivity|]. cbn [map] in H. injection H as Ha H. unfold arm_covers in *. cbn [existsb].
  rewrite (IH arms' H). f_equal. destruct a, a'; try discriminate Ha; try reflexivity.
  injection Ha as ->. reflexivity.
Qed.

Lemma arm_covers_mono arms m' m :
  matches m' m = true -> arm_covers arms m = true -> arm_covers arms m' = true.
Proof.
  intros M H. unfold arm_covers in *. apply existsb_exists in H. destruct H as [a [Ha Hc]].
  apply existsb_exists. exists a. split; [exact Ha|]. destruct a; try exact Hc.
  apply (matches_trans _ _ _ M Hc).
Qed.

Lemma match_covers_nonmulti arms T : is_multi T = false -> match_covers arms T = arm_covers arms T.
Proof. destruct T; try reflexivity. discriminate. Qed.

Lemma covers_simple arms m' T :
  simple m' = true -> wf_ty T = true -> matches m' T = true ->
  match_covers arms T = true -> arm_covers arms m' = true.
Proof.
  intros S W M H.
  destruct (wf_simple_cases T W) as [->|[->|[ST|[ms [-> [Hne Hms]]]]]].
  - apply (arm_covers_mono arms m' TNever M H).
  - apply (arm_covers_mono arms m' TAny M H).
  - rewrite match_covers_nonmulti in H by (destruct T; try discriminate ST; reflexivity).
    apply (arm_covers_mono arms m' T M H).
  - rewrite matches_multi_r in M by exact S. apply existsb_exists in M. destruct M as [m [Hm Mm]].
    cbn [match_covers] in H. rewrite forallb_forall in H. specialize (H m Hm).
    destruct (Hms m Hm) as [Sm _].
    assert (Hc : arm_covers arms m = true) by (destruct m; try discriminate Sm; exact H).
    apply (arm_covers_mono arms m' m Mm Hc).
Qed.

Lemma forallb_ext_all {A} (f g : A -> bool) l :
  (forall x, f x = g x) -> forallb f l = forallb g l.
Proof. intros H. induction l as [|x l IH]; [reflexivity|]. cbn [forallb]. rewrite H, IH. reflexivity. Qed.

Theorem covers_mono arms arms' T' T :
  map arm_pat arms' = map arm_pat arms ->
  wf_ty T' = true -> wf_ty T = true -> matches T' T = true ->
  match_covers arms T = true -> match_covers arms' T' = true.
Proof.
  intros Hp W' W M H.
  assert (E : forall X, match_covers arms' X = match_covers arms X).
  { intros X. destruct X; cbn [match_covers]; try apply (arm_covers_pats _ _ _ Hp).
    apply forallb_ext_all. intros m. destruct m; try apply (arm_covers_pats _ _ _ Hp).
    apply forallb_ext_all. intros m'. apply (arm_covers_pats _ _ _ Hp). }
  rewrite E. clear E Hp arms'.
  assert (Some_arm : exists X, arm_covers arms X = true).
  { destruct (wf_simple_cases T W) as [->|[->|[ST|[ms [-> [Hne Hms]]]]]].
    - exists TNever. exact H.
    - exists TAny. exact H.
    - exists T. rewrite match_covers_nonmulti in H by (destruct T; try discriminate ST; reflexivity). exact H.
    - destruct ms as [|m ms]; [congruence|]. cbn [match_covers forallb] in H.
      apply andb_true_iff in H. destruct H as [H _]. destruct (Hms m (or_introl eq_refl)) as [Sm _].
      exists m. destruct m; try discriminate Sm; exact H. }
  destruct (wf_simple_cases T' W') as [->|[->|[ST|[ms [-> [Hne Hms]]]]]].
  - cbn [match_covers]. destruct Some_arm as [X HX]. apply (arm_covers_mono arms TNever X (matches_never_l X) HX).
  - rewrite <- (matches_any_l_wf T W M). exact H.
  - rewrite match_covers_nonmulti by (destruct T'; try discriminate ST; reflexivity).
    apply (covers_simple arms T' T); assumption.
  - cbn [match_covers]. apply forallb_forall. intros m Hm. destruct (Hms m Hm) as [Sm Wm].
    rewrite matches_multi_l in M. rewrite forallb_forall in M.
    assert (Hc : arm_covers arms m = true) by (apply (covers_simple arms m T); auto).
    destruct m; try discriminate Sm; exact Hc.
Qed.

(* ================================================================= *)
(* G. literals                                                        *)
(* ================================================================= *)
Lemma Forall2_matches_all2 l1 l2 : Forall2 (fun a b => matches a b = true) l1 l2 -> all2 matches l1 l2 = true.
Proof. intros H. induction H as [|a b l1 l2 M _ IH]; [reflexivity|]. cbn [all2]. rewrite M, IH. reflexivity. Qed.

Lemma all2_matches_Forall2 l1 l2 : all2 matches l1 l2 = true -> Forall2 (fun a b => matches a b = true) l1 l2.
Proof.
  revert l2. induction l1 as [|a l1 IH]; intros [|b l2] H; cbn [all2] in H; try discriminate H;
    [constructor|]. apply andb_true_iff in H. destruct H as [A B]. constructor; auto.
Qed.

Lemma join_all_mono Ts' Ts et :
  forallb wf_ty Ts = true -> all2 matches Ts' Ts = true ->
  matches (join_all Ts) et = true -> matches (join_all Ts') et = true.
Proof.
  intros W M H.
  assert (Each : forall t', In t' Ts' -> matches t' et = true).
  { intros t' Ht'. destruct (all2_in_l _ _ _ _ M Ht') as [t [Ht Mt]].
    apply (matches_trans _ t); [exact Mt|]. apply (matches_trans _ (join_all Ts)); [|exact H].
    unfold join_all. apply concat_all_upper; [|exact Ht]. rewrite forallb_forall in W. exact W. }
  unfold join_all, concat_all. destruct Ts' as [|t0 Ts']; [apply matches_never_l|].
  rewrite fold_concat_least. apply andb_true_iff. split; [apply Each; left; reflexivity|].
  apply forallb_forall. intros x Hx. apply Each. right. exact Hx.
Qed.

(* struct literals: same keys in the same order, smaller field types *)
Definition srel (acc' acc : list (ident * ty)) : Prop :=
  Forall2 (fun a b => fst a = fst b /\ matches (snd a) (snd b) = true) acc' acc.

Lemma srel_insert k t' t acc' acc :
  srel acc' acc -> matches t' t = true ->
  srel (struct_ty_insert k t' acc') (struct_ty_insert k t acc).
Proof.
  intros H M. unfold struct_ty_insert. apply Forall2_app.
  - induction H as [|a b acc' acc [Hk Ht] _ IH]; [constructor|].
    cbn [filter]. rewrite Hk. destruct (negb (ident_eqb k (fst b))); [|exact IH].
    constructor; [split; assumption|exact IH].
  - constructor; [split; [reflexivity|exact M]|constructor].
Qed.

Lemma srel_matches acc' acc :
  srel acc' acc -> nodup_keys acc' = true -> matches (TStruct acc') (TStruct acc) = true.
Proof.
  intros H Hn. rewrite matches_struct. apply forallb_forall. intros kt Hkt.
  assert (E : exists t', In (fst kt, t') acc' /\ matches t' (snd kt) = true).
  { clear Hn. induction H as [|[k t'] b acc' acc [Hk Ht] _ IH]; [destruct Hkt|].
    destruct Hkt as [->|Hkt].
    - exists t'. cbn [fst snd] in *. subst k. split; [left; reflexivity|exact Ht].
    - destruct (IH Hkt) as [x [Hx Mx]]. exists x. split; [right; exact Hx|exact Mx]. }
  destruct E as [t' [Hin Mt]]. rewrite (assoc_nodup_in acc' _ t' Hn Hin). exact Mt.
Qed.

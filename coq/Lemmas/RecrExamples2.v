(* RecrExamples2.v — the preservation theorem with closures, on a program that creates
   closures capturing a folded constant, a nested closure capturing a run-time value, and
   calls them.

     k := 2 + 3;
     c := mut 0;
     add := (x: int) -> int { return x * k + 1; };
     mk := (d: int) -> (int) -> int { return (u: int) -> int { return u + d * k; }; };
     h := mk(2);
     c += add(3);  c += h(4);
     *c + k                                                                       = 35 *)
From SSL.Model Require Import Base Ty Float Value Ops Seq Syntax Rt Recreate Exec Check Top.
From SSL.Lemmas Require Import ExecLemmas RecrMono RecrDefs RecrKeeps RecrSim1 RecrSim2 RecrMain
  RecrTop RecrExamples RecrClos.
Local Open Scope Z_scope.

Definition nadd : name := [97; 100; 100]. Definition nmk : name := [109; 107].
Definition nx : name := [120]. Definition nd : name := [100]. Definition nu : name := [117].
Definition nh : name := [104].

Definition clos_prog : list sline :=
  [ LSet nk (SExpr (XInfix Add (num 2) (num 3)));
    LSet nc (SExpr (XMut None (num 0)));
    LFnDecl nadd [(nx, TInt)] (Some TInt)
      [LStm (SRet (Some (SExpr (XInfix Add (XInfix Multiply (XIdent nx) (XIdent nk)) (num 1)))))];
    LFnDecl nmk [(nd, TInt)] (Some (TFun [TInt] TInt))
      [LStm (SRet (Some (SExpr (XFunction [(nu, TInt)] (Some TInt)
         [LStm (SRet (Some (SExpr (XInfix Add (XIdent nu) (XInfix Multiply (XIdent nd) (XIdent nk))))))]))))];
    LSet nh (SExpr (XCall (XIdent nmk) [num 2]));
    LStm (SExpr (XInfix AssignAdd (XIdent nc) (XCall (XIdent nadd) [num 3])));
    LStm (SExpr (XInfix AssignAdd (XIdent nc) (XCall (XIdent nh) [num 4])));
    LStm (SExpr (XInfix Add (deref nc) (XIdent nk))) ].

Definition both2 := parse_both pw0 red0 100 [] e0 clos_prog.
Definition unfolded2 : list instr := match both2 with Ok (a, _, _) => a | _ => [] end.
Definition folded2 : list instr := match both2 with Ok (_, b, _) => b | _ => [] end.
Definition env_after2 : lenv := match both2 with Ok (_, _, e) => e | _ => [] end.

Example clos_prog_parses : both2 = Ok (unfolded2, folded2, env_after2).
Proof. vm_compute. reflexivity. Qed.

(* the pass folded k into the body of `add` and into the nested literal of `mk` *)
Example clos_prog_folded :
  nth 2 folded2 IBreak =
    IFnDecl nadd [(nx, TInt)]
      [IUn UReturn (IBin Add (IBin Multiply (ILocal nx (LOther TInt)) (IVar (VInt 5))) (IVar (VInt 1)))] TInt /\
  nth 3 folded2 IBreak =
    IFnDecl nmk [(nd, TInt)]
      [IUn UReturn (IAnonFn [(nu, TInt)]
         [IUn UReturn (IBin Add (ILocal nu (LOther TInt))
                                (IBin Multiply (ILocal nd (LOther TInt)) (IVar (VInt 5))))] TInt)]
      (TFun [TInt] TInt).
Proof. vm_compute. split; reflexivity. Qed.

Example clos_prog_hyps :
  forallb (wfi true true) unfolded2 = true /\ forallb dok folded2 = true /\ agree e0 [[]].
Proof.
  split; [vm_compute; reflexivity|]. split; [vm_compute; reflexivity|].
  intros n v H. cbn in H. discriminate H.
Qed.

Example clos_prog_preserved : forall n st last,
  okr (run_code pw0 pre0 n st [[]] unfolded2 last) ->
  run_code pw0 pre0 n st [[]] folded2 last = run_code pw0 pre0 n st [[]] unfolded2 last.
Proof.
  destruct clos_prog_hyps as [W [D A]].
  destruct (parse_top_fold_unobservable1 pw0 pre0 red0 100 e0 clos_prog _ _ _ clos_prog_parses W D)
    as [_ H].
  intros n st last. apply H. exact A.
Qed.

(* both run to 35; the stores are literally equal: same cells, same log (allocation, two
   writes, three calls), and the same three closures — `add`, `mk`, and the closure `mk(2)`
   returned, whose body is  return u + 10  in both runs *)
Example clos_prog_runs :
  run_code pw0 pre0 100 st0 [[]] unfolded2 VVoid = run_code pw0 pre0 100 st0 [[]] folded2 VVoid /\
  sig (run_code pw0 pre0 100 st0 [[]] folded2 VVoid) = SVal (VInt 35) /\
  s_cells (sto (run_code pw0 pre0 100 st0 [[]] folded2 VVoid)) = [VInt 30] /\
  map c_body (s_funs (sto (run_code pw0 pre0 100 st0 [[]] unfolded2 VVoid))) =
    [ BLang [IUn UReturn (IBin Add (IBin Multiply (ILocal nx (LOther TInt)) (IVar (VInt 5))) (IVar (VInt 1)))];
      BLang [IUn UReturn (IAnonFn [(nu, TInt)]
         [IUn UReturn (IBin Add (ILocal nu (LOther TInt))
                                (IBin Multiply (ILocal nd (LOther TInt)) (IVar (VInt 5))))] TInt)];
      BLang [IUn UReturn (IBin Add (ILocal nu (LOther TInt)) (IVar (VInt 10)))] ].
Proof. vm_compute. repeat split; reflexivity. Qed.

(* ReplCR1.v — two checker runs, one pass: definitions and the congruence lemmas.

   The REPL route checks a statement in an environment that knows MORE constants than the
   batch route (every name bound so far is a constant: its actual value); the instruction it
   builds differs from the batch one in the leaves ([IVar v] where batch has [ILocal n lv]).
   The pass [recreate], run in creating scopes sc and an environment e2 that resolve those
   names to the same constants, erases the difference:

     req e2 a b  :=  rt a = rt b  /\  forall g, recreate powf g sc e2 a = recreate powf g sc e2 b

   (same static type, and the pass gives the same result on both — instruction, environment
   or error).  This file: [req] is a congruence for every instruction form the checker
   builds on the fragment. *)
From SSL.Model Require Import Base Ty Float Value Ops Seq Syntax Rt Recreate Exec Check.
From SSL.Lemmas Require Import CheckUnfold RecrUnfold RecrMono RecrDefs RecrSim1 RecrSim2 RecrSyn ReplFrag CheckWfi.

Arguments matches : simpl never.

Section CR.
Variable powf : fbits -> fbits -> fbits.
Variable sc : scopes.
Notation RC g := (recreate powf g sc).

Definition req (e2 : lenv) (a b : instr) : Prop :=
  rt a = rt b /\ forall g, RC g e2 a = RC g e2 b.
Definition ceq (a b : instr) : Prop := forall v, a = IVar v <-> b = IVar v.

Lemma req_refl e2 a : req e2 a a.
Proof. split; reflexivity. Qed.

Lemma ceq_is_const a b : ceq a b -> is_const a = is_const b.
Proof.
  intros H. destruct a; destruct b; try reflexivity;
    try (destruct (proj1 (H _) eq_refl); discriminate);
    try (pose proof (proj1 (H _) eq_refl) as C; discriminate C);
    try (pose proof (proj2 (H _) eq_refl) as C; discriminate C).
Qed.

Lemma ceq_nonconst a b : (forall v, a <> IVar v) -> (forall v, b <> IVar v) -> ceq a b.
Proof. intros A B v. split; intros H; [exfalso; exact (A v H)|exfalso; exact (B v H)]. Qed.

(* an expression leaves the pass's environment alone *)
Lemma same2 g e2 i i' e' : RC g e2 i = Ok (i', e') -> wfi true false i = true -> e' = e2.
Proof. apply (rec_same_env powf sc true g). Qed.

(* continue after a common first step *)
Ltac step Ha Wb g e2 b x' :=
  rewrite (proj2 Ha g);
  let ex := fresh "ex" in let E := fresh "E" in
  destruct (RC g e2 b) as [[x' ex]| | |] eqn:E; cbn [obind]; try reflexivity;
  pose proof (same2 _ _ _ _ _ E Wb); subst ex.

Lemma fuel0 e2 a b : RC 0 e2 a = RC 0 e2 b.
Proof. reflexivity. Qed.

(* ---- one operand ---- *)
Section Wrap.
Variable C : instr -> instr.
Hypothesis Hrt : forall x y, rt x = rt y -> rt (C x) = rt (C y).
Hypothesis HR : forall g e x, RC (S g) e (C x) = obind (RC g e x) (fun '(x', e) => Ok (C x', e)).

Lemma req_wrap e2 a b : req e2 a b -> req e2 (C a) (C b).
Proof.
  intros H. split; [apply Hrt, H|]. intros [|g]; [reflexivity|]. rewrite !HR, (proj2 H g). reflexivity.
Qed.
End Wrap.

Lemma rt_obind1 a b (k : ty -> oty) : rt a = rt b -> obind (rt a) k = obind (rt b) k.
Proof. intros ->. reflexivity. Qed.

Lemma req_mut e2 t a b : req e2 a b -> req e2 (IMut t a) (IMut t b).
Proof. apply (req_wrap (IMut t)); [reflexivity|intros; apply recreate_S_IMut]. Qed.
Lemma req_field e2 f a b : req e2 a b -> req e2 (IFieldAccess a f) (IFieldAccess b f).
Proof.
  apply (req_wrap (fun x => IFieldAccess x f)); [|intros; apply recreate_S_IFieldAccess].
  intros x y H. cbn [rt]. rewrite H. reflexivity.
Qed.
Lemma req_tacc e2 k a b : req e2 a b -> req e2 (ITupleAccess a k) (ITupleAccess b k).
Proof.
  apply (req_wrap (fun x => ITupleAccess x k)); [|intros; apply recreate_S_ITupleAccess].
  intros x y H. cbn [rt]. rewrite H. reflexivity.
Qed.
Lemma req_loop e2 a b : req e2 a b -> req e2 (ILoop a) (ILoop b).
Proof. apply (req_wrap ILoop); [reflexivity|intros; apply recreate_S_ILoop]. Qed.

Lemma req_un e2 op a b : req e2 a b -> req e2 (IUn op a) (IUn op b).
Proof.
  intros H. split; [cbn [rt]; rewrite (proj1 H); reflexivity|].
  intros [|g]; [reflexivity|]. rewrite !recreate_S_IUn, (proj2 H g). reflexivity.
Qed.

(* ---- two operands ---- *)
Lemma req_bin e2 op la lb ra rb : wfi true false lb = true ->
  req e2 la lb -> req e2 ra rb -> req e2 (IBin op la ra) (IBin op lb rb).
Proof.
  intros W Hl Hr. split; [cbn [rt]; rewrite (proj1 Hl), (proj1 Hr); reflexivity|].
  intros [|g]; [reflexivity|].
  destruct (binop_eq_dec op And) as [->|NA].
  { rewrite !recreate_S_And. step Hl W g e2 lb l'. rewrite (proj2 Hr g). reflexivity. }
  destruct (binop_eq_dec op Or) as [->|NO].
  { rewrite !recreate_S_Or. step Hl W g e2 lb l'. rewrite (proj2 Hr g). reflexivity. }
  rewrite !(recreate_S_IBin powf sc g e2 op _ _ NA NO). step Hl W g e2 lb l'.
  rewrite (proj2 Hr g). reflexivity.
Qed.

Lemma req_repeat e2 va vb la lb : wfi true false vb = true ->
  req e2 va vb -> req e2 la lb -> req e2 (IArrayRepeat va la) (IArrayRepeat vb lb).
Proof.
  intros W Hv Hl. split; [cbn [rt]; rewrite (proj1 Hv); reflexivity|].
  intros [|g]; [reflexivity|]. rewrite !recreate_S_IArrayRepeat. step Hv W g e2 vb v'.
  rewrite (proj2 Hl g). reflexivity.
Qed.

(* ---- lists of expressions ---- *)
Lemma rtl_req e2 la lb : Forall2 (req e2) la lb -> rtl_def la = rtl_def lb.
Proof.
  induction 1 as [|a b la lb H _ IH]; [reflexivity|]. cbn [rtl_def]. fold rtl_def.
  rewrite (proj1 H), IH. reflexivity.
Qed.

Lemma rec_list_req e2 la lb : forallb (wfi true false) lb = true -> Forall2 (req e2) la lb ->
  forall g, rec_list_def (RC g) la e2 = rec_list_def (RC g) lb e2.
Proof.
  intros W H. induction H as [|a b la lb Hab _ IH]; intros g; [reflexivity|].
  cbn [forallb] in W. apply andb_true_iff in W. destruct W as [Wb Wl].
  cbn [rec_list_def]. fold (rec_list_def (RC g)). step Hab Wb g e2 b x'.
  rewrite (IH Wl g). reflexivity.
Qed.

Lemma req_tuple e2 la lb : forallb (wfi true false) lb = true -> Forall2 (req e2) la lb ->
  req e2 (ITuple la) (ITuple lb).
Proof.
  intros W H. split.
  - change (rt (ITuple la)) with (obind (rtl_def la) (fun ts => Ok (TTup ts))).
    change (rt (ITuple lb)) with (obind (rtl_def lb) (fun ts => Ok (TTup ts))).
    rewrite (rtl_req e2 la lb H). reflexivity.
  - intros [|g]; [reflexivity|]. rewrite !recreate_S_ITuple, (rec_list_req e2 la lb W H g). reflexivity.
Qed.

Lemma req_array e2 la lb et : forallb (wfi true false) lb = true -> Forall2 (req e2) la lb ->
  req e2 (IArray la et) (IArray lb et).
Proof.
  intros W H. split; [reflexivity|].
  intros [|g]; [reflexivity|]. rewrite !recreate_S_IArray, (rec_list_req e2 la lb W H g). reflexivity.
Qed.

Lemma req_call e2 fa fb la lb : wfi true false fb = true -> forallb (wfi true false) lb = true ->
  req e2 fa fb -> Forall2 (req e2) la lb ->
  req e2 (IBin FunctionCall fa (ITuple la)) (IBin FunctionCall fb (ITuple lb)).
Proof. intros Wf Wl Hf Hl. apply req_bin; [exact Wf|exact Hf|apply req_tuple; assumption]. Qed.

(* ---- struct literals ---- *)
Inductive freq (e2 : lenv) : list (name * instr) -> list (name * instr) -> Prop :=
| FQ_nil : freq e2 [] []
| FQ_cons k a b la lb : req e2 a b -> freq e2 la lb -> freq e2 ((k, a) :: la) ((k, b) :: lb).

Fixpoint rt_fields (l : list (name * instr)) (acc : list (ident * ty)) : oty :=
  match l with
  | [] => Ok (TStruct acc)
  | (k, i) :: l => obind (rt i) (fun t => rt_fields l (struct_ty_insert k t acc))
  end.
Lemma rt_IStruct_fields fs : rt (IStruct fs) = rt_fields fs [].
Proof.
  reflexivity.
Qed.
Lemma rt_fields_req e2 la lb : freq e2 la lb -> forall acc, rt_fields la acc = rt_fields lb acc.
Proof.
  induction 1 as [|k a b la lb H _ IH]; intros acc; [reflexivity|]. cbn [rt_fields].
  rewrite (proj1 H). destruct (rt b); cbn [obind]; try reflexivity. apply IH.
Qed.

Lemma rec_fields_req e2 la lb : forallb (fun kv => wfi true false (snd kv)) lb = true -> freq e2 la lb ->
  forall g, rec_fields_def (RC g) la e2 = rec_fields_def (RC g) lb e2.
Proof.
  intros W H. induction H as [|k a b la lb Hab _ IH]; intros g; [reflexivity|].
  cbn [forallb snd] in W. apply andb_true_iff in W. destruct W as [Wb Wl].
  cbn [rec_fields_def]. fold (rec_fields_def (RC g)). step Hab Wb g e2 b x'.
  rewrite (IH Wl g). reflexivity.
Qed.

Lemma req_struct e2 la lb : forallb (fun kv => wfi true false (snd kv)) lb = true -> freq e2 la lb ->
  req e2 (IStruct la) (IStruct lb).
Proof.
  intros W H. split; [rewrite !rt_IStruct_fields; apply (rt_fields_req e2 la lb H [])|].
  intros [|g]; [reflexivity|]. rewrite !recreate_S_IStruct, (rec_fields_req e2 la lb W H g). reflexivity.
Qed.

(* ---- slices ---- *)
Definition oreq (e2 : lenv) (a b : option instr) : Prop :=
  match a, b with
  | None, None => True
  | Some x, Some y => req e2 x y
  | _, _ => False
  end.

Lemma rec_opt_req e2 a b : oreq e2 a b -> forall g, rec_opt_def (RC g) a e2 = rec_opt_def (RC g) b e2.
Proof.
  destruct a as [x|], b as [y|]; cbn [oreq]; try contradiction; intros H g; [|reflexivity].
  cbn [rec_opt_def]. rewrite (proj2 H g). reflexivity.
Qed.

Lemma same2_opt g e2 o o' e' : rec_opt_def (RC g) o e2 = Ok (o', e') -> wf_opt true o = true -> e' = e2.
Proof. apply (same_env_opt powf sc true g (rec_same_env powf sc true g)). Qed.

Lemma req_slicing e2 la lb aa ab ba bb ca cb :
  wfi true false lb = true -> wf_opt true ab = true -> wf_opt true bb = true ->
  req e2 la lb -> oreq e2 aa ab -> oreq e2 ba bb -> oreq e2 ca cb ->
  req e2 (ISlicing la aa ba ca) (ISlicing lb ab bb cb).
Proof.
  intros Wl Wa Wb Hl Ha Hb Hc. split; [exact (proj1 Hl)|].
  intros [|g]; [reflexivity|]. rewrite !recreate_S_ISlicing. step Hl Wl g e2 lb l'.
  rewrite (rec_opt_req e2 aa ab Ha g).
  destruct (rec_opt_def (RC g) ab e2) as [[a' ex]| | |] eqn:Ea; cbn [obind]; try reflexivity.
  pose proof (same2_opt _ _ _ _ _ Ea Wa); subst ex.
  rewrite (rec_opt_req e2 ba bb Hb g).
  destruct (rec_opt_def (RC g) bb e2) as [[b' ex]| | |] eqn:Eb; cbn [obind]; try reflexivity.
  pose proof (same2_opt _ _ _ _ _ Eb Wb); subst ex.
  rewrite (rec_opt_req e2 ca cb Hc g). reflexivity.
Qed.

(* ---- if, if-set ---- *)
Lemma req_if e2 ca cb ta tb fa fb : wfi true false cb = true -> wfi true false tb = true ->
  req e2 ca cb -> req e2 ta tb -> req e2 fa fb -> req e2 (IIfElse ca ta fa) (IIfElse cb tb fb).
Proof.
  intros Wc Wt Hc Ht Hf. split; [cbn [rt]; rewrite (proj1 Ht), (proj1 Hf); reflexivity|].
  intros [|g]; [reflexivity|]. rewrite !recreate_S_IIfElse. step Hc Wc g e2 cb c'.
  assert (G : obind (RC g e2 ta) (fun '(t', e) => obind (RC g e fa) (fun '(f', e0) => Ok (IIfElse c' t' f', e0))) =
              obind (RC g e2 tb) (fun '(t', e) => obind (RC g e fb) (fun '(f', e0) => Ok (IIfElse c' t' f', e0)))).
  { step Ht Wt g e2 tb t'. rewrite (proj2 Hf g). reflexivity. }
  destruct c'; try exact G. destruct v; try exact G. destruct b; [apply (proj2 Ht g)|apply (proj2 Hf g)].
Qed.

Lemma req_setif e2 nm t xa xb ma mb ea eb : wfi true false xb = true ->
  req e2 xa xb -> req (lenv_insert nm (LOther t) (lenv_push e2)) ma mb -> req e2 ea eb ->
  req e2 (ISetIfElse nm t xa ma ea) (ISetIfElse nm t xb mb eb).
Proof.
  intros Wx Hx Hm He. split; [cbn [rt]; rewrite (proj1 Hm), (proj1 He); reflexivity|].
  intros [|g]; [reflexivity|]. rewrite !recreate_S_ISetIfElse. step Hx Wx g e2 xb x'.
  rewrite (proj2 Hm g).
  destruct (RC g (lenv_insert nm (LOther t) (lenv_push e2)) mb) as [[m' ex]| | |]; cbn [obind]; try reflexivity.
  rewrite (proj2 He g). reflexivity.
Qed.

(* ---- match ---- *)
Definition areq (e2 : lenv) (a b : arm) : Prop :=
  match a, b with
  | ArmType n t x, ArmType n' t' y => n' = n /\ t' = t /\ req (lenv_insert n (LOther t) (lenv_push e2)) x y
  | ArmValue ca x, ArmValue cb y => Forall2 (req e2) ca cb /\ req e2 x y
  | ArmOther x, ArmOther y => req e2 x y
  | _, _ => False
  end.

Lemma rec_arm_req e2 a b : wf_arm true b = true -> areq e2 a b ->
  forall g, rec_arm_def (RC g) a e2 = rec_arm_def (RC g) b e2.
Proof.
  destruct a as [n t x|ca x|x], b as [n' t' y|cb y|y]; cbn [areq wf_arm]; try contradiction; intros W H g.
  - destruct H as [-> [-> H]]. cbn [rec_arm_def]. rewrite (proj2 H g). reflexivity.
  - destruct H as [Hc Hx]. apply andb_true_iff in W. destruct W as [Wc Wy]. cbn [rec_arm_def].
    rewrite (rec_list_req e2 ca cb Wc Hc g).
    destruct (rec_list_def (RC g) cb e2) as [[c' ex]| | |] eqn:E; cbn [obind]; try reflexivity.
    pose proof (same_env_list powf sc true g (rec_same_env powf sc true g) _ _ _ _ E Wc); subst ex.
    rewrite (proj2 Hx g). reflexivity.
  - cbn [rec_arm_def]. rewrite (proj2 H g). reflexivity.
Qed.

Lemma rec_arms_req e2 la lb : forallb (wf_arm true) lb = true -> Forall2 (areq e2) la lb ->
  forall g, rec_arms_def (RC g) la e2 = rec_arms_def (RC g) lb e2.
Proof.
  intros W H. induction H as [|a b la lb Hab _ IH]; intros g; [reflexivity|].
  cbn [forallb] in W. apply andb_true_iff in W. destruct W as [Wb Wl].
  cbn [rec_arms_def]. fold (rec_arms_def (RC g)). rewrite (rec_arm_req e2 a b Wb Hab g).
  destruct (rec_arm_def (RC g) b e2) as [[b' ex]| | |] eqn:E; cbn [obind]; try reflexivity.
  pose proof (same_env_arm powf sc true g (rec_same_env powf sc true g) _ _ _ _ E Wb); subst ex.
  rewrite (IH Wl g). reflexivity.
Qed.

Lemma areq_body_rt e2 a b : areq e2 a b ->
  match a with ArmType _ _ i | ArmValue _ i | ArmOther i => rt i end =
  match b with ArmType _ _ i | ArmValue _ i | ArmOther i => rt i end.
Proof.
  destruct a, b; cbn [areq]; try contradiction; intros H.
  - apply H. - apply H. - apply H.
Qed.

Definition arm_rt (a : arm) : oty := match a with ArmType _ _ i | ArmValue _ i | ArmOther i => rt i end.
Fixpoint rt_arms (l : list arm) (acc : option ty) : oty :=
  match l with
  | [] => lift_opt acc
  | a :: l => obind (arm_rt a) (fun t => rt_arms l (Some (match acc with Some u => concat u t | None => t end)))
  end.
Lemma rt_IMatch_arms x arms : rt (IMatch x arms) = rt_arms arms None.
Proof.
  reflexivity.
Qed.

Lemma rt_arms_req e2 la lb : Forall2 (areq e2) la lb -> forall acc, rt_arms la acc = rt_arms lb acc.
Proof.
  induction 1 as [|a b la lb H _ IH]; intros acc; [reflexivity|]. cbn [rt_arms].
  unfold arm_rt. rewrite (areq_body_rt e2 a b H).
  destruct (match b with ArmType _ _ i | ArmValue _ i | ArmOther i => rt i end); cbn [obind]; try reflexivity.
  apply IH.
Qed.

Lemma req_match e2 xa xb la lb : wfi true false xb = true -> forallb (wf_arm true) lb = true ->
  req e2 xa xb -> Forall2 (areq e2) la lb -> req e2 (IMatch xa la) (IMatch xb lb).
Proof.
  intros Wx Wl Hx Hl. split; [rewrite !rt_IMatch_arms; apply (rt_arms_req e2 la lb Hl None)|].
  intros [|g]; [reflexivity|]. rewrite !recreate_S_IMatch. step Hx Wx g e2 xb x'.
  rewrite (rec_arms_req e2 la lb Wl Hl g). reflexivity.
Qed.

(* ---- line lists ---- *)
(* la, lb: the lines of a block / function body as built by the two checker runs.
   [cagree]: every line but the last is a constant in one run iff it is in the other;
   [lreq]: line by line, the pass gives the same result, in the environment it has built *)
Inductive cagree : list instr -> list instr -> Prop :=
| CA_nil : cagree [] []
| CA_one a b : rt a = rt b -> cagree [a] [b]
| CA_cons a b la lb : ceq a b -> la <> [] -> cagree la lb -> cagree (a :: la) (b :: lb).

Inductive lreq : lenv -> list instr -> list instr -> Prop :=
| LQ_nil e2 : lreq e2 [] []
| LQ_cons e2 a b la lb :
    req e2 a b -> (forall g a' e2', RC g e2 a = Ok (a', e2') -> lreq e2' la lb) ->
    lreq e2 (a :: la) (b :: lb).

Lemma rec_lines_req : forall la e2 lb, lreq e2 la lb ->
  forall g, rec_list_def (RC g) la e2 = rec_list_def (RC g) lb e2.
Proof.
  induction la as [|a la IH]; intros e2 lb H g; inversion H as [|? ? b ? lb' Hr Hk]; subst; [reflexivity|].
  cbn [rec_list_def]. fold (rec_list_def (RC g)). rewrite <- (proj2 Hr g).
  destruct (RC g e2 a) as [[a' ex]| | |] eqn:E; cbn [obind]; try reflexivity.
  rewrite (IH _ _ (Hk _ _ _ E) g). reflexivity.
Qed.

Lemma drop_consts_cons2 a b l :
  drop_consts (a :: b :: l) = (if is_const a then [] else [a]) ++ drop_consts (b :: l).
Proof.
  unfold drop_consts. cbn [rev].
  destruct (rev l ++ [b]) as [|lst front] eqn:E; [destruct (rev l); discriminate E|].
  cbn [app]. rewrite filter_app, rev_app_distr. cbn [filter].
  destruct (is_const a); cbn [negb rev app]; rewrite <- ?app_assoc; reflexivity.
Qed.

Lemma lreq_drop la lb : cagree la lb -> forall e2, lreq e2 la lb -> lreq e2 (drop_consts la) (drop_consts lb).
Proof.
  induction 1 as [|a b Hrt|a b la lb Hce Hne Hca IH]; intros e2 H; [exact H|exact H|].
  inversion H as [|? ? ? ? ? Hr Hk]; subst.
  destruct la as [|a2 la]; [contradiction|]. destruct lb as [|b2 lb]; [inversion Hca|].
  rewrite !drop_consts_cons2, <- (ceq_is_const a b Hce). destruct (is_const a) eqn:Ec; cbn [app].
  - destruct a; try discriminate Ec. apply IH. apply (Hk 1%nat (IVar v) e2). apply recreate_S_IVar.
  - constructor; [exact Hr|]. intros g a' e2' E. apply IH. apply (Hk g a' e2' E).
Qed.

Lemma cagree_drop_wfi la : forallb (wfi true true) la = true -> forallb (wfi true true) (drop_consts la) = true.
Proof. apply drop_consts_forallb. Qed.

(* ---- blocks and function literals ---- *)
Fixpoint rt_last (l : list instr) : oty :=
  match l with [] => Ok TVoid | [x] => rt x | _ :: l => rt_last l end.
Lemma rt_IBlock_last l : rt (IBlock l) = rt_last l.
Proof. reflexivity. Qed.

Lemma rt_last_cons a b l : rt_last (a :: b :: l) = rt_last (b :: l).
Proof. reflexivity. Qed.

Lemma drop_consts_ne a l : drop_consts (a :: l) <> [].
Proof.
  unfold drop_consts. destruct (rev (a :: l)) as [|lst front] eqn:E.
  - cbn [rev] in E. destruct (rev l); discriminate E.
  - destruct (rev (filter (fun i => negb (is_const i)) front)); discriminate.
Qed.

Lemma rt_last_app_ne l1 l2 : l2 <> [] -> rt_last (l1 ++ l2) = rt_last l2.
Proof.
  intros H. induction l1 as [|a l1 IH]; [reflexivity|]. cbn [app].
  destruct (l1 ++ l2) as [|b l] eqn:E; [destruct l1; [contradiction|discriminate E]|]. exact IH.
Qed.

Lemma rt_last_drop la lb : cagree la lb -> rt_last (drop_consts la) = rt_last (drop_consts lb).
Proof.
  induction 1 as [|a b Hrt|a b la lb Hce Hne Hca IH]; [reflexivity|exact Hrt|].
  destruct la as [|a2 la]; [contradiction|]. destruct lb as [|b2 lb]; [inversion Hca|].
  rewrite !drop_consts_cons2, !rt_last_app_ne by apply drop_consts_ne. exact IH.
Qed.

Lemma req_block e2 la lb : cagree la lb -> lreq (lenv_push e2) la lb ->
  req e2 (IBlock (drop_consts la)) (IBlock (drop_consts lb)).
Proof.
  intros Hc Hl. split; [rewrite !rt_IBlock_last; apply rt_last_drop; exact Hc|].
  intros [|g]; [reflexivity|]. rewrite !recreate_S_IBlock.
  rewrite (rec_lines_req _ _ _ (lreq_drop la lb Hc _ Hl) g). reflexivity.
Qed.

Lemma req_anonfn e2 ps r la lb : cagree la lb ->
  lreq (lenv_push_fn (params_layer ps) None r e2) la lb ->
  req e2 (IAnonFn ps (drop_consts la) r) (IAnonFn ps (drop_consts lb) r).
Proof.
  intros Hc Hl. split; [reflexivity|].
  intros [|g]; [reflexivity|]. rewrite !recreate_S_IAnonFn.
  rewrite (rec_lines_req _ _ _ (lreq_drop la lb Hc _ Hl) g). reflexivity.
Qed.

Lemma req_fndecl e2 nm ps r la lb : cagree la lb ->
  lreq (lenv_push_fn (params_layer ps) (Some nm) r (lenv_insert nm (LFunction ps r) e2)) la lb ->
  req e2 (IFnDecl nm ps (drop_consts la) r) (IFnDecl nm ps (drop_consts lb) r).
Proof.
  intros Hc Hl. split; [reflexivity|].
  intros [|g]; [reflexivity|]. rewrite !recreate_S_IFnDecl.
  rewrite (rec_lines_req _ _ _ (lreq_drop la lb Hc _ Hl) g). reflexivity.
Qed.

(* ---- lines ---- *)
Lemma req_set e2 nm a b : req e2 a b -> req e2 (ISet nm a) (ISet nm b).
Proof.
  intros H. split; [exact (proj1 H)|].
  intros [|g]; [reflexivity|]. rewrite !recreate_S_ISet, (proj2 H g). reflexivity.
Qed.

Lemma req_destruct e2 ids a b : req e2 a b -> req e2 (IDestruct ids a) (IDestruct ids b).
Proof.
  intros H. split; [exact (proj1 H)|].
  intros [|g]; [reflexivity|]. rewrite !recreate_S_IDestruct, (proj2 H g). reflexivity.
Qed.

End CR.

(* Lemmas about Model/Recreate.v: the constant folder ([fold_bin], [fold_un],
   [fold_repeat]) agrees with run-time execution of the same operands, and the
   one-step equations of [recreate] on binary operators (And/Or pruning). *)
From Coq Require Import ZArith Lia Bool List.
Import ListNotations.
From SSL.Model Require Import Base Ty Float Value Ops Seq Syntax Rt Recreate.
From SSL.Lemmas Require Import OpsLemmas SeqLemmas.
Local Open Scope Z_scope.

(* ---- vocabulary ---- *)

(* operators folded through the value-level [op_exec] *)
Definition foldable (o : binop) : bool :=
  match o with
  | Add | Subtract | Multiply | Equal | NotEqual | Greater | GreaterOrEqual | Lower | LowerOrEqual
  | BitwiseAnd | BitwiseOr | Xor | Divide | Modulo | LShift | RShift => true
  | _ => false
  end.

Definition is_const (i : instr) : bool := match i with IVar _ => true | _ => false end.

(* the early (parse-time) error of a NOT fully constant operation, as a function *)
Definition early_err (o : binop) (l r : instr) : option Z :=
  match o with
  | Divide => match r with IVar (VInt 0) => Some E_ZeroDivision | _ => None end
  | Modulo => match r with IVar (VInt 0) => Some E_ZeroModulo | _ => None end
  | LShift | RShift =>
      match r with
      | IVar (VInt s) => if (0 <=? s) && (s <=? 63) then None else Some E_OverflowShift
      | _ => None
      end
  | At =>
      match l, r with
      | IArray es _, IVar (VInt i) =>
          let n := Z.of_nat (length es) in
          if (- n <=? i) && (i <? n) then None else Some E_IndexOutOfBounds
      | _, _ => None
      end
  | _ => None
  end.

(* ... and as a proposition *)
Definition early_error (o : binop) (l r : instr) (e : Z) : Prop :=
  (o = Divide /\ r = IVar (VInt 0) /\ e = E_ZeroDivision) \/
  (o = Modulo /\ r = IVar (VInt 0) /\ e = E_ZeroModulo) \/
  ((o = LShift \/ o = RShift) /\
     exists s, r = IVar (VInt s) /\ ~ (0 <= s <= 63) /\ e = E_OverflowShift) \/
  (o = At /\
     exists es t i, l = IArray es t /\ r = IVar (VInt i) /\
       ~ (- Z.of_nat (length es) <= i < Z.of_nat (length es)) /\ e = E_IndexOutOfBounds).

(* ---- boolean range tests ---- *)

Lemma shift_range_true s : (0 <=? s) && (s <=? 63) = true <-> 0 <= s <= 63.
Proof. rewrite andb_true_iff, !Z.leb_le. tauto. Qed.

Lemma shift_range_false s : (0 <=? s) && (s <=? 63) = false <-> ~ (0 <= s <= 63).
Proof.
  rewrite <- shift_range_true. destruct ((0 <=? s) && (s <=? 63)); split; intros; auto; try discriminate.
  exfalso; auto.
Qed.

Lemma index_range_true n i : (- n <=? i) && (i <? n) = true <-> - n <= i < n.
Proof. rewrite andb_true_iff, Z.leb_le, Z.ltb_lt. tauto. Qed.

Lemma index_range_false n i : (- n <=? i) && (i <? n) = false <-> ~ (- n <= i < n).
Proof.
  rewrite <- index_range_true. destruct ((- n <=? i) && (i <? n)); split; intros; auto; try discriminate.
  exfalso; auto.
Qed.

Lemma early_err_iff o l r e : early_err o l r = Some e <-> early_error o l r e.
Proof.
  unfold early_error. split.
  - destruct o; cbn [early_err]; try discriminate.
    + (* Divide *)
      destruct r as [ | | | | | | | | | | | | | | | | | | | | | |v| | ]; try discriminate.
      destruct v as [ |z| | | | | | | | ]; try discriminate.
      destruct z; try discriminate. intros [= <-]. left. auto.
    + (* Modulo *)
      destruct r as [ | | | | | | | | | | | | | | | | | | | | | |v| | ]; try discriminate.
      destruct v as [ |z| | | | | | | | ]; try discriminate.
      destruct z; try discriminate. intros [= <-]. right. left. auto.
    + (* LShift *)
      destruct r as [ | | | | | | | | | | | | | | | | | | | | | |v| | ]; try discriminate.
      destruct v as [ |z| | | | | | | | ]; try discriminate.
      destruct ((0 <=? z) && (z <=? 63)) eqn:E; try discriminate. intros [= <-].
      right. right. left. split; [auto|]. exists z. apply shift_range_false in E. auto.
    + (* RShift *)
      destruct r as [ | | | | | | | | | | | | | | | | | | | | | |v| | ]; try discriminate.
      destruct v as [ |z| | | | | | | | ]; try discriminate.
      destruct ((0 <=? z) && (z <=? 63)) eqn:E; try discriminate. intros [= <-].
      right. right. left. split; [auto|]. exists z. apply shift_range_false in E. auto.
    + (* At *)
      destruct l as [ |es et| | | | | | | | | | | | | | | | | | | | | | | ]; try discriminate.
      destruct r as [ | | | | | | | | | | | | | | | | | | | | | |v| | ]; try discriminate.
      destruct v as [ |z| | | | | | | | ]; try discriminate.
      cbv zeta.
      destruct ((- Z.of_nat (length es) <=? z) && (z <? Z.of_nat (length es))) eqn:E; try discriminate.
      intros [= <-]. right. right. right. split; [auto|]. exists es, et, z.
      apply index_range_false in E. auto.
  - intros [(-> & -> & ->)|[(-> & -> & ->)|[(Ho & s & -> & Hs & ->)|(-> & es & t & i & -> & -> & Hi & ->)]]].
    + reflexivity.
    + reflexivity.
    + apply shift_range_false in Hs. destruct Ho as [-> | ->]; cbn [early_err]; rewrite Hs; reflexivity.
    + apply index_range_false in Hi. cbn [early_err]. cbv zeta. rewrite Hi. reflexivity.
Qed.

Lemma early_err_none_iff o l r : early_err o l r = None <-> forall e, ~ early_error o l r e.
Proof.
  split.
  - intros H e He. apply early_err_iff in He. congruence.
  - intros H. destruct (early_err o l r) as [e|] eqn:E; [|reflexivity].
    apply early_err_iff in E. exfalso. exact (H e E).
Qed.

(* ---- the run-time side of the three early errors ---- *)

Section WithPowf.
Variable powf : fbits -> fbits -> fbits.
Notation op := (op_exec powf).

Definition exec_bin (o : binop) (a b : value) : outcome value :=
  match o with At => at_exec a b | _ => op_exec powf o a b end.

Lemma div_zero_any v : op Divide v (VInt 0) = Err E_ZeroDivision.
Proof. destruct v; reflexivity. Qed.
Lemma mod_zero_any v : op Modulo v (VInt 0) = Err E_ZeroModulo.
Proof. destruct v; reflexivity. Qed.

Lemma shl_out a s : ~ (0 <= s <= 63) -> op LShift (VInt a) (VInt s) = Err E_OverflowShift.
Proof. intros H. exact (proj1 (shift_out powf a s H)). Qed.
Lemma shr_out a s : ~ (0 <= s <= 63) -> op RShift (VInt a) (VInt s) = Err E_OverflowShift.
Proof. intros H. exact (proj2 (shift_out powf a s H)). Qed.

(* with an out-of-range amount, a shift is the error exactly on an integer left operand
   (any other left operand is a panic, ruled out by the type checker) *)
Lemma shift_out_shape o v s : o = LShift \/ o = RShift -> ~ (0 <= s <= 63) ->
  (op o v (VInt s) = Err E_OverflowShift <-> exists a, v = VInt a) /\
  (op o v (VInt s) = Err E_OverflowShift \/ op o v (VInt s) = Panic).
Proof.
  intros Ho Hs. apply shift_range_false in Hs.
  destruct Ho as [-> | ->]; destruct v; cbn [op_exec]; try rewrite Hs;
    (split; [split; [intros H; try discriminate H; eauto | intros [a Ha]; try discriminate Ha; reflexivity] | auto]).
Qed.

Lemma at_oob_len t vs (n : nat) i : length vs = n -> ~ (- Z.of_nat n <= i < Z.of_nat n) ->
  at_exec (VArr t vs) (VInt i) = Err E_IndexOutOfBounds.
Proof. intros <- H. apply at_arr_oob. exact H. Qed.

(* ---- C1: two constants ---- *)

Lemma fold_bin_const_eq o a b : foldable o = true \/ o = At ->
  fold_bin powf o (IVar a) (IVar b) = lift_val (exec_bin o a b).
Proof.
  intros [H | ->]; [|reflexivity].
  destruct o; try discriminate H; reflexivity.
Qed.

Lemma fold_bin_const_ok o a b i' : foldable o = true \/ o = At ->
  fold_bin powf o (IVar a) (IVar b) = Ok i' ->
  exists v, i' = IVar v /\ exec_bin o a b = Ok v.
Proof.
  intros H. rewrite (fold_bin_const_eq o a b H). unfold lift_val.
  destruct (exec_bin o a b) as [v| | | ]; cbn [obind]; intros E; try discriminate E.
  injection E as <-. exists v. auto.
Qed.

Lemma fold_bin_const_err o a b e : foldable o = true \/ o = At ->
  fold_bin powf o (IVar a) (IVar b) = Err e -> exec_bin o a b = Err e.
Proof.
  intros H. rewrite (fold_bin_const_eq o a b H). unfold lift_val.
  destruct (exec_bin o a b) as [v| | | ]; cbn [obind]; intros E; try discriminate E.
  injection E as <-. reflexivity.
Qed.

Lemma fold_bin_const_panic o a b : foldable o = true \/ o = At ->
  fold_bin powf o (IVar a) (IVar b) = Panic -> exec_bin o a b = Panic.
Proof.
  intros H. rewrite (fold_bin_const_eq o a b H). unfold lift_val.
  destruct (exec_bin o a b) as [v| | | ]; cbn [obind]; intros E; try discriminate E.
  reflexivity.
Qed.

(* the folder never runs out of fuel on constants, and never invents an outcome *)
Lemma fold_bin_const_iff o a b : foldable o = true \/ o = At ->
  (forall v, fold_bin powf o (IVar a) (IVar b) = Ok (IVar v) <-> exec_bin o a b = Ok v) /\
  (forall e, fold_bin powf o (IVar a) (IVar b) = Err e <-> exec_bin o a b = Err e) /\
  (fold_bin powf o (IVar a) (IVar b) = Panic <-> exec_bin o a b = Panic).
Proof.
  intros H. rewrite (fold_bin_const_eq o a b H). unfold lift_val.
  destruct (exec_bin o a b) as [v| | | ]; cbn [obind];
    (split; [|split]); intros; split; intros E; try discriminate E; try congruence.
Qed.

(* ---- C2: not both constants ---- *)

Lemma fold_bin_nonconst_eq o l r : is_const l && is_const r = false ->
  fold_bin powf o l r = match early_err o l r with Some e => Err e | None => Ok (IBin o l r) end.
Proof.
  intros H.
  destruct o; cbn [fold_bin early_err]; try reflexivity;
    (destruct l; cbn [is_const andb] in H |- *; try reflexivity;
     destruct r; cbn [is_const] in H |- *; try discriminate H; try reflexivity;
     match goal with v : value |- _ => destruct v end; try reflexivity;
     cbv zeta;
     try (match goal with |- context [if ?b then _ else _] => destruct b end; reflexivity);
     try (match goal with z : Z |- _ => destruct z end; reflexivity)).
Qed.

Lemma fold_bin_nonconst_err o l r e : is_const l && is_const r = false ->
  (fold_bin powf o l r = Err e <-> early_error o l r e).
Proof.
  intros H. rewrite (fold_bin_nonconst_eq o l r H), <- early_err_iff.
  destruct (early_err o l r); split; intros E; try discriminate E; congruence.
Qed.

Lemma fold_bin_nonconst_unchanged o l r : is_const l && is_const r = false ->
  (fold_bin powf o l r = Ok (IBin o l r) <-> forall e, ~ early_error o l r e).
Proof.
  intros H. rewrite (fold_bin_nonconst_eq o l r H), <- early_err_none_iff.
  destruct (early_err o l r); split; intros E; try discriminate E; reflexivity.
Qed.

Lemma fold_bin_nonconst_cases o l r : is_const l && is_const r = false ->
  (fold_bin powf o l r = Ok (IBin o l r) /\ forall e, ~ early_error o l r e) \/
  (exists e, fold_bin powf o l r = Err e /\ early_error o l r e).
Proof.
  intros H. rewrite (fold_bin_nonconst_eq o l r H).
  destruct (early_err o l r) as [e|] eqn:E.
  - right. exists e. split; [reflexivity|]. apply early_err_iff. exact E.
  - left. split; [reflexivity|]. apply early_err_none_iff. exact E.
Qed.

(* the three early errors, spelled out *)
Lemma fold_div_zero_early l : is_const l = false ->
  fold_bin powf Divide l (IVar (VInt 0)) = Err E_ZeroDivision.
Proof. intros H. rewrite fold_bin_nonconst_eq by (rewrite H; reflexivity). reflexivity. Qed.

Lemma fold_mod_zero_early l : is_const l = false ->
  fold_bin powf Modulo l (IVar (VInt 0)) = Err E_ZeroModulo.
Proof. intros H. rewrite fold_bin_nonconst_eq by (rewrite H; reflexivity). reflexivity. Qed.

Lemma fold_shift_early o l s : o = LShift \/ o = RShift -> is_const l = false ->
  fold_bin powf o l (IVar (VInt s)) =
  if (0 <=? s) && (s <=? 63) then Ok (IBin o l (IVar (VInt s))) else Err E_OverflowShift.
Proof.
  intros Ho H. rewrite fold_bin_nonconst_eq by (rewrite H; reflexivity).
  destruct Ho as [-> | ->]; cbn [early_err]; destruct ((0 <=? s) && (s <=? 63)); reflexivity.
Qed.

Lemma fold_shift_out_early o l s : o = LShift \/ o = RShift -> is_const l = false ->
  ~ (0 <= s <= 63) -> fold_bin powf o l (IVar (VInt s)) = Err E_OverflowShift.
Proof.
  intros Ho H Hs. rewrite (fold_shift_early o l s Ho H).
  apply shift_range_false in Hs. rewrite Hs. reflexivity.
Qed.

Lemma fold_at_early es t i :
  fold_bin powf At (IArray es t) (IVar (VInt i)) =
  if (- Z.of_nat (length es) <=? i) && (i <? Z.of_nat (length es))
  then Ok (IBin At (IArray es t) (IVar (VInt i))) else Err E_IndexOutOfBounds.
Proof. reflexivity. Qed.

Lemma fold_at_oob_early es t i : ~ (- Z.of_nat (length es) <= i < Z.of_nat (length es)) ->
  fold_bin powf At (IArray es t) (IVar (VInt i)) = Err E_IndexOutOfBounds.
Proof. intros H. rewrite fold_at_early. apply index_range_false in H. rewrite H. reflexivity. Qed.

(* ---- C3: operators that are never folded ---- *)

Lemma fold_bin_unfolded o l r : foldable o = false -> o <> At ->
  fold_bin powf o l r = Ok (IBin o l r).
Proof. intros H HA. destruct o; try discriminate H; try reflexivity. contradiction. Qed.

Lemma unfolded_ops o : foldable o = false /\ o <> At <->
  In o [Pow; And; Or; Map; Filter; Partition; FunctionCall; Assign; AssignAdd; AssignSubtract;
        AssignMultiply; AssignDivide; AssignModulo; AssignLShift; AssignRShift;
        AssignBitwiseAnd; AssignBitwiseOr; AssignXor; AssignPow].
Proof.
  split.
  - intros [H HA]. destruct o; try discriminate H; try contradiction; cbn; tauto.
  - cbn. intros H.
    repeat (destruct H as [<- | H]; [split; [reflexivity | discriminate] | ]). contradiction.
Qed.

(* ---- C5: recreate on binary operators ---- *)

Lemma recreate_and_step f sc e l r :
  recreate powf (S f) sc e (IBin And l r) =
  obind (recreate powf f sc e l) (fun '(l', e) =>
    match l' with
    | IVar (VBool true) => recreate powf f sc e r
    | IVar _ => Ok (IVar (VBool false), e)
    | _ => obind (recreate powf f sc e r) (fun '(r', e) => Ok (IBin And l' r', e))
    end).
Proof. reflexivity. Qed.

Lemma recreate_or_step f sc e l r :
  recreate powf (S f) sc e (IBin Or l r) =
  obind (recreate powf f sc e l) (fun '(l', e) =>
    match l' with
    | IVar (VBool true) => Ok (IVar (VBool true), e)
    | IVar _ => recreate powf f sc e r
    | _ => obind (recreate powf f sc e r) (fun '(r', e) => Ok (IBin Or l' r', e))
    end).
Proof. reflexivity. Qed.

Lemma and_fold_true f sc e e1 l r :
  recreate powf f sc e l = Ok (IVar (VBool true), e1) ->
  recreate powf (S f) sc e (IBin And l r) = recreate powf f sc e1 r.
Proof. intros H. rewrite recreate_and_step, H. reflexivity. Qed.

Lemma and_fold_const f sc e e1 l r v :
  recreate powf f sc e l = Ok (IVar v, e1) -> v <> VBool true ->
  recreate powf (S f) sc e (IBin And l r) = Ok (IVar (VBool false), e1).
Proof.
  intros H Hv. rewrite recreate_and_step, H. cbn [obind].
  destruct v as [[|]| | | | | | | | | ]; try reflexivity. contradiction.
Qed.

Lemma and_fold_false f sc e e1 l r :
  recreate powf f sc e l = Ok (IVar (VBool false), e1) ->
  recreate powf (S f) sc e (IBin And l r) = Ok (IVar (VBool false), e1).
Proof. intros H. apply (and_fold_const f sc e e1 l r _ H). discriminate. Qed.

Lemma and_fold_nonconst f sc e e1 l l' r :
  recreate powf f sc e l = Ok (l', e1) -> is_const l' = false ->
  recreate powf (S f) sc e (IBin And l r) =
  obind (recreate powf f sc e1 r) (fun '(r', e2) => Ok (IBin And l' r', e2)).
Proof.
  intros H Hc. rewrite recreate_and_step, H. cbn [obind].
  destruct l'; try reflexivity. discriminate Hc.
Qed.

Lemma or_fold_true f sc e e1 l r :
  recreate powf f sc e l = Ok (IVar (VBool true), e1) ->
  recreate powf (S f) sc e (IBin Or l r) = Ok (IVar (VBool true), e1).
Proof. intros H. rewrite recreate_or_step, H. reflexivity. Qed.

Lemma or_fold_const f sc e e1 l r v :
  recreate powf f sc e l = Ok (IVar v, e1) -> v <> VBool true ->
  recreate powf (S f) sc e (IBin Or l r) = recreate powf f sc e1 r.
Proof.
  intros H Hv. rewrite recreate_or_step, H. cbn [obind].
  destruct v as [[|]| | | | | | | | | ]; try reflexivity. contradiction.
Qed.

Lemma or_fold_false f sc e e1 l r :
  recreate powf f sc e l = Ok (IVar (VBool false), e1) ->
  recreate powf (S f) sc e (IBin Or l r) = recreate powf f sc e1 r.
Proof. intros H. apply (or_fold_const f sc e e1 l r _ H). discriminate. Qed.

Lemma or_fold_nonconst f sc e e1 l l' r :
  recreate powf f sc e l = Ok (l', e1) -> is_const l' = false ->
  recreate powf (S f) sc e (IBin Or l r) =
  obind (recreate powf f sc e1 r) (fun '(r', e2) => Ok (IBin Or l' r', e2)).
Proof.
  intros H Hc. rewrite recreate_or_step, H. cbn [obind].
  destruct l'; try reflexivity. discriminate Hc.
Qed.

(* an error or panic of the left operand is reported as is *)
Lemma and_or_fold_left_err f sc e l r o x : o = And \/ o = Or ->
  recreate powf f sc e l = Err x -> recreate powf (S f) sc e (IBin o l r) = Err x.
Proof.
  intros [-> | ->] H; [rewrite recreate_and_step | rewrite recreate_or_step]; rewrite H; reflexivity.
Qed.

Lemma and_or_fold_left_panic f sc e l r o : o = And \/ o = Or ->
  recreate powf f sc e l = Panic -> recreate powf (S f) sc e (IBin o l r) = Panic.
Proof.
  intros [-> | ->] H; [rewrite recreate_and_step | rewrite recreate_or_step]; rewrite H; reflexivity.
Qed.

Lemma recreate_bin_step f sc e o l r : o <> And -> o <> Or ->
  recreate powf (S f) sc e (IBin o l r) =
  obind (recreate powf f sc e l) (fun '(l', e) =>
  obind (recreate powf f sc e r) (fun '(r', e) =>
  obind (fold_bin powf o l' r') (fun x => Ok (x, e)))).
Proof. intros HA HO. destruct o; try contradiction; reflexivity. Qed.

End WithPowf.

(* ---- C4: prefix operators and array repetition ---- *)

Lemma fold_un_not v : fold_un UNot (IVar v) = lift_val (unop_exec UNot v).
Proof. reflexivity. Qed.
Lemma fold_un_neg v : fold_un UUnaryMinus (IVar v) = lift_val (unop_exec UUnaryMinus v).
Proof. reflexivity. Qed.

Lemma fold_un_other o i : (o <> UNot /\ o <> UUnaryMinus) \/ is_const i = false ->
  fold_un o i = Ok (IUn o i).
Proof.
  intros [[H1 H2] | H].
  - destruct o; try contradiction; reflexivity.
  - destruct o; try reflexivity; destruct i; try reflexivity; discriminate H.
Qed.

Lemma repeat_value_eq x n : repeat_value x n = VArr (as_type x) (repeat x (Z.to_nat n)).
Proof. reflexivity. Qed.

Lemma repeat_value_length x n : 0 <= n ->
  exists vs, repeat_value x n = VArr (as_type x) vs /\
             length vs = Z.to_nat n /\ Z.of_nat (length vs) = n /\ forall y, In y vs -> y = x.
Proof.
  intros H. exists (repeat x (Z.to_nat n)). split; [reflexivity|].
  rewrite repeat_length. split; [reflexivity|]. split; [apply Z2Nat.id; exact H|].
  intros y Hy. exact (repeat_spec _ _ _ Hy).
Qed.

Lemma fold_repeat_const x n : 0 <= n ->
  fold_repeat (IVar x) (IVar (VInt n)) = Ok (IVar (repeat_value x n)).
Proof.
  intros H. cbn [fold_repeat]. destruct (Z.ltb_spec n 0); [lia | reflexivity].
Qed.

Lemma fold_repeat_neg v n : n < 0 -> fold_repeat v (IVar (VInt n)) = Err E_NegativeLength.
Proof.
  intros H. unfold fold_repeat. destruct (Z.ltb_spec n 0); [|lia].
  destruct v; reflexivity.
Qed.

Lemma fold_repeat_nonconst v n : is_const v = false -> 0 <= n ->
  fold_repeat v (IVar (VInt n)) = Ok (IArrayRepeat v (IVar (VInt n))).
Proof.
  intros Hc H. unfold fold_repeat. destruct (Z.ltb_spec n 0); [lia|].
  destruct v; try reflexivity. discriminate Hc.
Qed.

Lemma fold_repeat_other v len : (forall n, len <> IVar (VInt n)) ->
  fold_repeat v len = Ok (IArrayRepeat v len).
Proof.
  intros H. unfold fold_repeat.
  destruct len as [ | | | | | | | | | | | | | | | | | | | | | |w| | ]; try (destruct v; reflexivity).
  destruct w as [ |z| | | | | | | | ]; try (destruct v; reflexivity).
  exfalso. exact (H z eq_refl).
Qed.

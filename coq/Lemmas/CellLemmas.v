(* CellLemmas.v — mutable cells (C13): lemmas about the store operations of
   Model/Exec.v ([alloc_cell], [write_cell], [list_set]) and a history model
   ([cop], [step], [run]) that uses them exactly as the interpreter does in its
   `IMut`, `Assign` and compound-assignment arms.
   A. list_set;  B. alloc_cell / write_cell;  C. aliasing ([deref]);
   D. histories: [step], [run], frame properties;
   E. the typed content invariant [store_typed] along admissible histories. *)
From SSL.Model Require Import Base Ty Float Value Ops Syntax Exec.
From Coq Require Import List Arith Lia.
Import ListNotations.

Arguments matches : simpl never.
Arguments ty_eqb : simpl never.

(* ================================================================= *)
(* A. list_set                                                        *)
(* ================================================================= *)

Lemma list_set_length {A} (l : list A) k x : length (list_set l k x) = length l.
Proof.
  revert k; induction l as [|y l IH]; intros k; [reflexivity|].
  destruct k; cbn; [reflexivity|]. now rewrite IH.
Qed.

Lemma nth_error_list_set_eq {A} (l : list A) k x :
  k < length l -> nth_error (list_set l k x) k = Some x.
Proof.
  revert k; induction l as [|y l IH]; intros k H; cbn in H; [lia|].
  destruct k; cbn; [reflexivity|]. apply IH. lia.
Qed.

Lemma nth_error_list_set_neq {A} (l : list A) k j x :
  j <> k -> nth_error (list_set l k x) j = nth_error l j.
Proof.
  revert k j; induction l as [|y l IH]; intros k j H; [reflexivity|].
  destruct k, j; cbn; try reflexivity; [lia|]. apply IH. lia.
Qed.

Lemma list_set_out_of_range {A} (l : list A) k x :
  length l <= k -> list_set l k x = l.
Proof.
  revert k; induction l as [|y l IH]; intros k H; [reflexivity|].
  cbn in H. destruct k; [lia|]. cbn. rewrite IH by lia. reflexivity.
Qed.

(* ================================================================= *)
(* B. alloc_cell / write_cell                                         *)
(* ================================================================= *)

Lemma alloc_fresh st v st' loc :
  alloc_cell st v = (st', loc) ->
  loc = length (s_cells st) /\
  nth_error (s_cells st') loc = Some v /\
  forall l, l < loc -> nth_error (s_cells st') l = nth_error (s_cells st) l.
Proof.
  unfold alloc_cell. intros H. inversion H; subst; clear H. cbn [s_cells].
  split; [reflexivity|]. split.
  - rewrite nth_error_app2 by lia. rewrite Nat.sub_diag. reflexivity.
  - intros l Hl. apply nth_error_app1. exact Hl.
Qed.

Lemma alloc_length st v st' loc :
  alloc_cell st v = (st', loc) -> length (s_cells st') = S (length (s_cells st)).
Proof.
  unfold alloc_cell. intros H. inversion H; subst. cbn [s_cells].
  rewrite app_length. cbn. lia.
Qed.

Lemma alloc_cells st v st' loc :
  alloc_cell st v = (st', loc) -> s_cells st' = s_cells st ++ [v].
Proof. unfold alloc_cell. intros H. inversion H; subst. reflexivity. Qed.

Lemma alloc_funs st v st' loc :
  alloc_cell st v = (st', loc) -> s_funs st' = s_funs st.
Proof. unfold alloc_cell. intros H. inversion H; subst. reflexivity. Qed.

Lemma alloc_log st v st' loc :
  alloc_cell st v = (st', loc) -> s_log st' = EvAlloc loc v :: s_log st.
Proof. unfold alloc_cell. intros H. inversion H; subst. reflexivity. Qed.

(* two successive allocations never return the same location *)
Lemma alloc_twice_distinct st v1 st1 l1 v2 st2 l2 :
  alloc_cell st v1 = (st1, l1) -> alloc_cell st1 v2 = (st2, l2) -> l2 = S l1.
Proof.
  intros H1 H2. pose proof (alloc_length _ _ _ _ H1) as L.
  destruct (alloc_fresh _ _ _ _ H1) as [E1 _].
  destruct (alloc_fresh _ _ _ _ H2) as [E2 _]. lia.
Qed.

Lemma read_after_write st loc v :
  loc < length (s_cells st) -> nth_error (s_cells (write_cell st loc v)) loc = Some v.
Proof. intros H. cbn [write_cell s_cells]. apply nth_error_list_set_eq. exact H. Qed.

Lemma write_other_unchanged st loc l v :
  l <> loc -> nth_error (s_cells (write_cell st loc v)) l = nth_error (s_cells st) l.
Proof. intros H. cbn [write_cell s_cells]. apply nth_error_list_set_neq. exact H. Qed.

Lemma write_preserves_length st loc v :
  length (s_cells (write_cell st loc v)) = length (s_cells st).
Proof. cbn [write_cell s_cells]. apply list_set_length. Qed.

Lemma write_out_of_range_noop st loc v :
  length (s_cells st) <= loc -> s_cells (write_cell st loc v) = s_cells st.
Proof. intros H. cbn [write_cell s_cells]. apply list_set_out_of_range. exact H. Qed.

Lemma write_funs st loc v : s_funs (write_cell st loc v) = s_funs st.
Proof. reflexivity. Qed.

Lemma write_log st loc v : s_log (write_cell st loc v) = EvWrite loc v :: s_log st.
Proof. reflexivity. Qed.

(* the last write wins *)
Lemma write_write_same st loc v w :
  s_cells (write_cell (write_cell st loc v) loc w) = s_cells (write_cell st loc w).
Proof.
  cbn [write_cell s_cells]. generalize (s_cells st) as l. intros l. revert loc.
  induction l as [|y l IH]; intros loc; [reflexivity|].
  destruct loc; cbn; [reflexivity|]. now rewrite IH.
Qed.

(* ================================================================= *)
(* C. aliasing is by location                                         *)
(* ================================================================= *)

Definition deref (st : store) (v : value) : option value :=
  match v with VMut loc _ => nth_error (s_cells st) loc | _ => None end.

Lemma alias_same_content st loc t t' : deref st (VMut loc t) = deref st (VMut loc t').
Proof. reflexivity. Qed.

Lemma alias_write_visible st loc t t' v :
  loc < length (s_cells st) ->
  deref (write_cell st loc v) (VMut loc t) = Some v /\
  deref (write_cell st loc v) (VMut loc t') = Some v.
Proof. intros H. cbn [deref]. split; apply read_after_write; exact H. Qed.

Lemma distinct_loc_independent st loc loc' t' v :
  loc' <> loc -> deref (write_cell st loc v) (VMut loc' t') = deref st (VMut loc' t').
Proof. intros H. cbn [deref]. apply write_other_unchanged. exact H. Qed.

(* ================================================================= *)
(* D. histories                                                       *)
(* ================================================================= *)

Inductive cop : Type :=
| CAlloc (t : ty) (v : value)                    (* `mut v` with declared content type t *)
| CAssign (loc : nat) (v : value)                (* `x = v`  *)
| COpAssign (loc : nat) (o : binop) (v : value)  (* `x o= v`, o the base operator *).

Definition sig_of {A} (inj : A -> signal) (o : outcome A) : signal :=
  match o with Ok a => inj a | Err e => SError e | Panic => SPanic | OutOfFuel => SFuel end.

Definition touches (c : cop) (l : nat) : Prop :=
  match c with
  | CAlloc _ _ => False
  | CAssign loc _ | COpAssign loc _ _ => l = loc
  end.

Section WithPowf.
Variable powf : fbits -> fbits -> fbits.

Definition step (st : store) (c : cop) : store * outcome value :=
  match c with
  | CAlloc t v => let '(st', loc) := alloc_cell st v in (st', Ok (VMut loc t))
  | CAssign loc v =>
      match nth_error (s_cells st) loc with
      | Some _ => (write_cell st loc v, Ok v)
      | None => (st, Panic)
      end
  | COpAssign loc o v =>
      match nth_error (s_cells st) loc with
      | Some cur =>
          match op_exec powf o cur v with
          | Ok r => (write_cell st loc r, Ok r)
          | Err e => (st, Err e)
          | Panic => (st, Panic)
          | OutOfFuel => (st, OutOfFuel)
          end
      | None => (st, Panic)
      end
  end.

Definition run (st : store) (h : list cop) : store :=
  fold_left (fun st c => fst (step st c)) h st.

(* [step] is literally what the interpreter arms compute *)
Lemma step_alloc_is_exec_arm st (sc : scopes) t v :
  (let '(st', loc) := alloc_cell st v in (st', sc, SVal (VMut loc t)) : res) =
  (fst (step st (CAlloc t v)), sc, sig_of SVal (snd (step st (CAlloc t v)))).
Proof. reflexivity. Qed.

Lemma step_assign_is_exec_arm st (sc : scopes) loc v :
  match nth_error (s_cells st) loc with
  | Some _ => (write_cell st loc v, sc, SVal v)
  | None => (st, sc, SPanic)
  end = (fst (step st (CAssign loc v)), sc, sig_of SVal (snd (step st (CAssign loc v)))).
Proof. cbn [step]. destruct (nth_error (s_cells st) loc); reflexivity. Qed.

Lemma step_opassign_is_exec_arm st (sc : scopes) loc o v :
  match nth_error (s_cells st) loc with
  | Some cur => sig_of_outcome (op_exec powf o cur v)
                  (fun r => (write_cell st loc r, sc, SVal r)) st sc
  | None => (st, sc, SPanic)
  end = (fst (step st (COpAssign loc o v)), sc, sig_of SVal (snd (step st (COpAssign loc o v)))).
Proof.
  cbn [step]. destruct (nth_error (s_cells st) loc) as [cur|]; [|reflexivity].
  destruct (op_exec powf o cur v); reflexivity.
Qed.

Lemma run_nil st : run st [] = st.
Proof. reflexivity. Qed.

Lemma run_cons st c h : run st (c :: h) = run (fst (step st c)) h.
Proof. reflexivity. Qed.

Lemma run_app st h1 h2 : run st (h1 ++ h2) = run (run st h1) h2.
Proof. unfold run. apply fold_left_app. Qed.

Lemma alloc_yields_fresh st t v :
  snd (step st (CAlloc t v)) = Ok (VMut (length (s_cells st)) t) /\
  s_cells (fst (step st (CAlloc t v))) = s_cells st ++ [v] /\
  deref (fst (step st (CAlloc t v))) (VMut (length (s_cells st)) t) = Some v.
Proof.
  cbn [step alloc_cell fst snd s_cells deref]. split; [reflexivity|]. split; [reflexivity|].
  rewrite nth_error_app2 by lia. rewrite Nat.sub_diag. reflexivity.
Qed.

Lemma assign_yields_stored st loc v :
  loc < length (s_cells st) ->
  snd (step st (CAssign loc v)) = Ok v /\
  nth_error (s_cells (fst (step st (CAssign loc v)))) loc = Some v.
Proof.
  intros H. cbn [step].
  destruct (nth_error (s_cells st) loc) eqn:E.
  - cbn [fst snd]. split; [reflexivity|]. apply read_after_write. exact H.
  - apply nth_error_None in E. lia.
Qed.

Lemma assign_missing_panics st loc v :
  length (s_cells st) <= loc -> step st (CAssign loc v) = (st, Panic).
Proof.
  intros H. cbn [step]. apply nth_error_None in H. rewrite H. reflexivity.
Qed.

Lemma opassign_missing_panics st loc o v :
  length (s_cells st) <= loc -> step st (COpAssign loc o v) = (st, Panic).
Proof.
  intros H. cbn [step]. apply nth_error_None in H. rewrite H. reflexivity.
Qed.

Lemma opassign_value st loc o cur v r :
  nth_error (s_cells st) loc = Some cur -> op_exec powf o cur v = Ok r ->
  snd (step st (COpAssign loc o v)) = Ok r /\
  nth_error (s_cells (fst (step st (COpAssign loc o v)))) loc = Some r.
Proof.
  intros Hc Ho. cbn [step]. rewrite Hc, Ho. cbn [fst snd]. split; [reflexivity|].
  apply read_after_write. apply nth_error_Some. rewrite Hc. discriminate.
Qed.

Lemma opassign_fail_unchanged st loc o cur v e :
  nth_error (s_cells st) loc = Some cur -> op_exec powf o cur v = Err e ->
  fst (step st (COpAssign loc o v)) = st /\ snd (step st (COpAssign loc o v)) = Err e.
Proof. intros Hc Ho. cbn [step]. rewrite Hc, Ho. split; reflexivity. Qed.

(* any non-Ok outcome of the operator leaves the whole store untouched and is
   what the step yields *)
Lemma opassign_notok_unchanged st loc o cur v :
  nth_error (s_cells st) loc = Some cur ->
  (forall r, op_exec powf o cur v <> Ok r) ->
  step st (COpAssign loc o v) = (st, op_exec powf o cur v).
Proof.
  intros Hc Ho. cbn [step]. rewrite Hc.
  destruct (op_exec powf o cur v) as [r| | |]; try reflexivity.
  exfalso. apply (Ho r). reflexivity.
Qed.

(* the outcome of a compound assignment on an existing cell is the operator's *)
Lemma opassign_outcome st loc o cur v :
  nth_error (s_cells st) loc = Some cur ->
  snd (step st (COpAssign loc o v)) = op_exec powf o cur v.
Proof.
  intros Hc. cbn [step]. rewrite Hc. destruct (op_exec powf o cur v); reflexivity.
Qed.

Lemma alias_step_visible st loc t t' v :
  deref st (VMut loc t) <> None ->
  deref (fst (step st (CAssign loc v))) (VMut loc t') = Some v.
Proof.
  cbn [deref]. intros H. apply nth_error_Some in H.
  apply (assign_yields_stored st loc v H).
Qed.

Lemma step_funs st c : s_funs (fst (step st c)) = s_funs st.
Proof.
  destruct c as [t v|loc v|loc o v]; cbn [step].
  - reflexivity.
  - destruct (nth_error (s_cells st) loc); reflexivity.
  - destruct (nth_error (s_cells st) loc) as [cur|]; [|reflexivity].
    destruct (op_exec powf o cur v); reflexivity.
Qed.

Lemma run_funs st h : s_funs (run st h) = s_funs st.
Proof.
  revert st; induction h as [|c h IH]; intros st; [reflexivity|].
  rewrite run_cons, IH. apply step_funs.
Qed.

Lemma step_length st c :
  length (s_cells (fst (step st c))) =
  match c with CAlloc _ _ => S (length (s_cells st)) | _ => length (s_cells st) end.
Proof.
  destruct c as [t v|loc v|loc o v]; cbn [step].
  - cbn [alloc_cell fst s_cells]. rewrite app_length. cbn. lia.
  - destruct (nth_error (s_cells st) loc); cbn [fst]; [apply write_preserves_length|reflexivity].
  - destruct (nth_error (s_cells st) loc) as [cur|]; [|reflexivity].
    destruct (op_exec powf o cur v); cbn [fst]; try reflexivity. apply write_preserves_length.
Qed.

Lemma step_length_mono st c : length (s_cells st) <= length (s_cells (fst (step st c))).
Proof. rewrite step_length. destruct c; lia. Qed.

Lemma run_length_mono st h : length (s_cells st) <= length (s_cells (run st h)).
Proof.
  revert st; induction h as [|c h IH]; intros st; [cbn; lia|].
  rewrite run_cons. etransitivity; [apply step_length_mono|apply IH].
Qed.

Definition allocs (h : list cop) : nat :=
  length (filter (fun c => match c with CAlloc _ _ => true | _ => false end) h).

Lemma run_length_exact st h : length (s_cells (run st h)) = length (s_cells st) + allocs h.
Proof.
  revert st; induction h as [|c h IH]; intros st; [cbn; lia|].
  rewrite run_cons, IH, step_length. unfold allocs. destruct c; cbn; lia.
Qed.

Lemma step_other_unchanged st c l :
  l < length (s_cells st) -> ~ touches c l ->
  nth_error (s_cells (fst (step st c))) l = nth_error (s_cells st) l.
Proof.
  intros Hl Ht. destruct c as [t v|loc v|loc o v]; cbn [step touches] in *.
  - cbn [alloc_cell fst s_cells]. apply nth_error_app1. exact Hl.
  - destruct (nth_error (s_cells st) loc); cbn [fst]; [|reflexivity].
    apply write_other_unchanged. exact Ht.
  - destruct (nth_error (s_cells st) loc) as [cur|]; [|reflexivity].
    destruct (op_exec powf o cur v); cbn [fst]; try reflexivity.
    apply write_other_unchanged. exact Ht.
Qed.

(* the log only grows, by at most one event per step *)
Lemma step_log st c :
  s_log (fst (step st c)) = s_log st \/
  exists ev, s_log (fst (step st c)) = ev :: s_log st.
Proof.
  destruct c as [t v|loc v|loc o v]; cbn [step].
  - right. eexists. reflexivity.
  - destruct (nth_error (s_cells st) loc); cbn [fst]; [right; eexists; reflexivity|left; reflexivity].
  - destruct (nth_error (s_cells st) loc) as [cur|]; [|left; reflexivity].
    destruct (op_exec powf o cur v); cbn [fst]; try (left; reflexivity).
    right; eexists; reflexivity.
Qed.

Lemma run_log_suffix st h :
  exists evs, s_log (run st h) = evs ++ s_log st /\ length evs <= length h.
Proof.
  revert st; induction h as [|c h IH]; intros st.
  - exists []. split; [reflexivity|cbn; lia].
  - rewrite run_cons. destruct (IH (fst (step st c))) as [evs [E L]].
    destruct (step_log st c) as [S|[ev S]]; rewrite S in E.
    + exists evs. split; [exact E|cbn; lia].
    + exists (evs ++ [ev]). rewrite <- app_assoc. split; [exact E|].
      rewrite app_length. cbn. lia.
Qed.

(* ================================================================= *)
(* E. typed content invariant                                         *)
(* ================================================================= *)

Definition cells_ok (decl : list ty) (st : store) : Prop :=
  forall loc t, nth_error decl loc = Some t ->
    exists v, nth_error (s_cells st) loc = Some v /\ has_type v t = true.

Definition store_typed (decl : list ty) (st : store) : Prop :=
  length decl = length (s_cells st) /\ cells_ok decl st.

Definition decl_after (decl : list ty) (c : cop) : list ty :=
  match c with CAlloc t _ => decl ++ [t] | _ => decl end.

Definition decl_run (decl : list ty) (h : list cop) : list ty := fold_left decl_after h decl.

Definition admissible_step (decl : list ty) (c : cop) : Prop :=
  match c with
  | CAlloc t v => has_type v t = true
  | CAssign loc v => exists t, nth_error decl loc = Some t /\ has_type v t = true
  | COpAssign loc o v =>
      exists t, nth_error decl loc = Some t /\
        forall cur r, has_type cur t = true -> op_exec powf o cur v = Ok r -> has_type r t = true
  end.

Fixpoint admissible_run (decl : list ty) (h : list cop) : Prop :=
  match h with
  | [] => True
  | c :: h => admissible_step decl c /\ admissible_run (decl_after decl c) h
  end.

Lemma store_typed_empty fs log : store_typed [] (mkStore fs [] log).
Proof. split; [reflexivity|]. intros loc t H. destruct loc; discriminate. Qed.

Lemma cells_ok_write decl st loc t v :
  cells_ok decl st -> nth_error decl loc = Some t -> has_type v t = true ->
  cells_ok decl (write_cell st loc v).
Proof.
  intros Hok Hd Hv l t' Hl. destruct (Nat.eq_dec l loc) as [->|Hne].
  - rewrite Hd in Hl. inversion Hl; subst t'. exists v. split; [|exact Hv].
    apply read_after_write. destruct (Hok _ _ Hd) as [w [Hw _]].
    apply nth_error_Some. rewrite Hw. discriminate.
  - rewrite write_other_unchanged by exact Hne. apply Hok. exact Hl.
Qed.

Lemma store_typed_step decl st c :
  store_typed decl st -> admissible_step decl c ->
  store_typed (decl_after decl c) (fst (step st c)).
Proof.
  intros [Hlen Hok] Ha. destruct c as [t v|loc v|loc o v]; cbn [decl_after admissible_step] in *.
  - cbn [step alloc_cell fst]. split.
    + cbn [s_cells]. rewrite !app_length. cbn. lia.
    + intros l t' Hl. cbn [s_cells].
      destruct (Nat.lt_ge_cases l (length decl)) as [Hlt|Hge].
      * rewrite nth_error_app1 in Hl by exact Hlt.
        rewrite nth_error_app1 by lia. apply Hok. exact Hl.
      * rewrite nth_error_app2 in Hl by exact Hge.
        rewrite nth_error_app2 by lia. rewrite <- Hlen.
        destruct (l - length decl) as [|n]; cbn in Hl.
        -- inversion Hl; subst t'. exists v. split; [reflexivity|exact Ha].
        -- destruct n; discriminate.
  - destruct Ha as [t [Hd Hv]]. destruct (Hok _ _ Hd) as [w [Hw _]].
    cbn [step]. rewrite Hw. cbn [fst]. split.
    + rewrite write_preserves_length. exact Hlen.
    + eapply cells_ok_write; eassumption.
  - destruct Ha as [t [Hd Hop]]. destruct (Hok _ _ Hd) as [cur [Hw Hc]].
    cbn [step]. rewrite Hw.
    destruct (op_exec powf o cur v) as [r| | |] eqn:Eo; cbn [fst]; try (split; assumption).
    split.
    + rewrite write_preserves_length. exact Hlen.
    + eapply cells_ok_write; try eassumption. eapply Hop; eassumption.
Qed.

Lemma decl_run_cons decl c h : decl_run decl (c :: h) = decl_run (decl_after decl c) h.
Proof. reflexivity. Qed.

Theorem store_typed_run decl st h :
  store_typed decl st -> admissible_run decl h ->
  store_typed (decl_run decl h) (run st h).
Proof.
  revert decl st; induction h as [|c h IH]; intros decl st Hst Ha; [exact Hst|].
  destruct Ha as [Hc Hh]. rewrite run_cons, decl_run_cons.
  apply IH; [|exact Hh]. apply store_typed_step; assumption.
Qed.

Lemma admissible_run_firstn decl h k : admissible_run decl h -> admissible_run decl (firstn k h).
Proof.
  revert decl h; induction k as [|k IH]; intros decl h Ha; [exact I|].
  destruct h as [|c h]; [exact I|]. destruct Ha as [Hc Hh].
  cbn [firstn admissible_run]. split; [exact Hc|]. apply IH. exact Hh.
Qed.

Lemma admissible_run_app decl h1 h2 :
  admissible_run decl (h1 ++ h2) <->
  admissible_run decl h1 /\ admissible_run (decl_run decl h1) h2.
Proof.
  revert decl; induction h1 as [|c h1 IH]; intros decl; cbn [app admissible_run].
  - unfold decl_run; cbn. tauto.
  - rewrite IH, decl_run_cons. tauto.
Qed.

Theorem store_typed_prefix decl st h k :
  store_typed decl st -> admissible_run decl h ->
  store_typed (decl_run decl (firstn k h)) (run st (firstn k h)).
Proof.
  intros Hst Ha. apply store_typed_run; [exact Hst|]. apply admissible_run_firstn. exact Ha.
Qed.

(* from the empty store: the final declarations are the allocation types in order *)
Corollary store_typed_from_empty fs log h :
  admissible_run [] h ->
  store_typed (decl_run [] h) (run (mkStore fs [] log) h).
Proof. intros Ha. apply store_typed_run; [apply store_typed_empty|exact Ha]. Qed.

(* under the invariant an admissible assignment never hits the missing-cell arm *)
Theorem typed_assign_no_panic decl st loc v :
  store_typed decl st -> admissible_step decl (CAssign loc v) ->
  snd (step st (CAssign loc v)) = Ok v /\
  nth_error (s_cells (fst (step st (CAssign loc v)))) loc = Some v.
Proof.
  intros [_ Hok] [t [Hd _]]. destruct (Hok _ _ Hd) as [w [Hw _]].
  apply assign_yields_stored. apply nth_error_Some. rewrite Hw. discriminate.
Qed.

Theorem typed_opassign_no_missing decl st loc o v :
  store_typed decl st -> admissible_step decl (COpAssign loc o v) ->
  exists t cur, nth_error decl loc = Some t /\
    nth_error (s_cells st) loc = Some cur /\ has_type cur t = true /\
    snd (step st (COpAssign loc o v)) = op_exec powf o cur v.
Proof.
  intros [_ Hok] [t [Hd _]]. destruct (Hok _ _ Hd) as [cur [Hw Hc]].
  exists t, cur. repeat split; try assumption. apply opassign_outcome. exact Hw.
Qed.

(* ... so a Panic of an admissible step can only be the operator's own *)
Theorem typed_step_panic_only_from_op decl st c :
  store_typed decl st -> admissible_step decl c ->
  snd (step st c) = Panic ->
  exists loc o v cur, c = COpAssign loc o v /\
    nth_error (s_cells st) loc = Some cur /\ op_exec powf o cur v = Panic.
Proof.
  intros Hst Ha Hp. destruct c as [t v|loc v|loc o v].
  - cbn in Hp. discriminate.
  - destruct (typed_assign_no_panic _ _ _ _ Hst Ha) as [E _]. rewrite E in Hp. discriminate.
  - destruct (typed_opassign_no_missing _ _ _ _ _ Hst Ha) as [t [cur [_ [Hw [_ E]]]]].
    exists loc, o, v, cur. rewrite E in Hp. auto.
Qed.

(* the value yielded by an admissible step inhabits the declared type *)
Theorem typed_step_yields_typed decl st c r :
  store_typed decl st -> admissible_step decl c -> snd (step st c) = Ok r ->
  match c with
  | CAlloc t _ => r = VMut (length decl) t
  | CAssign loc _ | COpAssign loc _ _ =>
      exists t, nth_error decl loc = Some t /\ has_type r t = true /\
                nth_error (s_cells (fst (step st c))) loc = Some r
  end.
Proof.
  intros Hst Ha Hr. destruct c as [t v|loc v|loc o v].
  - destruct Hst as [Hlen _]. cbn in Hr. inversion Hr. rewrite Hlen. reflexivity.
  - destruct (typed_assign_no_panic _ _ _ _ Hst Ha) as [E S]. rewrite E in Hr.
    inversion Hr; subst r. destruct Ha as [t [Hd Hv]]. exists t. auto.
  - destruct (typed_opassign_no_missing _ _ _ _ _ Hst Ha) as [t [cur [Hd [Hw [Hc E]]]]].
    rewrite E in Hr. destruct Ha as [t' [Hd' Hop]]. rewrite Hd in Hd'. inversion Hd'; subst t'.
    exists t. split; [exact Hd|]. split; [eapply Hop; eassumption|].
    apply (opassign_value _ _ _ _ _ _ Hw Hr).
Qed.

(* ================================================================= *)
(* F. the `mut int|string` example: admissibility of `x += "b"`       *)
(* ================================================================= *)

Definition t_int_or_string : ty := TMulti [TInt; TString].

Lemma has_type_string_int_or_string s : has_type (VString s) t_int_or_string = true.
Proof. reflexivity. Qed.

Lemma add_string_keeps_int_or_string s cur r :
  has_type cur t_int_or_string = true ->
  op_exec powf Ops.Add cur (VString s) = Ok r -> has_type r t_int_or_string = true.
Proof.
  intros _ H. destruct cur; cbn [op_exec] in H; try discriminate.
  inversion H; subst r. apply has_type_string_int_or_string.
Qed.

End WithPowf.

(* ================================================================= *)
(* F. bridge to the checker: what Check.can_be_used accepts is an      *)
(*    admissible step (uses Lemmas/SoundLemmas.v)                      *)
(* ================================================================= *)
From SSL.Model Require Import Rt Recreate Check.
From SSL.Lemmas Require Import SoundLemmas.

Section Bridge.
Variable powf : fbits -> fbits -> fbits.

Theorem checked_assign_admissible decl loc t T2 v :
  nth_error decl loc = Some t ->
  can_be_used Assign (TMut t) T2 = Ok true -> has_type v T2 = true ->
  admissible_step powf decl (CAssign loc v).
Proof.
  intros Hd C Hv. exists t. split; [exact Hd|].
  apply (assign_sound (TMut t) t T2 v eq_refl eq_refl C Hv).
Qed.

Theorem checked_opassign_admissible decl loc aop bop t T2 v :
  assign_base aop = Some bop -> wf_ty t = true -> wf_ty T2 = true ->
  nth_error decl loc = Some t ->
  can_be_used aop (TMut t) T2 = Ok true -> has_type v T2 = true ->
  admissible_step powf decl (COpAssign loc bop v).
Proof.
  intros Hb Wt W2 Hd C Hv. exists t. split; [exact Hd|]. intros cur r Hc E.
  destruct (compound_assign_sound powf aop bop (TMut t) t T2 v cur Hb Wt W2 eq_refl eq_refl C Hv Hc)
    as [_ [_ [H _]]].
  apply H. exact E.
Qed.

(* on a typed store a checked compound assignment neither panics nor fails
   with anything but the documented error of its base operator *)
Theorem typed_checked_opassign_outcome decl st loc aop bop t T2 v :
  store_typed decl st ->
  assign_base aop = Some bop -> wf_ty t = true -> wf_ty T2 = true ->
  nth_error decl loc = Some t ->
  can_be_used aop (TMut t) T2 = Ok true -> has_type v T2 = true ->
  snd (step powf st (COpAssign loc bop v)) <> Panic /\
  (forall e, snd (step powf st (COpAssign loc bop v)) = Err e -> doc_error bop e).
Proof.
  intros Ht Hb Wt W2 Hd C Hv.
  pose proof (checked_opassign_admissible decl loc aop bop t T2 v Hb Wt W2 Hd C Hv) as Ha.
  destruct (typed_opassign_no_missing powf decl st loc bop v Ht Ha) as [t' [cur [Hd' [Hn [Hc ->]]]]].
  rewrite Hd in Hd'. injection Hd' as <-.
  destruct (compound_assign_sound powf aop bop (TMut t) t T2 v cur Hb Wt W2 eq_refl eq_refl C Hv Hc)
    as [P [_ [_ Er]]].
  split; [exact P|exact Er].
Qed.

End Bridge.

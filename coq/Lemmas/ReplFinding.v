(* ReplFinding.v — REPL and batch can BOTH complete with DIFFERENT results (C17 finding,
   confirmed on the implementation with the harness commands `repl` / `batch`).

     c := mut 0;
     x := if *c == 0 { 1 } else { "a" };       batch: x : int | string     REPL: x = 1
     m := mut x;                               batch: mut (int | string)   REPL: mut int
     r := match m { a: mut int => { 1 }, b: mut (int|string) => { 2 }, => { 3 } };

   An un-annotated `mut e` declares the cell with the STATIC type of e.  The batch route knows
   x by its declared type, the REPL route by its value; the declared type of the cell becomes
   part of the run-time value ([VMut loc t]) and a type arm of `match` reads it (`mut` is
   invariant): r = 2 in batch, r = 1 in the REPL.  On the implementation:
     (repl (c x m r) "c := mut 0;" "x := if *c == 0 { 1 } else { \"a\" };" "m := mut x;" "r := match m {..};")
                                                                         ... r = (i 1)
     (batch (c x m r) "c := mut 0; x := ...; m := mut x; r := match m {..};")  r = (i 2)
   This is exactly what the exactness hypothesis of ReplMain excludes: at the third input
   x is known to the batch route at type int | string and bound to a value of type int. *)
From SSL.Model Require Import Base Ty Float Value Ops Seq Syntax Rt Recreate Exec Check Top Repl.
From SSL.Lemmas Require Import ExecLemmas RecrMono RecrDefs RecrExamples RecrExamples2 ReplFrag ReplMain ReplExamples.
Local Open Scope Z_scope.

Definition nm : name := [109]. Definition nr : name := [114].
Definition na1 : name := [97]. Definition nb1 : name := [98].
Definition T_IS : ty := concat TInt TString.
Definition blk (z : Z) : sstm := SBlock [LStm (SExpr (num z))].

Definition bad_lines : list sline :=
  [ LSet nc (SExpr (XMut None (num 0)));
    LSet nx (SIfElse (XInfix Equal (deref nc) (num 0)) (blk 1)
                     (Some (SBlock [LStm (SExpr (XConst (VString [97])))])));
    LSet nm (SExpr (XMut None (XIdent nx)));
    LSet nr (SMatch (XIdent nm) [AType na1 (TMut TInt) (blk 1); AType nb1 (TMut T_IS) (blk 2); AOther (blk 3)]) ].
Definition bad_inputs : list (list sline) := map (fun ln => [ln]) bad_lines.

Definition repl_r := repl_run pw0 pre0 red0 100 100 it0 bad_inputs.
Definition batch_r := batch_prefixes pw0 pre0 red0 100 100 it0 bad_inputs.

(* both routes accept every input and every input runs to a value ... *)
Example both_complete :
  map fst repl_r = [InRan (SVal (VMut 0 TInt)); InRan (SVal (VInt 1)); InRan (SVal (VMut 1 TInt)); InRan (SVal (VInt 1))] /\
  map fst batch_r = [InRan (SVal (VMut 0 TInt)); InRan (SVal (VInt 1)); InRan (SVal (VMut 1 T_IS)); InRan (SVal (VInt 2))].
Proof. vm_compute. split; reflexivity. Qed.

(* ... and the top-level variable r differs *)
Example r_differs :
  observe [nr] (snd (last repl_r (InParsePanic, it0))) = [Some (VInt 1)] /\
  observe [nr] (snd (last batch_r (InParsePanic, it0))) = [Some (VInt 2)].
Proof. vm_compute. split; reflexivity. Qed.

(* the fragment is not the reason *)
Example bad_in_fragment : forallb rfl bad_lines = true.
Proof. reflexivity. Qed.

(* exactness is: after two inputs the batch environment knows x at type int | string, and x
   is bound to 1 *)
Example exactness_fails :
  exists e_b sc,
    obind (parse_top pw0 red0 100 [[]] e_new (firstn 2 bad_lines)) (fun p => Ok (snd p)) = Ok e_b /\
    i_scopes (snd (last (repl_run pw0 pre0 red0 100 100 it0 (firstn 2 bad_inputs)) (InParsePanic, it0))) = sc /\
    lenv_get nx e_b = Some (LOther T_IS) /\ scopes_get nx sc = Some (VInt 1) /\
    ~ exact e_b sc.
Proof.
  eexists. eexists. split; [vm_compute; reflexivity|]. split; [vm_compute; reflexivity|].
  split; [vm_compute; reflexivity|]. split; [vm_compute; reflexivity|].
  intros H. destruct (H nx (LOther T_IS) ltac:(vm_compute; reflexivity) ltac:(intros v C; discriminate C)) as [v [Hv Ht]].
  vm_compute in Hv. injection Hv as <-. vm_compute in Ht. discriminate Ht.
Qed.

(* ScalarTie.v — the regenerated description of the scalar operators (Gen/GenScalar.v,
   rewritten from the Rust sources on every run) agrees with the hand-written model
   (Model/Ops.v: op_exec / unop_exec / assign_base; Model/Recreate.v: fold_bin / fold_un).
   Every proof is a case analysis over ALL values / instructions, so that the panic arms
   are compared too.  An edit of the Rust code that changes an arm, a guard, a bound, an
   operand order or a table entry changes GenScalar.v and breaks a lemma here. *)
From SSL.Model Require Import Base Ty Float Value Ops Seq Syntax Rt Recreate GenGlue.
From SSL.Gen Require Import GenScalar.
From SSL.Lemmas Require Import OpsLemmas OpsLemmas2.
From Coq Require Import ZArith Lia Bool.
Local Open Scope Z_scope.

Arguments pow_loop : simpl never.
Arguments rs_wrapping_pow_u64 : simpl never.

(* ---- the exponentiation loop of math/pow.rs ---- *)
Lemma land1_odd z : Z.eqb (Z.land z 1) 1 = Z.odd z.
Proof.
  change 1 with (Z.ones 1) at 1. rewrite Z.land_ones by lia.
  change (2 ^ 1) with 2. rewrite Zmod_odd. destruct (Z.odd z); reflexivity.
Qed.

Lemma gtb0_leb z : Z.gtb z 0 = negb (z <=? 0).
Proof. rewrite Z.gtb_ltb, Z.ltb_antisym. reflexivity. Qed.

Lemma gen_pow_loop_eq : forall fuel b e acc,
  gen_pow_wrapping_pow_loop fuel b e acc = pow_loop fuel b e acc.
Proof.
  induction fuel as [|fuel IH]; intros b e acc; [reflexivity|].
  cbn [gen_pow_wrapping_pow_loop]. unfold pow_loop; fold pow_loop.
  rewrite gtb0_leb, land1_odd.
  destruct (e <=? 0); cbn [negb]; [reflexivity|]. apply IH.
Qed.

Lemma gen_wrapping_pow_eq powf b e : gen_pow_wrapping_pow powf b e = rs_wrapping_pow_u64 b e.
Proof. unfold gen_pow_wrapping_pow, rs_wrapping_pow_u64. apply gen_pow_loop_eq. Qed.

(* the regenerated loop (with its fuel 64 = width of u64) is exact modular exponentiation *)
Lemma gen_wrapping_pow_exact powf b e : 0 <= e < two64 ->
  gen_pow_wrapping_pow powf b e = wrap64 (b ^ e).
Proof. intros H. rewrite gen_wrapping_pow_eq. apply wrapping_pow_u64_spec. exact H. Qed.

(* ---- tactics ---- *)
(* (lo..hi).contains(x) is (lo..=hi-1).contains(x) *)
Lemma range_excl_incl lo hi x : range_excl_contains lo hi x = range_incl_contains lo (Z.pred hi) x.
Proof.
  unfold range_excl_contains, range_incl_contains. f_equal.
  destruct (Z.ltb_spec x hi), (Z.leb_spec x (Z.pred hi)); try reflexivity; lia.
Qed.

Ltac norm_cmp :=
  rewrite ?Z.gtb_ltb, ?Z.geb_leb;
  repeat match goal with
  | |- context [range_excl_contains ?lo ?hi ?x] =>
      let h := eval vm_compute in (Z.pred hi) in
      rewrite (range_excl_incl lo hi x); change (Z.pred hi) with h
  end;
  unfold range_incl_contains.

Ltac split_cases :=
  repeat (cbn [first_arm negb];
          match goal with
          | |- context [match ?v with _ => _ end] => is_var v; destruct v
          | |- context [if negb ?c then _ else _] => destruct c eqn:?
          | |- context [if ?c then _ else _] => destruct c eqn:?
          end);
  cbn [first_arm negb].

(* evaluate a table lookup without touching the operator functions themselves *)
Ltac run_table :=
  cbv [dispatch2 dispatch1 dispatch_assign lookup_arm option_map
       binop_beq unop_beq gfn_beq gmod_beq
       gen_exec_dispatch gen_exec_dispatch_default gen_recreate_dispatch gen_recreate_dispatch_default
       gen_unary_exec_dispatch gen_unary_exec_dispatch_default
       gen_unary_recreate_dispatch gen_unary_recreate_dispatch_default
       gen_exec_of gen_fold_of gen_unary_exec_of gen_unary_fold_of].

(* boolean tests on Z as propositions, for conditions written differently in the code *)
Ltac zbool_hyps :=
  repeat match goal with
  | H : (_ && _) = true |- _ => apply andb_true_iff in H; destruct H
  | H : (_ && _) = false |- _ => apply andb_false_iff in H
  | H : (_ || _) = true |- _ => apply orb_true_iff in H
  | H : (_ || _) = false |- _ => apply orb_false_iff in H; destruct H
  | H : negb _ = true |- _ => apply negb_true_iff in H
  | H : negb _ = false |- _ => apply negb_false_iff in H
  | H : (_ <? _) = true |- _ => apply Z.ltb_lt in H
  | H : (_ <? _) = false |- _ => apply Z.ltb_ge in H
  | H : (_ <=? _) = true |- _ => apply Z.leb_le in H
  | H : (_ <=? _) = false |- _ => apply Z.leb_gt in H
  | H : (_ =? _) = true |- _ => apply Z.eqb_eq in H
  | H : (_ =? _) = false |- _ => apply Z.eqb_neq in H
  end.
Ltac finish := first [ reflexivity | exfalso; zbool_hyps; lia ].

Section Tie.
Variable powf : fbits -> fbits -> fbits.

Ltac tie2 g :=
  let a := fresh "a" in let b := fresh "b" in
  intros a b; unfold g; destruct a, b; cbn [op_exec first_arm];
  rewrite ?gen_wrapping_pow_eq; norm_cmp; split_cases; finish.

Ltac tie1 g :=
  let a := fresh "a" in
  intros a; unfold g; destruct a; cbn [unop_exec first_arm]; split_cases; reflexivity.

(* ---- the 17 pure binary operators, on all values ---- *)
Lemma gen_add_exec_eq : forall a b, gen_add_exec powf a b = op_exec powf Add a b.
Proof. tie2 gen_add_exec. Qed.
Lemma gen_subtract_exec_eq : forall a b, gen_subtract_exec powf a b = op_exec powf Subtract a b.
Proof. tie2 gen_subtract_exec. Qed.
Lemma gen_multiply_exec_eq : forall a b, gen_multiply_exec powf a b = op_exec powf Multiply a b.
Proof. tie2 gen_multiply_exec. Qed.
Lemma gen_divide_exec_eq : forall a b, gen_divide_exec powf a b = op_exec powf Divide a b.
Proof. tie2 gen_divide_exec. Qed.
Lemma gen_modulo_exec_eq : forall a b, gen_modulo_exec powf a b = op_exec powf Modulo a b.
Proof. tie2 gen_modulo_exec. Qed.
Lemma gen_pow_exec_eq : forall a b, gen_pow_exec powf a b = op_exec powf Pow a b.
Proof. tie2 gen_pow_exec. Qed.
Lemma gen_equal_exec_eq : forall a b, gen_equal_exec powf a b = op_exec powf Equal a b.
Proof. intros; reflexivity. Qed.
Lemma gen_not_equal_exec_eq : forall a b, gen_not_equal_exec powf a b = op_exec powf NotEqual a b.
Proof. intros; reflexivity. Qed.
Lemma gen_greater_exec_eq : forall a b, gen_greater_exec powf a b = op_exec powf Greater a b.
Proof. tie2 gen_greater_exec. Qed.
Lemma gen_greater_equal_exec_eq : forall a b,
  gen_greater_equal_exec powf a b = op_exec powf GreaterOrEqual a b.
Proof. tie2 gen_greater_equal_exec. Qed.
Lemma gen_lower_exec_eq : forall a b, gen_lower_exec powf a b = op_exec powf Lower a b.
Proof. tie2 gen_lower_exec. Qed.
Lemma gen_lower_equal_exec_eq : forall a b, gen_lower_equal_exec powf a b = op_exec powf LowerOrEqual a b.
Proof. tie2 gen_lower_equal_exec. Qed.
Lemma gen_bitwise_and_exec_eq : forall a b, gen_bitwise_and_exec powf a b = op_exec powf BitwiseAnd a b.
Proof. tie2 gen_bitwise_and_exec. Qed.
Lemma gen_bitwise_or_exec_eq : forall a b, gen_bitwise_or_exec powf a b = op_exec powf BitwiseOr a b.
Proof. tie2 gen_bitwise_or_exec. Qed.
Lemma gen_xor_exec_eq : forall a b, gen_xor_exec powf a b = op_exec powf Xor a b.
Proof. tie2 gen_xor_exec. Qed.
Lemma gen_lshift_exec_eq : forall a b, gen_lshift_exec powf a b = op_exec powf LShift a b.
Proof. tie2 gen_lshift_exec. Qed.
Lemma gen_rshift_exec_eq : forall a b, gen_rshift_exec powf a b = op_exec powf RShift a b.
Proof. tie2 gen_rshift_exec. Qed.

(* ---- the two prefix operators ---- *)
Lemma gen_not_exec_eq : forall a, gen_not_exec powf a = unop_exec UNot a.
Proof. tie1 gen_not_exec. Qed.
Lemma gen_unary_minus_exec_eq : forall a, gen_unary_minus_exec powf a = unop_exec UUnaryMinus a.
Proof. tie1 gen_unary_minus_exec. Qed.

(* ---- constant folding: create_from_instructions ---- *)
Lemma gen_with_exec_eq : forall l r op ex,
  gen_create_from_instructions_with_exec powf l r op ex =
  match l, r with
  | IVar a, IVar b => lift_val (ex a b)
  | _, _ => Ok (IBin op l r)
  end.
Proof.
  intros. unfold gen_create_from_instructions_with_exec, lift_val.
  destruct l; try reflexivity; destruct r; reflexivity.
Qed.

(* operators folded through create_from_instructions_with_exec *)
Ltac fold_generic g e :=
  let l := fresh "l" in let r := fresh "r" in
  intros l r; unfold g; rewrite gen_with_exec_eq; cbn [fold_bin];
  destruct l; try reflexivity; destruct r; try reflexivity; rewrite e; reflexivity.

(* operators with a match of their own (divide, modulo, shifts) *)
Ltac fold_own g e :=
  let l := fresh "l" in let r := fresh "r" in
  intros l r; unfold g; cbn [fold_bin]; unfold lift_val;
  destruct l; destruct r; cbn [first_arm]; rewrite ?e; norm_cmp; split_cases; finish.

Lemma gen_add_fold_eq : forall l r, gen_add_fold powf l r = fold_bin powf Add l r.
Proof. fold_generic gen_add_fold gen_add_exec_eq. Qed.
Lemma gen_subtract_fold_eq : forall l r, gen_subtract_fold powf l r = fold_bin powf Subtract l r.
Proof. fold_generic gen_subtract_fold gen_subtract_exec_eq. Qed.
Lemma gen_multiply_fold_eq : forall l r, gen_multiply_fold powf l r = fold_bin powf Multiply l r.
Proof. fold_generic gen_multiply_fold gen_multiply_exec_eq. Qed.
Lemma gen_divide_fold_eq : forall l r, gen_divide_fold powf l r = fold_bin powf Divide l r.
Proof. fold_own gen_divide_fold gen_divide_exec_eq. Qed.
Lemma gen_modulo_fold_eq : forall l r, gen_modulo_fold powf l r = fold_bin powf Modulo l r.
Proof. fold_own gen_modulo_fold gen_modulo_exec_eq. Qed.
Lemma gen_equal_fold_eq : forall l r, gen_equal_fold powf l r = fold_bin powf Equal l r.
Proof. fold_generic gen_equal_fold gen_equal_exec_eq. Qed.
Lemma gen_not_equal_fold_eq : forall l r, gen_not_equal_fold powf l r = fold_bin powf NotEqual l r.
Proof. fold_generic gen_not_equal_fold gen_not_equal_exec_eq. Qed.
Lemma gen_greater_fold_eq : forall l r, gen_greater_fold powf l r = fold_bin powf Greater l r.
Proof. fold_generic gen_greater_fold gen_greater_exec_eq. Qed.
Lemma gen_greater_equal_fold_eq : forall l r,
  gen_greater_equal_fold powf l r = fold_bin powf GreaterOrEqual l r.
Proof. fold_generic gen_greater_equal_fold gen_greater_equal_exec_eq. Qed.
Lemma gen_lower_fold_eq : forall l r, gen_lower_fold powf l r = fold_bin powf Lower l r.
Proof. fold_generic gen_lower_fold gen_lower_exec_eq. Qed.
Lemma gen_lower_equal_fold_eq : forall l r, gen_lower_equal_fold powf l r = fold_bin powf LowerOrEqual l r.
Proof. fold_generic gen_lower_equal_fold gen_lower_equal_exec_eq. Qed.
Lemma gen_bitwise_and_fold_eq : forall l r, gen_bitwise_and_fold powf l r = fold_bin powf BitwiseAnd l r.
Proof. fold_generic gen_bitwise_and_fold gen_bitwise_and_exec_eq. Qed.
Lemma gen_bitwise_or_fold_eq : forall l r, gen_bitwise_or_fold powf l r = fold_bin powf BitwiseOr l r.
Proof. fold_generic gen_bitwise_or_fold gen_bitwise_or_exec_eq. Qed.
Lemma gen_xor_fold_eq : forall l r, gen_xor_fold powf l r = fold_bin powf Xor l r.
Proof. fold_generic gen_xor_fold gen_xor_exec_eq. Qed.
Lemma gen_lshift_fold_eq : forall l r, gen_lshift_fold powf l r = fold_bin powf LShift l r.
Proof. fold_own gen_lshift_fold gen_lshift_exec_eq. Qed.
Lemma gen_rshift_fold_eq : forall l r, gen_rshift_fold powf l r = fold_bin powf RShift l r.
Proof. fold_own gen_rshift_fold gen_rshift_exec_eq. Qed.

Ltac fold_un_tac g e :=
  let i := fresh "i" in
  intros i; unfold g, fold_un, lift_val; destruct i; cbn [first_arm]; rewrite ?e; reflexivity.

Lemma gen_not_fold_eq : forall i, gen_not_fold powf i = fold_un UNot i.
Proof. fold_un_tac gen_not_fold gen_not_exec_eq. Qed.
Lemma gen_unary_minus_fold_eq : forall i, gen_unary_minus_fold powf i = fold_un UUnaryMinus i.
Proof. fold_un_tac gen_unary_minus_fold gen_unary_minus_exec_eq. Qed.

(* ---- the dispatch tables, read as functions ---- *)
Definition run_exec_table (o : binop) (a b : value) : option (outcome value) :=
  dispatch2 _ _ (gen_exec_of powf) binop_beq gen_exec_dispatch gen_exec_dispatch_default F_exec o a b.
Definition run_recreate_table (o : binop) (l r : instr) : option (outcome instr) :=
  dispatch2 _ _ (gen_fold_of powf) binop_beq gen_recreate_dispatch gen_recreate_dispatch_default
            F_create o l r.
Definition run_assign_table (o : binop) (cur rhs : value) : option (outcome value) :=
  dispatch_assign _ _ (gen_exec_of powf) binop_beq gen_exec_dispatch gen_exec_dispatch_default o cur rhs.
Definition run_unary_exec_table (o : unop) (a : value) : option (outcome value) :=
  dispatch1 _ _ (gen_unary_exec_of powf) unop_beq gen_unary_exec_dispatch
            gen_unary_exec_dispatch_default F_exec o a.
Definition run_unary_recreate_table (o : unop) (i : instr) : option (outcome instr) :=
  dispatch1 _ _ (gen_unary_fold_of powf) unop_beq gen_unary_recreate_dispatch
            gen_unary_recreate_dispatch_default F_create o i.

Lemma exec_table_eq : forall o a b, pure_binop o = true ->
  run_exec_table o a b = Some (op_exec powf o a b).
Proof.
  unfold run_exec_table. intros o a b H.
  destruct o; try discriminate H; run_table; f_equal;
  first [ apply gen_add_exec_eq | apply gen_subtract_exec_eq | apply gen_multiply_exec_eq
        | apply gen_divide_exec_eq | apply gen_modulo_exec_eq | apply gen_pow_exec_eq
        | apply gen_equal_exec_eq | apply gen_not_equal_exec_eq | apply gen_greater_exec_eq
        | apply gen_greater_equal_exec_eq | apply gen_lower_exec_eq | apply gen_lower_equal_exec_eq
        | apply gen_bitwise_and_exec_eq | apply gen_bitwise_or_exec_eq | apply gen_xor_exec_eq
        | apply gen_lshift_exec_eq | apply gen_rshift_exec_eq ].
Qed.

Lemma recreate_table_eq : forall o l r, foldable_binop o = true ->
  run_recreate_table o l r = Some (fold_bin powf o l r).
Proof.
  unfold run_recreate_table. intros o l r H.
  destruct o; try discriminate H; run_table; f_equal;
  first [ apply gen_add_fold_eq | apply gen_subtract_fold_eq | apply gen_multiply_fold_eq
        | apply gen_divide_fold_eq | apply gen_modulo_fold_eq
        | apply gen_equal_fold_eq | apply gen_not_equal_fold_eq | apply gen_greater_fold_eq
        | apply gen_greater_equal_fold_eq | apply gen_lower_fold_eq | apply gen_lower_equal_fold_eq
        | apply gen_bitwise_and_fold_eq | apply gen_bitwise_or_fold_eq | apply gen_xor_fold_eq
        | apply gen_lshift_fold_eq | apply gen_rshift_fold_eq ].
Qed.

(* every other operator except And / Or (handled before the table) and At (its own folding,
   outside the scalar files) is rebuilt unchanged, in the code and in the model *)
Lemma recreate_table_keep : forall o,
  foldable_binop o = false -> o <> And -> o <> Or -> o <> At ->
  lookup_arm binop_beq o gen_recreate_dispatch gen_recreate_dispatch_default = Some GKeep
  /\ forall l r, fold_bin powf o l r = Ok (IBin o l r).
Proof.
  intros o H1 H2 H3 H4.
  destruct o; try discriminate H1; try congruence; split; reflexivity.
Qed.

Lemma assign_table_eq : forall o base cur rhs, assign_base o = Some base ->
  run_assign_table o cur rhs = Some (op_exec powf base cur rhs).
Proof.
  unfold run_assign_table. intros o base cur rhs H.
  destruct o; try discriminate H; injection H as <-; run_table; f_equal;
  first [ apply gen_add_exec_eq | apply gen_subtract_exec_eq | apply gen_multiply_exec_eq
        | apply gen_divide_exec_eq | apply gen_modulo_exec_eq | apply gen_pow_exec_eq
        | apply gen_bitwise_and_exec_eq | apply gen_bitwise_or_exec_eq | apply gen_xor_exec_eq
        | apply gen_lshift_exec_eq | apply gen_rshift_exec_eq ].
Qed.

Lemma assign_table_none : forall o cur rhs, assign_base o = None -> run_assign_table o cur rhs = None.
Proof.
  unfold run_assign_table. intros o cur rhs H. destruct o; try discriminate H; reflexivity.
Qed.

Lemma unary_exec_table_eq : forall o a, pure_unop o = true ->
  run_unary_exec_table o a = Some (unop_exec o a).
Proof.
  unfold run_unary_exec_table. intros o a H.
  destruct o; try discriminate H; run_table; f_equal;
  first [ apply gen_not_exec_eq | apply gen_unary_minus_exec_eq ].
Qed.

Lemma unary_recreate_table_eq : forall o i, pure_unop o = true ->
  run_unary_recreate_table o i = Some (fold_un o i).
Proof.
  unfold run_unary_recreate_table. intros o i H.
  destruct o; try discriminate H; run_table; f_equal;
  first [ apply gen_not_fold_eq | apply gen_unary_minus_fold_eq ].
Qed.

Lemma unary_recreate_table_keep : forall o, pure_unop o = false ->
  lookup_arm unop_beq o gen_unary_recreate_dispatch gen_unary_recreate_dispatch_default = Some GKeep
  /\ forall i, fold_un o i = Ok (IUn o i).
Proof.
  intros o H. destruct o; try discriminate H; split; try reflexivity; intros i; destruct i; reflexivity.
Qed.

End Tie.

(* ---- the tables as data ---- *)
Definition exec_arm (o : binop) : option gcall :=
  lookup_arm binop_beq o gen_exec_dispatch gen_exec_dispatch_default.
Definition recreate_arm (o : binop) : option gcall :=
  lookup_arm binop_beq o gen_recreate_dispatch gen_recreate_dispatch_default.

(* the operator whose exec a module implements, according to the exec table *)
Definition module_binop (m : gmod) : option binop :=
  option_map fst
    (find (fun row => match snd row with GCall m' F_exec _ => gmod_beq m m' | _ => false end)
          gen_exec_dispatch).

(* the base operator of a compound assignment, according to the exec table *)
Definition table_assign_base (o : binop) : option binop :=
  match exec_arm o with
  | Some (GAssign _ _ m F_exec) => module_binop m
  | _ => None
  end.

Lemma assign_base_is_table : forall o, assign_base o = table_assign_base o.
Proof. destruct o; reflexivity. Qed.

Lemma plain_assign_arm : exec_arm Assign = Some (GAssignSnd W_exec false).
Proof. reflexivity. Qed.

Lemma wrappers_fit :
  forallb (fun row => wrapper_fits gen_returns_result (snd row)) gen_exec_dispatch = true.
Proof. reflexivity. Qed.

(* every literal range tested by the shift operators is 0..=63 (or, written differently, 0..64) *)
Definition range_as_inclusive (r : Z * Z * bool) : Z * Z :=
  match r with (lo, hi, incl) => (lo, if incl then hi else Z.pred hi) end.
Definition is_shift_range (l : list (Z * Z * bool)) : bool :=
  match map range_as_inclusive l with
  | [(lo, hi)] => (lo =? 0) && (hi =? 63)
  | _ => false
  end.
Lemma shift_bounds : forallb is_shift_range gen_all_ranges = true.
Proof. reflexivity. Qed.

(* the expected tables, written out *)
Definition expected_exec_dispatch : list (binop * gcall) :=
  [ (Add, GCall M_add F_exec false); (Subtract, GCall M_subtract F_exec false);
    (Multiply, GCall M_multiply F_exec false); (Divide, GCall M_divide F_exec true);
    (Modulo, GCall M_modulo F_exec true); (Pow, GCall M_pow F_exec true);
    (Equal, GCall M_equal F_exec false); (NotEqual, GCall M_not_equal F_exec false);
    (Greater, GCall M_greater F_exec false); (GreaterOrEqual, GCall M_greater_equal F_exec false);
    (Lower, GCall M_lower F_exec false); (LowerOrEqual, GCall M_lower_equal F_exec false);
    (BitwiseAnd, GCall M_bitwise_and F_exec false); (BitwiseOr, GCall M_bitwise_or F_exec false);
    (Xor, GCall M_xor F_exec false); (LShift, GCall M_lshift F_exec true);
    (RShift, GCall M_rshift F_exec true); (Filter, GCall M_filter F_exec true);
    (Map, GCall M_map F_exec true); (At, GCall M_at F_exec true);
    (FunctionCall, GCall M_call F_exec true); (Assign, GAssignSnd W_exec false);
    (AssignAdd, GAssign W_exec false M_add F_exec);
    (AssignSubtract, GAssign W_exec false M_subtract F_exec);
    (AssignMultiply, GAssign W_exec false M_multiply F_exec);
    (AssignDivide, GAssign W_try_exec true M_divide F_exec);
    (AssignModulo, GAssign W_try_exec true M_modulo F_exec);
    (AssignLShift, GAssign W_try_exec true M_lshift F_exec);
    (AssignRShift, GAssign W_try_exec true M_rshift F_exec);
    (AssignBitwiseAnd, GAssign W_exec false M_bitwise_and F_exec);
    (AssignBitwiseOr, GAssign W_exec false M_bitwise_or F_exec);
    (AssignXor, GAssign W_exec false M_xor F_exec);
    (AssignPow, GAssign W_try_exec true M_pow F_exec);
    (Partition, GCall M_partition F_exec true) ].

Definition expected_recreate_dispatch : list (binop * gcall) :=
  [ (Add, GOkCall M_add F_create); (Subtract, GOkCall M_subtract F_create);
    (Multiply, GOkCall M_multiply F_create); (Divide, GCall M_divide F_create false);
    (Modulo, GCall M_modulo F_create false); (Equal, GOkCall M_equal F_create);
    (NotEqual, GOkCall M_not_equal F_create); (Greater, GOkCall M_greater F_create);
    (GreaterOrEqual, GOkCall M_greater_equal F_create); (Lower, GOkCall M_lower F_create);
    (LowerOrEqual, GOkCall M_lower_equal F_create); (And, GOkCall M_and F_create);
    (Or, GOkCall M_or F_create); (BitwiseAnd, GOkCall M_bitwise_and F_create);
    (BitwiseOr, GOkCall M_bitwise_or F_create); (Xor, GOkCall M_xor F_create);
    (LShift, GCall M_lshift F_create false); (RShift, GCall M_rshift F_create false);
    (At, GCall M_at F_create false) ].

(* same association, whatever the order of the arms *)
Definition same_arms (t1 t2 : list (binop * gcall)) (d1 d2 : option gcall) : Prop :=
  forall o, lookup_arm binop_beq o t1 d1 = lookup_arm binop_beq o t2 d2.

Lemma exec_dispatch_expected :
  same_arms gen_exec_dispatch expected_exec_dispatch gen_exec_dispatch_default (Some GUnreachable).
Proof. intros o; destruct o; reflexivity. Qed.

Lemma recreate_dispatch_expected :
  same_arms gen_recreate_dispatch expected_recreate_dispatch gen_recreate_dispatch_default (Some GKeep).
Proof. intros o; destruct o; reflexivity. Qed.

Lemma unary_dispatch_expected :
  (forall o, lookup_arm unop_beq o gen_unary_exec_dispatch gen_unary_exec_dispatch_default =
     match o with
     | UNot => Some (GCall M_not F_exec false)
     | UUnaryMinus => Some (GCall M_unary_minus F_exec false)
     | UReturn => Some GReturn
     | UIndirection => Some (GCall M_indirection F_exec false)
     | UFunctionCall => Some GCallFunction
     | UCollect => Some (GCall M_collect F_exec true)
     | UIter => Some (GCall M_iter F_exec false)
     | USum | UProduct | UAll | UAny | UBitAnd | UBitOr => Some GUnreachable
     end)
  /\ (forall o, lookup_arm unop_beq o gen_unary_recreate_dispatch gen_unary_recreate_dispatch_default =
     match o with
     | UNot => Some (GCall M_not F_create false)
     | UUnaryMinus => Some (GCall M_unary_minus F_create false)
     | _ => Some GKeep
     end).
Proof. split; intros o; destruct o; reflexivity. Qed.

(* ---- the interpreter's compound-assignment arm runs the regenerated function ---- *)
(* (imported here, not at the top: ExecLemmas sets `Arguments op_exec : simpl never`) *)
From SSL.Model Require Import Exec.
From SSL.Lemmas Require Import ExecLemmas.

Section TieExec.
Variable powf : fbits -> fbits -> fbits.
Variable pre : prelude.

(* `a op= b` in Model/Exec.v: the cell is read after b ran, the function that the regenerated
   dispatch table names for `op=` is applied to (content, value of b), the result is stored and
   is the value of the expression; an error or a panic of the function leaves the cell alone *)
Lemma compound_assign_runs_table : forall n st sc op l r st1 sc1 loc t st2 sc2 rv cur w q m f,
  exec_arm op = Some (GAssign w q m F_exec) ->
  gen_exec_of powf m = Some f ->
  exec powf pre n st sc l = (st1, sc1, SVal (VMut loc t)) ->
  exec powf pre n st1 sc1 r = (st2, sc2, SVal rv) ->
  nth_error (s_cells st2) loc = Some cur ->
  exec powf pre (S n) st sc (IBin op l r) =
  sig_of_outcome (f cur rv) (fun v => (write_cell st2 loc v, sc2, SVal v)) st2 sc2.
Proof.
  intros n st sc op l r st1 sc1 loc t st2 sc2 rv cur w q m f Harm Hf Hl Hr Hcell.
  assert (Hb : exists bop, assign_base op = Some bop).
  { rewrite assign_base_is_table. unfold table_assign_base. rewrite Harm.
    revert Harm Hf. unfold exec_arm.
    destruct op; cbv [lookup_arm gen_exec_dispatch gen_exec_dispatch_default binop_beq];
      try discriminate; intros Harm; injection Harm as <- <- <-; intros _; eexists; reflexivity. }
  destruct Hb as [bop Hb].
  rewrite (opassign_reads_after_rhs powf pre _ _ _ _ _ _ _ _ _ _ _ _ _ _ _ Hb Hl Hr Hcell).
  pose proof (assign_table_eq powf op bop cur rv Hb) as Ht.
  unfold run_assign_table, dispatch_assign in Ht. fold (exec_arm op) in Ht.
  rewrite Harm, Hf in Ht. cbn [option_map] in Ht. injection Ht as Ht. rewrite Ht. reflexivity.
Qed.

End TieExec.

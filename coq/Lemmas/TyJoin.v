(* TyJoin.v — Type::concat is the join and Type::conjoin a lower bound,
   on well-formed types; both preserve well-formedness. *)
From SSL.Model Require Import Base Ty.
From SSL.Lemmas Require Import TyFuel TyEq TyMatches.

(* ---------- a case view of concat ---------- *)
Definition na (a : ty) : bool :=        (* neither `!` nor `any` *)
  match a with TNever | TAny => false | _ => true end.

Inductive concat_spec (a b : ty) : ty -> Prop :=
| CS_never_l : a = TNever -> concat_spec a b b
| CS_never_r : b = TNever -> concat_spec a b a
| CS_any : a = TAny \/ b = TAny -> concat_spec a b TAny
| CS_eq : ty_eqb a b = true -> concat_spec a b a
| CS_mm m1 m2 : a = TMulti m1 -> b = TMulti m2 ->
    concat_spec a b (TMulti (m1 ++ filter (fun x => negb (mem_ty x m1)) m2))
| CS_ms m1 : a = TMulti m1 -> simple b = true ->
    concat_spec a b (if mem_ty b m1 then TMulti m1 else TMulti (m1 ++ [b]))
| CS_sm m2 : simple a = true -> b = TMulti m2 ->
    concat_spec a b (if mem_ty a m2 then TMulti m2 else TMulti (m2 ++ [a]))
| CS_ss : simple a = true -> simple b = true -> ty_eqb a b = false ->
    concat_spec a b (TMulti [a; b]).

Lemma concat_view a b : concat_spec a b (concat a b).
Proof.
  destruct a as [| | | | | | |p1 r1|e1|t1|m1|e1|f1], b as [| | | | | | |p2 r2|e2|t2|m2|e2|f2];
    unfold concat;
    try (apply CS_never_l; reflexivity);
    try (apply CS_never_r; reflexivity);
    try (apply CS_any; left; reflexivity);
    try (apply CS_any; right; reflexivity);
    match goal with |- context [if ty_eqb ?x ?y then _ else _] =>
      destruct (ty_eqb x y) eqn:E; [apply CS_eq; exact E|] end;
    try (apply CS_ss; [reflexivity|reflexivity|exact E]);
    try (apply CS_ms; reflexivity);
    try (apply CS_sm; reflexivity).
  apply CS_mm; reflexivity.
Qed.

(* ---------- list helpers ---------- *)
Lemma mem_ty_true x l : mem_ty x l = true -> exists y, In y l /\ ty_eqb x y = true.
Proof. unfold mem_ty. intros H. apply existsb_exists in H. exact H. Qed.

Lemma mem_ty_false x l : mem_ty x l = false -> forall y, In y l -> ty_eqb x y = false.
Proof.
  unfold mem_ty. intros H y Hy. destruct (ty_eqb x y) eqn:E; [|reflexivity].
  assert (Hex : existsb (ty_eqb x) l = true) by (apply existsb_exists; exists y; split; assumption).
  rewrite Hex in H. discriminate H.
Qed.

Lemma pairwise_neq_filter (Q : ty -> bool) l :
  pairwise_neq l = true -> pairwise_neq (filter Q l) = true.
Proof.
  induction l as [|x l IH]; cbn [pairwise_neq filter]; [reflexivity|]. intros H.
  apply andb_true_iff in H. destruct H as [H1 H2].
  destruct (Q x); [|apply IH; exact H2].
  cbn [pairwise_neq]. apply andb_true_iff. split; [|apply IH; exact H2].
  apply negb_true_iff in H1. apply negb_true_iff.
  destruct (mem_ty x (filter Q l)) eqn:E; [|reflexivity].
  apply mem_ty_true in E. destruct E as [y [Hy Hxy]]. apply filter_In in Hy. destruct Hy as [Hy _].
  rewrite (mem_ty_false x l H1 y Hy) in Hxy. discriminate Hxy.
Qed.

Lemma pairwise_neq_app l1 l2 :
  pairwise_neq l1 = true -> pairwise_neq l2 = true ->
  (forall x y, In x l1 -> In y l2 -> ty_eqb x y = false) ->
  pairwise_neq (l1 ++ l2) = true.
Proof.
  induction l1 as [|x l1 IH]; cbn [pairwise_neq app]; intros H1 H2 Hc; [exact H2|].
  apply andb_true_iff in H1. destruct H1 as [H1a H1b].
  apply andb_true_iff. split.
  - apply negb_true_iff in H1a. apply negb_true_iff.
    destruct (mem_ty x (l1 ++ l2)) eqn:E; [|reflexivity].
    apply mem_ty_true in E. destruct E as [y [Hy Hxy]]. apply in_app_or in Hy.
    destruct Hy as [Hy|Hy].
    + rewrite (mem_ty_false x l1 H1a y Hy) in Hxy. discriminate Hxy.
    + rewrite (Hc x y (or_introl eq_refl) Hy) in Hxy. discriminate Hxy.
  - apply IH; [exact H1b|exact H2|]. intros x' y Hx' Hy. apply Hc; [right; exact Hx'|exact Hy].
Qed.

Lemma forallb_filter_in {A} (P Q : A -> bool) l :
  forallb P l = true -> forallb P (filter Q l) = true.
Proof.
  intros H. rewrite forallb_forall in *. intros x Hx. apply filter_In in Hx. apply H. apply Hx.
Qed.

(* ---------- concat preserves well-formedness ---------- *)
Lemma wf_multi_intro ms :
  2 <= length ms -> (forall m, In m ms -> simple m = true) ->
  (forall m, In m ms -> wf_ty m = true) -> pairwise_neq ms = true ->
  wf_ty (TMulti ms) = true.
Proof.
  intros H1 H2 H3 H4. cbn [wf_ty]. rewrite H4.
  assert (E1 : Nat.leb 2 (length ms) = true) by (apply Nat.leb_le; exact H1).
  assert (E2 : forallb simple ms = true) by (apply forallb_forall; exact H2).
  assert (E3 : forallb wf_ty ms = true) by (apply forallb_forall; exact H3).
  rewrite E1, E2, E3. reflexivity.
Qed.

Lemma wf_multi_snoc ms t :
  wf_ty (TMulti ms) = true -> simple t = true -> wf_ty t = true -> mem_ty t ms = false ->
  wf_ty (TMulti (ms ++ [t])) = true.
Proof.
  intros W St Wt Hm. apply wf_multi_inv in W. destruct W as [W1 [W2 [W3 W4]]].
  apply wf_multi_intro.
  - rewrite app_length. lia.
  - intros m Hin. apply in_app_or in Hin. destruct Hin as [Hin|[<-|[]]]; [apply W2; exact Hin|exact St].
  - intros m Hin. apply in_app_or in Hin. destruct Hin as [Hin|[<-|[]]]; [apply W3; exact Hin|exact Wt].
  - apply pairwise_neq_app; [exact W4|reflexivity|].
    intros x y Hx [<-|[]]. rewrite ty_eqb_sym. apply (mem_ty_false t ms Hm x Hx).
Qed.

Lemma concat_wf a b : wf_ty a = true -> wf_ty b = true -> wf_ty (concat a b) = true.
Proof.
  intros Wa Wb.
  destruct (concat_view a b) as [Ha|Hb|Hab|He|m1 m2 Ha Hb|m1 Ha Sb|m2 Sa Hb|Sa Sb He];
    try assumption; try reflexivity.
  - subst a b.
    pose proof (wf_multi_inv _ Wa) as [A1 [A2 [A3 A4]]].
    pose proof (wf_multi_inv _ Wb) as [B1 [B2 [B3 B4]]].
    apply wf_multi_intro.
    + rewrite app_length. lia.
    + intros m Hin. apply in_app_or in Hin. destruct Hin as [Hin|Hin]; [apply A2; exact Hin|].
      apply filter_In in Hin. apply B2. apply Hin.
    + intros m Hin. apply in_app_or in Hin. destruct Hin as [Hin|Hin]; [apply A3; exact Hin|].
      apply filter_In in Hin. apply B3. apply Hin.
    + apply pairwise_neq_app; [exact A4|apply pairwise_neq_filter; exact B4|].
      intros x y Hx Hy. apply filter_In in Hy. destruct Hy as [Hy Hq].
      apply negb_true_iff in Hq. rewrite ty_eqb_sym. apply (mem_ty_false y m1 Hq x Hx).
  - subst a. destruct (mem_ty b m1) eqn:Em; [exact Wa|].
    apply wf_multi_snoc; assumption.
  - subst b. destruct (mem_ty a m2) eqn:Em; [exact Wb|].
    apply wf_multi_snoc; assumption.
  - apply wf_multi_intro.
    + cbn [length]. lia.
    + intros m [<-|[<-|[]]]; assumption.
    + intros m [<-|[<-|[]]]; assumption.
    + cbn [pairwise_neq mem_ty existsb]. rewrite He. reflexivity.
Qed.

(* ---------- concat is an upper bound ---------- *)
Lemma mem_ty_matches x ms : mem_ty x ms = true -> matches x (TMulti ms) = true.
Proof.
  intros H. apply mem_ty_true in H. destruct H as [y [Hy Hxy]].
  apply (matches_in_multi x y ms Hy). apply ty_eqb_matches. exact Hxy.
Qed.

Lemma keys_multi_inv ms : keys_ok (TMulti ms) = true -> forall m, In m ms -> keys_ok m = true.
Proof. cbn [keys_ok]. intros H. rewrite forallb_forall in H. exact H. Qed.

Lemma matches_multi_sub m1 l :
  (forall m, In m m1 -> keys_ok m = true) -> (forall m, In m m1 -> In m l) ->
  matches (TMulti m1) (TMulti l) = true.
Proof.
  intros W H. rewrite matches_multi_l. apply forallb_forall. intros m Hm.
  apply (matches_in_multi m m l (H m Hm)). apply matches_refl_keys. apply W. exact Hm.
Qed.

Lemma concat_upper_l_keys a b : keys_ok a = true -> matches a (concat a b) = true.
Proof.
  intros Ka.
  destruct (concat_view a b) as [Ha|Hb|Hab|He|m1 m2 Ha Hb|m1 Ha Sb|m2 Sa Hb|Sa Sb He].
  - subst a. apply matches_never_l.
  - apply matches_refl_keys. exact Ka.
  - apply matches_any_r.
  - apply matches_refl_keys. exact Ka.
  - subst a b. pose proof (keys_multi_inv _ Ka) as A3.
    apply matches_multi_sub; [exact A3|]. intros m Hm. apply in_or_app. left. exact Hm.
  - subst a. pose proof (keys_multi_inv _ Ka) as A3.
    destruct (mem_ty b m1); [apply matches_refl_keys; exact Ka|].
    apply matches_multi_sub; [exact A3|]. intros m Hm. apply in_or_app. left. exact Hm.
  - subst b. destruct (mem_ty a m2) eqn:Em.
    + apply mem_ty_matches. exact Em.
    + apply (matches_in_multi a a); [apply in_or_app; right; left; reflexivity|].
      apply matches_refl_keys. exact Ka.
  - apply (matches_in_multi a a); [left; reflexivity|]. apply matches_refl_keys. exact Ka.
Qed.

Lemma concat_upper_r_keys a b : keys_ok b = true -> matches b (concat a b) = true.
Proof.
  intros Kb.
  destruct (concat_view a b) as [Ha|Hb|Hab|He|m1 m2 Ha Hb|m1 Ha Sb|m2 Sa Hb|Sa Sb He].
  - apply matches_refl_keys. exact Kb.
  - subst b. apply matches_never_l.
  - apply matches_any_r.
  - apply ty_eqb_matches. rewrite ty_eqb_sym. exact He.
  - subst a b. pose proof (keys_multi_inv _ Kb) as B3.
    rewrite matches_multi_l. apply forallb_forall. intros m Hm.
    destruct (mem_ty m m1) eqn:Em.
    + apply mem_ty_true in Em. destruct Em as [y [Hy Hmy]].
      apply (matches_in_multi m y); [apply in_or_app; left; exact Hy|].
      apply ty_eqb_matches. exact Hmy.
    + apply (matches_in_multi m m); [|apply matches_refl_keys; apply B3; exact Hm].
      apply in_or_app. right. apply filter_In. split; [exact Hm|]. rewrite Em. reflexivity.
  - subst a. destruct (mem_ty b m1) eqn:Em.
    + apply mem_ty_matches. exact Em.
    + apply (matches_in_multi b b); [apply in_or_app; right; left; reflexivity|].
      apply matches_refl_keys. exact Kb.
  - subst b. pose proof (keys_multi_inv _ Kb) as B3.
    destruct (mem_ty a m2); [apply matches_refl_keys; exact Kb|].
    apply matches_multi_sub; [exact B3|]. intros m Hm. apply in_or_app. left. exact Hm.
  - apply (matches_in_multi b b); [right; left; reflexivity|]. apply matches_refl_keys. exact Kb.
Qed.

(* the union of two types is above each of them: only the type itself has to
   be well formed (in fact: have distinct struct keys), the other is arbitrary *)
Lemma concat_upper_l a b : wf_ty a = true -> matches a (concat a b) = true.
Proof. intros W. apply concat_upper_l_keys. apply wf_keys_ok. exact W. Qed.

Lemma concat_upper_r a b : wf_ty b = true -> matches b (concat a b) = true.
Proof. intros W. apply concat_upper_r_keys. apply wf_keys_ok. exact W. Qed.

(* ---------- concat is the least upper bound (no hypothesis) ---------- *)
Lemma mem_ty_forall_matches x ms c :
  mem_ty x ms = true -> forallb (fun m => matches m c) ms = true -> matches x c = true.
Proof.
  intros Hmem Hall. apply mem_ty_true in Hmem. destruct Hmem as [y [Hy Hxy]].
  rewrite forallb_forall in Hall.
  rewrite (matches_eqb_l x y c Hxy). apply Hall. exact Hy.
Qed.

Lemma concat_least a b c : matches (concat a b) c = matches a c && matches b c.
Proof.
  destruct (concat_view a b) as [Ha|Hb|Hab|He|m1 m2 Ha Hb|m1 Ha Sb|m2 Sa Hb|Sa Sb He].
  - subst a. rewrite matches_never_l. reflexivity.
  - subst b. rewrite matches_never_l. rewrite andb_true_r. reflexivity.
  - destruct (matches TAny c) eqn:E.
    + rewrite !(matches_any_l_all c E). reflexivity.
    + destruct Hab as [-> | ->]; rewrite E; [reflexivity|]. rewrite andb_false_r. reflexivity.
  - rewrite <- (matches_eqb_l a b c He). destruct (matches a c); reflexivity.
  - subst a b.
    rewrite !matches_multi_l. rewrite forallb_app.
    destruct (forallb (fun m => matches m c) m1) eqn:E1; [|reflexivity]. cbn [andb].
    destruct (forallb (fun m => matches m c) m2) eqn:E2.
    + apply forallb_filter_in. exact E2.
    + destruct (forallb (fun m => matches m c) (filter (fun x => negb (mem_ty x m1)) m2)) eqn:E3;
        [|reflexivity].
      rewrite <- E2. symmetry. apply forallb_forall. intros m Hm.
      destruct (mem_ty m m1) eqn:Em.
      * apply (mem_ty_forall_matches m m1 c); assumption.
      * rewrite forallb_forall in E3. apply E3. apply filter_In. split; [exact Hm|].
        rewrite Em. reflexivity.
  - subst a.
    destruct (mem_ty b m1) eqn:Em.
    + rewrite matches_multi_l.
      destruct (forallb (fun m => matches m c) m1) eqn:E1; [|reflexivity].
      rewrite (mem_ty_forall_matches b m1 c Em E1). reflexivity.
    + rewrite !matches_multi_l. rewrite forallb_app. cbn [forallb].
      rewrite andb_true_r. reflexivity.
  - subst b.
    destruct (mem_ty a m2) eqn:Em.
    + rewrite matches_multi_l.
      destruct (forallb (fun m => matches m c) m2) eqn:E1; [|rewrite andb_false_r; reflexivity].
      rewrite (mem_ty_forall_matches a m2 c Em E1). reflexivity.
    + rewrite !matches_multi_l. rewrite forallb_app. cbn [forallb].
      rewrite andb_true_r. apply andb_comm.
  - rewrite matches_multi_l. cbn [forallb]. rewrite andb_true_r. reflexivity.
Qed.

Lemma concat_least_wf a b c :
  wf_ty a = true -> wf_ty b = true -> wf_ty c = true ->
  matches (concat a b) c = matches a c && matches b c.
Proof. intros _ _ _. apply concat_least. Qed.

(* ---------- folds of concat ---------- *)
Lemma fold_concat_wf xs acc :
  wf_ty acc = true -> (forall x, In x xs -> wf_ty x = true) ->
  wf_ty (fold_left concat xs acc) = true.
Proof.
  revert acc. induction xs as [|x xs IH]; intros acc Wacc Wxs; cbn [fold_left]; [exact Wacc|].
  apply IH.
  - apply concat_wf; [exact Wacc|]. apply Wxs. left. reflexivity.
  - intros y Hy. apply Wxs. right. exact Hy.
Qed.

Lemma fold_concat_least xs acc c :
  matches (fold_left concat xs acc) c = matches acc c && forallb (fun x => matches x c) xs.
Proof.
  revert acc. induction xs as [|x xs IH]; intros acc; cbn [fold_left forallb].
  - rewrite andb_true_r. reflexivity.
  - rewrite IH. rewrite concat_least. rewrite andb_assoc. reflexivity.
Qed.

Lemma concat_all_wf l :
  (forall x, In x l -> wf_ty x = true) ->
  wf_ty (match concat_all l with Some t => t | None => TNever end) = true.
Proof.
  intros W. destruct l as [|x l]; cbn [concat_all]; [reflexivity|].
  apply fold_concat_wf.
  - apply W. left. reflexivity.
  - intros y Hy. apply W. right. exact Hy.
Qed.

Lemma concat_all_below l c :
  (forall x, In x l -> matches x c = true) ->
  matches (match concat_all l with Some t => t | None => TNever end) c = true.
Proof.
  intros H. destruct l as [|x l]; cbn [concat_all]; [apply matches_never_l|].
  rewrite fold_concat_least.
  rewrite (H x) by (left; reflexivity). cbn [andb]. apply forallb_forall.
  intros y Hy. apply H. right. exact Hy.
Qed.

Lemma forallb_zip_with {A B C} (P : C -> bool) (f : A -> B -> C) l1 l2 :
  (forall x y, In x l1 -> In y l2 -> P (f x y) = true) ->
  forallb P (zip_with f l1 l2) = true.
Proof.
  revert l2. induction l1 as [|x l1 IH]; intros [|y l2] H; cbn [zip_with forallb]; try reflexivity.
  rewrite (H x y) by (left; reflexivity). cbn [andb]. apply IH.
  intros x' y' Hx Hy. apply H; right; assumption.
Qed.

Lemma all2_zip_with_l {A B C} (g : C -> A -> bool) (f : A -> B -> C) l1 l2 :
  length l1 = length l2 ->
  (forall x y, In x l1 -> In y l2 -> g (f x y) x = true) ->
  all2 g (zip_with f l1 l2) l1 = true.
Proof.
  revert l2. induction l1 as [|x l1 IH]; intros [|y l2] Hl H; cbn [zip_with all2 length] in *;
    try reflexivity; try discriminate.
  rewrite (H x y) by (left; reflexivity). cbn [andb]. apply IH; [lia|].
  intros x' y' Hx Hy. apply H; right; assumption.
Qed.

Lemma all2_zip_with_r {A B C} (g : C -> B -> bool) (f : A -> B -> C) l1 l2 :
  length l1 = length l2 ->
  (forall x y, In x l1 -> In y l2 -> g (f x y) y = true) ->
  all2 g (zip_with f l1 l2) l2 = true.
Proof.
  revert l2. induction l1 as [|x l1 IH]; intros [|y l2] Hl H; cbn [zip_with all2 length] in *;
    try reflexivity; try discriminate.
  rewrite (H x y) by (left; reflexivity). cbn [andb]. apply IH; [lia|].
  intros x' y' Hx Hy. apply H; right; assumption.
Qed.

(* ---------- conjoin preserves well-formedness ---------- *)
Lemma wf_fun_inv ps r : wf_ty (TFun ps r) = true ->
  (forall p, In p ps -> wf_ty p = true) /\ wf_ty r = true.
Proof.
  cbn [wf_ty]. intros H. apply andb_true_iff in H. destruct H as [H1 H2].
  rewrite forallb_forall in H1. auto.
Qed.

Lemma wf_tup_inv ts : wf_ty (TTup ts) = true -> forall t, In t ts -> wf_ty t = true.
Proof. cbn [wf_ty]. intros H. rewrite forallb_forall in H. exact H. Qed.

Lemma conjoin_wf a b : wf_ty a = true -> wf_ty b = true -> wf_ty (conjoin a b) = true.
Proof.
  revert a b.
  apply (ty_size_ind2 (fun a b => wf_ty a = true -> wf_ty b = true -> wf_ty (conjoin a b) = true)).
  intros a b IH Wa Wb. rewrite conjoin_unfold.
  destruct (ty_eqb a b) eqn:E; [exact Wa|].
  assert (Hmulti : forall ms o, (forall m, In m ms -> size m + size o < size a + size b) ->
            (forall m, In m ms -> wf_ty m = true) -> wf_ty o = true ->
            wf_ty (match concat_all (map (fun m => conjoin m o) ms) with
                   | Some t => t | None => TNever end) = true).
  { intros ms o Hsz Wms Wo. apply concat_all_wf. intros x Hx. apply in_map_iff in Hx.
    destruct Hx as [m [<- Hm]]. apply IH; [apply Hsz; exact Hm|apply Wms; exact Hm|exact Wo]. }
  destruct a as [| | | | | | |p1 r1|e1|t1|m1|e1|f1], b as [| | | | | | |p2 r2|e2|t2|m2|e2|f2];
    try reflexivity; try exact Wa; try exact Wb;
    try (apply Hmulti;
         [intros m Hm; szs
         |match goal with W : wf_ty (TMulti _) = true |- _ =>
            apply wf_multi_inv in W; destruct W as [_ [_ [W _]]]; exact W end
         |assumption]).
  - (* TFun / TFun *)
    destruct (Nat.eqb (length p1) (length p2)); [|reflexivity]. cbv zeta.
    destruct (ty_eqb (conjoin r1 r2) TNever); [reflexivity|].
    apply wf_fun_inv in Wa. destruct Wa as [Wa1 Wa2].
    apply wf_fun_inv in Wb. destruct Wb as [Wb1 Wb2].
    cbn [wf_ty]. apply andb_true_iff. split.
    + apply forallb_zip_with. intros x y Hx Hy. apply concat_wf; [apply Wa1; exact Hx|apply Wb1; exact Hy].
    + apply IH; [szs|exact Wa2|exact Wb2].
  - (* TArr / TArr *)
    cbn [wf_ty] in *. apply IH; [szs|exact Wa|exact Wb].
  - (* TTup / TTup *)
    destruct (Nat.eqb (length t1) (length t2)); [|reflexivity].
    pose proof (wf_tup_inv _ Wa) as Wa'. pose proof (wf_tup_inv _ Wb) as Wb'.
    cbn [wf_ty]. apply forallb_zip_with. intros x y Hx Hy.
    apply IH; [szs|apply Wa'; exact Hx|apply Wb'; exact Hy].
Qed.

(* ---------- conjoin is a lower bound ---------- *)
Lemma keys_fun_inv ps r : keys_ok (TFun ps r) = true ->
  (forall p, In p ps -> keys_ok p = true) /\ keys_ok r = true.
Proof.
  cbn [keys_ok]. intros H. apply andb_true_iff in H. destruct H as [H1 H2].
  rewrite forallb_forall in H1. auto.
Qed.

Lemma keys_tup_inv ts : keys_ok (TTup ts) = true -> forall t, In t ts -> keys_ok t = true.
Proof. cbn [keys_ok]. intros H. rewrite forallb_forall in H. exact H. Qed.

(* each bound needs only the distinct-keys condition on the side it is about *)
Lemma conjoin_lower_keys a b :
  (keys_ok a = true -> matches (conjoin a b) a = true) /\
  (keys_ok b = true -> matches (conjoin a b) b = true).
Proof.
  revert a b.
  apply (ty_size_ind2 (fun a b =>
           (keys_ok a = true -> matches (conjoin a b) a = true) /\
           (keys_ok b = true -> matches (conjoin a b) b = true))).
  intros a b IH. rewrite conjoin_unfold.
  destruct (ty_eqb a b) eqn:E.
  { split; intros K; [apply matches_refl_keys; exact K|apply ty_eqb_matches; exact E]. }
  assert (HmultiL : forall ms o,
            a = TMulti ms -> b = o ->
            (keys_ok a = true ->
             matches (match concat_all (map (fun m => conjoin m o) ms) with
                      | Some t => t | None => TNever end) a = true) /\
            (keys_ok b = true ->
             matches (match concat_all (map (fun m => conjoin m o) ms) with
                      | Some t => t | None => TNever end) b = true)).
  { intros ms o -> ->.
    assert (Hsz : forall m, In m ms -> size m + size o < size (TMulti ms) + size o)
      by (intros m Hm; szs).
    split; intros K; apply concat_all_below.
    - pose proof (keys_multi_inv _ K) as Kms.
      intros x Hx. apply in_map_iff in Hx. destruct Hx as [m [<- Hm]].
      apply (matches_in_multi _ m ms Hm).
      apply (IH m o (Hsz m Hm)). apply Kms. exact Hm.
    - intros x Hx. apply in_map_iff in Hx. destruct Hx as [m [<- Hm]].
      apply (IH m o (Hsz m Hm)). exact K. }
  assert (HmultiR : forall ms o,
            a = o -> b = TMulti ms ->
            (keys_ok a = true ->
             matches (match concat_all (map (fun m => conjoin m o) ms) with
                      | Some t => t | None => TNever end) a = true) /\
            (keys_ok b = true ->
             matches (match concat_all (map (fun m => conjoin m o) ms) with
                      | Some t => t | None => TNever end) b = true)).
  { intros ms o -> ->.
    assert (Hsz : forall m, In m ms -> size m + size o < size o + size (TMulti ms))
      by (intros m Hm; szs).
    split; intros K; apply concat_all_below.
    - intros x Hx. apply in_map_iff in Hx. destruct Hx as [m [<- Hm]].
      apply (IH m o (Hsz m Hm)). exact K.
    - pose proof (keys_multi_inv _ K) as Kms.
      intros x Hx. apply in_map_iff in Hx. destruct Hx as [m [<- Hm]].
      apply (matches_in_multi _ m ms Hm).
      apply (IH m o (Hsz m Hm)). apply Kms. exact Hm. }
  destruct a as [| | | | | | |p1 r1|e1|t1|m1|e1|f1], b as [| | | | | | |p2 r2|e2|t2|m2|e2|f2];
    try (split; intros _; apply matches_never_l);
    try (split; intros K; [apply matches_refl_keys; exact K|apply matches_any_r]);
    try (split; intros K; [apply matches_any_r|apply matches_refl_keys; exact K]);
    try (apply HmultiL; reflexivity);
    try (apply HmultiR; reflexivity).
  - (* TFun / TFun *)
    destruct (Nat.eqb (length p1) (length p2)) eqn:El; [|split; intros _; apply matches_never_l].
    apply Nat.eqb_eq in El. cbv zeta.
    destruct (ty_eqb (conjoin r1 r2) TNever); [split; intros _; apply matches_never_l|].
    assert (Hr : (keys_ok r1 = true -> matches (conjoin r1 r2) r1 = true) /\
                 (keys_ok r2 = true -> matches (conjoin r1 r2) r2 = true))
      by (apply IH; szs).
    destruct Hr as [Hr1 Hr2].
    rewrite !matches_fun. split; intros K; apply keys_fun_inv in K; destruct K as [K1 K2].
    + rewrite (Hr1 K2). rewrite andb_true_r.
      apply (all2_zip_with_l (fun x y => matches y x) concat p1 p2 El).
      intros x y Hx Hy. apply concat_upper_l_keys. apply K1. exact Hx.
    + rewrite (Hr2 K2). rewrite andb_true_r.
      apply (all2_zip_with_r (fun x y => matches y x) concat p1 p2 El).
      intros x y Hx Hy. apply concat_upper_r_keys. apply K1. exact Hy.
  - (* TArr / TArr *)
    rewrite !matches_arr. cbn [keys_ok]. apply IH. szs.
  - (* TTup / TTup *)
    destruct (Nat.eqb (length t1) (length t2)) eqn:El; [|split; intros _; apply matches_never_l].
    apply Nat.eqb_eq in El.
    rewrite !matches_tup. split; intros K; pose proof (keys_tup_inv _ K) as K'.
    + apply (all2_zip_with_l matches conjoin t1 t2 El).
      intros x y Hx Hy. apply IH; [szs|apply K'; exact Hx].
    + apply (all2_zip_with_r matches conjoin t1 t2 El).
      intros x y Hx Hy. apply IH; [szs|apply K'; exact Hy].
Qed.

Lemma conjoin_lower_l_keys a b : keys_ok a = true -> matches (conjoin a b) a = true.
Proof. apply (conjoin_lower_keys a b). Qed.

Lemma conjoin_lower_r_keys a b : keys_ok b = true -> matches (conjoin a b) b = true.
Proof. apply (conjoin_lower_keys a b). Qed.

Lemma conjoin_lower_l a b : wf_ty a = true -> matches (conjoin a b) a = true.
Proof. intros W. apply conjoin_lower_l_keys. apply wf_keys_ok. exact W. Qed.

Lemma conjoin_lower_r a b : wf_ty b = true -> matches (conjoin a b) b = true.
Proof. intros W. apply conjoin_lower_r_keys. apply wf_keys_ok. exact W. Qed.

(* ---------- semilattice laws of concat, up to mutual matching ---------- *)
Lemma concat_keys_ok a b : keys_ok a = true -> keys_ok b = true -> keys_ok (concat a b) = true.
Proof.
  intros Ka Kb.
  destruct (concat_view a b) as [Ha|Hb|Hab|He|m1 m2 Ha Hb|m1 Ha Sb|m2 Sa Hb|Sa Sb He];
    try assumption; try reflexivity.
  - subst a b. cbn [keys_ok] in *. rewrite forallb_app, Ka. cbn [andb].
    apply forallb_filter_in. exact Kb.
  - subst a. destruct (mem_ty b m1); [exact Ka|]. cbn [keys_ok] in *.
    rewrite forallb_app, Ka. cbn [forallb andb]. rewrite Kb. reflexivity.
  - subst b. destruct (mem_ty a m2); [exact Kb|]. cbn [keys_ok] in *.
    rewrite forallb_app, Kb. cbn [forallb andb]. rewrite Ka. reflexivity.
  - cbn [keys_ok forallb]. rewrite Ka, Kb. reflexivity.
Qed.

Lemma concat_idem a : keys_ok a = true -> concat a a = a.
Proof.
  intros Ka. pose proof (ty_eqb_refl_keys a Ka) as E.
  destruct a; try reflexivity; unfold concat; rewrite E; reflexivity.
Qed.

Lemma concat_mono a a' b b' :
  keys_ok a' = true -> keys_ok b' = true ->
  matches a a' = true -> matches b b' = true ->
  matches (concat a b) (concat a' b') = true.
Proof.
  intros Ka Kb Ha Hb. rewrite concat_least. apply andb_true_iff. split.
  - apply (matches_trans a a' _ Ha). apply concat_upper_l_keys. exact Ka.
  - apply (matches_trans b b' _ Hb). apply concat_upper_r_keys. exact Kb.
Qed.

Lemma concat_comm_matches a b :
  keys_ok a = true -> keys_ok b = true -> matches (concat a b) (concat b a) = true.
Proof.
  intros Ka Kb. rewrite concat_least. apply andb_true_iff. split.
  - apply concat_upper_r_keys. exact Ka.
  - apply concat_upper_l_keys. exact Kb.
Qed.

Lemma concat_assoc_matches_l a b c :
  keys_ok a = true -> keys_ok b = true -> keys_ok c = true ->
  matches (concat (concat a b) c) (concat a (concat b c)) = true.
Proof.
  intros Ka Kb Kc. pose proof (concat_keys_ok b c Kb Kc) as Kbc.
  rewrite !concat_least. rewrite concat_upper_l_keys by exact Ka. cbn [andb].
  apply andb_true_iff. split.
  - apply (matches_trans b (concat b c)); [apply concat_upper_l_keys; exact Kb|].
    apply concat_upper_r_keys. exact Kbc.
  - apply (matches_trans c (concat b c)); [apply concat_upper_r_keys; exact Kc|].
    apply concat_upper_r_keys. exact Kbc.
Qed.

Lemma concat_assoc_matches_r a b c :
  keys_ok a = true -> keys_ok b = true -> keys_ok c = true ->
  matches (concat a (concat b c)) (concat (concat a b) c) = true.
Proof.
  intros Ka Kb Kc. pose proof (concat_keys_ok a b Ka Kb) as Kab.
  rewrite !concat_least. rewrite (concat_upper_r_keys (concat a b) c) by exact Kc.
  rewrite andb_true_r. apply andb_true_iff. split.
  - apply (matches_trans a (concat a b)); [apply concat_upper_l_keys; exact Ka|].
    apply concat_upper_l_keys. exact Kab.
  - apply (matches_trans b (concat a b)); [apply concat_upper_r_keys; exact Kb|].
    apply concat_upper_l_keys. exact Kab.
Qed.

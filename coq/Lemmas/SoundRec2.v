(* SoundRec2.v — layer 3, the constant-propagation pass (2/3): unfolding equations of
   [recreate] (one per instruction form, with standalone copies of its local helpers),
   facts about LocalVariables, and the relation [renv] between the pass's environment
   (LocalVariables e + the creating interpreter's scopes sc) and two typing
   environments: G, under which the instruction was typed, and G2, under which the
   recreated instruction is. *)
From SSL.Model Require Import Base Ty Float Value Ops Seq Syntax Rt Recreate Exec Check.
From SSL.Lemmas Require Import TyLemmas ValueLemmas SeqLemmas ExecLemmas SoundLemmas CellLemmas
  SoundDefs SoundVals SoundTyping Sound1 Sound2 Sound3 Sound4.

Arguments matches : simpl never.
Arguments ty_eqb : simpl never.
Arguments concat : simpl never.

Local Open Scope Z_scope.

(* ================================================================= *)
(* outcomes                                                           *)
(* ================================================================= *)
(* the pass may fail with a documented error or run out of (model) fuel, never panic *)
Definition ogood {A} (P : A -> Prop) (o : outcome A) : Prop :=
  match o with
  | Ok a => P a
  | Err x => doc_err x
  | Panic => False
  | OutOfFuel => True
  end.

Lemma ogood_bind {A B} (P : A -> Prop) (Q : B -> Prop) (o : outcome A) (k : A -> outcome B) :
  ogood P o -> (forall a, P a -> ogood Q (k a)) -> ogood Q (obind o k).
Proof. destruct o as [a|x| |]; cbn [ogood obind]; intros H Hk; auto. Qed.

Lemma ogood_impl {A} (P Q : A -> Prop) (o : outcome A) :
  (forall a, P a -> Q a) -> ogood P o -> ogood Q o.
Proof. destruct o; cbn [ogood]; auto. Qed.

(* ================================================================= *)
(* standalone helpers and unfolding equations                         *)
(* ================================================================= *)
Section Defs.
Variable powf : fbits -> fbits -> fbits.
Variable rec : lenv -> instr -> R.

Definition rec_list_def : list instr -> lenv -> outcome (list instr * lenv) :=
  fix go (l : list instr) (e : lenv) : outcome (list instr * lenv) :=
    match l with
    | [] => Ok ([], e)
    | x :: l => obind (rec e x) (fun '(x', e) =>
                obind (go l e) (fun '(l', e) => Ok (x' :: l', e)))
    end.

Definition rec_opt_def (o : option instr) (e : lenv) : outcome (option instr * lenv) :=
  match o with
  | None => Ok (None, e)
  | Some x => obind (rec e x) (fun '(x', e) => Ok (Some x', e))
  end.

Definition rec_arm_def (a : arm) (e : lenv) : outcome (arm * lenv) :=
  match a with
  | ArmType n t b =>
      obind (rec (lenv_insert n (LOther t) (lenv_push e)) b) (fun '(b', _) =>
      Ok (ArmType n t b', e))
  | ArmValue vs b =>
      obind (rec_list_def vs e) (fun '(vs', e) =>
      obind (rec e b) (fun '(b', e) => Ok (ArmValue vs' b', e)))
  | ArmOther b => obind (rec e b) (fun '(b', e) => Ok (ArmOther b', e))
  end.

Definition rec_arms_def : list arm -> lenv -> outcome (list arm * lenv) :=
  fix go (l : list arm) (e : lenv) : outcome (list arm * lenv) :=
    match l with
    | [] => Ok ([], e)
    | a :: l =>
        obind (rec_arm_def a e) (fun '(a', e) =>
        obind (go l e) (fun '(l', e) => Ok (a' :: l', e)))
    end.

Definition rec_fields_def : list (name * instr) -> lenv -> outcome (list (name * instr) * lenv) :=
  fix go (l : list (name * instr)) (e : lenv) : outcome (list (name * instr) * lenv) :=
    match l with
    | [] => Ok ([], e)
    | (k, x) :: l => obind (rec e x) (fun '(x', e) =>
                     obind (go l e) (fun '(l', e) => Ok ((k, x') :: l', e)))
    end.

End Defs.

Section Unfold.
Variable powf : fbits -> fbits -> fbits.
Variable sc : scopes.
Notation RC n := (recreate powf n sc).

Lemma recreate_O e i : RC 0 e i = OutOfFuel.
Proof. reflexivity. Qed.

Lemma recreate_S_ILocal n e nm lv :
  RC (S n) e (ILocal nm lv) = obind (resolve_name sc e nm) (fun i' => Ok (i', e)).
Proof. reflexivity. Qed.
Lemma recreate_S_IVar n e v : RC (S n) e (IVar v) = Ok (IVar v, e).
Proof. reflexivity. Qed.
Lemma recreate_S_IBreak n e : RC (S n) e IBreak = Ok (IBreak, e).
Proof. reflexivity. Qed.
Lemma recreate_S_IContinue n e : RC (S n) e IContinue = Ok (IContinue, e).
Proof. reflexivity. Qed.

Lemma recreate_S_IAnonFn n e ps body ret :
  RC (S n) e (IAnonFn ps body ret) =
  obind (rec_list_def (RC n) body (lenv_push_fn (params_layer ps) None ret e)) (fun '(body', _) =>
  Ok (IAnonFn ps body' ret, e)).
Proof. reflexivity. Qed.

Lemma recreate_S_IFnDecl n e nm ps body ret :
  RC (S n) e (IFnDecl nm ps body ret) =
  obind (rec_list_def (RC n) body
           (lenv_push_fn (params_layer ps) (Some nm) ret (lenv_insert nm (LFunction ps ret) e)))
        (fun '(body', _) => Ok (IFnDecl nm ps body' ret, lenv_insert nm (LFunction ps ret) e)).
Proof. reflexivity. Qed.

Lemma recreate_S_IArray n e es et :
  RC (S n) e (IArray es et) =
  obind (rec_list_def (RC n) es e) (fun '(es', e) =>
  match all_vars es' with
  | Some vs => Ok (IVar (arr_of vs), e)
  | None => Ok (IArray es' et, e)
  end).
Proof. reflexivity. Qed.

Lemma recreate_S_ITuple n e es :
  RC (S n) e (ITuple es) =
  obind (rec_list_def (RC n) es e) (fun '(es', e) =>
  match all_vars es' with
  | Some vs => Ok (IVar (VTup vs), e)
  | None => Ok (ITuple es', e)
  end).
Proof. reflexivity. Qed.

Lemma recreate_S_IArrayRepeat n e v len :
  RC (S n) e (IArrayRepeat v len) =
  obind (RC n e v) (fun '(v', e) => obind (RC n e len) (fun '(len', e) =>
  obind (fold_repeat v' len') (fun r => Ok (r, e)))).
Proof. reflexivity. Qed.

Lemma recreate_S_IBlock n e body :
  RC (S n) e (IBlock body) =
  obind (rec_list_def (RC n) body (lenv_push e)) (fun '(body', _) => Ok (IBlock body', e)).
Proof. reflexivity. Qed.

Lemma recreate_S_IDestruct n e ids x :
  RC (S n) e (IDestruct ids x) =
  obind (RC n e x) (fun '(x', e) =>
  obind (destruct_insert ids x' e) (fun e => Ok (IDestruct ids x', e))).
Proof. reflexivity. Qed.

Lemma recreate_S_IFieldAccess n e x f :
  RC (S n) e (IFieldAccess x f) = obind (RC n e x) (fun '(x', e) => Ok (IFieldAccess x' f, e)).
Proof. reflexivity. Qed.

Lemma recreate_S_ITupleAccess n e x k :
  RC (S n) e (ITupleAccess x k) = obind (RC n e x) (fun '(x', e) => Ok (ITupleAccess x' k, e)).
Proof. reflexivity. Qed.

Lemma recreate_S_IIfElse n e c t f :
  RC (S n) e (IIfElse c t f) =
  obind (RC n e c) (fun '(c', e) =>
  match c' with
  | IVar (VBool true) => RC n e t
  | IVar (VBool false) => RC n e f
  | _ => obind (RC n e t) (fun '(t', e) => obind (RC n e f) (fun '(f', e) =>
         Ok (IIfElse c' t' f', e)))
  end).
Proof. reflexivity. Qed.

Lemma recreate_S_ILoop n e b :
  RC (S n) e (ILoop b) = obind (RC n e b) (fun '(b', e) => Ok (ILoop b', e)).
Proof. reflexivity. Qed.

Lemma recreate_S_IMatch n e x arms :
  RC (S n) e (IMatch x arms) =
  obind (RC n e x) (fun '(x', e) =>
  obind (rec_arms_def (RC n) arms e) (fun '(arms', e) => Ok (IMatch x' arms', e))).
Proof. reflexivity. Qed.

Lemma recreate_S_IMut n e t x :
  RC (S n) e (IMut t x) = obind (RC n e x) (fun '(x', e) => Ok (IMut t x', e)).
Proof. reflexivity. Qed.

Lemma recreate_S_ISet n e nm x :
  RC (S n) e (ISet nm x) =
  obind (RC n e x) (fun '(x', e) =>
  obind (lvar_of_instr x') (fun lv => Ok (ISet nm x', lenv_insert nm lv e))).
Proof. reflexivity. Qed.

Lemma recreate_S_ISetIfElse n e nm t x ifm els :
  RC (S n) e (ISetIfElse nm t x ifm els) =
  obind (RC n e x) (fun '(x', e) =>
  obind (RC n (lenv_insert nm (LOther t) (lenv_push e)) ifm) (fun '(ifm', _) =>
  obind (RC n e els) (fun '(els', e) => Ok (ISetIfElse nm t x' ifm' els', e)))).
Proof. reflexivity. Qed.

Lemma recreate_S_ISlicing n e l a b c :
  RC (S n) e (ISlicing l a b c) =
  obind (RC n e l) (fun '(l', e) => obind (rec_opt_def (RC n) a e) (fun '(a', e) =>
  obind (rec_opt_def (RC n) b e) (fun '(b', e) => obind (rec_opt_def (RC n) c e) (fun '(c', e) =>
  Ok (ISlicing l' a' b' c', e))))).
Proof. reflexivity. Qed.

Lemma recreate_S_IStruct n e fs :
  RC (S n) e (IStruct fs) =
  obind (rec_fields_def (RC n) fs e) (fun '(fs', e) => Ok (IStruct fs', e)).
Proof. reflexivity. Qed.

Lemma recreate_S_And n e l r :
  RC (S n) e (IBin And l r) =
  obind (RC n e l) (fun '(l', e) =>
  match l' with
  | IVar (VBool true) => RC n e r
  | IVar _ => Ok (IVar (VBool false), e)
  | _ => obind (RC n e r) (fun '(r', e) => Ok (IBin And l' r', e))
  end).
Proof. reflexivity. Qed.

Lemma recreate_S_Or n e l r :
  RC (S n) e (IBin Or l r) =
  obind (RC n e l) (fun '(l', e) =>
  match l' with
  | IVar (VBool true) => Ok (IVar (VBool true), e)
  | IVar _ => RC n e r
  | _ => obind (RC n e r) (fun '(r', e) => Ok (IBin Or l' r', e))
  end).
Proof. reflexivity. Qed.

Lemma recreate_S_IBin n e op l r : op <> And -> op <> Or ->
  RC (S n) e (IBin op l r) =
  obind (RC n e l) (fun '(l', e) => obind (RC n e r) (fun '(r', e) =>
  obind (fold_bin powf op l' r') (fun x => Ok (x, e)))).
Proof. intros HA HO. destruct op; try congruence; reflexivity. Qed.

Lemma recreate_S_IUn n e op x :
  RC (S n) e (IUn op x) =
  obind (RC n e x) (fun '(x', e) => obind (fold_un op x') (fun r => Ok (r, e))).
Proof. reflexivity. Qed.

End Unfold.

Arguments recreate : simpl never.

(* ================================================================= *)
(* LocalVariables                                                     *)
(* ================================================================= *)
Lemma assoc_filter_other {V} k n (l : list (ident * V)) :
  ident_eqb k n = false ->
  assoc k (filter (fun kv => negb (ident_eqb n (fst kv))) l) = assoc k l.
Proof.
  intros Hk. induction l as [|[k' w] l IH]; [reflexivity|]. cbn [filter fst assoc].
  destruct (ident_eqb n k') eqn:E; cbn [negb].
  - apply ident_eqb_true in E. subst k'. rewrite Hk. exact IH.
  - cbn [assoc]. rewrite IH. reflexivity.
Qed.

Lemma ident_eqb_sym a b : ident_eqb a b = ident_eqb b a.
Proof.
  destruct (ident_eqb a b) eqn:E1, (ident_eqb b a) eqn:E2; try reflexivity.
  - apply ident_eqb_true in E1. subst. rewrite ident_eqb_refl in E2. discriminate.
  - apply ident_eqb_true in E2. subst. rewrite ident_eqb_refl in E1. discriminate.
Qed.

Lemma lenv_get_push n e : lenv_get n (lenv_push e) = lenv_get n e.
Proof. reflexivity. Qed.

Lemma lenv_get_insert_same n lv e : lenv_get n (lenv_insert n lv e) = Some lv.
Proof.
  destruct e as [|l e]; cbn [lenv_insert lenv_get layer_insert l_vars assoc];
    rewrite ident_eqb_refl; reflexivity.
Qed.

Lemma lenv_get_insert_other n m lv e :
  ident_eqb m n = false -> lenv_get m (lenv_insert n lv e) = lenv_get m e.
Proof.
  intros H. destruct e as [|l e]; cbn [lenv_insert lenv_get layer_insert l_vars assoc]; rewrite H.
  - reflexivity.
  - rewrite assoc_filter_other by exact H. reflexivity.
Qed.

Lemma lenv_get_push_fn n vars fn ret e :
  lenv_get n (lenv_push_fn vars fn ret e) =
  match assoc n vars with Some v => Some v | None => lenv_get n e end.
Proof. reflexivity. Qed.

(* params_layer: the LAST parameter of a name wins, like [closure_env] *)
Lemma params_layer_assoc ps : forall n,
  assoc n (params_layer ps) = option_map LOther (assoc n (fold_left (fun g p => (fst p, snd p) :: g) ps [])).
Proof.
  unfold params_layer.
  assert (G : forall ps (acc : list (name * lvar)) (accG : genv),
            (forall n, assoc n acc = option_map LOther (assoc n accG)) ->
            forall n, assoc n (fold_left (fun acc p => (fst p, LOther (snd p)) ::
                                 filter (fun kv => negb (ident_eqb (fst p) (fst kv))) acc) ps acc)
                      = option_map LOther (assoc n (fold_left (fun g p => (fst p, snd p) :: g) ps accG))).
  { induction ps0 as [|[k t] ps0 IH]; intros acc accG H n; [apply H|].
    cbn [fold_left fst snd]. apply IH. intros m. cbn [assoc].
    destruct (ident_eqb m k) eqn:E; [reflexivity|].
    rewrite assoc_filter_other by exact E. apply H. }
  intros n. apply (G ps [] []). intros m. reflexivity.
Qed.

Lemma assoc_app {V} k (l1 l2 : list (ident * V)) :
  assoc k (l1 ++ l2) = match assoc k l1 with Some v => Some v | None => assoc k l2 end.
Proof.
  induction l1 as [|[k' v] l1 IH]; [reflexivity|]. cbn [app assoc].
  destruct (ident_eqb k k'); [reflexivity|exact IH].
Qed.

(* ================================================================= *)
(* the environment relation                                           *)
(* ================================================================= *)
Definition renv (W : sty) (sc : scopes) (e : lenv) (G G2 : genv) : Prop :=
  genv_wf G /\ genv_wf G2 /\
  forall n T, assoc n G = Some T ->
    match lenv_get n e with
    | Some (LVariable v) => gv W v T
    | Some lv => assoc n G2 = Some (lvar_type lv) /\ matches (lvar_type lv) T = true
    | None => exists v, scopes_get n sc = Some v /\ gv W v T
    end.

Lemma renv_wf W sc e G G2 : renv W sc e G G2 -> genv_wf G.
Proof. intros H. apply H. Qed.
Lemma renv_wf2 W sc e G G2 : renv W sc e G G2 -> genv_wf G2.
Proof. intros H. apply H. Qed.

Lemma renv_push W sc e G G2 : renv W sc e G G2 -> renv W sc (lenv_push e) G G2.
Proof. intros H. exact H. Qed.

(* a new binding whose recreated right-hand side is not a constant *)
Lemma renv_insert W sc e G G2 n lv T :
  renv W sc e G G2 -> wf_ty T = true -> wf_ty (lvar_type lv) = true ->
  (forall v, lv <> LVariable v) -> matches (lvar_type lv) T = true ->
  renv W sc (lenv_insert n lv e) ((n, T) :: G) ((n, lvar_type lv) :: G2).
Proof.
  intros [WG [WG2 H]] WT WL NV M. split; [apply genv_wf_cons; assumption|].
  split; [apply genv_wf_cons; assumption|].
  intros m U Hm. cbn [assoc] in Hm. destruct (ident_eqb m n) eqn:E.
  - injection Hm as <-. apply ident_eqb_true in E. subst m. rewrite lenv_get_insert_same.
    destruct lv; try (exfalso; eapply NV; reflexivity);
      (split; [cbn [assoc]; rewrite ident_eqb_refl; reflexivity|exact M]).
  - rewrite lenv_get_insert_other by exact E. specialize (H m U Hm).
    destruct (lenv_get m e) as [[ps r|v|t]|]; try exact H;
      (destruct H as [A B]; split; [cbn [assoc]; rewrite E; exact A|exact B]).
Qed.

(* a new binding whose recreated right-hand side is the constant v *)
Lemma renv_insert_var W sc e G G2 n v T T2 :
  renv W sc e G G2 -> wf_ty T = true -> wf_ty T2 = true -> gv W v T ->
  renv W sc (lenv_insert n (LVariable v) e) ((n, T) :: G) ((n, T2) :: G2).
Proof.
  intros [WG [WG2 H]] WT WT2 Hv. split; [apply genv_wf_cons; assumption|].
  split; [apply genv_wf_cons; assumption|].
  intros m U Hm. cbn [assoc] in Hm. destruct (ident_eqb m n) eqn:E.
  - injection Hm as <-. apply ident_eqb_true in E. subst m. rewrite lenv_get_insert_same. exact Hv.
  - rewrite lenv_get_insert_other by exact E. specialize (H m U Hm).
    destruct (lenv_get m e) as [[ps r|w|t]|]; try exact H;
      (destruct H as [A B]; split; [cbn [assoc]; rewrite E; exact A|exact B]).
Qed.

(* ---- function layers ---- *)
Lemma fold_cons_rev (ps : params) (g : genv) :
  fold_left (fun g p => (fst p, snd p) :: g) ps g = rev (map (fun p => (fst p, snd p)) ps) ++ g.
Proof.
  revert g. induction ps as [|[k t] ps IH]; intros g; [reflexivity|].
  cbn [fold_left map rev fst snd]. rewrite IH, <- app_assoc. reflexivity.
Qed.

Lemma closure_env_split nm ps r :
  closure_env (Some nm) ps r = closure_env None ps r ++ [(nm, TFun (map snd ps) r)].
Proof. unfold closure_env. rewrite !fold_cons_rev, app_nil_r. reflexivity. Qed.

Lemma closure_env_param_wf ps r n t :
  forallb wf_ty (map snd ps) = true -> assoc n (closure_env None ps r) = Some t -> wf_ty t = true.
Proof.
  intros W H. unfold closure_env in H. rewrite fold_cons_rev, app_nil_r in H.
  apply assoc_in in H. apply in_rev in H. apply in_map_iff in H. destruct H as [[k u] [E Hin]].
  cbn [fst snd] in E. injection E as -> ->. rewrite forallb_forall in W. apply W.
  apply in_map_iff. exists (n, t). split; [reflexivity|exact Hin].
Qed.

Lemma params_layer_get ps r n :
  assoc n (params_layer ps) = option_map LOther (assoc n (closure_env None ps r)).
Proof. unfold closure_env. apply params_layer_assoc. Qed.

(* a layer holding exactly the parameters, on top of e *)
Lemma renv_fn_layer W sc e G G2 lay ps r :
  l_vars lay = params_layer ps ->
  renv W sc e G G2 -> forallb wf_ty (map snd ps) = true ->
  renv W sc (lay :: e) (closure_env None ps r ++ G) (closure_env None ps r ++ G2).
Proof.
  intros Hl [WG [WG2 H]] Wps.
  assert (WA : forall G0, genv_wf G0 -> genv_wf (closure_env None ps r ++ G0)).
  { intros G0 W0 n T Hn. rewrite assoc_app in Hn.
    destruct (assoc n (closure_env None ps r)) as [t|] eqn:E.
    - injection Hn as <-. apply (closure_env_param_wf ps r n t Wps E).
    - apply (W0 n T Hn). }
  split; [apply WA; exact WG|]. split; [apply WA; exact WG2|].
  intros n T Hn. rewrite assoc_app in Hn. cbn [lenv_get]. rewrite Hl, (params_layer_get ps r n).
  destruct (assoc n (closure_env None ps r)) as [t|] eqn:E; cbn [option_map].
  - injection Hn as <-. cbn [lvar_type]. split; [rewrite assoc_app, E; reflexivity|].
    apply matches_refl. apply (closure_env_param_wf ps r n t Wps E).
  - specialize (H n T Hn).
    destruct (lenv_get n e) as [[ps0 r0|v|t0]|]; try exact H;
      (destruct H as [A B]; split; [rewrite assoc_app, E; exact A|exact B]).
Qed.

(* the empty LocalVariables: every name is looked up in the scopes *)
Lemma renv_nil W sc G : env_ok W sc G -> renv W sc [] G [].
Proof.
  intros H. split; [apply (env_ok_wf W sc); exact H|]. split; [intros n T Hn; discriminate Hn|].
  intros n T Hn. cbn [lenv_get]. destruct (H n T Hn) as [_ Hv]. exact Hv.
Qed.

(* the layer in which a named closure is created at run time: own name + parameters *)
Lemma renv_fn_layer_named W sc G nm ps r :
  env_ok W sc G -> wf_ty (TFun (map snd ps) r) = true ->
  existsb (fun p => ident_eqb nm (fst p)) ps = false ->
  renv W sc [layer_insert nm (LFunction ps r) (mkLayer (params_layer ps) None false)]
       (closure_env (Some nm) ps r ++ G) (closure_env (Some nm) ps r).
Proof.
  intros HG Wf Hnm. destruct (wf_fun_parts _ _ Wf) as [Wps Wr].
  assert (NP : assoc nm (closure_env None ps r) = None).
  { unfold closure_env. rewrite fold_cons_rev, app_nil_r.
    match goal with |- ?x = None => destruct x as [t|] eqn:E; [|reflexivity] end.
    exfalso. apply assoc_in in E. apply in_rev in E. apply in_map_iff in E.
    destruct E as [[k u] [E Hin]]. cbn [fst snd] in E. injection E as -> ->.
    rewrite <- not_true_iff_false in Hnm. apply Hnm. apply existsb_exists.
    exists (nm, t). split; [exact Hin|apply ident_eqb_refl]. }
  rewrite closure_env_split.
  assert (WE : genv_wf (closure_env None ps r ++ [(nm, TFun (map snd ps) r)])).
  { intros n T Hn. rewrite assoc_app in Hn.
    destruct (assoc n (closure_env None ps r)) as [t|] eqn:E.
    - injection Hn as <-. apply (closure_env_param_wf ps r n t Wps E).
    - cbn [assoc] in Hn. destruct (ident_eqb n nm); [injection Hn as <-; exact Wf|discriminate Hn]. }
  split.
  { intros n T Hn. rewrite <- app_assoc, assoc_app in Hn.
    destruct (assoc n (closure_env None ps r)) as [t|] eqn:E.
    - injection Hn as <-. apply (closure_env_param_wf ps r n t Wps E).
    - cbn [app assoc] in Hn. destruct (ident_eqb n nm); [injection Hn as <-; exact Wf|].
      apply (env_ok_wf W sc G HG n T Hn). }
  split; [exact WE|].
  intros n T Hn. rewrite <- app_assoc, assoc_app in Hn.
  cbn [lenv_get layer_insert l_vars assoc].
  destruct (ident_eqb n nm) eqn:En.
  - apply ident_eqb_true in En. subst n. rewrite NP in Hn. cbn [app assoc] in Hn.
    rewrite ident_eqb_refl in Hn. injection Hn as <-. cbn [lvar_type].
    split; [rewrite assoc_app, NP; cbn [assoc]; rewrite ident_eqb_refl; reflexivity|].
    apply matches_refl. exact Wf.
  - rewrite assoc_filter_other by exact En. rewrite (params_layer_get ps r n).
    destruct (assoc n (closure_env None ps r)) as [t|] eqn:E; cbn [option_map].
    + injection Hn as <-. cbn [lvar_type]. split; [rewrite assoc_app, E; reflexivity|].
      apply matches_refl. apply (closure_env_param_wf ps r n t Wps E).
    + cbn [app assoc] in Hn. rewrite En in Hn. destruct (HG n T Hn) as [_ Hv]. exact Hv.
Qed.

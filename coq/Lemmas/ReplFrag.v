(* ReplFrag.v — the fragment of the surface language on which REPL = batch (C17) is proved, as
   boolean predicates on the surface AST:
     everything except modules, `for`, the iterator operators (`$..`, `? T`, reduce) and the
     full slice `x[::]`   (as in the bridge of C01c), destructuring lines `(a, b) := e`
     (not covered yet), and two forms on which the checker
     itself depends on whether a NAME is a known constant:
       - `while x {..}` with a bare name as condition (the checker prunes a constant
         condition),
       - a bare name as a non-last statement of a block or function body (the checker drops
         non-last constant statements).
     Both are harmless at run time; excluding them makes the two routes build literally the
     same closures. *)
From SSL.Model Require Import Base Ty Float Value Ops Seq Syntax Rt Recreate Check.

Definition is_xident (x : sx) : bool := match x with XIdent _ => true | _ => false end.
Definition bare (ln : sline) : bool :=
  match ln with LStm (SExpr x) => is_xident x | _ => false end.
Fixpoint nobare (l : list sline) : bool :=
  match l with
  | [] => true
  | ln :: l' => match l' with [] => true | _ => negb (bare ln) && nobare l' end
  end.

Definition opt_all {A} (f : A -> bool) (o : option A) : bool :=
  match o with Some y => f y | None => true end.

Fixpoint rfx (x : sx) : bool :=
  match x with
  | XIdent _ | XConst _ => true
  | XMut _ y | XPrefix _ y | XTupleAccess y _ | XFieldAccess y _ => rfx y
  | XTuple es | XArray es => forallb rfx es
  | XArrayRepeat a b | XAt a b | XInfix _ a b => rfx a && rfx b
  | XFunction _ _ body => forallb rfl body && nobare body
  | XStruct fs => forallb (fun kv => match kv with
                                     | (_, Some y) => rfx y
                                     | (_, None) => true end) fs
  | XSlice y a b c =>
      match a, b, c with None, None, None => false | _, _, _ => true end &&
      rfx y && match a with Some y => rfx y | None => true end
            && match b with Some y => rfx y | None => true end
            && match c with Some y => rfx y | None => true end
  | XCall f args => rfx f && forallb rfx args
  | XMod _ | XReduce _ _ _ | XTypeFilter _ _ | XPostfix _ _ => false
  end
with rfs (s : sstm) : bool :=
  match s with
  | SExpr e => rfx e
  | SBlock body => forallb rfl body && nobare body
  | SIfElse c t f => rfx c && rfs t && match f with Some f => rfs f | None => true end
  | SSetIfElse _ _ e i els =>
      rfx e && rfs i && match els with Some f => rfs f | None => true end
  | SMatch e arms => rfx e && forallb rfa arms
  | SRet r => match r with Some s => rfs s | None => true end
  | SLoop b => rfs b
  | SWhile c b => negb (is_xident c) && rfx c && rfs b
  | SWhileSet _ _ c b => rfx c && rfs b
  | SFor _ _ _ => false
  | SBrk | SCont => true
  end
with rfl (l : sline) : bool :=
  match l with
  | LFnDecl _ _ _ body => forallb rfl body && nobare body
  | LSet _ s | LStm s => rfs s
  | LDestruct _ _ => false          (* destructuring lines: not covered yet *)
  end
with rfa (a : sarm) : bool :=
  match a with
  | AType _ _ b | AOther b => rfs b
  | AValue vs b => forallb rfx vs && rfs b
  end.

Definition rf_field (kv : name * option sx) : bool :=
  match kv with (_, Some y) => rfx y | (_, None) => true end.

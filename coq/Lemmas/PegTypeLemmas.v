(* PegTypeLemmas.v — the type fragment of the regenerated grammar, rule by rule, in the
   PEG model; towards `type_roundtrip` (C15).  Every lemma about a rule first pins the
   rule body it depends on ([find_*], proved by [reflexivity] against Gen/GenGrammar.v):
   an edit of one of these rules breaks the proof, an edit elsewhere does not. *)
From SSL.Model Require Import Base Ty Peg Print TypeParse.
From SSL.Gen Require Import GenGrammar.
From SSL.Lemmas Require Import TyFuel TyEq TyJoin PegBody.

Local Open Scope Z_scope.

Definition tbl : ptrie (modifier * peg) := Eval vm_compute in peg_rule_table (g_rules grammar).
Lemma tbl_eq : peg_rule_table (g_rules grammar) = tbl.
Proof. vm_compute. reflexivity. Qed.

(* ---------------------------------------------------------------- pinned rule bodies *)
Lemma find_WHITESPACE : peg_rule_find tbl R_WHITESPACE =
  Some (Silent, PChoice (PLit [32]) (PChoice (PLit [9]) (PBuiltin B_NEWLINE))).
Proof. reflexivity. Qed.
Lemma find_COMMENT : peg_rule_find tbl R_COMMENT =
  Some (Silent, PChoice (PCall R_block_comment) (PCall R_line_comment)).
Proof. reflexivity. Qed.
Lemma find_block_comment : peg_rule_find tbl R_block_comment =
  Some (Silent, PSeq (PLit [47; 42]) (PSeq (PStar (PSeq (PNot (PLit [42; 47])) (PBuiltin B_ANY))) (PLit [42; 47]))).
Proof. reflexivity. Qed.
Lemma find_line_comment : peg_rule_find tbl R_line_comment =
  Some (Silent, PSeq (PLit [47; 47]) (PStar (PSeq (PNot (PBuiltin B_NEWLINE)) (PBuiltin B_ANY)))).
Proof. reflexivity. Qed.
Lemma find_type : peg_rule_find tbl R_type =
  Some (Silent, PChoice (PCall R_multi) (PCall R_standard_types)).
Proof. reflexivity. Qed.
Lemma find_multi : peg_rule_find tbl R_multi =
  Some (Normal, PSeq (PCall R_standard_types) (PPlus (PSeq (PLit [124]) (PCall R_standard_types)))).
Proof. reflexivity. Qed.
Lemma find_standard_types : peg_rule_find tbl R_standard_types =
  Some (Silent,
    PChoice (PCall R_bool_type) (PChoice (PCall R_int_type) (PChoice (PCall R_float_type)
    (PChoice (PCall R_string_type) (PChoice (PCall R_function_type) (PChoice (PCall R_void)
    (PChoice (PCall R_array_type) (PChoice (PCall R_tuple_type) (PChoice (PCall R_any)
    (PChoice (PCall R_never) (PChoice (PCall R_mut_type) (PCall R_struct_type)))))))))))).
Proof. reflexivity. Qed.
Lemma find_bool_type : peg_rule_find tbl R_bool_type = Some (Normal, PLit [98; 111; 111; 108]).
Proof. reflexivity. Qed.
Lemma find_int_type : peg_rule_find tbl R_int_type = Some (Normal, PLit [105; 110; 116]).
Proof. reflexivity. Qed.
Lemma find_float_type : peg_rule_find tbl R_float_type = Some (Normal, PLit [102; 108; 111; 97; 116]).
Proof. reflexivity. Qed.
Lemma find_string_type : peg_rule_find tbl R_string_type = Some (Normal, PLit [115; 116; 114; 105; 110; 103]).
Proof. reflexivity. Qed.
Lemma find_void : peg_rule_find tbl R_void = Some (Normal, PLit [40; 41]).
Proof. reflexivity. Qed.
Lemma find_any : peg_rule_find tbl R_any = Some (Normal, PLit [97; 110; 121]).
Proof. reflexivity. Qed.
Lemma find_never : peg_rule_find tbl R_never = Some (Normal, PLit [33]).
Proof. reflexivity. Qed.
Lemma find_function_type : peg_rule_find tbl R_function_type =
  Some (Normal, PSeq (PCall R_function_type_params) (PSeq (PLit [45; 62]) (PCall R_return_type))).
Proof. reflexivity. Qed.
Lemma find_function_type_params : peg_rule_find tbl R_function_type_params =
  Some (Normal, PSeq (PLit [40]) (PSeq (POpt (PSeq (PCall R_type) (PStar (PSeq (PLit [44]) (PCall R_type))))) (PLit [41]))).
Proof. reflexivity. Qed.
Lemma find_return_type : peg_rule_find tbl R_return_type =
  Some (Silent, PChoice (PCall R_standard_types) (PSeq (PLit [40]) (PSeq (PCall R_multi) (PLit [41])))).
Proof. reflexivity. Qed.
Lemma find_array_type : peg_rule_find tbl R_array_type =
  Some (Normal, PSeq (PLit [91]) (PSeq (POpt (PCall R_type)) (PLit [93]))).
Proof. reflexivity. Qed.
Lemma find_tuple_type : peg_rule_find tbl R_tuple_type =
  Some (Normal, PSeq (PLit [40]) (PSeq (PCall R_type) (PSeq (PPlus (PSeq (PLit [44]) (PCall R_type))) (PLit [41])))).
Proof. reflexivity. Qed.
Lemma find_mut_type : peg_rule_find tbl R_mut_type =
  Some (Normal, PSeq (PLit [109; 117; 116]) (PCall R_return_type)).
Proof. reflexivity. Qed.
Lemma find_struct_type_head : exists b, peg_rule_find tbl R_struct_type =
  Some (Normal, PSeq (PLit [115; 116; 114; 117; 99; 116]) b).
Proof. eexists. reflexivity. Qed.

Global Opaque tbl.

(* ---------------------------------------------------------------- abbreviations *)
Notation callr f r := (peg_call grammar tbl f r AtNonAtomic false).
Notation skipf f := (bskip grammar (peg_call grammar tbl f) f true AtNonAtomic false).

(* a character that no skip consumes and that cannot start a comment *)
Definition nows (c : Z) : bool :=
  negb (c =? 32) && negb (c =? 9) && negb (c =? 10) && negb (c =? 13) && negb (c =? 47).
Definition head_ok (rest : list Z) : bool :=
  match rest with [] => true | c :: _ => nows c end.

Lemma nows_inv c : nows c = true -> c <> 32 /\ c <> 9 /\ c <> 10 /\ c <> 13 /\ c <> 47.
Proof.
  unfold nows. intros H. repeat (apply andb_prop in H; destruct H as [H ?]).
  repeat match goal with H : negb (_ =? _) = true |- _ =>
    apply negb_true_iff, Z.eqb_neq in H end. auto.
Qed.

Lemma newline_fail c r pos acc : c <> 10 -> c <> 13 -> peg_match_newline (c :: r) pos acc = PFail.
Proof.
  intros H10 H13. destruct c as [|p|p]; try reflexivity.
  do 4 (destruct p as [p|p|]; try reflexivity); congruence.
Qed.

(* a rule whose body starts with a literal fails when the input does not start with it *)
Lemma call_fail_first g t f r atom look rest pos acc m body s :
  peg_rule_find t r = Some (m, body) ->
  (body = PLit s \/ exists b, body = PSeq (PLit s) b) ->
  peg_match_lit s rest pos = None ->
  peg_call g t (S f) r atom look rest pos acc = PFail.
Proof.
  intros Hfind Hbody Hlit. rewrite peg_call_S. unfold call_step. rewrite Hfind.
  destruct Hbody as [->|[b ->]]; cbn [peg_body]; rewrite Hlit; cbn [peg_of_match pres_bind];
    match goal with |- (if ?c then _ else _) = _ => destruct c end; reflexivity.
Qed.

Lemma ws_fail f rest pos acc : head_ok rest = true ->
  peg_call grammar tbl (S f) R_WHITESPACE AtNonAtomic false rest pos acc = PFail.
Proof.
  intros H. rewrite peg_call_S. unfold call_step. rewrite find_WHITESPACE.
  destruct rest as [|c r]; [reflexivity|].
  cbn [head_ok] in H. destruct (nows_inv c H) as (H32 & H9 & H10 & H13 & _).
  cbn -[Z.eqb peg_match_newline]. rewrite (proj2 (Z.eqb_neq 32 c)) by congruence.
  rewrite (proj2 (Z.eqb_neq 9 c)) by congruence.
  cbn -[peg_match_newline]. apply newline_fail; assumption.
Qed.

Lemma comment_fail f rest pos acc atom : head_ok rest = true ->
  peg_call grammar tbl (S (S f)) R_COMMENT atom false rest pos acc = PFail.
Proof.
  intros H. rewrite peg_call_S. unfold call_step. rewrite find_COMMENT.
  assert (Hl : forall c2, peg_match_lit [47; c2] rest pos = None).
  { intros c2. destruct rest as [|c r]; [reflexivity|].
    cbn [head_ok] in H. destruct (nows_inv c H) as (_ & _ & _ & _ & H47).
    cbn -[Z.eqb]. rewrite (proj2 (Z.eqb_neq 47 c)) by congruence. reflexivity. }
  cbn -[peg_call].
  rewrite (call_fail_first _ _ _ _ _ _ _ _ _ _ _ _ find_block_comment (or_intror (ex_intro _ _ eq_refl)) (Hl 42)).
  rewrite (call_fail_first _ _ _ _ _ _ _ _ _ _ _ _ find_line_comment (or_intror (ex_intro _ _ eq_refl)) (Hl 47)).
  reflexivity.
Qed.

Lemma skip_none f rest pos acc : head_ok rest = true ->
  skipf (S (S f)) rest pos acc = POk rest pos acc.
Proof.
  intros H. unfold bskip, peg_skip_with. cbn [g_whitespace g_comment grammar].
  cbn [peg_rep_loop]. rewrite (ws_fail _ _ _ _ H). cbn [pres_bind].
  rewrite (comment_fail _ _ _ _ _ H). reflexivity.
Qed.

Lemma skip_none' f rest pos acc : (2 <= f)%nat -> head_ok rest = true ->
  skipf f rest pos acc = POk rest pos acc.
Proof. intros Hf H. destruct f as [|[|f]]; [lia|lia|]. apply skip_none, H. Qed.

Lemma skip_space f rest pos acc : head_ok rest = true ->
  skipf (S (S (S f))) (32 :: rest) pos acc = POk rest (S pos) acc.
Proof.
  intros H. unfold bskip, peg_skip_with. cbn [g_whitespace g_comment grammar].
  assert (Hw : peg_call grammar tbl (S (S (S f))) R_WHITESPACE AtNonAtomic false (32 :: rest) pos acc
               = POk rest (S pos) acc).
  { rewrite peg_call_S. unfold call_step. rewrite find_WHITESPACE. reflexivity. }
  cbn [peg_rep_loop]. rewrite Hw. rewrite (ws_fail _ _ _ _ H). cbn [pres_bind].
  rewrite (comment_fail _ _ _ _ _ H). reflexivity.
Qed.

Lemma skip_space' f rest pos acc : (3 <= f)%nat -> head_ok rest = true ->
  skipf f (32 :: rest) pos acc = POk rest (S pos) acc.
Proof. intros Hf H. destruct f as [|[|[|f]]]; [lia|lia|lia|]. apply skip_space, H. Qed.

(* ---------------------------------------------------------------- what a parse yields *)
Definition conv (tr : tree) (t : ty) : Prop := forall input, tp_ty_of_tree input tr = Ok t.

Definition yields (res : pres) (rest : list Z) (acc : list tree) (t : ty) : Prop :=
  exists pos' tr, res = POk rest pos' (tr :: acc) /\ conv tr t.

Lemma fail_lit_rule r s m f rest pos acc :
  peg_rule_find tbl r = Some (m, PLit s) -> peg_match_lit s rest pos = None ->
  callr (S f) r rest pos acc = PFail.
Proof. intros Hf Hl. eapply call_fail_first; [exact Hf | left; reflexivity | exact Hl]. Qed.

Lemma fail_seq_rule r s b m f rest pos acc :
  peg_rule_find tbl r = Some (m, PSeq (PLit s) b) -> peg_match_lit s rest pos = None ->
  callr (S f) r rest pos acc = PFail.
Proof. intros Hf Hl. eapply call_fail_first; [exact Hf | right; eexists; reflexivity | exact Hl]. Qed.

(* a token rule whose body is one literal *)
Lemma ok_lit_rule r s f rest pos acc :
  peg_rule_find tbl r = Some (Normal, PLit s) -> peg_is_skip_rule grammar r = false ->
  callr (S f) r (s ++ rest) pos acc =
  POk rest (length s + pos) (Node r pos (length s + pos) [] :: acc).
Proof.
  intros Hf Hs. rewrite peg_call_S. unfold call_step. rewrite Hf, Hs.
  cbn [negb peg_is_atomic andb peg_body]. rewrite match_lit_app. reflexivity.
Qed.

(* function_type fails on anything that does not start with '(' *)
Lemma function_type_fail_head f rest pos acc :
  peg_match_lit [40] rest pos = None ->
  callr (S (S f)) R_function_type rest pos acc = PFail.
Proof.
  intros Hl. rewrite peg_call_S. unfold call_step. rewrite find_function_type.
  cbn -[peg_call]. rewrite (fail_seq_rule _ _ _ _ _ _ _ _ find_function_type_params Hl).
  reflexivity.
Qed.

(* one unfolding of standard_types: the twelve alternatives in order *)
Lemma std_unfold f rest pos acc :
  callr (S f) R_standard_types rest pos acc =
  match callr f R_bool_type rest pos acc with PFail =>
  match callr f R_int_type rest pos acc with PFail =>
  match callr f R_float_type rest pos acc with PFail =>
  match callr f R_string_type rest pos acc with PFail =>
  match callr f R_function_type rest pos acc with PFail =>
  match callr f R_void rest pos acc with PFail =>
  match callr f R_array_type rest pos acc with PFail =>
  match callr f R_tuple_type rest pos acc with PFail =>
  match callr f R_any rest pos acc with PFail =>
  match callr f R_never rest pos acc with PFail =>
  match callr f R_mut_type rest pos acc with PFail =>
  callr f R_struct_type rest pos acc
  | x => x end | x => x end | x => x end | x => x end | x => x end | x => x end
  | x => x end | x => x end | x => x end | x => x end | x => x end.
Proof.
  rewrite peg_call_S. unfold call_step. rewrite find_standard_types. reflexivity.
Qed.

Lemma conv_leaf r s e t :
  (forall input, tp_ty_of_tree input (Node r s e []) = Ok t) -> conv (Node r s e []) t.
Proof. exact (fun H => H). Qed.

Ltac fail_lit H :=
  match type of H with peg_rule_find tbl ?r = _ =>
    match goal with |- context [peg_call grammar tbl (S ?f) r AtNonAtomic false ?rest ?pos ?acc] =>
      rewrite (fail_lit_rule r _ _ f rest pos acc H eq_refl) end end.
Ltac fail_seq H :=
  match type of H with peg_rule_find tbl ?r = _ =>
    match goal with |- context [peg_call grammar tbl (S ?f) r AtNonAtomic false ?rest ?pos ?acc] =>
      rewrite (fail_seq_rule r _ _ _ f rest pos acc H eq_refl) end end.
Ltac fail_fun :=
  match goal with |- context [peg_call grammar tbl (S (S ?f)) R_function_type AtNonAtomic false ?rest ?pos ?acc] =>
    rewrite (function_type_fail_head f rest pos acc eq_refl) end.

Ltac fuel3 f := destruct f as [|[|[|f]]]; [lia|lia|lia|].
Ltac yes := eexists _, _; split; [reflexivity | intros input; reflexivity].
Ltac ok_lit H :=
  match type of H with peg_rule_find tbl ?r = Some (Normal, PLit ?s) =>
    match goal with |- context [peg_call grammar tbl (S ?f) r AtNonAtomic false ?txt ?pos ?acc] =>
      match txt with
      | ?a ++ ?rest => change txt with (s ++ rest); rewrite (ok_lit_rule r s f rest pos acc H eq_refl)
      end end end.

(* the six one-word types *)
Lemma std_bool f rest pos acc : (3 <= f)%nat ->
  yields (callr f R_standard_types (s_bool ++ rest) pos acc) rest acc TBool.
Proof. intros Hf. fuel3 f. rewrite std_unfold. ok_lit find_bool_type. yes. Qed.

Lemma std_int f rest pos acc : (3 <= f)%nat ->
  yields (callr f R_standard_types (s_int ++ rest) pos acc) rest acc TInt.
Proof.
  intros Hf. fuel3 f. rewrite std_unfold. fail_lit find_bool_type. ok_lit find_int_type. yes.
Qed.

Lemma std_float f rest pos acc : (3 <= f)%nat ->
  yields (callr f R_standard_types (s_float ++ rest) pos acc) rest acc TFloat.
Proof.
  intros Hf. fuel3 f. rewrite std_unfold. fail_lit find_bool_type. fail_lit find_int_type.
  ok_lit find_float_type. yes.
Qed.

Lemma std_string f rest pos acc : (3 <= f)%nat ->
  yields (callr f R_standard_types (s_string ++ rest) pos acc) rest acc TString.
Proof.
  intros Hf. fuel3 f. rewrite std_unfold. fail_lit find_bool_type. fail_lit find_int_type.
  fail_lit find_float_type. ok_lit find_string_type. yes.
Qed.

Lemma std_any f rest pos acc : (3 <= f)%nat ->
  yields (callr f R_standard_types (s_any ++ rest) pos acc) rest acc TAny.
Proof.
  intros Hf. fuel3 f. rewrite std_unfold. fail_lit find_bool_type. fail_lit find_int_type.
  fail_lit find_float_type. fail_lit find_string_type. fail_fun. fail_lit find_void.
  fail_seq find_array_type. fail_seq find_tuple_type. ok_lit find_any. yes.
Qed.

Lemma std_never f rest pos acc : (3 <= f)%nat ->
  yields (callr f R_standard_types (s_never ++ rest) pos acc) rest acc TNever.
Proof.
  intros Hf. fuel3 f. rewrite std_unfold. fail_lit find_bool_type. fail_lit find_int_type.
  fail_lit find_float_type. fail_lit find_string_type. fail_fun. fail_lit find_void.
  fail_seq find_array_type. fail_seq find_tuple_type. fail_lit find_any. ok_lit find_never. yes.
Qed.

(* nothing of the type grammar starts with ')' or ']' *)
Lemma std_fail_close c rest f pos acc : (3 <= f)%nat -> c = 41 \/ c = 93 ->
  callr f R_standard_types (c :: rest) pos acc = PFail.
Proof.
  intros Hf Hc. fuel3 f. destruct find_struct_type_head as [b Hstruct].
  rewrite std_unfold.
  destruct Hc as [-> | ->];
    (fail_lit find_bool_type; fail_lit find_int_type; fail_lit find_float_type;
     fail_lit find_string_type; fail_fun; fail_lit find_void; fail_seq find_array_type;
     fail_seq find_tuple_type; fail_lit find_any; fail_lit find_never; fail_seq find_mut_type;
     fail_seq Hstruct; reflexivity).
Qed.

Lemma multi_unfold f rest pos acc :
  callr (S f) R_multi rest pos acc =
  match
    pres_bind (callr f R_standard_types rest pos [])
      (fun r1 p1 a1 => pres_bind (skipf f r1 p1 a1)
         (fun r2 p2 a2 =>
            peg_body grammar (peg_call grammar tbl f) f true AtNonAtomic
              (PPlus (PSeq (PLit [124]) (PCall R_standard_types))) false r2 p2 a2))
  with
  | POk rest' pos' kids => POk rest' pos' (Node R_multi pos pos' (rev' kids) :: acc)
  | x => x
  end.
Proof. rewrite peg_call_S. unfold call_step. rewrite find_multi. reflexivity. Qed.

Lemma type_unfold f rest pos acc :
  callr (S f) R_type rest pos acc =
  match callr f R_multi rest pos acc with
  | PFail => callr f R_standard_types rest pos acc
  | x => x
  end.
Proof. rewrite peg_call_S. unfold call_step. rewrite find_type. reflexivity. Qed.

Lemma type_fail_close c rest f pos acc : (5 <= f)%nat -> c = 41 \/ c = 93 ->
  callr f R_type (c :: rest) pos acc = PFail.
Proof.
  intros Hf Hc. destruct f as [|[|f]]; [lia|lia|].
  rewrite type_unfold, multi_unfold.
  rewrite !(std_fail_close c rest) by (lia || exact Hc). reflexivity.
Qed.

(* ---------------------------------------------------------------- lists of sub-parses *)
Definition tp_many (input : list Z) : list tree -> outcome (list ty) :=
  fix many (l : list tree) : outcome (list ty) :=
    match l with
    | [] => Ok []
    | k :: l' =>
        obind (tp_ty_of_tree input k) (fun t => obind (many l') (fun ts => Ok (t :: ts)))
    end.

Lemma many_conv trs ts : Forall2 conv trs ts -> forall input, tp_many input trs = Ok ts.
Proof.
  induction 1 as [|tr t trs ts Hc _ IH]; intros input; [reflexivity|].
  cbn [tp_many]. rewrite Hc. cbn [obind]. fold (tp_many input). rewrite IH. reflexivity.
Qed.

Section LoopY.
  Variable body : list Z -> nat -> list tree -> pres.

  Definition step_y (text tail : list Z) (t : ty) : Prop :=
    forall pos acc, exists pos' tr, body (text ++ tail) pos acc = POk tail pos' (tr :: acc) /\ conv tr t.

  Fixpoint ctext (cs : list (list Z * ty)) : list Z :=
    match cs with [] => [] | (tx, _) :: cs' => tx ++ ctext cs' end.

  Fixpoint cs_ok (cs : list (list Z * ty)) (rest : list Z) : Prop :=
    match cs with
    | [] => True
    | (tx, t) :: cs' => step_y tx (ctext cs' ++ rest) t /\ cs_ok cs' rest
    end.

  Lemma rep_loop_y cs : forall k rest pos acc,
    (length cs < k)%nat -> cs_ok cs rest ->
    (forall pos acc, body rest pos acc = PFail) ->
    exists pos' trs, peg_rep_loop k body (ctext cs ++ rest) pos acc = POk rest pos' (rev trs ++ acc)
                     /\ Forall2 conv trs (map snd cs).
  Proof.
    induction cs as [|[tx t] cs IH]; intros k rest pos acc Hk Hok Hend.
    - destruct k as [|k]; [cbn in Hk; lia|].
      exists pos, []. cbn [ctext app peg_rep_loop]. rewrite Hend. split; [reflexivity | constructor].
    - destruct k as [|k]; [cbn in Hk; lia|].
      destruct Hok as [Hstep Hok].
      cbn [ctext]. rewrite <- app_assoc. cbn [peg_rep_loop].
      destruct (Hstep pos acc) as (p1 & tr & -> & Hc).
      destruct (IH k rest p1 (tr :: acc)) as (p2 & trs & -> & Hcs); [cbn in Hk; lia | exact Hok | exact Hend |].
      exists p2, (tr :: trs). split.
      + cbn [rev]. rewrite <- app_assoc. reflexivity.
      + cbn [map snd]. constructor; assumption.
  Qed.
End LoopY.

(* equations of [peg_body] in a non-atomic rule, one constructor at a time *)
Notation bodyf f := (peg_body grammar (peg_call grammar tbl f) f true AtNonAtomic).

Lemma body_seq f a b rest pos acc :
  bodyf f (PSeq a b) false rest pos acc =
  pres_bind (bodyf f a false rest pos acc) (fun r1 p1 a1 =>
    pres_bind (skipf f r1 p1 a1) (fun r2 p2 a2 => bodyf f b false r2 p2 a2)).
Proof. reflexivity. Qed.

Lemma body_opt f a rest pos acc :
  bodyf f (POpt a) false rest pos acc =
  match bodyf f a false rest pos acc with PFail => POk rest pos acc | x => x end.
Proof. reflexivity. Qed.

Lemma body_choice f a b rest pos acc :
  bodyf f (PChoice a b) false rest pos acc =
  match bodyf f a false rest pos acc with PFail => bodyf f b false rest pos acc | x => x end.
Proof. reflexivity. Qed.

Lemma body_call f r rest pos acc : bodyf f (PCall r) false rest pos acc = callr f r rest pos acc.
Proof. reflexivity. Qed.

Lemma body_lit_ok f s rest pos acc :
  bodyf f (PLit s) false (s ++ rest) pos acc = POk rest (length s + pos) acc.
Proof. cbn [peg_body]. rewrite match_lit_app. reflexivity. Qed.

Lemma body_lit1 f c rest pos acc : bodyf f (PLit [c]) false (c :: rest) pos acc = POk rest (S pos) acc.
Proof. exact (body_lit_ok f [c] rest pos acc). Qed.

Lemma body_lit2 f c1 c2 rest pos acc :
  bodyf f (PLit [c1; c2]) false (c1 :: c2 :: rest) pos acc = POk rest (S (S pos)) acc.
Proof. exact (body_lit_ok f [c1; c2] rest pos acc). Qed.

Lemma body_lit3 f c1 c2 c3 rest pos acc :
  bodyf f (PLit [c1; c2; c3]) false (c1 :: c2 :: c3 :: rest) pos acc = POk rest (S (S (S pos))) acc.
Proof. exact (body_lit_ok f [c1; c2; c3] rest pos acc). Qed.

Lemma body_lit_fail f s rest pos acc : peg_match_lit s rest pos = None ->
  bodyf f (PLit s) false rest pos acc = PFail.
Proof. intros H. cbn [peg_body]. rewrite H. reflexivity. Qed.

(* e+ = e ~ e*, entered where no skip applies after the first e *)
Lemma body_plus f a rest pos acc :
  bodyf f (PPlus a) false rest pos acc =
  pres_bind (bodyf f a false rest pos acc) (fun r0 p0 a0 =>
    pres_bind (skipf f r0 p0 a0) (fun r0' p0' a0' =>
      match bodyf f a false r0' p0' a0' with
      | PFail => POk r0' p0' a0'
      | PFuel => PFuel
      | POk r1 p1 a1 =>
          peg_rep_loop f (fun r p ac => pres_bind (skipf f r p ac) (fun r2 p2 a2 => bodyf f a false r2 p2 a2))
                       r1 p1 a1
      end)).
Proof. reflexivity. Qed.

Lemma body_star f a rest pos acc :
  bodyf f (PStar a) false rest pos acc =
  match bodyf f a false rest pos acc with
  | PFail => POk rest pos acc
  | PFuel => PFuel
  | POk r1 p1 a1 =>
      peg_rep_loop f (fun r p ac => pres_bind (skipf f r p ac) (fun r2 p2 a2 => bodyf f a false r2 p2 a2))
                   r1 p1 a1
  end.
Proof. reflexivity. Qed.

(* a loop `(sep ~ X)*` / the tail of `(sep ~ X)+` entered where no skip applies *)
Definition sep_body (f : nat) (a : peg) : list Z -> nat -> list tree -> pres :=
  fun r p ac => pres_bind (skipf f r p ac) (fun r2 p2 a2 => bodyf f a false r2 p2 a2).

Lemma star_as_loop f a rest pos acc : (2 <= f)%nat -> head_ok rest = true ->
  bodyf f (PStar a) false rest pos acc = peg_rep_loop (S f) (sep_body f a) rest pos acc.
Proof.
  intros Hf Hh. rewrite body_star. cbn [peg_rep_loop]. unfold sep_body at 1.
  rewrite skip_none' by assumption. reflexivity.
Qed.

Lemma plus_as_loop f a rest pos acc :
  bodyf f (PPlus a) false rest pos acc =
  pres_bind (bodyf f a false rest pos acc) (fun r0 p0 a0 =>
    pres_bind (skipf f r0 p0 a0) (fun r0' p0' a0' =>
      match bodyf f a false r0' p0' a0' with
      | PFail => POk r0' p0' a0'
      | PFuel => PFuel
      | POk r1 p1 a1 => peg_rep_loop f (sep_body f a) r1 p1 a1
      end)).
Proof. reflexivity. Qed.

(* text after an item of a ", "-separated list: the remaining items, then [close] *)
Fixpoint comma_tail (items : list (list Z * ty)) (close : list Z) : list Z :=
  match items with
  | [] => close
  | (tx, _) :: more => 44 :: 32 :: tx ++ comma_tail more close
  end.

Definition parses_as (r : N) (f : nat) (text tail : list Z) (t : ty) : Prop :=
  forall pos acc, yields (callr f r (text ++ tail) pos acc) tail acc t.

Fixpoint items_ok (f : nat) (items : list (list Z * ty)) (close : list Z) : Prop :=
  match items with
  | [] => True
  | (tx, t) :: more =>
      parses_as R_type f tx (comma_tail more close) t /\ head_ok tx = true /\ items_ok f more close
  end.

(* the loop body of `("," ~ type)*` / `("," ~ type)+` in a non-atomic rule *)
Definition comma_body (f : nat) : list Z -> nat -> list tree -> pres :=
  sep_body f (PSeq (PLit [44]) (PCall R_type)).

Lemma body_lit_call f c R rest pos acc :
  peg_body grammar (peg_call grammar tbl f) f true AtNonAtomic (PSeq (PLit [c]) (PCall R)) false
           (c :: rest) pos acc =
  pres_bind (skipf f rest (S pos) acc) (fun r2 p2 a2 => callr f R r2 p2 a2).
Proof. cbn [peg_body peg_match_lit]. rewrite Z.eqb_refl. reflexivity. Qed.

Lemma body_lit_call_fail f c R d rest pos acc : c <> d ->
  peg_body grammar (peg_call grammar tbl f) f true AtNonAtomic (PSeq (PLit [c]) (PCall R)) false
           (d :: rest) pos acc = PFail.
Proof.
  intros H. cbn [peg_body peg_match_lit]. rewrite (proj2 (Z.eqb_neq c d) H). reflexivity.
Qed.

Lemma body_lit_call_nil f c R pos acc :
  peg_body grammar (peg_call grammar tbl f) f true AtNonAtomic (PSeq (PLit [c]) (PCall R)) false
           [] pos acc = PFail.
Proof. reflexivity. Qed.

Lemma comma_tail_chunks items close :
  comma_tail items close = ctext (map (fun it => (44 :: 32 :: fst it, snd it)) items) ++ close.
Proof.
  induction items as [|[tx t] more IH]; [reflexivity|].
  cbn [comma_tail map ctext fst snd]. rewrite IH. cbn [app]. rewrite <- app_assoc. reflexivity.
Qed.

Lemma head_ok_app tx tail : tx <> [] -> head_ok tx = true -> head_ok (tx ++ tail) = true.
Proof. destruct tx; [congruence | exact (fun _ H => H)]. Qed.

Lemma comma_items_cs_ok f items close : (3 <= f)%nat ->
  items_ok f items close -> (forall it, In it items -> fst it <> []) ->
  cs_ok (comma_body f) (map (fun it => (44 :: 32 :: fst it, snd it)) items) close.
Proof.
  intros Hf. fuel3 f.
  induction items as [|[tx t] more IH]; intros Hok Hne; [exact I|].
  destruct Hok as (Hp & Hh & Hok). cbn [map cs_ok fst snd]. split.
  - intros pos acc. unfold comma_body, sep_body. cbn [app].
    rewrite skip_none by reflexivity. cbn [pres_bind]. rewrite body_lit_call.
    rewrite skip_space
      by (apply head_ok_app; [apply (Hne (tx, t)); left; reflexivity | exact Hh]).
    cbn [pres_bind]. rewrite <- comma_tail_chunks.
    destruct (Hp (S (S pos)) acc) as (p' & tr & -> & Hc). eauto.
  - apply IH; [exact Hok | intros it Hin; apply Hne; right; exact Hin].
Qed.

Lemma comma_body_end f c rest pos acc : (2 <= f)%nat -> nows c = true -> c <> 44 ->
  comma_body f (c :: rest) pos acc = PFail.
Proof.
  intros Hf Hc H44. destruct f as [|[|f]]; [lia|lia|]. unfold comma_body, sep_body.
  rewrite skip_none by exact Hc. cbn [pres_bind]. apply body_lit_call_fail. congruence.
Qed.

(* ---------------------------------------------------------------- unfolding a rule call *)
Lemma call_normal_unfold r body f rest pos acc :
  peg_rule_find tbl r = Some (Normal, body) -> peg_is_skip_rule grammar r = false ->
  callr (S f) r rest pos acc =
  match peg_body grammar (peg_call grammar tbl f) f true AtNonAtomic body false rest pos [] with
  | POk rest' pos' kids => POk rest' pos' (Node r pos pos' (rev' kids) :: acc)
  | x => x
  end.
Proof. intros Hf Hs. rewrite peg_call_S. unfold call_step. rewrite Hf, Hs. reflexivity. Qed.

Lemma call_silent_unfold r body f rest pos acc :
  peg_rule_find tbl r = Some (Silent, body) -> peg_is_skip_rule grammar r = false ->
  callr (S f) r rest pos acc =
  peg_body grammar (peg_call grammar tbl f) f true AtNonAtomic body false rest pos acc.
Proof. intros Hf Hs. rewrite peg_call_S. unfold call_step. rewrite Hf, Hs. reflexivity. Qed.

Lemma rev'_rev {A} (l : list A) : rev' l = rev l.
Proof. unfold rev'. rewrite <- rev_alt. reflexivity. Qed.


Ltac sk := (rewrite skip_none' by (first [lia | reflexivity | assumption])); cbn [pres_bind].

(* the text of a ", "-separated list of items followed by [close] *)
Definition comma_text (items : list (list Z * ty)) (close : list Z) : list Z :=
  match items with
  | [] => close
  | (tx, _) :: more => tx ++ comma_tail more close
  end.

(* the optional item list of function_type_params, up to the closing parenthesis *)
Lemma opt_items f items rest : (5 <= f)%nat -> (length items <= f)%nat ->
  items_ok f items (41 :: rest) -> (forall it, In it items -> fst it <> []) ->
  forall pos acc,
  exists pos' trs,
    bodyf f (POpt (PSeq (PCall R_type) (PStar (PSeq (PLit [44]) (PCall R_type))))) false
      (comma_text items (41 :: rest)) pos acc =
    POk (41 :: rest) pos' (rev trs ++ acc) /\ Forall2 conv trs (map snd items).
Proof.
  intros Hf Hlen Hok Hne pos acc. rewrite body_opt, body_seq, body_call.
  destruct items as [|[tx t] more].
  - cbn [comma_text]. rewrite type_fail_close by (lia || auto). cbn [pres_bind].
    exists pos, []. split; [reflexivity | constructor].
  - destruct Hok as (Hp & Hh & Hok). cbn [comma_text].
    assert (Htx : tx <> []) by (apply (Hne (tx, t)); left; reflexivity).
    destruct (Hp pos acc) as (p1 & tr & -> & Hc). cbn [pres_bind].
    assert (Hh2 : head_ok (comma_tail more (41 :: rest)) = true) by (destruct more as [|[? ?] ?]; reflexivity).
    sk. rewrite star_as_loop by (lia || exact Hh2).
    rewrite comma_tail_chunks.
    destruct (rep_loop_y (comma_body f) (map (fun it => (44 :: 32 :: fst it, snd it)) more)
                (S f) (41 :: rest) p1 (tr :: acc)) as (p2 & trs & Heq & Hcs).
    + rewrite map_length. cbn [length] in Hlen. lia.
    + apply comma_items_cs_ok; [lia | exact Hok | intros it Hin; apply Hne; right; exact Hin].
    + intros p a. apply comma_body_end; [lia | reflexivity | discriminate].
    + unfold comma_body in Heq. rewrite Heq.
      exists p2, (tr :: trs). split.
      * cbn [rev]. rewrite <- app_assoc. reflexivity.
      * cbn [map snd]. constructor; [exact Hc|]. rewrite map_map in Hcs. exact Hcs.
Qed.

Lemma params_rule f items rest : (6 <= f)%nat -> (length items < f)%nat ->
  items_ok (f - 1) items (41 :: rest) -> (forall it, In it items -> fst it <> []) ->
  forall pos acc,
  exists pos' trs,
    callr f R_function_type_params (40 :: comma_text items (41 :: rest)) pos acc =
    POk rest pos' (Node R_function_type_params pos pos' trs :: acc) /\
    Forall2 conv trs (map snd items).
Proof.
  intros Hf Hlen Hok Hne pos acc. destruct f as [|f]; [lia|].
  replace (S f - 1)%nat with f in Hok by lia.
  rewrite (call_normal_unfold _ _ _ _ _ _ find_function_type_params eq_refl).
  rewrite body_seq, body_lit1. cbn [pres_bind].
  assert (Hh : head_ok (comma_text items (41 :: rest)) = true).
  { destruct items as [|[tx t] more]; [reflexivity|]. cbn [comma_text].
    destruct Hok as (_ & Hh & _). apply head_ok_app; [apply (Hne (tx, t)); left; reflexivity | exact Hh]. }
  sk. rewrite body_seq.
  destruct (opt_items f items rest ltac:(lia) ltac:(lia) Hok Hne (S pos) []) as (p1 & trs & -> & Hcs).
  cbn [pres_bind]. sk. rewrite body_lit1.
  eexists _, _. split; [reflexivity|].
  rewrite rev'_rev, app_nil_r, rev_involutive. exact Hcs.
Qed.

(* ---------------------------------------------------------------- trees to types *)
Lemma conv_fun s e s1 e1 ptrs rt ps r :
  Forall2 conv ptrs ps -> conv rt r ->
  conv (Node R_function_type s e [Node R_function_type_params s1 e1 ptrs; rt]) (TFun ps r).
Proof.
  intros Hps Hr input.
  change (tp_ty_of_tree input (Node R_function_type s e [Node R_function_type_params s1 e1 ptrs; rt]))
    with (obind (tp_many input ptrs) (fun ps => obind (tp_ty_of_tree input rt) (fun r => Ok (TFun ps r)))).
  rewrite (many_conv _ _ Hps), Hr. reflexivity.
Qed.

Lemma conv_arr_never s e : conv (Node R_array_type s e []) (TArr TNever).
Proof. intros input. reflexivity. Qed.

Lemma conv_arr s e tr t : conv tr t -> conv (Node R_array_type s e [tr]) (TArr t).
Proof.
  intros H input.
  change (tp_ty_of_tree input (Node R_array_type s e [tr]))
    with (obind (tp_ty_of_tree input tr) (fun e => Ok (TArr e))).
  rewrite H. reflexivity.
Qed.

Lemma conv_mut s e tr t : conv tr t -> conv (Node R_mut_type s e [tr]) (TMut t).
Proof.
  intros H input.
  change (tp_ty_of_tree input (Node R_mut_type s e [tr]))
    with (obind (tp_ty_of_tree input tr) (fun e => Ok (TMut e))).
  rewrite H. reflexivity.
Qed.

Lemma conv_tup s e trs ts : Forall2 conv trs ts -> conv (Node R_tuple_type s e trs) (TTup ts).
Proof.
  intros H input.
  change (tp_ty_of_tree input (Node R_tuple_type s e trs))
    with (obind (tp_many input trs) (fun ts => Ok (TTup ts))).
  rewrite (many_conv _ _ H). reflexivity.
Qed.

Lemma conv_multi s e trs ts t : Forall2 conv trs ts -> concat_all ts = Some t ->
  conv (Node R_multi s e trs) t.
Proof.
  intros H Hc input.
  change (tp_ty_of_tree input (Node R_multi s e trs))
    with (obind (tp_many input trs) (fun ts => match concat_all ts with Some t => Ok t | None => Panic end)).
  rewrite (many_conv _ _ H). cbn [obind]. rewrite Hc. reflexivity.
Qed.

(* ---------------------------------------------------------------- what may follow a type *)
Definition follow_s (rest : list Z) : bool :=
  match rest with [] => true | c :: _ => nows c && negb (c =? 45) end.
Definition follow_t (rest : list Z) : bool :=
  match rest with [] => true | c :: _ => nows c && negb (c =? 45) && negb (c =? 124) end.

Lemma follow_s_head rest : follow_s rest = true -> head_ok rest = true.
Proof. destruct rest as [|c r]; [reflexivity|]. cbn. intros H. apply andb_prop in H. tauto. Qed.

Lemma follow_s_arrow rest pos : follow_s rest = true -> peg_match_lit [45; 62] rest pos = None.
Proof.
  destruct rest as [|c r]; [reflexivity|]. cbn -[Z.eqb]. intros H. apply andb_prop in H.
  destruct H as [_ H]. apply negb_true_iff in H. rewrite Z.eqb_sym, H. reflexivity.
Qed.

Lemma follow_t_s rest : follow_t rest = true -> follow_s rest = true.
Proof. destruct rest as [|c r]; [reflexivity|]. cbn -[Z.eqb]. intros H. apply andb_prop in H. tauto. Qed.

Lemma follow_t_bar rest pos : follow_t rest = true -> peg_match_lit [124] rest pos = None.
Proof.
  destruct rest as [|c r]; [reflexivity|]. cbn -[Z.eqb]. intros H. apply andb_prop in H.
  destruct H as [_ H]. apply negb_true_iff in H. rewrite Z.eqb_sym, H. reflexivity.
Qed.

(* ---------------------------------------------------------------- return_type *)
Lemma ret_plain f text rest t :
  parses_as R_standard_types f text rest t -> parses_as R_return_type (S f) text rest t.
Proof.
  intros H pos acc. rewrite (call_silent_unfold _ _ _ _ _ _ find_return_type eq_refl).
  rewrite body_choice, body_call. destruct (H pos acc) as (p & tr & -> & Hc).
  eexists _, _. split; [reflexivity | exact Hc].
Qed.

(* function_type on "(" items ")" that is not followed by "->" *)
Lemma function_type_no_arrow f items rest pos acc : (7 <= f)%nat -> (S (length items) < f)%nat ->
  items_ok (f - 2) items (41 :: rest) -> (forall it, In it items -> fst it <> []) ->
  follow_s rest = true ->
  callr f R_function_type (40 :: comma_text items (41 :: rest)) pos acc = PFail.
Proof.
  intros Hf Hlen Hok Hne Hfol. destruct f as [|f]; [lia|].
  rewrite (call_normal_unfold _ _ _ _ _ _ find_function_type eq_refl).
  rewrite body_seq, body_call.
  replace (S f - 2)%nat with (f - 1)%nat in Hok by lia.
  destruct (params_rule f items rest ltac:(lia) ltac:(lia) Hok Hne pos []) as (p1 & trs & -> & _).
  cbn [pres_bind]. rewrite skip_none' by (lia || apply follow_s_head, Hfol). cbn [pres_bind].
  rewrite body_seq, body_lit_fail by (apply follow_s_arrow, Hfol). reflexivity.
Qed.

(* tuple_type on "(" one-item ")" *)
Lemma tuple_type_single f tx t rest pos acc : (5 <= f)%nat ->
  parses_as R_type (f - 1) tx (41 :: rest) t -> tx <> [] -> head_ok tx = true ->
  callr f R_tuple_type (40 :: tx ++ 41 :: rest) pos acc = PFail.
Proof.
  intros Hf Hp Hne Hh. destruct f as [|f]; [lia|]. replace (S f - 1)%nat with f in Hp by lia.
  rewrite (call_normal_unfold _ _ _ _ _ _ find_tuple_type eq_refl).
  rewrite body_seq, body_lit1. cbn [pres_bind].
  rewrite skip_none' by (lia || apply head_ok_app; assumption). cbn [pres_bind].
  rewrite body_seq, body_call. destruct (Hp (S pos) []) as (p1 & tr & -> & _).
  cbn [pres_bind]. sk. rewrite body_seq, plus_as_loop.
  rewrite body_lit_call_fail by discriminate. reflexivity.
Qed.

(* standard_types refuses "(" multi ")": what return_type's second alternative is for *)
Lemma std_fail_paren f k mtext tm rest pos acc : (9 <= f)%nat -> (k + 3 <= f)%nat ->
  (forall f', (k <= f')%nat -> parses_as R_type f' mtext (41 :: rest) tm) ->
  (exists c s, mtext = c :: s /\ c <> 41 /\ nows c = true) ->
  follow_s rest = true ->
  callr f R_standard_types (40 :: mtext ++ 41 :: rest) pos acc = PFail.
Proof.
  intros Hf Hk HT (c & s & -> & Hc41 & Hcw) Hfol. destruct f as [|f]; [lia|].
  destruct find_struct_type_head as [b Hstruct].
  rewrite std_unfold. destruct f as [|[|f]]; [lia|lia|].
  fail_lit find_bool_type. fail_lit find_int_type. fail_lit find_float_type. fail_lit find_string_type.
  rewrite (function_type_no_arrow (S (S f)) [(c :: s, tm)] rest); cycle 1.
  { lia. } { cbn [length]. lia. }
  { cbn [items_ok comma_tail]. split; [apply HT; lia | split; [exact Hcw | exact I]]. }
  { intros it [<-|[]]. discriminate. }
  { exact Hfol. }
  assert (Hvoid : peg_match_lit [40; 41] (40 :: (c :: s) ++ 41 :: rest) pos = None).
  { cbn -[Z.eqb]. rewrite Z.eqb_refl. rewrite (proj2 (Z.eqb_neq 41 c)) by congruence. reflexivity. }
  rewrite (fail_lit_rule _ _ _ _ _ _ _ find_void Hvoid).
  fail_seq find_array_type.
  rewrite (tuple_type_single (S (S f)) (c :: s) tm rest) by (lia || (apply HT; lia) || discriminate || exact Hcw).
  fail_lit find_any. fail_lit find_never. fail_seq find_mut_type. fail_seq Hstruct. reflexivity.
Qed.

Lemma ret_paren f k mtext tm rest : (10 <= f)%nat -> (k + 4 <= f)%nat ->
  (forall f', (k <= f')%nat -> parses_as R_type f' mtext (41 :: rest) tm) ->
  parses_as R_multi (f - 1) mtext (41 :: rest) tm ->
  (exists c s, mtext = c :: s /\ c <> 41 /\ nows c = true) ->
  follow_s rest = true ->
  forall pos acc, yields (callr f R_return_type (40 :: mtext ++ 41 :: rest) pos acc) rest acc tm.
Proof.
  intros Hf Hk HT HM Hhead Hfol pos acc.
  destruct f as [|f]; [lia|]. replace (S f - 1)%nat with f in HM by lia.
  rewrite (call_silent_unfold _ _ _ _ _ _ find_return_type eq_refl).
  rewrite body_choice, body_call.
  rewrite (std_fail_paren f k mtext tm rest) by (lia || assumption).
  rewrite body_seq, body_lit1. cbn [pres_bind].
  destruct Hhead as (c & s & -> & Hc41 & Hcw).
  rewrite skip_none' by (lia || exact Hcw). cbn [pres_bind].
  rewrite body_seq, body_call. destruct (HM (S pos) acc) as (p1 & tr & -> & Hc).
  cbn [pres_bind]. sk. rewrite body_lit1.
  eexists _, _. split; [reflexivity | exact Hc].
Qed.

(* ---------------------------------------------------------------- function_type *)
(* "(" items ")->" result ; [rtext] is the printed result (parenthesised or not) *)
Lemma function_type_rule f items rtext r rest : (7 <= f)%nat -> (S (length items) < f)%nat ->
  items_ok (f - 2) items (41 :: 45 :: 62 :: rtext ++ rest) -> (forall it, In it items -> fst it <> []) ->
  (forall pos acc, yields (callr (f - 1) R_return_type (rtext ++ rest) pos acc) rest acc r) ->
  head_ok (rtext ++ rest) = true ->
  forall pos acc,
  yields (callr f R_function_type (40 :: comma_text items (41 :: 45 :: 62 :: rtext ++ rest)) pos acc)
         rest acc (TFun (map snd items) r).
Proof.
  intros Hf Hlen Hok Hne Hret Hh pos acc. destruct f as [|f]; [lia|].
  replace (S f - 1)%nat with f in Hret by lia.
  replace (S f - 2)%nat with (f - 1)%nat in Hok by lia.
  rewrite (call_normal_unfold _ _ _ _ _ _ find_function_type eq_refl).
  rewrite body_seq, body_call.
  destruct (params_rule f items (45 :: 62 :: rtext ++ rest) ltac:(lia) ltac:(lia) Hok Hne pos [])
    as (p1 & trs & -> & Hcs).
  cbn [pres_bind]. sk. rewrite body_seq.
  rewrite body_lit2. cbn [pres_bind].
  rewrite skip_none' by (lia || exact Hh). cbn [pres_bind]. rewrite body_call.
  destruct (Hret (S (S p1)) [Node R_function_type_params pos p1 trs]) as (p2 & tr & -> & Hc).
  eexists _, _. split; [reflexivity|]. apply conv_fun; assumption.
Qed.

(* standard_types on a function type *)
Lemma std_fun f text rest t : (3 <= f)%nat ->
  (forall pos acc, yields (callr (f - 1) R_function_type (40 :: text) pos acc) rest acc t) ->
  forall pos acc, yields (callr f R_standard_types (40 :: text) pos acc) rest acc t.
Proof.
  intros Hf H pos acc. fuel3 f. replace (S (S (S f)) - 1)%nat with (S (S f)) in H by lia.
  rewrite std_unfold.
  fail_lit find_bool_type. fail_lit find_int_type. fail_lit find_float_type. fail_lit find_string_type.
  destruct (H pos acc) as (p & tr & -> & Hc). eexists _, _. split; [reflexivity | exact Hc].
Qed.

(* standard_types on "()" *)
Lemma std_void f rest pos acc : (9 <= f)%nat -> follow_s rest = true ->
  yields (callr f R_standard_types (s_void ++ rest) pos acc) rest acc TVoid.
Proof.
  intros Hf Hfol. destruct f as [|f]; [lia|]. rewrite std_unfold.
  destruct f as [|[|f]]; [lia|lia|].
  fail_lit find_bool_type. fail_lit find_int_type. fail_lit find_float_type. fail_lit find_string_type.
  change (s_void ++ rest) with (40 :: comma_text [] (41 :: rest)).
  rewrite (function_type_no_arrow (S (S f)) [] rest) by (lia || (cbn; lia) || exact I || (intros ? []) || exact Hfol).
  change (40 :: comma_text [] (41 :: rest)) with ([40; 41] ++ rest).
  ok_lit find_void. yes.
Qed.

(* standard_types on "[" element? "]" *)
Lemma std_arr_never f rest pos acc : (9 <= f)%nat ->
  yields (callr f R_standard_types (91 :: 93 :: rest) pos acc) rest acc (TArr TNever).
Proof.
  intros Hf. destruct f as [|f]; [lia|]. rewrite std_unfold. destruct f as [|[|f]]; [lia|lia|].
  fail_lit find_bool_type. fail_lit find_int_type. fail_lit find_float_type. fail_lit find_string_type.
  fail_fun. fail_lit find_void.
  rewrite (call_normal_unfold _ _ _ _ _ _ find_array_type eq_refl).
  rewrite body_seq, body_lit1. cbn [pres_bind]. sk.
  rewrite body_seq, body_opt, body_call. rewrite type_fail_close by (lia || auto).
  cbn [pres_bind]. sk. rewrite body_lit1.
  eexists _, _. split; [reflexivity | apply conv_arr_never].
Qed.

Lemma std_arr f etext e rest : (9 <= f)%nat ->
  parses_as R_type (f - 2) etext (93 :: rest) e -> etext <> [] -> head_ok etext = true ->
  forall pos acc, yields (callr f R_standard_types (91 :: etext ++ 93 :: rest) pos acc) rest acc (TArr e).
Proof.
  intros Hf He Hne Hh pos acc. destruct f as [|f]; [lia|]. rewrite std_unfold.
  destruct f as [|[|f]]; [lia|lia|]. replace (S (S (S f)) - 2)%nat with (S f) in He by lia.
  fail_lit find_bool_type. fail_lit find_int_type. fail_lit find_float_type. fail_lit find_string_type.
  fail_fun. fail_lit find_void.
  rewrite (call_normal_unfold _ _ _ _ _ _ find_array_type eq_refl).
  rewrite body_seq, body_lit1. cbn [pres_bind].
  rewrite skip_none' by (lia || apply head_ok_app; assumption). cbn [pres_bind].
  rewrite body_seq, body_opt, body_call.
  destruct (He (S pos) []) as (p1 & tr & -> & Hc). cbn [pres_bind]. sk. rewrite body_lit1.
  eexists _, _. split; [reflexivity | apply conv_arr, Hc].
Qed.

(* standard_types on "mut " content *)
Lemma std_mut f rtext r rest : (6 <= f)%nat ->
  (forall pos acc, yields (callr (f - 2) R_return_type (rtext ++ rest) pos acc) rest acc r) ->
  head_ok (rtext ++ rest) = true ->
  forall pos acc, yields (callr f R_standard_types (s_mut ++ rtext ++ rest) pos acc) rest acc (TMut r).
Proof.
  intros Hf Hr Hh pos acc. destruct f as [|f]; [lia|]. rewrite std_unfold.
  destruct f as [|[|f]]; [lia|lia|]. replace (S (S (S f)) - 2)%nat with (S f) in Hr by lia.
  cbn [s_mut app].
  fail_lit find_bool_type. fail_lit find_int_type. fail_lit find_float_type. fail_lit find_string_type.
  fail_fun. fail_lit find_void. fail_seq find_array_type. fail_seq find_tuple_type.
  fail_lit find_any. fail_lit find_never.
  rewrite (call_normal_unfold _ _ _ _ _ _ find_mut_type eq_refl).
  rewrite body_seq, body_lit3. cbn [pres_bind].
  rewrite skip_space' by (lia || exact Hh). cbn [pres_bind]. rewrite body_call.
  destruct (Hr (S (S (S (S pos)))) []) as (p1 & tr & -> & Hc).
  eexists _, _. split; [reflexivity | apply conv_mut, Hc].
Qed.

(* ---------------------------------------------------------------- loops entered without a skip *)
Lemma sep_body_noskip f a rest pos acc : (2 <= f)%nat -> head_ok rest = true ->
  bodyf f a false rest pos acc = sep_body f a rest pos acc.
Proof. intros Hf Hh. unfold sep_body. rewrite skip_none' by assumption. reflexivity. Qed.

Lemma loop_unfold_noskip f a rest pos acc : (2 <= f)%nat -> head_ok rest = true ->
  match bodyf f a false rest pos acc with
  | PFail => POk rest pos acc
  | PFuel => PFuel
  | POk r1 p1 a1 => peg_rep_loop f (sep_body f a) r1 p1 a1
  end = peg_rep_loop (S f) (sep_body f a) rest pos acc.
Proof.
  intros Hf Hh. cbn [peg_rep_loop]. rewrite <- (sep_body_noskip f a rest pos acc Hf Hh). reflexivity.
Qed.

(* ---------------------------------------------------------------- tuple_type *)
Lemma comma_tail_head more close : head_ok close = true -> head_ok (comma_tail more close) = true.
Proof. destruct more as [|[? ?] ?]; [exact (fun H => H) | reflexivity]. Qed.

Lemma tuple_type_rule f tx1 t1 tx2 t2 more rest : (7 <= f)%nat -> (S (S (length more)) < f)%nat ->
  items_ok (f - 1) ((tx1, t1) :: (tx2, t2) :: more) (41 :: rest) ->
  (forall it, In it ((tx1, t1) :: (tx2, t2) :: more) -> fst it <> []) ->
  forall pos acc,
  yields (callr f R_tuple_type (40 :: comma_text ((tx1, t1) :: (tx2, t2) :: more) (41 :: rest)) pos acc)
         rest acc (TTup (t1 :: t2 :: map snd more)).
Proof.
  intros Hf Hlen Hok Hne pos acc. destruct f as [|f]; [lia|].
  replace (S f - 1)%nat with f in Hok by lia.
  destruct Hok as (Hp1 & Hh1 & Hok).
  assert (Hne1 : tx1 <> []) by (apply (Hne (tx1, t1)); left; reflexivity).
  rewrite (call_normal_unfold _ _ _ _ _ _ find_tuple_type eq_refl).
  rewrite body_seq, body_lit1. cbn [pres_bind comma_text].
  rewrite skip_none' by (lia || apply head_ok_app; assumption). cbn [pres_bind].
  rewrite body_seq, body_call. destruct (Hp1 (S pos) []) as (p1 & tr1 & -> & Hc1).
  cbn [pres_bind]. sk. rewrite body_seq, plus_as_loop.
  pose proof (comma_items_cs_ok f ((tx2, t2) :: more) (41 :: rest) ltac:(lia) Hok
                ltac:(intros it Hin; apply Hne; right; exact Hin)) as Hcs.
  cbn [map cs_ok fst snd] in Hcs. destruct Hcs as [Hstep Hcs].
  cbn [comma_tail]. rewrite (sep_body_noskip f) by (lia || reflexivity).
  rewrite comma_tail_chunks.
  destruct (Hstep p1 [tr1]) as (p2 & tr2 & Heq & Hc2). unfold comma_body in Heq.
  cbn [app] in Heq. rewrite Heq. clear Heq. cbn [pres_bind].
  assert (Hh3 : head_ok (ctext (map (fun it => (44 :: 32 :: fst it, snd it)) more) ++ 41 :: rest) = true).
  { rewrite <- comma_tail_chunks. apply comma_tail_head. reflexivity. }
  rewrite skip_none' by (lia || exact Hh3). cbn [pres_bind].
  rewrite loop_unfold_noskip by (lia || exact Hh3).
  destruct (rep_loop_y (comma_body f) (map (fun it => (44 :: 32 :: fst it, snd it)) more)
              (S f) (41 :: rest) p2 [tr2; tr1]) as (p3 & trs & Heq & Hcs').
  - rewrite map_length. lia.
  - exact Hcs.
  - intros p a. apply comma_body_end; [lia | reflexivity | discriminate].
  - unfold comma_body in Heq. rewrite Heq. clear Heq. cbn [pres_bind]. sk. rewrite body_lit1.
    eexists _, _. split; [reflexivity|]. apply conv_tup.
    rewrite rev'_rev, rev_app_distr, rev_involutive. cbn [rev app].
    constructor; [exact Hc1|]. constructor; [exact Hc2|].
    rewrite map_map in Hcs'. exact Hcs'.
Qed.

Lemma std_tuple f tx1 t1 tx2 t2 more rest : (10 <= f)%nat -> (S (S (S (S (length more)))) < f)%nat ->
  (forall f', (f - 3 <= f')%nat -> items_ok f' ((tx1, t1) :: (tx2, t2) :: more) (41 :: rest)) ->
  (forall it, In it ((tx1, t1) :: (tx2, t2) :: more) -> fst it <> []) ->
  (exists c s, tx1 = c :: s /\ c <> 41) ->
  follow_s rest = true ->
  forall pos acc,
  yields (callr f R_standard_types (40 :: comma_text ((tx1, t1) :: (tx2, t2) :: more) (41 :: rest)) pos acc)
         rest acc (TTup (t1 :: t2 :: map snd more)).
Proof.
  intros Hf Hlen Hok Hne (c & s & -> & Hc41) Hfol pos acc.
  destruct f as [|f]; [lia|]. rewrite std_unfold. destruct f as [|[|f]]; [lia|lia|].
  fail_lit find_bool_type. fail_lit find_int_type. fail_lit find_float_type. fail_lit find_string_type.
  rewrite (function_type_no_arrow (S (S f))) by
    (lia || (cbn [length]; lia) || (apply Hok; lia) || exact Hne || exact Hfol).
  assert (Hvoid : peg_match_lit [40; 41]
            (40 :: comma_text ((c :: s, t1) :: (tx2, t2) :: more) (41 :: rest)) pos = None).
  { cbn -[Z.eqb]. rewrite Z.eqb_refl. rewrite (proj2 (Z.eqb_neq 41 c)) by congruence. reflexivity. }
  rewrite (fail_lit_rule _ _ _ _ _ _ _ find_void Hvoid).
  fail_seq find_array_type.
  destruct (tuple_type_rule (S (S f)) (c :: s) t1 tx2 t2 more rest ltac:(lia) ltac:(lia)
              ltac:(apply Hok; lia) Hne pos acc) as (p & tr & -> & Hc).
  eexists _, _. split; [reflexivity | exact Hc].
Qed.

(* ---------------------------------------------------------------- multi *)
Fixpoint bar_tail (items : list (list Z * ty)) (rest : list Z) : list Z :=
  match items with
  | [] => rest
  | (tx, _) :: more => 124 :: tx ++ bar_tail more rest
  end.

Fixpoint bitems_ok (f : nat) (items : list (list Z * ty)) (rest : list Z) : Prop :=
  match items with
  | [] => True
  | (tx, t) :: more =>
      parses_as R_standard_types f tx (bar_tail more rest) t /\ head_ok tx = true /\ bitems_ok f more rest
  end.

Definition bar_body (f : nat) : list Z -> nat -> list tree -> pres :=
  sep_body f (PSeq (PLit [124]) (PCall R_standard_types)).

Lemma bar_tail_chunks items rest :
  bar_tail items rest = ctext (map (fun it => (124 :: fst it, snd it)) items) ++ rest.
Proof.
  induction items as [|[tx t] more IH]; [reflexivity|].
  cbn [bar_tail map ctext fst snd]. rewrite IH. cbn [app]. rewrite <- app_assoc. reflexivity.
Qed.

Lemma bar_items_cs_ok f items rest : (2 <= f)%nat ->
  bitems_ok f items rest -> (forall it, In it items -> fst it <> []) ->
  cs_ok (bar_body f) (map (fun it => (124 :: fst it, snd it)) items) rest.
Proof.
  intros Hf.
  induction items as [|[tx t] more IH]; intros Hok Hne; [exact I|].
  destruct Hok as (Hp & Hh & Hok). cbn [map cs_ok fst snd]. split.
  - intros pos acc. unfold bar_body, sep_body. cbn [app].
    rewrite skip_none' by (lia || reflexivity). cbn [pres_bind]. rewrite body_lit_call.
    rewrite skip_none'
      by (lia || (apply head_ok_app; [apply (Hne (tx, t)); left; reflexivity | exact Hh])).
    cbn [pres_bind]. rewrite <- bar_tail_chunks.
    destruct (Hp (S pos) acc) as (p' & tr & -> & Hc). eauto.
  - apply IH; [exact Hok | intros it Hin; apply Hne; right; exact Hin].
Qed.

Lemma bar_body_end f rest pos acc : (2 <= f)%nat -> follow_t rest = true ->
  bar_body f rest pos acc = PFail.
Proof.
  intros Hf Hfol. unfold bar_body, sep_body.
  rewrite skip_none' by (lia || apply follow_s_head, follow_t_s, Hfol). cbn [pres_bind].
  destruct rest as [|c r]; [apply body_lit_call_nil|].
  apply body_lit_call_fail. intros <-. cbn in Hfol. discriminate Hfol.
Qed.

Lemma bar_tail_head more rest : head_ok rest = true -> head_ok (bar_tail more rest) = true.
Proof. destruct more as [|[? ?] ?]; [exact (fun H => H) | reflexivity]. Qed.

Lemma multi_rule f tx1 t1 tx2 t2 more rest t : (4 <= f)%nat -> (S (S (length more)) < f)%nat ->
  bitems_ok (f - 1) ((tx1, t1) :: (tx2, t2) :: more) rest ->
  (forall it, In it ((tx1, t1) :: (tx2, t2) :: more) -> fst it <> []) ->
  concat_all (t1 :: t2 :: map snd more) = Some t ->
  follow_t rest = true ->
  forall pos acc,
  yields (callr f R_multi (tx1 ++ bar_tail ((tx2, t2) :: more) rest) pos acc) rest acc t.
Proof.
  intros Hf Hlen Hok Hne Hcat Hfol pos acc. destruct f as [|f]; [lia|].
  replace (S f - 1)%nat with f in Hok by lia.
  destruct Hok as (Hp1 & Hh1 & Hok).
  rewrite (call_normal_unfold _ _ _ _ _ _ find_multi eq_refl).
  rewrite body_seq, body_call. destruct (Hp1 pos []) as (p1 & tr1 & -> & Hc1).
  cbn [pres_bind]. sk. rewrite plus_as_loop.
  pose proof (bar_items_cs_ok f ((tx2, t2) :: more) rest ltac:(lia) Hok
                ltac:(intros it Hin; apply Hne; right; exact Hin)) as Hcs.
  cbn [map cs_ok fst snd] in Hcs. destruct Hcs as [Hstep Hcs].
  cbn [bar_tail]. rewrite (sep_body_noskip f) by (lia || reflexivity).
  rewrite bar_tail_chunks.
  destruct (Hstep p1 [tr1]) as (p2 & tr2 & Heq & Hc2). unfold bar_body in Heq.
  cbn [app] in Heq. rewrite Heq. clear Heq. cbn [pres_bind].
  assert (Hh3 : head_ok (ctext (map (fun it => (124 :: fst it, snd it)) more) ++ rest) = true).
  { rewrite <- bar_tail_chunks. apply bar_tail_head, follow_s_head, follow_t_s, Hfol. }
  rewrite skip_none' by (lia || exact Hh3). cbn [pres_bind].
  rewrite loop_unfold_noskip by (lia || exact Hh3).
  destruct (rep_loop_y (bar_body f) (map (fun it => (124 :: fst it, snd it)) more)
              (S f) rest p2 [tr2; tr1]) as (p3 & trs & Heq & Hcs').
  - rewrite map_length. lia.
  - exact Hcs.
  - intros p a. apply bar_body_end; [lia | exact Hfol].
  - unfold bar_body in Heq. rewrite Heq. clear Heq.
    eexists _, _. split; [reflexivity|].
    apply conv_multi with (ts := t1 :: t2 :: map snd more); [|exact Hcat].
    rewrite rev'_rev, rev_app_distr, rev_involutive. cbn [rev app].
    constructor; [exact Hc1|]. constructor; [exact Hc2|].
    rewrite map_map in Hcs'. exact Hcs'.
Qed.

(* multi refuses a single member *)
Lemma multi_fail f text t rest pos acc : (4 <= f)%nat ->
  parses_as R_standard_types (f - 1) text rest t -> follow_t rest = true ->
  callr f R_multi (text ++ rest) pos acc = PFail.
Proof.
  intros Hf Hp Hfol. destruct f as [|f]; [lia|]. replace (S f - 1)%nat with f in Hp by lia.
  rewrite (call_normal_unfold _ _ _ _ _ _ find_multi eq_refl).
  rewrite body_seq, body_call. destruct (Hp pos []) as (p1 & tr & -> & _). cbn [pres_bind].
  rewrite skip_none' by (lia || apply follow_s_head, follow_t_s, Hfol). cbn [pres_bind].
  rewrite plus_as_loop.
  destruct rest as [|c r]; [rewrite body_lit_call_nil; reflexivity|].
  rewrite body_lit_call_fail; [reflexivity|].
  intros <-. cbn in Hfol. discriminate Hfol.
Qed.

(* ---------------------------------------------------------------- type *)
Lemma type_plain f text t rest : (5 <= f)%nat ->
  parses_as R_standard_types (f - 1) text rest t -> parses_as R_standard_types (f - 2) text rest t ->
  follow_t rest = true ->
  forall pos acc, yields (callr f R_type (text ++ rest) pos acc) rest acc t.
Proof.
  intros Hf H1 H2 Hfol pos acc. destruct f as [|f]; [lia|].
  replace (S f - 1)%nat with f in H1 by lia. replace (S f - 2)%nat with (f - 1)%nat in H2 by lia.
  rewrite type_unfold. rewrite (multi_fail f text t rest) by (lia || assumption).
  exact (H1 pos acc).
Qed.

Lemma type_multi f text t rest : (1 <= f)%nat ->
  parses_as R_multi (f - 1) text rest t ->
  forall pos acc, yields (callr f R_type (text ++ rest) pos acc) rest acc t.
Proof.
  intros Hf H pos acc. destruct f as [|f]; [lia|]. replace (S f - 1)%nat with f in H by lia.
  rewrite type_unfold. destruct (H pos acc) as (p & tr & -> & Hc).
  eexists _, _. split; [reflexivity | exact Hc].
Qed.

(* RecrMain.v — semantic preservation of [recreate]: the theorems, for instructions in
   expression position, lines, line lists (block bodies) and whole programs (the
   statement list [Code::exec] runs), parameterised by the two closure-creation cases.
   Instantiated here for the closure-free fragment (cl = false).

   Fuel: folding only removes evaluation steps.  The theorems say: for EVERY fuel n, if
   the un-folded instruction finishes with fuel n (result not SFuel) without a panic,
   the folded instruction finishes with the same fuel n and literally the same result. *)
From SSL.Model Require Import Base Ty Float Value Ops Seq Syntax Rt Recreate Exec Check Top.
From SSL.Lemmas Require Import ExecLemmas FoldLemmas RecrUnfold RecrMono RecrDefs RecrKeeps RecrSim1 RecrSim2.

Arguments matches : simpl never.

Section Main.
Variable powf : fbits -> fbits -> fbits.
Variable pre : prelude.
Variable cl : bool.
Notation E := (exec powf pre).
Notation RC f := (recreate powf f []).

Hypothesis anonfn_case : forall f, rexpr powf pre cl f -> rline powf pre cl f -> forall e ps body ret i' e',
  RC (S f) e (IAnonFn ps body ret) = Ok (i', e') ->
  cl = true -> forallb (wfi cl true) body = true -> dok i' = true ->
  e' = e /\ noconst i' /\ simE powf pre e (IAnonFn ps body ret) i'.

Hypothesis fndecl_case : forall f, rexpr powf pre cl f -> rline powf pre cl f -> forall e nm ps body ret i' e',
  RC (S f) e (IFnDecl nm ps body ret) = Ok (i', e') ->
  cl = true -> forallb (wfi cl true) body = true -> dok i' = true ->
  simE powf pre e (IFnDecl nm ps body ret) i' /\
  forall sc, agree e sc -> post powf pre e' sc (IFnDecl nm ps body ret).

Theorem sim_expr f e i i' e' :
  RC f e i = Ok (i', e') -> wfi cl false i = true -> dok i' = true ->
  e' = e /\
  forall sc, agree e sc -> forall n st, okr (E n st sc i) -> E n st sc i' = E n st sc i.
Proof.
  intros H W D. destruct (proj1 (rall powf pre cl anonfn_case fndecl_case f) _ _ _ _ H W D) as [-> [_ S]].
  split; [reflexivity|]. intros sc Ha n st. apply S. exact Ha.
Qed.

Theorem sim_line f e i i' e' :
  RC f e i = Ok (i', e') -> wfi cl true i = true -> dok i' = true ->
  forall sc, agree e sc ->
    (forall n st, okr (E n st sc i) -> E n st sc i' = E n st sc i) /\
    (forall n st st1 sc1 v, E n st sc i = (st1, sc1, SVal v) -> agree e' sc1).
Proof.
  intros H W D sc Ha. destruct (proj2 (rall powf pre cl anonfn_case fndecl_case f) _ _ _ _ H W D) as [S P].
  split; [intros n st; apply S; exact Ha|apply P; exact Ha].
Qed.

(* the lines of a block / of a function body, environment threaded as the pass threads it *)
Theorem sim_lines f l e l' e' :
  rec_list_def (RC f) l e = Ok (l', e') ->
  forallb (wfi cl true) l = true -> forallb dok l' = true ->
  forall sc, agree e sc -> forall n st,
    okl (ex_list_def (E n) l st sc) -> ex_list_def (E n) l' st sc = ex_list_def (E n) l st sc.
Proof.
  apply (rlines powf pre cl f). apply (rall powf pre cl anonfn_case fndecl_case f).
Qed.

(* whole programs: Code::exec runs the top-level statements in order *)
Theorem sim_code f : forall l e l' e',
  rec_list_def (RC f) l e = Ok (l', e') ->
  forallb (wfi cl true) l = true -> forallb dok l' = true ->
  forall sc, agree e sc -> forall n st last,
    okr (run_code powf pre n st sc l last) ->
    run_code powf pre n st sc l' last = run_code powf pre n st sc l last.
Proof.
  induction l as [|x l IHl]; intros e l' e' H W D sc Ha n st last.
  - injection H as <- <-. reflexivity.
  - cbn [rec_list_def] in H. fold (rec_list_def (RC f)) in H.
    inv_bind H p Hp. destruct p as [x' e1]. inv_bind H q Hq. destruct q as [l1 e2].
    injection H as <- <-.
    cbn [forallb] in W, D. apply andb_true_iff in W. apply andb_true_iff in D.
    destruct W as [Wx Wl]. destruct D as [Dx Dl].
    destruct (sim_line f _ _ _ _ Hp Wx Dx sc Ha) as [Sx Px].
    cbn [run_code]. specialize (Sx n st). specialize (Px n st).
    destruct (E n st sc x) as [[st1 sc1] s1].
    destruct s1; intros Hok;
      try (exfalso; first [exact (okr_panic _ _ Hok)|exact (okr_fuel _ _ Hok)]).
    + rewrite (Sx (okr_val _ _ _)). apply (IHl _ _ _ Hq Wl Dl sc1 (Px _ _ _ eq_refl)). exact Hok.
    + rewrite Sx; [reflexivity|split; discriminate].
Qed.

End Main.

(* ================================================================= *)
(* the closure-free fragment                                          *)
(* ================================================================= *)
Section NoClosures.
Variable powf : fbits -> fbits -> fbits.
Variable pre : prelude.
Notation E := (exec powf pre).
Notation RC f := (recreate powf f []).

Lemma no_anonfn : forall f, rexpr powf pre false f -> rline powf pre false f -> forall e ps body ret i' e',
  RC (S f) e (IAnonFn ps body ret) = Ok (i', e') ->
  false = true -> forallb (wfi false true) body = true -> dok i' = true ->
  e' = e /\ noconst i' /\ simE powf pre e (IAnonFn ps body ret) i'.
Proof. intros; discriminate. Qed.

Lemma no_fndecl : forall f, rexpr powf pre false f -> rline powf pre false f -> forall e nm ps body ret i' e',
  RC (S f) e (IFnDecl nm ps body ret) = Ok (i', e') ->
  false = true -> forallb (wfi false true) body = true -> dok i' = true ->
  simE powf pre e (IFnDecl nm ps body ret) i' /\
  forall sc, agree e sc -> post powf pre e' sc (IFnDecl nm ps body ret).
Proof. intros; discriminate. Qed.

Definition sim_expr0 := sim_expr powf pre false no_anonfn no_fndecl.
Definition sim_line0 := sim_line powf pre false no_anonfn no_fndecl.
Definition sim_lines0 := sim_lines powf pre false no_anonfn no_fndecl.
Definition sim_code0 := sim_code powf pre false no_anonfn no_fndecl.

End NoClosures.

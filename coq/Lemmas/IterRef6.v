(* IterRef6.v — C11b, part 6: the reducers behind `$+ $* $& $|` (INT_SUM, FLOAT_SUM, STRING_SUM,
   INT_PRODUCT, FLOAT_PRODUCT, AND, OR of build/helpers.sx).  Each is
       (iter: () -> (bool, A)) -> A { return iter $ init (acc: A, curr: A) -> A { return acc OP curr } }
   A call logs itself, creates the callback closure (a fresh closure per call) and runs the
   reduction loop: [fold_reducer_correct] equates it with the abstract [reduce] of Model/Iter.v
   for the callback "log the call, return acc OP curr" — OP being the machine operation
   (wrapping for int). *)
From SSL.Model Require Import Base Ty Float Value Ops Seq Syntax Rt Recreate Exec Check Top Iter.
From SSL.Lemmas Require Import ExecLemmas OpsLemmas CellLemmas SoundLemmas SoundHelpers SoundBoot
  RecrMono IterRef1 IterRef2 IterRef3 IterRef4.
Local Open Scope Z_scope.
Arguments exec : simpl never.
Arguments matches : simpl never.

Definition n_iter : name := [105; 116; 101; 114].
Definition n_acc : name := [97; 99; 99].
Definition n_curr : name := [99; 117; 114; 114].

Definition fold_cb_body (A : ty) (op : binop) : list instr :=
  [IUn UReturn (IBin op (ILocal n_acc (LOther A)) (ILocal n_curr (LOther A)))].
Definition fold_cb_closure (A : ty) (op : binop) : closure :=
  mkClosure None [(n_acc, A); (n_curr, A)] (BLang (fold_cb_body A op)) A.
Definition fold_closure (A : ty) (init : value) (op : binop) : closure :=
  mkClosure None [(n_iter, TFun [] (TTup [TBool; A]))]
    (BLang [IUn UReturn
              (IReduce (ILocal n_iter (LOther (TFun [] (TTup [TBool; A])))) (IVar init)
                 (IAnonFn [(n_acc, A); (n_curr, A)] (fold_cb_body A op) A))]) A.

(* the seven reducers of the booted store are of that form *)
Lemma boot_reducers :
  nth_error (s_funs st_boot) 10 = Some (fold_closure TInt (VInt 0) Add) /\
  nth_error (s_funs st_boot) 11 = Some (fold_closure TFloat (VFloat 0) Add) /\
  nth_error (s_funs st_boot) 12 = Some (fold_closure TString (VString []) Add) /\
  nth_error (s_funs st_boot) 8 = Some (fold_closure TInt (VInt 1) Multiply) /\
  nth_error (s_funs st_boot) 9 = Some (fold_closure TFloat (VFloat 4607182418800017408) Multiply) /\
  nth_error (s_funs st_boot) 4 = Some (fold_closure TInt (VInt (-1)) BitwiseAnd) /\
  nth_error (s_funs st_boot) 5 = Some (fold_closure TInt (VInt 0) BitwiseOr).
Proof. repeat split. Qed.

(* values of the scalar type the reducer works on *)
Definition inA (A : ty) (v : value) : Prop :=
  match A, v with
  | TInt, VInt _ | TFloat, VFloat _ | TString, VString _ => True
  | _, _ => False
  end.
Definition fold_op (op : binop) : Prop := op = Add \/ op = Multiply \/ op = BitwiseAnd \/ op = BitwiseOr.
(* a footprint that does not care about log entries and new closures *)
Definition stable (F : store -> Prop) : Prop :=
  (forall st e, F st -> F (log_event st e)) /\ (forall st c, F st -> F (fst (alloc_fun st c))).

Section Reducers.
Variable powf : fbits -> fbits -> fbits.
Notation E := (exec powf pre_boot).

Definition op_closed (A : ty) (op : binop) : Prop :=
  forall a x, inA A a -> inA A x -> exists w, op_exec powf op a x = Ok w /\ inA A w.

(* the seven combinations *)
Lemma op_closed_boot :
  op_closed TInt Add /\ op_closed TFloat Add /\ op_closed TString Add /\
  op_closed TInt Multiply /\ op_closed TFloat Multiply /\
  op_closed TInt BitwiseAnd /\ op_closed TInt BitwiseOr.
Proof.
  repeat split; intros a x Ha Hx; destruct a; try destruct Ha; destruct x; try destruct Hx;
    eexists; (split; [reflexivity|exact I]).
Qed.

(* the abstract callback: log the call, apply the machine operation *)
Definition k_op (gid : nat) (op : binop) : cb2 store value value :=
  fun a x st => (match op_exec powf op a x with Ok w => w | _ => VVoid end,
                 log_event st (EvCall gid [a; x])).

Lemma fold_cb_call n st sc gid A op a x w :
  nth_error (s_funs st) gid = Some (fold_cb_closure A op) -> pure_op op = true ->
  op_exec powf op a x = Ok w ->
  call_def (E (3 + n)) gid [a; x] st sc = (log_event st (EvCall gid [a; x]), sc, SVal w).
Proof.
  intros Hc Hp Hw. cbn [plus].
  eapply call_return; [exact Hc|reflexivity|].
  eapply evl_stop; [|intros v Hv; discriminate Hv].
  eapply ev_return. eapply ev_op; [exact Hp|apply ev_local; reflexivity|apply ev_local; reflexivity|exact Hw].
Qed.

(* a stronger footprint: the closure table extends that of a given store *)
Lemma represents_ext N F v it s0 :
  represents powf pre_boot N F v it ->
  represents powf pre_boot N (fun s => F s /\ funs_ext s0 s) v it.
Proof.
  intros [Hf R]. split; [exact Hf|]. intros n sc st Hn [HF HE]. specialize (R n sc st Hn HF).
  destruct (it st) as [x st1|st1|]; [| |exact I].
  - destruct R as [A [B C]]. split; [exact A|]. split; [|exact C]. split; [exact B|].
    apply (funs_ext_trans s0 st st1); assumption.
  - destruct R as [A [B C]]. split; [exact A|]. split; [|exact C]. split; [exact B|].
    apply (funs_ext_trans s0 st st1); assumption.
Qed.

(* a call of the reducer closure rid on the iterator value v *)
Theorem fold_reducer_correct N F v it rid A init op st sc :
  nth_error (s_funs st) rid = Some (fold_closure A init op) ->
  fold_op op -> op_closed A op -> inA A init ->
  represents powf pre_boot N F v it -> stable F ->
  yields_in F it (inA A) ->
  F st ->
  let gid := length (s_funs st) in
  let st1 := fst (alloc_fun (log_event st (EvCall rid [v])) (fold_cb_closure A op)) in
  forall b acc st', (N <= b)%nat -> (3 <= b)%nat ->
  reduce b (k_op gid op) init it st1 = Some (acc, st') ->
  call_def (E (S (S b))) rid [v] st sc = (st', sc, SVal acc) /\ F st' /\ inA A acc.
Proof.
  intros Hc Hop Hcl Hinit R [Slog Salloc] Hel HF gid st1 b acc st' HN H3 Hred.
  assert (Hpure : pure_op op = true) by (destruct Hop as [-> | [-> | [-> | ->]]]; reflexivity).
  set (st0 := log_event st (EvCall rid [v])).
  set (sc0 := [frame_def rid (fold_closure A init op) [v]]).
  assert (Hg : nth_error (s_funs st1) gid = Some (fold_cb_closure A op)).
  { unfold st1, gid, alloc_fun. cbn [fst s_funs log_event]. rewrite nth_error_app2 by lia.
    rewrite Nat.sub_diag. reflexivity. }
  set (F' := fun s => F s /\ funs_ext st1 s).
  assert (HF1 : F' st1).
  { split; [apply Salloc, Slog, HF|apply funs_ext_refl]. }
  pose proof (represents_ext N F v it st1 R) as R'. fold F' in R'.
  (* the loop *)
  assert (L : reduce_def (E b) v (VFun gid [A; A] A) b st1 sc0 init = (st', sc0, SVal acc) /\ F' st' /\ inA A acc).
  { assert (G : forall m n sc1 s a a' s', (N <= n)%nat -> (3 <= n)%nat -> F' s -> inA A a ->
              reduce m (k_op gid op) a it s = Some (a', s') ->
              reduce_def (E n) v (VFun gid [A; A] A) m s sc1 a = (s', sc1, SVal a') /\ F' s' /\ inA A a').
    { destruct R' as [_ R2].
      induction m as [|m IH]; intros n sc1 s a a' s' Hn Hn3 HFs Ha Hm; [discriminate Hm|].
      cbn [reduce] in Hm. rewrite reduce_def_S. specialize (R2 n sc1 s Hn HFs).
      pose proof (Hel s) as Hel'.
      destruct (it s) as [x s1|s1|]; [| |discriminate Hm].
      - destruct R2 as [-> [HFs1 _]]. cbn [is_false call_v_def].
        pose proof (Hel' x s1 (proj1 HFs) eq_refl) as Hx.
        destruct (Hcl a x Ha Hx) as [w [Hw Hiw]].
        destruct n as [|[|[|n]]]; try lia.
        pose proof (fold_cb_call n s1 sc1 gid A op a x w (proj2 HFs1 _ _ Hg) Hpure Hw) as Hcall.
        cbn [plus] in Hcall. rewrite Hcall.
        unfold k_op in Hm. rewrite Hw in Hm.
        apply (IH (S (S (S n))) sc1 _ w a' s' Hn Hn3); [|exact Hiw|exact Hm].
        split; [apply Slog, HFs1|].
        apply (funs_ext_trans st1 s1 _ (proj2 HFs1)). apply funs_ext_same. reflexivity.
      - destruct R2 as [[d ->] [HFs1 _]]. cbn [is_false]. injection Hm as <- <-. auto. }
    apply (G b b sc0 st1 init acc st' HN H3 HF1 Hinit Hred). }
  destruct L as [L [[HFe _] Hacc]]. split; [|split; [exact HFe|exact Hacc]].
  destruct (proj1 R) as [fid [ps [r ->]]].
  eapply call_return; [exact Hc|reflexivity|]. fold st0 sc0.
  eapply evl_stop; [|intros w Hw; discriminate Hw].
  eapply ev_return. rewrite exec_S_IReduce. unfold with_val_def.
  destruct b as [|b]; [lia|].
  rewrite (ev_local powf pre_boot b st0 sc0 n_iter _ (VFun fid ps r) eq_refl).
  rewrite ev_var. rewrite exec_S_IAnonFn.
  match goal with |- context [recreate_body ?p ?s ?l ?bd] =>
    replace (recreate_body p s l bd) with (Ok (fold_cb_body A op))
      by (destruct Hop as [-> | [-> | [-> | ->]]]; vm_compute; reflexivity) end.
  cbn [sig_of_outcome].
  change (alloc_fun st0 (mkClosure None [(n_acc, A); (n_curr, A)] (BLang (fold_cb_body A op)) A))
    with (alloc_fun st0 (fold_cb_closure A op)).
  replace (alloc_fun st0 (fold_cb_closure A op)) with (st1, gid) by reflexivity.
  cbn [map snd]. exact L.
Qed.

(* the value of the reduction is the fold of the machine operation over the elements pulled *)
Lemma folds_int_op gid op (g : Z -> Z -> Z) (it : iter store value) :
  (forall a z, op_exec powf op (VInt a) (VInt z) = Ok (VInt (g a z))) ->
  forall a st xs acc st', folds it (k_op gid op) a st xs acc st' ->
  forall a0 zs, a = VInt a0 -> xs = map VInt zs -> acc = VInt (fold_left g zs a0).
Proof.
  intros Hg a st xs acc st' H.
  induction H as [s w w' Hd|s w x w1 s2 w2 xs s' w' Hs Hk Hf IH]; intros a0 zs -> Hxs.
  - destruct zs; [reflexivity|discriminate Hxs].
  - destruct zs as [|z zs]; [discriminate Hxs|]. cbn [map] in Hxs. injection Hxs as -> ->.
    unfold k_op in Hk. rewrite Hg in Hk. injection Hk as <- <-.
    cbn [fold_left]. apply (IH (g a0 z) zs eq_refl eq_refl).
Qed.

Corollary folds_int_sum gid it a st zs acc st' :
  folds it (k_op gid Add) (VInt a) st (map VInt zs) acc st' ->
  acc = VInt (fold_left rs_wrapping_add zs a).
Proof. intros H. apply (folds_int_op gid Add rs_wrapping_add it (fun _ _ => eq_refl) _ _ _ _ _ H a zs eq_refl eq_refl). Qed.
Corollary folds_int_product gid it a st zs acc st' :
  folds it (k_op gid Multiply) (VInt a) st (map VInt zs) acc st' ->
  acc = VInt (fold_left rs_wrapping_mul zs a).
Proof. intros H. apply (folds_int_op gid Multiply rs_wrapping_mul it (fun _ _ => eq_refl) _ _ _ _ _ H a zs eq_refl eq_refl). Qed.
Corollary folds_int_and gid it a st zs acc st' :
  folds it (k_op gid BitwiseAnd) (VInt a) st (map VInt zs) acc st' ->
  acc = VInt (fold_left Z.land zs a).
Proof. intros H. apply (folds_int_op gid BitwiseAnd Z.land it (fun _ _ => eq_refl) _ _ _ _ _ H a zs eq_refl eq_refl). Qed.
Corollary folds_int_or gid it a st zs acc st' :
  folds it (k_op gid BitwiseOr) (VInt a) st (map VInt zs) acc st' ->
  acc = VInt (fold_left Z.lor zs a).
Proof. intros H. apply (folds_int_op gid BitwiseOr Z.lor it (fun _ _ => eq_refl) _ _ _ _ _ H a zs eq_refl eq_refl). Qed.

End Reducers.

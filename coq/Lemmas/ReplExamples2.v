(* ReplExamples2.v — REPL = batch with inputs of several statements (non-vacuity of ReplChunks):
   the session of ReplExamples, fed as
     "c := mut 0; k := 2 + 3;"   "f := (x: int) -> int { .. };"   "y := f(3); k := k * 10;"
     "y := f(k); (y, k, *c)"                                                              *)
From SSL.Model Require Import Base Ty Float Value Ops Seq Syntax Rt Recreate Exec Check Top Repl.
From SSL.Lemmas Require Import ExecLemmas RecrMono RecrDefs RecrEmbed RecrExamples RecrExamples2 ReplFrag ReplMain
  ReplChunks ReplExamples.
Local Open Scope Z_scope.

Definition chunked : list (list sline) :=
  [ firstn 2 sess_lines; [nth 2 sess_lines (LStm SBrk)]; firstn 2 (skipn 3 sess_lines); skipn 5 sess_lines ].

Ltac line_hyps :=
  [> reflexivity
   | vm_compute; reflexivity | vm_compute; reflexivity
   | vm_compute; reflexivity | vm_compute; reflexivity
   | vm_compute; reflexivity
   | vm_compute; reflexivity | vm_compute; reflexivity | vm_compute; reflexivity
   | solve_exact | solve_exact
   | vm_compute; reflexivity
   | vm_compute; split; discriminate
   | .. ].

Ltac last_line := eapply LO_last; line_hyps.
Ltac more_lines := eapply LO_cons; line_hyps.

Example chunked_ok : sess_ok2 pw0 pre0 red0 [[]] 100 100 e_new st0 [[]] chunked.
Proof.
  unfold chunked, sess_lines. cbn [firstn skipn nth].
  eapply S2_cons; [more_lines; last_line|].
  eapply S2_cons; [last_line|].
  eapply S2_cons; [more_lines; last_line|].
  eapply S2_cons; [more_lines; last_line|].
  apply S2_nil.
Qed.

Example chunked_repl_eq_batch :
  repl_run pw0 pre0 red0 100 100 it0 chunked = batch_prefixes pw0 pre0 red0 100 100 it0 chunked.
Proof. apply (repl_chunks_eq_batch_prefixes pw0 pre0 red0 [[]] 100 100 st0 chunked chunked_ok). Qed.

Example chunked_results :
  map fst (repl_run pw0 pre0 red0 100 100 it0 chunked) =
    [ InRan (SVal (VInt 5)); InRan (SVal (VFun 0 [TInt] TInt)); InRan (SVal (VInt 50));
      InRan (SVal (VTup [VInt 303; VInt 50; VInt 53])) ].
Proof. vm_compute. reflexivity. Qed.

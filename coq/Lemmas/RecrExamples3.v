(* RecrExamples3.v — the end-to-end theorem (RecrEnd.checked_fold_unobservable) applied to
   RecrExamples2.clos_prog: the only facts used about the program are that it is in the
   fragment of the bridge and that Code::parse accepts it. *)
From SSL.Model Require Import Base Ty Float Value Ops Seq Syntax Rt Recreate Exec Check Top.
From SSL.Lemmas Require Import ExecLemmas SoundDefs SoundTyping Sound1 CheckUnfold Bridge1 Bridge2
  RecrMono RecrDefs RecrTop RecrExamples RecrExamples2 RecrEnd.

Example clos_prog_fragment :
  forallb wf_sline clos_prog = true /\ forallb blfrag clos_prog = true /\
  forallb top_ok clos_prog = true.
Proof. repeat split; vm_compute; reflexivity. Qed.

Example clos_prog_end_to_end : forall n last,
  (sig (run_code pw0 pre0 n st0 [[]] unfolded2 last) <> SFuel ->
   run_code pw0 pre0 n st0 [[]] folded2 last = run_code pw0 pre0 n st0 [[]] unfolded2 last) /\
  (sig (run_code pw0 pre0 n st0 [[]] folded2 last) <> SFuel ->
   run_code pw0 pre0 (n + 100) st0 [[]] unfolded2 last = run_code pw0 pre0 n st0 [[]] folded2 last).
Proof.
  destruct clos_prog_fragment as [Wl [Fl Tl]].
  destruct (checked_fold_unobservable pw0 pre0 red0 W_empty 100 clos_prog e0 [] unfolded2 folded2 env_after2
              (tinv_empty W_empty []) Wl Fl Tl clos_prog_parses) as [_ H].
  intros n last. apply (H W_empty st0 [[]] last).
  - apply ext_refl.
  - split; [split; [reflexivity|intros loc t C; destruct loc; discriminate C]|].
    split; [reflexivity|intros id c sg C; destruct id; discriminate C].
  - intros m T C. discriminate C.
  - intros m v C. cbn in C. discriminate C.
Qed.

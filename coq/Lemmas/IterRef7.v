(* IterRef7.v — C11b, part 7: the reducers behind `$&&` and `$||` (ALL, ANY of build/helpers.sx):
       (iter: () -> (bool, bool)) -> bool {
         loop { (con, value) := iter(); if !con { break }  if !value { return false } }
         return true }                                            (ANY: `if value { return true }`, false)
   [all_correct] / [any_correct]: a call equals the abstract [all_iter] / [any_iter] of
   Model/Iter.v on the boolean view of the represented iterator: the loop stops at the first
   deciding element — later elements are not pulled. *)
From SSL.Model Require Import Base Ty Float Value Ops Seq Syntax Rt Recreate Exec Check Top Iter.
From SSL.Lemmas Require Import ExecLemmas OpsLemmas CellLemmas SoundLemmas SoundHelpers SoundBoot
  RecrMono IterRef1 IterRef2 IterRef3 IterRef4 IterRef6.
Local Open Scope Z_scope.
Arguments exec : simpl never.
Arguments matches : simpl never.

Definition t_bb : ty := TFun [] (TTup [TBool; TBool]).
Definition quant_block (test : instr) (hit : bool) : instr :=
  IBlock
    [IDestruct [n_con; n_value] (IBin FunctionCall (ILocal n_iter (LOther t_bb)) (IVar (VTup [])));
     IIfElse (IUn UNot (ILocal n_con (LOther TBool))) (IBlock [IBreak]) (IVar VVoid);
     IIfElse test (IBlock [IUn UReturn (IVar (VBool hit))]) (IVar VVoid)].
Definition quant_closure (test : instr) (hit : bool) : closure :=
  mkClosure None [(n_iter, t_bb)]
    (BLang [ILoop (quant_block test hit); IUn UReturn (IVar (VBool (negb hit)))]) TBool.

Definition test_all : instr := IUn UNot (ILocal n_value (LOther TBool)).
Definition test_any : instr := ILocal n_value (LOther TBool).

Lemma boot_quantifiers :
  nth_error (s_funs st_boot) 6 = Some (quant_closure test_all false) /\
  nth_error (s_funs st_boot) 7 = Some (quant_closure test_any true).
Proof. split; reflexivity. Qed.

(* the boolean view of an iterator over values *)
Definition bool_view (it : iter store value) : iter store bool :=
  fun st => match it st with
            | Yield (VBool b) st' => Yield b st'
            | Yield _ _ => NoFuel
            | Done st' => Done st'
            | NoFuel => NoFuel
            end.

(* both loops: stop with [hit] at the first element on which the test fires *)
Fixpoint quant_iter (tst : bool -> bool) (hit : bool) (fuel : nat) (it : iter store bool) (w : store)
  : option (bool * store) :=
  match fuel with
  | O => None
  | S n => match it w with
           | Yield v w1 => if tst v then Some (hit, w1) else quant_iter tst hit n it w1
           | Done w' => Some (negb hit, w')
           | NoFuel => None
           end
  end.

Lemma quant_all fuel it w : quant_iter negb false fuel it w = all_iter fuel it w.
Proof.
  revert w. induction fuel as [|n IH]; intros w; [reflexivity|]. cbn [quant_iter all_iter].
  destruct (it w) as [v w1|w'|]; try reflexivity. destruct v; cbn [negb]; [apply IH|reflexivity].
Qed.
Lemma quant_any fuel it w : quant_iter (fun b => b) true fuel it w = any_iter fuel it w.
Proof.
  revert w. induction fuel as [|n IH]; intros w; [reflexivity|]. cbn [quant_iter any_iter].
  destruct (it w) as [v w1|w'|]; try reflexivity. destruct v; [reflexivity|apply IH].
Qed.

Section Quant.
Variable powf : fbits -> fbits -> fbits.
Notation E := (exec powf pre_boot).

Variable test : instr.
Variable tst : bool -> bool.
Variable hit : bool.
(* the test reads the local `value` *)
Hypothesis test_ok : forall k st sc bv, scopes_get n_value sc = Some (VBool bv) ->
  E (S (S k)) st sc test = (st, sc, SVal (VBool (tst bv))).

Lemma quant_loop N (F : store -> Prop) v it m sc0 :
  represents powf pre_boot N F v it -> (N <= m)%nat ->
  scopes_get n_iter sc0 = Some v ->
  forall M cnt st b st', (M <= cnt)%nat -> F st ->
  quant_iter tst hit M (bool_view it) st = Some (b, st') ->
  loop_def (E (S (S (S (S (S m)))))) (quant_block test hit) cnt st sc0 =
    (st', sc0, if Bool.eqb b hit then SReturn (VBool hit) else SVal VVoid) /\ F st'.
Proof.
  intros [Hfun R] Hm Hit. destruct Hfun as [fid [ps [r ->]]].
  induction M as [|M IH]; intros cnt st b st' Hcnt HF H; [discriminate H|].
  destruct cnt as [|cnt]; [lia|]. cbn [quant_iter] in H. cbn [loop_def]. unfold quant_block.
  set (sc1 := [] :: sc0).
  assert (Hit1 : scopes_get n_iter sc1 = Some (VFun fid ps r)) by exact Hit.
  pose proof (R (S (S m)) sc1 st ltac:(lia) HF) as Rs. cbn [call_v_def] in Rs.
  unfold bool_view in H.
  destruct (it st) as [x st1|st1|]; [| |discriminate H].
  - assert (Hx : exists bv, x = VBool bv) by (destruct x; try discriminate H; eexists; reflexivity).
    destruct Hx as [bv ->].
    destruct Rs as [Rs [HF1 _]].
    set (sc2 := destruct_bind_def [n_con; n_value] [VBool true; VBool bv] sc1).
    assert (A1 : E (S (S (S (S m)))) st sc1
                   (IDestruct [n_con; n_value] (IBin FunctionCall (ILocal n_iter (LOther t_bb)) (IVar (VTup []))))
                 = (st1, sc2, SVal (VTup [VBool true; VBool bv]))).
    { eapply ev_destruct. eapply ev_call; [apply ev_local; exact Hit1|apply ev_var|exact Rs]. }
    assert (A2 : E (S (S (S (S m)))) st1 sc2
                   (IIfElse (IUn UNot (ILocal n_con (LOther TBool))) (IBlock [IBreak]) (IVar VVoid))
                 = (st1, sc2, SVal VVoid)).
    { eapply ev_if; [eapply ev_not_eq; [apply ev_local; reflexivity|reflexivity]|]. apply ev_var. }
    assert (A3 : E (S (S (S m))) st1 sc2 test = (st1, sc2, SVal (VBool (tst bv)))).
    { apply test_ok. reflexivity. }
    destruct (tst bv) eqn:Ht.
    + (* the test fires: return hit *)
      injection H as <- <-. rewrite Bool.eqb_reflx. split; [|exact HF1].
      match goal with |- context [E ?a st sc0 (IBlock ?body)] =>
        assert (B : E a st sc0 (IBlock body) = (st1, sc0, SReturn (VBool hit))) end.
      { eapply ev_block_stop.
        eapply evl_val_stop; [exact A1|]. eapply evl_val_stop; [exact A2|].
        eapply evl_stop; [|intros w Hw; discriminate Hw].
        eapply ev_if; [exact A3|].
        eapply ev_block_stop. eapply evl_stop; [|intros w Hw; discriminate Hw].
        eapply ev_return. apply ev_var. }
      rewrite B. reflexivity.
    + (* go on *)
      match goal with |- context [E ?a st sc0 (IBlock ?body)] =>
        assert (B : exists w, E a st sc0 (IBlock body) = (st1, sc0, SVal w)) end.
      { eexists. eapply ev_block_val.
        eapply evl_val_ok; [exact A1|]. eapply evl_val_ok; [exact A2|].
        eapply evl_val_ok; [|apply evl_nil]. eapply ev_if; [exact A3|]. apply ev_var. }
      destruct B as [w B]. rewrite B. apply (IH cnt st1 b st' ltac:(lia) HF1 H).
  - (* exhausted: break *)
    destruct Rs as [[d Rs] [HF1 _]]. injection H as <- <-.
    replace (Bool.eqb (negb hit) hit) with false by (destruct hit; reflexivity).
    split; [|exact HF1].
    set (sc2 := destruct_bind_def [n_con; n_value] [VBool false; d] sc1).
    match goal with |- context [E ?a st sc0 (IBlock ?body)] =>
      assert (B : E a st sc0 (IBlock body) = (st1, sc0, SBreak)) end.
    { eapply ev_block_stop.
      eapply evl_val_stop.
      { eapply ev_destruct. eapply ev_call; [apply ev_local; exact Hit1|apply ev_var|exact Rs]. }
      eapply evl_stop; [|intros w Hw; discriminate Hw].
      eapply ev_if; [eapply ev_not_eq; [apply ev_local; reflexivity|reflexivity]|].
      eapply ev_block_stop. eapply evl_stop; [|intros w Hw; discriminate Hw].
      apply exec_S_IBreak. }
    rewrite B. reflexivity.
Qed.

Theorem quant_correct N F v it qid st sc M b st' :
  nth_error (s_funs st) qid = Some (quant_closure test hit) ->
  represents powf pre_boot N F v it ->
  (forall s e, F s -> F (log_event s e)) -> F st ->
  quant_iter tst hit M (bool_view it) (log_event st (EvCall qid [v])) = Some (b, st') ->
  forall n, (6 + N + M <= n)%nat ->
  call_def (E n) qid [v] st sc = (st', sc, SVal (VBool b)) /\ F st'.
Proof.
  intros Hc R Slog HF H n Hn.
  destruct n as [|[|[|[|[|[|m]]]]]]; try lia.
  set (st0 := log_event st (EvCall qid [v])) in *.
  set (sc0 := [frame_def qid (quant_closure test hit) [v]]).
  destruct (quant_loop N F v it m sc0 R ltac:(lia) eq_refl M (S (S (S (S (S m))))) st0 b st'
              ltac:(lia) (Slog st _ HF) H) as [L HF'].
  split; [|exact HF'].
  destruct (Bool.eqb b hit) eqn:Hb.
  - apply Bool.eqb_prop in Hb. subst b.
    eapply call_return; [exact Hc|reflexivity|]. fold st0 sc0.
    eapply evl_stop; [|intros w Hw; discriminate Hw].
    rewrite exec_S_ILoop. exact L.
  - assert (b = negb hit) as -> by (destruct b, hit; try reflexivity; discriminate Hb).
    eapply call_return; [exact Hc|reflexivity|]. fold st0 sc0.
    eapply evl_val_stop; [rewrite exec_S_ILoop; exact L|].
    eapply evl_stop; [|intros w Hw; discriminate Hw].
    eapply ev_return. apply ev_var.
Qed.

End Quant.

Section AllAny.
Variable powf : fbits -> fbits -> fbits.
Notation E := (exec powf pre_boot).

Lemma test_all_ok k st sc bv : scopes_get n_value sc = Some (VBool bv) ->
  E (S (S k)) st sc test_all = (st, sc, SVal (VBool (negb bv))).
Proof. intros H. unfold test_all. eapply ev_not. apply ev_local. exact H. Qed.

Lemma test_any_ok k st sc bv : scopes_get n_value sc = Some (VBool bv) ->
  E (S (S k)) st sc test_any = (st, sc, SVal (VBool bv)).
Proof. intros H. unfold test_any. apply ev_local. exact H. Qed.

(* `$&&` : ALL(it) *)
Theorem all_correct N F v it qid st sc M b st' :
  nth_error (s_funs st) qid = Some (quant_closure test_all false) ->
  represents powf pre_boot N F v it ->
  (forall s e, F s -> F (log_event s e)) -> F st ->
  all_iter M (bool_view it) (log_event st (EvCall qid [v])) = Some (b, st') ->
  forall n, (6 + N + M <= n)%nat ->
  call_def (E n) qid [v] st sc = (st', sc, SVal (VBool b)) /\ F st'.
Proof.
  intros Hc R Slog HF H. rewrite <- quant_all in H.
  apply (quant_correct powf test_all negb false (test_all_ok) N F v it qid st sc M b st' Hc R Slog HF H).
Qed.

(* `$||` : ANY(it) *)
Theorem any_correct N F v it qid st sc M b st' :
  nth_error (s_funs st) qid = Some (quant_closure test_any true) ->
  represents powf pre_boot N F v it ->
  (forall s e, F s -> F (log_event s e)) -> F st ->
  any_iter M (bool_view it) (log_event st (EvCall qid [v])) = Some (b, st') ->
  forall n, (6 + N + M <= n)%nat ->
  call_def (E n) qid [v] st sc = (st', sc, SVal (VBool b)) /\ F st'.
Proof.
  intros Hc R Slog HF H. rewrite <- quant_any in H.
  apply (quant_correct powf test_any (fun b => b) true (test_any_ok) N F v it qid st sc M b st' Hc R Slog HF H).
Qed.

End AllAny.

(* SoundDefs.v — "layer 3" of type soundness, definitions and value-level facts.

   A run-time configuration is typed against a STORE TYPING [W]:
     cells_t W : the declared content type of every cell (by location),
     funs_t  W : the signature (parameter types, result type) of every TRACKED closure
               (None = a closure the typing does not speak about, e.g. a stdlib helper:
               no good value refers to it).
   [vgood W v]  hereditary invariant of a run-time value: every array carries a
                well-formed element type that its elements inhabit (by tag and by
                contents), struct keys are distinct, every cell reference
                [VMut loc t] points to a cell DECLARED with exactly t, every function
                reference to a closure with exactly that signature;
   [gv W v T]   v inhabits T ([has_type]) and is good;
   [cells_ok W st], [store_ok W st], [env_ok W sc G] : store and scopes against W / G;
   [typed W0 G K i T] : the typing judgement for instructions (what the checker
                guarantees for each construct), [typed_list] threads the
                environment through a statement list.
   The store typing only grows ([ext]). *)
From SSL.Model Require Import Base Ty Float Value Ops Seq Syntax Rt Recreate Exec Check.
From SSL.Lemmas Require Import TyLemmas ValueLemmas SeqLemmas ExecLemmas SoundLemmas CellLemmas.

Arguments matches : simpl never.
Arguments ty_eqb : simpl never.
Arguments concat : simpl never.

Local Open Scope Z_scope.

(* ================================================================= *)
(* 1. store typings                                                   *)
(* ================================================================= *)
Record sty : Type := mkW { cells_t : list ty; funs_t : list (option (list ty * ty)) }.

Definition W_empty : sty := mkW [] [].

Definition ext (W W' : sty) : Prop :=
  (forall loc t, nth_error (cells_t W) loc = Some t -> nth_error (cells_t W') loc = Some t) /\
  (forall id sg, nth_error (funs_t W) id = Some (Some sg) ->
                 nth_error (funs_t W') id = Some (Some sg)).

Lemma ext_refl W : ext W W.
Proof. split; auto. Qed.

Lemma ext_trans W1 W2 W3 : ext W1 W2 -> ext W2 W3 -> ext W1 W3.
Proof. intros [A B] [C D]. split; auto. Qed.

Lemma ext_empty W : ext W_empty W.
Proof. split; intros [|k] x H; discriminate H. Qed.

(* ================================================================= *)
(* 2. good values                                                     *)
(* ================================================================= *)
Section VGood.
Variable W : sty.

Fixpoint vgood (v : value) : Prop :=
  match v with
  | VArr t vs =>
      wf_ty t = true /\
      (fix go (l : list value) : Prop :=
         match l with
         | [] => True
         | x :: l => (has_type x t = true /\ vgood x) /\ go l
         end) vs
  | VTup vs =>
      (fix go (l : list value) : Prop :=
         match l with [] => True | x :: l => vgood x /\ go l end) vs
  | VStruct fs =>
      nodup_keys fs = true /\
      (fix go (l : list (ident * value)) : Prop :=
         match l with [] => True | (_, x) :: l => vgood x /\ go l end) fs
  | VMut loc t => wf_ty t = true /\ nth_error (cells_t W) loc = Some t
  | VFun id ps r => wf_ty (TFun ps r) = true /\ nth_error (funs_t W) id = Some (Some (ps, r))
  | _ => True
  end.

Lemma vgood_arr t vs :
  vgood (VArr t vs) <-> wf_ty t = true /\ Forall (fun x => has_type x t = true /\ vgood x) vs.
Proof.
  cbn [vgood]. split; intros [Ht H]; (split; [exact Ht|]).
  - induction vs as [|x vs IH]; [constructor|]. destruct H as [Hx H]. constructor; auto.
  - induction H as [|x vs Hx _ IH]; [exact I|]. split; assumption.
Qed.

Lemma vgood_tup vs : vgood (VTup vs) <-> Forall vgood vs.
Proof.
  cbn [vgood]. split; intros H.
  - induction vs as [|x vs IH]; [constructor|]. destruct H as [Hx H]. constructor; auto.
  - induction H as [|x vs Hx _ IH]; [exact I|]. split; assumption.
Qed.

Lemma vgood_struct fs :
  vgood (VStruct fs) <-> nodup_keys fs = true /\ Forall (fun kv => vgood (snd kv)) fs.
Proof.
  cbn [vgood]. split; intros [Hn H]; (split; [exact Hn|]); clear Hn.
  - induction fs as [|[k x] fs IH]; [constructor|]. destruct H as [Hx H]. constructor; auto.
  - induction H as [|[k x] fs Hx _ IH]; [exact I|]. split; assumption.
Qed.

End VGood.

Definition gv (W : sty) (v : value) (T : ty) : Prop := has_type v T = true /\ vgood W v.

Lemma vgood_mono W W' v : ext W W' -> vgood W v -> vgood W' v.
Proof.
  intros [EC EF].
  induction v as [x|x|x|x|i ps r|et vs IH|vs IH|l t|fs IH|] using value_ind'; intros H;
    try exact I.
  - destruct H as [Hw H]. split; [exact Hw|]. apply EF. exact H.
  - rewrite vgood_arr in *. destruct H as [Hw H]. split; [exact Hw|].
    rewrite Forall_forall in *. intros x Hx. destruct (H x Hx) as [A B]. split; [exact A|].
    apply IH; assumption.
  - rewrite vgood_tup in *. rewrite Forall_forall in *. intros x Hx. apply IH; auto.
  - destruct H as [Hw H]. split; [exact Hw|]. apply EC. exact H.
  - rewrite vgood_struct in *. destruct H as [Hn H]. split; [exact Hn|].
    rewrite Forall_forall in *. intros x Hx. apply IH; auto.
Qed.

Lemma gv_mono W W' v T : ext W W' -> gv W v T -> gv W' v T.
Proof. intros E [A B]. split; [exact A|]. apply (vgood_mono W W'); assumption. Qed.

Lemma Forall2_gv_mono W W' vs Ts : ext W W' -> Forall2 (gv W) vs Ts -> Forall2 (gv W') vs Ts.
Proof. intros E H. induction H; constructor; [apply (gv_mono W W'); assumption|assumption]. Qed.

(* ---- a good value is hereditarily well-formed in the sense of layer 2 ---- *)
Lemma vgood_vwf W v : vgood W v -> vwf v = true.
Proof.
  induction v as [x|x|x|x|i ps r|et vs IH|vs IH|l t|fs IH|] using value_ind'; intros H;
    try reflexivity.
  - rewrite vgood_arr in H. destruct H as [_ H]. cbn [vwf]. apply forallb_forall.
    rewrite Forall_forall in *. intros x Hx. destruct (H x Hx) as [A B].
    rewrite A, (IH x Hx B). reflexivity.
  - rewrite vgood_tup in H. cbn [vwf]. apply forallb_forall.
    rewrite Forall_forall in *. intros x Hx. apply IH; auto.
  - rewrite vgood_struct in H. destruct H as [_ H]. cbn [vwf]. apply forallb_forall.
    rewrite Forall_forall in *. intros x Hx. apply IH; auto.
Qed.

(* ---- struct keys ---- *)
Lemma assoc_nodup_in {V} (fs : list (ident * V)) k x :
  nodup_keys fs = true -> In (k, x) fs -> assoc k fs = Some x.
Proof.
  induction fs as [|[k' y] fs IH]; intros Hn Hin; [destruct Hin|].
  cbn [nodup_keys] in Hn. apply andb_true_iff in Hn. destruct Hn as [Hk Hn].
  cbn [assoc]. destruct Hin as [E|Hin].
  - injection E as -> ->. rewrite ident_eqb_refl. reflexivity.
  - destruct (ident_eqb k k') eqn:Ek.
    + apply ident_eqb_true in Ek. subst k'. exfalso.
      apply negb_true_iff in Hk. rewrite <- not_true_iff_false in Hk. apply Hk.
      apply existsb_exists. exists (k, x). split; [exact Hin|]. cbn [fst]. apply ident_eqb_refl.
    + apply IH; assumption.
Qed.

Lemma nodup_keys_map {A B} (f : A -> B) (fs : list (ident * A)) :
  nodup_keys (map (fun kv => (fst kv, f (snd kv))) fs) = nodup_keys fs.
Proof.
  induction fs as [|[k x] fs IH]; [reflexivity|]. cbn [map nodup_keys fst snd]. rewrite IH.
  f_equal. f_equal. clear IH. induction fs as [|[k' y] fs IH]; [reflexivity|].
  cbn [map existsb fst snd]. rewrite IH. reflexivity.
Qed.

(* ---- the run-time tag of a good value is well-formed, and the value inhabits it ---- *)
Lemma vgood_wf_ty W v : vgood W v -> wf_ty (as_type v) = true.
Proof.
  induction v as [x|x|x|x|i ps r|et vs IH|vs IH|l t|fs IH|] using value_ind'; intros H;
    try reflexivity.
  - destruct H as [Hw _]. exact Hw.
  - destruct H as [Hw _]. exact Hw.
  - rewrite vgood_tup in H. cbn [as_type wf_ty]. apply forallb_forall. intros t Ht.
    apply in_map_iff in Ht. destruct Ht as [x [<- Hx]].
    rewrite Forall_forall in *. apply IH; auto.
  - destruct H as [Hw _]. exact Hw.
  - rewrite vgood_struct in H. destruct H as [Hn H]. cbn [as_type wf_ty].
    rewrite (nodup_keys_map as_type fs), Hn. cbn [andb]. apply forallb_forall. intros kt Hkt.
    apply in_map_iff in Hkt. destruct Hkt as [kv [<- Hkv]]. cbn [snd].
    rewrite Forall_forall in *. apply IH; auto.
Qed.

Lemma all2_map_r {A B} (f : A -> B -> bool) (g : A -> B) l :
  (forall x, In x l -> f x (g x) = true) -> all2 f l (map g l) = true.
Proof.
  induction l as [|x l IH]; intros H; [reflexivity|]. cbn [map all2].
  rewrite (H x (or_introl eq_refl)), IH; [reflexivity|]. intros y Hy. apply H. right. exact Hy.
Qed.

Lemma vgood_self W v : vgood W v -> has_type v (as_type v) = true.
Proof.
  induction v as [x|x|x|x|i ps r|et vs IH|vs IH|l t|fs IH|] using value_ind'; intros H;
    try reflexivity.
  - destruct H as [Hw _]. apply has_type_intro; cbn [as_type].
    + apply matches_refl. exact Hw.
    + rewrite content_in_fun. apply matches_refl. exact Hw.
  - pose proof H as H0. rewrite vgood_arr in H. destruct H as [Hw H]. apply has_type_intro; cbn [as_type].
    + rewrite matches_arr. apply matches_refl. exact Hw.
    + rewrite content_in_arr. apply forallb_forall. rewrite Forall_forall in H.
      intros x Hx. apply has_type_content. apply (H x Hx).
  - rewrite vgood_tup in H. cbn [as_type]. rewrite tuple_typed. apply all2_map_r.
    rewrite Forall_forall in *. intros x Hx. apply IH; auto.
  - destruct H as [Hw _]. apply has_type_intro; cbn [as_type].
    + rewrite matches_mut. apply ty_eqb_refl. exact Hw.
    + rewrite content_in_mut. apply ty_eqb_refl. exact Hw.
  - rewrite vgood_struct in H. destruct H as [Hn H]. cbn [as_type]. rewrite has_type_struct.
    apply forallb_forall. intros kt Hkt. apply in_map_iff in Hkt. destruct Hkt as [[k x] [<- Hkv]].
    cbn [fst snd]. rewrite (assoc_nodup_in fs k x Hn Hkv).
    rewrite Forall_forall in *. apply (IH (k, x) Hkv). apply (H (k, x) Hkv).
Qed.

Lemma vgood_wf_val W v : vgood W v -> wf_val v = true.
Proof. intros H. unfold wf_val. apply has_type_content. apply (vgood_self W). exact H. Qed.

(* dispatch by run-time tag (if-set, type arms of match) *)
Lemma gv_by_tag W v T : vgood W v -> matches (as_type v) T = true -> gv W v T.
Proof.
  intros H M. split; [|exact H]. apply dispatch_by_tag_sound; [apply (vgood_wf_val W); exact H|exact M].
Qed.

Lemma gv_sub W v A B : gv W v A -> matches A B = true -> gv W v B.
Proof. intros [H G] M. split; [apply (has_type_sound v A B); assumption|exact G]. Qed.

Lemma gv_eqb W v A B : gv W v A -> ty_eqb A B = true -> gv W v B.
Proof. intros H E. apply (gv_sub W v A B H). apply ty_eqb_matches. exact E. Qed.

Lemma gv_union_l W v A B : gv W v A -> gv W v (concat A B).
Proof. intros [H G]. split; [apply has_type_union_l_all; exact H|exact G]. Qed.
Lemma gv_union_r W v A B : gv W v B -> gv W v (concat A B).
Proof. intros [H G]. split; [apply has_type_union_r_all; exact H|exact G]. Qed.

Lemma gv_void W : gv W VVoid TVoid.
Proof. split; [reflexivity|exact I]. Qed.
Lemma gv_bool W b : gv W (VBool b) TBool.
Proof. split; [reflexivity|exact I]. Qed.

Lemma gv_never W v : ~ gv W v TNever.
Proof. intros [H _]. rewrite has_type_never in H. discriminate H. Qed.

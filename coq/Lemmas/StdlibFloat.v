(* StdlibFloat.v — C18: casts between int and float (std.convert.to_int / to_float) and the
   rounding functions of std.math, against the real-number semantics of IEEE-754 binary64
   (Flocq).  Theorems that mention Flocq's binary64 carry the four axioms of Coq's classical
   real numbers (see README_c18.md). *)
From Coq Require Import ZArith Lia Reals Bool.
From Flocq Require Import Core.Core IEEE754.Binary IEEE754.Bits.
From Flocq Require IEEE754.BinarySingleNaN.
From SSL.Model Require Import Base Float Value Stdlib.

Local Open Scope Z_scope.

Notation mode_NE := BinarySingleNaN.mode_NE.
Notation mode_ZR := BinarySingleNaN.mode_ZR.
Notation mode_DN := BinarySingleNaN.mode_DN.
Notation mode_UP := BinarySingleNaN.mode_UP.
Notation mode_NA := BinarySingleNaN.mode_NA.

(* ================================================================= *)
(* to_int: Rust `f as i64`                                           *)
(* ================================================================= *)
Definition to_int_b (x : binary64) : Z :=
  match x with
  | B754_nan _ _ _ _ _ => 0
  | B754_zero _ _ _ => 0
  | B754_infinity _ _ s => if s then MIN_INT else MAX_INT
  | B754_finite _ _ s m e _ => clamp_i64 (trunc_finite s m e)
  end.

Lemma float_to_int_b f : float_to_int f = to_int_b (f_of_bits f).
Proof. reflexivity. Qed.

Lemma clamp_i64_range z : in_i64 (clamp_i64 z).
Proof.
  unfold clamp_i64, in_i64.
  destruct (Z.ltb_spec z MIN_INT); [unfold MIN_INT, MAX_INT, two63; lia|].
  destruct (Z.ltb_spec MAX_INT z); [unfold MIN_INT, MAX_INT, two63; lia|]. lia.
Qed.

Lemma clamp_i64_id z : in_i64 z -> clamp_i64 z = z.
Proof.
  unfold clamp_i64, in_i64. intros H.
  destruct (Z.ltb_spec z MIN_INT); [lia|]. destruct (Z.ltb_spec MAX_INT z); [lia|]. reflexivity.
Qed.

Lemma clamp_i64_mono a b : a <= b -> clamp_i64 a <= clamp_i64 b.
Proof.
  unfold clamp_i64. intros H.
  destruct (Z.ltb_spec a MIN_INT); destruct (Z.ltb_spec b MIN_INT);
    destruct (Z.ltb_spec MAX_INT a); destruct (Z.ltb_spec MAX_INT b);
    unfold MIN_INT, MAX_INT, two63 in *; lia.
Qed.

(* the cast always lands in i64: it saturates instead of wrapping *)
Theorem float_to_int_in_i64 : forall f, in_i64 (float_to_int f).
Proof.
  intros f. rewrite float_to_int_b. destruct (f_of_bits f) as [s|s| |s m e H]; cbn [to_int_b].
  - unfold in_i64, MIN_INT, MAX_INT, two63. lia.
  - destruct s; unfold in_i64, MIN_INT, MAX_INT, two63; lia.
  - unfold in_i64, MIN_INT, MAX_INT, two63. lia.
  - apply clamp_i64_range.
Qed.

(* NaN -> 0, infinities and everything beyond the range saturate, the fraction is dropped *)
Theorem float_to_int_boundaries :
  float_to_int CANON_NAN = 0 /\
  float_to_int 18444492273895866368 = 0 /\                     (* a negative NaN *)
  float_to_int 9218868437227405312 = MAX_INT /\                (* +inf *)
  float_to_int 18442240474082181120 = MIN_INT /\               (* -inf *)
  float_to_int 4890909195324358656 = MAX_INT /\                (* 2^63 *)
  float_to_int 4890909195324358655 = 9223372036854774784 /\    (* the float just below 2^63 *)
  float_to_int 4890909195324358657 = MAX_INT /\                (* the float just above 2^63 *)
  float_to_int 14114281232179134464 = MIN_INT /\               (* -2^63 *)
  float_to_int 14114281232179134463 = -9223372036854774784 /\  (* just above -2^63 *)
  float_to_int 14114281232179134465 = MIN_INT /\               (* just below -2^63 *)
  float_to_int 4891288408196988160 = MAX_INT /\                (* 1e19 *)
  float_to_int 14114660445051763968 = MIN_INT /\               (* -1e19 *)
  float_to_int 9218868437227405311 = MAX_INT /\                (* f64::MAX *)
  float_to_int 0 = 0 /\ float_to_int 9223372036854775808 = 0 /\ (* +0.0, -0.0 *)
  float_to_int 1 = 0 /\                                         (* least subnormal *)
  float_to_int 4612811918334230528 = 2 /\                      (* 2.5 *)
  float_to_int 13836183955189006336 = -2 /\                    (* -2.5 *)
  float_to_int 4607182418800017407 = 0 /\                      (* 0.9999999999999999 *)
  float_to_int 13830554455654793215 = 0.                       (* -1.0 + ulp: -0.99.. *)
Proof. vm_compute. repeat split. Qed.

Lemma radix2_val : radix_val radix2 = 2.
Proof. reflexivity. Qed.

(* truncation toward zero of (-1)^s m 2^e, in the reals *)
Lemma trunc_finite_real s m e :
  trunc_finite s m e = Ztrunc (F2R (Float radix2 (cond_Zopp s (Z.pos m)) e)).
Proof.
  rewrite F2R_cond_Zopp.
  assert (P : (0 <= F2R (Float radix2 (Z.pos m) e))%R).
  { apply F2R_ge_0. cbn. lia. }
  assert (T : Ztrunc (F2R (Float radix2 (Z.pos m) e)) =
              if 0 <=? e then Z.pos m * 2 ^ e else Z.pos m / 2 ^ (- e)).
  { rewrite Ztrunc_floor by exact P. unfold F2R. cbn [Fnum Fexp].
    destruct (Z.leb_spec 0 e) as [He|He].
    - rewrite <- IZR_Zpower by exact He. rewrite radix2_val. rewrite <- mult_IZR. apply Zfloor_IZR.
    - replace e with (- (- e)) at 1 by lia. rewrite bpow_opp.
      rewrite <- IZR_Zpower by lia. rewrite radix2_val.
      apply Zfloor_div. apply Z.pow_nonzero; lia. }
  unfold trunc_finite. rewrite <- T.
  destruct s; cbn [cond_Ropp].
  - rewrite Ztrunc_opp. reflexivity.
  - reflexivity.
Qed.

(* for every finite float: truncate the real value toward zero, then saturate *)
Theorem to_int_b_real : forall x : binary64,
  is_finite 53 1024 x = true -> to_int_b x = clamp_i64 (Ztrunc (B2R 53 1024 x)).
Proof.
  intros x F. destruct x as [s|s| |s m e H]; try discriminate F; cbn [to_int_b B2R].
  - rewrite Ztrunc_IZR. reflexivity.
  - rewrite trunc_finite_real. reflexivity.
Qed.

Theorem float_to_int_real : forall f,
  is_finite 53 1024 (f_of_bits f) = true ->
  float_to_int f = clamp_i64 (Ztrunc (B2R 53 1024 (f_of_bits f))).
Proof. intros f F. rewrite float_to_int_b. apply to_int_b_real. exact F. Qed.

(* monotone on finite floats: a larger real value never casts to a smaller integer *)
Theorem float_to_int_mono : forall f g,
  is_finite 53 1024 (f_of_bits f) = true -> is_finite 53 1024 (f_of_bits g) = true ->
  (B2R 53 1024 (f_of_bits f) <= B2R 53 1024 (f_of_bits g))%R ->
  float_to_int f <= float_to_int g.
Proof.
  intros f g Ff Fg H. rewrite !float_to_int_real by assumption.
  apply clamp_i64_mono. apply Ztrunc_le. exact H.
Qed.

(* ================================================================= *)
(* to_float: Rust `i as f64`                                         *)
(* ================================================================= *)
Definition int_to_float_b (z : Z) : binary64 :=
  binary_normalize 53 1024 Hprec64 Hmax64 mode_NE z 0 false.

Lemma f_of_bits_of_f (x : binary64) : is_nan 53 1024 x = false -> f_of_bits (bits_of_f x) = x.
Proof.
  intros N. unfold bits_of_f, f_of_bits. rewrite N.
  apply (binary_float_of_bits_of_binary_float 52 11 eq_refl eq_refl eq_refl x).
Qed.

Lemma F2R_int z : F2R (Float radix2 z 0) = IZR z.
Proof. unfold F2R. cbn [Fnum Fexp bpow]. apply Rmult_1_r. Qed.

Lemma two53_bpow : IZR 9007199254740992 = bpow radix2 53.
Proof. rewrite <- IZR_Zpower by lia. reflexivity. Qed.

(* integers up to 2^53 in magnitude are binary64 numbers *)
Lemma int_format z :
  - 9007199254740992 <= z <= 9007199254740992 ->
  generic_format radix2 (FLT_exp (3 - 1024 - 53) 53) (IZR z).
Proof.
  intros H.
  destruct (Z.eq_dec z 9007199254740992) as [->|N1].
  { rewrite two53_bpow. apply generic_format_bpow. unfold FLT_exp. lia. }
  destruct (Z.eq_dec z (- 9007199254740992)) as [->|N2].
  { change (IZR (- 9007199254740992)) with (- IZR 9007199254740992)%R. rewrite two53_bpow. apply generic_format_opp. apply generic_format_bpow. unfold FLT_exp. lia. }
  apply generic_format_FLT. apply (FLT_spec radix2 (3 - 1024 - 53) 53 (IZR z) (Float radix2 z 0)).
  - symmetry. apply F2R_int.
  - cbn [Fnum]. change (Zpower radix2 53) with 9007199254740992. lia.
  - cbn [Fexp]. lia.
Qed.

Lemma int_to_float_b_correct z :
  - 9007199254740992 <= z <= 9007199254740992 ->
  B2R 53 1024 (int_to_float_b z) = IZR z /\ is_finite 53 1024 (int_to_float_b z) = true.
Proof.
  intros H. unfold int_to_float_b.
  pose proof (binary_normalize_correct 53 1024 Hprec64 Hmax64 mode_NE z 0 false) as C.
  rewrite F2R_int in C.
  rewrite round_generic in C; [|apply BinarySingleNaN.valid_rnd_round_mode|apply int_format; exact H].
  assert (B : Rlt_bool (Rabs (IZR z)) (bpow radix2 1024) = true).
  { apply Rlt_bool_true. rewrite <- abs_IZR.
    apply Rle_lt_trans with (IZR 9007199254740992).
    - apply IZR_le. lia.
    - rewrite two53_bpow. apply bpow_lt. lia. }
  rewrite B in C. destruct C as [C1 [C2 _]]. split; assumption.
Qed.

(* docs: to_int / to_float "convert value to int / float": exact on integers up to 2^53 *)
Theorem to_int_to_float : forall z,
  - 9007199254740992 <= z <= 9007199254740992 -> float_to_int (int_to_float z) = z.
Proof.
  intros z H. destruct (int_to_float_b_correct z H) as [R F].
  unfold int_to_float. fold (int_to_float_b z).
  rewrite float_to_int_b. rewrite f_of_bits_of_f.
  - rewrite to_int_b_real by exact F. rewrite R, Ztrunc_IZR. apply clamp_i64_id.
    unfold in_i64, MIN_INT, MAX_INT, two63. lia.
  - destruct (int_to_float_b z); try discriminate F; reflexivity.
Qed.

(* in general the float is the correctly rounded integer (round to nearest, ties to even) *)
Theorem int_to_float_real : forall z,
  in_i64 z ->
  let x := f_of_bits (int_to_float z) in
  is_finite 53 1024 x = true /\
  B2R 53 1024 x = round radix2 (FLT_exp (3 - 1024 - 53) 53) ZnearestE (IZR z).
Proof.
  intros z Hz. cbv zeta. unfold int_to_float. fold (int_to_float_b z).
  pose proof (binary_normalize_correct 53 1024 Hprec64 Hmax64 mode_NE z 0 false) as C.
  rewrite F2R_int in C. fold (int_to_float_b z) in C.
  match type of C with
  | (if ?b then _ else _) => assert (B : b = true)
  end.
  { apply Rlt_bool_true.
    apply Rle_lt_trans with (bpow radix2 63).
    - apply abs_round_le_generic.
      + apply FLT_exp_valid. reflexivity.
      + apply BinarySingleNaN.valid_rnd_round_mode.
      + apply generic_format_bpow. apply Zle_bool_imp_le. reflexivity.
      + rewrite <- abs_IZR. rewrite <- IZR_Zpower by lia. apply IZR_le.
        unfold in_i64, MIN_INT, MAX_INT, two63 in Hz. change (radix2 ^ 63) with 9223372036854775808. lia.
    - apply bpow_lt. lia. }
  rewrite B in C. destruct C as [C1 [C2 _]].
  rewrite f_of_bits_of_f.
  - split; assumption.
  - destruct (int_to_float_b z); try discriminate C2; reflexivity.
Qed.

Theorem int_to_float_examples :
  int_to_float 0 = 0 /\ int_to_float 1 = F_ONE /\ int_to_float (-1) = 13830554455654793216 /\
  int_to_float MAX_INT = 4890909195324358656 /\          (* 2^63: rounds up *)
  int_to_float MIN_INT = 14114281232179134464 /\         (* -2^63: exact *)
  int_to_float 9007199254740993 = 4845873199050653696 /\ (* 2^53+1 -> 2^53: tie to even *)
  int_to_float 9007199254740995 = 4845873199050653698.   (* 2^53+3 -> 2^53+4 *)
Proof. vm_compute. repeat split. Qed.

(* ================================================================= *)
(* floor / ceil / trunc / round / round_ties_even                    *)
(* ================================================================= *)
Lemma f_nearby_real m f :
  is_finite 53 1024 (f_of_bits f) = true ->
  is_finite 53 1024 (f_of_bits (f_nearby m f)) = true /\
  B2R 53 1024 (f_of_bits (f_nearby m f)) =
    IZR (BinarySingleNaN.round_mode m (B2R 53 1024 (f_of_bits f))).
Proof.
  intros F. unfold f_nearby.
  destruct (Bnearbyint_correct 53 1024 Hmax64 unop_nan_pl64 m (f_of_bits f)) as [R [Fi _]].
  rewrite round_FIX_IZR in R. rewrite F in Fi.
  rewrite f_of_bits_of_f.
  - split; assumption.
  - destruct (Bnearbyint 53 1024 Hmax64 unop_nan_pl64 m (f_of_bits f)); try discriminate Fi; reflexivity.
Qed.

(* docs: "the largest integer less than or equal to num" *)
Theorem std_floor_real : forall f,
  is_finite 53 1024 (f_of_bits f) = true ->
  B2R 53 1024 (f_of_bits (std_floor f)) = IZR (Zfloor (B2R 53 1024 (f_of_bits f))).
Proof. intros f F. exact (proj2 (f_nearby_real mode_DN f F)). Qed.

(* docs: "the smallest integer greater than or equal to num" *)
Theorem std_ceil_real : forall f,
  is_finite 53 1024 (f_of_bits f) = true ->
  B2R 53 1024 (f_of_bits (std_ceil f)) = IZR (Zceil (B2R 53 1024 (f_of_bits f))).
Proof. intros f F. exact (proj2 (f_nearby_real mode_UP f F)). Qed.

(* docs: "the integer part of num ... truncated towards zero" *)
Theorem std_trunc_real : forall f,
  is_finite 53 1024 (f_of_bits f) = true ->
  B2R 53 1024 (f_of_bits (std_trunc f)) = IZR (Ztrunc (B2R 53 1024 (f_of_bits f))).
Proof. intros f F. exact (proj2 (f_nearby_real mode_ZR f F)). Qed.

(* docs: "the nearest integer ... half-way cases away from 0.0" *)
Theorem std_round_real : forall f,
  is_finite 53 1024 (f_of_bits f) = true ->
  B2R 53 1024 (f_of_bits (std_round f)) = IZR (ZnearestA (B2R 53 1024 (f_of_bits f))).
Proof. intros f F. exact (proj2 (f_nearby_real mode_NA f F)). Qed.

(* docs: "rounds half-way cases to the number with an even least significant digit" *)
Theorem std_round_ties_even_real : forall f,
  is_finite 53 1024 (f_of_bits f) = true ->
  B2R 53 1024 (f_of_bits (std_round_ties_even f)) = IZR (ZnearestE (B2R 53 1024 (f_of_bits f))).
Proof. intros f F. exact (proj2 (f_nearby_real mode_NE f F)). Qed.

(* infinities and NaN pass through; signed zeros keep their sign *)
Theorem rounding_specials :
  std_floor 9218868437227405312 = 9218868437227405312 /\
  std_ceil 18442240474082181120 = 18442240474082181120 /\
  std_trunc CANON_NAN = CANON_NAN /\ std_round CANON_NAN = CANON_NAN /\
  std_floor 9223372036854775808 = 9223372036854775808 /\           (* floor(-0.0) = -0.0 *)
  std_ceil 13826050856027422720 = 9223372036854775808 /\           (* ceil(-0.5) = -0.0 *)
  std_round 4602678819172646912 = F_ONE /\                         (* round(0.5) = 1.0 *)
  std_round_ties_even 4602678819172646912 = 0 /\                   (* ties_even(0.5) = 0.0 *)
  std_round 4612811918334230528 = 4613937818241073152 /\           (* round(2.5) = 3.0 *)
  std_round_ties_even 4612811918334230528 = 4611686018427387904 /\ (* ties_even(2.5) = 2.0 *)
  std_fract 4612811918334230528 = 4602678819172646912.             (* fract(2.5) = 0.5 *)
Proof. vm_compute. repeat split. Qed.

(* ================================================================= *)
(* classification, raw bits                                          *)
(* ================================================================= *)
Theorem classification_examples :
  std_is_nan CANON_NAN = true /\ std_is_nan 9218868437227405312 = false /\
  std_is_infinite 9218868437227405312 = true /\ std_is_infinite 18442240474082181120 = true /\
  std_is_finite 9218868437227405311 = true /\ std_is_finite CANON_NAN = false /\
  std_is_subnormal 1 = true /\ std_is_subnormal 4503599627370495 = true /\
  std_is_subnormal 4503599627370496 = false /\ std_is_subnormal 0 = false /\
  std_is_normal 4503599627370496 = true /\ std_is_normal 0 = false /\
  std_is_normal 1 = false /\ std_is_normal 9218868437227405312 = false /\
  std_is_sign_negative 9223372036854775808 = true /\ std_is_sign_positive 0 = true.
Proof. vm_compute. repeat split. Qed.

(* exactly one of the five IEEE classes *)
Theorem classification_partition : forall f,
  let z := (f_exp_field f =? 0) && (f_mant_field f =? 0) in
  xorb (xorb (xorb (xorb (std_is_nan f) (std_is_infinite f)) (std_is_normal f)) (std_is_subnormal f)) z = true.
Proof.
  intros f. cbv zeta. unfold std_is_nan, std_is_infinite, std_is_normal, std_is_subnormal.
  destruct (f_exp_field f =? 2047) eqn:E1; destruct (f_exp_field f =? 0) eqn:E0;
    destruct (f_mant_field f =? 0); try reflexivity.
  all: apply Z.eqb_eq in E1; apply Z.eqb_eq in E0; lia.
Qed.

Theorem is_finite_iff : forall f, std_is_finite f = negb (std_is_nan f || std_is_infinite f).
Proof.
  intros f. unfold std_is_finite, std_is_nan, std_is_infinite.
  destruct (f_exp_field f =? 2047); destruct (f_mant_field f =? 0); reflexivity.
Qed.

(* to_bits / from_bits are inverse on the 64-bit patterns (NaNs are identified by the model) *)
Theorem to_bits_from_bits : forall z,
  in_i64 z -> f_is_nan (u64 z) = false -> std_to_bits (std_from_bits z) = z.
Proof.
  intros z Hz N. unfold std_to_bits, std_from_bits, fcanon.
  unfold f_is_nan in N. unfold bits_of_f. rewrite N.
  unfold f_of_bits, b64_of_bits, bits_of_b64.
  rewrite bits_of_binary_float_of_bits.
  - unfold in_i64, MIN_INT, MAX_INT in Hz. unfold wrap64, u64.
    rewrite Zplus_mod_idemp_l. rewrite Z.mod_small; unfold two63, two64 in *; lia.
  - pose proof (Z.mod_pos_bound z two64 eq_refl). unfold u64, two64 in *. cbn. lia.
Qed.

(* IterRef3.v — C11b, part 3: `a~`.
   [UIter] on an array value calls the ITER helper closure (build/helpers.sx) with the array
   and the default of its RUN-TIME element type, and re-types the closure that comes back.
   ITER allocates a counter cell holding -1, asks std.len for the length and returns
       () -> (bool, int) { i += 1; if *i < len { return (true, array[*i]) } return (false, default) }
   with i, len, array, default replaced by constants (the constant-propagation pass).
   [iter_create]: the store and the function value that result, explicitly;
   [iter_represents]: that value represents the abstract [array_iter] of Model/Iter.v over the
   counter cell, as long as the counter does not overflow. *)
From SSL.Model Require Import Base Ty Float Value Ops Seq Syntax Rt Recreate Exec Check Top Iter.
From SSL.Lemmas Require Import ExecLemmas OpsLemmas CellLemmas SoundLemmas SoundHelpers SoundBoot RecrMono IterRef1 IterRef2.
Local Open Scope Z_scope.
Arguments exec : simpl never.
Arguments matches : simpl never.

Definition dummy_c : closure := mkClosure None [] (BLang []) TVoid.
(* the helper closures of the booted store *)
Definition c_LEN : closure := Eval vm_compute in nth 0 (s_funs st_boot) dummy_c.
Definition c_MAP : closure := Eval vm_compute in nth 1 (s_funs st_boot) dummy_c.
Definition c_FILTER : closure := Eval vm_compute in nth 2 (s_funs st_boot) dummy_c.
Definition c_ITER : closure := Eval vm_compute in nth 3 (s_funs st_boot) dummy_c.

(* the body of the function literal ITER returns, as the checker left it *)
Definition iter_inner_src : list instr := Eval vm_compute in
  match c_body c_ITER with BLang [_; _; IUn UReturn (IAnonFn _ b _)] => b | _ => [] end.

(* the store still holds the helper closures at their booted indices *)
Definition helpers_in (st : store) : Prop :=
  forall k c, nth_error (s_funs st_boot) k = Some c -> nth_error (s_funs st) k = Some c.

Lemma helpers_in_boot : helpers_in st_boot.
Proof. intros k c H. exact H. Qed.

Lemma helpers_in_ext st st' : helpers_in st -> funs_ext st st' -> helpers_in st'.
Proof. intros H HE k c Hk. apply HE, H, Hk. Qed.

(* the body of the closure ITER returns for the array [VArr et vs], the default d, the
   counter cell loc *)
Definition iter_body (loc : nat) (et : ty) (vs : list value) (d : value) : list instr :=
  [IBin AssignAdd (IVar (VMut loc TInt)) (IVar (VInt 1));
   IIfElse
     (IBin Lower (IUn UIndirection (IVar (VMut loc TInt))) (IVar (VInt (zlen vs))))
     (IBlock
        [IUn UReturn
           (ITuple
              [IVar (VBool true);
               IBin At (IVar (VArr et vs)) (IUn UIndirection (IVar (VMut loc TInt)))])])
     (IVar VVoid);
   IUn UReturn (IVar (VTup [VBool false; d]))].

Definition t_iter_int : ty := TTup [TBool; TInt].

(* the store after `a~` : two events, the counter cell, the closure ITER made and its
   re-typed copy *)
Definition iter_store (st : store) (et : ty) (vs : list value) (d : value) : store :=
  let v := VArr et vs in
  let loc := length (s_cells st) in
  mkStore (s_funs st ++ [mkClosure None [] (BLang (iter_body loc et vs d)) t_iter_int;
                         mkClosure None [] (BLang (iter_body loc et vs d)) (TTup [TBool; et])])
          (s_cells st ++ [VInt (-1)])
          (EvCall 0 [v] :: EvAlloc loc (VInt (-1)) :: EvCall 3 [v; d] :: s_log st).

Section Iter.
Variable powf : fbits -> fbits -> fbits.
Notation E := (exec powf pre_boot).

Lemma iter_call k st sc et vs d :
  nth_error (s_funs st) 0 = Some c_LEN -> nth_error (s_funs st) 3 = Some c_ITER ->
  call_def (E (4 + k)) 3 [VArr et vs; d] st sc =
  (mkStore (s_funs st ++ [mkClosure None [] (BLang (iter_body (length (s_cells st)) et vs d)) t_iter_int])
           (s_cells st ++ [VInt (-1)])
           (EvCall 0 [VArr et vs] :: EvAlloc (length (s_cells st)) (VInt (-1))
              :: EvCall 3 [VArr et vs; d] :: s_log st),
   sc, SVal (VFun (length (s_funs st)) [] t_iter_int)).
Proof.
  intros H0 H3. cbn [plus].
  eapply call_return; [exact H3|reflexivity|].
  (* i := mut -1 *)
  eapply evl_val_stop; [eapply ev_set; eapply ev_mut; apply ev_var|].
  (* len := std.len(array) *)
  eapply evl_val_stop.
  { eapply ev_set. eapply ev_call.
    - eapply ev_field; [apply ev_var|reflexivity].
    - eapply ev_tuple. eapply evl_val_ok; [apply ev_local; reflexivity|apply evl_nil].
    - eapply call_native_len; [exact H0|reflexivity]. }
  (* return () -> (bool, int) { .. } *)
  eapply evl_stop; [|intros w Hw; discriminate Hw].
  eapply ev_return. rewrite exec_S_IAnonFn.
  match goal with |- context [recreate_body ?p ?s ?l ?b] =>
    replace (recreate_body p s l b) with (Ok (iter_body (length (s_cells st)) et vs d))
      by (vm_compute; reflexivity) end.
  reflexivity.
Qed.

(* `a~` on the array value [VArr et vs]; ds = the default of its element type and the store
   after its allocation (the unit value when the element type has none: S13a) *)
Theorem uiter_correct k sx st sc et vs :
  let ds := match alloc_default et st with Some ds => ds | None => (VVoid, st) end in
  nth_error (s_funs (snd ds)) 0 = Some c_LEN -> nth_error (s_funs (snd ds)) 3 = Some c_ITER ->
  un_dispatch pre_boot (E (4 + k)) (4 + k) sx UIter (VArr et vs) st sc =
  (iter_store (snd ds) et vs (fst ds), sc,
   SVal (VFun (S (length (s_funs (snd ds)))) [] (TTup [TBool; et]))).
Proof.
  intros ds H0 H3. cbn [un_dispatch as_type]. change (element_type (TArr et)) with (Some et).
  cbv beta iota. fold ds. destruct ds as [d st1]. cbn [fst snd] in *.
  change (p_iter pre_boot) with 3%nat. rewrite (iter_call k st1 sc et vs d H0 H3).
  cbn [retyped_def s_funs]. rewrite nth_error_app2 by lia. rewrite Nat.sub_diag. cbn [nth_error].
  unfold alloc_fun, iter_store. cbn [s_funs s_cells s_log c_name c_params c_body map].
  rewrite app_length. cbn [length]. rewrite <- app_assoc. cbn [app].
  replace (length (s_funs st1) + 1)%nat with (S (length (s_funs st1))) by lia. reflexivity.
Qed.

(* ---- the closure made by `a~` represents the abstract array iterator ---- *)
Definition arr_getc (loc : nat) (st : store) : Z :=
  match nth_error (s_cells st) loc with Some (VInt i) => i | _ => 0 end.
Definition arr_setc (id loc : nat) (z : Z) (st : store) : store :=
  write_cell (log_event st (EvCall id [])) loc (VInt z).
(* what the iterator needs of the store: its closure, and an integer >= -1 in its counter cell *)
Definition arr_foot (id loc : nat) (et : ty) (vs : list value) (d : value) (st : store) : Prop :=
  nth_error (s_funs st) id = Some (mkClosure None [] (BLang (iter_body loc et vs d)) (TTup [TBool; et])) /\
  exists i, nth_error (s_cells st) loc = Some (VInt i) /\ -1 <= i.
(* nothing is claimed once the counter would overflow (after 2^63 - 1 calls) *)
Definition guarded {A} (g : store -> bool) (it : iter store A) : iter store A :=
  fun st => if g st then it st else NoFuel.
Definition arr_iter (id loc : nat) (vs : list value) : iter store value :=
  guarded (fun st => arr_getc loc st <? MAX_INT) (array_iter (arr_getc loc) (arr_setc id loc) vs).

Theorem iter_represents id loc et vs d (F : store -> Prop) :
  (forall st, F st -> arr_foot id loc et vs d st) ->
  (forall st z, F st -> -1 <= z -> F (arr_setc id loc z st)) ->
  represents powf pre_boot 7 F (VFun id [] (TTup [TBool; et])) (arr_iter id loc vs).
Proof.
  intros Hfoot Hkeep. split; [eexists; eexists; eexists; reflexivity|].
  intros n sc st Hn HF. unfold arr_iter, guarded.
  destruct (arr_getc loc st <? MAX_INT) eqn:Hg; [|exact I].
  destruct (Hfoot st HF) as [Hc [i0 [Hcell Hi0]]].
  assert (Hget : arr_getc loc st = i0) by (unfold arr_getc; rewrite Hcell; reflexivity).
  rewrite Hget in Hg. apply Z.ltb_lt in Hg.
  unfold array_iter. rewrite Hget. set (i := i0 + 1).
  assert (Hwrap : rs_wrapping_add i0 1 = i).
  { unfold rs_wrapping_add. apply wrap64_id. unfold in_i64, MIN_INT, MAX_INT, two63 in *. unfold i. lia. }
  assert (Hloc : (loc < length (s_cells st))%nat) by (apply nth_error_Some; congruence).
  set (st0 := log_event st (EvCall id [])).
  assert (HF1 : F (arr_setc id loc i st)) by (apply Hkeep; [exact HF|unfold i; lia]).
  replace (0 <=? i) with true by (symmetry; apply Z.leb_le; unfold i; lia). cbn [andb].
  destruct (le_lt_dec 7 n) as [_|Hlt]; [|lia].
  destruct n as [|[|[|[|[|[|[|k]]]]]]]; try lia. cbn [call_v_def].
  (* the first statement: i += 1 *)
  assert (S1 : E (S (S (S (S (S (S (S k))))))) st0 [frame_def id (mkClosure None [] (BLang (iter_body loc et vs d)) (TTup [TBool; et])) []]
                 (IBin AssignAdd (IVar (VMut loc TInt)) (IVar (VInt 1))) =
               (arr_setc id loc i st, [[]], SVal (VInt i))).
  { rewrite <- Hwrap. eapply ev_opassign; [reflexivity|apply ev_var|apply ev_var|exact Hcell|reflexivity]. }
  assert (Hread : nth_error (s_cells (arr_setc id loc i st)) loc = Some (VInt i)).
  { unfold arr_setc. apply read_after_write. exact Hloc. }
  fold (zlen vs).
  destruct (i <? zlen vs) eqn:Hlen.
  - (* an element *)
    apply Z.ltb_lt in Hlen.
    destruct (nth_error vs (Z.to_nat i)) as [x|] eqn:Hx.
    2:{ exfalso. apply nth_error_None in Hx. unfold zlen in Hlen. unfold i in *. lia. }
    split; [|split; [exact HF1|apply funs_ext_same; reflexivity]].
    eapply call_return; [exact Hc|reflexivity|]. fold st0.
    eapply evl_val_stop; [exact S1|].
    eapply evl_stop; [|intros w Hw; discriminate Hw].
    eapply ev_if.
    + eapply ev_op; [reflexivity|eapply ev_deref; [apply ev_var|exact Hread]|apply ev_var|reflexivity].
    + replace (i <? zlen vs) with true by (symmetry; apply Z.ltb_lt; exact Hlen).
      eapply ev_block_stop. eapply evl_stop; [|intros w Hw; discriminate Hw].
      eapply ev_return. eapply ev_tuple.
      eapply evl_val_ok; [apply ev_var|].
      eapply evl_val_ok; [|apply evl_nil].
      eapply ev_at; [apply ev_var|eapply ev_deref; [apply ev_var|exact Hread]|].
      unfold at_exec, at_index.
      replace (0 <=? i) with true by (symmetry; apply Z.leb_le; unfold i; lia).
      replace (i <? zlen vs) with true by (symmetry; apply Z.ltb_lt; exact Hlen).
      rewrite Hx. reflexivity.
  - (* exhausted *)
    split; [|split; [exact HF1|apply funs_ext_same; reflexivity]]. exists d.
    eapply call_return; [exact Hc|reflexivity|]. fold st0.
    eapply evl_val_stop; [exact S1|].
    eapply evl_val_stop.
    + eapply ev_if.
      * eapply ev_op; [reflexivity|eapply ev_deref; [apply ev_var|exact Hread]|apply ev_var|reflexivity].
      * cbn [op_exec]. rewrite Hlen. apply ev_var.
    + eapply evl_stop; [|intros w Hw; discriminate Hw]. eapply ev_return. apply ev_var.
Qed.

(* the elements are elements of the array *)
Lemma arr_iter_yields_in F id loc vs : yields_in F (arr_iter id loc vs) (fun x => In x vs).
Proof.
  intros st x st' _ H. unfold arr_iter, guarded, array_iter in H.
  destruct (arr_getc loc st <? MAX_INT); [|discriminate H].
  destruct ((0 <=? arr_getc loc st + 1) && (arr_getc loc st + 1 <? Z.of_nat (length vs)));
    [|discriminate H].
  destruct (nth_error vs (Z.to_nat (arr_getc loc st + 1))) as [y|] eqn:Hy; [|discriminate H].
  injection H as <- _. apply (nth_error_In _ _ Hy).
Qed.

(* the footprint of the array iterator survives its own steps *)
Lemma arr_foot_keep id loc et vs d st z :
  arr_foot id loc et vs d st -> -1 <= z -> arr_foot id loc et vs d (arr_setc id loc z st).
Proof.
  intros [Hc [i0 [Hcell _]]] Hz. split; [exact Hc|]. exists z. split; [|exact Hz].
  unfold arr_setc. apply read_after_write. cbn [log_event s_cells]. apply nth_error_Some. congruence.
Qed.

Corollary iter_represents_self id loc et vs d :
  represents powf pre_boot 7 (arr_foot id loc et vs d) (VFun id [] (TTup [TBool; et])) (arr_iter id loc vs).
Proof.
  apply (iter_represents id loc et vs d (arr_foot id loc et vs d)); [auto|].
  intros st z H Hz. apply arr_foot_keep; assumption.
Qed.

(* the abstract array iterator, collected from position j on, gives the rest of the array *)
Lemma arr_collect id loc et vs d : zlen vs < MAX_INT ->
  forall m j st acc, arr_foot id loc et vs d st -> arr_getc loc st = Z.of_nat j - 1 ->
  (j <= length vs)%nat -> (length vs - j < m)%nat ->
  exists st', collect_loop m (arr_iter id loc vs) acc st = Some (acc ++ skipn j vs, st') /\
              arr_foot id loc et vs d st'.
Proof.
  intros Hmax. induction m as [|m IH]; intros j st acc HF Hg Hj Hm; [lia|].
  cbn [collect_loop]. unfold arr_iter at 1, guarded. rewrite Hg.
  replace (Z.of_nat j - 1 <? MAX_INT) with true
    by (symmetry; apply Z.ltb_lt; unfold zlen in Hmax; lia).
  unfold array_iter. rewrite Hg. replace (Z.of_nat j - 1 + 1) with (Z.of_nat j) by lia.
  replace (0 <=? Z.of_nat j) with true by (symmetry; apply Z.leb_le; lia). cbn [andb].
  rewrite Nat2Z.id.
  assert (HF1 : arr_foot id loc et vs d (arr_setc id loc (Z.of_nat j) st))
    by (apply arr_foot_keep; [exact HF|lia]).
  assert (Hg1 : arr_getc loc (arr_setc id loc (Z.of_nat j) st) = Z.of_nat (S j) - 1).
  { destruct HF1 as [_ [i1 [Hc1 _]]]. destruct HF as [_ [i0 [Hc0 _]]].
    unfold arr_getc. unfold arr_setc. rewrite read_after_write; [lia|].
    cbn [log_event s_cells]. apply nth_error_Some. congruence. }
  destruct (Z.of_nat j <? Z.of_nat (length vs)) eqn:Hlt.
  - apply Z.ltb_lt in Hlt.
    destruct (nth_error vs j) as [x|] eqn:Hx; [|apply nth_error_None in Hx; lia].
    destruct (IH (S j) _ (acc ++ [x]) HF1 Hg1 ltac:(lia) ltac:(lia)) as [st' [Hc HF']].
    exists st'. split; [|exact HF']. rewrite Hc. f_equal. f_equal.
    rewrite <- app_assoc. f_equal. cbn [app].
    clear - Hx. revert j Hx. induction vs as [|y l IHl]; intros [|j] Hx; try discriminate Hx.
    + injection Hx as ->. reflexivity.
    + cbn [skipn]. apply IHl. exact Hx.
  - apply Z.ltb_ge in Hlt. assert (j = length vs) by lia. subst j.
    exists (arr_setc id loc (Z.of_nat (length vs)) st). split; [|exact HF1].
    rewrite skipn_all. rewrite app_nil_r. reflexivity.
Qed.

(* `a~ $]` = a, end to end: on the array value [VArr et vs] whose element type has a default
   (d, allocated in st1), collecting the iterator gives back the elements, in order *)
Theorem iter_collect_correct k sx sx' st sc et vs d st1 :
  alloc_default et st = Some (d, st1) ->
  nth_error (s_funs st1) 0 = Some c_LEN -> nth_error (s_funs st1) 3 = Some c_ITER ->
  zlen vs < MAX_INT ->
  let n := (6 + length vs + k)%nat in
  exists st',
    (let '(st2, sc2, s) := un_dispatch pre_boot (E n) n sx UIter (VArr et vs) st sc in
     match s with
     | SVal w => un_dispatch pre_boot (E (S n)) (S n) sx' UCollect w st2 sc2
     | _ => (st2, sc2, s)
     end) = (st', sc, SVal (arr_of vs)).
Proof.
  intros Ha H0 H3 Hmax n.
  pose proof (uiter_correct (2 + length vs + k) sx st sc et vs) as U. rewrite Ha in U.
  cbn [fst snd] in U. specialize (U H0 H3).
  change (4 + (2 + length vs + k))%nat with n in U. rewrite U.
  set (id := S (length (s_funs st1))). set (loc := length (s_cells st1)).
  assert (HF : arr_foot id loc et vs d (iter_store st1 et vs d)).
  { split.
    - unfold iter_store, id. cbn [s_funs]. rewrite nth_error_app2 by lia.
      replace (S (length (s_funs st1)) - length (s_funs st1))%nat with 1%nat by lia. reflexivity.
    - exists (-1). split; [|lia]. unfold iter_store, loc. cbn [s_cells].
      rewrite nth_error_app2 by lia. rewrite Nat.sub_diag. reflexivity. }
  assert (Hg : arr_getc loc (iter_store st1 et vs d) = Z.of_nat 0 - 1).
  { destruct HF as [_ [i0 [Hc _]]]. unfold arr_getc, iter_store, loc in *. cbn [s_cells] in *.
    rewrite nth_error_app2 by lia. rewrite Nat.sub_diag. reflexivity. }
  destruct (arr_collect id loc et vs d Hmax (S n) 0 _ [] HF Hg ltac:(lia) ltac:(unfold n; lia))
    as [st' [Hc HF']].
  exists st'. cbn [app skipn] in Hc.
  apply (collect_correct powf pre_boot 7 _ _ _ (iter_represents_self id loc et vs d) (S n) sx' sc _ vs st');
    [unfold n; lia|exact HF|exact Hc].
Qed.

End Iter.

(* PrattLemmas.v — proofs about the Pratt parser model (Model/Pratt.v) and the finite
   facts about SimpleSL's operator tables (Gen/GenPratt.v, GenDocPrec.v, GenOpMap.v).

   Part 1 (generic, unbounded): for ANY table, the parser returns the precedence-correct tree,
   that tree is unique, the parser is total on well-formed token lists and never runs out of
   fuel.
   Part 2 (finite, by computation) is Lemmas/PrattTables.v. *)
From SSL.Model Require Import Base Pratt.
From Coq Require Import NArith Lia.

(* ================================================================================== *)
(* Part 1: the algorithm, for any table                                               *)
(* ================================================================================== *)
Section Generic.
Variables A O : Type.
Variable info : O -> option (affix * nat).
Notation tok := (Pratt.tok A O).
Notation ptree := (Pratt.ptree A O).

Lemma pexpr_eq : forall fuel rbp (toks : list tok),
  pexpr info fuel rbp toks =
  match toks with
  | [] => Panic
  | tk :: rest =>
    match fuel with
    | 0 => OutOfFuel
    | S f =>
      match tk with
      | TAtom a => ploop info f rbp (PAtom a) rest
      | TOp o =>
        match info o with
        | Some (Prefix, p) =>
          match pexpr info f (p - 1) rest with
          | Ok (rhs, rest') => ploop info f rbp (PPre o rhs) rest'
          | Err e => Err e | Panic => Panic | OutOfFuel => OutOfFuel
          end
        | _ => Panic
        end
      end
    end
  end.
Proof. intros fuel rbp toks. destruct fuel; reflexivity. Qed.

Lemma ploop_eq : forall fuel rbp (lhs : ptree) (toks : list tok),
  ploop info fuel rbp lhs toks =
  match toks with
  | [] => Ok (lhs, [])
  | TAtom _ :: _ => Panic
  | TOp o :: rest =>
    match info o with
    | None => Panic
    | Some (af, p) =>
      if rbp <? p then
        match fuel with
        | 0 => OutOfFuel
        | S f =>
          match af with
          | InfixL =>
            match pexpr info f p rest with
            | Ok (rhs, rest') => ploop info f rbp (PIn o lhs rhs) rest'
            | Err e => Err e | Panic => Panic | OutOfFuel => OutOfFuel
            end
          | InfixR =>
            match pexpr info f (p - 1) rest with
            | Ok (rhs, rest') => ploop info f rbp (PIn o lhs rhs) rest'
            | Err e => Err e | Panic => Panic | OutOfFuel => OutOfFuel
            end
          | Postfix => ploop info f rbp (PPost o lhs) rest
          | Prefix => Panic
          end
        end
      else Ok (lhs, toks)
    end
  end.
Proof. intros fuel rbp lhs toks. destruct fuel; reflexivity. Qed.

(* ---- lookups ---- *)
Lemma prec_of_lookup : forall o af p, info o = Some (af, p) -> prec_of info o = p.
Proof. intros o af p H. unfold prec_of. rewrite H. reflexivity. Qed.

Lemma is_infix_lookup : forall o, is_infix info o = true ->
  exists af p, info o = Some (af, p) /\ (af = InfixL \/ af = InfixR).
Proof.
  intros o H. unfold is_infix, affix_of in H.
  destruct (info o) as [[af p]|] eqn:E; [|discriminate].
  exists af, p. split; [reflexivity|]. destruct af; try discriminate; auto.
Qed.

Lemma is_prefix_lookup : forall o, is_prefix info o = true ->
  exists p, info o = Some (Prefix, p).
Proof.
  intros o H. unfold is_prefix, affix_of in H.
  destruct (info o) as [[af p]|] eqn:E; [|discriminate].
  destruct af; try discriminate. exists p. reflexivity.
Qed.

Lemma is_postfix_lookup : forall o, is_postfix info o = true ->
  exists p, info o = Some (Postfix, p).
Proof.
  intros o H. unfold is_postfix, affix_of in H.
  destruct (info o) as [[af p]|] eqn:E; [|discriminate].
  destruct af; try discriminate. exists p. reflexivity.
Qed.

(* ---- how a run ends ---- *)
(* the loop of expr(rbp) stops in front of [rest] *)
Definition stops (rbp : nat) (rest : list tok) : Prop :=
  match rest with
  | [] => True
  | TAtom _ :: _ => False
  | TOp q :: _ => info q <> None /\ prec_of info q <= rbp
  end.

(* no operator on the right edge of [t] would give its operand to the operator that follows *)
Definition holds (t : ptree) (rest : list tok) : Prop :=
  match rest with
  | TOp q :: _ => rspine_ge info (prec_of info q) t
  | _ => True
  end.

Definition rest_ok (rest : list tok) : Prop :=
  match rest with
  | [] => True
  | TAtom _ :: _ => False
  | TOp q :: _ => info q <> None
  end.

Lemma stops_rest_ok : forall rbp rest, stops rbp rest -> rest_ok rest.
Proof. intros rbp [|[a|q] rest]; cbn; tauto. Qed.

Lemma loop_stop : forall fuel rbp t rest, stops rbp rest -> ploop info fuel rbp t rest = Ok (t, rest).
Proof.
  intros fuel rbp t rest Hs. rewrite ploop_eq.
  destruct rest as [|[a|q] rest]; cbn in Hs; [reflexivity|contradiction|].
  destruct Hs as [Hn Hle].
  destruct (info q) as [[af p]|] eqn:E; [|congruence].
  rewrite (prec_of_lookup _ _ _ E) in Hle.
  assert (Hlt : (rbp <? p) = false) by (apply Nat.ltb_ge; exact Hle).
  rewrite Hlt. reflexivity.
Qed.

(* ---- soundness ---- *)
Definition expr_sound (fuel : nat) : Prop :=
  forall rbp (toks : list tok) t rest,
    pexpr info fuel rbp toks = Ok (t, rest) ->
    toks = yield t ++ rest /\ wf_tree info t /\ lspine_gt info rbp t /\ stops rbp rest /\ holds t rest.

Definition loop_sound (fuel : nat) : Prop :=
  forall rbp (lhs : ptree) (toks : list tok) t rest,
    ploop info fuel rbp lhs toks = Ok (t, rest) ->
    wf_tree info lhs -> lspine_gt info rbp lhs -> holds lhs toks ->
    exists mid, toks = mid ++ rest /\ yield t = yield lhs ++ mid /\
                wf_tree info t /\ lspine_gt info rbp t /\ stops rbp rest /\ holds t rest.

Lemma holds_after_right : forall o rhs rest' k,
  k = rbp_of info o ->
  stops k rest' -> holds rhs rest' ->
  forall wrap : ptree,
    (forall j, rspine_ge info j wrap <-> (j <= rbp_of info o /\ rspine_ge info j rhs)) ->
    holds wrap rest'.
Proof.
  intros o rhs rest' k Hk Hs Hh wrap Hw.
  destruct rest' as [|[a|q] rest']; cbn in *; auto.
  apply Hw. split; [subst k; tauto | exact Hh].
Qed.

Lemma loop_sound_step : forall fuel,
  (forall f, fuel = S f -> expr_sound f /\ loop_sound f) -> loop_sound fuel.
Proof.
  intros fuel IH rbp lhs toks t rest Hrun Hwf Hls Hh.
  rewrite ploop_eq in Hrun.
  destruct toks as [|[a|o] toks'].
  - injection Hrun as <- <-. exists []. cbn. rewrite app_nil_r. auto 10.
  - discriminate.
  - destruct (info o) as [[af p]|] eqn:E; [|discriminate].
    destruct (rbp <? p) eqn:Hlt.
    + apply Nat.ltb_lt in Hlt.
      destruct fuel as [|f]; [discriminate|].
      destruct (IH f eq_refl) as [IHe IHl].
      assert (Hp : prec_of info o = p) by (eapply prec_of_lookup; eassumption).
      cbn in Hh. rewrite Hp in Hh.
      destruct af.
      * discriminate.
      * (* postfix *)
        destruct (IHl _ _ _ _ _ Hrun) as (mid & Hm & Hy & Hw & Hl & Hst & Hho).
        -- cbn. unfold is_postfix, affix_of. rewrite E, Hp. auto.
        -- cbn. rewrite Hp. auto.
        -- destruct toks' as [|[a|q] ?]; cbn; auto.
        -- exists (TOp o :: mid). cbn. rewrite Hm.
           split; [reflexivity|]. split; [|auto].
           rewrite Hy. cbn. rewrite <- app_assoc. reflexivity.
      * (* left-associative infix *)
        destruct (pexpr info f p toks') as [[rhs rest']| | |] eqn:Ee; try discriminate.
        apply IHe in Ee. destruct Ee as (Ht & Hwr & Hlr & Hsr & Hhr).
        assert (Hrb : rbp_of info o = p) by (unfold rbp_of; rewrite E; reflexivity).
        destruct (IHl _ _ _ _ _ Hrun) as (mid & Hm & Hy & Hw & Hl & Hst & Hho).
        -- cbn. unfold is_infix, affix_of. rewrite E, Hp, Hrb. auto.
        -- cbn. rewrite Hp. auto.
        -- eapply (holds_after_right o rhs rest' p); eauto.
           intros j. cbn. tauto.
        -- exists (TOp o :: yield rhs ++ mid). rewrite Ht, Hm.
           split; [cbn; rewrite <- app_assoc; reflexivity|]. split; [|auto].
           rewrite Hy. cbn. rewrite <- !app_assoc. reflexivity.
      * (* right-associative infix *)
        destruct (pexpr info f (p - 1) toks') as [[rhs rest']| | |] eqn:Ee; try discriminate.
        apply IHe in Ee. destruct Ee as (Ht & Hwr & Hlr & Hsr & Hhr).
        assert (Hrb : rbp_of info o = p - 1) by (unfold rbp_of; rewrite E; reflexivity).
        destruct (IHl _ _ _ _ _ Hrun) as (mid & Hm & Hy & Hw & Hl & Hst & Hho).
        -- cbn. unfold is_infix, affix_of. rewrite E, Hp, Hrb. auto.
        -- cbn. rewrite Hp. auto.
        -- eapply (holds_after_right o rhs rest' (p - 1)); eauto.
           intros j. cbn. tauto.
        -- exists (TOp o :: yield rhs ++ mid). rewrite Ht, Hm.
           split; [cbn; rewrite <- app_assoc; reflexivity|]. split; [|auto].
           rewrite Hy. cbn. rewrite <- !app_assoc. reflexivity.
    + apply Nat.ltb_ge in Hlt.
      injection Hrun as <- <-. exists []. cbn. rewrite app_nil_r.
      repeat split; auto.
      * congruence.
      * erewrite prec_of_lookup; eauto.
Qed.

Lemma expr_sound_step : forall f, expr_sound f -> loop_sound f -> expr_sound (S f).
Proof.
  intros f IHe IHl rbp toks t rest Hrun.
  rewrite pexpr_eq in Hrun.
  destruct toks as [|[a|o] toks']; [discriminate| |].
  - destruct (IHl _ _ _ _ _ Hrun) as (mid & Hm & Hy & Hw & Hl & Hst & Hho); cbn; auto.
    + destruct toks' as [|[?|?] ?]; cbn; auto.
    + cbn in Hy. rewrite Hm, Hy. cbn. auto 10.
  - destruct (info o) as [[af p]|] eqn:E; [|discriminate].
    destruct af; try discriminate.
    destruct (pexpr info f (p - 1) toks') as [[rhs rest']| | |] eqn:Ee; try discriminate.
    apply IHe in Ee. destruct Ee as (Ht & Hwr & Hlr & Hsr & Hhr).
    assert (Hrb : rbp_of info o = p - 1) by (unfold rbp_of; rewrite E; reflexivity).
    destruct (IHl _ _ _ _ _ Hrun) as (mid & Hm & Hy & Hw & Hl & Hst & Hho).
    + cbn. unfold is_prefix, affix_of. rewrite E, Hrb. auto.
    + cbn. auto.
    + eapply (holds_after_right o rhs rest' (p - 1)); eauto.
      intros j. cbn. tauto.
    + rewrite Ht, Hm. cbn in Hy. rewrite Hy. cbn. rewrite <- app_assoc. auto 10.
Qed.

Lemma sound_all : forall fuel, expr_sound fuel /\ loop_sound fuel.
Proof.
  induction fuel as [|f [IHe IHl]].
  - split.
    + intros rbp toks t rest Hrun. rewrite pexpr_eq in Hrun. destruct toks; discriminate.
    + apply loop_sound_step. intros f Hf. discriminate.
  - split.
    + apply expr_sound_step; assumption.
    + apply loop_sound_step. intros f' Hf. injection Hf as <-. split; assumption.
Qed.

Lemma pexpr_sound : forall fuel rbp (toks : list tok) t rest,
  pexpr info fuel rbp toks = Ok (t, rest) ->
  toks = yield t ++ rest /\ wf_tree info t /\ lspine_gt info rbp t /\ stops rbp rest /\ holds t rest.
Proof. intros fuel. apply (proj1 (sound_all fuel)). Qed.

Lemma yield_nonempty : forall t : ptree, (1 <= length (yield t))%nat.
Proof. destruct t; cbn; try rewrite app_length; cbn; lia. Qed.

Lemma pexpr_shorter : forall fuel rbp (toks : list tok) t rest,
  pexpr info fuel rbp toks = Ok (t, rest) -> (length rest < length toks)%nat.
Proof.
  intros fuel rbp toks t rest H. apply pexpr_sound in H. destruct H as (-> & _).
  rewrite app_length. pose proof (yield_nonempty t). lia.
Qed.

Lemma ploop_not_longer : forall fuel rbp (lhs : ptree) (toks : list tok) t rest,
  ploop info fuel rbp lhs toks = Ok (t, rest) -> (length rest <= length toks)%nat.
Proof.
  (* does not need the invariants: by induction on fuel, using pexpr_shorter *)
  induction fuel as [|f IH]; intros rbp lhs toks t rest H; rewrite ploop_eq in H.
  - destruct toks as [|[a|o] toks']; [injection H as <- <-; cbn; lia|discriminate|].
    destruct (info o) as [[af p]|]; [|discriminate].
    destruct (rbp <? p); [discriminate|]. injection H as <- <-. lia.
  - destruct toks as [|[a|o] toks']; [injection H as <- <-; cbn; lia|discriminate|].
    destruct (info o) as [[af p]|]; [|discriminate].
    destruct (rbp <? p); [|injection H as <- <-; lia].
    destruct af; try discriminate.
    + apply IH in H. cbn. lia.
    + destruct (pexpr info f p toks') as [[rhs rest']| | |] eqn:Ee; try discriminate.
      apply pexpr_shorter in Ee. apply IH in H. cbn. lia.
    + destruct (pexpr info f (p - 1) toks') as [[rhs rest']| | |] eqn:Ee; try discriminate.
      apply pexpr_shorter in Ee. apply IH in H. cbn. lia.
Qed.

(* ---- the model never runs out of fuel when fuel >= number of tokens ---- *)
Lemma no_out_of_fuel : forall fuel,
  (forall rbp (toks : list tok), (length toks <= fuel)%nat -> pexpr info fuel rbp toks <> OutOfFuel) /\
  (forall rbp (lhs : ptree) (toks : list tok), (length toks <= fuel)%nat -> ploop info fuel rbp lhs toks <> OutOfFuel).
Proof.
  induction fuel as [|f [IHe IHl]].
  - split.
    + intros rbp toks Hl. destruct toks; [|cbn in Hl; lia]. rewrite pexpr_eq. discriminate.
    + intros rbp lhs toks Hl. destruct toks; [|cbn in Hl; lia]. rewrite ploop_eq. discriminate.
  - split.
    + intros rbp toks Hl. rewrite pexpr_eq.
      destruct toks as [|[a|o] toks']; [discriminate| |]; cbn in Hl.
      * apply IHl. lia.
      * destruct (info o) as [[af p]|]; [|discriminate].
        destruct af; try discriminate.
        destruct (pexpr info f (p - 1) toks') as [[rhs rest']| | |] eqn:Ee; try discriminate.
        -- apply pexpr_shorter in Ee. apply IHl. lia.
        -- exfalso. revert Ee. apply IHe. lia.
    + intros rbp lhs toks Hl. rewrite ploop_eq.
      destruct toks as [|[a|o] toks']; [discriminate|discriminate|]; cbn in Hl.
      destruct (info o) as [[af p]|]; [|discriminate].
      destruct (rbp <? p); [|discriminate].
      destruct af; try discriminate.
      * apply IHl. lia.
      * destruct (pexpr info f p toks') as [[rhs rest']| | |] eqn:Ee; try discriminate.
        -- apply pexpr_shorter in Ee. apply IHl. lia.
        -- exfalso. revert Ee. apply IHe. lia.
      * destruct (pexpr info f (p - 1) toks') as [[rhs rest']| | |] eqn:Ee; try discriminate.
        -- apply pexpr_shorter in Ee. apply IHl. lia.
        -- exfalso. revert Ee. apply IHe. lia.
Qed.

Lemma pratt_never_out_of_fuel : forall (toks : list tok), pratt_run info toks <> OutOfFuel.
Proof. intros toks. unfold pratt_run. apply (proj1 (no_out_of_fuel (length toks))). lia. Qed.

(* ---- main soundness theorem ---- *)
Lemma pratt_shape : forall (toks : list tok) t,
  pratt_parse info toks = Some t -> yield t = toks /\ wf_tree info t.
Proof.
  intros toks t H. unfold pratt_parse, pratt_run in H.
  destruct (pexpr info (length toks) 0 toks) as [[t' rest]| | |] eqn:E; try discriminate.
  destruct rest; [|discriminate]. injection H as ->.
  apply pexpr_sound in E. destruct E as (Ht & Hw & _). rewrite app_nil_r in Ht. auto.
Qed.

(* pest's parse() drops whatever expr(0) leaves; with positive precedences nothing is left *)
Lemma pratt_run_consumes_all : info_pos info ->
  forall (toks : list tok) t rest, pratt_run info toks = Ok (t, rest) -> rest = [].
Proof.
  intros Hpos toks t rest H. unfold pratt_run in H. apply pexpr_sound in H.
  destruct H as (_ & _ & _ & Hs & _).
  destruct rest as [|[a|q] rest]; cbn in Hs; [reflexivity|contradiction|].
  destruct Hs as [Hn Hle].
  destruct (info q) as [[af p]|] eqn:E; [|congruence].
  pose proof (Hpos _ _ _ E). rewrite (prec_of_lookup _ _ _ E) in Hle. lia.
Qed.

(* ---- completeness: every precedence-correct tree is what the parser builds ---- *)
Lemma expr_is_loop : forall t : ptree, wf_tree info t ->
  forall fuel rbp rest,
    lspine_gt info rbp t -> holds t rest -> rest_ok rest ->
    (length (yield t) + length rest <= fuel)%nat ->
    exists fuel', (length rest <= fuel')%nat /\
                  pexpr info fuel rbp (yield t ++ rest) = ploop info fuel' rbp t rest.
Proof.
  induction t as [a|o r IHr|o l IHl|o l IHl r IHr]; intros Hwf fuel rbp rest Hls Hh Hok Hlen.
  - cbn in Hlen. destruct fuel as [|f]; [lia|]. exists f. split; [lia|]. reflexivity.
  - cbn in Hwf. destruct Hwf as (Hpre & Hwr & Hlr).
    destruct (is_prefix_lookup _ Hpre) as [p E].
    assert (Hrb : rbp_of info o = p - 1) by (unfold rbp_of; rewrite E; reflexivity).
    cbn in Hlen. destruct fuel as [|f]; [lia|].
    cbn [yield app]. rewrite pexpr_eq. rewrite E.
    assert (Hhr : holds r rest) by (destruct rest as [|[?|q] ?]; cbn in *; tauto).
    rewrite Hrb in Hlr.
    destruct (IHr Hwr f (p - 1) rest Hlr Hhr Hok) as (f2 & Hf2 & Heq); [lia|].
    rewrite Heq. rewrite loop_stop.
    + exists f. split; [lia|reflexivity].
    + destruct rest as [|[?|q] ?]; cbn in *; auto. rewrite <- Hrb. tauto.
  - cbn in Hwf. destruct Hwf as (Hpost & Hwl & Hrl).
    destruct (is_postfix_lookup _ Hpost) as [p E].
    assert (Hp : prec_of info o = p) by (eapply prec_of_lookup; eassumption).
    cbn in Hls. destruct Hls as [Hlt Hll].
    cbn [yield]. rewrite <- app_assoc. cbn [app].
    cbn in Hlen. rewrite app_length in Hlen. cbn in Hlen.
    destruct (IHl Hwl fuel rbp (TOp o :: rest) Hll) as (f1 & Hf1 & Heq).
    + cbn. exact Hrl.
    + cbn. congruence.
    + cbn. lia.
    + rewrite Heq. cbn in Hf1. destruct f1 as [|f1']; [lia|].
      rewrite ploop_eq. rewrite E.
      assert (Hb : (rbp <? p) = true) by (apply Nat.ltb_lt; lia). rewrite Hb.
      exists f1'. split; [lia|reflexivity].
  - cbn in Hwf. destruct Hwf as (Hin & Hwl & Hwr & Hrl & Hlr).
    destruct (is_infix_lookup _ Hin) as (af & p & E & Haf).
    assert (Hp : prec_of info o = p) by (eapply prec_of_lookup; eassumption).
    cbn in Hls. destruct Hls as [Hlt Hll].
    cbn [yield]. rewrite <- app_assoc. cbn [app].
    cbn in Hlen. rewrite app_length in Hlen. cbn in Hlen.
    destruct (IHl Hwl fuel rbp (TOp o :: yield r ++ rest) Hll) as (f1 & Hf1 & Heq).
    + cbn. exact Hrl.
    + cbn. congruence.
    + cbn. rewrite app_length. lia.
    + rewrite Heq. cbn in Hf1. rewrite app_length in Hf1. destruct f1 as [|f1']; [lia|].
      rewrite ploop_eq. rewrite E.
      assert (Hb : (rbp <? p) = true) by (apply Nat.ltb_lt; lia). rewrite Hb.
      assert (Hhr : holds r rest) by (destruct rest as [|[?|q] ?]; cbn in *; tauto).
      assert (Hst : stops (rbp_of info o) rest).
      { destruct rest as [|[?|q] ?]; cbn in *; auto. tauto. }
      destruct (IHr Hwr f1' (rbp_of info o) rest Hlr Hhr Hok) as (f2 & Hf2 & Heq2); [lia|].
      destruct Haf as [-> | ->].
      * assert (Hrb : rbp_of info o = p) by (unfold rbp_of; rewrite E; reflexivity).
        rewrite Hrb in *. rewrite Heq2. rewrite loop_stop by exact Hst.
        exists f1'. split; [lia|reflexivity].
      * assert (Hrb : rbp_of info o = p - 1) by (unfold rbp_of; rewrite E; reflexivity).
        rewrite Hrb in *. rewrite Heq2. rewrite loop_stop by exact Hst.
        exists f1'. split; [lia|reflexivity].
Qed.

Lemma wf_lspine_0 : info_pos info -> forall t : ptree, wf_tree info t -> lspine_gt info 0 t.
Proof.
  intros Hpos. induction t as [a|o r IHr|o l IHl|o l IHl r IHr]; cbn; intros Hwf; auto.
  - destruct Hwf as (Hpost & Hwl & _). destruct (is_postfix_lookup _ Hpost) as [p E].
    rewrite (prec_of_lookup _ _ _ E). pose proof (Hpos _ _ _ E). split; [lia|auto].
  - destruct Hwf as (Hin & Hwl & _). destruct (is_infix_lookup _ Hin) as (af & p & E & _).
    rewrite (prec_of_lookup _ _ _ E). pose proof (Hpos _ _ _ E). split; [lia|auto].
Qed.

Lemma pratt_complete : info_pos info ->
  forall t : ptree, wf_tree info t -> pratt_parse info (yield t) = Some t.
Proof.
  intros Hpos t Hwf. unfold pratt_parse, pratt_run.
  destruct (expr_is_loop t Hwf (length (yield t)) 0 []) as (f' & _ & Heq); cbn; auto.
  - apply wf_lspine_0; assumption.
  - lia.
  - rewrite app_nil_r in Heq. rewrite Heq. rewrite ploop_eq. reflexivity.
Qed.

Lemma shape_unique : info_pos info ->
  forall t1 t2 : ptree, yield t1 = yield t2 -> wf_tree info t1 -> wf_tree info t2 -> t1 = t2.
Proof.
  intros Hpos t1 t2 Hy H1 H2.
  pose proof (pratt_complete Hpos t1 H1) as P1.
  pose proof (pratt_complete Hpos t2 H2) as P2.
  rewrite Hy in P1. congruence.
Qed.

(* ---- totality on well-formed token lists ---- *)
Lemma total_all : forall fuel,
  (forall rbp (toks : list tok), wf_toks_from info true toks = true -> (length toks <= fuel)%nat ->
     exists t rest, pexpr info fuel rbp toks = Ok (t, rest) /\ wf_toks_from info false rest = true) /\
  (forall rbp (lhs : ptree) (toks : list tok), wf_toks_from info false toks = true -> (length toks <= fuel)%nat ->
     exists t rest, ploop info fuel rbp lhs toks = Ok (t, rest) /\ wf_toks_from info false rest = true).
Proof.
  induction fuel as [|f [IHe IHl]].
  - split.
    + intros rbp toks Hw Hl. destruct toks; [discriminate|cbn in Hl; lia].
    + intros rbp lhs toks Hw Hl. destruct toks; [|cbn in Hl; lia].
      exists lhs, []. rewrite ploop_eq. auto.
  - split.
    + intros rbp toks Hw Hl. rewrite pexpr_eq.
      destruct toks as [|[a|o] toks']; [discriminate| |]; cbn in Hw, Hl.
      * apply IHl; [exact Hw|lia].
      * unfold affix_of in Hw.
        destruct (info o) as [[af p]|]; [|discriminate].
        destruct af; try discriminate.
        destruct (IHe (p - 1) toks' Hw) as (rhs & rest' & Ee & Hw'); [lia|].
        rewrite Ee. apply pexpr_shorter in Ee. apply IHl; [exact Hw'|lia].
    + intros rbp lhs toks Hw Hl. rewrite ploop_eq.
      destruct toks as [|[a|o] toks']; [exists lhs, []; auto|discriminate|]; cbn in Hl.
      pose proof Hw as Hw0. cbn in Hw. unfold affix_of in Hw.
      destruct (info o) as [[af p]|]; [|discriminate].
      destruct (rbp <? p); [|exists lhs, (TOp o :: toks'); auto].
      destruct af; try discriminate.
      * apply IHl; [exact Hw|lia].
      * destruct (IHe p toks' Hw) as (rhs & rest' & Ee & Hw'); [lia|].
        rewrite Ee. apply pexpr_shorter in Ee. apply IHl; [exact Hw'|lia].
      * destruct (IHe (p - 1) toks' Hw) as (rhs & rest' & Ee & Hw'); [lia|].
        rewrite Ee. apply pexpr_shorter in Ee. apply IHl; [exact Hw'|lia].
Qed.

Lemma pratt_total : info_pos info ->
  forall (toks : list tok), wf_toks info toks = true -> exists t, pratt_parse info toks = Some t.
Proof.
  intros Hpos toks Hw. unfold wf_toks in Hw.
  destruct (proj1 (total_all (length toks)) 0 toks Hw) as (t & rest & E & _); [lia|].
  assert (rest = []) by (eapply pratt_run_consumes_all; eauto). subst rest.
  exists t. unfold pratt_parse, pratt_run. rewrite E. reflexivity.
Qed.

(* conversely, the parser only accepts well-formed token lists *)
Lemma yield_wf_toks : forall t : ptree, wf_tree info t ->
  forall rest, wf_toks_from info true (yield t ++ rest) = wf_toks_from info false rest.
Proof.
  induction t as [a|o r IHr|o l IHl|o l IHl r IHr]; intros Hwf rest; cbn in Hwf |- *.
  - reflexivity.
  - destruct Hwf as (Hpre & Hwr & _). destruct (is_prefix_lookup _ Hpre) as [p E].
    unfold affix_of. rewrite E. apply IHr. exact Hwr.
  - destruct Hwf as (Hpost & Hwl & _). destruct (is_postfix_lookup _ Hpost) as [p E].
    rewrite <- app_assoc. rewrite IHl by exact Hwl. cbn. unfold affix_of. rewrite E. reflexivity.
  - destruct Hwf as (Hin & Hwl & Hwr & _). destruct (is_infix_lookup _ Hin) as (af & p & E & Haf).
    rewrite <- app_assoc. rewrite IHl by exact Hwl. cbn. unfold affix_of. rewrite E.
    destruct Haf as [-> | ->]; apply IHr; exact Hwr.
Qed.

Lemma pratt_accepts_only_wf : forall (toks : list tok) t, pratt_parse info toks = Some t -> wf_toks info toks = true.
Proof.
  intros toks t H. apply pratt_shape in H. destruct H as [<- Hw].
  unfold wf_toks. rewrite <- (app_nil_r (yield t)). rewrite yield_wf_toks by exact Hw. reflexivity.
Qed.

(* ---- the familiar local reading of wf_tree at the root of the operands ---- *)
Lemma wf_root_right : forall o (l : ptree) o' l' r',
  wf_tree info (PIn o l (PIn o' l' r')) -> rbp_of info o < prec_of info o'.
Proof. intros o l o' l' r' H. cbn in H. tauto. Qed.

Lemma wf_root_left : forall o o' (l' : ptree) r' r,
  wf_tree info (PIn o (PIn o' l' r') r) -> prec_of info o <= rbp_of info o'.
Proof. intros o o' l' r' r H. cbn in H. tauto. Qed.

Lemma rbp_infix_cases : forall o, is_infix info o = true ->
  (affix_of info o = Some InfixL /\ rbp_of info o = prec_of info o) \/
  (affix_of info o = Some InfixR /\ rbp_of info o = prec_of info o - 1).
Proof.
  intros o H. destruct (is_infix_lookup _ H) as (af & p & E & Haf).
  unfold affix_of, rbp_of, prec_of. rewrite E. destruct Haf as [-> | ->]; auto.
Qed.

(* right operand: a root operator there binds strictly tighter, or equally tight under a
   right-associative parent; left operand: strictly tighter, or equally tight and itself
   left-associative *)
Lemma wf_root_right_prec : info_pos info -> forall o (l : ptree) o' l' r',
  wf_tree info (PIn o l (PIn o' l' r')) ->
  prec_of info o < prec_of info o' \/
  (prec_of info o = prec_of info o' /\ affix_of info o = Some InfixR).
Proof.
  intros Hpos o l o' l' r' H. pose proof (wf_root_right _ _ _ _ _ H) as Hlt.
  cbn in H. destruct H as (Hin & _).
  destruct (is_infix_lookup _ Hin) as (af & p & E & Haf).
  pose proof (Hpos _ _ _ E) as Hp.
  unfold rbp_of in Hlt. unfold affix_of. rewrite (prec_of_lookup _ _ _ E). rewrite E in *.
  destruct Haf as [-> | ->]; [left; lia|].
  destruct (Nat.eq_dec p (prec_of info o')); [right; auto|left; lia].
Qed.

Lemma wf_root_left_prec : info_pos info -> forall o o' (l' : ptree) r' r,
  wf_tree info (PIn o (PIn o' l' r') r) ->
  prec_of info o < prec_of info o' \/
  (prec_of info o = prec_of info o' /\ affix_of info o' = Some InfixL).
Proof.
  intros Hpos o o' l' r' r H. pose proof (wf_root_left _ _ _ _ _ H) as Hle.
  cbn in H. destruct H as (_ & (Hin' & _) & _).
  destruct (is_infix_lookup _ Hin') as (af & p & E & Haf).
  pose proof (Hpos _ _ _ E) as Hp.
  unfold rbp_of in Hle. unfold affix_of. rewrite (prec_of_lookup _ _ _ E). rewrite E in *.
  destruct Haf as [-> | ->]; [|left; lia].
  destruct (Nat.eq_dec (prec_of info o) p); [right; auto|left; lia].
Qed.

(* ---- [left_first] is what the parser does with two adjacent operators ---- *)
Ltac by_complete Hpos :=
  apply (pratt_complete Hpos); cbn; repeat split; auto; try lia.

Lemma left_first_infix_infix : info_pos info -> forall o1 o2 (a b c : A),
  is_infix info o1 = true -> is_infix info o2 = true ->
  pratt_parse info [TAtom a; TOp o1; TAtom b; TOp o2; TAtom c] =
  Some (if left_first info o1 o2 then PIn o2 (PIn o1 (PAtom a) (PAtom b)) (PAtom c)
        else PIn o1 (PAtom a) (PIn o2 (PAtom b) (PAtom c))).
Proof.
  intros Hpos o1 o2 a b c H1 H2. unfold left_first.
  destruct (prec_of info o2 <=? rbp_of info o1) eqn:E.
  - apply Nat.leb_le in E.
    change [TAtom a; TOp o1; TAtom b; TOp o2; TAtom c]
      with (yield (PIn o2 (PIn o1 (PAtom a) (PAtom b)) (PAtom c))).
    by_complete Hpos.
  - apply Nat.leb_gt in E.
    change [TAtom a; TOp o1; TAtom b; TOp o2; TAtom c]
      with (yield (PIn o1 (PAtom a) (PIn o2 (PAtom b) (PAtom c)))).
    by_complete Hpos.
Qed.

Lemma left_first_prefix_infix : info_pos info -> forall o1 o2 (a b : A),
  is_prefix info o1 = true -> is_infix info o2 = true ->
  pratt_parse info [TOp o1; TAtom a; TOp o2; TAtom b] =
  Some (if left_first info o1 o2 then PIn o2 (PPre o1 (PAtom a)) (PAtom b)
        else PPre o1 (PIn o2 (PAtom a) (PAtom b))).
Proof.
  intros Hpos o1 o2 a b H1 H2. unfold left_first.
  destruct (prec_of info o2 <=? rbp_of info o1) eqn:E.
  - apply Nat.leb_le in E.
    change [TOp o1; TAtom a; TOp o2; TAtom b] with (yield (PIn o2 (PPre o1 (PAtom a)) (PAtom b))).
    by_complete Hpos.
  - apply Nat.leb_gt in E.
    change [TOp o1; TAtom a; TOp o2; TAtom b] with (yield (PPre o1 (PIn o2 (PAtom a) (PAtom b)))).
    by_complete Hpos.
Qed.

Lemma left_first_infix_postfix : info_pos info -> forall o1 o2 (a b : A),
  is_infix info o1 = true -> is_postfix info o2 = true ->
  pratt_parse info [TAtom a; TOp o1; TAtom b; TOp o2] =
  Some (if left_first info o1 o2 then PPost o2 (PIn o1 (PAtom a) (PAtom b))
        else PIn o1 (PAtom a) (PPost o2 (PAtom b))).
Proof.
  intros Hpos o1 o2 a b H1 H2. unfold left_first.
  destruct (prec_of info o2 <=? rbp_of info o1) eqn:E.
  - apply Nat.leb_le in E.
    change [TAtom a; TOp o1; TAtom b; TOp o2] with (yield (PPost o2 (PIn o1 (PAtom a) (PAtom b)))).
    by_complete Hpos.
  - apply Nat.leb_gt in E.
    change [TAtom a; TOp o1; TAtom b; TOp o2] with (yield (PIn o1 (PAtom a) (PPost o2 (PAtom b)))).
    by_complete Hpos.
Qed.

Lemma left_first_prefix_postfix : info_pos info -> forall o1 o2 (a : A),
  is_prefix info o1 = true -> is_postfix info o2 = true ->
  pratt_parse info [TOp o1; TAtom a; TOp o2] =
  Some (if left_first info o1 o2 then PPost o2 (PPre o1 (PAtom a)) else PPre o1 (PPost o2 (PAtom a))).
Proof.
  intros Hpos o1 o2 a H1 H2. unfold left_first.
  destruct (prec_of info o2 <=? rbp_of info o1) eqn:E.
  - apply Nat.leb_le in E.
    change [TOp o1; TAtom a; TOp o2] with (yield (PPost o2 (PPre o1 (PAtom a)))).
    by_complete Hpos.
  - apply Nat.leb_gt in E.
    change [TOp o1; TAtom a; TOp o2] with (yield (PPre o1 (PPost o2 (PAtom a)))).
    by_complete Hpos.
Qed.

End Generic.


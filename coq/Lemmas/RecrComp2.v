(* RecrComp2.v — the pass composed with itself, part 2: statements, lines, function
   literals, and the induction.  See RecrComp1 for the statement. *)
From SSL.Model Require Import Base Ty Float Value Ops Seq Syntax Rt Recreate Exec Check.
From SSL.Lemmas Require Import ExecLemmas FoldLemmas RecrUnfold RecrMono RecrDefs RecrKeeps RecrSim1 RecrSim2
  RecrSyn RecrComp1.

Arguments matches : simpl never.
Local Open Scope Z_scope.

Section Comp.
Variable powf : fbits -> fbits -> fbits.
Variable cl : bool.
Variable sc : scopes.
Notation R1 f := (recreate powf f []).
Notation R2 g := (recreate powf g sc).
Notation Rel := (Rel sc).
Notation cexpr := (cexpr powf cl sc).

Definition cline (f : nat) : Prop := forall e1 i i1 e1',
  R1 f e1 i = Ok (i1, e1') -> wfi cl true i = true -> dok i1 = true ->
  forall e2, Rel e1 e2 -> forall g1 g, (isize i1 <= g1)%nat -> (isize i <= g)%nat ->
  R2 g1 e2 i1 = R2 g e2 i /\
  forall i2 e2', R2 g e2 i = Ok (i2, e2') -> Rel e1' e2'.

(* ================================================================= *)
(* lines of a block                                                   *)
(* ================================================================= *)
Lemma clines f (IH : cline f) : forall l e1 l1 e1',
  rec_list_def (R1 f) l e1 = Ok (l1, e1') ->
  forallb (wfi cl true) l = true -> forallb dok l1 = true ->
  forall e2, Rel e1 e2 -> forall g1 g, (list_isize l1 <= g1)%nat -> (list_isize l <= g)%nat ->
  rec_list_def (R2 g1) l1 e2 = rec_list_def (R2 g) l e2.
Proof.
  induction l as [|x l IHl]; intros e1 l1 e1' H W D e2 HR g1 g G1 G.
  - injection H as <- <-. reflexivity.
  - cbn [rec_list_def] in H. fold (rec_list_def (R1 f)) in H.
    inv_bind H p Hp. destruct p as [x1 e1a]. inv_bind H q Hq. destruct q as [l1' e1b].
    injection H as <- <-.
    cbn [forallb] in W, D. apply andb_true_iff in W. apply andb_true_iff in D.
    destruct W as [Wx Wl]. destruct D as [Dx Dl].
    rewrite list_isize_cons in G1, G.
    cbn [rec_list_def]. fold (rec_list_def (R2 g1)). fold (rec_list_def (R2 g)).
    destruct (IH _ _ _ _ Hp Wx Dx e2 HR g1 g ltac:(lia) ltac:(lia)) as [EQ HR'].
    rewrite EQ. destruct (R2 g e2 x) as [[x2 e2a]| | |] eqn:E2; try reflexivity. cbn [obind].
    rewrite (IHl _ _ _ Hq Wl Dl e2a (HR' _ _ eq_refl) g1 g) by lia. reflexivity.
Qed.

Lemma cc_block f (IH : cline f) e1 body i1 e1' :
  R1 (S f) e1 (IBlock body) = Ok (i1, e1') -> forallb (wfi cl true) body = true -> dok i1 = true ->
  forall e2, Rel e1 e2 -> forall g1 g, (isize i1 <= g1)%nat -> (isize (IBlock body) <= g)%nat ->
  R2 g1 e2 i1 = R2 g e2 (IBlock body).
Proof.
  intros H W D e2 HR g1 g G1 G. rewrite recreate_S_IBlock in H. inv_bind H p Hp. destruct p as [b1 e1a].
  injection H as <- <-. cbn [dok] in D. rewrite isize_IBlock in G1, G.
  destruct g1 as [|g1]; [lia|]. destruct g as [|g]; [lia|]. rewrite !recreate_S_IBlock.
  rewrite (clines f IH _ _ _ _ Hp W D (lenv_push e2) (Rel_push sc _ _ HR) g1 g) by lia. reflexivity.
Qed.

(* ================================================================= *)
(* if, if-set                                                         *)
(* ================================================================= *)
Lemma cc_if f (IH : cexpr f) e1 c t fl i1 e1' :
  R1 (S f) e1 (IIfElse c t fl) = Ok (i1, e1') ->
  wfi cl false c = true -> wfi cl false t = true -> wfi cl false fl = true -> dok i1 = true ->
  forall e2, Rel e1 e2 -> forall g1 g, (isize i1 <= g1)%nat -> (isize (IIfElse c t fl) <= g)%nat ->
  R2 g1 e2 i1 = R2 g e2 (IIfElse c t fl).
Proof.
  intros H Wc Wt Wf D e2 HR g1 g G1 G. rewrite recreate_S_IIfElse in H.
  inv_bind H p Hp. destruct p as [c1 e1a]. pose proof (p1_same powf cl _ _ _ _ _ Hp Wc) as ->.
  cbn [isize] in G. destruct g as [|g]; [lia|]. rewrite recreate_S_IIfElse.
  assert (Hc : (exists b, c1 = IVar (VBool b)) \/ (forall b, c1 <> IVar (VBool b))).
  { destruct c1 as [ | | | | | | | | | | | | | | | | | | | | | |v| | ]; try (right; intros ?; discriminate).
    destruct v as [b| | | | | | | | |]; try (right; intros ?; discriminate). left; eauto. }
  destruct Hc as [[b ->]|Hc].
  - rewrite (direct_const powf cl sc f IH _ _ _ _ e2 g Hp Wc HR) by lia. cbn [obind].
    destruct b; [apply (IH _ _ _ _ H Wt D e2 HR g1 g); lia|apply (IH _ _ _ _ H Wf D e2 HR g1 g); lia].
  - assert (H' : obind (R1 f e1 t) (fun '(t', e) => obind (R1 f e fl) (fun '(f', e) =>
                   Ok (IIfElse c1 t' f', e))) = Ok (i1, e1')).
    { destruct c1; try exact H. destruct v as [b| | | | | | | | |]; try exact H.
      exfalso. exact (Hc b eq_refl). }
    clear H. inv_bind H' q Hq. destruct q as [t1 e1b]. inv_bind H' r Hr. destruct r as [f1 e1c].
    injection H' as <- <-. pose proof (p1_same powf cl _ _ _ _ _ Hq Wt) as ->.
    cbn [dok] in D. repeat rewrite andb_true_iff in D. destruct D as [[Dc Dt] Df].
    cbn [isize] in G1. destruct g1 as [|g1]; [lia|]. rewrite recreate_S_IIfElse.
    rewrite (IH _ _ _ _ Hp Wc Dc e2 HR g1 g) by lia.
    destruct (R2 g e2 c) as [[c2 e2a]| | |] eqn:E2; try reflexivity. cbn [obind].
    pose proof (p2_same powf cl sc _ _ _ _ _ E2 Wc) as ->.
    assert (ET : R2 g1 e2 t1 = R2 g e2 t) by (apply (IH _ _ _ _ Hq Wt Dt e2 HR); lia).
    assert (EF : R2 g1 e2 f1 = R2 g e2 fl) by (apply (IH _ _ _ _ Hr Wf Df e2 HR); lia).
    assert (G2 : obind (R2 g1 e2 t1) (fun '(t', e) => obind (R2 g1 e f1) (fun '(f', e0) => Ok (IIfElse c2 t' f', e0))) =
                 obind (R2 g e2 t) (fun '(t', e) => obind (R2 g e fl) (fun '(f', e0) => Ok (IIfElse c2 t' f', e0)))).
    { rewrite ET. destruct (R2 g e2 t) as [[t2 e2b]| | |] eqn:E3; try reflexivity. cbn [obind].
      pose proof (p2_same powf cl sc _ _ _ _ _ E3 Wt) as ->. rewrite EF. reflexivity. }
    destruct c2; try exact G2. destruct v; try exact G2. destruct b; assumption.
Qed.

Lemma cc_setif f (IH : cexpr f) e1 nm t x ifm els i1 e1' :
  R1 (S f) e1 (ISetIfElse nm t x ifm els) = Ok (i1, e1') ->
  wfi cl false x = true -> wfi cl false ifm = true -> wfi cl false els = true -> dok i1 = true ->
  forall e2, Rel e1 e2 -> forall g1 g, (isize i1 <= g1)%nat -> (isize (ISetIfElse nm t x ifm els) <= g)%nat ->
  R2 g1 e2 i1 = R2 g e2 (ISetIfElse nm t x ifm els).
Proof.
  intros H Wx Wa Wb D e2 HR g1 g G1 G. rewrite recreate_S_ISetIfElse in H.
  inv_bind H p Hp. destruct p as [x1 e1a]. inv_bind H q Hq. destruct q as [a1 e1b].
  inv_bind H r Hr. destruct r as [b1 e1c]. injection H as <- <-.
  pose proof (p1_same powf cl _ _ _ _ _ Hp Wx) as ->.
  cbn [dok] in D. repeat rewrite andb_true_iff in D. destruct D as [[Dx Da] Db].
  cbn [isize] in G1, G. destruct g1 as [|g1]; [lia|]. destruct g as [|g]; [lia|].
  rewrite !recreate_S_ISetIfElse.
  rewrite (IH _ _ _ _ Hp Wx Dx e2 HR g1 g) by lia.
  destruct (R2 g e2 x) as [[x2 e2a]| | |] eqn:E2; try reflexivity. cbn [obind].
  pose proof (p2_same powf cl sc _ _ _ _ _ E2 Wx) as ->.
  rewrite (IH _ _ _ _ Hq Wa Da _ (Rel_bind sc _ _ nm t HR) g1 g) by lia.
  destruct (R2 g (lenv_insert nm (LOther t) (lenv_push e2)) ifm) as [[a2 e2b]| | |]; try reflexivity.
  cbn [obind]. rewrite (IH _ _ _ _ Hr Wb Db e2 HR g1 g) by lia. reflexivity.
Qed.

(* ================================================================= *)
(* match                                                              *)
(* ================================================================= *)
Lemma carm f (IH : cexpr f) a e1 a1 e1' :
  rec_arm_def (R1 f) a e1 = Ok (a1, e1') -> wf_arm cl a = true -> dok_arm a1 = true ->
  forall e2, Rel e1 e2 -> forall g1 g, (arm_isize a1 <= S g1)%nat -> (arm_isize a <= S g)%nat ->
  rec_arm_def (R2 g1) a1 e2 = rec_arm_def (R2 g) a e2.
Proof.
  destruct a as [nm t b|cs b|b]; cbn [rec_arm_def wf_arm]; intros H W D e2 HR g1 g G1 G.
  - inv_bind H p Hp. destruct p as [b1 e1a]. injection H as <- <-. cbn [dok_arm arm_isize rec_arm_def] in *.
    rewrite (IH _ _ _ _ Hp W D _ (Rel_bind sc _ _ nm t HR) g1 g) by lia. reflexivity.
  - inv_bind H p Hp. destruct p as [cs1 e1a]. inv_bind H q Hq. destruct q as [b1 e1b].
    injection H as <- <-. cbn [dok_arm arm_isize rec_arm_def] in *.
    apply andb_true_iff in W. apply andb_true_iff in D. destruct W as [Wc Wb]. destruct D as [Dc Db].
    pose proof (same_env_list powf [] cl f (rec_same_env powf [] cl f) _ _ _ _ Hp Wc) as ->.
    rewrite (clist powf cl sc f IH _ _ _ _ Hp Wc Dc e2 HR g1 g) by lia.
    destruct (rec_list_def (R2 g) cs e2) as [[cs2 e2a]| | |] eqn:E2; try reflexivity. cbn [obind].
    pose proof (same_env_list powf sc cl g (rec_same_env powf sc cl g) _ _ _ _ E2 Wc) as ->.
    rewrite (IH _ _ _ _ Hq Wb Db e2 HR g1 g) by lia. reflexivity.
  - inv_bind H p Hp. destruct p as [b1 e1a]. injection H as <- <-. cbn [dok_arm arm_isize rec_arm_def] in *.
    rewrite (IH _ _ _ _ Hp W D e2 HR g1 g) by lia. reflexivity.
Qed.

Lemma carms f (IH : cexpr f) : forall l e1 l1 e1',
  rec_arms_def (R1 f) l e1 = Ok (l1, e1') ->
  forallb (wf_arm cl) l = true -> forallb dok_arm l1 = true ->
  forall e2, Rel e1 e2 -> forall g1 g, (arms_isize l1 <= S g1)%nat -> (arms_isize l <= S g)%nat ->
  rec_arms_def (R2 g1) l1 e2 = rec_arms_def (R2 g) l e2.
Proof.
  induction l as [|a l IHl]; intros e1 l1 e1' H W D e2 HR g1 g G1 G.
  - injection H as <- <-. reflexivity.
  - cbn [rec_arms_def] in H. fold (rec_arms_def (R1 f)) in H.
    inv_bind H p Hp. destruct p as [a1 e1a]. inv_bind H q Hq. destruct q as [l1' e1b].
    injection H as <- <-.
    cbn [forallb] in W, D. apply andb_true_iff in W. apply andb_true_iff in D.
    destruct W as [Wa Wl]. destruct D as [Da Dl].
    pose proof (same_env_arm powf [] cl f (rec_same_env powf [] cl f) _ _ _ _ Hp Wa) as ->.
    cbn [arms_isize] in G1, G.
    cbn [rec_arms_def]. fold (rec_arms_def (R2 g1)). fold (rec_arms_def (R2 g)).
    rewrite (carm f IH _ _ _ _ Hp Wa Da e2 HR g1 g) by lia.
    destruct (rec_arm_def (R2 g) a e2) as [[a2 e2a]| | |] eqn:E2; try reflexivity. cbn [obind].
    pose proof (same_env_arm powf sc cl g (rec_same_env powf sc cl g) _ _ _ _ E2 Wa) as ->.
    rewrite (IHl _ _ _ Hq Wl Dl e2 HR g1 g) by lia. reflexivity.
Qed.

Lemma cc_match f (IH : cexpr f) e1 x arms i1 e1' :
  R1 (S f) e1 (IMatch x arms) = Ok (i1, e1') ->
  wfi cl false x = true -> forallb (wf_arm cl) arms = true -> dok i1 = true ->
  forall e2, Rel e1 e2 -> forall g1 g, (isize i1 <= g1)%nat -> (isize (IMatch x arms) <= g)%nat ->
  R2 g1 e2 i1 = R2 g e2 (IMatch x arms).
Proof.
  intros H Wx Wa D e2 HR g1 g G1 G. rewrite recreate_S_IMatch in H.
  inv_bind H p Hp. destruct p as [x1 e1a]. inv_bind H q Hq. destruct q as [arms1 e1b].
  injection H as <- <-. pose proof (p1_same powf cl _ _ _ _ _ Hp Wx) as ->.
  cbn [dok] in D. fold dok_arm in D. apply andb_true_iff in D. destruct D as [Dx Da].
  rewrite isize_IMatch in G1, G. destruct g1 as [|g1]; [lia|]. destruct g as [|g]; [lia|].
  rewrite !recreate_S_IMatch.
  rewrite (IH _ _ _ _ Hp Wx Dx e2 HR g1 g) by lia.
  destruct (R2 g e2 x) as [[x2 e2a]| | |] eqn:E2; try reflexivity. cbn [obind].
  pose proof (p2_same powf cl sc _ _ _ _ _ E2 Wx) as ->.
  rewrite (carms f IH _ _ _ _ Hq Wa Da e2 HR g1 g) by lia. reflexivity.
Qed.

(* ================================================================= *)
(* function literals                                                  *)
(* ================================================================= *)
Lemma cc_anonfn f (IH : cline f) e1 ps body ret i1 e1' :
  R1 (S f) e1 (IAnonFn ps body ret) = Ok (i1, e1') -> forallb (wfi cl true) body = true -> dok i1 = true ->
  forall e2, Rel e1 e2 -> forall g1 g, (isize i1 <= g1)%nat -> (isize (IAnonFn ps body ret) <= g)%nat ->
  R2 g1 e2 i1 = R2 g e2 (IAnonFn ps body ret).
Proof.
  intros H W D e2 HR g1 g G1 G. rewrite recreate_S_IAnonFn in H. inv_bind H p Hp. destruct p as [b1 e1a].
  injection H as <- <-. cbn [dok] in D. rewrite isize_IAnonFn in G1, G.
  destruct g1 as [|g1]; [lia|]. destruct g as [|g]; [lia|]. rewrite !recreate_S_IAnonFn.
  rewrite (clines f IH _ _ _ _ Hp W D _ (Rel_push_fn sc _ _ (params_layer ps) None None ret ret HR) g1 g) by lia.
  reflexivity.
Qed.

(* ================================================================= *)
(* lines: x := e                                                      *)
(* ================================================================= *)
Lemma cl_of_expr f (IH : cexpr f) e1 i i1 e1' :
  R1 f e1 i = Ok (i1, e1') -> wfi cl false i = true -> dok i1 = true ->
  forall e2, Rel e1 e2 -> forall g1 g, (isize i1 <= g1)%nat -> (isize i <= g)%nat ->
  R2 g1 e2 i1 = R2 g e2 i /\ forall i2 e2', R2 g e2 i = Ok (i2, e2') -> Rel e1' e2'.
Proof.
  intros H W D e2 HR g1 g G1 G. split; [apply (IH _ _ _ _ H W D e2 HR); assumption|].
  intros i2 e2' H2. rewrite (p1_same powf cl _ _ _ _ _ H W), (p2_same powf cl sc _ _ _ _ _ H2 W). exact HR.
Qed.

Lemma cl_set f (IH : cexpr f) e1 nm x i1 e1' :
  R1 (S f) e1 (ISet nm x) = Ok (i1, e1') -> wfi cl false x = true -> dok i1 = true ->
  forall e2, Rel e1 e2 -> forall g1 g, (isize i1 <= g1)%nat -> (isize (ISet nm x) <= g)%nat ->
  R2 g1 e2 i1 = R2 g e2 (ISet nm x) /\
  forall i2 e2', R2 g e2 (ISet nm x) = Ok (i2, e2') -> Rel e1' e2'.
Proof.
  intros H W D e2 HR g1 g G1 G. rewrite recreate_S_ISet in H. inv_bind H p Hp. destruct p as [x1 e1a].
  inv_bind H lv1 Hlv1. injection H as <- <-. pose proof (p1_same powf cl _ _ _ _ _ Hp W) as ->.
  cbn [dok] in D. cbn [isize] in G1, G. destruct g1 as [|g1]; [lia|]. destruct g as [|g]; [lia|].
  rewrite !recreate_S_ISet.
  assert (EQ : R2 g1 e2 x1 = R2 g e2 x) by (apply (IH _ _ _ _ Hp W D e2 HR); lia).
  split; [rewrite EQ; reflexivity|].
  intros i2 e2' H2. inv_bind H2 q Hq. destruct q as [x2 e2a]. inv_bind H2 lv2 Hlv2. injection H2 as _ <-.
  pose proof (p2_same powf cl sc _ _ _ _ _ Hq W) as ->.
  apply Rel_insert; [|exact HR]. intros v ->.
  destruct (rec_noconst powf [] f _ _ _ _ Hp) as [N _].
  pose proof (lvar_of_instr_const _ _ _ N Hlv1 eq_refl) as ->.
  rewrite R2_const in EQ by (cbn [isize] in G1; lia). rewrite Hq in EQ. injection EQ as <-.
  cbn [lvar_of_instr] in Hlv2. injection Hlv2 as <-. reflexivity.
Qed.

(* ================================================================= *)
(* lines: (a, b) := e                                                 *)
(* ================================================================= *)
Lemma zip_get_notin {A} (gf : A -> outcome lvar) ids : forall xs e e',
  zip_insert gf ids xs e = Ok e' -> forall n, ~ In n ids -> lenv_get n e' = lenv_get n e.
Proof.
  induction ids as [|m ids IH]; intros xs e e' H n Hn.
  - rewrite zip_nil in H. injection H as <-. reflexivity.
  - destruct xs as [|x xs]; [rewrite zip_cons_nil in H; injection H as <-; reflexivity|].
    rewrite zip_cons in H. inv_bind H lv Hlv.
    rewrite (IH _ _ _ H n (fun C => Hn (or_intror C))).
    apply lget_insert_other. intros ->. apply Hn. left. reflexivity.
Qed.

Lemma zip_other_get_in ids : forall ts e e',
  zip_insert (fun t => Ok (LOther t)) ids ts e = Ok e' -> (length ids <= length ts)%nat ->
  forall n, In n ids -> exists t, lenv_get n e' = Some (LOther t).
Proof.
  induction ids as [|m ids IH]; intros ts e e' H L n Hn; [destruct Hn|].
  destruct ts as [|t ts]; [cbn [length] in L; lia|].
  rewrite zip_cons in H. cbn [obind] in H. cbn [length] in L.
  destruct (in_dec ident_eq_dec n ids) as [Hin|Hnin].
  - apply (IH _ _ _ H ltac:(lia) n Hin).
  - destruct Hn as [->|Hn]; [|contradiction].
    rewrite (zip_get_notin _ _ _ _ _ H n Hnin), lget_insert_same. eauto.
Qed.

Lemma destruct_insert_get_notin ids x e e' :
  destruct_insert ids x e = Ok e' -> forall n, ~ In n ids -> lenv_get n e' = lenv_get n e.
Proof.
  intros H n Hn.
  assert (G : forall T, match flatten_tuple T with
                        | Some ts => zip_insert (fun t => Ok (LOther t)) ids ts e
                        | None => zip_insert (fun t => Ok (LOther t)) ids (map (fun _ => TNever) ids) e
                        end = Ok e' -> lenv_get n e' = lenv_get n e).
  { intros T HT. destruct (flatten_tuple T); apply (zip_get_notin _ _ _ _ _ HT n Hn). }
  destruct x; cbn [destruct_insert] in H;
    try (inv_bind H T HT; exact (G T H)).
  - apply (zip_get_notin _ _ _ _ _ H n Hn).
  - destruct v; try (inv_bind H T HT; exact (G T H)).
    apply (zip_get_notin _ _ _ _ _ H n Hn).
Qed.

Lemma Rel_zip_same {A} (gf : A -> outcome lvar) ids : forall xs e1 e2 e1' e2',
  Rel e1 e2 -> zip_insert gf ids xs e1 = Ok e1' -> zip_insert gf ids xs e2 = Ok e2' -> Rel e1' e2'.
Proof.
  induction ids as [|m ids IH]; intros xs e1 e2 e1' e2' HR H1 H2.
  - rewrite zip_nil in H1, H2. injection H1 as <-. injection H2 as <-. exact HR.
  - destruct xs as [|x xs].
    + rewrite zip_cons_nil in H1, H2. injection H1 as <-. injection H2 as <-. exact HR.
    + rewrite zip_cons in H1, H2. inv_bind H1 lv1 Hl1. inv_bind H2 lv2 Hl2.
      rewrite Hl1 in Hl2. injection Hl2 as <-.
      apply (IH _ _ _ _ _ (Rel_insert sc _ _ m lv1 lv1 (fun v E => E) HR) H1 H2).
Qed.

Lemma Rel_zip_instr ids : forall es1 es2 e1 e2 e1' e2',
  Rel e1 e2 -> Forall nc1 es1 -> Forall2 (fun x x' => forall v, x = IVar v -> x' = IVar v) es1 es2 ->
  zip_insert lvar_of_instr ids es1 e1 = Ok e1' -> zip_insert lvar_of_instr ids es2 e2 = Ok e2' ->
  Rel e1' e2'.
Proof.
  induction ids as [|m ids IH]; intros es1 es2 e1 e2 e1' e2' HR N F H1 H2.
  - rewrite zip_nil in H1, H2. injection H1 as <-. injection H2 as <-. exact HR.
  - destruct F as [|x x' es1 es2 Hxx F].
    + rewrite zip_cons_nil in H1, H2. injection H1 as <-. injection H2 as <-. exact HR.
    + rewrite zip_cons in H1, H2. inv_bind H1 lv1 Hl1. inv_bind H2 lv2 Hl2.
      inversion N as [|? ? Nx Nes]; subst.
      refine (IH _ _ _ _ _ _ (Rel_insert sc _ _ m lv1 lv2 _ HR) Nes F H1 H2).
      intros v ->. pose proof (lvar_of_instr_const _ _ _ Nx Hl1 eq_refl) as ->.
      rewrite (Hxx v eq_refl) in Hl2. cbn [lvar_of_instr] in Hl2. injection Hl2 as <-. reflexivity.
Qed.

Lemma zip_consts_eq ids : forall vs e,
  zip_insert (fun v => Ok (LVariable v)) ids vs e = zip_insert lvar_of_instr ids (map IVar vs) e.
Proof.
  induction ids as [|m ids IH]; intros vs e; [reflexivity|].
  destruct vs as [|v vs]; [reflexivity|]. cbn [map]. rewrite !zip_cons. cbn [lvar_of_instr obind]. apply IH.
Qed.

Lemma Forall2_consts_map es vs :
  Forall2 (fun x x' : instr => forall v, x = IVar v -> x' = IVar v) es (map IVar vs) ->
  Forall2 (fun x x' : instr => forall v, x = IVar v -> x' = IVar v) es (map IVar vs).
Proof. auto. Qed.

Lemma cl_destruct f (IH : cexpr f) e1 ids x i1 e1' :
  R1 (S f) e1 (IDestruct ids x) = Ok (i1, e1') -> wfi cl false x = true -> dok i1 = true ->
  forall e2, Rel e1 e2 -> forall g1 g, (isize i1 <= g1)%nat -> (isize (IDestruct ids x) <= g)%nat ->
  R2 g1 e2 i1 = R2 g e2 (IDestruct ids x) /\
  forall i2 e2', R2 g e2 (IDestruct ids x) = Ok (i2, e2') -> Rel e1' e2'.
Proof.
  intros H W D e2 HR g1 g G1 G. rewrite recreate_S_IDestruct in H. inv_bind H p Hp. destruct p as [x1 e1a].
  inv_bind H e1b He1. injection H as <- <-. pose proof (p1_same powf cl _ _ _ _ _ Hp W) as ->.
  cbn [dok] in D. apply andb_true_iff in D. destruct D as [DC D].
  cbn [isize] in G1, G. destruct g1 as [|g1]; [lia|]. destruct g as [|g]; [lia|].
  rewrite !recreate_S_IDestruct.
  assert (EQ : R2 g1 e2 x1 = R2 g e2 x) by (apply (IH _ _ _ _ Hp W D e2 HR); lia).
  split; [rewrite EQ; reflexivity|].
  intros i2 e2' H2. inv_bind H2 q Hq. destruct q as [x2 e2a]. inv_bind H2 e2b He2. injection H2 as _ <-.
  pose proof (p2_same powf cl sc _ _ _ _ _ Hq W) as ->. rewrite Hq in EQ.
  destruct (rec_noconst powf [] f _ _ _ _ Hp) as [_ N].
  assert (Hx' : (exists ws, x1 = IVar (VTup ws)) \/ (exists es, x1 = ITuple es) \/
                ((forall ws, x1 <> IVar (VTup ws)) /\ (forall es, x1 <> ITuple es))).
  { destruct x1; try (right; right; split; intros; discriminate).
    - right; left; eauto.
    - destruct v; try (right; right; split; intros; discriminate). left; eauto. }
  destruct Hx' as [[ws ->]|[[es1 ->]|[H1 H2']]].
  - (* constant *)
    rewrite R2_const in EQ by (cbn [isize] in G1; lia). injection EQ as <-.
    cbn [destruct_insert] in He1, He2. apply (Rel_zip_same _ ids ws _ _ _ _ HR He1 He2).
  - (* tuple literal *)
    rewrite isize_ITuple in G1. destruct g1 as [|g1]; [lia|]. rewrite recreate_S_ITuple in EQ.
    inv_bind EQ r Hr. destruct r as [es2 e2c].
    pose proof (rec_list_keeps_consts powf sc g1 _ _ _ _ Hr) as F.
    cbn [destruct_insert] in He1.
    destruct (all_vars es2) as [vs|] eqn:Hv; injection EQ as <- _.
    + apply all_vars_map in Hv. subst es2. cbn [destruct_insert] in He2. rewrite zip_consts_eq in He2.
      apply (Rel_zip_instr ids es1 (map IVar vs) _ _ _ _ HR N F He1 He2).
    + cbn [destruct_insert] in He2. apply (Rel_zip_instr ids es1 es2 _ _ _ _ HR N F He1 He2).
  - (* anything else: pass 1 bound every name to a non-constant *)
    rewrite (destruct_generic ids x1 e1 H1 H2') in He1. inv_bind He1 T HT.
    assert (HA : exists ts, zip_insert (fun t => Ok (LOther t)) ids ts e1 = Ok e1b /\
                            (length ids <= length ts)%nat).
    { unfold dcond in DC. rewrite HT in DC.
      assert (DC' : match flatten_tuple T with
                    | Some ts => Nat.leb (length ids) (length ts) | None => true end = true).
      { destruct x1; try exact DC.
        - exfalso. exact (H2' es eq_refl).
        - destruct v; try (cbn [rt] in HT; injection HT as <-; cbn [as_type flatten_tuple]; reflexivity).
          exfalso. exact (H1 vs eq_refl). }
      destruct (flatten_tuple T) as [ts|].
      - exists ts. split; [exact He1|apply Nat.leb_le; exact DC'].
      - eexists. split; [exact He1|rewrite map_length; lia]. }
    destruct HA as [ts [HZ HL]].
    intros n v Hn. destruct (in_dec ident_eq_dec n ids) as [Hin|Hnin].
    + destruct (zip_other_get_in ids ts _ _ HZ HL n Hin) as [t Ht]. rewrite Ht in Hn. discriminate Hn.
    + rewrite (zip_get_notin _ _ _ _ _ HZ n Hnin) in Hn.
      rewrite (destruct_insert_get_notin _ _ _ _ He2 n Hnin). exact (HR n v Hn).
Qed.

(* ================================================================= *)
(* lines: f := (..) {..}                                              *)
(* ================================================================= *)
Lemma cl_fndecl f (IH : cline f) e1 nm ps body ret i1 e1' :
  R1 (S f) e1 (IFnDecl nm ps body ret) = Ok (i1, e1') -> forallb (wfi cl true) body = true -> dok i1 = true ->
  forall e2, Rel e1 e2 -> forall g1 g, (isize i1 <= g1)%nat -> (isize (IFnDecl nm ps body ret) <= g)%nat ->
  R2 g1 e2 i1 = R2 g e2 (IFnDecl nm ps body ret) /\
  forall i2 e2', R2 g e2 (IFnDecl nm ps body ret) = Ok (i2, e2') -> Rel e1' e2'.
Proof.
  intros H W D e2 HR g1 g G1 G. rewrite recreate_S_IFnDecl in H. inv_bind H p Hp. destruct p as [b1 e1a].
  injection H as <- <-. cbn [dok] in D. rewrite isize_IFnDecl in G1, G.
  destruct g1 as [|g1]; [lia|]. destruct g as [|g]; [lia|]. rewrite !recreate_S_IFnDecl.
  assert (HR' : Rel (lenv_insert nm (LFunction ps ret) e1) (lenv_insert nm (LFunction ps ret) e2))
    by (apply Rel_insert; [intros v C; discriminate C|exact HR]).
  rewrite (clines f IH _ _ _ _ Hp W D _
             (Rel_push_fn sc _ _ (params_layer ps) (Some nm) (Some nm) ret ret HR') g1 g) by lia.
  split; [reflexivity|].
  intros i2 e2' H2. inv_bind H2 q Hq. destruct q. injection H2 as _ <-. exact HR'.
Qed.

(* ================================================================= *)
(* the induction                                                      *)
(* ================================================================= *)
Lemma cexpr_O : cexpr 0.
Proof. intros e1 i i1 e1' H. rewrite recreate_O in H. discriminate H. Qed.
Lemma cline_O : cline 0.
Proof. intros e1 i i1 e1' H. rewrite recreate_O in H. discriminate H. Qed.

Lemma cexpr_S f : cexpr f -> cline f -> cexpr (S f).
Proof.
  intros IH IHl e1 i i1 e1' H W D e2 HR g1 g G1 G.
  destruct i; cbn [wfi] in W; repeat rewrite andb_true_iff in W.
  - (* IAnonFn *) destruct W as [_ Wb]. apply (cc_anonfn f IHl _ _ _ _ _ _ H Wb D e2 HR g1 g G1 G).
  - apply (cc_array powf cl sc f IH _ _ _ _ _ H W D e2 HR g1 g G1 G).
  - destruct W as [Wa Wb]. apply (cc_repeat powf cl sc f IH _ _ _ _ _ H Wa Wb D e2 HR g1 g G1 G).
  - apply (cc_block f IHl _ _ _ _ H W D e2 HR g1 g G1 G).
  - rewrite recreate_S_IBreak in H. injection H as <- <-. destruct g1; [cbn in G1; lia|]. destruct g; [cbn in G; lia|]. reflexivity.
  - rewrite recreate_S_IContinue in H. injection H as <- <-. destruct g1; [cbn in G1; lia|]. destruct g; [cbn in G; lia|]. reflexivity.
  - destruct W as [C _]. discriminate C.
  - refine (cc_wrap powf cl sc (fun y => IFieldAccess y f0) _ _ _ _ f IH _ _ _ _ H W D e2 HR g1 g G1 G);
      intros; reflexivity.
  - destruct W as [[C _] _]. discriminate C.
  - destruct W as [[Wc Wt] Wf]. apply (cc_if f IH _ _ _ _ _ _ H Wc Wt Wf D e2 HR g1 g G1 G).
  - apply (cc_local powf sc f _ _ _ _ _ H e2 HR g1 g G1). cbn [isize] in G. lia.
  - refine (cc_wrap powf cl sc (fun y => ILoop y) _ _ _ _ f IH _ _ _ _ H W D e2 HR g1 g G1 G);
      intros; reflexivity.
  - destruct W as [Wx Wa]. apply (cc_match f IH _ _ _ _ _ H Wx Wa D e2 HR g1 g G1 G).
  - refine (cc_wrap powf cl sc (fun y => IMut t y) _ _ _ _ f IH _ _ _ _ H W D e2 HR g1 g G1 G);
      intros; reflexivity.
  - destruct W as [[Wa Wb] Wc]. apply (cc_reduce powf cl sc f IH _ _ _ _ _ _ H Wa Wb Wc D e2 HR g1 g G1 G).
  - destruct W as [C _]. discriminate C.
  - destruct W as [[Wx Wa] Wb]. apply (cc_setif f IH _ _ _ _ _ _ _ _ H Wx Wa Wb D e2 HR g1 g G1 G).
  - destruct W as [[[Wl Wa] Wb] Wc].
    apply (cc_slicing powf cl sc f IH _ _ _ _ _ _ _ H Wl Wa Wb Wc D e2 HR g1 g G1 G).
  - apply (cc_struct powf cl sc f IH _ _ _ _ H W D e2 HR g1 g G1 G).
  - apply (cc_tuple powf cl sc f IH _ _ _ _ H W D e2 HR g1 g G1 G).
  - refine (cc_wrap powf cl sc (fun y => ITupleAccess y k) _ _ _ _ f IH _ _ _ _ H W D e2 HR g1 g G1 G);
      intros; reflexivity.
  - refine (cc_wrap powf cl sc (fun y => ITypeFilter y t) _ _ _ _ f IH _ _ _ _ H W D e2 HR g1 g G1 G);
      intros; reflexivity.
  - rewrite recreate_S_IVar in H. injection H as <- <-. destruct g1; [cbn in G1; lia|]. destruct g; [cbn in G; lia|]. reflexivity.
  - destruct W as [Wa Wb].
    destruct (binop_eq_dec op And) as [->|NA]; [apply (cc_and powf cl sc f IH _ _ _ _ _ H Wa Wb D e2 HR g1 g G1 G)|].
    destruct (binop_eq_dec op Or) as [->|NO]; [apply (cc_or powf cl sc f IH _ _ _ _ _ H Wa Wb D e2 HR g1 g G1 G)|].
    apply (cc_bin powf cl sc f IH _ _ _ _ _ _ NA NO H Wa Wb D e2 HR g1 g G1 G).
  - destruct W as [Wo Wx]. apply (cc_un powf cl sc f IH _ _ _ _ _ H Wx D e2 HR g1 g G1 G).
Qed.

Lemma cline_S f : cexpr f -> cline f -> cline (S f).
Proof.
  intros IH IHl e1 i i1 e1' H W D e2 HR g1 g G1 G.
  pose proof (cexpr_S f IH IHl) as IHS.
  destruct i; try (apply (cl_of_expr (S f) IHS _ _ _ _ H W D e2 HR g1 g G1 G)).
  - cbn [wfi andb] in W. apply (cl_destruct f IH _ _ _ _ _ H W D e2 HR g1 g G1 G).
  - cbn [wfi andb] in W. apply andb_true_iff in W. destruct W as [_ Wb].
    apply (cl_fndecl f IHl _ _ _ _ _ _ _ H Wb D e2 HR g1 g G1 G).
  - cbn [wfi andb] in W. apply (cl_set f IH _ _ _ _ _ H W D e2 HR g1 g G1 G).
Qed.

Theorem call : forall f, cexpr f /\ cline f.
Proof.
  induction f as [|f [IH IHl]]; [split; [apply cexpr_O|apply cline_O]|].
  split; [apply cexpr_S|apply cline_S]; assumption.
Qed.

(* the bodies of function literals: line lists *)
Theorem comp_lines f l e1 l1 e1' :
  rec_list_def (R1 f) l e1 = Ok (l1, e1') ->
  forallb (wfi cl true) l = true -> forallb dok l1 = true ->
  forall e2, Rel e1 e2 -> forall g1 g, (list_isize l1 <= g1)%nat -> (list_isize l <= g)%nat ->
  rec_list_def (R2 g1) l1 e2 = rec_list_def (R2 g) l e2.
Proof. apply (clines f (proj2 (call f))). Qed.

End Comp.

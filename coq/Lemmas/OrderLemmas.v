(* OrderLemmas.v — type-level outcomes do not depend on hash / iteration order (C05).

   In Model/Ty.v the member list of a union and the field list of a struct
   stand for a HashSet / HashMap; the order of the list is the iteration order
   the runtime happened to pick.  "Deterministic" = invariant under
   [Permutation] of any such list, up to [ty_eqb]. *)
From SSL.Model Require Import Base Ty.
From SSL.Lemmas Require Import TyLemmas.
From Coq Require Import Permutation.

(* ---------- lists ---------- *)
Lemma forallb_perm {A} (f : A -> bool) l l' : Permutation l l' -> forallb f l = forallb f l'.
Proof.
  intros H; induction H as [| x l l' _ IH | x y l | l l' l'' _ IH1 _ IH2]; cbn [forallb].
  - reflexivity.
  - rewrite IH; reflexivity.
  - destruct (f x), (f y); reflexivity.
  - rewrite IH1; exact IH2.
Qed.

Lemma existsb_perm {A} (f : A -> bool) l l' : Permutation l l' -> existsb f l = existsb f l'.
Proof.
  intros H; induction H as [| x l l' _ IH | x y l | l l' l'' _ IH1 _ IH2]; cbn [existsb].
  - reflexivity.
  - rewrite IH; reflexivity.
  - destruct (f x), (f y); reflexivity.
  - rewrite IH1; exact IH2.
Qed.

Lemma Forall2_in_l {A B} (R : A -> B -> Prop) l l' x :
  Forall2 R l l' -> In x l -> exists y, In y l' /\ R x y.
Proof.
  intros H; induction H as [| a b l l' Hab _ IH]; cbn [In]; [tauto |].
  intros [-> | Hin]; [exists b; auto |]. destruct (IH Hin) as [y [Hy Hr]]. exists y; auto.
Qed.

Lemma Forall2_in_r {A B} (R : A -> B -> Prop) l l' y :
  Forall2 R l l' -> In y l' -> exists x, In x l /\ R x y.
Proof.
  intros H; induction H as [| a b l l' Hab _ IH]; cbn [In]; [tauto |].
  intros [-> | Hin]; [exists a; auto |]. destruct (IH Hin) as [x [Hx Hr]]. exists x; auto.
Qed.

Lemma Forall2_len {A B} (R : A -> B -> Prop) l l' : Forall2 R l l' -> length l = length l'.
Proof. intros H; induction H; cbn [length]; congruence. Qed.

Lemma Forall2_refl_in {A} (R : A -> A -> Prop) l : (forall x, In x l -> R x x) -> Forall2 R l l.
Proof.
  induction l as [| x l IH]; intros H; constructor.
  - apply H; left; reflexivity.
  - apply IH. intros y Hy. apply H; right; exact Hy.
Qed.

Lemma Forall2_all2 {A B} (R : A -> B -> Prop) (f : A -> B -> bool) l l' :
  Forall2 R l l' -> (forall x y, In x l -> R x y -> f x y = true) -> all2 f l l' = true.
Proof.
  intros H; induction H as [| a b l l' Hab _ IH]; intros Hf; cbn [all2]; [reflexivity |].
  rewrite (Hf a b (or_introl eq_refl) Hab). cbn [andb].
  apply IH. intros x y Hx. apply Hf; right; exact Hx.
Qed.

Lemma nodup_keys_NoDup {V} (l : list (ident * V)) : nodup_keys l = true <-> NoDup (map fst l).
Proof.
  induction l as [| [k v] l IH]; cbn [nodup_keys map fst].
  - split; [constructor | reflexivity].
  - rewrite andb_true_iff, negb_true_iff, IH. split.
    + intros [Hn Hd]. constructor; [| exact Hd]. intros Hin. apply in_map_iff in Hin.
      destruct Hin as [[k' v'] [E Hin]]. cbn [fst] in E. subst k'.
      assert (Hex : existsb (fun kv : ident * V => ident_eqb k (fst kv)) l = true).
      { apply existsb_exists. exists (k, v'). split; [exact Hin | apply ident_eqb_refl]. }
      congruence.
    + intros Hnd. inversion Hnd as [| a l0 Hni Hd]; subst. split; [| exact Hd].
      destruct (existsb (fun kv : ident * V => ident_eqb k (fst kv)) l) eqn:E; [| reflexivity].
      exfalso. apply existsb_exists in E. destruct E as [[k' v'] [Hin Ek]].
      apply ident_eqb_eq in Ek. cbn [fst] in Ek. subst k'.
      apply Hni. apply in_map_iff. exists (k, v'). auto.
Qed.

Lemma nodup_keys_perm {V} (l l' : list (ident * V)) :
  Permutation l l' -> nodup_keys l = true -> nodup_keys l' = true.
Proof.
  intros HP H. apply nodup_keys_NoDup. apply nodup_keys_NoDup in H.
  eapply Permutation_NoDup; [apply Permutation_map; exact HP | exact H].
Qed.

(* ---------- equal up to permuting member / field lists, at any depth -------- *)
Definition field_rel (R : ty -> ty -> Prop) (p q : ident * ty) : Prop :=
  fst p = fst q /\ R (snd p) (snd q).

Inductive perm_equiv : ty -> ty -> Prop :=
| pe_refl : forall a, perm_equiv a a
| pe_fun : forall ps ps' r r',
    Forall2 perm_equiv ps ps' -> perm_equiv r r' -> perm_equiv (TFun ps r) (TFun ps' r')
| pe_arr : forall e e', perm_equiv e e' -> perm_equiv (TArr e) (TArr e')
| pe_mut : forall e e', perm_equiv e e' -> perm_equiv (TMut e) (TMut e')
| pe_tup : forall ts ts', Forall2 perm_equiv ts ts' -> perm_equiv (TTup ts) (TTup ts')
| pe_multi : forall ms ms' ms'',
    Forall2 perm_equiv ms ms' -> Permutation ms' ms'' -> perm_equiv (TMulti ms) (TMulti ms'')
| pe_struct : forall fs fs' fs'',
    Forall2 (field_rel perm_equiv) fs fs' -> Permutation fs' fs'' ->
    perm_equiv (TStruct fs) (TStruct fs'').

Lemma field_rel_keys R fs fs' : Forall2 (field_rel R) fs fs' -> map fst fs = map fst fs'.
Proof. intros H; induction H as [| p q l l' [Hk _] _ IH]; cbn [map]; [reflexivity | rewrite Hk, IH; reflexivity]. Qed.

Theorem perm_equiv_eqb_keys : forall a b, perm_equiv a b -> keys_ok a = true -> ty_eqb a b = true.
Proof.
  induction a as [a IH] using ty_size_ind. intros b Hpe Hk.
  inversion Hpe as [a0 | ps ps' r r' Hps Hr | e e' He | e e' He | ts ts' Hts
                    | ms ms' ms'' Hms HP | fs fs' fs'' Hfs HP]; subst.
  - apply ty_eqb_refl_keys; exact Hk.
  - (* fun *)
    cbn [keys_ok] in Hk. apply andb_true_iff in Hk. destruct Hk as [Hk1 Hk2].
    rewrite forallb_forall in Hk1. rewrite ty_eqb_fun. apply andb_true_iff. split.
    + eapply Forall2_all2; [exact Hps |]. intros x y Hx Hxy. apply IH; [szs | exact Hxy | apply Hk1; exact Hx].
    + apply IH; [szs | exact Hr | exact Hk2].
  - rewrite ty_eqb_arr. apply IH; [szs | exact He | exact Hk].
  - rewrite ty_eqb_mut. apply IH; [szs | exact He | exact Hk].
  - cbn [keys_ok] in Hk. rewrite forallb_forall in Hk. rewrite ty_eqb_tup.
    eapply Forall2_all2; [exact Hts |]. intros x y Hx Hxy. apply IH; [szs | exact Hxy | apply Hk; exact Hx].
  - (* union *)
    cbn [keys_ok] in Hk. rewrite forallb_forall in Hk. rewrite ty_eqb_multi.
    assert (Hlen : length ms = length ms'').
    { rewrite (Forall2_len _ _ _ Hms). apply Permutation_length; exact HP. }
    rewrite Hlen, Nat.eqb_refl. cbn [andb]. apply andb_true_iff. split.
    + apply forallb_forall. intros x Hx. destruct (Forall2_in_l _ _ _ _ Hms Hx) as [y [Hy Hxy]].
      apply existsb_exists. exists y. split; [eapply Permutation_in; eassumption |].
      apply IH; [szs | exact Hxy | apply Hk; exact Hx].
    + apply forallb_forall. intros y Hy.
      assert (Hy' : In y ms') by (eapply Permutation_in; [apply Permutation_sym; exact HP | exact Hy]).
      destruct (Forall2_in_r _ _ _ _ Hms Hy') as [x [Hx Hxy]].
      apply existsb_exists. exists x. split; [exact Hx |]. rewrite ty_eqb_sym.
      apply IH; [szs | exact Hxy | apply Hk; exact Hx].
  - (* struct *)
    cbn [keys_ok] in Hk. apply andb_true_iff in Hk. destruct Hk as [Hnd Hk].
    rewrite forallb_forall in Hk. rewrite ty_eqb_struct.
    assert (Hlen : length fs = length fs'').
    { rewrite (Forall2_len _ _ _ Hfs). apply Permutation_length; exact HP. }
    assert (Hnd' : nodup_keys fs' = true).
    { apply nodup_keys_NoDup. rewrite <- (field_rel_keys _ _ _ Hfs). apply nodup_keys_NoDup; exact Hnd. }
    assert (Hnd'' : nodup_keys fs'' = true) by (eapply nodup_keys_perm; eassumption).
    rewrite Hlen, Nat.eqb_refl. cbn [andb]. apply andb_true_iff. split.
    + apply forallb_forall. intros [k v] Hx. cbn [fst snd].
      destruct (Forall2_in_l _ _ _ _ Hfs Hx) as [[k' v'] [Hy [Ek Hv]]]. cbn [fst snd] in Ek, Hv. subst k'.
      rewrite (in_assoc_nodup k v' fs'' Hnd''); [| eapply Permutation_in; eassumption].
      apply IH; [szs | exact Hv | apply (Hk (k, v)); exact Hx].
    + apply forallb_forall. intros [k v''] Hy. cbn [fst snd].
      assert (Hy' : In (k, v'') fs') by (eapply Permutation_in; [apply Permutation_sym; exact HP | exact Hy]).
      destruct (Forall2_in_r _ _ _ _ Hfs Hy') as [[k' v] [Hx [Ek Hv]]]. cbn [fst snd] in Ek, Hv. subst k'.
      rewrite (in_assoc_nodup k v fs Hnd Hx). rewrite ty_eqb_sym.
      apply IH; [szs | exact Hv | apply (Hk (k, v)); exact Hx].
Qed.

Theorem perm_equiv_eqb : forall a b, perm_equiv a b -> wf_ty a = true -> ty_eqb a b = true.
Proof. intros a b H W. apply perm_equiv_eqb_keys; [exact H | apply wf_keys_ok; exact W]. Qed.

Theorem ty_eqb_perm_multi_keys : forall ms ms',
  Permutation ms ms' -> keys_ok (TMulti ms) = true -> ty_eqb (TMulti ms) (TMulti ms') = true.
Proof.
  intros ms ms' HP Hk. apply perm_equiv_eqb_keys; [| exact Hk].
  apply pe_multi with (ms' := ms); [| exact HP]. apply Forall2_refl_in. intros; apply pe_refl.
Qed.

Theorem ty_eqb_perm_multi : forall ms ms',
  Permutation ms ms' -> wf_ty (TMulti ms) = true -> ty_eqb (TMulti ms) (TMulti ms') = true.
Proof. intros ms ms' HP W. apply ty_eqb_perm_multi_keys; [exact HP | apply wf_keys_ok; exact W]. Qed.

Theorem ty_eqb_perm_struct : forall fs fs',
  nodup_keys fs = true -> forallb (fun kv => keys_ok (snd kv)) fs = true ->
  Permutation fs fs' -> ty_eqb (TStruct fs) (TStruct fs') = true.
Proof.
  intros fs fs' Hnd Hk HP. apply perm_equiv_eqb_keys.
  - apply pe_struct with (fs' := fs); [| exact HP]. apply Forall2_refl_in.
    intros x _. split; [reflexivity | apply pe_refl].
  - cbn [keys_ok]. rewrite Hnd, Hk. reflexivity.
Qed.

(* the hypothesis on keys is needed: a struct list with a repeated key is not
   even equal to itself *)

(* ---------- matches, concat ---------- *)
Theorem matches_perm_l : forall a a' b,
  perm_equiv a a' -> keys_ok a = true -> matches a b = matches a' b.
Proof. intros a a' b H K. apply matches_eqb_l. apply perm_equiv_eqb_keys; assumption. Qed.

Theorem matches_perm_r : forall a b b',
  perm_equiv b b' -> keys_ok b = true -> matches a b = matches a b'.
Proof. intros a b b' H K. apply matches_eqb_r. apply perm_equiv_eqb_keys; assumption. Qed.

Theorem matches_perm : forall a a' b b',
  perm_equiv a a' -> perm_equiv b b' -> keys_ok a = true -> keys_ok b = true ->
  matches a b = matches a' b'.
Proof.
  intros a a' b b' Ha Hb Ka Kb.
  rewrite (matches_perm_l a a' b Ha Ka). apply matches_perm_r; assumption.
Qed.

(* ---------- well-formedness itself is order independent ---------- *)
Lemma ty_eqb_compat2 a b x y :
  ty_eqb a b = true -> ty_eqb x y = true -> ty_eqb a x = ty_eqb b y.
Proof.
  intros Hab Hxy. destruct (ty_eqb a x) eqn:E1, (ty_eqb b y) eqn:E2; try reflexivity.
  - assert (H : ty_eqb b y = true).
    { apply (ty_eqb_trans b a y); [rewrite ty_eqb_sym; exact Hab |].
      apply (ty_eqb_trans a x y); assumption. }
    congruence.
  - assert (H : ty_eqb a x = true).
    { apply (ty_eqb_trans a b x Hab). apply (ty_eqb_trans b y x E2). rewrite ty_eqb_sym; exact Hxy. }
    congruence.
Qed.

Lemma mem_ty_perm x l l' : Permutation l l' -> mem_ty x l = mem_ty x l'.
Proof. apply existsb_perm. Qed.

Lemma pairwise_neq_perm l l' : Permutation l l' -> pairwise_neq l = pairwise_neq l'.
Proof.
  intros H; induction H as [| x l l' HP IH | x y l | l l' l'' _ IH1 _ IH2]; cbn [pairwise_neq].
  - reflexivity.
  - rewrite (mem_ty_perm x l l' HP), IH; reflexivity.
  - unfold mem_ty. cbn [existsb]. rewrite (ty_eqb_sym y x).
    destruct (ty_eqb x y), (existsb (ty_eqb y) l), (existsb (ty_eqb x) l); reflexivity.
  - rewrite IH1; exact IH2.
Qed.

Lemma mem_ty_eqb2 a b l l' :
  ty_eqb a b = true -> Forall2 (fun x y => ty_eqb x y = true) l l' -> mem_ty a l = mem_ty b l'.
Proof.
  intros Hab H; induction H as [| x y l l' Hxy _ IH]; unfold mem_ty in *; cbn [existsb]; [reflexivity |].
  rewrite (ty_eqb_compat2 a b x y Hab Hxy), IH. reflexivity.
Qed.

Lemma pairwise_neq_eqb l l' :
  Forall2 (fun x y => ty_eqb x y = true) l l' -> pairwise_neq l = pairwise_neq l'.
Proof.
  intros H; induction H as [| x y l l' Hxy Hl IH]; cbn [pairwise_neq]; [reflexivity |].
  rewrite (mem_ty_eqb2 x y l l' Hxy Hl), IH. reflexivity.
Qed.

Lemma Forall2_impl_in {A B} (R R' : A -> B -> Prop) l l' :
  (forall x y, In x l -> In y l' -> R x y -> R' x y) -> Forall2 R l l' -> Forall2 R' l l'.
Proof.
  intros Himp H; induction H as [| x y l l' Hxy _ IH]; constructor.
  - apply Himp; [left; reflexivity | left; reflexivity | exact Hxy].
  - apply IH. intros a b Ha Hb. apply Himp; right; assumption.
Qed.

Lemma perm_equiv_simple a b : perm_equiv a b -> simple a = simple b.
Proof. intros H; inversion H; reflexivity. Qed.

Theorem perm_equiv_wf : forall a b, perm_equiv a b -> wf_ty a = true -> wf_ty b = true.
Proof.
  induction a as [a IH] using ty_size_ind. intros b Hpe W.
  inversion Hpe as [a0 | ps ps' r r' Hps Hr | e e' He | e e' He | ts ts' Hts
                    | ms ms' ms'' Hms HP | fs fs' fs'' Hfs HP]; subst.
  - exact W.
  - cbn [wf_ty] in *. apply andb_true_iff in W. destruct W as [W1 W2]. rewrite forallb_forall in W1.
    apply andb_true_iff. split; [| apply (IH r); [szs | exact Hr | exact W2]].
    apply forallb_forall. intros y Hy. destruct (Forall2_in_r _ _ _ _ Hps Hy) as [x [Hx Hxy]].
    apply (IH x); [szs | exact Hxy | apply W1; exact Hx].
  - cbn [wf_ty] in *. apply (IH e); [szs | exact He | exact W].
  - cbn [wf_ty] in *. apply (IH e); [szs | exact He | exact W].
  - cbn [wf_ty] in *. rewrite forallb_forall in W.
    apply forallb_forall. intros y Hy. destruct (Forall2_in_r _ _ _ _ Hts Hy) as [x [Hx Hxy]].
    apply (IH x); [szs | exact Hxy | apply W; exact Hx].
  - destruct (wf_multi_inv _ W) as [W1 [W2 [W3 W4]]].
    assert (Hback : forall y, In y ms'' -> exists x, In x ms /\ perm_equiv x y).
    { intros y Hy. apply (Forall2_in_r _ _ _ _ Hms).
      eapply Permutation_in; [apply Permutation_sym; exact HP | exact Hy]. }
    apply wf_multi_intro.
    + rewrite <- (Permutation_length HP), <- (Forall2_len _ _ _ Hms). exact W1.
    + intros y Hy. destruct (Hback y Hy) as [x [Hx Hxy]].
      rewrite <- (perm_equiv_simple x y Hxy). apply W2; exact Hx.
    + intros y Hy. destruct (Hback y Hy) as [x [Hx Hxy]].
      apply (IH x); [szs | exact Hxy | apply W3; exact Hx].
    + rewrite <- (pairwise_neq_perm _ _ HP).
      rewrite <- (pairwise_neq_eqb ms ms'); [exact W4 |].
      eapply Forall2_impl_in; [| exact Hms]. intros x y Hx _ Hxy. cbv beta.
      apply perm_equiv_eqb; [exact Hxy | apply W3; exact Hx].
  - cbn [wf_ty] in *. apply andb_true_iff in W. destruct W as [Hnd W]. rewrite forallb_forall in W.
    apply andb_true_iff. split.
    + apply (nodup_keys_perm fs' fs'' HP). apply nodup_keys_NoDup.
      rewrite <- (field_rel_keys _ _ _ Hfs). apply nodup_keys_NoDup; exact Hnd.
    + apply forallb_forall. intros [k v''] Hy. cbn [snd].
      assert (Hy' : In (k, v'') fs') by (eapply Permutation_in; [apply Permutation_sym; exact HP | exact Hy]).
      destruct (Forall2_in_r _ _ _ _ Hfs Hy') as [[k' v] [Hx [Ek Hv]]]. cbn [fst snd] in Ek, Hv.
      apply (IH v); [szs | exact Hv | apply (W (k', v)); exact Hx].
Qed.

Theorem concat_perm : forall a a' b b',
  perm_equiv a a' -> perm_equiv b b' -> wf_ty a = true -> wf_ty b = true ->
  ty_eqb (concat a b) (concat a' b') = true.
Proof.
  intros a a' b b' Ha Hb Wa Wb. apply concat_eqb_compat; try assumption.
  - eapply perm_equiv_wf; eassumption.
  - eapply perm_equiv_wf; eassumption.
  - apply perm_equiv_eqb; assumption.
  - apply perm_equiv_eqb; assumption.
Qed.

(* ---------- the boolean queries ---------- *)
Theorem is_function_perm : forall ms ms', Permutation ms ms' -> is_function (TMulti ms) = is_function (TMulti ms').
Proof. intros ms ms' HP. cbn [is_function]. apply forallb_perm; exact HP. Qed.
Theorem is_tuple_perm : forall ms ms', Permutation ms ms' -> is_tuple (TMulti ms) = is_tuple (TMulti ms').
Proof. intros ms ms' HP. cbn [is_tuple]. apply forallb_perm; exact HP. Qed.
Theorem is_mut_perm : forall ms ms', Permutation ms ms' -> is_mut (TMulti ms) = is_mut (TMulti ms').
Proof. intros ms ms' HP. cbn [is_mut]. apply forallb_perm; exact HP. Qed.
Theorem has_field_perm : forall k ms ms', Permutation ms ms' -> has_field k (TMulti ms) = has_field k (TMulti ms').
Proof. intros k ms ms' HP. cbn [has_field]. apply forallb_perm; exact HP. Qed.

Theorem matches_multi_perm_l : forall ms ms' b, Permutation ms ms' -> matches (TMulti ms) b = matches (TMulti ms') b.
Proof. intros ms ms' b HP. rewrite !matches_multi_l. apply forallb_perm; exact HP. Qed.

Theorem is_iterator_perm : forall ms ms', Permutation ms ms' -> is_iterator (TMulti ms) = is_iterator (TMulti ms').
Proof. intros; unfold is_iterator; apply matches_multi_perm_l; assumption. Qed.
Theorem is_struct_perm : forall ms ms', Permutation ms ms' -> is_struct (TMulti ms) = is_struct (TMulti ms').
Proof. intros; unfold is_struct; apply matches_multi_perm_l; assumption. Qed.
Theorem can_be_indexed_perm : forall ms ms', Permutation ms ms' -> can_be_indexed (TMulti ms) = can_be_indexed (TMulti ms').
Proof. intros; unfold can_be_indexed; apply matches_multi_perm_l; assumption. Qed.

(* at any depth, for the queries that are instances of matches *)
Theorem is_iterator_perm_equiv : forall a b, perm_equiv a b -> keys_ok a = true -> is_iterator a = is_iterator b.
Proof. intros a b H K. unfold is_iterator. apply matches_perm_l; assumption. Qed.
Theorem is_struct_perm_equiv : forall a b, perm_equiv a b -> keys_ok a = true -> is_struct a = is_struct b.
Proof. intros a b H K. unfold is_struct. apply matches_perm_l; assumption. Qed.
Theorem can_be_indexed_perm_equiv : forall a b, perm_equiv a b -> keys_ok a = true -> can_be_indexed a = can_be_indexed b.
Proof. intros a b H K. unfold can_be_indexed. apply matches_perm_l; assumption. Qed.

(* ---------- folds of a commutative, associative operation ---------- *)
(* [op] is commutative and associative up to an equivalence [E], on a domain
   [D] closed under [op]; no unit is assumed (the folds start from the first
   element). *)
Section ACFold.
Variable A : Type.
Variable D : A -> Prop.
Variable E : A -> A -> Prop.
Variable op : A -> A -> A.
Hypothesis E_refl : forall a, D a -> E a a.
Hypothesis E_sym : forall a b, E a b -> E b a.
Hypothesis E_trans : forall a b c, E a b -> E b c -> E a c.
Hypothesis op_D : forall a b, D a -> D b -> D (op a b).
Hypothesis op_compat : forall a a' b b', D a -> D a' -> D b -> D b' -> E a a' -> E b b' -> E (op a b) (op a' b').
Hypothesis op_comm : forall a b, D a -> D b -> E (op a b) (op b a).
Hypothesis op_assoc : forall a b c, D a -> D b -> D c -> E (op (op a b) c) (op a (op b c)).

Lemma fold_left_D l : Forall D l -> forall acc, D acc -> D (fold_left op l acc).
Proof.
  intros H; induction H as [| x l Hx _ IH]; intros acc Ha; cbn [fold_left]; [exact Ha |].
  apply IH. apply op_D; assumption.
Qed.

Lemma fold_left_compat l : Forall D l -> forall acc acc', D acc -> D acc' -> E acc acc' ->
  E (fold_left op l acc) (fold_left op l acc').
Proof.
  intros H; induction H as [| x l Hx _ IH]; intros acc acc' Ha Ha' He; cbn [fold_left]; [exact He |].
  apply IH; try (apply op_D; assumption). apply op_compat; try assumption. apply E_refl; exact Hx.
Qed.

Lemma fold_left_perm l l' : Permutation l l' -> Forall D l -> forall acc, D acc ->
  E (fold_left op l acc) (fold_left op l' acc).
Proof.
  intros HP; induction HP as [| x l l' HP IH | x y l | l l' l'' HP1 IH1 HP2 IH2]; intros HD acc Ha.
  - cbn [fold_left]. apply E_refl; exact Ha.
  - inversion HD as [| x0 l0 Hx Hl]; subst. cbn [fold_left]. apply IH; [exact Hl | apply op_D; assumption].
  - inversion HD as [| y0 l0 Hy Hl0]; subst. inversion Hl0 as [| x0 l1 Hx Hl]; subst.
    cbn [fold_left]. apply fold_left_compat; try exact Hl; try (repeat apply op_D; assumption).
    (* (acc·y)·x ~ acc·(y·x) ~ acc·(x·y) ~ (acc·x)·y *)
    eapply E_trans; [apply op_assoc; assumption |].
    eapply E_trans; [apply (op_compat acc acc (op y x) (op x y)); try assumption;
                     try (apply op_D; assumption); [apply E_refl; exact Ha | apply op_comm; assumption] |].
    apply E_sym. apply op_assoc; assumption.
  - assert (HD' : Forall D l').
    { apply Forall_forall. intros z Hz. rewrite Forall_forall in HD. apply HD.
      eapply Permutation_in; [apply Permutation_sym; exact HP1 | exact Hz]. }
    eapply E_trans; [apply IH1; assumption | apply IH2; assumption].
Qed.

Lemma fold_left_perm_ne x xs y ys :
  Permutation (x :: xs) (y :: ys) -> Forall D (x :: xs) ->
  E (fold_left op xs x) (fold_left op ys y).
Proof.
  intros HP HD. inversion HD as [| x0 l0 Hx Hxs]; subst.
  assert (HD' : Forall D (y :: ys)).
  { apply Forall_forall. intros z Hz. rewrite Forall_forall in HD. apply HD.
    eapply Permutation_in; [apply Permutation_sym; exact HP | exact Hz]. }
  inversion HD' as [| y0 l0 Hy Hys]; subst.
  assert (Hin : In x (y :: ys)) by (eapply Permutation_in; [exact HP | left; reflexivity]).
  destruct Hin as [Eyx | Hin].
  - subst y. apply Permutation_cons_inv in HP. apply fold_left_perm; assumption.
  - destruct (in_split _ _ Hin) as [l1 [l2 El]]. subst ys.
    assert (HP' : Permutation xs (y :: l1 ++ l2)).
    { apply (Permutation_cons_app_inv (y :: l1) l2 (a := x)). exact HP. }
    assert (Hzs : Forall D (l1 ++ l2)).
    { apply Forall_forall. intros z Hz. rewrite Forall_forall in Hys. apply Hys.
      apply in_app_or in Hz. apply in_or_app. destruct Hz; [left | right; right]; assumption. }
    (* fold xs x ~ fold (y :: zs) x = fold zs (x·y) ~ fold zs (y·x) = fold (x :: zs) y ~ fold ys y *)
    eapply E_trans; [apply (fold_left_perm xs (y :: l1 ++ l2) HP' Hxs x Hx) |].
    cbn [fold_left].
    eapply E_trans; [apply (fold_left_compat (l1 ++ l2) Hzs (op x y) (op y x));
                     try (apply op_D; assumption); apply op_comm; assumption |].
    change (fold_left op (l1 ++ l2) (op y x)) with (fold_left op (x :: l1 ++ l2) y).
    apply fold_left_perm; [apply Permutation_middle | | exact Hy].
    constructor; assumption.
Qed.
End ACFold.

(* ---------- fold_opt with a total step ---------- *)
Definition is_some {A} (o : option A) : bool := match o with Some _ => true | None => false end.
Definition values {A} (l : list (option A)) : list A :=
  flat_map (fun o => match o with Some a => [a] | None => [] end) l.

Definition opt_rel {A} (E : A -> A -> Prop) (o o' : option A) : Prop :=
  match o, o' with
  | Some a, Some b => E a b
  | None, None => True
  | _, _ => False
  end.

Lemma fold_opt_ext {A} (f f' : A -> A -> option A) l :
  (forall a c, f a c = f' a c) -> fold_opt f l = fold_opt f' l.
Proof.
  intros H. destruct l as [| first rest]; cbn [fold_opt]; [reflexivity |].
  revert first; induction rest as [| c rest IH]; intros first; cbn [fold_left]; [reflexivity |].
  destruct first as [a |], c as [c |]; try apply IH. rewrite H. apply IH.
Qed.

Lemma fold_opt_total {A} (g : A -> A -> A) l :
  fold_opt (fun a c => Some (g a c)) l =
  if forallb is_some l then
    match values l with x :: xs => Some (fold_left g xs x) | [] => None end
  else None.
Proof.
  destruct l as [| [a |] rest]; cbn [fold_opt forallb is_some andb]; [reflexivity | |].
  - unfold values. cbn [flat_map app]. fold (values rest).
    revert a; induction rest as [| [c |] rest IH]; intros a; cbn [fold_left forallb is_some andb].
    + reflexivity.
    + unfold values. cbn [flat_map app fold_left]. fold (values rest). apply IH.
    + apply fold_opt_step_none.
  - apply fold_opt_step_none.
Qed.

Lemma values_perm {A} (l l' : list (option A)) : Permutation l l' -> Permutation (values l) (values l').
Proof. apply Permutation_flat_map. Qed.

Lemma values_in {A} (l : list (option A)) a : In a (values l) <-> In (Some a) l.
Proof.
  unfold values. rewrite in_flat_map. split.
  - intros [[b |] [Hin Ha]]; cbn [In] in Ha; [destruct Ha as [-> | []]; exact Hin | destruct Ha].
  - intros Hin. exists (Some a). split; [exact Hin | left; reflexivity].
Qed.

Section ACFoldOpt.
Variable A : Type.
Variable D : A -> Prop.
Variable E : A -> A -> Prop.
Variable op : A -> A -> A.
Hypothesis E_refl : forall a, D a -> E a a.
Hypothesis E_sym : forall a b, E a b -> E b a.
Hypothesis E_trans : forall a b c, E a b -> E b c -> E a c.
Hypothesis op_D : forall a b, D a -> D b -> D (op a b).
Hypothesis op_compat : forall a a' b b', D a -> D a' -> D b -> D b' -> E a a' -> E b b' -> E (op a b) (op a' b').
Hypothesis op_comm : forall a b, D a -> D b -> E (op a b) (op b a).
Hypothesis op_assoc : forall a b c, D a -> D b -> D c -> E (op (op a b) c) (op a (op b c)).

Lemma fold_opt_total_perm l l' :
  Permutation l l' -> (forall a, In (Some a) l -> D a) ->
  opt_rel E (fold_opt (fun a c => Some (op a c)) l) (fold_opt (fun a c => Some (op a c)) l').
Proof.
  intros HP HD. rewrite !fold_opt_total. rewrite <- (forallb_perm is_some l l' HP).
  destruct (forallb is_some l); [| exact I].
  pose proof (values_perm l l' HP) as HV.
  destruct (values l) as [| x xs] eqn:Ex, (values l') as [| y ys] eqn:Ey; cbn [opt_rel].
  - exact I.
  - apply Permutation_nil in HV. discriminate.
  - apply Permutation_sym, Permutation_nil in HV. discriminate.
  - apply (fold_left_perm_ne A D E op E_refl E_sym E_trans op_D op_compat op_comm op_assoc _ _ _ _ HV).
    apply Forall_forall. intros z Hz. apply HD. apply values_in. rewrite Ex. exact Hz.
Qed.
End ACFoldOpt.

(* ---------- the Option-returning queries on unions ---------- *)
Definition eqb_rel (a b : ty) : Prop := ty_eqb a b = true.
Definition wfP (a : ty) : Prop := wf_ty a = true.

Theorem fold_concat_perm : forall l l',
  Permutation l l' -> (forall a, In (Some a) l -> wf_ty a = true) ->
  opt_rel eqb_rel (fold_concat l) (fold_concat l').
Proof.
  intros l l' HP HD. unfold fold_concat.
  apply (fold_opt_total_perm ty wfP eqb_rel concat); unfold wfP, eqb_rel; try assumption.
  - exact ty_eqb_refl.
  - intros a b H. rewrite ty_eqb_sym. exact H.
  - exact ty_eqb_trans.
  - exact concat_wf.
  - exact concat_eqb_compat.
  - exact concat_comm_eqb.
  - exact concat_assoc_eqb.
Qed.

Lemma query_perm (q : ty -> option ty) ms ms' :
  (forall t r, wf_ty t = true -> q t = Some r -> wf_ty r = true) ->
  Permutation ms ms' -> wf_ty (TMulti ms) = true ->
  opt_rel eqb_rel (fold_concat (map q ms)) (fold_concat (map q ms')).
Proof.
  intros Hq HP W. apply fold_concat_perm; [apply Permutation_map; exact HP |].
  intros a Ha. apply in_map_iff in Ha. destruct Ha as [m [Hm Hin]].
  destruct (wf_multi_inv _ W) as [_ [_ [W3 _]]]. apply (Hq m a); [apply W3; exact Hin | exact Hm].
Qed.

Theorem index_result_perm : forall ms ms', Permutation ms ms' -> wf_ty (TMulti ms) = true ->
  opt_rel eqb_rel (index_result (TMulti ms)) (index_result (TMulti ms')).
Proof. intros ms ms'. exact (query_perm index_result ms ms' index_result_wf). Qed.
Theorem element_type_perm : forall ms ms', Permutation ms ms' -> wf_ty (TMulti ms) = true ->
  opt_rel eqb_rel (element_type (TMulti ms)) (element_type (TMulti ms')).
Proof. intros ms ms'. exact (query_perm element_type ms ms' element_type_wf). Qed.
Theorem fn_return_type_perm : forall ms ms', Permutation ms ms' -> wf_ty (TMulti ms) = true ->
  opt_rel eqb_rel (fn_return_type (TMulti ms)) (fn_return_type (TMulti ms')).
Proof. intros ms ms'. exact (query_perm fn_return_type ms ms' fn_return_type_wf). Qed.
Theorem iter_element_perm : forall ms ms', Permutation ms ms' -> wf_ty (TMulti ms) = true ->
  opt_rel eqb_rel (iter_element (TMulti ms)) (iter_element (TMulti ms')).
Proof. intros ms ms'. exact (query_perm iter_element ms ms' iter_element_wf). Qed.
Theorem tuple_element_at_perm : forall i ms ms', Permutation ms ms' -> wf_ty (TMulti ms) = true ->
  opt_rel eqb_rel (tuple_element_at i (TMulti ms)) (tuple_element_at i (TMulti ms')).
Proof. intros i ms ms'. exact (query_perm (tuple_element_at i) ms ms' (tuple_element_at_wf i)). Qed.
Theorem field_type_perm : forall k ms ms', Permutation ms ms' -> wf_ty (TMulti ms) = true ->
  opt_rel eqb_rel (field_type k (TMulti ms)) (field_type k (TMulti ms')).
Proof. intros k ms ms'. exact (query_perm (field_type k) ms ms' (field_type_wf k)). Qed.
Theorem mut_element_type_spec_perm : forall ms ms', Permutation ms ms' -> wf_ty (TMulti ms) = true ->
  opt_rel eqb_rel (mut_element_type_spec (TMulti ms)) (mut_element_type_spec (TMulti ms')).
Proof. intros ms ms'. exact (query_perm mut_element_type_spec ms ms' mut_element_type_spec_wf). Qed.

(* ---------- tuple_len: all members agree, or None ---------- *)
Definition len_step (acc c : nat) : option nat := if Nat.eqb acc c then Some acc else None.

Lemma len_fold_some_inv rest : forall a n,
  fold_left (fun acc c => match acc, c with Some a, Some c => len_step a c | _, _ => None end)
            rest (Some a) = Some n ->
  a = n /\ forall o, In o rest -> o = Some n.
Proof.
  induction rest as [| c rest IH]; intros a n H; cbn [fold_left] in H.
  - injection H as ->. split; [reflexivity | intros o []].
  - destruct c as [c |]; [| rewrite fold_opt_step_none in H; discriminate].
    unfold len_step in H at 2. destruct (Nat.eqb_spec a c) as [Eac | Eac];
      [| rewrite fold_opt_step_none in H; discriminate].
    destruct (IH a n H) as [Ea Hr]. subst. split; [reflexivity |].
    intros o [<- | Ho]; [reflexivity | apply Hr; exact Ho].
Qed.

Lemma len_fold_some_intro rest : forall n,
  (forall o, In o rest -> o = Some n) ->
  fold_left (fun acc c => match acc, c with Some a, Some c => len_step a c | _, _ => None end)
            rest (Some n) = Some n.
Proof.
  induction rest as [| c rest IH]; intros n H; cbn [fold_left]; [reflexivity |].
  rewrite (H c (or_introl eq_refl)). unfold len_step at 2. rewrite Nat.eqb_refl.
  apply IH. intros o Ho. apply H; right; exact Ho.
Qed.

Lemma len_fold_iff l n :
  fold_opt len_step l = Some n <-> l <> [] /\ forall o, In o l -> o = Some n.
Proof.
  destruct l as [| first rest]; cbn [fold_opt].
  - split; [discriminate | intros [H _]; congruence].
  - split.
    + intros H. split; [discriminate |]. destruct first as [a |];
        [| rewrite fold_opt_step_none in H; discriminate].
      destruct (len_fold_some_inv rest a n H) as [-> Hr].
      intros o [<- | Ho]; [reflexivity | apply Hr; exact Ho].
    + intros [_ H]. rewrite (H first (or_introl eq_refl)).
      apply len_fold_some_intro. intros o Ho. apply H; right; exact Ho.
Qed.

Lemma len_fold_perm l l' : Permutation l l' -> fold_opt len_step l = fold_opt len_step l'.
Proof.
  assert (G : forall l l' n, Permutation l l' -> fold_opt len_step l = Some n -> fold_opt len_step l' = Some n).
  { intros k k' n HP H. apply len_fold_iff in H. destruct H as [Hne Hall]. apply len_fold_iff. split.
    - intros ->. apply Permutation_sym, Permutation_nil in HP. contradiction.
    - intros o Ho. apply Hall. eapply Permutation_in; [apply Permutation_sym; exact HP | exact Ho]. }
  intros HP. destruct (fold_opt len_step l) as [n |] eqn:E1.
  - symmetry. eapply G; eassumption.
  - destruct (fold_opt len_step l') as [n' |] eqn:E2; [| reflexivity].
    rewrite (G l' l n' (Permutation_sym HP) E2) in E1. discriminate.
Qed.

Theorem tuple_len_perm : forall ms ms', Permutation ms ms' -> tuple_len (TMulti ms) = tuple_len (TMulti ms').
Proof.
  intros ms ms' HP. cbn [tuple_len].
  change (fold_opt len_step (map tuple_len ms) = fold_opt len_step (map tuple_len ms')).
  apply len_fold_perm. apply Permutation_map; exact HP.
Qed.

(* ---------- min_tuple_len ---------- *)
Theorem min_tuple_len_perm : forall ms ms', Permutation ms ms' ->
  min_tuple_len (TMulti ms) = min_tuple_len (TMulti ms').
Proof.
  intros ms ms' HP. cbn [min_tuple_len].
  rewrite !(fold_opt_ext (fun acc c => if Nat.ltb acc c then Some acc else Some c)
                         (fun acc c => Some (Nat.min acc c))).
  2, 3: intros a c; destruct (Nat.ltb_spec a c); f_equal; lia.
  pose proof (fold_opt_total_perm nat (fun _ => True) eq Nat.min
                (fun a _ => eq_refl) (fun a b H => eq_sym H) (fun a b c H1 H2 => eq_trans H1 H2)
                (fun _ _ _ _ => I)) as G.
  specialize (G ltac:(intros a a' b b' _ _ _ _ -> ->; reflexivity)
                ltac:(intros a b _ _; apply Nat.min_comm)
                ltac:(intros a b c _ _ _; symmetry; apply Nat.min_assoc)
                (map tuple_len ms) (map tuple_len ms') (Permutation_map _ HP) (fun _ _ => I)).
  unfold opt_rel in G.
  destruct (fold_opt (fun a c => Some (Nat.min a c)) (map tuple_len ms)),
           (fold_opt (fun a c => Some (Nat.min a c)) (map tuple_len ms')); try contradiction;
    [f_equal; exact G | reflexivity].
Qed.

(* ---------- flatten_tuple ---------- *)
Lemma zip_with_length {A B C} (f : A -> B -> C) l1 l2 :
  length l1 = length l2 -> length (zip_with f l1 l2) = length l1.
Proof.
  revert l2; induction l1 as [| x l1 IH]; intros [| y l2] H; cbn [zip_with length] in *; try reflexivity; try discriminate.
  f_equal. apply IH. lia.
Qed.

(* the step shared by flatten_tuple (op = concat) and params (op = conjoin) *)
Section ZipFold.
Variable op : ty -> ty -> ty.

Definition zip_step (acc c : list ty) : option (list ty) :=
  if Nat.eqb (length acc) (length c) then Some (zip_with op acc c) else None.

(* a defined result has the length of every member *)
Lemma zip_fold_lengths rest : forall a r,
  fold_left (fun acc c => match acc, c with Some a, Some c => zip_step a c | _, _ => None end)
            rest (Some a) = Some r ->
  length a = length r /\ forall c, In (Some c) rest -> length c = length r.
Proof.
  induction rest as [| c rest IH]; intros a r H; cbn [fold_left] in H.
  - injection H as ->. split; [reflexivity | intros c []].
  - destruct c as [c |]; [| rewrite fold_opt_step_none in H; discriminate].
    unfold zip_step in H at 2. destruct (Nat.eqb_spec (length a) (length c)) as [El | El];
      [| rewrite fold_opt_step_none in H; discriminate].
    destruct (IH _ r H) as [Ea Hr]. rewrite zip_with_length in Ea by exact El.
    split; [exact Ea |]. intros c' [Ec | Hc]; [injection Ec as <-; congruence | apply Hr; exact Hc].
Qed.

Lemma zip_fold_lengths_all l r :
  fold_opt zip_step l = Some r -> forall c, In (Some c) l -> length c = length r.
Proof.
  destruct l as [| first rest]; cbn [fold_opt]; [discriminate |]. intros H.
  destruct first as [a |]; [| rewrite fold_opt_step_none in H; discriminate].
  destruct (zip_fold_lengths rest a r H) as [Ea Hr].
  intros c [Ec | Hc]; [injection Ec as <-; exact Ea | apply Hr; exact Hc].
Qed.

(* when all members have one length the partial step is the total one *)
Lemma zip_fold_total l n :
  (forall c, In (Some c) l -> length c = n) ->
  fold_opt zip_step l = fold_opt (fun a c => Some (zip_with op a c)) l.
Proof.
  destruct l as [| first rest]; cbn [fold_opt]; [reflexivity |]. intros H.
  destruct first as [a |]; [| rewrite !fold_opt_step_none; reflexivity].
  assert (Ha : length a = n) by (apply H; left; reflexivity).
  assert (Hr : forall c, In (Some c) rest -> length c = n) by (intros c Hc; apply H; right; exact Hc).
  clear H. revert a Ha; induction rest as [| c rest IH]; intros a Ha; cbn [fold_left]; [reflexivity |].
  destruct c as [c |]; [| rewrite !fold_opt_step_none; reflexivity].
  assert (Hc : length c = n) by (apply Hr; left; reflexivity).
  unfold zip_step at 2. replace (Nat.eqb (length a) (length c)) with true
    by (symmetry; apply Nat.eqb_eq; congruence).
  apply IH; [intros c' Hc'; apply Hr; right; exact Hc' |].
  rewrite zip_with_length; congruence.
Qed.

(* whether the fold is defined, and the length of its result, do not depend
   on the order (whatever op is) *)
Lemma zip_fold_shape_some l l' r :
  Permutation l l' -> fold_opt zip_step l = Some r ->
  exists r', fold_opt zip_step l' = Some r' /\ length r' = length r.
Proof.
  intros HP Hr. pose proof (zip_fold_lengths_all l r Hr) as Hlen.
  assert (Hlen' : forall c, In (Some c) l' -> length c = length r).
  { intros c Hc. apply Hlen. eapply Permutation_in; [apply Permutation_sym; exact HP | exact Hc]. }
  rewrite (zip_fold_total l (length r) Hlen), fold_opt_total in Hr.
  rewrite (forallb_perm is_some l l' HP) in Hr.
  destruct (fold_opt zip_step l') as [r' |] eqn:E'.
  - exists r'. split; [reflexivity |].
    destruct (forallb is_some l'); [| discriminate].
    pose proof (values_perm l l' HP) as HV.
    destruct (values l) as [| x xs] eqn:Ex; [discriminate |].
    assert (Hin : In x (values l')) by (eapply Permutation_in; [exact HV | left; reflexivity]).
    apply values_in in Hin.
    rewrite <- (Hlen' x Hin). symmetry. apply (zip_fold_lengths_all l' r' E'). exact Hin.
  - exfalso. rewrite (zip_fold_total l' (length r) Hlen'), fold_opt_total in E'.
    destruct (forallb is_some l'); [| discriminate].
    pose proof (values_perm l l' HP) as HV.
    destruct (values l) as [| x xs] eqn:Ex; [discriminate |].
    destruct (values l') as [| y ys] eqn:Ey; [| discriminate].
    apply Permutation_sym, Permutation_nil in HV. discriminate.
Qed.

Lemma zip_fold_shape l l' :
  Permutation l l' ->
  opt_rel (fun a b : list ty => length a = length b) (fold_opt zip_step l) (fold_opt zip_step l').
Proof.
  intros HP. destruct (fold_opt zip_step l) as [r |] eqn:E1.
  - destruct (zip_fold_shape_some l l' r HP E1) as [r' [E2 Hl]]. rewrite E2. cbn [opt_rel]. congruence.
  - destruct (fold_opt zip_step l') as [r' |] eqn:E2; [| exact I].
    destruct (zip_fold_shape_some l' l r' (Permutation_sym HP) E2) as [r [E3 _]]. congruence.
Qed.
End ZipFold.

Definition list_eqb_rel (a b : list ty) : Prop := all2 ty_eqb a b = true.
Definition wf_list (n : nat) (a : list ty) : Prop := length a = n /\ forallb wf_ty a = true.

Lemma zip_concat_compat : forall a a' b b',
  forallb wf_ty a = true -> forallb wf_ty a' = true -> forallb wf_ty b = true -> forallb wf_ty b' = true ->
  all2 ty_eqb a a' = true -> all2 ty_eqb b b' = true ->
  all2 ty_eqb (zip_with concat a b) (zip_with concat a' b') = true.
Proof.
  induction a as [| x a IH]; intros [| x' a'] [| y b] [| y' b'] Wa Wa' Wb Wb' Ea Eb;
    cbn [zip_with all2 forallb] in *; try reflexivity; try discriminate.
  apply andb_true_iff in Wa, Wa', Wb, Wb', Ea, Eb.
  destruct Wa, Wa', Wb, Wb', Ea, Eb. apply andb_true_iff. split.
  - apply concat_eqb_compat; assumption.
  - apply IH; assumption.
Qed.

Lemma zip_concat_comm : forall a b,
  length a = length b -> forallb wf_ty a = true -> forallb wf_ty b = true ->
  all2 ty_eqb (zip_with concat a b) (zip_with concat b a) = true.
Proof.
  induction a as [| x a IH]; intros [| y b] Hl Wa Wb; cbn [zip_with all2 forallb length] in *;
    try reflexivity; try discriminate.
  apply andb_true_iff in Wa, Wb. destruct Wa, Wb. apply andb_true_iff. split.
  - apply concat_comm_eqb; assumption.
  - apply IH; [lia | assumption | assumption].
Qed.

Lemma zip_concat_assoc : forall a b c,
  length a = length b -> length b = length c ->
  forallb wf_ty a = true -> forallb wf_ty b = true -> forallb wf_ty c = true ->
  all2 ty_eqb (zip_with concat (zip_with concat a b) c) (zip_with concat a (zip_with concat b c)) = true.
Proof.
  induction a as [| x a IH]; intros [| y b] [| z c] Hl1 Hl2 Wa Wb Wc;
    cbn [zip_with all2 forallb length] in *; try reflexivity; try discriminate.
  apply andb_true_iff in Wa, Wb, Wc. destruct Wa, Wb, Wc. apply andb_true_iff. split.
  - apply concat_assoc_eqb; assumption.
  - apply IH; try assumption; lia.
Qed.

Lemma zip_fold_perm_total n l l' :
  Permutation l l' -> (forall a, In (Some a) l -> wf_list n a) ->
  opt_rel list_eqb_rel (fold_opt (fun a c => Some (zip_with concat a c)) l)
                       (fold_opt (fun a c => Some (zip_with concat a c)) l').
Proof.
  apply (fold_opt_total_perm (list ty) (wf_list n) list_eqb_rel (zip_with concat));
    unfold wf_list, list_eqb_rel.
  - intros a [_ Wa]. apply all2_refl_in. intros x Hx. apply ty_eqb_refl.
    rewrite forallb_forall in Wa. apply Wa; exact Hx.
  - intros a b H. rewrite all2_flip. erewrite all2_ext_in; [exact H |].
    intros x y _ _. apply ty_eqb_sym.
  - intros a b c H1 H2. eapply all2_trans_in; [| exact H1 | exact H2].
    intros x y z _ _ _. apply ty_eqb_trans.
  - intros a b [La Wa] [Lb Wb]. split; [rewrite zip_with_length; congruence |].
    apply forallb_zip_with. intros x y Hx Hy. rewrite forallb_forall in Wa, Wb.
    apply concat_wf; [apply Wa | apply Wb]; assumption.
  - intros a a' b b' [_ Wa] [_ Wa'] [_ Wb] [_ Wb']. apply zip_concat_compat; assumption.
  - intros a b [La Wa] [Lb Wb]. apply zip_concat_comm; [congruence | assumption | assumption].
  - intros a b c [La Wa] [Lb Wb] [Lc Wc]. apply zip_concat_assoc; try assumption; congruence.
Qed.

Lemma zip_fold_perm_some l l' r :
  Permutation l l' -> (forall a, In (Some a) l -> forallb wf_ty a = true) ->
  fold_opt (zip_step concat) l = Some r ->
  opt_rel list_eqb_rel (fold_opt (zip_step concat) l) (fold_opt (zip_step concat) l').
Proof.
  intros HP HW Hr. pose proof (zip_fold_lengths_all concat l r Hr) as Hlen.
  assert (Hlen' : forall c, In (Some c) l' -> length c = length r).
  { intros c Hc. apply Hlen. eapply Permutation_in; [apply Permutation_sym; exact HP | exact Hc]. }
  rewrite (zip_fold_total concat l (length r) Hlen), (zip_fold_total concat l' (length r) Hlen').
  apply (zip_fold_perm_total (length r)); [exact HP |].
  intros a Ha. split; [apply Hlen; exact Ha | apply HW; exact Ha].
Qed.

Lemma opt_rel_list_sym o o' : opt_rel list_eqb_rel o o' -> opt_rel list_eqb_rel o' o.
Proof.
  destruct o as [a |], o' as [b |]; cbn [opt_rel]; try tauto. unfold list_eqb_rel.
  intros H. rewrite all2_flip. erewrite all2_ext_in; [exact H |]. intros x y _ _. apply ty_eqb_sym.
Qed.

Theorem flatten_tuple_perm : forall ms ms', Permutation ms ms' -> wf_ty (TMulti ms) = true ->
  opt_rel list_eqb_rel (flatten_tuple (TMulti ms)) (flatten_tuple (TMulti ms')).
Proof.
  intros ms ms' HP W. cbn [flatten_tuple].
  change (opt_rel list_eqb_rel (fold_opt (zip_step concat) (map flatten_tuple ms))
                               (fold_opt (zip_step concat) (map flatten_tuple ms'))).
  destruct (wf_multi_inv _ W) as [_ [_ [W3 _]]].
  assert (HW : forall a, In (Some a) (map flatten_tuple ms) -> forallb wf_ty a = true).
  { intros a Ha. apply in_map_iff in Ha. destruct Ha as [m [Hm Hin]].
    apply (flatten_tuple_wf m a); [apply W3; exact Hin | exact Hm]. }
  assert (HW' : forall a, In (Some a) (map flatten_tuple ms') -> forallb wf_ty a = true).
  { intros a Ha. apply HW. eapply Permutation_in; [apply Permutation_sym, Permutation_map; exact HP | exact Ha]. }
  pose proof (Permutation_map flatten_tuple HP) as HPm.
  destruct (fold_opt (zip_step concat) (map flatten_tuple ms)) as [r |] eqn:E1.
  - rewrite <- E1. eapply zip_fold_perm_some; eassumption.
  - destruct (fold_opt (zip_step concat) (map flatten_tuple ms')) as [r' |] eqn:E2; [| exact I].
    pose proof (zip_fold_perm_some _ _ r' (Permutation_sym HPm) HW' E2) as G.
    rewrite E1, E2 in G. exact G.
Qed.

(* params: the member order cannot change whether the parameter list is
   defined, nor its length (it can change the parameter types: see below) *)
Theorem params_perm_shape : forall ms ms', Permutation ms ms' ->
  opt_rel (fun a b : list ty => length a = length b) (params (TMulti ms)) (params (TMulti ms')).
Proof.
  intros ms ms' HP. cbn [params].
  change (opt_rel (fun a b : list ty => length a = length b)
            (fold_opt (zip_step conjoin) (map params ms)) (fold_opt (zip_step conjoin) (map params ms'))).
  apply zip_fold_shape. apply Permutation_map; exact HP.
Qed.

(* ---------- order DEPENDENCE the faithful model exhibits ---------- *)
(* S6: on a union, mut_element_type asks the FIRST member for its array element
   type and the others for their cell content *)
Theorem mut_element_type_order_refuted :
  exists ms ms', Permutation ms ms' /\ wf_ty (TMulti ms) = true /\
                 mut_element_type (TMulti ms) <> mut_element_type (TMulti ms').
Proof.
  exists [TMut TInt; TArr TInt], [TArr TInt; TMut TInt].
  split; [apply perm_swap | split; [vm_compute; reflexivity |]]. vm_compute. discriminate.
Qed.

(* a union whose first member is a cell always gives None: wrong (the intended
   answer is the join of the contents), but the same in every order when all
   members are cells *)
Theorem mut_element_type_mut_first_none : forall e rest,
  mut_element_type (TMulti (TMut e :: rest)) = None.
Proof. intros e rest. cbn [mut_element_type element_type fold_concat fold_opt]. apply fold_opt_step_none. Qed.

Theorem mut_element_type_all_mut_none : forall ms,
  ms <> [] -> (forall m, In m ms -> exists e, m = TMut e) -> mut_element_type (TMulti ms) = None.
Proof.
  intros [| m rest] Hne H; [congruence |]. destruct (H m (or_introl eq_refl)) as [e ->].
  apply mut_element_type_mut_first_none.
Qed.

(* params folds conjoin, and conjoin is not associative up to `==`, not even
   on well-formed types *)
Theorem conjoin_assoc_refuted :
  exists a b c, wf_ty a = true /\ wf_ty b = true /\ wf_ty c = true /\
    ty_eqb (conjoin (conjoin a b) c) (conjoin a (conjoin b c)) = false.
Proof.
  exists (TArr TAny), (TMulti [TArr TInt; TArr TFloat; TFloat]), (TMulti [TArr TInt; TArr TFloat]).
  repeat split; vm_compute; reflexivity.
Qed.

Theorem params_order_refuted :
  exists ms ms' ps ps', Permutation ms ms' /\ wf_ty (TMulti ms) = true /\
    params (TMulti ms) = Some ps /\ params (TMulti ms') = Some ps' /\
    all2 ty_eqb ps ps' = false.
Proof.
  pose (a := TArr TAny). pose (b := TMulti [TArr TInt; TArr TFloat; TFloat]).
  pose (c := TMulti [TArr TInt; TArr TFloat]).
  exists [TFun [a] TInt; TFun [b] TInt; TFun [c] TInt], [TFun [b] TInt; TFun [c] TInt; TFun [a] TInt],
         [TMulti [TArr TInt; TArr TFloat]], [TMulti [TArr TInt; TArr TNever; TArr TFloat]].
  split.
  - eapply perm_trans; [apply perm_swap | apply perm_skip, perm_swap].
  - repeat split; vm_compute; reflexivity.
Qed.

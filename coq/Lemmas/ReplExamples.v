(* ReplExamples.v — REPL = batch on a session (non-vacuity of ReplMain).

     c := mut 0;                                   a cell, updated across inputs
     k := 2 + 3;                                   folded by both routes
     f := (x: int) -> int { c += x; return x * k + *c; };
                                                   a closure capturing k and c: the batch route
                                                   folds k (a constant it computed) and keeps c by
                                                   name until the closure is created; the REPL
                                                   route sees both as constants when it parses
     y := f(3);                                    the closure called in a later input
     k := k * 10;                                  redefinition: f keeps the old k
     y := f(k);
     (y, k, *c)                                                              = (303, 50, 53) *)
From SSL.Model Require Import Base Ty Float Value Ops Seq Syntax Rt Recreate Exec Check Top Repl.
From SSL.Lemmas Require Import ExecLemmas RecrMono RecrDefs RecrEmbed RecrExamples RecrExamples2 ReplFrag ReplMain.
Local Open Scope Z_scope.

Definition nf : name := [102]. Definition ny : name := [121].
Definition it0 : istate := mkI st0 [[]].

Definition sess_lines : list sline :=
  [ LSet nc (SExpr (XMut None (num 0)));
    LSet nk (SExpr (XInfix Add (num 2) (num 3)));
    LFnDecl nf [(nx, TInt)] (Some TInt)
      [LStm (SExpr (XInfix AssignAdd (XIdent nc) (XIdent nx)));
       LStm (SRet (Some (SExpr (XInfix Add (XInfix Multiply (XIdent nx) (XIdent nk)) (deref nc)))))];
    LSet ny (SExpr (XCall (XIdent nf) [num 3]));
    LSet nk (SExpr (XInfix Multiply (XIdent nk) (num 10)));
    LSet ny (SExpr (XCall (XIdent nf) [XIdent nk]));
    LStm (SExpr (XTuple [XIdent ny; XIdent nk; deref nc])) ].

Definition sess_inputs : list (list sline) := map (fun ln => [ln]) sess_lines.

(* exactness of a concrete environment against concrete scopes *)
Ltac solve_exact :=
  let n := fresh "n" in let lv := fresh "lv" in let Hg := fresh "Hg" in let NV := fresh "NV" in
  intros n lv Hg NV; cbn [lenv_get l_vars assoc] in Hg;
  repeat match type of Hg with
         | context [ident_eqb n ?k] =>
             let E := fresh "E" in
             destruct (ident_eqb n k) eqn:E;
             [ apply ident_eqb_true in E; subst n; cbv beta iota in Hg; injection Hg as <-;
               first [ exfalso; eapply NV; reflexivity
                     | eexists; split; [vm_compute; reflexivity|reflexivity] ]
             | cbv beta iota in Hg ]
         end;
  try discriminate Hg.

Ltac session_step :=
  eapply SO_cons;
  [ reflexivity                       (* fragment *)
  | vm_compute; reflexivity           (* batch: check *)
  | vm_compute; reflexivity           (* batch: recreate *)
  | vm_compute; reflexivity           (* REPL: check *)
  | vm_compute; reflexivity           (* REPL: recreate *)
  | vm_compute; reflexivity           (* dok *)
  | vm_compute; reflexivity
  | solve_exact                       (* exactness *)
  | vm_compute; reflexivity           (* the un-folded batch instruction runs to a value *)
  | ].

Example session_ok : sess_ok pw0 pre0 red0 [[]] 100 100 e_new st0 [[]] sess_lines.
Proof. unfold sess_lines. repeat session_step. apply SO_nil. Qed.

(* the theorem applied *)
Example session_repl_eq_batch :
  repl_run pw0 pre0 red0 100 100 it0 sess_inputs = batch_prefixes pw0 pre0 red0 100 100 it0 sess_inputs.
Proof. apply (repl_run_eq_batch_prefixes pw0 pre0 red0 [[]] 100 100 st0 sess_lines session_ok). Qed.

(* what happened: results printed, and the final bindings, cell and closure *)
Example session_results :
  map fst (repl_run pw0 pre0 red0 100 100 it0 sess_inputs) =
    [ InRan (SVal (VMut 0 TInt)); InRan (SVal (VInt 5)); InRan (SVal (VFun 0 [TInt] TInt));
      InRan (SVal (VInt 18)); InRan (SVal (VInt 50)); InRan (SVal (VInt 303));
      InRan (SVal (VTup [VInt 303; VInt 50; VInt 53])) ] /\
  observe [ny; nk; nc; nf] (snd (last (repl_run pw0 pre0 red0 100 100 it0 sess_inputs) (InParsePanic, it0))) =
    [Some (VInt 303); Some (VInt 50); Some (VMut 0 TInt); Some (VFun 0 [TInt] TInt)] /\
  s_cells (i_store (snd (last (repl_run pw0 pre0 red0 100 100 it0 sess_inputs) (InParsePanic, it0)))) = [VInt 53].
Proof. vm_compute. repeat split; reflexivity. Qed.

(* the two routes fold differently at parse time: `f` as the batch route and as the REPL route
   hand it to the interpreter (k folded by both; c a name for batch, a constant for the REPL) —
   and the closure either creates is the same *)
Example session_parsed_differently :
  (obind (parse_top pw0 red0 100 [[]] e_new (firstn 3 sess_lines)) (fun p => Ok (nth 2 (fst p) IBreak))) =
    Ok (IFnDecl nf [(nx, TInt)]
          [IBin AssignAdd (ILocal nc (LOther (TMut TInt))) (ILocal nx (LOther TInt));
           IUn UReturn (IBin Add (IBin Multiply (ILocal nx (LOther TInt)) (IVar (VInt 5)))
                                 (IUn UIndirection (ILocal nc (LOther (TMut TInt)))))] TInt) /\
  (obind (parse_top pw0 red0 100 [[(nk, VInt 5); (nc, VMut 0 TInt)]] e_new [nth 2 sess_lines (LStm SBrk)])
         (fun p => Ok (nth 0 (fst p) IBreak))) =
    Ok (IFnDecl nf [(nx, TInt)]
          [IBin AssignAdd (IVar (VMut 0 TInt)) (ILocal nx (LOther TInt));
           IUn UReturn (IBin Add (IBin Multiply (ILocal nx (LOther TInt)) (IVar (VInt 5)))
                                 (IUn UIndirection (IVar (VMut 0 TInt))))] TInt).
Proof. vm_compute. split; reflexivity. Qed.

(* TypeUniverse.v — C15, bounded form (the fallback the design allows; it also covers
   struct types, which the unbounded theorem of TypeRoundtrip.v does not): an explicit
   finite universe of types, every order of the member / field lists of each of them,
   checked exhaustively by computation through the PEG model. *)
From SSL.Model Require Import Base Ty Peg Print TypeParse.
From SSL.Gen Require Import GenGrammar.

Local Open Scope Z_scope.

(* ---------------------------------------------------------------- all orders *)
Fixpoint insert_all {A} (x : A) (l : list A) : list (list A) :=
  match l with
  | [] => [[x]]
  | y :: l' => (x :: l) :: map (cons y) (insert_all x l')
  end.

Fixpoint perms {A} (l : list A) : list (list A) :=
  match l with
  | [] => [[]]
  | x :: l' => flat_map (insert_all x) (perms l')
  end.

(* one choice from every list *)
Fixpoint cart {A} (ls : list (list A)) : list (list A) :=
  match ls with
  | [] => [[]]
  | l :: ls' => flat_map (fun x => map (cons x) (cart ls')) l
  end.

(* every type obtained by reordering union members and struct fields, at every depth *)
Fixpoint all_orders (t : ty) : list ty :=
  match t with
  | TFun ps r =>
      flat_map (fun ps' => map (TFun ps') (all_orders r)) (cart (map all_orders ps))
  | TArr e => map TArr (all_orders e)
  | TMut e => map TMut (all_orders e)
  | TTup ts => map TTup (cart (map all_orders ts))
  | TMulti ms => map TMulti (flat_map perms (cart (map all_orders ms)))
  | TStruct fs =>
      map TStruct
          (flat_map perms (cart (map (fun kv => map (pair (fst kv)) (all_orders (snd kv))) fs)))
  | _ => [t]
  end.

(* ---------------------------------------------------------------- the universe *)
Definition base7 : list ty := [TBool; TInt; TFloat; TString; TVoid; TAny; TNever].
(* union members are never unions, `any` or `!` *)
Definition simple5 : list ty := [TBool; TInt; TFloat; TString; TVoid].
Definition fa : ident := [97].
Definition fb : ident := [98].
Definition fc : ident := [99].
(* keyword-like field names *)
Definition f_int_x : ident := [105; 110; 116; 95; 120].
Definition f_mutable : ident := [109; 117; 116; 97; 98; 108; 101].
Definition f_structs : ident := [115; 116; 114; 117; 99; 116; 115].

(* 2- and 3-element sublists in list order (one representative per set of members) *)
Fixpoint pairs_of {A} (l : list A) : list (list A) :=
  match l with
  | [] => []
  | x :: l' => map (fun y => [x; y]) l' ++ pairs_of l'
  end.
Fixpoint triples_of {A} (l : list A) : list (list A) :=
  match l with
  | [] => []
  | x :: l' => map (cons x) (pairs_of l') ++ triples_of l'
  end.

(* every shape applied to parts from [xs] (one/two-place shapes) and [ys] (three-place
   shapes); union members from [ms2] / [ms3] *)
Definition shapes (xs ys ms2 ms3 : list ty) : list ty :=
  map TArr xs ++ map TMut xs ++ map (TFun []) xs
  ++ flat_map (fun a => map (fun b => TFun [a] b) xs) xs
  ++ flat_map (fun a => map (fun b => TTup [a; b]) xs) xs
  ++ flat_map (fun a => flat_map (fun b => map (fun c => TFun [a; b] c) ys) ys) ys
  ++ flat_map (fun a => flat_map (fun b => map (fun c => TTup [a; b; c]) ys) ys) ys
  ++ map TMulti (pairs_of ms2) ++ map TMulti (triples_of ms3)
  ++ [TStruct []]
  ++ map (fun a => TStruct [(fa, a)]) xs
  ++ flat_map (fun a => map (fun b => TStruct [(fa, a); (fb, b)]) xs) xs
  ++ flat_map (fun a => flat_map (fun b => map (fun c => TStruct [(fa, a); (fb, b); (fc, c)]) ys) ys) ys
  ++ map (fun a => TStruct [(f_int_x, a); (f_mutable, a); (f_structs, a)]) ys.

(* depth <= 1: every shape over the 7 base types *)
Definition universe1 : list ty := base7 ++ shapes base7 base7 simple5 simple5.

(* depth 2: parts are the base types and one or more representatives of every depth-1
   shape (unions, functions with union results / parameters, cells of unions, ...) *)
Definition reps1 : list ty :=
  [TArr TInt; TArr TNever; TArr (TMulti [TInt; TFloat]);
   TMut TInt; TMut (TMulti [TInt; TFloat]);
   TFun [] TInt; TFun [] (TMulti [TInt; TFloat]); TFun [TMulti [TInt; TFloat]] TVoid;
   TFun [TInt; TString] TBool;
   TTup [TInt; TFloat]; TTup [TVoid; TMulti [TInt; TString]; TNever];
   TMulti [TInt; TFloat]; TMulti [TBool; TString; TVoid];
   TStruct []; TStruct [(fa, TInt)]; TStruct [(fa, TMulti [TInt; TFloat]); (fb, TAny)]].
Definition parts2 : list ty := base7 ++ reps1.
Definition small2 : list ty :=
  [TInt; TVoid; TNever; TArr (TMulti [TInt; TFloat]); TMut (TMulti [TInt; TFloat]);
   TFun [] (TMulti [TInt; TFloat]); TTup [TInt; TFloat]; TMulti [TInt; TFloat];
   TStruct [(fa, TInt)]].
Definition simple_b (t : ty) : bool := simple t.
Definition universe2 : list ty :=
  shapes parts2 small2 (filter simple_b parts2) (filter simple_b small2).

(* depth 3 along the six places where a type can stand inside another one *)
Definition contexts : list (ty -> ty) :=
  [fun x => TFun [] x; fun x => TFun [x] TInt; fun x => TMut x; fun x => TArr x;
   fun x => TTup [x; TInt]; fun x => TStruct [(fa, x)]].
Definition leaves3 : list ty :=
  [TInt; TMulti [TInt; TFloat]; TFun [] (TMulti [TInt; TFloat]); TMut (TMulti [TInt; TFloat]);
   TMulti [TMut TInt; TFun [] TInt; TString]].
Definition universe3 : list ty :=
  flat_map (fun c1 => flat_map (fun c2 => flat_map (fun c3 => map (fun x => c1 (c2 (c3 x))) leaves3)
                                                  contexts) contexts) contexts.

Definition universe : list ty := universe1 ++ universe2 ++ universe3.

(* ---------------------------------------------------------------- the check *)
Definition roundtrips_to (t t' : ty) : bool :=
  match tp_parse_type (print_ty t') with
  | Ok t'' => ty_eqb t'' t
  | _ => false
  end.

Definition check_type (t : ty) : bool := forallb (roundtrips_to t) (all_orders t).

Lemma universe_checked : forallb check_type universe = true.
Proof. vm_compute. reflexivity. Qed.

Theorem type_roundtrip_universe t t' :
  In t universe -> In t' (all_orders t) ->
  exists t'', tp_parse_type (print_ty t') = Ok t'' /\ ty_eqb t'' t = true.
Proof.
  intros Ht Ht'.
  pose proof (proj1 (forallb_forall _ _) universe_checked t Ht) as Hc.
  pose proof (proj1 (forallb_forall _ _) Hc t' Ht') as Hr.
  unfold roundtrips_to in Hr.
  destruct (tp_parse_type (print_ty t')) as [t''| | |]; try discriminate Hr.
  exists t''. split; [reflexivity | exact Hr].
Qed.

(* how big the universe is (recorded for the evidence) *)
Lemma universe_size :
  (N.of_nat (length universe), N.of_nat (length (flat_map all_orders universe))) = (6401%N, 30585%N).
Proof. vm_compute. reflexivity. Qed.

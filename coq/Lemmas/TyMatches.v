(* TyMatches.v — Type::matches is a preorder on well-formed types, with
   `!` least, `any` greatest, and the expected variance equations. *)
From SSL.Model Require Import Base Ty.
From SSL.Lemmas Require Import TyFuel TyEq.

(* ---------- bottom and top ---------- *)
Lemma matches_never_l b : matches TNever b = true.
Proof. rewrite matches_unfold. reflexivity. Qed.

Lemma matches_any_r a : matches a TAny = true.
Proof.
  induction a as [a IH] using ty_size_ind. rewrite matches_unfold.
  destruct a as [| | | | | | |ps r|e|ts|ms|e|fs]; try reflexivity.
  apply forallb_forall. intros m Hm. apply IH. szs.
Qed.

(* ---------- variance / per-arm equations ---------- *)
Lemma matches_arr a b : matches (TArr a) (TArr b) = matches a b.
Proof. rewrite matches_unfold. reflexivity. Qed.

Lemma matches_tup l1 l2 : matches (TTup l1) (TTup l2) = all2 matches l1 l2.
Proof. rewrite matches_unfold. reflexivity. Qed.

Lemma matches_fun p1 r1 p2 r2 :
  matches (TFun p1 r1) (TFun p2 r2) = all2 (fun x y => matches y x) p1 p2 && matches r1 r2.
Proof. rewrite matches_unfold. reflexivity. Qed.

Lemma matches_struct f1 f2 :
  matches (TStruct f1) (TStruct f2) =
  forallb (fun kv2 => match assoc (fst kv2) f1 with
                      | Some t1 => matches t1 (snd kv2) | None => false end) f2.
Proof. rewrite matches_unfold. reflexivity. Qed.

Lemma matches_mut_eqb a b : matches (TMut a) (TMut b) = ty_eqb (TMut a) (TMut b).
Proof. rewrite matches_unfold. reflexivity. Qed.

Lemma matches_mut a b : matches (TMut a) (TMut b) = ty_eqb a b.
Proof. rewrite matches_mut_eqb. apply ty_eqb_mut. Qed.

Lemma matches_multi_l ms b : matches (TMulti ms) b = forallb (fun m => matches m b) ms.
Proof. rewrite matches_unfold. destruct b; reflexivity. Qed.

(* not a union and not `!` : the arm `_, TMulti` is the one that fires *)
Definition nm (a : ty) : bool :=
  match a with TMulti _ | TNever => false | _ => true end.

Lemma simple_nm a : simple a = true -> nm a = true.
Proof. destruct a; try discriminate; reflexivity. Qed.

Lemma matches_multi_r_nm a ms : nm a = true -> matches a (TMulti ms) = existsb (matches a) ms.
Proof. intros H. rewrite matches_unfold. destruct a; try discriminate H; reflexivity. Qed.

Lemma matches_multi_r a ms : simple a = true -> matches a (TMulti ms) = existsb (matches a) ms.
Proof. intros H. apply matches_multi_r_nm. apply simple_nm. exact H. Qed.

(* `!` on the left of a union: true outright (existsb would need a member) *)
Lemma matches_multi_r_never ms : matches TNever (TMulti ms) = true.
Proof. apply matches_never_l. Qed.

Lemma matches_nm_never a : nm a = true -> matches a TNever = false.
Proof.
  intros H. rewrite matches_unfold. destruct a; try discriminate H; try reflexivity;
    rewrite ty_eqb_unfold; reflexivity.
Qed.

Lemma matches_any_simple b : simple b = true -> matches TAny b = false.
Proof.
  intros H. rewrite matches_unfold. destruct b; try discriminate H;
    rewrite ty_eqb_unfold; reflexivity.
Qed.

Lemma wf_multi_inv ms : wf_ty (TMulti ms) = true ->
  2 <= length ms /\ (forall m, In m ms -> simple m = true) /\
  (forall m, In m ms -> wf_ty m = true) /\ pairwise_neq ms = true.
Proof.
  cbn [wf_ty]. intros H.
  apply andb_true_iff in H. destruct H as [H H4].
  apply andb_true_iff in H. destruct H as [H H3].
  apply andb_true_iff in H. destruct H as [H1 H2].
  apply Nat.leb_le in H1. rewrite forallb_forall in H2, H3. auto.
Qed.

(* on well-formed types only `any` is above `any` *)
Lemma matches_any_l_wf c : wf_ty c = true -> matches TAny c = true -> c = TAny.
Proof.
  intros Wc H.
  destruct c as [| | | | | | |ps r|e|ts|ms|e|fs];
    try (rewrite matches_any_simple in H by reflexivity; discriminate H);
    try reflexivity.
  - rewrite matches_nm_never in H by reflexivity. discriminate H.
  - exfalso. apply wf_multi_inv in Wc. destruct Wc as [_ [Hs _]].
    rewrite matches_multi_r_nm in H by reflexivity.
    apply existsb_exists in H. destruct H as [m [Hm Hmm]].
    rewrite matches_any_simple in Hmm by (apply Hs; exact Hm). discriminate Hmm.
Qed.

(* membership in a union is enough to be below it *)
Lemma matches_in_multi x m ms : In m ms -> matches x m = true -> matches x (TMulti ms) = true.
Proof.
  induction x as [x IH] using ty_size_ind. intros Hin Hxm.
  destruct (nm x) eqn:Nx.
  - rewrite matches_multi_r_nm by exact Nx. apply existsb_exists. exists m. split; assumption.
  - destruct x; try discriminate Nx.
    + apply matches_never_l.
    + rewrite matches_multi_l in *. rewrite forallb_forall in *. intros x' Hx'.
      apply IH; [szs|exact Hin|]. apply Hxm. exact Hx'.
Qed.

(* whatever is above `any` is above everything (no well-formedness needed) *)
Lemma matches_any_l_all c : matches TAny c = true -> forall a, matches a c = true.
Proof.
  induction c as [c IH] using ty_size_ind. intros H a.
  destruct c as [| | | | | | |ps r|e|ts|ms|e|fs];
    try (rewrite matches_any_simple in H by reflexivity; discriminate H).
  - apply matches_any_r.
  - rewrite matches_nm_never in H by reflexivity. discriminate H.
  - rewrite matches_multi_r_nm in H by reflexivity.
    apply existsb_exists in H. destruct H as [m [Hm Hmm]].
    apply (matches_in_multi a m ms Hm). apply IH; [szs|exact Hmm].
Qed.

(* ---------- reflexivity ---------- *)
Lemma matches_refl_keys a : keys_ok a = true -> matches a a = true.
Proof.
  induction a as [a IH] using ty_size_ind. intros Ka.
  destruct a as [| | | | | | |ps r|e|ts|ms|e|fs]; try (rewrite matches_unfold; reflexivity).
  - rewrite matches_fun. cbn [keys_ok] in Ka. apply andb_true_iff in Ka. destruct Ka as [K1 K2].
    rewrite forallb_forall in K1. apply andb_true_iff. split.
    + apply all2_refl_in. intros x Hx. apply IH; [szs|apply K1; exact Hx].
    + apply IH; [szs|exact K2].
  - rewrite matches_arr. apply IH; [szs|exact Ka].
  - rewrite matches_tup. cbn [keys_ok] in Ka. rewrite forallb_forall in Ka.
    apply all2_refl_in. intros x Hx. apply IH; [szs|apply Ka; exact Hx].
  - rewrite matches_multi_l. cbn [keys_ok] in Ka. rewrite forallb_forall in Ka.
    apply forallb_forall. intros m Hm. apply (matches_in_multi m m ms Hm).
    apply IH; [szs|apply Ka; exact Hm].
  - rewrite matches_mut. apply ty_eqb_refl_keys. exact Ka.
  - rewrite matches_struct. cbn [keys_ok] in Ka. apply andb_true_iff in Ka. destruct Ka as [K1 K2].
    rewrite forallb_forall in K2. apply forallb_forall. intros [k v] Hkv. cbn [fst snd].
    rewrite (in_assoc_nodup k v fs K1 Hkv). apply IH; [szs|]. apply (K2 (k, v)). exact Hkv.
Qed.

Lemma matches_refl a : wf_ty a = true -> matches a a = true.
Proof. intros H. apply matches_refl_keys. apply wf_keys_ok. exact H. Qed.

(* ---------- ty_eqb implies matches ---------- *)
Lemma ty_eqb_matches a b : ty_eqb a b = true -> matches a b = true.
Proof.
  revert a b.
  apply (ty_size_ind2 (fun a b => ty_eqb a b = true -> matches a b = true)).
  intros a b IH H. rewrite ty_eqb_unfold in H.
  destruct a as [| | | | | | |p1 r1|e1|t1|m1|e1|f1], b as [| | | | | | |p2 r2|e2|t2|m2|e2|f2];
    try discriminate H; try (rewrite matches_unfold; reflexivity).
  - rewrite matches_fun.
    apply andb_true_iff in H. destruct H as [H1 H2].
    apply andb_true_iff. split.
    + revert H1. apply all2_impl_in. intros x y Hx Hy Hxy.
      apply IH; [szs|rewrite ty_eqb_sym; exact Hxy].
    + apply IH; [szs|exact H2].
  - rewrite matches_arr. apply IH; [szs|exact H].
  - rewrite matches_tup.
    revert H. apply all2_impl_in. intros x y Hx Hy Hxy.
    apply IH; [szs|exact Hxy].
  - rewrite matches_multi_l.
    apply andb_true_iff in H. destruct H as [H _].
    apply andb_true_iff in H. destruct H as [_ H].
    rewrite forallb_forall in H. apply forallb_forall. intros m Hm.
    specialize (H m Hm). apply existsb_exists in H. destruct H as [y [Hy Hmy]].
    apply (matches_in_multi m y m2 Hy).
    apply IH; [szs|exact Hmy].
  - rewrite matches_mut. exact H.
  - rewrite matches_struct.
    apply andb_true_iff in H. destruct H as [_ H].
    rewrite forallb_forall in H. apply forallb_forall. intros kv Hkv.
    specialize (H kv Hkv). destruct (assoc (fst kv) f1) as [t|] eqn:Ea; [|discriminate H].
    pose proof (assoc_in _ _ _ Ea) as Hin.
    apply IH; [szs|rewrite ty_eqb_sym; exact H].
Qed.

(* ---------- transitivity ---------- *)
Lemma matches_trans a b c :
  matches a b = true -> matches b c = true -> matches a c = true.
Proof.
  revert a b c.
  apply (ty_size_ind3 (fun a b c =>
    matches a b = true -> matches b c = true -> matches a c = true)).
  intros a b c IH Hab Hbc.
  destruct (nm a) eqn:Na.
  2: { destruct a as [| | | | | | |p1 r1|e1|t1|m1|e1|f1]; try discriminate Na.
       - apply matches_never_l.
       - rewrite matches_multi_l in *.
         rewrite forallb_forall in *. intros m Hm.
         apply (IH m b c); [szs|apply Hab; exact Hm|exact Hbc]. }
  destruct (nm b) eqn:Nb.
  2: { destruct b as [| | | | | | |p2 r2|e2|t2|m2|e2|f2]; try discriminate Nb.
       - rewrite matches_nm_never in Hab by exact Na. discriminate Hab.
       - rewrite matches_multi_r_nm in Hab by exact Na.
         apply existsb_exists in Hab. destruct Hab as [m [Hm Ham]].
         rewrite matches_multi_l in Hbc. rewrite forallb_forall in Hbc.
         apply (IH a m c); [szs|exact Ham|apply Hbc; exact Hm]. }
  destruct (simple b) eqn:Sb.
  2: { destruct b; try discriminate Sb; try discriminate Nb.
       apply matches_any_l_all. exact Hbc. }
  destruct (nm c) eqn:Nc.
  2: { destruct c as [| | | | | | |p3 r3|e3|t3|m3|e3|f3]; try discriminate Nc.
       - rewrite matches_nm_never in Hbc by exact Nb. discriminate Hbc.
       - rewrite matches_multi_r_nm in Hbc by exact Nb.
         apply existsb_exists in Hbc. destruct Hbc as [m [Hm Hbm]].
         apply (matches_in_multi a m m3 Hm).
         apply (IH a b m); [szs|exact Hab|exact Hbm]. }
  destruct (simple c) eqn:Sc.
  2: { destruct c; try discriminate Sc; try discriminate Nc. apply matches_any_r. }
  destruct (simple a) eqn:Sa.
  2: { destruct a; try discriminate Sa; try discriminate Na.
       rewrite matches_any_simple in Hab by exact Sb. discriminate Hab. }
  clear Na Nb Nc.
  destruct a as [| | | | | | |p1 r1|e1|t1|m1|e1|f1]; try discriminate Sa;
  destruct b as [| | | | | | |p2 r2|e2|t2|m2|e2|f2]; try discriminate Sb;
  rewrite matches_unfold in Hab;
  try (rewrite ty_eqb_unfold in Hab; discriminate Hab);
  destruct c as [| | | | | | |p3 r3|e3|t3|m3|e3|f3]; try discriminate Sc;
  rewrite matches_unfold in Hbc;
  try (rewrite ty_eqb_unfold in Hbc; discriminate Hbc);
  rewrite matches_unfold; try reflexivity.
  - (* TFun *)
    apply andb_true_iff in Hab. destruct Hab as [Hab1 Hab2].
    apply andb_true_iff in Hbc. destruct Hbc as [Hbc1 Hbc2].
    apply andb_true_iff. split.
    + apply (all2_trans_in (fun x y => matches y x) (fun x y => matches y x)
                           (fun x y => matches y x) p1 p2 p3); [|exact Hab1|exact Hbc1].
      intros x y z Hx Hy Hz Hyx Hzy.
      apply (IH z y x); [szs|exact Hzy|exact Hyx].
    + apply (IH r1 r2 r3); [szs|assumption..].
  - (* TArr *)
    apply (IH e1 e2 e3); [szs|assumption..].
  - (* TTup *)
    apply (all2_trans_in matches matches matches t1 t2 t3); [|exact Hab|exact Hbc].
    intros x y z Hx Hy Hz Hxy Hyz.
    apply (IH x y z); [szs|exact Hxy|exact Hyz].
  - (* TMut *)
    apply (ty_eqb_trans _ _ _ Hab Hbc).
  - (* TStruct *)
    rewrite forallb_forall in Hab, Hbc. apply forallb_forall. intros kv3 H3.
    specialize (Hbc kv3 H3).
    destruct (assoc (fst kv3) f2) as [u2|] eqn:E2; [|discriminate Hbc].
    pose proof (assoc_in _ _ _ E2) as In2.
    specialize (Hab _ In2). cbn [fst snd] in Hab.
    destruct (assoc (fst kv3) f1) as [u1|] eqn:E1; [|discriminate Hab].
    pose proof (assoc_in _ _ _ E1) as In1.
    apply (IH u1 u2 (snd kv3)); [szs|exact Hab|exact Hbc].
Qed.

(* the statement as first planned; the wf hypotheses turned out to be unnecessary *)
Lemma matches_trans_wf a b c :
  wf_ty a = true -> wf_ty b = true -> wf_ty c = true ->
  matches a b = true -> matches b c = true -> matches a c = true.
Proof. intros _ _ _. apply matches_trans. Qed.

(* ---------- matches respects ty_eqb on both sides ---------- *)
Lemma matches_eqb_l a a' b : ty_eqb a a' = true -> matches a b = matches a' b.
Proof.
  intros H.
  destruct (matches a b) eqn:E1, (matches a' b) eqn:E2; try reflexivity.
  - rewrite ty_eqb_sym in H.
    rewrite (matches_trans a' a b (ty_eqb_matches a' a H) E1) in E2. discriminate E2.
  - rewrite (matches_trans a a' b (ty_eqb_matches a a' H) E2) in E1. discriminate E1.
Qed.

Lemma matches_eqb_r a b b' : ty_eqb b b' = true -> matches a b = matches a b'.
Proof.
  intros H.
  destruct (matches a b) eqn:E1, (matches a b') eqn:E2; try reflexivity.
  - rewrite (matches_trans a b b' E1 (ty_eqb_matches b b' H)) in E2. discriminate E2.
  - rewrite ty_eqb_sym in H.
    rewrite (matches_trans a b' b E2 (ty_eqb_matches b' b H)) in E1. discriminate E1.
Qed.

(* IterLemmas.v — proofs about Model/Iter.v (C11). *)
From Coq Require Import List ZArith Bool Arith Lia.
Import ListNotations.
From SSL.Model Require Import Iter.

Lemma iter_S : forall A (f : A -> A) n x, Nat.iter (S n) f x = f (Nat.iter n f x).
Proof. reflexivity. Qed.
Lemma iter_S_r : forall A (f : A -> A) n x, Nat.iter (S n) f x = Nat.iter n f (f x).
Proof. intros A f n x; induction n as [| n IH]; [reflexivity |]. rewrite iter_S, IH. reflexivity. Qed.

Section L.
Context {W : Type}.

(* ---------- the relations ---------- *)
Lemma yields_pulls : forall A (it : iter W A) w xs w',
  yields it w xs w' <-> exists w1, pulls it w xs w1 /\ it w1 = Done w'.
Proof.
  intros A it w xs w'; split.
  - intros Hy; induction Hy as [w w' Hd | w x w1 xs w' Hs Hy IH].
    + exists w; split; [constructor | exact Hd].
    + destruct IH as [w2 [Hp Hd]]. exists w2; split; [econstructor; eassumption | exact Hd].
  - intros [w1 [Hp Hd]]. induction Hp as [w | w x w2 xs w3 Hs Hp IH].
    + constructor; exact Hd.
    + econstructor; [exact Hs | exact (IH Hd)].
Qed.

Lemma yields_det : forall A (it : iter W A) w xs w',
  yields it w xs w' -> forall ys w'', yields it w ys w'' -> xs = ys /\ w' = w''.
Proof.
  intros A it w xs w' Hy; induction Hy as [w w' Hd | w x w1 xs w' Hs Hy IH];
    intros ys w'' Hy2; inversion Hy2 as [wa wb Hd2 | wa y wb ys' wc Hs2 Hy2']; subst.
  - rewrite Hd in Hd2; inversion Hd2; auto.
  - rewrite Hd in Hs2; discriminate.
  - rewrite Hs in Hd2; discriminate.
  - rewrite Hs in Hs2; inversion Hs2; subst.
    destruct (IH _ _ Hy2') as [E1 E2]; subst; auto.
Qed.

Lemma pulls_app : forall A (it : iter W A) w xs w1 ys w2,
  pulls it w xs w1 -> pulls it w1 ys w2 -> pulls it w (xs ++ ys) w2.
Proof.
  intros A it w xs w1 ys w2 Hp; induction Hp as [w | w x wa xs wb Hs Hp IH]; intros Hq.
  - exact Hq.
  - simpl; econstructor; [exact Hs | exact (IH Hq)].
Qed.

Lemma pulls_length_world : forall A (it : iter W A) w xs w1,
  pulls it w xs w1 -> xs = [] -> w1 = w.
Proof. intros A it w xs w1 Hp; destruct Hp; [reflexivity | discriminate]. Qed.

Lemma runs_length : forall A B (it : iter W A) (k : cb W A B) w xs bs w',
  runs it k w xs bs w' -> length bs = length xs.
Proof. intros A B it k w xs bs w' Hr; induction Hr; simpl; congruence. Qed.

Lemma runs_pruns : forall A B (it : iter W A) (k : cb W A B) w xs bs w',
  runs it k w xs bs w' <-> exists w1, pruns it k w xs bs w1 /\ it w1 = Done w'.
Proof.
  intros A B it k w xs bs w'; split.
  - intros Hr; induction Hr as [w w' Hd | w x w1 b w2 xs bs w' Hs Hk Hr IH].
    + exists w; split; [constructor | exact Hd].
    + destruct IH as [w3 [Hp Hd]]. exists w3; split; [econstructor; eassumption | exact Hd].
  - intros [w1 [Hp Hd]]. induction Hp as [w | w x wa b wb xs bs wc Hs Hk Hp IH].
    + constructor; exact Hd.
    + econstructor; [exact Hs | exact Hk | exact (IH Hd)].
Qed.

(* a pure callback does not disturb the source: runs = yields + map *)
Lemma yields_runs_pure : forall A B (f : A -> B) (it : iter W A) w xs w',
  yields it w xs w' -> runs it (pure f) w xs (map f xs) w'.
Proof.
  intros A B f it w xs w' Hy; induction Hy as [w w' Hd | w x w1 xs w' Hs Hy IH]; simpl.
  - constructor; exact Hd.
  - econstructor; [exact Hs | reflexivity | exact IH].
Qed.

Lemma runs_pure_inv : forall A B (f : A -> B) (it : iter W A) w xs bs w',
  runs it (pure f) w xs bs w' -> yields it w xs w' /\ bs = map f xs.
Proof.
  intros A B f it w xs bs w' Hr;
    induction Hr as [w w' Hd | w x w1 b w2 xs bs w' Hs Hk Hr [IH1 IH2]].
  - split; [constructor; exact Hd | reflexivity].
  - unfold pure in Hk; inversion Hk; subst.
    split; [econstructor; eassumption | reflexivity].
Qed.

Lemma runs_yields_any : forall A B (k : cb W A B) (it : iter W A) w xs bs w',
  runs it k w xs bs w' -> (forall x w0, snd (k x w0) = w0) -> yields it w xs w'.
Proof.
  intros A B k it w xs bs w' Hr Hpure;
    induction Hr as [w w' Hd | w x w1 b w2 xs bs w' Hs Hk Hr IH].
  - constructor; exact Hd.
  - specialize (Hpure x w1). rewrite Hk in Hpure; simpl in Hpure; subst w2.
    econstructor; eassumption.
Qed.

Lemma yields_folds_pure : forall A S (f : S -> A -> S) (it : iter W A) w xs w',
  yields it w xs w' -> forall s, folds it (pure2 f) s w xs (fold_left f xs s) w'.
Proof.
  intros A S f it w xs w' Hy; induction Hy as [w w' Hd | w x w1 xs w' Hs Hy IH]; intros s; simpl.
  - constructor; exact Hd.
  - econstructor; [exact Hs | reflexivity | exact (IH _)].
Qed.

(* when the source is itself a list, runs/folds are mapM/foldM: this is what
   "sequential application, once per element, in order" means *)
Lemma select_map : forall A (p : A -> bool) xs, select xs (map p xs) = filter p xs.
Proof. intros A p xs; induction xs as [| x xs IH]; simpl; [reflexivity |]. rewrite IH; reflexivity. Qed.

Lemma select_map_negb : forall A (p : A -> bool) xs,
  select xs (map negb (map p xs)) = filter (fun x => negb (p x)) xs.
Proof. intros A p xs; induction xs as [| x xs IH]; simpl; [reflexivity |]. rewrite IH; reflexivity. Qed.

Lemma select_length_le : forall A (xs : list A) bs, length (select xs bs) <= length xs.
Proof.
  intros A xs; induction xs as [| x xs IH]; intros [| b bs]; simpl; try lia.
  specialize (IH bs). destruct b; simpl; lia.
Qed.

(* ---------- 1. collect ---------- *)
Lemma collect_loop_spec : forall A (it : iter W A) w xs w',
  yields it w xs w' -> forall fuel vec, length xs < fuel ->
  collect_loop fuel it vec w = Some (vec ++ xs, w').
Proof.
  intros A it w xs w' Hy; induction Hy as [w w' Hd | w x w1 xs w' Hs Hy IH];
    intros fuel vec Hf; (destruct fuel as [| n]; [simpl in Hf; lia |]); simpl.
  - rewrite Hd, app_nil_r; reflexivity.
  - rewrite Hs. simpl in Hf. rewrite IH by lia. rewrite <- app_assoc; reflexivity.
Qed.

Lemma collect_spec : forall A (it : iter W A) w xs w' fuel,
  yields it w xs w' -> length xs < fuel -> collect fuel it w = Some (xs, w').
Proof. intros A it w xs w' fuel Hy Hf. unfold collect. rewrite (collect_loop_spec _ _ _ _ _ Hy) by exact Hf. reflexivity. Qed.

(* with too little fuel the answer is None, never a shorter vector *)
Lemma collect_loop_short : forall A (it : iter W A) w xs w',
  yields it w xs w' -> forall fuel vec, fuel <= length xs -> collect_loop fuel it vec w = None.
Proof.
  intros A it w xs w' Hy; induction Hy as [w w' Hd | w x w1 xs w' Hs Hy IH];
    intros fuel vec Hf; destruct fuel as [| n]; simpl in *; try reflexivity; try lia.
  rewrite Hs. apply IH; lia.
Qed.

Lemma collect_out_of_fuel : forall A (it : iter W A) w xs w' fuel,
  yields it w xs w' -> fuel <= length xs -> collect fuel it w = None.
Proof. intros; unfold collect; eapply collect_loop_short; eassumption. Qed.

(* ---------- 2. map ---------- *)
Lemma map_step_lazy : forall A B (f : cb W A B) (it : iter W A) w,
  map_iter f it w =
  match it w with
  | Yield x w1 => let (y, w2) := f x w1 in Yield y w2
  | Done w' => Done w'
  | NoFuel => NoFuel
  end.
Proof. reflexivity. Qed.

Lemma map_spec : forall A B (f : cb W A B) (it : iter W A) w xs ys w',
  runs it f w xs ys w' -> yields (map_iter f it) w ys w'.
Proof.
  intros A B f it w xs ys w' Hr; induction Hr as [w w' Hd | w x w1 b w2 xs bs w' Hs Hk Hr IH].
  - constructor. unfold map_iter; rewrite Hd; reflexivity.
  - econstructor; [| exact IH]. unfold map_iter; rewrite Hs, Hk; reflexivity.
Qed.

Lemma map_spec_inv : forall A B (f : cb W A B) (it : iter W A) w ys w',
  yields (map_iter f it) w ys w' -> exists xs, runs it f w xs ys w'.
Proof.
  intros A B f it w ys w' Hy. remember (map_iter f it) as mi eqn:Emi.
  induction Hy as [w w' Hd | w y w1 ys w' Hs Hy IH]; subst mi.
  - exists []. constructor. unfold map_iter in Hd.
    destruct (it w) as [x wa | wa |]; [destruct (f x wa); discriminate | inversion Hd; reflexivity | discriminate].
  - destruct IH as [xs Hr]. unfold map_iter in Hs.
    destruct (it w) as [x wa | wa |] eqn:Eit; try discriminate.
    destruct (f x wa) as [y' wb] eqn:Ef. inversion Hs; subst.
    exists (x :: xs). econstructor; eassumption.
Qed.

Lemma map_spec_pure : forall A B (f : A -> B) (it : iter W A) w xs w',
  yields it w xs w' -> yields (map_iter (pure f) it) w (map f xs) w'.
Proof. intros; eapply map_spec. apply yields_runs_pure; assumption. Qed.

(* ---------- 3. filter ---------- *)
Lemma filter_fuel : forall A (p : cb W A bool) (it : iter W A) w xs bs w',
  runs it p w xs bs w' -> forall f1 f2, length xs < f1 -> length xs < f2 ->
  filter_iter f1 p it w = filter_iter f2 p it w.
Proof.
  intros A p it w xs bs w' Hr; induction Hr as [w w' Hd | w x w1 b w2 xs bs w' Hs Hk Hr IH];
    intros f1 f2 H1 H2; (destruct f1 as [| f1]; [simpl in H1; lia |]);
    (destruct f2 as [| f2]; [simpl in H2; lia |]); simpl.
  - rewrite Hd; reflexivity.
  - rewrite Hs, Hk. destruct b; [reflexivity |]. simpl in H1, H2. apply IH; lia.
Qed.

Lemma yields_same_first : forall A (it : iter W A) w w2 xs w',
  it w = it w2 -> yields it w2 xs w' -> yields it w xs w'.
Proof.
  intros A it w w2 xs w' E Hy. inversion Hy as [wa wb Hd | wa x wb xs' wc Hs Hy']; subst.
  - constructor; congruence.
  - econstructor; [rewrite E; exact Hs | exact Hy'].
Qed.

Lemma filter_spec : forall A (p : cb W A bool) (it : iter W A) w xs bs w',
  runs it p w xs bs w' -> forall fuel, length xs < fuel ->
  yields (filter_iter fuel p it) w (select xs bs) w'.
Proof.
  intros A p it w xs bs w' Hr; induction Hr as [w w' Hd | w x w1 b w2 xs bs w' Hs Hk Hr IH];
    intros fuel Hf; (destruct fuel as [| n]; [simpl in Hf; lia |]).
  - simpl. constructor. simpl. rewrite Hd; reflexivity.
  - simpl in Hf. assert (Hf' : length xs < S n) by lia.
    destruct b; simpl select.
    + econstructor; [| exact (IH _ Hf')]. simpl. rewrite Hs, Hk; reflexivity.
    + eapply yields_same_first; [| exact (IH _ Hf')].
      change (filter_iter (S n) p it w) with
        (match it w with
         | Yield x w1 => let (b, w2) := p x w1 in if b then Yield x w2 else filter_iter n p it w2
         | Done w' => Done w' | NoFuel => NoFuel end).
      rewrite Hs, Hk. eapply filter_fuel; [exact Hr | lia | lia].
Qed.

Lemma filter_spec_pure : forall A (p : A -> bool) (it : iter W A) w xs w' fuel,
  yields it w xs w' -> length xs < fuel ->
  yields (filter_iter fuel (pure p) it) w (filter p xs) w'.
Proof.
  intros A p it w xs w' fuel Hy Hf. rewrite <- select_map.
  apply filter_spec; [apply yields_runs_pure; exact Hy | exact Hf].
Qed.

Lemma type_filter_spec : forall A (tag_ok : A -> bool) (it : iter W A) w xs w' fuel,
  yields it w xs w' -> length xs < fuel ->
  yields (type_filter fuel tag_ok it) w (filter tag_ok xs) w'.
Proof. intros; unfold type_filter; apply filter_spec_pure; assumption. Qed.

(* one step of the filtered iterator: the source is stepped through the
   rejected prefix and the first accepted element, and no further *)
Lemma filter_step_lazy : forall A (p : cb W A bool) (it : iter W A) w pre x w1 fuel,
  pruns it p w (pre ++ [x]) (repeat false (length pre) ++ [true]) w1 ->
  length pre < fuel ->
  filter_iter fuel p it w = Yield x w1.
Proof.
  intros A p it w pre; revert w; induction pre as [| y pre IH]; intros w x w1 fuel Hp Hf;
    (destruct fuel as [| n]; [simpl in Hf; lia |]); simpl in Hp;
    inversion Hp as [| wa xa wb b wc xs bs wd Hs Hk Hp']; subst; simpl.
  - rewrite Hs, Hk. inversion Hp'; subst. reflexivity.
  - rewrite Hs, Hk. simpl in Hf. apply IH; [exact Hp' | lia].
Qed.

Lemma filter_step_done : forall A (p : cb W A bool) (it : iter W A) w xs w' fuel,
  runs it p w xs (repeat false (length xs)) w' -> length xs < fuel ->
  filter_iter fuel p it w = Done w'.
Proof.
  intros A p it w xs; revert w; induction xs as [| y xs IH]; intros w w' fuel Hr Hf;
    (destruct fuel as [| n]; [simpl in Hf; lia |]); simpl in Hr;
    inversion Hr as [wa wb Hd | wa xa wb b wc xs' bs wd Hs Hk Hr']; subst; simpl.
  - rewrite Hd; reflexivity.
  - rewrite Hs, Hk. simpl in Hf. apply IH; [exact Hr' | lia].
Qed.

(* ---------- 4. partition ---------- *)
Lemma partition_loop_spec : forall A (p : cb W A bool) (it : iter W A) w xs bs w',
  runs it p w xs bs w' -> forall fuel l r, length xs < fuel ->
  partition_loop fuel p it l r w =
  Some ((l ++ select xs bs, r ++ select xs (map negb bs)), w').
Proof.
  intros A p it w xs bs w' Hr; induction Hr as [w w' Hd | w x w1 b w2 xs bs w' Hs Hk Hr IH];
    intros fuel l r Hf; (destruct fuel as [| n]; [simpl in Hf; lia |]); simpl.
  - rewrite Hd, !app_nil_r; reflexivity.
  - rewrite Hs, Hk. simpl in Hf. destruct b; simpl; rewrite IH by lia; rewrite <- app_assoc; reflexivity.
Qed.

Lemma partition_spec_eff : forall A (p : cb W A bool) (it : iter W A) w xs bs w' fuel,
  runs it p w xs bs w' -> length xs < fuel ->
  partition_iter fuel p it w = Some ((select xs bs, select xs (map negb bs)), w').
Proof.
  intros A p it w xs bs w' fuel Hr Hf. unfold partition_iter.
  rewrite (partition_loop_spec _ _ _ _ _ _ _ Hr) by exact Hf. reflexivity.
Qed.

Lemma partition_spec : forall A (p : A -> bool) (it : iter W A) w xs w' fuel,
  yields it w xs w' -> length xs < fuel ->
  partition_iter fuel (pure p) it w =
  Some ((filter p xs, filter (fun x => negb (p x)) xs), w').
Proof.
  intros A p it w xs w' fuel Hy Hf.
  rewrite (partition_spec_eff _ _ _ _ _ _ _ _ (yields_runs_pure _ _ p _ _ _ _ Hy) Hf).
  rewrite select_map, select_map_negb; reflexivity.
Qed.

(* ---------- 5. reduce ---------- *)
Lemma reduce_spec_eff : forall A S (f : cb2 W S A) (it : iter W A) s w xs s' w',
  folds it f s w xs s' w' -> forall fuel, length xs < fuel ->
  reduce fuel f s it w = Some (s', w').
Proof.
  intros A S f it s w xs s' w' Hf;
    induction Hf as [s w w' Hd | s w x w1 s2 w2 xs s' w' Hs Hk Hf IH];
    intros fuel Hl; (destruct fuel as [| n]; [simpl in Hl; lia |]); simpl.
  - rewrite Hd; reflexivity.
  - rewrite Hs, Hk. simpl in Hl. apply IH; lia.
Qed.

Lemma reduce_spec : forall A S (f : S -> A -> S) (it : iter W A) init w xs w' fuel,
  yields it w xs w' -> length xs < fuel ->
  reduce fuel (pure2 f) init it w = Some (fold_left f xs init, w').
Proof.
  intros A S f it init w xs w' fuel Hy Hl.
  eapply reduce_spec_eff; [apply yields_folds_pure; exact Hy | exact Hl].
Qed.

Lemma sum_spec : forall (it : iter W Z) w xs w' fuel,
  yields it w xs w' -> length xs < fuel ->
  sum_iter fuel it w = Some (fold_left Z.add xs 0%Z, w').
Proof. intros; unfold sum_iter; apply reduce_spec; assumption. Qed.
Lemma product_spec : forall (it : iter W Z) w xs w' fuel,
  yields it w xs w' -> length xs < fuel ->
  product_iter fuel it w = Some (fold_left Z.mul xs 1%Z, w').
Proof. intros; unfold product_iter; apply reduce_spec; assumption. Qed.
Lemma bitand_spec : forall (it : iter W Z) w xs w' fuel,
  yields it w xs w' -> length xs < fuel ->
  bitand_iter fuel it w = Some (fold_left Z.land xs (-1)%Z, w').
Proof. intros; unfold bitand_iter; apply reduce_spec; assumption. Qed.
Lemma bitor_spec : forall (it : iter W Z) w xs w' fuel,
  yields it w xs w' -> length xs < fuel ->
  bitor_iter fuel it w = Some (fold_left Z.lor xs 0%Z, w').
Proof. intros; unfold bitor_iter; apply reduce_spec; assumption. Qed.

Lemma reducers_empty : forall (it : iter W Z) w w' fuel,
  yields it w [] w' -> 0 < fuel ->
  sum_iter fuel it w = Some (0%Z, w') /\ product_iter fuel it w = Some (1%Z, w') /\
  bitand_iter fuel it w = Some ((-1)%Z, w') /\ bitor_iter fuel it w = Some (0%Z, w').
Proof.
  intros it w w' fuel Hy Hf. repeat split.
  - exact (sum_spec _ _ _ _ _ Hy Hf).
  - exact (product_spec _ _ _ _ _ Hy Hf).
  - exact (bitand_spec _ _ _ _ _ Hy Hf).
  - exact (bitor_spec _ _ _ _ _ Hy Hf).
Qed.

(* the folds are what their names say *)
Lemma fold_add_sum : forall xs z, fold_left Z.add xs z = (z + fold_right Z.add 0 xs)%Z.
Proof. intros xs; induction xs as [| x xs IH]; intros z; simpl; [lia | rewrite IH; lia]. Qed.
Lemma fold_mul_product : forall xs z, fold_left Z.mul xs z = (z * fold_right Z.mul 1 xs)%Z.
Proof. intros xs; induction xs as [| x xs IH]; intros z; simpl; [lia | rewrite IH; lia]. Qed.
Lemma bitand_all_ones : forall x, Z.land (-1) x = x.
Proof. intros x. apply Z.land_m1_l. Qed.
Lemma bitor_zero : forall x, Z.lor 0 x = x.
Proof. intros x. apply Z.lor_0_l. Qed.

(* ---------- 6. all / any ---------- *)
Lemma all_true : forall (it : iter W bool) w xs w' fuel,
  yields it w xs w' -> forallb id xs = true -> length xs < fuel ->
  all_iter fuel it w = Some (true, w').
Proof.
  intros it w xs w' fuel Hy; revert fuel; induction Hy as [w w' Hd | w x w1 xs w' Hs Hy IH];
    intros fuel Hall Hf; (destruct fuel as [| n]; [simpl in Hf; lia |]); simpl.
  - rewrite Hd; reflexivity.
  - rewrite Hs. simpl in Hall, Hf. apply andb_true_iff in Hall as [Hx Hall].
    unfold id in Hx; subst x. apply IH; [exact Hall | lia].
Qed.

Lemma all_stops_early : forall (it : iter W bool) w pre w1 fuel,
  pulls it w (pre ++ [false]) w1 -> forallb id pre = true -> length pre < fuel ->
  all_iter fuel it w = Some (false, w1).
Proof.
  intros it w pre; revert w; induction pre as [| x pre IH]; intros w w1 fuel Hp Hall Hf;
    (destruct fuel as [| n]; [simpl in Hf; lia |]); simpl in Hp;
    inversion Hp as [| wa xa wb xs wc Hs Hp']; subst; simpl.
  - rewrite Hs. inversion Hp'; subst; reflexivity.
  - rewrite Hs. simpl in Hall, Hf. apply andb_true_iff in Hall as [Hx Hall].
    unfold id in Hx; subst x. apply IH; [exact Hp' | exact Hall | lia].
Qed.

Lemma all_spec : forall (it : iter W bool) w xs w' fuel,
  yields it w xs w' -> length xs < fuel ->
  exists w'', all_iter fuel it w = Some (forallb id xs, w'').
Proof.
  intros it w xs w' fuel Hy; revert fuel; induction Hy as [w w' Hd | w x w1 xs w' Hs Hy IH];
    intros fuel Hf; (destruct fuel as [| n]; [simpl in Hf; lia |]); simpl.
  - rewrite Hd; eexists; reflexivity.
  - rewrite Hs. simpl in Hf. destruct x; unfold id at 1; simpl.
    + apply IH; lia.
    + eexists; reflexivity.
Qed.

Lemma any_false : forall (it : iter W bool) w xs w' fuel,
  yields it w xs w' -> existsb id xs = false -> length xs < fuel ->
  any_iter fuel it w = Some (false, w').
Proof.
  intros it w xs w' fuel Hy; revert fuel; induction Hy as [w w' Hd | w x w1 xs w' Hs Hy IH];
    intros fuel Hex Hf; (destruct fuel as [| n]; [simpl in Hf; lia |]); simpl.
  - rewrite Hd; reflexivity.
  - rewrite Hs. simpl in Hex, Hf. apply orb_false_iff in Hex as [Hx Hex].
    unfold id in Hx; subst x. apply IH; [exact Hex | lia].
Qed.

Lemma any_stops_early : forall (it : iter W bool) w pre w1 fuel,
  pulls it w (pre ++ [true]) w1 -> existsb id pre = false -> length pre < fuel ->
  any_iter fuel it w = Some (true, w1).
Proof.
  intros it w pre; revert w; induction pre as [| x pre IH]; intros w w1 fuel Hp Hex Hf;
    (destruct fuel as [| n]; [simpl in Hf; lia |]); simpl in Hp;
    inversion Hp as [| wa xa wb xs wc Hs Hp']; subst; simpl.
  - rewrite Hs. inversion Hp'; subst; reflexivity.
  - rewrite Hs. simpl in Hex, Hf. apply orb_false_iff in Hex as [Hx Hex].
    unfold id in Hx; subst x. apply IH; [exact Hp' | exact Hex | lia].
Qed.

Lemma any_spec : forall (it : iter W bool) w xs w' fuel,
  yields it w xs w' -> length xs < fuel ->
  exists w'', any_iter fuel it w = Some (existsb id xs, w'').
Proof.
  intros it w xs w' fuel Hy; revert fuel; induction Hy as [w w' Hd | w x w1 xs w' Hs Hy IH];
    intros fuel Hf; (destruct fuel as [| n]; [simpl in Hf; lia |]); simpl.
  - rewrite Hd; eexists; reflexivity.
  - rewrite Hs. simpl in Hf. destruct x; unfold id at 1; simpl.
    + eexists; reflexivity.
    + apply IH; lia.
Qed.

(* ---------- 7. for ---------- *)
Lemma for_spec : forall A (body : cb W A ctl) (it : iter W A) w xs w' fuel,
  runs it body w xs (repeat Next (length xs)) w' -> length xs < fuel ->
  for_loop fuel body it w = Some w'.
Proof.
  intros A body it w xs; revert w; induction xs as [| x xs IH]; intros w w' fuel Hr Hf;
    (destruct fuel as [| n]; [simpl in Hf; lia |]); simpl in Hr;
    inversion Hr as [wa wb Hd | wa xa wb b wc xs' bs wd Hs Hk Hr']; subst; simpl.
  - rewrite Hd; reflexivity.
  - rewrite Hs, Hk. simpl in Hf. apply IH; [exact Hr' | lia].
Qed.

Lemma for_break_spec : forall A (body : cb W A ctl) (it : iter W A) w pre x w1 fuel,
  pruns it body w (pre ++ [x]) (repeat Next (length pre) ++ [Break]) w1 ->
  length pre < fuel ->
  for_loop fuel body it w = Some w1.
Proof.
  intros A body it w pre; revert w; induction pre as [| y pre IH]; intros w x w1 fuel Hp Hf;
    (destruct fuel as [| n]; [simpl in Hf; lia |]); simpl in Hp;
    inversion Hp as [| wa xa wb b wc xs bs wd Hs Hk Hp']; subst; simpl.
  - rewrite Hs, Hk. inversion Hp'; subst; reflexivity.
  - rewrite Hs, Hk. simpl in Hf. eapply IH; [exact Hp' | lia].
Qed.

(* a body that neither breaks nor touches what the source reads: the loop is
   the sequential application of the body to the elements.  Stated for a list
   source further down (for_array). *)

(* ---------- 8. array iterator ---------- *)
Section Arr.
Variable getc : W -> Z.
Variable setc : Z -> W -> W.
Hypothesis getc_setc : forall v w, getc (setc v w) = v.

Lemma getc_ticks : forall n w, getc (Nat.iter n (tick getc setc) w) = (getc w + Z.of_nat n)%Z.
Proof.
  intros n; induction n as [| n IH]; intros w.
  - simpl; lia.
  - rewrite iter_S. unfold tick at 1. rewrite getc_setc, IH. lia.
Qed.

Lemma array_iter_step : forall A (a : list A) k x w,
  getc w = (Z.of_nat k - 1)%Z -> nth_error a k = Some x ->
  array_iter getc setc a w = Yield x (tick getc setc w).
Proof.
  intros A a k x w Hc Hn. unfold array_iter, tick.
  assert (Hk : k < length a) by (apply nth_error_Some; congruence).
  replace (getc w + 1)%Z with (Z.of_nat k) by lia.
  replace ((0 <=? Z.of_nat k)%Z && (Z.of_nat k <? Z.of_nat (length a))%Z) with true.
  - rewrite Nat2Z.id, Hn; reflexivity.
  - symmetry; apply andb_true_iff; split; [apply Z.leb_le | apply Z.ltb_lt]; lia.
Qed.

Lemma array_iter_end : forall A (a : list A) w,
  getc w = (Z.of_nat (length a) - 1)%Z ->
  array_iter getc setc a w = Done (tick getc setc w).
Proof.
  intros A a w Hc. unfold array_iter, tick.
  replace (getc w + 1)%Z with (Z.of_nat (length a)) by lia.
  rewrite Z.ltb_irrefl, andb_false_r. reflexivity.
Qed.

Lemma array_iter_pulls : forall A (suf pre : list A) w,
  getc w = (Z.of_nat (length pre) - 1)%Z ->
  pulls (array_iter getc setc (pre ++ suf)) w suf (Nat.iter (length suf) (tick getc setc) w).
Proof.
  intros A suf; induction suf as [| x suf IH]; intros pre w Hc.
  - simpl. constructor.
  - econstructor.
    + apply (array_iter_step _ _ (length pre)); [exact Hc |].
      rewrite nth_error_app2 by lia. rewrite Nat.sub_diag; reflexivity.
    + simpl length. rewrite iter_S_r.
      replace (pre ++ x :: suf) with ((pre ++ [x]) ++ suf) by (rewrite <- app_assoc; reflexivity).
      apply IH. unfold tick. rewrite getc_setc, app_length. simpl. lia.
Qed.

Lemma array_iter_spec : forall A (a : list A) w0,
  getc w0 = (-1)%Z ->
  yields (array_iter getc setc a) w0 a (Nat.iter (S (length a)) (tick getc setc) w0).
Proof.
  intros A a w0 Hc. apply yields_pulls.
  exists (Nat.iter (length a) (tick getc setc) w0). split.
  - apply (array_iter_pulls _ a []). simpl; lia.
  - rewrite iter_S. apply array_iter_end. rewrite getc_ticks. lia.
Qed.

(* the counter names the index that is read: after k calls it is k-1, so the
   call number k+1 reads index k, once *)
Lemma array_iter_counter : forall A (a : list A) w0 xs w1,
  getc w0 = (-1)%Z -> pulls (array_iter getc setc a) w0 xs w1 ->
  getc w1 = (Z.of_nat (length xs) - 1)%Z /\ xs = firstn (length xs) a.
Proof.
  intros A a w0 xs w1 Hc Hp.
  assert (G : forall w xs w1, pulls (array_iter getc setc a) w xs w1 ->
              forall k, getc w = (Z.of_nat k - 1)%Z ->
              getc w1 = (Z.of_nat (k + length xs) - 1)%Z /\ xs = firstn (length xs) (skipn k a)).
  { clear w0 xs w1 Hc Hp. intros w xs w1 Hp; induction Hp as [w | w x wa xs wb Hs Hp IH]; intros k Hk.
    - simpl. rewrite Nat.add_0_r. auto.
    - unfold array_iter in Hs. replace (getc w + 1)%Z with (Z.of_nat k) in Hs by lia.
      destruct ((0 <=? Z.of_nat k)%Z && (Z.of_nat k <? Z.of_nat (length a))%Z); [| discriminate].
      rewrite Nat2Z.id in Hs. destruct (nth_error a k) as [y |] eqn:En; [| discriminate].
      inversion Hs; subst y wa.
      destruct (IH (S k)) as [IH1 IH2]; [rewrite getc_setc; lia |].
      split; [rewrite IH1; simpl length; f_equal; lia |].
      simpl length.
      assert (Esk : skipn k a = x :: skipn (S k) a).
      { clear -En. revert k En; induction a as [| h t IHa]; intros [| k] En; simpl in *; try discriminate.
        - inversion En; reflexivity.
        - apply IHa; exact En. }
      rewrite Esk. simpl. f_equal. exact IH2. }
  destruct (G _ _ _ Hp 0) as [G1 G2]; [simpl; lia |]. simpl in G1, G2. auto.
Qed.

(* ---------- 9. pipelines ---------- *)
Lemma pipeline_pure : forall A B (f : A -> B) (p : A -> bool) (a : list A) w0 fuel fuel',
  getc w0 = (-1)%Z -> length a < fuel -> length a < fuel' ->
  collect fuel (map_iter (pure f) (filter_iter fuel' (pure p) (array_iter getc setc a))) w0
  = Some (map f (filter p a), Nat.iter (S (length a)) (tick getc setc) w0).
Proof.
  intros A B f p a w0 fuel fuel' Hc Hf Hf'.
  apply collect_spec.
  - apply map_spec_pure. apply filter_spec_pure; [apply array_iter_spec; exact Hc | exact Hf'].
  - rewrite map_length. rewrite <- select_map. pose proof (select_length_le _ a (map p a)) as Hle. lia.
Qed.

Lemma fold_body_tick : forall A (body : A -> W -> W),
  (forall x w, getc (body x w) = getc w) ->
  (forall x v w, body x (setc v w) = setc v (body x w)) ->
  forall xs w, fold_left (fun w x => body x w) xs (tick getc setc w)
               = tick getc setc (fold_left (fun w x => body x w) xs w).
Proof.
  intros A body Hget Hset xs; induction xs as [| x xs IH]; intros w; simpl; [reflexivity |].
  rewrite <- IH. f_equal. unfold tick. rewrite Hset, Hget. reflexivity.
Qed.

(* `for x in a~ body` with a body that does not touch the cursor: the body is
   applied to a[0], a[1], ... in order, once each (a left fold over a), and the
   cursor is ticked |a|+1 times *)
Lemma for_array : forall A (a : list A) (body : A -> W -> W) w0 fuel,
  getc w0 = (-1)%Z -> length a < fuel ->
  (forall x w, getc (body x w) = getc w) ->
  (forall x v w, body x (setc v w) = setc v (body x w)) ->
  for_loop fuel (fun x w => (Next, body x w)) (array_iter getc setc a) w0
  = Some (Nat.iter (S (length a)) (tick getc setc) (fold_left (fun w x => body x w) a w0)).
Proof.
  intros A a body w0 fuel Hc Hf Hget Hset.
  assert (G : forall suf pre w fuel, getc w = (Z.of_nat (length pre) - 1)%Z -> length suf < fuel ->
            for_loop fuel (fun x w => (Next, body x w)) (array_iter getc setc (pre ++ suf)) w
            = Some (Nat.iter (S (length suf)) (tick getc setc) (fold_left (fun w x => body x w) suf w))).
  { clear w0 fuel Hc Hf a. intros suf; induction suf as [| x suf IH]; intros pre w fuel Hc Hf;
      (destruct fuel as [| n]; [simpl in Hf; lia |]); simpl for_loop.
    - rewrite app_nil_r. rewrite array_iter_end by exact Hc. reflexivity.
    - rewrite (array_iter_step _ _ (length pre) x) by
        (try exact Hc; rewrite nth_error_app2 by lia; rewrite Nat.sub_diag; reflexivity).
      replace (pre ++ x :: suf) with ((pre ++ [x]) ++ suf) by (rewrite <- app_assoc; reflexivity).
      rewrite IH.
      + simpl fold_left. simpl length.
        replace (body x (tick getc setc w)) with (tick getc setc (body x w))
          by (unfold tick; rewrite Hset, Hget; reflexivity).
        rewrite (fold_body_tick _ body Hget Hset).
        rewrite <- (iter_S_r _ _ (S (length suf))). reflexivity.
      + rewrite Hget. unfold tick. rewrite getc_setc, app_length. simpl. lia.
      + simpl in Hf; lia. }
  apply (G a [] w0 fuel); [simpl; lia | exact Hf].
Qed.

End Arr.
End L.

(* ---------- instrumented worlds ---------- *)
Lemma repeat_snoc : forall A (x : A) n, repeat x n ++ [x] = x :: repeat x n.
Proof. intros A x n; induction n as [| n IH]; simpl; [reflexivity | rewrite IH; reflexivity]. Qed.

Lemma pulls_traced : forall W A E (it : iter W A) w xs w1,
  pulls it w xs w1 -> forall l : list (event E),
  pulls (traced_it it) (w, l) xs (w1, l ++ repeat EStep (length xs)).
Proof.
  intros W A E it w xs w1 Hp; induction Hp as [w | w x wa xs wb Hs Hp IH]; intros l.
  - simpl. rewrite app_nil_r. constructor.
  - apply pulls_cons with (w1 := (wa, l ++ [EStep])).
    + unfold traced_it; simpl. rewrite Hs; reflexivity.
    + replace (l ++ repeat EStep (length (x :: xs))) with ((l ++ [EStep]) ++ repeat EStep (length xs))
        by (rewrite <- app_assoc; reflexivity).
      apply IH.
Qed.

Lemma yields_traced : forall W A E (it : iter W A) w xs w',
  yields it w xs w' -> forall l : list (event E),
  yields (traced_it it) (w, l) xs (w', l ++ repeat EStep (S (length xs))).
Proof.
  intros W A E it w xs w' Hy; induction Hy as [w w' Hd | w x w1 xs w' Hs Hy IH]; intros l.
  - constructor. unfold traced_it; simpl. rewrite Hd; reflexivity.
  - apply yields_cons with (w1 := (w1, l ++ [EStep])).
    + unfold traced_it; simpl. rewrite Hs; reflexivity.
    + replace (l ++ repeat EStep (S (length (x :: xs))))
        with ((l ++ [EStep]) ++ repeat EStep (S (length xs)))
        by (rewrite <- app_assoc; reflexivity).
      apply IH.
Qed.

Lemma pruns_traced : forall W A B (it : iter W A) (k : cb W A B) w xs bs w1,
  pruns it k w xs bs w1 -> forall l,
  pruns (traced_it it) (traced_cb k) (w, l) xs bs
        (w1, l ++ flat_map (fun x => [EStep; ECall x]) xs).
Proof.
  intros W A B it k w xs bs w1 Hp; induction Hp as [w | w x wa b wb xs bs wc Hs Hk Hp IH]; intros l.
  - simpl. rewrite app_nil_r. constructor.
  - apply pruns_cons with (w1 := (wa, l ++ [EStep])) (w2 := (wb, (l ++ [EStep]) ++ [ECall x])).
    + unfold traced_it; simpl. rewrite Hs; reflexivity.
    + unfold traced_cb; simpl. rewrite Hk; reflexivity.
    + replace (l ++ flat_map (fun x => [EStep; ECall x]) (x :: xs))
        with (((l ++ [EStep]) ++ [ECall x]) ++ flat_map (fun x => [EStep; ECall x]) xs)
        by (simpl; rewrite <- !app_assoc; reflexivity).
      apply IH.
Qed.

Lemma runs_traced : forall W A B (it : iter W A) (k : cb W A B) w xs bs w',
  runs it k w xs bs w' -> forall l,
  runs (traced_it it) (traced_cb k) (w, l) xs bs (w', l ++ full_trace xs).
Proof.
  intros W A B it k w xs bs w' Hr; induction Hr as [w w' Hd | w x wa b wb xs bs wc Hs Hk Hr IH]; intros l.
  - constructor. unfold traced_it; simpl. rewrite Hd; reflexivity.
  - apply runs_cons with (w1 := (wa, l ++ [EStep])) (w2 := (wb, (l ++ [EStep]) ++ [ECall x])).
    + unfold traced_it; simpl. rewrite Hs; reflexivity.
    + unfold traced_cb; simpl. rewrite Hk; reflexivity.
    + replace (l ++ full_trace (x :: xs))
        with (((l ++ [EStep]) ++ [ECall x]) ++ full_trace xs)
        by (unfold full_trace; simpl; rewrite <- !app_assoc; reflexivity).
      apply IH.
Qed.

Lemma folds_traced : forall W A S (it : iter W A) (f : cb2 W S A) s w xs s' w',
  folds it f s w xs s' w' -> forall l,
  folds (traced_it it) (traced_cb2 f) s (w, l) xs s' (w', l ++ full_trace xs).
Proof.
  intros W A S it f s w xs s' w' Hf;
    induction Hf as [s w w' Hd | s w x wa s2 wb xs s' wc Hs Hk Hf IH]; intros l.
  - constructor. unfold traced_it; simpl. rewrite Hd; reflexivity.
  - apply folds_cons with (w1 := (wa, l ++ [EStep])) (s2 := s2) (w2 := (wb, (l ++ [EStep]) ++ [ECall x])).
    + unfold traced_it; simpl. rewrite Hs; reflexivity.
    + unfold traced_cb2; simpl. rewrite Hk; reflexivity.
    + replace (l ++ full_trace (x :: xs))
        with (((l ++ [EStep]) ++ [ECall x]) ++ full_trace xs)
        by (unfold full_trace; simpl; rewrite <- !app_assoc; reflexivity).
      apply IH.
Qed.

(* eager consumers step the source exactly n+1 times *)
Lemma collect_steps : forall W A E (it : iter W A) w xs w' fuel (l : list (event E)),
  yields it w xs w' -> length xs < fuel ->
  collect fuel (traced_it it) (w, l) = Some (xs, (w', l ++ repeat EStep (S (length xs)))).
Proof. intros; apply collect_spec; [apply yields_traced; assumption | assumption]. Qed.

(* map: source step, then f, per element; f once per element, in order *)
Lemma map_trace : forall W A B (f : cb W A B) (it : iter W A) w xs ys w' l,
  runs it f w xs ys w' ->
  yields (map_iter (traced_cb f) (traced_it it)) (w, l) ys (w', l ++ full_trace xs).
Proof. intros; eapply map_spec; apply runs_traced; eassumption. Qed.

Lemma map_step_trace : forall W A B (f : cb W A B) (it : iter W A) w x w1 y w2 l,
  it w = Yield x w1 -> f x w1 = (y, w2) ->
  map_iter (traced_cb f) (traced_it it) (w, l) = Yield y (w2, (l ++ [EStep]) ++ [ECall x]).
Proof.
  intros W A B f it w x w1 y w2 l Hs Hk. unfold map_iter, traced_it, traced_cb; simpl.
  rewrite Hs; simpl. rewrite Hk; reflexivity.
Qed.

Lemma filter_trace : forall W A (p : cb W A bool) (it : iter W A) w xs bs w' l fuel,
  runs it p w xs bs w' -> length xs < fuel ->
  yields (filter_iter fuel (traced_cb p) (traced_it it)) (w, l) (select xs bs) (w', l ++ full_trace xs).
Proof. intros; apply filter_spec; [apply runs_traced; assumption | assumption]. Qed.

Lemma filter_step_trace : forall W A (p : cb W A bool) (it : iter W A) w pre x w1 fuel l,
  pruns it p w (pre ++ [x]) (repeat false (length pre) ++ [true]) w1 -> length pre < fuel ->
  filter_iter fuel (traced_cb p) (traced_it it) (w, l)
  = Yield x (w1, l ++ flat_map (fun x => [EStep; ECall x]) (pre ++ [x])).
Proof. intros; apply filter_step_lazy with (pre := pre); [apply pruns_traced; assumption | assumption]. Qed.

Lemma partition_trace : forall W A (p : cb W A bool) (it : iter W A) w xs bs w' l fuel,
  runs it p w xs bs w' -> length xs < fuel ->
  partition_iter fuel (traced_cb p) (traced_it it) (w, l)
  = Some ((select xs bs, select xs (map negb bs)), (w', l ++ full_trace xs)).
Proof. intros; apply partition_spec_eff; [apply runs_traced; assumption | assumption]. Qed.

Lemma reduce_trace : forall W A S (f : cb2 W S A) (it : iter W A) s w xs s' w' l fuel,
  folds it f s w xs s' w' -> length xs < fuel ->
  reduce fuel (traced_cb2 f) s (traced_it it) (w, l) = Some (s', (w', l ++ full_trace xs)).
Proof. intros; eapply reduce_spec_eff; [apply folds_traced; eassumption | assumption]. Qed.

Lemma all_steps : forall W E (it : iter W bool) w pre w1 fuel (l : list (event E)),
  pulls it w (pre ++ [false]) w1 -> forallb id pre = true -> length pre < fuel ->
  all_iter fuel (traced_it it) (w, l) = Some (false, (w1, l ++ repeat EStep (S (length pre)))).
Proof.
  intros W E it w pre w1 fuel l Hp Hall Hf.
  replace (S (length pre)) with (length (pre ++ [false])) by (rewrite app_length; simpl; lia).
  apply all_stops_early with (pre := pre); [apply pulls_traced; exact Hp | exact Hall | exact Hf].
Qed.

Lemma any_steps : forall W E (it : iter W bool) w pre w1 fuel (l : list (event E)),
  pulls it w (pre ++ [true]) w1 -> existsb id pre = false -> length pre < fuel ->
  any_iter fuel (traced_it it) (w, l) = Some (true, (w1, l ++ repeat EStep (S (length pre)))).
Proof.
  intros W E it w pre w1 fuel l Hp Hex Hf.
  replace (S (length pre)) with (length (pre ++ [true])) by (rewrite app_length; simpl; lia).
  apply any_stops_early with (pre := pre); [apply pulls_traced; exact Hp | exact Hex | exact Hf].
Qed.

Lemma for_trace : forall W A (body : cb W A ctl) (it : iter W A) w xs w' fuel l,
  runs it body w xs (repeat Next (length xs)) w' -> length xs < fuel ->
  for_loop fuel (traced_cb body) (traced_it it) (w, l) = Some (w', l ++ full_trace xs).
Proof. intros; apply for_spec with (xs := xs); [apply runs_traced; assumption | assumption]. Qed.

(* ---------- separated state: the sequence definitions with effects -------- *)
Lemma runs_separated : forall S L A B (it : iter S A) (k : cb L A B) s xs s',
  yields it s xs s' -> forall l,
  runs (src_on_fst it) (cb_on_snd k) (s, l) xs (fst (mapM k xs l)) (s', snd (mapM k xs l)).
Proof.
  intros S L A B it k s xs s' Hy; induction Hy as [s s' Hd | s x s1 xs s' Hs Hy IH]; intros l.
  - simpl. constructor. unfold src_on_fst; simpl. rewrite Hd; reflexivity.
  - simpl mapM. destruct (k x l) as [b l1] eqn:Ek. specialize (IH l1).
    destruct (mapM k xs l1) as [bs l2] eqn:Em. simpl in *.
    apply runs_cons with (w1 := (s1, l)) (w2 := (s1, l1)).
    + unfold src_on_fst; simpl. rewrite Hs; reflexivity.
    + unfold cb_on_snd; simpl. rewrite Ek; reflexivity.
    + exact IH.
Qed.

Lemma folds_separated : forall S L T A (it : iter S A) (f : cb2 L T A) s xs s',
  yields it s xs s' -> forall t l,
  folds (src_on_fst it) (cb2_on_snd f) t (s, l) xs (fst (foldM f xs t l)) (s', snd (foldM f xs t l)).
Proof.
  intros S L T A it f s xs s' Hy; induction Hy as [s s' Hd | s x s1 xs s' Hs Hy IH]; intros t l.
  - simpl. constructor. unfold src_on_fst; simpl. rewrite Hd; reflexivity.
  - simpl foldM. destruct (f t x l) as [t1 l1] eqn:Ef.
    apply folds_cons with (w1 := (s1, l)) (s2 := t1) (w2 := (s1, l1)).
    + unfold src_on_fst; simpl. rewrite Hs; reflexivity.
    + unfold cb2_on_snd; simpl. rewrite Ef; reflexivity.
    + apply IH.
Qed.

Lemma map_spec_separated : forall S L A B (it : iter S A) (k : cb L A B) s xs s' l,
  yields it s xs s' ->
  yields (map_iter (cb_on_snd k) (src_on_fst it)) (s, l) (fst (mapM k xs l)) (s', snd (mapM k xs l)).
Proof. intros; eapply map_spec; apply runs_separated; assumption. Qed.

Lemma reduce_spec_separated : forall S L T A (it : iter S A) (f : cb2 L T A) s xs s' t l fuel,
  yields it s xs s' -> length xs < fuel ->
  reduce fuel (cb2_on_snd f) t (src_on_fst it) (s, l)
  = Some (fst (foldM f xs t l), (s', snd (foldM f xs t l))).
Proof. intros; eapply reduce_spec_eff; [apply folds_separated; eassumption | assumption]. Qed.

Lemma for_spec_separated : forall S L A (it : iter S A) (body : A -> L -> L) s xs s' l fuel,
  yields it s xs s' -> length xs < fuel ->
  for_loop fuel (cb_on_snd (fun x l => (Next, body x l))) (src_on_fst it) (s, l)
  = Some (s', fold_left (fun l x => body x l) xs l).
Proof.
  intros S L A it body s xs s' l fuel Hy; revert l fuel;
    induction Hy as [s s' Hd | s x s1 xs s' Hs Hy IH]; intros l fuel Hf;
    (destruct fuel as [| n]; [simpl in Hf; lia |]); simpl.
  - unfold src_on_fst; simpl. rewrite Hd; reflexivity.
  - unfold src_on_fst at 1; simpl. rewrite Hs. unfold cb_on_snd at 1; simpl.
    simpl in Hf. apply IH; lia.
Qed.

(* ---------- the concrete world ---------- *)
Lemma get_set_cursor : forall c v w, get_cursor c (set_cursor c v w) = v.
Proof.
  intros c v [cs lg]. unfold get_cursor, set_cursor; simpl. clear lg.
  revert cs; induction c as [| c IH]; intros [| h t]; simpl; try reflexivity; apply IH.
Qed.

(* Sound7.v — layer 3, stage 6: the closure policy for programs with iterator operators.
   [policy6] allows
     - the gated iterator rules (`$]`, `$init f`, `? T`, `\`): it rejects the reserved key;
     - every closure literal whose body is typed WITHOUT the gated rules (under [all_policy]):
       for those the constant-propagation pass preserves typing (SoundRec3.recreate_ok_all).
       It does not for the rules that read the element type off the static type
       (C01b.recreate_iterator_refuted).  The planted forms of `$+ $* $&& $|| $& $|` are
       plain calls / matches and are NOT gated: closure bodies may contain them.
   [policy6_ok]: the hypothesis of Soundness.v is proved for it. *)
From SSL.Model Require Import Base Ty Float Value Ops Seq Syntax Rt Recreate Exec Check.
From SSL.Lemmas Require Import TyLemmas ValueLemmas SeqLemmas ExecLemmas SoundLemmas CellLemmas
  SoundDefs SoundVals SoundTyping Sound1 Sound2 Sound3 Sound4 Sound5 SoundRec1 Sound6
  SoundRec2 SoundRec3.

Arguments matches : simpl never.
Arguments ty_eqb : simpl never.
Arguments concat : simpl never.

Definition policy6 : Policy :=
  fun W0 G nm ps body r =>
    wf_ty r = true /\
    exists G' Ts, @typed_list all_policy W0 (closure_env nm ps r ++ G) (mkK false (Some r)) body G' Ts /\
                  (matches TVoid r = true \/ In TNever Ts).

Lemma all_policy_nogate : forall W0 G i, ~ @iter_gate all_policy W0 G i.
Proof. intros W0 G i H. apply H. exact I. Qed.

(* the gate of policy6 is open *)
Lemma gate6 W0 G i : @iter_gate policy6 W0 G i.
Proof. intros [Wr _]. discriminate Wr. Qed.

(* typing under all_policy (no gated rules) embeds into typing under policy6: a closure
   literal carries its own body typing *)
Lemma typed_all_in_6 W0 :
  (forall G K i T, @typed all_policy W0 G K i T -> @typed policy6 W0 G K i T) /\
  (forall G K es Ts, @typed_all all_policy W0 G K es Ts -> @typed_all policy6 W0 G K es Ts) /\
  (forall G K fs acc out, @typed_fields all_policy W0 G K fs acc out -> @typed_fields policy6 W0 G K fs acc out) /\
  (forall G K o, @typed_opt all_policy W0 G K o -> @typed_opt policy6 W0 G K o) /\
  (forall G K i T G', @typed_line all_policy W0 G K i T G' -> @typed_line policy6 W0 G K i T G') /\
  (forall G K l G' Ts, @typed_list all_policy W0 G K l G' Ts -> @typed_list policy6 W0 G K l G' Ts) /\
  (forall G K arms Ts, @typed_arms all_policy W0 G K arms Ts -> @typed_arms policy6 W0 G K arms Ts).
Proof.
  apply (@typed_mutind all_policy); intros; try (econstructor; eauto; fail).
  - (* anon fn *)
    match goal with Hw : wf_ty (TFun _ r) = true |- _ => pose proof (proj2 (wf_fun_parts _ _ Hw)) as Wr end.
    eapply T_AnonFn; try eassumption. split; [exact Wr|]. eauto.
  - exfalso. eapply all_policy_nogate; eassumption.
  - exfalso. eapply all_policy_nogate; eassumption.
  - exfalso. eapply all_policy_nogate; eassumption.
  - exfalso. eapply all_policy_nogate; eassumption.
  - (* fn decl *)
    match goal with Hw : wf_ty (TFun _ r) = true |- _ => pose proof (proj2 (wf_fun_parts _ _ Hw)) as Wr end.
    eapply Ln_fndecl; try eassumption. split; [exact Wr|]. eauto.
Qed.

Theorem policy6_ok powf : @policy_ok policy6 powf.
Proof.
  intros W0 G nm ps body r G' Ts [Wr [G5 [Ts5 [Hb5 Hend5]]]] Wf Hnm _ _.
  pose proof (@recreate_ok_all powf W0 G nm ps body r G5 Ts5 I Wf Hnm Hb5 Hend5) as H5.
  intros W sc HE HG. destruct (H5 W sc HE HG) as [NP [HErr HOk]].
  split; [exact NP|]. split; [exact HErr|].
  intros body' Hb'. destruct (HOk body' Hb') as [G'' [Ts' [Hl Hend]]].
  exists G'', Ts'. split; [|exact Hend]. apply (typed_all_in_6 W). exact Hl.
Qed.

(* Sound7.v — layer 3, stage 6: the closure policy for programs with iterator operators.
   [policy6 pre] allows
     - the iterator operators, when the store typing of the program's constants records the
       honest signatures of the prelude closures ([prelude_ok pre W0]);
     - every closure literal whose body is typed WITHOUT iterator operators (under
       [all_policy]): for those the constant-propagation pass preserves typing
       (SoundRec3.recreate_ok_all).  It does not for bodies with iterator operators
       (C01b.recreate_iterator_refuted).
   [policy6_ok]: the hypothesis of Soundness.v is proved for it.  (The iterator gate is the
   REJECTION of a reserved key, so [policy6] rejects it exactly when the prelude is NOT
   typed; reading the gate back is a double negation: Classical_Prop.NNPP.) *)
From Coq Require Import Classical_Prop.
From SSL.Model Require Import Base Ty Float Value Ops Seq Syntax Rt Recreate Exec Check.
From SSL.Lemmas Require Import TyLemmas ValueLemmas SeqLemmas ExecLemmas SoundLemmas CellLemmas
  SoundDefs SoundVals SoundTyping Sound1 Sound2 Sound3 Sound4 Sound5 SoundRec1 Sound6
  SoundRec2 SoundRec3.

Arguments matches : simpl never.
Arguments ty_eqb : simpl never.
Arguments concat : simpl never.

Definition policy6 (pre : prelude) : Policy :=
  fun W0 G nm ps body r =>
    (r = TMulti [] /\ ~ prelude_ok pre W0) \/
    (wf_ty r = true /\
     exists G' Ts, @typed_list all_policy W0 (closure_env nm ps r ++ G) (mkK false (Some r)) body G' Ts /\
                   (matches TVoid r = true \/ In TNever Ts)).

Lemma all_policy_nogate : forall W0 G i, ~ @iter_gate all_policy W0 G i.
Proof. intros W0 G i H. apply H. exact I. Qed.

(* typing under all_policy (no iterator operators) embeds into typing under policy6: a closure
   literal carries its own body typing *)
Lemma typed_all_in_6 pre W0 :
  (forall G K i T, @typed all_policy W0 G K i T -> @typed (policy6 pre) W0 G K i T) /\
  (forall G K es Ts, @typed_all all_policy W0 G K es Ts -> @typed_all (policy6 pre) W0 G K es Ts) /\
  (forall G K fs acc out, @typed_fields all_policy W0 G K fs acc out -> @typed_fields (policy6 pre) W0 G K fs acc out) /\
  (forall G K o, @typed_opt all_policy W0 G K o -> @typed_opt (policy6 pre) W0 G K o) /\
  (forall G K i T G', @typed_line all_policy W0 G K i T G' -> @typed_line (policy6 pre) W0 G K i T G') /\
  (forall G K l G' Ts, @typed_list all_policy W0 G K l G' Ts -> @typed_list (policy6 pre) W0 G K l G' Ts) /\
  (forall G K arms Ts, @typed_arms all_policy W0 G K arms Ts -> @typed_arms (policy6 pre) W0 G K arms Ts).
Proof.
  apply (@typed_mutind all_policy); intros; try (econstructor; eauto; fail).
  - (* anon fn *)
    match goal with Hw : wf_ty (TFun _ r) = true |- _ => pose proof (proj2 (wf_fun_parts _ _ Hw)) as Wr end.
    eapply T_AnonFn; try eassumption. right. split; [exact Wr|]. eauto.
  - exfalso. eapply all_policy_nogate; eassumption.
  - exfalso. eapply all_policy_nogate; eassumption.
  - exfalso. eapply all_policy_nogate; eassumption.
  - exfalso. eapply all_policy_nogate; eassumption.
  - exfalso. eapply all_policy_nogate; eassumption.
  - exfalso. eapply all_policy_nogate; eassumption.
  - (* fn decl *)
    match goal with Hw : wf_ty (TFun _ r) = true |- _ => pose proof (proj2 (wf_fun_parts _ _ Hw)) as Wr end.
    eapply Ln_fndecl; try eassumption. right. split; [exact Wr|]. eauto.
Qed.

Theorem policy6_ok powf pre : @policy_ok (policy6 pre) powf pre.
Proof.
  split.
  - intros W0 G nm ps body r G' Ts Hok Wf Hnm _ _.
    destruct Hok as [[-> _]|[Wr [G5 [Ts5 [Hb5 Hend5]]]]].
    + exfalso. cbn [wf_ty] in Wf. apply andb_true_iff in Wf. destruct Wf as [_ Wf]. discriminate Wf.
    + pose proof (proj1 (@recreate_ok_all powf pre) W0 G nm ps body r G5 Ts5 I Wf Hnm Hb5 Hend5) as H5.
      intros W sc HE HG. destruct (H5 W sc HE HG) as [NP [HErr HOk]].
      split; [exact NP|]. split; [exact HErr|].
      intros body' Hb'. destruct (HOk body' Hb') as [G'' [Ts' [Hl Hend]]].
      exists G'', Ts'. split; [|exact Hend]. apply (typed_all_in_6 pre W). exact Hl.
  - intros W0 G i Hg. apply NNPP. intros Hn. apply Hg. left. split; [reflexivity|exact Hn].
Qed.

(* the gate of policy6, in the direction derivations need it *)
Lemma gate6_intro pre W0 G i : prelude_ok pre W0 -> @iter_gate (policy6 pre) W0 G i.
Proof.
  intros HP [[_ Hn]|[Wr _]]; [exact (Hn HP)|discriminate Wr].
Qed.

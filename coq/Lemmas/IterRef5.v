(* IterRef5.v — C11b, part 5: the filter `it ? p`.
   [Filter] calls the FILTER helper closure with the source and the predicate and re-types the
   closure that comes back at the run-time result type of the SOURCE.  FILTER returns
       () -> (bool, int) { loop { res := func(); (con, value) := res;
                                  if !con || predicate(value) { return res } }
                           return (false, 0) }
   (the last statement is dead code).  [filter_represents]: the value represents the abstract
   [filter_iter]: each pull logs the call, then pulls the source until the predicate accepts an
   element — the predicate is applied once to every element pulled, in order — or the source
   is exhausted. *)
From SSL.Model Require Import Base Ty Float Value Ops Seq Syntax Rt Recreate Exec Check Top Iter.
From SSL.Lemmas Require Import ExecLemmas OpsLemmas CellLemmas SoundLemmas SoundHelpers SoundBoot
  RecrMono IterRef1 IterRef2 IterRef3 IterRef4.
Local Open Scope Z_scope.
Arguments exec : simpl never.
Arguments matches : simpl never.

Definition filter_block (fid : nat) (t0 t1 : ty) (gid : nat) (ps : list ty) (q : ty) : instr :=
  IBlock
    [ISet n_res (IBin FunctionCall (IVar (VFun fid [] (TTup [t0; t1]))) (IVar (VTup [])));
     IDestruct [n_con; n_value] (ILocal n_res (LOther (TTup [t0; t1])));
     IIfElse
       (IBin Or (IUn UNot (ILocal n_con (LOther t0)))
          (IBin FunctionCall (IVar (VFun gid ps q)) (ITuple [ILocal n_value (LOther t1)])))
       (IUn UReturn (ILocal n_res (LOther (TTup [t0; t1])))) (IVar VVoid)].

Definition filter_body (fid : nat) (t0 t1 : ty) (gid : nat) (ps : list ty) (q : ty) : list instr :=
  [ILoop (filter_block fid t0 t1 gid ps q); IUn UReturn (IVar (VTup [VBool false; VInt 0]))].

Definition filter_store (st : store) (fid : nat) (t0 t1 : ty) (gid : nat) (ps : list ty) (q : ty) : store :=
  mkStore (s_funs st ++ [mkClosure None [] (BLang (filter_body fid t0 t1 gid ps q)) t_iter_int;
                         mkClosure None [] (BLang (filter_body fid t0 t1 gid ps q)) (TTup [t0; t1])])
          (s_cells st)
          (EvCall 2 [VFun fid [] (TTup [t0; t1]); VFun gid ps q] :: s_log st).

Section Filter.
Variable powf : fbits -> fbits -> fbits.
Notation E := (exec powf pre_boot).

Theorem filter_create k st sc fid t0 t1 gid ps q :
  nth_error (s_funs st) 2 = Some c_FILTER ->
  bin_dispatch powf pre_boot (E (2 + k)) (2 + k) Filter (VFun fid [] (TTup [t0; t1])) (VFun gid ps q) st sc =
  (filter_store st fid t0 t1 gid ps q, sc, SVal (VFun (S (length (s_funs st))) [] (TTup [t0; t1]))).
Proof.
  intros H2. cbn [bin_dispatch as_type plus].
  change (fn_return_type (TFun [] (TTup [t0; t1]))) with (Some (TTup [t0; t1])).
  change (p_filter pre_boot) with 2%nat.
  assert (C : call_def (E (S (S k))) 2 [VFun fid [] (TTup [t0; t1]); VFun gid ps q] st sc =
              (mkStore (s_funs st ++ [mkClosure None [] (BLang (filter_body fid t0 t1 gid ps q)) t_iter_int])
                       (s_cells st) (EvCall 2 [VFun fid [] (TTup [t0; t1]); VFun gid ps q] :: s_log st),
               sc, SVal (VFun (length (s_funs st)) [] t_iter_int))).
  { eapply call_return; [exact H2|reflexivity|].
    eapply evl_stop; [|intros w Hw; discriminate Hw].
    eapply ev_return. rewrite exec_S_IAnonFn.
    match goal with |- context [recreate_body ?p ?s ?l ?b] =>
      replace (recreate_body p s l b) with (Ok (filter_body fid t0 t1 gid ps q))
        by (vm_compute; reflexivity) end.
    reflexivity. }
  rewrite C. cbn [retyped_def s_funs]. rewrite nth_error_app2 by lia. rewrite Nat.sub_diag.
  cbn [nth_error]. unfold alloc_fun, filter_store. cbn [s_funs s_cells s_log c_name c_params c_body map].
  rewrite app_length. cbn [length]. rewrite <- app_assoc. cbn [app].
  replace (length (s_funs st) + 1)%nat with (S (length (s_funs st))) by lia. reflexivity.
Qed.

(* the loop of the closure against the loop of the abstract filter *)
Lemma filter_loop N (F : store -> Prop) (D : value -> Prop) fid t0 t1 gid ps q it
    (p : cb store value bool) m sc0 :
  represents powf pre_boot N F (VFun fid [] (TTup [t0; t1])) it ->
  cb_refines powf pre_boot N F D VBool (VFun gid ps q) p ->
  yields_in F it D ->
  (N <= m)%nat ->
  forall M cnt st, (M <= cnt)%nat -> F st ->
  match filter_iter M p it st with
  | Yield x st' =>
      loop_def (E (S (S (S (S (S (S m))))))) (filter_block fid t0 t1 gid ps q) cnt st sc0
      = (st', sc0, SReturn (VTup [VBool true; x])) /\ F st' /\ funs_ext st st'
  | Done st' =>
      (exists d, loop_def (E (S (S (S (S (S (S m))))))) (filter_block fid t0 t1 gid ps q) cnt st sc0
                 = (st', sc0, SReturn (VTup [VBool false; d]))) /\ F st' /\ funs_ext st st'
  | NoFuel => True
  end.
Proof.
  intros [_ R] [_ Rp] Hin Hm. induction M as [|M IH]; intros cnt st Hcnt HF; [exact I|].
  destruct cnt as [|cnt]; [lia|]. cbn [filter_iter loop_def]. unfold filter_block.
  set (sc1 := [] :: sc0).
  pose proof (R (S (S (S m))) sc1 st ltac:(lia) HF) as Rs. cbn [call_v_def] in Rs.
  pose proof (Hin st) as Hin0.
  destruct (it st) as [x st1|st1|]; [| |exact I].
  - destruct Rs as [Rs [HF1 HE1]].
    set (sc2 := scopes_insert n_res (VTup [VBool true; x]) sc1).
    set (sc3 := destruct_bind_def [n_con; n_value] [VBool true; x] sc2).
    destruct (Rp (S (S m)) sc3 st1 x ltac:(lia) HF1 (Hin0 x st1 HF eq_refl)) as [Rf [HF2 HE2]]. cbn [call_v_def] in Rf.
    destruct (p x st1) as [b st2]. cbn [fst snd] in *.
    assert (HE02 : funs_ext st st2) by (apply (funs_ext_trans st st1 st2); assumption).
    (* the first two statements and the test *)
    assert (A1 : E (S (S (S (S (S m))))) st sc1
                   (ISet n_res (IBin FunctionCall (IVar (VFun fid [] (TTup [t0; t1]))) (IVar (VTup []))))
                 = (st1, sc2, SVal (VTup [VBool true; x]))).
    { eapply ev_set. eapply ev_call; [apply ev_var|apply ev_var|exact Rs]. }
    assert (A2 : E (S (S (S (S (S m))))) st1 sc2
                   (IDestruct [n_con; n_value] (ILocal n_res (LOther (TTup [t0; t1]))))
                 = (st1, sc3, SVal (VTup [VBool true; x]))).
    { eapply ev_destruct. apply ev_local. reflexivity. }
    assert (A3 : E (S (S (S (S m)))) st1 sc3
                   (IBin Or (IUn UNot (ILocal n_con (LOther t0)))
                      (IBin FunctionCall (IVar (VFun gid ps q)) (ITuple [ILocal n_value (LOther t1)])))
                 = (st2, sc3, SVal (VBool b))).
    { eapply ev_or_false; [eapply ev_not_eq; [apply ev_local; reflexivity|reflexivity]|].
      eapply ev_call; [apply ev_var| |exact Rf].
      eapply ev_tuple. eapply evl_val_ok; [apply ev_local; reflexivity|apply evl_nil]. }
    destruct b.
    + (* accepted: return res *)
      split; [|split; [exact HF2|exact HE02]].
      match goal with |- context [E ?a st sc0 (IBlock ?body)] =>
        assert (B : E a st sc0 (IBlock body) = (st2, sc0, SReturn (VTup [VBool true; x]))) end.
      { eapply ev_block_stop.
        eapply evl_val_stop; [exact A1|]. eapply evl_val_stop; [exact A2|].
        eapply evl_stop; [|intros w Hw; discriminate Hw].
        eapply ev_if; [exact A3|]. eapply ev_return. apply ev_local. reflexivity. }
      rewrite B. reflexivity.
    + (* rejected: the block ends, the loop goes on *)
      match goal with |- context [E ?a st sc0 (IBlock ?body)] =>
        assert (B : exists w, E a st sc0 (IBlock body) = (st2, sc0, SVal w)) end.
      { eexists. eapply ev_block_val.
        eapply evl_val_ok; [exact A1|]. eapply evl_val_ok; [exact A2|].
        eapply evl_val_ok; [|apply evl_nil]. eapply ev_if; [exact A3|]. apply ev_var. }
      destruct B as [w B]. rewrite B.
      pose proof (IH cnt st2 ltac:(lia) HF2) as IH2.
      destruct (filter_iter M p it st2) as [x2 st3|st3|]; [| |exact I].
      * destruct IH2 as [A [B2 C]]. split; [exact A|]. split; [exact B2|].
        apply (funs_ext_trans st st2 st3); assumption.
      * destruct IH2 as [A [B2 C]]. split; [exact A|]. split; [exact B2|].
        apply (funs_ext_trans st st2 st3); assumption.
  - destruct Rs as [[d Rs] [HF1 HE1]]. split; [|split; [exact HF1|exact HE1]]. exists d.
    match goal with |- context [E ?a st sc0 (IBlock ?body)] =>
      assert (B : E a st sc0 (IBlock body) = (st1, sc0, SReturn (VTup [VBool false; d]))) end;
      [|rewrite B; reflexivity].
    eapply ev_block_stop.
    eapply evl_val_stop.
    { eapply ev_set. eapply ev_call; [apply ev_var|apply ev_var|exact Rs]. }
    eapply evl_val_stop.
    { eapply ev_destruct. apply ev_local. reflexivity. }
    eapply evl_stop; [|intros w Hw; discriminate Hw].
    eapply ev_if.
    + eapply ev_or_true. eapply ev_not_eq; [apply ev_local; reflexivity|reflexivity].
    + eapply ev_return. apply ev_local. reflexivity.
Qed.

(* for every fuel M of the abstract filter loop *)
Theorem filter_represents N (F : store -> Prop) (D : value -> Prop) id fid t0 t1 gid ps q it
    (p : cb store value bool) M :
  represents powf pre_boot N F (VFun fid [] (TTup [t0; t1])) it ->
  cb_refines powf pre_boot N F D VBool (VFun gid ps q) p ->
  yields_in F it D ->
  (forall st, F st ->
     nth_error (s_funs st) id = Some (mkClosure None [] (BLang (filter_body fid t0 t1 gid ps q)) (TTup [t0; t1]))) ->
  (forall st, F st -> F (log_event st (EvCall id []))) ->
  represents powf pre_boot (7 + N + M) F (VFun id [] (TTup [t0; t1]))
    (logged (EvCall id []) (filter_iter M p it)).
Proof.
  intros R Rp Hin Hc Hlog. split; [eexists; eexists; eexists; reflexivity|].
  intros n sc st Hn HF. unfold logged.
  set (st0 := log_event st (EvCall id [])).
  assert (HF0 : F st0) by (apply Hlog; exact HF).
  destruct n as [|[|[|[|[|[|[|m]]]]]]]; try lia. cbn [call_v_def].
  set (c := mkClosure None [] (BLang (filter_body fid t0 t1 gid ps q)) (TTup [t0; t1])).
  pose proof (filter_loop N F D fid t0 t1 gid ps q it p m [frame_def id c []] R Rp Hin ltac:(lia)
                M (S (S (S (S (S (S m)))))) st0 ltac:(lia) HF0) as L.
  destruct (filter_iter M p it st0) as [x st1|st1|]; [| |exact I].
  - destruct L as [L [HF1 HE1]].
    split; [|split; [exact HF1|apply (funs_ext_trans st st0 st1); [apply funs_ext_same; reflexivity|exact HE1]]].
    eapply call_return; [apply Hc; exact HF|reflexivity|]. fold st0 c.
    eapply evl_stop; [|intros w Hw; discriminate Hw].
    rewrite exec_S_ILoop. exact L.
  - destruct L as [[d L] [HF1 HE1]].
    split; [|split; [exact HF1|apply (funs_ext_trans st st0 st1); [apply funs_ext_same; reflexivity|exact HE1]]].
    exists d.
    eapply call_return; [apply Hc; exact HF|reflexivity|]. fold st0 c.
    eapply evl_stop; [|intros w Hw; discriminate Hw].
    rewrite exec_S_ILoop. exact L.
Qed.

(* the filtered elements are elements of the source *)
Lemma filter_yields_in (F : store -> Prop) (D : value -> Prop) e it (p : cb store value bool) M :
  yields_in F it D -> (forall st, F st -> F (log_event st e)) ->
  (forall st x st', F st -> it st = Yield x st' -> F (snd (p x st'))) ->
  yields_in F (logged e (filter_iter M p it)) D.
Proof.
  intros Hin Hlog Hkeep st y st' HF H. unfold logged in H.
  assert (G : forall M s, F s -> filter_iter M p it s = Yield y st' -> D y).
  { clear - Hin Hkeep. induction M as [|M IH]; intros s HFs Hs; [discriminate Hs|].
    cbn [filter_iter] in Hs. pose proof (Hin s) as Hin0. pose proof (Hkeep s) as Hk0.
    destruct (it s) as [x s1|s1|]; try discriminate Hs.
    specialize (Hk0 x s1 HFs eq_refl). destruct (p x s1) as [b s2]. cbn [snd] in Hk0. destruct b.
    - injection Hs as <- _. apply (Hin0 x s1 HFs eq_refl).
    - apply (IH s2 Hk0 Hs). }
  apply (G M (log_event st e) (Hlog st HF) H).
Qed.

End Filter.

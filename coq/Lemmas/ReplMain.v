(* ReplMain.v — REPL = batch (C17, first clause), for sessions of one-statement inputs.

   The batch route parses the whole text against the start interpreter (creating scopes sc0),
   threading its LocalVariables e_b from statement to statement; the REPL route parses every
   statement against the CURRENT interpreter (creating scopes = the current scopes sc, fresh
   LocalVariables [e_new]).  One step ([repl_step_eq]): from the SAME interpreter state, the
   statement as the batch route built it (ib', folded against (sc0, e_b)) and as the REPL route
   built it (ir', folded against (sc, e_new)) run to literally the same result — both equal
   the run of the un-folded batch instruction ib:

       exec ib'  =  exec ib                       preservation (RecrClos), pass against (sc0, e_b)
       exec ir'  =  exec ib                       preservation, pass against (sc, e_new),
                                                  because  recreate sc e_new ib = recreate sc e_new ir
                                                  (the two checker runs, ReplCR3.CR_top_line)

   Hence the two routes stay in literally the same interpreter state: same store (cells,
   closures — the REPL route folds more at parse time, but a closure body is folded again when
   the closure is created, against the same scopes —, effect log) and same scopes
   ([repl_run_eq_batch_prefixes]: [Repl.repl_run] = [Repl.batch_prefixes]).

   Hypotheses, per step ([sess_ok]):
     - both routes accept the statement (the property allows them to differ there);
     - the statement is in the fragment of ReplFrag.v;
     - [dok] of the two recreated instructions (decidable; follows from typing);
     - EXACTNESS ([exact e_b sc]): every name the batch route knows by its declared type is
       bound to a value of EXACTLY that type.  This is where "the incremental route sees actual
       values where the batch route sees declared types" bites: without it the two routes can
       complete with different results (ReplFinding.v);
     - the un-folded batch instruction finishes with a value (no panic: C01b for typed
       programs). *)
From SSL.Model Require Import Base Ty Float Value Ops Seq Syntax Rt Recreate Exec Check Top Repl.
From SSL.Lemmas Require Import ExecLemmas CheckUnfold RecrUnfold RecrMono RecrDefs RecrSim1 RecrSim2 RecrMain
  RecrClos RecrEmbed ReplFrag CheckWfi ReplCR1 ReplCR2 ReplCR3.

Arguments matches : simpl never.

Section Repl.
Variable powf : fbits -> fbits -> fbits.
Variable pre : prelude.
Variable red : reducers.
Variable sc0 : scopes.          (* the start interpreter's scopes: creating scopes of the batch parse *)
Notation E := (exec powf pre).

(* every name the batch environment knows by type only is bound to a value of exactly that type *)
Definition exact (e_b : lenv) (sc : scopes) : Prop :=
  forall n lv, lenv_get n e_b = Some lv -> (forall v, lv <> LVariable v) ->
    exists v, scopes_get n sc = Some v /\ as_type v = lvar_type lv.

Lemma cons3_top e_b sc :
  agree (emb sc0 e_b) sc -> exact e_b sc ->
  cons3 sc sc0 sc (lenv_push e_b) (lenv_push e_new) e_new.
Proof.
  intros Ha Hx n iA iB RA RB. apply agree_emb in Ha. destruct Ha as [Ha1 Ha2].
  unfold res1 in RA, RB. cbn [lenv_push lenv_get l_vars assoc e_new] in RA, RB.
  destruct (scopes_get n sc) as [v|] eqn:Es; [|discriminate RB]. injection RB as <-.
  assert (LR : forall lv, lres sc e_new (ILocal n lv) = Ok (IVar v)).
  { intros lv. cbn [lres]. unfold resolve_name. cbn [e_new lenv_get l_vars assoc]. rewrite Es. reflexivity. }
  destruct (lenv_get n e_b) as [lv|] eqn:El.
  - injection RA as <-. destruct lv as [ps r|w|t]; cbn [leaf_of].
    + destruct (Hx n _ El ltac:(intros ? C; discriminate C)) as [v' [Ev Et]]. rewrite Es in Ev. injection Ev as <-.
      split; [cbn [rt]; rewrite Et; reflexivity|apply LR].
    + rewrite (Ha1 n w El) in Es. injection Es as ->. split; reflexivity.
    + destruct (Hx n _ El ltac:(intros ? C; discriminate C)) as [v' [Ev Et]]. rewrite Es in Ev. injection Ev as <-.
      split; [cbn [rt]; rewrite Et; reflexivity|apply LR].
  - destruct (scopes_get n sc0) as [w|] eqn:E0; [|discriminate RA]. injection RA as <-.
    rewrite (Ha2 n w El E0) in Es. injection Es as ->. split; reflexivity.
Qed.

Lemma e_new_get n : lenv_get n e_new = None.
Proof. reflexivity. Qed.

(* ONE STEP *)
Theorem repl_step_eq pf e_b sc ln ib eA1 ib' e_b' ir eB1 ir' er' :
  rfl ln = true -> e_b <> [] ->
  check_lines red pf sc0 (lenv_push e_b) [ln] = Ok ([ib], eA1) -> recreate powf pf sc0 e_b ib = Ok (ib', e_b') ->
  check_lines red pf sc (lenv_push e_new) [ln] = Ok ([ir], eB1) -> recreate powf pf sc e_new ir = Ok (ir', er') ->
  dok ib' = true -> dok ir' = true ->
  agree (emb sc0 e_b) sc -> exact e_b sc ->
  (forall n st, okr (E n st sc ib) -> E n st sc ib' = E n st sc ib /\ E n st sc ir' = E n st sc ib) /\
  (forall n st st1 sc1 v, E n st sc ib = (st1, sc1, SVal v) -> agree (emb sc0 e_b') sc1) /\
  e_b' <> [].
Proof.
  intros F Ne CA RA CB RB DA DB Ha Hx.
  pose proof (CR_top_line powf red sc sc0 sc pf _ _ ln ib ir eA1 eB1 e_new (cons3_top e_b sc Ha Hx) F CA CB) as [_ Rq].
  assert (R3 : recreate powf pf sc e_new ib = Ok (ir', er')) by (rewrite (Rq pf); exact RB).
  assert (Wb : wfi true true ib = true).
  { pose proof (cl_wfi red pf _ _ [ln] _ _ ltac:(cbn [forallb]; rewrite F; reflexivity) CA) as W.
    cbn [forallb] in W. apply andb_true_iff in W. apply W. }
  destruct (recreate_emb powf sc0 pf e_b ib ib' e_b' Ne RA) as [EA NeA].
  destruct (recreate_emb powf sc pf e_new ib ir' er' ltac:(discriminate) R3) as [EB _].
  destruct (sim_line1 powf pre pf _ _ _ _ EA Wb DA sc Ha) as [SA PA].
  destruct (sim_line1 powf pre pf _ _ _ _ EB Wb DB sc (agree_emb_self sc e_new e_new_get)) as [SB _].
  split; [intros n st Hok; split; [apply SA|apply SB]; exact Hok|]. split; [exact PA|exact NeA].
Qed.

(* A SESSION of one-statement inputs: the data of both routes, step by step *)
Inductive sess_ok (pf n : nat) : lenv -> store -> scopes -> list sline -> Prop :=
| SO_nil e_b st sc : sess_ok pf n e_b st sc []
| SO_cons e_b st sc ln rest ib eA1 ib' e_b' ir eB1 ir' er' st1 sc1 v :
    rfl ln = true ->
    check_lines red pf sc0 (lenv_push e_b) [ln] = Ok ([ib], eA1) ->
    recreate powf pf sc0 e_b ib = Ok (ib', e_b') ->
    check_lines red pf sc (lenv_push e_new) [ln] = Ok ([ir], eB1) ->
    recreate powf pf sc e_new ir = Ok (ir', er') ->
    dok ib' = true -> dok ir' = true -> exact e_b sc ->
    E n st sc ib = (st1, sc1, SVal v) ->
    sess_ok pf n e_b' st1 sc1 rest ->
    sess_ok pf n e_b st sc (ln :: rest).

(* the states the batch instructions go through *)
Fixpoint code_trace (n : nat) (st : store) (sc : scopes) (is : list instr) : list (outcome_of_input * istate) :=
  match is with
  | [] => []
  | i :: is =>
      match E n st sc i with
      | (st1, sc1, SVal v) => (InRan (SVal v), mkI st1 sc1) :: code_trace n st1 sc1 is
      | (st1, sc1, s) => [(InRan s, mkI st1 sc1)]
      end
  end.

Lemma parse_top_one pf sc e ln is e1 i i' e' :
  check_lines red pf sc (lenv_push e) [ln] = Ok (is, e1) -> is = [i] ->
  recreate powf pf sc e i = Ok (i', e') ->
  forall rest, parse_top powf red pf sc e (ln :: rest) =
               obind (parse_top powf red pf sc e' rest) (fun '(is', e2) => Ok (i' :: is', e2)).
Proof. intros H -> R rest. cbn [parse_top]. rewrite H. cbn [obind]. rewrite R. reflexivity. Qed.

Theorem session_trace pf n : forall lines e_b st sc,
  sess_ok pf n e_b st sc lines -> agree (emb sc0 e_b) sc -> e_b <> [] ->
  exists isb e_b',
    parse_top powf red pf sc0 e_b lines = Ok (isb, e_b') /\
    repl_run powf pre red pf n (mkI st sc) (map (fun ln => [ln]) lines) = code_trace n st sc isb /\
    length (code_trace n st sc isb) = length lines /\
    Forall (fun p => exists v, fst p = InRan (SVal v)) (code_trace n st sc isb).
Proof.
  induction 1 as [e_b st sc|e_b st sc ln rest ib eA1 ib' e_b' ir eB1 ir' er' st1 sc1 v F CA RA CB RB DA DB Hx Hex _ IH];
    intros Ha Ne.
  - exists [], e_b. split; [reflexivity|]. split; [reflexivity|]. split; [reflexivity|constructor].
  - destruct (repl_step_eq pf e_b sc ln ib eA1 ib' e_b' ir eB1 ir' er' F Ne CA RA CB RB DA DB Ha Hx) as [S [P NeA]].
    destruct (S n st ltac:(rewrite Hex; apply okr_val)) as [SA SB].
    destruct (IH (P n st st1 sc1 v Hex) NeA) as [isb [e_b'' [PT [RR [Len All]]]]].
    exists (ib' :: isb), e_b''. split; [|split; [|split]].
    + rewrite (parse_top_one pf sc0 e_b ln [ib] eA1 ib ib' e_b' CA eq_refl RA rest), PT. reflexivity.
    + cbn [map repl_run]. unfold repl_step, parse_in. cbn [i_scopes i_store].
      rewrite (parse_top_one pf sc e_new ln [ir] eB1 ir ir' er' CB eq_refl RB []). cbn [parse_top obind run_code].
      rewrite SB, Hex. cbn [code_trace]. rewrite SA, Hex. rewrite RR. reflexivity.
    + cbn [code_trace]. rewrite SA, Hex. cbn [length]. rewrite Len. reflexivity.
    + cbn [code_trace]. rewrite SA, Hex. constructor; [exists v; reflexivity|exact All].
Qed.

(* ---- the batch route on every prefix ---- *)
Lemma parse_top_app pf sc : forall l1 e l2,
  parse_top powf red pf sc e (l1 ++ l2) =
  obind (parse_top powf red pf sc e l1) (fun '(is1, e1) =>
  obind (parse_top powf red pf sc e1 l2) (fun '(is2, e2) => Ok (is1 ++ is2, e2))).
Proof.
  induction l1 as [|ln l1 IH]; intros e l2.
  - cbn [app parse_top obind]. destruct (parse_top powf red pf sc e l2) as [[is2 e2]| | |]; reflexivity.
  - cbn [app parse_top]. destruct (check_lines red pf sc (lenv_push e) [ln]) as [[is e1]| | |]; try reflexivity.
    cbn [obind]. destruct is as [|i [|j is]]; try reflexivity.
    destruct (recreate powf pf sc e i) as [[i' e']| | |]; try reflexivity. cbn [obind]. rewrite IH.
    destruct (parse_top powf red pf sc e' l1) as [[is1 e1']| | |]; try reflexivity. cbn [obind].
    destruct (parse_top powf red pf sc e1' l2) as [[is2 e2]| | |]; reflexivity.
Qed.

(* running a prefix of the instructions: the corresponding entry of the trace *)
Lemma run_code_trace n : forall is st sc last,
  Forall (fun p => exists v, fst p = InRan (SVal v)) (code_trace n st sc is) ->
  length (code_trace n st sc is) = length is ->
  forall k, (k < length is)%nat ->
    match run_code powf pre n st sc (firstn (S k) is) last with
    | (st', sc', s) => nth_error (code_trace n st sc is) k = Some (InRan s, mkI st' sc')
    end.
Proof.
  induction is as [|i is IH]; intros st sc last All Len k Hk; [cbn [length] in Hk; lia|].
  cbn [code_trace] in All, Len |- *. cbn [firstn run_code].
  destruct (E n st sc i) as [[st1 sc1] s1] eqn:Ei.
  destruct s1 as [v| | | | | |];
    try (exfalso; inversion All as [|? ? [w Hw] _]; subst; cbn [fst] in Hw; discriminate Hw).
  inversion All as [|? ? _ All']; subst. cbn [length] in Len.
  destruct k as [|k].
  - cbn [firstn run_code nth_error]. reflexivity.
  - cbn [nth_error]. cbn [length] in Hk. apply (IH st1 sc1 v All' ltac:(lia) k ltac:(lia)).
Qed.


Lemma parse_top_firstn pf sc : forall l e is e',
  parse_top powf red pf sc e l = Ok (is, e') ->
  length is = length l /\
  forall k, exists ek, parse_top powf red pf sc e (firstn k l) = Ok (firstn k is, ek).
Proof.
  induction l as [|ln l IH]; intros e is e' H.
  - injection H as <- <-. split; [reflexivity|]. intros k. exists e. destruct k; reflexivity.
  - cbn [parse_top] in H. inv_bind H p Hp. destruct p as [cs e1].
    destruct cs as [|i [|j cs]]; try discriminate H.
    inv_bind H q Hq. destruct q as [i' e2]. inv_bind H r Hr. destruct r as [is' e3]. injection H as <- <-.
    destruct (IH _ _ _ Hr) as [Len Pre]. split; [cbn [length]; rewrite Len; reflexivity|].
    intros [|k]; [exists e; reflexivity|]. destruct (Pre k) as [ek Hk]. exists ek.
    cbn [firstn parse_top]. rewrite Hp. cbn [obind]. rewrite Hq. cbn [obind]. rewrite Hk. reflexivity.
Qed.

Lemma prefixes_singletons {A} (l : list A) :
  prefixes (map (fun x => [x]) l) = map (fun k => firstn (S k) l) (seq 0 (length l)).
Proof.
  induction l as [|x l IH]; [reflexivity|]. cbn [map prefixes length seq]. rewrite IH.
  cbn [firstn]. f_equal. rewrite <- seq_shift, !map_map. reflexivity.
Qed.

Lemma nth_error_eq_lists {A} (l1 l2 : list A) :
  length l1 = length l2 -> (forall k, (k < length l1)%nat -> nth_error l1 k = nth_error l2 k) -> l1 = l2.
Proof.
  revert l2. induction l1 as [|a l1 IH]; intros [|b l2] Len H; try discriminate Len; [reflexivity|].
  pose proof (H 0%nat ltac:(cbn [length]; lia)) as H0. cbn [nth_error] in H0. injection H0 as <-.
  f_equal. apply IH; [cbn [length] in Len; lia|]. intros k Hk. apply (H (S k)). cbn [length]. lia.
Qed.

(* REPL = batch, literally: the interpreter after every input is the interpreter the batch
   route reaches on the corresponding prefix, and the result printed is the same *)
Theorem repl_run_eq_batch_prefixes pf n st0 lines :
  sess_ok pf n e_new st0 sc0 lines ->
  repl_run powf pre red pf n (mkI st0 sc0) (map (fun ln => [ln]) lines) =
  batch_prefixes powf pre red pf n (mkI st0 sc0) (map (fun ln => [ln]) lines).
Proof.
  intros H.
  destruct (session_trace pf n lines e_new st0 sc0 H (agree_emb_self sc0 e_new e_new_get) ltac:(discriminate))
    as [isb [e' [PT [RR [Len All]]]]].
  destruct (parse_top_firstn pf sc0 _ _ _ _ PT) as [LenI Pre].
  rewrite RR. unfold batch_prefixes. rewrite prefixes_singletons.
  apply nth_error_eq_lists; [rewrite map_length, map_length, seq_length; exact Len|].
  intros k Hk. rewrite Len in Hk.
  rewrite nth_error_map, nth_error_map. rewrite (nth_error_nth' (seq 0 (length lines)) 0%nat)
    by (rewrite seq_length; exact Hk). rewrite seq_nth by exact Hk. cbn [option_map plus].
  unfold batch_run, repl_step, parse_in. cbn [i_scopes i_store].
  destruct (Pre (S k)) as [ek Hk']. rewrite Hk'.
  pose proof (run_code_trace n isb st0 sc0 VVoid All ltac:(rewrite Len, LenI; reflexivity) k ltac:(rewrite LenI; exact Hk)) as RT.
  destruct (run_code powf pre n st0 sc0 (firstn (S k) isb) VVoid) as [[st' sc'] s]. exact RT.
Qed.

(* what L9 observes: the printed result and the values of the top-level names *)
Corollary repl_observations_eq_batch pf n st0 lines names :
  sess_ok pf n e_new st0 sc0 lines ->
  map (fun p => (fst p, observe names (snd p)))
      (repl_run powf pre red pf n (mkI st0 sc0) (map (fun ln => [ln]) lines)) =
  map (fun p => (fst p, observe names (snd p)))
      (batch_prefixes powf pre red pf n (mkI st0 sc0) (map (fun ln => [ln]) lines)).
Proof. intros H. rewrite (repl_run_eq_batch_prefixes pf n st0 lines H). reflexivity. Qed.

End Repl.

(* RecrKeeps.v — an instruction in expression position (no `:=`, destructuring or function
   declaration outside the lines of a block; no UFunctionCall) leaves the scopes as it
   found them, for every fuel, store and outcome. *)
From SSL.Model Require Import Base Ty Float Value Ops Seq Syntax Rt Recreate Exec.
From SSL.Lemmas Require Import ExecLemmas RecrMono RecrDefs.

Arguments matches : simpl never.

Section Keeps.
Variable powf : fbits -> fbits -> fbits.
Variable pre : prelude.
Notation E := (exec powf pre).

Lemma forallb_Forall {A} (f : A -> bool) (P : A -> Prop) l :
  (forall x, f x = true -> P x) -> forallb f l = true -> Forall P l.
Proof.
  intros H. induction l as [|x l IH]; intros Hf; [constructor|].
  cbn [forallb] in Hf. apply andb_true_iff in Hf. destruct Hf as [Hx Hl].
  constructor; [apply H; exact Hx|apply IH; exact Hl].
Qed.

Lemma wfi_keeps cl : forall n i, wfi cl false i = true -> keeps (E n) i.
Proof.
  induction n as [|n IH]; intros i Hi st sc; [reflexivity|].
  assert (IHl : forall l, forallb (wfi cl false) l = true -> Forall (keeps (E n)) l).
  { intros l. apply forallb_Forall. apply IH. }
  destruct i; cbn [wfi] in Hi; repeat rewrite andb_true_iff in Hi.
  - (* IAnonFn *) rewrite exec_S_IAnonFn. apply sig_of_outcome_scs. intros body'.
    destruct (alloc_fun st _). reflexivity.
  - (* IArray *) rewrite exec_S_IArray. apply with_list_keeps; [apply IHl; exact Hi|reflexivity].
  - (* IArrayRepeat *) destruct Hi as [Ha Hb]. rewrite exec_S_IArrayRepeat.
    apply with_val_keeps; [apply IH; exact Ha|]. intros st1 x.
    apply with_val_keeps; [apply IH; exact Hb|]. intros st2 k.
    destruct k; try reflexivity. destruct (z <? 0)%Z; reflexivity.
  - (* IBlock *) apply block_restores_scopes.
  - reflexivity.
  - reflexivity.
  - (* IDestruct *) destruct Hi as [C _]. discriminate C.
  - (* IFieldAccess *) rewrite exec_S_IFieldAccess. apply with_val_keeps; [apply IH; exact Hi|].
    intros st1 v. destruct v; try reflexivity. destruct (assoc f fs); reflexivity.
  - (* IFnDecl *) destruct Hi as [[C _] _]. discriminate C.
  - (* IIfElse *) destruct Hi as [[Hc Ht] Hf]. rewrite exec_S_IIfElse.
    apply with_val_keeps; [apply IH; exact Hc|]. intros st1 v.
    destruct v as [b| | | | | | | | |]; try reflexivity. destruct b; apply IH; assumption.
  - (* ILocal *) rewrite exec_S_ILocal. destruct (scopes_get n0 sc); reflexivity.
  - (* ILoop *) rewrite exec_S_ILoop. apply loop_keeps. apply IH. exact Hi.
  - (* IMatch *) destruct Hi as [Hx Ha]. rewrite exec_S_IMatch.
    apply with_val_keeps; [apply IH; exact Hx|]. intros st1 v.
    apply match_arms_keeps. revert Ha. apply forallb_Forall. intros a Ha.
    destruct a as [nm t b|cs b|b]; cbn [arm_keeps].
    + apply IH. exact Ha.
    + apply andb_true_iff in Ha. destruct Ha as [Hcs Hb]. split; [apply IHl; exact Hcs|apply IH; exact Hb].
    + apply IH. exact Ha.
  - (* IMut *) rewrite exec_S_IMut. apply with_val_keeps; [apply IH; exact Hi|].
    intros st1 v. destruct (alloc_cell st1 v). reflexivity.
  - (* IReduce *) destruct Hi as [[Ha Hb] Hc]. rewrite exec_S_IReduce.
    apply with_val_keeps; [apply IH; exact Ha|]. intros st1 itv.
    apply with_val_keeps; [apply IH; exact Hb|]. intros st2 initv.
    apply with_val_keeps; [apply IH; exact Hc|]. intros st3 fv.
    destruct itv; try reflexivity. destruct fv; try reflexivity. apply reduce_def_scs.
  - (* ISet *) destruct Hi as [C _]. discriminate C.
  - (* ISetIfElse *) destruct Hi as [[Hx Ha] Hb]. rewrite exec_S_ISetIfElse.
    apply with_val_keeps; [apply IH; exact Hx|]. intros st1 v.
    destruct (matches (as_type v) t); [|apply IH; exact Hb].
    destruct (E n st1 ([(n0, v)] :: sc) i2) as [[st2 sc2] s2]. reflexivity.
  - (* ISlicing *) destruct Hi as [[[Hl Ha] Hb] Hc]. rewrite exec_S_ISlicing.
    assert (KO : forall o, match o with Some x => wfi cl false x | None => true end = true ->
                           opt_keeps (E n) o).
    { intros [x|] H; [apply IH; exact H|exact I]. }
    apply with_val_keeps; [apply IH; exact Hl|]. intros st1 lv.
    apply opt_keeps_scs; [apply KO; exact Ha|]. intros st2 av.
    apply opt_keeps_scs; [apply KO; exact Hb|]. intros st3 bv.
    apply opt_keeps_scs; [apply KO; exact Hc|]. intros st4 cv.
    apply sig_of_outcome_scs. reflexivity.
  - (* IStruct *) rewrite exec_S_IStruct. apply struct_keeps. revert Hi. apply forallb_Forall.
    intros kv H. apply IH. exact H.
  - (* ITuple *) rewrite exec_S_ITuple. apply with_list_keeps; [apply IHl; exact Hi|reflexivity].
  - (* ITupleAccess *) rewrite exec_S_ITupleAccess. apply with_val_keeps; [apply IH; exact Hi|].
    intros st1 v. destruct v; try reflexivity. destruct (nth_error vs k); reflexivity.
  - (* ITypeFilter *) rewrite exec_S_ITypeFilter. apply with_val_keeps; [apply IH; exact Hi|].
    intros st1 v. destruct (alloc_default t st1) as [[d st2]|]; [|reflexivity]. destruct (alloc_fun st2 _). reflexivity.
  - reflexivity.
  - (* IBin *) destruct Hi as [Ha Hb].
    destruct (binop_eq_dec op And) as [->|NA].
    { rewrite exec_S_And. apply with_val_keeps; [apply IH; exact Ha|]. intros st1 v.
      destruct v as [b| | | | | | | | |]; try reflexivity. destruct b; [apply IH; exact Hb|reflexivity]. }
    destruct (binop_eq_dec op Or) as [->|NO].
    { rewrite exec_S_Or. apply with_val_keeps; [apply IH; exact Ha|]. intros st1 v.
      destruct v as [b| | | | | | | | |]; try reflexivity. destruct b; [reflexivity|apply IH; exact Hb]. }
    rewrite exec_S_IBin by assumption.
    apply with_val_keeps; [apply IH; exact Ha|]. intros st1 lv.
    apply with_val_keeps; [apply IH; exact Hb|]. intros st2 rv. apply bin_dispatch_scs.
  - (* IUn *) destruct Hi as [Ho Hx]. rewrite exec_S_IUn.
    apply with_val_keeps; [apply IH; exact Hx|]. intros st1 v. apply un_dispatch_scs. exact Ho.
Qed.

End Keeps.

(* SoundHelpers.v — the helper closures the implementation keeps in lazy statics (MAP, FILTER,
   ITER of the iterator operators and the prelude of stdlib/operators.rs), as surface ASTs:
   a transliteration of build/helpers.sx (translators/helpers2coq.py keeps that file tied to
   the Rust sources token by token), and the boot of ocaml/lane_prog.ml: every helper goes
   through Code::parse (Check + Recreate) and Code::exec, in the order of the driver. *)
From SSL.Model Require Import Base Ty Float Value Ops Seq Syntax Rt Recreate Exec Check Top.
Local Open Scope Z_scope.

Definition H_MAP : list sline :=
 [(LStm (SExpr (XFunction [([102; 117; 110; 99]%Z, (TFun [] (TTup [TBool; TInt]))); ([109; 97; 112; 112; 101; 114]%Z, (TFun [TInt] TInt))] (Some (TFun [] (TTup [TBool; TInt]))) [(LStm (SRet (Some (SExpr (XFunction [] (Some (TTup [TBool; TInt])) [(LSet [114; 101; 115]%Z (SExpr (XCall (XIdent [102; 117; 110; 99]%Z) [])));
 (LDestruct [[99; 111; 110]%Z; [118; 97; 108; 117; 101]%Z] (SExpr (XIdent [114; 101; 115]%Z)));
 (LStm (SIfElse (XPrefix PNot (XIdent [99; 111; 110]%Z)) (SRet (Some (SExpr (XIdent [114; 101; 115]%Z)))) None));
 (LStm (SRet (Some (SExpr (XTuple [(XConst (VBool true)); (XCall (XIdent [109; 97; 112; 112; 101; 114]%Z) [(XIdent [118; 97; 108; 117; 101]%Z)])])))))])))))])))].

Definition H_FILTER : list sline :=
 [(LStm (SExpr (XFunction [([102; 117; 110; 99]%Z, (TFun [] (TTup [TBool; TInt]))); ([112; 114; 101; 100; 105; 99; 97; 116; 101]%Z, (TFun [TInt] TBool))] (Some (TFun [] (TTup [TBool; TInt]))) [(LStm (SRet (Some (SExpr (XFunction [] (Some (TTup [TBool; TInt])) [(LStm (SLoop (SBlock [(LSet [114; 101; 115]%Z (SExpr (XCall (XIdent [102; 117; 110; 99]%Z) []))); (LDestruct [[99; 111; 110]%Z; [118; 97; 108; 117; 101]%Z] (SExpr (XIdent [114; 101; 115]%Z))); (LStm (SIfElse (XInfix Or (XPrefix PNot (XIdent [99; 111; 110]%Z)) (XCall (XIdent [112; 114; 101; 100; 105; 99; 97; 116; 101]%Z) [(XIdent [118; 97; 108; 117; 101]%Z)])) (SRet (Some (SExpr (XIdent [114; 101; 115]%Z)))) None))])));
 (LStm (SRet (Some (SExpr (XTuple [(XConst (VBool false)); (XConst (VInt (0)%Z))])))))])))))])))].

Definition H_ITER : list sline :=
 [(LStm (SExpr (XFunction [([97; 114; 114; 97; 121]%Z, (TArr TInt)); ([100; 101; 102; 97; 117; 108; 116]%Z, TInt)] (Some (TFun [] (TTup [TBool; TInt]))) [(LSet [105]%Z (SExpr (XMut None (XPrefix PNeg (XConst (VInt (1)%Z))))));
 (LSet [108; 101; 110]%Z (SExpr (XCall (XFieldAccess (XIdent [115; 116; 100]%Z) [108; 101; 110]%Z) [(XIdent [97; 114; 114; 97; 121]%Z)])));
 (LStm (SRet (Some (SExpr (XFunction [] (Some (TTup [TBool; TInt])) [(LStm (SExpr (XInfix AssignAdd (XIdent [105]%Z) (XConst (VInt (1)%Z)))));
 (LStm (SIfElse (XInfix Lower (XPrefix PDeref (XIdent [105]%Z)) (XIdent [108; 101; 110]%Z)) (SBlock [(LStm (SRet (Some (SExpr (XTuple [(XConst (VBool true)); (XAt (XIdent [97; 114; 114; 97; 121]%Z) (XPrefix PDeref (XIdent [105]%Z)))])))))]) None));
 (LStm (SRet (Some (SExpr (XTuple [(XConst (VBool false)); (XIdent [100; 101; 102; 97; 117; 108; 116]%Z)])))))])))))])))].

Definition H_AND : list sline :=
 [(LStm (SExpr (XFunction [([105; 116; 101; 114]%Z, (TFun [] (TTup [TBool; TInt])))] (Some TInt) [(LStm (SRet (Some (SExpr (XReduce (XIdent [105; 116; 101; 114]%Z) (XPrefix PNot (XConst (VInt (0)%Z))) (XFunction [([97; 99; 99]%Z, TInt); ([99; 117; 114; 114]%Z, TInt)] (Some TInt) [(LStm (SRet (Some (SExpr (XInfix BitwiseAnd (XIdent [97; 99; 99]%Z) (XIdent [99; 117; 114; 114]%Z))))))]))))))])))].

Definition H_OR : list sline :=
 [(LStm (SExpr (XFunction [([105; 116; 101; 114]%Z, (TFun [] (TTup [TBool; TInt])))] (Some TInt) [(LStm (SRet (Some (SExpr (XReduce (XIdent [105; 116; 101; 114]%Z) (XConst (VInt (0)%Z)) (XFunction [([97; 99; 99]%Z, TInt); ([99; 117; 114; 114]%Z, TInt)] (Some TInt) [(LStm (SRet (Some (SExpr (XInfix BitwiseOr (XIdent [97; 99; 99]%Z) (XIdent [99; 117; 114; 114]%Z))))))]))))))])))].

Definition H_ALL : list sline :=
 [(LStm (SExpr (XFunction [([105; 116; 101; 114]%Z, (TFun [] (TTup [TBool; TBool])))] (Some TBool) [(LStm (SLoop (SBlock [(LDestruct [[99; 111; 110]%Z; [118; 97; 108; 117; 101]%Z] (SExpr (XCall (XIdent [105; 116; 101; 114]%Z) []))); (LStm (SIfElse (XPrefix PNot (XIdent [99; 111; 110]%Z)) (SBlock [(LStm SBrk)]) None)); (LStm (SIfElse (XPrefix PNot (XIdent [118; 97; 108; 117; 101]%Z)) (SBlock [(LStm (SRet (Some (SExpr (XConst (VBool false))))))]) None))])));
 (LStm (SRet (Some (SExpr (XConst (VBool true))))))])))].

Definition H_ANY : list sline :=
 [(LStm (SExpr (XFunction [([105; 116; 101; 114]%Z, (TFun [] (TTup [TBool; TBool])))] (Some TBool) [(LStm (SLoop (SBlock [(LDestruct [[99; 111; 110]%Z; [118; 97; 108; 117; 101]%Z] (SExpr (XCall (XIdent [105; 116; 101; 114]%Z) []))); (LStm (SIfElse (XPrefix PNot (XIdent [99; 111; 110]%Z)) (SBlock [(LStm SBrk)]) None)); (LStm (SIfElse (XIdent [118; 97; 108; 117; 101]%Z) (SBlock [(LStm (SRet (Some (SExpr (XConst (VBool true))))))]) None))])));
 (LStm (SRet (Some (SExpr (XConst (VBool false))))))])))].

Definition H_INT_PRODUCT : list sline :=
 [(LStm (SExpr (XFunction [([105; 116; 101; 114]%Z, (TFun [] (TTup [TBool; TInt])))] (Some TInt) [(LStm (SRet (Some (SExpr (XReduce (XIdent [105; 116; 101; 114]%Z) (XConst (VInt (1)%Z)) (XFunction [([97; 99; 99]%Z, TInt); ([99; 117; 114; 114]%Z, TInt)] (Some TInt) [(LStm (SRet (Some (SExpr (XInfix Multiply (XIdent [97; 99; 99]%Z) (XIdent [99; 117; 114; 114]%Z))))))]))))))])))].

Definition H_FLOAT_PRODUCT : list sline :=
 [(LStm (SExpr (XFunction [([105; 116; 101; 114]%Z, (TFun [] (TTup [TBool; TFloat])))] (Some TFloat) [(LStm (SRet (Some (SExpr (XReduce (XIdent [105; 116; 101; 114]%Z) (XConst (VFloat 4607182418800017408%Z)) (XFunction [([97; 99; 99]%Z, TFloat); ([99; 117; 114; 114]%Z, TFloat)] (Some TFloat) [(LStm (SRet (Some (SExpr (XInfix Multiply (XIdent [97; 99; 99]%Z) (XIdent [99; 117; 114; 114]%Z))))))]))))))])))].

Definition H_INT_SUM : list sline :=
 [(LStm (SExpr (XFunction [([105; 116; 101; 114]%Z, (TFun [] (TTup [TBool; TInt])))] (Some TInt) [(LStm (SRet (Some (SExpr (XReduce (XIdent [105; 116; 101; 114]%Z) (XConst (VInt (0)%Z)) (XFunction [([97; 99; 99]%Z, TInt); ([99; 117; 114; 114]%Z, TInt)] (Some TInt) [(LStm (SRet (Some (SExpr (XInfix Add (XIdent [97; 99; 99]%Z) (XIdent [99; 117; 114; 114]%Z))))))]))))))])))].

Definition H_FLOAT_SUM : list sline :=
 [(LStm (SExpr (XFunction [([105; 116; 101; 114]%Z, (TFun [] (TTup [TBool; TFloat])))] (Some TFloat) [(LStm (SRet (Some (SExpr (XReduce (XIdent [105; 116; 101; 114]%Z) (XConst (VFloat 0%Z)) (XFunction [([97; 99; 99]%Z, TFloat); ([99; 117; 114; 114]%Z, TFloat)] (Some TFloat) [(LStm (SRet (Some (SExpr (XInfix Add (XIdent [97; 99; 99]%Z) (XIdent [99; 117; 114; 114]%Z))))))]))))))])))].

Definition H_STRING_SUM : list sline :=
 [(LStm (SExpr (XFunction [([105; 116; 101; 114]%Z, (TFun [] (TTup [TBool; TString])))] (Some TString) [(LStm (SRet (Some (SExpr (XReduce (XIdent [105; 116; 101; 114]%Z) (XConst (VString []%Z)) (XFunction [([97; 99; 99]%Z, TString); ([99; 117; 114; 114]%Z, TString)] (Some TString) [(LStm (SRet (Some (SExpr (XInfix Add (XIdent [97; 99; 99]%Z) (XIdent [99; 117; 114; 114]%Z))))))]))))))])))].


Section Boot.
Variable powf : fbits -> fbits -> fbits.

Definition n_std : name := [115; 116; 100].
Definition n_len : name := [108; 101; 110].
Definition len_closure : closure :=
  mkClosure (Some n_len) [([118;97;114;105;97;98;108;101], concat (TArr TAny) TString)] (BNative 0) TInt.
Definition len_v : value := VFun 0 [concat (TArr TAny) TString] TInt.
Definition std_v : value := VStruct [(n_len, len_v)].
Definition boot_scopes : scopes := [[(n_std, std_v)]].
Definition dummy_pre : prelude := mkPrelude 0 0 0 0 0 0 0 0.
Definition dummy_red : reducers := mkReducers VVoid VVoid VVoid VVoid [] [].

(* run one helper: parse_top then run_code, as the driver's run_lines *)
Definition boot_one (cf xf : nat) (pre : prelude) (red : reducers) (st : store) (lines : list sline)
    : option (store * value) :=
  match parse_top powf red cf boot_scopes [mkLayer [] None false] lines with
  | Ok (is, _) =>
      match run_code powf pre xf st [[]] is VVoid with
      | (st', _, SVal v) => Some (st', v)
      | _ => None
      end
  | _ => None
  end.

Definition fid_of (v : value) : nat := match v with VFun id _ _ => id | _ => 0%nat end.

Record booted : Type := mkBooted { b_store : store; b_pre : prelude; b_red : reducers }.

Definition boot (cf xf : nat) : option booted :=
  let st0 := mkStore [len_closure] [] [] in
  match boot_one cf xf dummy_pre dummy_red st0 H_MAP with None => None | Some (st1, m) =>
  match boot_one cf xf dummy_pre dummy_red st1 H_FILTER with None => None | Some (st2, f) =>
  match boot_one cf xf dummy_pre dummy_red st2 H_ITER with None => None | Some (st3, it) =>
  let pre1 := mkPrelude (fid_of m) (fid_of f) (fid_of it) 0 0 0 0 0 in
  match boot_one cf xf pre1 dummy_red st3 H_AND with None => None | Some (st4, a) =>
  match boot_one cf xf pre1 dummy_red st4 H_OR with None => None | Some (st5, o) =>
  match boot_one cf xf pre1 dummy_red st5 H_ALL with None => None | Some (st6, al) =>
  match boot_one cf xf pre1 dummy_red st6 H_ANY with None => None | Some (st7, an) =>
  let red := mkReducers al an a o [] [] in
  match boot_one cf xf pre1 red st7 H_INT_PRODUCT with None => None | Some (st8, ip) =>
  match boot_one cf xf pre1 red st8 H_FLOAT_PRODUCT with None => None | Some (st9, fp) =>
  match boot_one cf xf pre1 red st9 H_INT_SUM with None => None | Some (st10, is_) =>
  match boot_one cf xf pre1 red st10 H_FLOAT_SUM with None => None | Some (st11, fs) =>
  match boot_one cf xf pre1 red st11 H_STRING_SUM with None => None | Some (st12, ss) =>
  Some (mkBooted st12
          (mkPrelude (fid_of m) (fid_of f) (fid_of it) (fid_of is_) (fid_of fs) (fid_of ss)
                     (fid_of ip) (fid_of fp))
          (* `$+` / `$*` plant one of these, in the order sum.rs / product.rs list them *)
          (let it_of := fun t => TFun [] (TTup [TBool; t]) in
           mkReducers al an a o
             [(it_of TInt, is_); (it_of TFloat, fs); (it_of TString, ss)]
             [(it_of TInt, ip); (it_of TFloat, fp)]))
  end end end end end end end end end end end end.

End Boot.

Definition powf_stub : fbits -> fbits -> fbits := fun _ _ => CANON_NAN.
Definition the_boot : option booted := Eval vm_compute in boot powf_stub 60 60.

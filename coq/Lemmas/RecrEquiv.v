(* RecrEquiv.v — both directions together: for a program whose un-folded form never panics
   (what C01b proves of typed programs), the folded and the un-folded program have exactly
   the same finished results: a result r (store, scopes, signal; not SFuel) is reached by one
   with some fuel iff it is reached by the other with some fuel. *)
From SSL.Model Require Import Base Ty Float Value Ops Seq Syntax Rt Recreate Exec Check Top.
From SSL.Lemmas Require Import ExecLemmas FoldLemmas RecrUnfold RecrMono RecrDefs RecrKeeps RecrSim1 RecrSim2
  RecrMain RecrTop RecrSyn RecrComp1 RecrComp2 RecrClos RecrBack1 RecrBack2.

Section Equiv.
Variable powf : fbits -> fbits -> fbits.
Variable pre : prelude.
Notation E := (exec powf pre).
Notation RC f := (recreate powf f []).

Definition finishes (run : nat -> res) (r : res) : Prop := exists n, run n = r /\ sig r <> SFuel.

Theorem fold_equiv_expr f e i i' e' :
  RC f e i = Ok (i', e') -> wfi true false i = true -> dok i' = true ->
  forall sc, agree e sc -> forall st,
  (forall m, sig (E m st sc i) <> SPanic) ->
  forall r, finishes (fun n => E n st sc i) r <-> finishes (fun n => E n st sc i') r.
Proof.
  intros H W D sc Ha st NP r. split; intros [n [Hr Hf]]; cbv beta in Hr.
  - exists n. cbv beta. split; [|exact Hf]. rewrite <- Hr.
    apply (proj2 (sim_expr1 powf pre f e i i' e' H W D) sc Ha n st).
    split; [rewrite Hr; exact Hf|apply NP].
  - exists (n + f). cbv beta. rewrite <- Hr in Hf |- *.
    destruct (back_expr1 powf pre f e i i' e' H W D sc Ha n (n + f) st ltac:(lia) Hf) as [P|P].
    + exfalso. exact (NP _ P).
    + split; [exact P|exact Hf].
Qed.

Theorem fold_equiv_code f l e l' e' :
  rec_list_def (RC f) l e = Ok (l', e') ->
  forallb (wfi true true) l = true -> forallb dok l' = true ->
  forall sc, agree e sc -> forall st last,
  (forall m, sig (run_code powf pre m st sc l last) <> SPanic) ->
  forall r, finishes (fun n => run_code powf pre n st sc l last) r <->
            finishes (fun n => run_code powf pre n st sc l' last) r.
Proof.
  intros H W D sc Ha st last NP r. split; intros [n [Hr Hf]]; cbv beta in Hr.
  - exists n. cbv beta. split; [|exact Hf]. rewrite <- Hr.
    apply (sim_code1 powf pre f l e l' e' H W D sc Ha n st last).
    split; [rewrite Hr; exact Hf|apply NP].
  - exists (n + f). cbv beta. rewrite <- Hr in Hf |- *.
    destruct (back_code1 powf pre f l e l' e' H W D sc Ha n (n + f) st last ltac:(lia) Hf) as [P|P].
    + exfalso. exact (NP _ P).
    + split; [exact P|exact Hf].
Qed.

(* Code::parse followed by Code::exec *)
Theorem parse_top_fold_equiv red fuel e l is is' e' :
  parse_both powf red fuel [] e l = Ok (is, is', e') ->
  forallb (wfi true true) is = true -> forallb dok is' = true ->
  parse_top powf red fuel [] e l = Ok (is', e') /\
  forall sc, agree e sc -> forall st last,
  (forall m, sig (run_code powf pre m st sc is last) <> SPanic) ->
  forall r, finishes (fun n => run_code powf pre n st sc is last) r <->
            finishes (fun n => run_code powf pre n st sc is' last) r.
Proof.
  intros H W D. split.
  - rewrite parse_both_top, H. reflexivity.
  - intros sc Ha st last NP r.
    apply (fold_equiv_code fuel is e is' e' (parse_both_rec _ _ _ _ _ _ _ _ _ H) W D sc Ha st last NP r).
Qed.

End Equiv.

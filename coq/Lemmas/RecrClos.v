(* RecrClos.v — closure creation.  At run time `(..) {..}` and `f := (..) {..}` run the pass
   over the body once more, in the creating scopes.  By the composition theorem (RecrComp2)
   the closure created from the folded literal is LITERALLY the closure created from the
   original literal; so the preservation theorems hold, with literal equality of stores,
   for programs that create closures (cl = true). *)
From SSL.Model Require Import Base Ty Float Value Ops Seq Syntax Rt Recreate Exec Check Top.
From SSL.Lemmas Require Import ExecLemmas FoldLemmas RecrUnfold RecrMono RecrDefs RecrKeeps RecrSim1 RecrSim2
  RecrMain RecrTop RecrSyn RecrComp1 RecrComp2.

Arguments matches : simpl never.

Section Clos.
Variable powf : fbits -> fbits -> fbits.
Variable pre : prelude.
Notation E := (exec powf pre).
Notation RC f := (recreate powf f []).

Lemma body_unfold sc e body :
  recreate_body powf sc e body =
  obind (rec_list_def (recreate powf (S (list_isize body)) sc) body (lenv_push e))
        (fun '(body', _) => Ok body').
Proof.
  unfold recreate_body. rewrite recreate_S_IBlock.
  destruct (rec_list_def _ body (lenv_push e)) as [[body' e']| | |]; reflexivity.
Qed.

(* params_layer binds parameters to non-constants *)
Lemma params_layer_lother_gen ps : forall acc m lv,
  (forall m lv, assoc m acc = Some lv -> exists t, lv = LOther t) ->
  assoc m (fold_left (fun acc p => (fst p, LOther (snd p)) ::
              filter (fun kv => negb (ident_eqb (fst p) (fst kv))) acc) ps acc) = Some lv ->
  exists t, lv = LOther t.
Proof.
  induction ps as [|[k t] ps IH]; intros acc m lv Hacc H; [exact (Hacc m lv H)|].
  cbn [fold_left fst snd] in H. refine (IH _ m lv _ H).
  intros m' lv' H'. cbn [assoc] in H'. destruct (ident_eqb m' k) eqn:Ek.
  - injection H' as <-. eauto.
  - rewrite assoc_filter_neq in H' by exact Ek. exact (Hacc m' lv' H').
Qed.

Lemma params_layer_lother ps m lv : assoc m (params_layer ps) = Some lv -> exists t, lv = LOther t.
Proof. apply params_layer_lother_gen. intros m' lv' H. discriminate H. Qed.

(* pass 1 saw the literal under e; the run-time pass sees only the parameters, and the
   scopes — which agree with e *)
Lemma Rel_anon sc e ps ret : agree e sc ->
  Rel sc (lenv_push_fn (params_layer ps) None ret e) (lenv_push [mkLayer (params_layer ps) None false]).
Proof.
  intros Ha n v Hn. rewrite lenv_get_push_fn in Hn.
  cbn [lenv_push lenv_get l_vars assoc]. destruct (assoc n (params_layer ps)) as [lv|] eqn:Ep.
  - injection Hn as ->. reflexivity.
  - exact (Ha n v Hn).
Qed.

Lemma Rel_named sc e nm ps ret : agree e sc ->
  Rel sc (lenv_push_fn (params_layer ps) (Some nm) ret (lenv_insert nm (LFunction ps ret) e))
         (lenv_push [layer_insert nm (LFunction ps ret) (mkLayer (params_layer ps) None false)]).
Proof.
  intros Ha n v Hn. rewrite lenv_get_push_fn in Hn.
  cbn [lenv_push lenv_get layer_insert l_vars assoc].
  destruct (assoc n (params_layer ps)) as [lv|] eqn:Ep.
  - injection Hn as ->. destruct (params_layer_lother _ _ _ Ep) as [t C]. discriminate C.
  - destruct (ident_eq_dec n nm) as [->|Hne].
    + rewrite lget_insert_same in Hn. discriminate Hn.
    + rewrite lget_insert_other in Hn by exact Hne.
      rewrite (ident_eqb_neq _ _ Hne), assoc_filter_neq by (apply ident_eqb_neq; exact Hne).
      rewrite Ep. exact (Ha n v Hn).
Qed.

Lemma body_same sc e1 e2 f body body1 e1' :
  rec_list_def (RC f) body e1 = Ok (body1, e1') ->
  forallb (wfi true true) body = true -> forallb dok body1 = true ->
  Rel sc e1 (lenv_push e2) ->
  recreate_body powf sc e2 body1 = recreate_body powf sc e2 body.
Proof.
  intros H W D HR. rewrite !body_unfold.
  rewrite (comp_lines powf true sc f _ _ _ _ H W D _ HR (S (list_isize body1)) (S (list_isize body)))
    by lia.
  reflexivity.
Qed.

Lemma anonfn_true : forall f, rexpr powf pre true f -> rline powf pre true f -> forall e ps body ret i' e',
  RC (S f) e (IAnonFn ps body ret) = Ok (i', e') ->
  true = true -> forallb (wfi true true) body = true -> dok i' = true ->
  e' = e /\ noconst i' /\ simE powf pre e (IAnonFn ps body ret) i'.
Proof.
  intros f _ _ e ps body ret i' e' H _ W D. rewrite recreate_S_IAnonFn in H.
  inv_bind H p Hp. destruct p as [body1 e1]. injection H as <- <-. cbn [dok] in D.
  split; [reflexivity|]. split; [nc|].
  intros sc Ha n st _. destruct n as [|n]; [reflexivity|]. rewrite !exec_S_IAnonFn.
  rewrite (body_same sc _ [mkLayer (params_layer ps) None false] f body body1 e1 Hp W D
             (Rel_anon sc e ps ret Ha)).
  reflexivity.
Qed.

Lemma fndecl_true : forall f, rexpr powf pre true f -> rline powf pre true f -> forall e nm ps body ret i' e',
  RC (S f) e (IFnDecl nm ps body ret) = Ok (i', e') ->
  true = true -> forallb (wfi true true) body = true -> dok i' = true ->
  simE powf pre e (IFnDecl nm ps body ret) i' /\
  forall sc, agree e sc -> post powf pre e' sc (IFnDecl nm ps body ret).
Proof.
  intros f _ _ e nm ps body ret i' e' H _ W D. rewrite recreate_S_IFnDecl in H.
  inv_bind H p Hp. destruct p as [body1 e1]. injection H as <- <-. cbn [dok] in D. split.
  - intros sc Ha n st _. destruct n as [|n]; [reflexivity|]. rewrite !exec_S_IFnDecl.
    rewrite (body_same sc _ [layer_insert nm (LFunction ps ret) (mkLayer (params_layer ps) None false)]
               f body body1 e1 Hp W D (Rel_named sc e nm ps ret Ha)).
    reflexivity.
  - intros sc Ha n st st1 sc1 v HE. destruct n as [|n]; [rewrite exec_O in HE; discriminate HE|].
    rewrite exec_S_IFnDecl in HE.
    destruct (recreate_body powf sc _ body) as [b| | |]; cbn [sig_of_outcome] in HE; try discriminate HE.
    destruct (alloc_fun st _) as [st2 id]. injection HE as _ <- _.
    apply agree_insert; [intros u C; discriminate C|exact Ha].
Qed.

(* ---- the preservation theorems, closures included ---- *)
Definition sim_expr1 := sim_expr powf pre true anonfn_true fndecl_true.
Definition sim_line1 := sim_line powf pre true anonfn_true fndecl_true.
Definition sim_lines1 := sim_lines powf pre true anonfn_true fndecl_true.
Definition sim_code1 := sim_code powf pre true anonfn_true fndecl_true.
Definition parse_top_fold_unobservable1 red :=
  parse_top_fold_unobservable_gen powf pre red true anonfn_true fndecl_true.

End Clos.

(* RecrEmbed.v — the creating scopes of [recreate] as one more layer of its environment.

   [recreate powf f scR e i] resolves a name that e does not bind in the creating scopes scR
   (closure capture; Code::parse against an interpreter).  That is the same as running the
   pass against EMPTY creating scopes in the environment [emb scR e] = e ++ [one layer binding
   every name of scR to its value as a constant]:

       recreate powf f [] (emb scR e) i  =  recreate powf f scR e i   (result env embedded too)

   for every non-empty e ([recreate_emb]).  So the preservation theorems of Lemmas/Recr*.v,
   stated for empty creating scopes, apply to any creating scopes; the agreement hypothesis
   [agree (emb scR e) sc] then also says that the names taken from scR are bound to the same
   values in the run-time scopes sc. *)
From SSL.Model Require Import Base Ty Float Value Ops Seq Syntax Rt Recreate Exec Check.
From SSL.Lemmas Require Import ExecLemmas FoldLemmas RecrUnfold RecrMono RecrDefs RecrSim1 RecrSim2.

Arguments matches : simpl never.

Definition sc_layer (sc : scopes) : layer :=
  mkLayer (map (fun kv => (fst kv, LVariable (snd kv))) (List.concat sc)) None false.

Definition emb (scR : scopes) (e : lenv) : lenv := e ++ [sc_layer scR].

Lemma assoc_app_l {V} k (l1 l2 : list (ident * V)) :
  assoc k (l1 ++ l2) = match assoc k l1 with Some v => Some v | None => assoc k l2 end.
Proof.
  induction l1 as [|[k' v] l1 IH]; [reflexivity|]. cbn [app assoc].
  destruct (ident_eqb k k'); [reflexivity|exact IH].
Qed.

Lemma assoc_map_snd {V W} (g : V -> W) k (l : list (ident * V)) :
  assoc k (map (fun kv => (fst kv, g (snd kv))) l) = option_map g (assoc k l).
Proof.
  induction l as [|[k' v] l IH]; [reflexivity|]. cbn [map assoc fst snd].
  destruct (ident_eqb k k'); [reflexivity|exact IH].
Qed.

Lemma scopes_get_concat n sc : scopes_get n sc = assoc n (List.concat sc).
Proof.
  induction sc as [|s sc IH]; [reflexivity|]. cbn [scopes_get List.concat]. rewrite assoc_app_l.
  destruct (assoc n s); [reflexivity|exact IH].
Qed.

Lemma lenv_get_app n e1 e2 :
  lenv_get n (e1 ++ e2) = match lenv_get n e1 with Some lv => Some lv | None => lenv_get n e2 end.
Proof.
  induction e1 as [|l e1 IH]; [reflexivity|]. cbn [app lenv_get].
  destruct (assoc n (l_vars l)); [reflexivity|exact IH].
Qed.

Lemma lenv_get_emb scR n e :
  lenv_get n (emb scR e) =
  match lenv_get n e with Some lv => Some lv | None => option_map LVariable (scopes_get n scR) end.
Proof.
  unfold emb. rewrite lenv_get_app. destruct (lenv_get n e); [reflexivity|].
  cbn [lenv_get sc_layer l_vars]. rewrite assoc_map_snd, <- scopes_get_concat.
  destruct (scopes_get n scR); reflexivity.
Qed.

(* agreement with an embedded environment *)
Lemma agree_emb scR e sc :
  agree (emb scR e) sc <->
  agree e sc /\ (forall n v, lenv_get n e = None -> scopes_get n scR = Some v -> scopes_get n sc = Some v).
Proof.
  split.
  - intros H. split.
    + intros n v Hn. apply H. rewrite lenv_get_emb, Hn. reflexivity.
    + intros n v Hn Hs. apply H. rewrite lenv_get_emb, Hn, Hs. reflexivity.
  - intros [H1 H2] n v Hn. rewrite lenv_get_emb in Hn.
    destruct (lenv_get n e) as [lv|] eqn:E; [injection Hn as ->; apply H1; exact E|].
    destruct (scopes_get n scR) as [w|] eqn:Es; [|discriminate Hn].
    injection Hn as <-. apply (H2 n w E Es).
Qed.

(* the run-time scopes themselves as creating scopes: agreement is immediate *)
Lemma agree_emb_self sc e : (forall n, lenv_get n e = None) -> agree (emb sc e) sc.
Proof.
  intros He. apply agree_emb. split; [intros n v Hn; rewrite He in Hn; discriminate Hn|].
  intros n v _ Hs. exact Hs.
Qed.

Section Embed.
Variable powf : fbits -> fbits -> fbits.
Variable scR : scopes.
Notation R0 f := (recreate powf f []).
Notation Rs f := (recreate powf f scR).
Notation em := (emb scR).

Definition embR {A} (o : outcome (A * lenv)) : outcome (A * lenv) :=
  match o with Ok (a, e') => Ok (a, em e') | Err x => Err x | Panic => Panic | OutOfFuel => OutOfFuel end.

Lemma em_insert n lv e : e <> [] -> lenv_insert n lv (em e) = em (lenv_insert n lv e).
Proof. destruct e as [|l e]; [intros C; contradiction|reflexivity]. Qed.
Lemma em_push e : e <> [] -> lenv_push (em e) = em (lenv_push e).
Proof. destruct e as [|l e]; [intros C; contradiction|reflexivity]. Qed.
Lemma em_push_fn vars fn r e : lenv_push_fn vars fn r (em e) = em (lenv_push_fn vars fn r e).
Proof. reflexivity. Qed.
Lemma insert_ne n lv e : lenv_insert n lv e <> [].
Proof. destruct e; discriminate. Qed.
Lemma push_ne e : lenv_push e <> [].
Proof. discriminate. Qed.
Lemma push_fn_ne vars fn r e : lenv_push_fn vars fn r e <> [].
Proof. discriminate. Qed.

Lemma resolve_emb e n : resolve_name [] (em e) n = resolve_name scR e n.
Proof.
  unfold resolve_name. rewrite lenv_get_emb.
  destruct (lenv_get n e) as [lv|]; [reflexivity|].
  destruct (scopes_get n scR); reflexivity.
Qed.

Lemma zip_emb {A} (g : A -> outcome lvar) ids : forall xs e, e <> [] ->
  zip_insert g ids xs (em e) = obind (zip_insert g ids xs e) (fun e' => Ok (em e')) /\
  (forall e', zip_insert g ids xs e = Ok e' -> e' <> []).
Proof.
  induction ids as [|n ids IH]; intros xs e He.
  - rewrite !zip_nil. split; [reflexivity|]. intros e' H. injection H as <-. exact He.
  - destruct xs as [|x xs].
    + rewrite !zip_cons_nil. split; [reflexivity|]. intros e' H. injection H as <-. exact He.
    + rewrite !zip_cons. destruct (g x) as [lv| | |]; cbn [obind]; try (split; [reflexivity|intros e' H; discriminate H]).
      rewrite em_insert by exact He. apply IH. apply insert_ne.
Qed.

Lemma destruct_emb ids x e : e <> [] ->
  destruct_insert ids x (em e) = obind (destruct_insert ids x e) (fun e' => Ok (em e')) /\
  (forall e', destruct_insert ids x e = Ok e' -> e' <> []).
Proof.
  intros He.
  assert (G : forall T,
    (match flatten_tuple T with
     | Some ts => zip_insert (fun t => Ok (LOther t)) ids ts (em e)
     | None => zip_insert (fun t => Ok (LOther t)) ids (map (fun _ => TNever) ids) (em e)
     end = obind (match flatten_tuple T with
                  | Some ts => zip_insert (fun t => Ok (LOther t)) ids ts e
                  | None => zip_insert (fun t => Ok (LOther t)) ids (map (fun _ => TNever) ids) e
                  end) (fun e' => Ok (em e'))) /\
    (forall e', match flatten_tuple T with
                | Some ts => zip_insert (fun t => Ok (LOther t)) ids ts e
                | None => zip_insert (fun t => Ok (LOther t)) ids (map (fun _ => TNever) ids) e
                end = Ok e' -> e' <> [])).
  { intros T. destruct (flatten_tuple T); apply zip_emb; exact He. }
  destruct x; cbn [destruct_insert];
    try (destruct (rt _) as [T| | |]; cbn [obind];
         [apply G|split; [reflexivity|intros e' H; discriminate H]..]).
  - apply zip_emb. exact He.
  - destruct v; try (cbn [rt obind]; apply G). apply zip_emb. exact He.
Qed.

(* the statement of the induction *)
Definition embP (f : nat) : Prop := forall e i, e <> [] ->
  R0 f (em e) i = embR (Rs f e i) /\ (forall i' e', Rs f e i = Ok (i', e') -> e' <> []).

Lemma emb_list f (IH : embP f) : forall l e, e <> [] ->
  rec_list_def (R0 f) l (em e) = embR (rec_list_def (Rs f) l e) /\
  (forall l' e', rec_list_def (Rs f) l e = Ok (l', e') -> e' <> []).
Proof.
  induction l as [|x l IHl]; intros e He.
  - split; [reflexivity|]. intros l' e' H. injection H as _ <-. exact He.
  - cbn [rec_list_def]. fold (rec_list_def (R0 f)). fold (rec_list_def (Rs f)).
    destruct (IH e x He) as [E1 N1]. rewrite E1.
    destruct (Rs f e x) as [[x' e1]| | |]; cbn [embR obind]; try (split; [reflexivity|intros ? ? H; discriminate H]).
    destruct (IHl e1 (N1 _ _ eq_refl)) as [E2 N2]. rewrite E2.
    destruct (rec_list_def (Rs f) l e1) as [[l1 e2]| | |]; cbn [embR obind];
      try (split; [reflexivity|intros ? ? H; discriminate H]).
    split; [reflexivity|]. intros l' e' H. injection H as _ <-. apply (N2 _ _ eq_refl).
Qed.

Lemma emb_opt f (IH : embP f) o e : e <> [] ->
  rec_opt_def (R0 f) o (em e) = embR (rec_opt_def (Rs f) o e) /\
  (forall o' e', rec_opt_def (Rs f) o e = Ok (o', e') -> e' <> []).
Proof.
  intros He. destruct o as [x|]; cbn [rec_opt_def].
  - destruct (IH e x He) as [E1 N1]. rewrite E1.
    destruct (Rs f e x) as [[x' e1]| | |]; cbn [embR obind]; try (split; [reflexivity|intros ? ? H; discriminate H]).
    split; [reflexivity|]. intros o' e' H. injection H as _ <-. apply (N1 _ _ eq_refl).
  - split; [reflexivity|]. intros o' e' H. injection H as _ <-. exact He.
Qed.

Lemma emb_fields f (IH : embP f) : forall l e, e <> [] ->
  rec_fields_def (R0 f) l (em e) = embR (rec_fields_def (Rs f) l e) /\
  (forall l' e', rec_fields_def (Rs f) l e = Ok (l', e') -> e' <> []).
Proof.
  induction l as [|[k x] l IHl]; intros e He.
  - split; [reflexivity|]. intros l' e' H. injection H as _ <-. exact He.
  - cbn [rec_fields_def]. fold (rec_fields_def (R0 f)). fold (rec_fields_def (Rs f)).
    destruct (IH e x He) as [E1 N1]. rewrite E1.
    destruct (Rs f e x) as [[x' e1]| | |]; cbn [embR obind]; try (split; [reflexivity|intros ? ? H; discriminate H]).
    destruct (IHl e1 (N1 _ _ eq_refl)) as [E2 N2]. rewrite E2.
    destruct (rec_fields_def (Rs f) l e1) as [[l1 e2]| | |]; cbn [embR obind];
      try (split; [reflexivity|intros ? ? H; discriminate H]).
    split; [reflexivity|]. intros l' e' H. injection H as _ <-. apply (N2 _ _ eq_refl).
Qed.

Lemma emb_arm f (IH : embP f) a e : e <> [] ->
  rec_arm_def (R0 f) a (em e) = embR (rec_arm_def (Rs f) a e) /\
  (forall a' e', rec_arm_def (Rs f) a e = Ok (a', e') -> e' <> []).
Proof.
  intros He. destruct a as [n t b|cs b|b]; cbn [rec_arm_def].
  - rewrite em_push, em_insert by (try exact He; apply push_ne).
    destruct (IH (lenv_insert n (LOther t) (lenv_push e)) b (insert_ne _ _ _)) as [E1 _]. rewrite E1.
    destruct (Rs f _ b) as [[b' e1]| | |]; cbn [embR obind]; try (split; [reflexivity|intros ? ? H; discriminate H]).
    split; [reflexivity|]. intros a' e' H. injection H as _ <-. exact He.
  - destruct (emb_list f IH cs e He) as [E1 N1]. rewrite E1.
    destruct (rec_list_def (Rs f) cs e) as [[cs' e1]| | |]; cbn [embR obind];
      try (split; [reflexivity|intros ? ? H; discriminate H]).
    destruct (IH e1 b (N1 _ _ eq_refl)) as [E2 N2]. rewrite E2.
    destruct (Rs f e1 b) as [[b' e2]| | |]; cbn [embR obind]; try (split; [reflexivity|intros ? ? H; discriminate H]).
    split; [reflexivity|]. intros a' e' H. injection H as _ <-. apply (N2 _ _ eq_refl).
  - destruct (IH e b He) as [E1 N1]. rewrite E1.
    destruct (Rs f e b) as [[b' e1]| | |]; cbn [embR obind]; try (split; [reflexivity|intros ? ? H; discriminate H]).
    split; [reflexivity|]. intros a' e' H. injection H as _ <-. apply (N1 _ _ eq_refl).
Qed.

Lemma emb_arms f (IH : embP f) : forall l e, e <> [] ->
  rec_arms_def (R0 f) l (em e) = embR (rec_arms_def (Rs f) l e) /\
  (forall l' e', rec_arms_def (Rs f) l e = Ok (l', e') -> e' <> []).
Proof.
  induction l as [|a l IHl]; intros e He.
  - split; [reflexivity|]. intros l' e' H. injection H as _ <-. exact He.
  - cbn [rec_arms_def]. fold (rec_arms_def (R0 f)). fold (rec_arms_def (Rs f)).
    destruct (emb_arm f IH a e He) as [E1 N1]. rewrite E1.
    destruct (rec_arm_def (Rs f) a e) as [[a' e1]| | |]; cbn [embR obind];
      try (split; [reflexivity|intros ? ? H; discriminate H]).
    destruct (IHl e1 (N1 _ _ eq_refl)) as [E2 N2]. rewrite E2.
    destruct (rec_arms_def (Rs f) l e1) as [[l1 e2]| | |]; cbn [embR obind];
      try (split; [reflexivity|intros ? ? H; discriminate H]).
    split; [reflexivity|]. intros l' e' H. injection H as _ <-. apply (N2 _ _ eq_refl).
Qed.

(* run one sub-instruction on both sides *)
Ltac sub IH e x He x' e1 N1 :=
  let E1 := fresh "E" in
  destruct (IH e x He) as [E1 N1]; rewrite E1; clear E1;
  destruct (Rs _ e x) as [[x' e1]| | |]; cbn [embR obind];
  try (split; [reflexivity|intros ? ? ?H; discriminate]);
  specialize (N1 _ _ eq_refl).

Ltac done_with Hne :=
  split; [reflexivity|]; intros ? ? ?H; injection H as _ <-; exact Hne.

Lemma embP_S f : embP f -> embP (S f).
Proof.
  intros IH e i He. destruct i.
  - (* IAnonFn *) rewrite !recreate_S_IAnonFn, em_push_fn.
    destruct (emb_list f IH body _ (push_fn_ne (params_layer ps) None ret e)) as [E1 _]. rewrite E1.
    destruct (rec_list_def (Rs f) body _) as [[b' e1]| | |]; cbn [embR obind];
      try (split; [reflexivity|intros ? ? H; discriminate H]). done_with He.
  - (* IArray *) rewrite !recreate_S_IArray.
    destruct (emb_list f IH es e He) as [E1 N1]. rewrite E1.
    destruct (rec_list_def (Rs f) es e) as [[es' e1]| | |]; cbn [embR obind];
      try (split; [reflexivity|intros ? ? H; discriminate H]).
    specialize (N1 _ _ eq_refl). destruct (all_vars es'); done_with N1.
  - (* IArrayRepeat *) rewrite !recreate_S_IArrayRepeat.
    sub IH e i1 He v' e1 N1. sub IH e1 i2 N1 l' e2 N2.
    destruct (fold_repeat v' l'); cbn [obind embR]; try (split; [reflexivity|intros ? ? H; discriminate H]).
    done_with N2.
  - (* IBlock *) rewrite !recreate_S_IBlock, em_push by exact He.
    destruct (emb_list f IH body _ (push_ne e)) as [E1 _]. rewrite E1.
    destruct (rec_list_def (Rs f) body _) as [[b' e1]| | |]; cbn [embR obind];
      try (split; [reflexivity|intros ? ? H; discriminate H]). done_with He.
  - rewrite !recreate_S_IBreak. done_with He.
  - rewrite !recreate_S_IContinue. done_with He.
  - (* IDestruct *) rewrite !recreate_S_IDestruct. sub IH e i He x' e1 N1.
    destruct (destruct_emb ids x' e1 N1) as [E2 N2]. rewrite E2.
    destruct (destruct_insert ids x' e1) as [e2| | |]; cbn [obind embR];
      try (split; [reflexivity|intros ? ? H; discriminate H]).
    split; [reflexivity|]. intros ? ? H. injection H as _ <-. apply (N2 _ eq_refl).
  - rewrite !recreate_S_IFieldAccess. sub IH e i He x' e1 N1. done_with N1.
  - (* IFnDecl *) rewrite !recreate_S_IFnDecl, em_insert by exact He. rewrite em_push_fn.
    destruct (emb_list f IH body _ (push_fn_ne (params_layer ps) (Some n) ret (lenv_insert n (LFunction ps ret) e)))
      as [E1 _]. rewrite E1.
    destruct (rec_list_def (Rs f) body _) as [[b' e1]| | |]; cbn [embR obind];
      try (split; [reflexivity|intros ? ? H; discriminate H]).
    split; [reflexivity|]. intros ? ? H. injection H as _ <-. apply insert_ne.
  - (* IIfElse *) rewrite !recreate_S_IIfElse. sub IH e i1 He c' e1 N1.
    assert (G : obind (R0 f (em e1) i2) (fun '(t', e0) => obind (R0 f e0 i3) (fun '(f', e2) => Ok (IIfElse c' t' f', e2))) =
                embR (obind (Rs f e1 i2) (fun '(t', e0) => obind (Rs f e0 i3) (fun '(f', e2) => Ok (IIfElse c' t' f', e2)))) /\
                (forall i' e', obind (Rs f e1 i2) (fun '(t', e0) => obind (Rs f e0 i3) (fun '(f', e2) => Ok (IIfElse c' t' f', e2))) = Ok (i', e') -> e' <> [])).
    { sub IH e1 i2 N1 t' e2 N2. sub IH e2 i3 N2 f' e3 N3. done_with N3. }
    destruct c'; try exact G. destruct v; try exact G. destruct b; apply IH; exact N1.
  - (* ILocal *) rewrite !recreate_S_ILocal, resolve_emb.
    destruct (resolve_name scR e n); cbn [obind embR]; try (split; [reflexivity|intros ? ? H; discriminate H]).
    done_with He.
  - rewrite !recreate_S_ILoop. sub IH e i He x' e1 N1. done_with N1.
  - (* IMatch *) rewrite !recreate_S_IMatch. sub IH e i He x' e1 N1.
    destruct (emb_arms f IH arms e1 N1) as [E2 N2]. rewrite E2.
    destruct (rec_arms_def (Rs f) arms e1) as [[a' e2]| | |]; cbn [embR obind];
      try (split; [reflexivity|intros ? ? H; discriminate H]).
    split; [reflexivity|]. intros ? ? H. injection H as _ <-. apply (N2 _ _ eq_refl).
  - rewrite !recreate_S_IMut. sub IH e i He x' e1 N1. done_with N1.
  - (* IReduce *) rewrite !recreate_S_IReduce.
    sub IH e i1 He a' e1 N1. sub IH e1 i2 N1 b' e2 N2. sub IH e2 i3 N2 c' e3 N3. done_with N3.
  - (* ISet *) rewrite !recreate_S_ISet. sub IH e i He x' e1 N1.
    destruct (lvar_of_instr x'); cbn [obind embR]; try (split; [reflexivity|intros ? ? H; discriminate H]).
    rewrite em_insert by exact N1. split; [reflexivity|]. intros ? ? H. injection H as _ <-. apply insert_ne.
  - (* ISetIfElse *) rewrite !recreate_S_ISetIfElse. sub IH e i1 He x' e1 N1.
    rewrite em_push, em_insert by (try exact N1; apply push_ne).
    destruct (IH (lenv_insert n (LOther t) (lenv_push e1)) i2 (insert_ne _ _ _)) as [E2 _]. rewrite E2.
    destruct (Rs f _ i2) as [[a' e2]| | |]; cbn [embR obind]; try (split; [reflexivity|intros ? ? H; discriminate H]).
    sub IH e1 i3 N1 b' e3 N3. done_with N3.
  - (* ISlicing *) rewrite !recreate_S_ISlicing. sub IH e i He l' e1 N1.
    destruct (emb_opt f IH a e1 N1) as [E2 N2]. rewrite E2.
    destruct (rec_opt_def (Rs f) a e1) as [[a' e2]| | |]; cbn [embR obind];
      try (split; [reflexivity|intros ? ? H; discriminate H]). specialize (N2 _ _ eq_refl).
    destruct (emb_opt f IH b e2 N2) as [E3 N3]. rewrite E3.
    destruct (rec_opt_def (Rs f) b e2) as [[b' e3]| | |]; cbn [embR obind];
      try (split; [reflexivity|intros ? ? H; discriminate H]). specialize (N3 _ _ eq_refl).
    destruct (emb_opt f IH c e3 N3) as [E4 N4]. rewrite E4.
    destruct (rec_opt_def (Rs f) c e3) as [[c' e4]| | |]; cbn [embR obind];
      try (split; [reflexivity|intros ? ? H; discriminate H]).
    split; [reflexivity|]. intros ? ? H. injection H as _ <-. apply (N4 _ _ eq_refl).
  - (* IStruct *) rewrite !recreate_S_IStruct.
    destruct (emb_fields f IH fs e He) as [E1 N1]. rewrite E1.
    destruct (rec_fields_def (Rs f) fs e) as [[fs' e1]| | |]; cbn [embR obind];
      try (split; [reflexivity|intros ? ? H; discriminate H]).
    split; [reflexivity|]. intros ? ? H. injection H as _ <-. apply (N1 _ _ eq_refl).
  - (* ITuple *) rewrite !recreate_S_ITuple.
    destruct (emb_list f IH es e He) as [E1 N1]. rewrite E1.
    destruct (rec_list_def (Rs f) es e) as [[es' e1]| | |]; cbn [embR obind];
      try (split; [reflexivity|intros ? ? H; discriminate H]).
    specialize (N1 _ _ eq_refl). destruct (all_vars es'); done_with N1.
  - rewrite !recreate_S_ITupleAccess. sub IH e i He x' e1 N1. done_with N1.
  - rewrite !recreate_S_ITypeFilter. sub IH e i He x' e1 N1. done_with N1.
  - rewrite !recreate_S_IVar. done_with He.
  - (* IBin *)
    destruct (binop_eq_dec op And) as [->|NA].
    { rewrite !recreate_S_And. sub IH e i1 He l' e1 N1.
      assert (G : obind (R0 f (em e1) i2) (fun '(r', e0) => Ok (IBin And l' r', e0)) =
                  embR (obind (Rs f e1 i2) (fun '(r', e0) => Ok (IBin And l' r', e0))) /\
                  (forall i' e', obind (Rs f e1 i2) (fun '(r', e0) => Ok (IBin And l' r', e0)) = Ok (i', e') -> e' <> [])).
      { sub IH e1 i2 N1 r' e2 N2. done_with N2. }
      destruct l'; try exact G. destruct v; try (done_with N1).
      destruct b; [apply IH; exact N1|done_with N1]. }
    destruct (binop_eq_dec op Or) as [->|NO].
    { rewrite !recreate_S_Or. sub IH e i1 He l' e1 N1.
      assert (G : obind (R0 f (em e1) i2) (fun '(r', e0) => Ok (IBin Or l' r', e0)) =
                  embR (obind (Rs f e1 i2) (fun '(r', e0) => Ok (IBin Or l' r', e0))) /\
                  (forall i' e', obind (Rs f e1 i2) (fun '(r', e0) => Ok (IBin Or l' r', e0)) = Ok (i', e') -> e' <> [])).
      { sub IH e1 i2 N1 r' e2 N2. done_with N2. }
      destruct l'; try exact G. destruct v; try (apply IH; exact N1).
      destruct b; [done_with N1|apply IH; exact N1]. }
    rewrite !(recreate_S_IBin powf _ f _ op i1 i2 NA NO).
    sub IH e i1 He l' e1 N1. sub IH e1 i2 N1 r' e2 N2.
    destruct (fold_bin powf op l' r'); cbn [obind embR]; try (split; [reflexivity|intros ? ? H; discriminate H]).
    done_with N2.
  - (* IUn *) rewrite !recreate_S_IUn. sub IH e i He x' e1 N1.
    destruct (fold_un op x'); cbn [obind embR]; try (split; [reflexivity|intros ? ? H; discriminate H]).
    done_with N1.
Qed.

Theorem recreate_emb_all : forall f, embP f.
Proof.
  induction f as [|f IH]; [intros e i He; split; [reflexivity|intros ? ? H; rewrite recreate_O in H; discriminate H]|].
  apply embP_S. exact IH.
Qed.

Theorem recreate_emb f e i i' e' : e <> [] ->
  Rs f e i = Ok (i', e') -> R0 f (em e) i = Ok (i', em e') /\ e' <> [].
Proof.
  intros He H. destruct (recreate_emb_all f e i He) as [E N]. rewrite E, H. split; [reflexivity|apply (N _ _ H)].
Qed.

Theorem rec_list_emb f : forall l e l' e', e <> [] ->
  rec_list_def (Rs f) l e = Ok (l', e') -> rec_list_def (R0 f) l (em e) = Ok (l', em e') /\ e' <> [].
Proof.
  intros l e l' e' He H. destruct (emb_list f (recreate_emb_all f) l e He) as [E N].
  rewrite E, H. split; [reflexivity|apply (N _ _ H)].
Qed.

End Embed.

(* SoundVals.v — layer 3, value level: every operation of the interpreter keeps
   values good ([vgood]) and the access forms (x.k, x.f, x[a:b:c], *c, destructuring)
   land in the static type the checker computes with the Option-returning queries,
   also when the operand type is a union. *)
From SSL.Model Require Import Base Ty Float Value Ops Seq Syntax Rt Recreate Exec Check.
From SSL.Lemmas Require Import TyLemmas ValueLemmas SeqLemmas ExecLemmas SoundLemmas CellLemmas SoundDefs.

Arguments matches : simpl never.
Arguments ty_eqb : simpl never.
Arguments concat : simpl never.

Local Open Scope Z_scope.

Ltac mfalse H :=
  rewrite matches_unfold in H; cbn beta iota in H;
  try (rewrite ty_eqb_unfold in H; cbn beta iota in H); discriminate H.

(* ================================================================= *)
(* 1. operations keep values good                                     *)
(* ================================================================= *)
Section Ops.
Variable W : sty.
Variable powf : fbits -> fbits -> fbits.

Lemma vgood_array_concat t1 l1 t2 l2 :
  vgood W (VArr t1 l1) -> vgood W (VArr t2 l2) -> vgood W (array_concat t1 l1 t2 l2).
Proof.
  intros H1 H2. unfold array_concat. destruct l1 as [|x l1]; [exact H2|].
  destruct l2 as [|y l2]; [exact H1|].
  rewrite vgood_arr in *. destruct H1 as [W1 H1], H2 as [W2 H2]. split.
  - apply concat_wf; assumption.
  - apply Forall_app. split; eapply Forall_impl; try eassumption; cbn beta;
      intros z [A B]; (split; [|exact B]).
    + apply has_type_union_l_all. exact A.
    + apply has_type_union_r_all. exact A.
Qed.

Lemma vgood_op_exec o a b r :
  op_exec powf o a b = Ok r -> vgood W a -> vgood W b -> vgood W r.
Proof.
  intros H Ha Hb. unfold op_exec in H.
  destruct o; try discriminate H; try (injection H as <-; exact I);
    destruct a; try discriminate H; destruct b; try discriminate H;
    repeat match type of H with
           | context [match ?z with _ => _ end] => destruct z; try discriminate H
           end;
    try (injection H as <-; try exact I).
  apply vgood_array_concat; assumption.
Qed.

Lemma vgood_unop_exec u a r : unop_exec u a = Ok r -> vgood W r.
Proof.
  intros H. unfold unop_exec in H.
  destruct u; try discriminate H; destruct a; try discriminate H; injection H as <-; exact I.
Qed.

Lemma vgood_at v i x : at_exec v i = Ok x -> vgood W v -> vgood W x.
Proof.
  intros H Hv. destruct v; try (destruct i; discriminate H).
  - destruct (at_exec_string _ _ _ H) as [c ->]. exact I.
  - apply at_exec_arr_in in H. rewrite vgood_arr in Hv. destruct Hv as [_ Hv].
    rewrite Forall_forall in Hv. apply (Hv x H).
Qed.

Lemma vgood_arr_of vs : Forall (vgood W) vs -> vgood W (arr_of vs).
Proof.
  intros H. rewrite Forall_forall in H.
  assert (V : vwf (arr_of vs) = true).
  { apply vwf_arr_of; apply forallb_forall; intros x Hx.
    - apply (vgood_vwf W). auto.
    - apply (vgood_self W). auto. }
  assert (T : wf_ty (as_type (arr_of vs)) = true).
  { apply arr_of_type_wf. apply forallb_forall. intros x Hx. apply (vgood_wf_ty W). auto. }
  unfold arr_of in *. cbn [as_type wf_ty vwf] in *. rewrite vgood_arr. split; [exact T|].
  apply Forall_forall. intros x Hx. rewrite forallb_forall in V. specialize (V x Hx).
  apply andb_true_iff in V. destruct V as [A _]. split; [exact A|auto].
Qed.

Lemma vgood_repeat v n : vgood W v -> vgood W (repeat_value v n).
Proof.
  intros H. unfold repeat_value. rewrite vgood_arr. split; [apply (vgood_wf_ty W); exact H|].
  apply Forall_forall. intros x Hx. apply repeat_spec in Hx. subst x.
  split; [apply (vgood_self W); exact H|exact H].
Qed.

Lemma select_incl {A} (l : list A) idx r : select l idx = Some r -> incl r l.
Proof.
  revert r. induction idx as [|i idx IH]; intros r H.
  - rewrite select_nil in H. injection H as <-. intros x [].
  - rewrite select_cons in H. destruct (nth_error l (Z.to_nat i)) as [x|] eqn:E; [|discriminate H].
    destruct (select l idx) as [r'|]; [|discriminate H].
    destruct (0 <=? i); [|discriminate H]. injection H as <-.
    intros y [<-|Hy]; [apply (nth_error_In _ _ E)|apply (IH r' eq_refl); exact Hy].
Qed.

Lemma slice_exec_shape v a b c r :
  slice_exec v a b c = Ok r ->
  (exists s s', v = VString s /\ r = VString s') \/
  (exists t vs vs', v = VArr t vs /\ r = arr_of vs' /\ incl vs' vs).
Proof.
  unfold slice_exec. destruct (opt_int a) as [a'| | |]; try discriminate.
  destruct (opt_int b) as [b'| | |]; try discriminate.
  destruct (opt_int c) as [c'| | |]; try discriminate. cbn [obind].
  destruct v; try discriminate.
  - destruct (select s _) as [s'|] eqn:E; [|discriminate]. intros H. injection H as <-.
    left. eauto.
  - destruct (select vs _) as [vs'|] eqn:E; [|discriminate]. intros H. injection H as <-.
    right. exists et, vs, vs'. split; [reflexivity|]. split; [reflexivity|].
    apply (select_incl _ _ _ E).
Qed.

Lemma vgood_slice v a b c r : slice_exec v a b c = Ok r -> vgood W v -> vgood W r.
Proof.
  intros H Hv. destruct (slice_exec_shape _ _ _ _ _ H) as [[s [s' [-> ->]]]|[t [vs [vs' [-> [-> Hi]]]]]].
  - exact I.
  - apply vgood_arr_of. rewrite vgood_arr in Hv. destruct Hv as [_ Hv].
    rewrite Forall_forall in *. intros x Hx. apply (Hv x (Hi x Hx)).
Qed.

(* ---- struct literals ---- *)
Lemma existsb_key_filter {V} k k' (fs : list (ident * V)) :
  existsb (fun kv => ident_eqb k (fst kv)) (filter (fun kv => negb (ident_eqb k' (fst kv))) fs) = true ->
  existsb (fun kv => ident_eqb k (fst kv)) fs = true.
Proof.
  intros H. apply existsb_exists in H. destruct H as [kv [Hin Hk]].
  apply filter_In in Hin. apply existsb_exists. exists kv. split; [apply Hin|exact Hk].
Qed.

Lemma nodup_keys_filter {V} k (fs : list (ident * V)) :
  nodup_keys fs = true -> nodup_keys (filter (fun kv => negb (ident_eqb k (fst kv))) fs) = true.
Proof.
  induction fs as [|[k' x] fs IH]; intros H; [reflexivity|].
  cbn [nodup_keys] in H. apply andb_true_iff in H. destruct H as [Hk H].
  cbn [filter fst]. destruct (negb (ident_eqb k k')); [|apply IH; exact H].
  cbn [nodup_keys]. rewrite (IH H), andb_true_r.
  apply negb_true_iff. apply negb_true_iff in Hk.
  destruct (existsb _ (filter _ fs)) eqn:E; [|reflexivity].
  apply existsb_key_filter in E. congruence.
Qed.

Lemma nodup_keys_snoc {V} k (x : V) (fs : list (ident * V)) :
  nodup_keys fs = true -> existsb (fun kv => ident_eqb k (fst kv)) fs = false ->
  nodup_keys (fs ++ [(k, x)]) = true.
Proof.
  induction fs as [|[k' y] fs IH]; intros H Hk; [reflexivity|].
  cbn [nodup_keys] in H. apply andb_true_iff in H. destruct H as [Hk' H].
  cbn [existsb fst] in Hk. apply orb_false_iff in Hk. destruct Hk as [Hkk Hk].
  cbn [app nodup_keys]. rewrite (IH H Hk), andb_true_r.
  rewrite existsb_app. cbn [existsb fst]. apply negb_true_iff in Hk'. rewrite Hk'.
  cbn [orb]. rewrite orb_false_r. apply negb_true_iff.
  destruct (ident_eqb k' k) eqn:E; [|reflexivity].
  apply ident_eqb_true in E. subst. rewrite ident_eqb_refl in Hkk. discriminate.
Qed.

Lemma filter_key_absent {V} k (fs : list (ident * V)) :
  existsb (fun kv => ident_eqb k (fst kv)) (filter (fun kv => negb (ident_eqb k (fst kv))) fs) = false.
Proof.
  induction fs as [|[k' x] fs IH]; [reflexivity|]. cbn [filter fst].
  destruct (ident_eqb k k') eqn:E; cbn [negb]; [exact IH|].
  cbn [existsb fst]. rewrite E, IH. reflexivity.
Qed.

Lemma nodup_struct_val_insert k v acc :
  nodup_keys acc = true -> nodup_keys (struct_val_insert k v acc) = true.
Proof.
  intros H. unfold struct_val_insert. apply nodup_keys_snoc.
  - apply nodup_keys_filter. exact H.
  - apply filter_key_absent.
Qed.

Lemma nodup_struct_ty_insert k t acc :
  nodup_keys acc = true -> nodup_keys (struct_ty_insert k t acc) = true.
Proof.
  intros H. unfold struct_ty_insert. apply nodup_keys_snoc.
  - apply nodup_keys_filter. exact H.
  - apply filter_key_absent.
Qed.

Lemma vgood_struct_insert k v acc :
  vgood W (VStruct acc) -> vgood W v -> vgood W (VStruct (struct_val_insert k v acc)).
Proof.
  rewrite !vgood_struct. intros [Hn H] Hv. split; [apply nodup_struct_val_insert; exact Hn|].
  unfold struct_val_insert. apply Forall_app. split.
  - rewrite Forall_forall in *. intros kv Hkv. apply filter_In in Hkv. apply H. apply Hkv.
  - constructor; [exact Hv|constructor].
Qed.

End Ops.

(* fields of the value and of the type, built in step by IStruct *)
Definition aligned (accv : list (ident * value)) (acct : list (ident * ty)) : Prop :=
  Forall2 (fun kv kt => fst kv = fst kt /\ has_type (snd kv) (snd kt) = true) accv acct.

Lemma aligned_insert k v t accv acct :
  aligned accv acct -> has_type v t = true ->
  aligned (struct_val_insert k v accv) (struct_ty_insert k t acct).
Proof.
  intros H Hv. unfold struct_val_insert, struct_ty_insert. apply Forall2_app.
  - induction H as [|kv kt accv acct [Hk Ht] _ IH]; [constructor|].
    cbn [filter]. rewrite Hk. destruct (negb (ident_eqb k (fst kt))); [|exact IH].
    constructor; [split; assumption|exact IH].
  - constructor; [split; [reflexivity|exact Hv]|constructor].
Qed.

Lemma aligned_in_r accv acct kt :
  aligned accv acct -> In kt acct ->
  exists x, In (fst kt, x) accv /\ has_type x (snd kt) = true.
Proof.
  intros H. induction H as [|[k x] kt' accv acct [Hk Ht] _ IH]; intros Hin; [destruct Hin|].
  destruct Hin as [->|Hin].
  - exists x. cbn [fst snd] in *. subst k. split; [left; reflexivity|exact Ht].
  - destruct (IH Hin) as [y [Hy Hty]]. exists y. split; [right; exact Hy|exact Hty].
Qed.

Lemma aligned_has_type accv acct :
  aligned accv acct -> nodup_keys accv = true -> has_type (VStruct accv) (TStruct acct) = true.
Proof.
  intros H Hn. rewrite has_type_struct. apply forallb_forall. intros kt Hkt.
  destruct (aligned_in_r _ _ _ H Hkt) as [x [Hx Ht]].
  rewrite (assoc_nodup_in accv _ x Hn Hx). exact Ht.
Qed.

(* ================================================================= *)
(* 2. access forms against the Option-returning queries               *)
(* ================================================================= *)
Lemma all2_nth_r {A B} (f : A -> B -> bool) l1 l2 k y :
  all2 f l1 l2 = true -> nth_error l2 k = Some y ->
  exists x, nth_error l1 k = Some x /\ f x y = true.
Proof.
  revert l2 k. induction l1 as [|a l1 IH]; intros [|b l2] k H Hk; cbn [all2] in H;
    try discriminate H.
  - destruct k; discriminate Hk.
  - apply andb_true_iff in H. destruct H as [Hab H]. destruct k as [|k]; cbn [nth_error] in *.
    + injection Hk as <-. exists a. auto.
    + apply (IH l2 k H Hk).
Qed.

(* ---- x.k ---- *)
Lemma tuple_access_content k : forall T v R,
  wf_ty T = true -> content_in v T = true -> tuple_element_at k T = Some R ->
  exists vs x, v = VTup vs /\ nth_error vs k = Some x /\ content_in x R = true.
Proof.
  induction T as [T IH] using ty_size_ind. intros v R Wt Cn H.
  destruct T as [| | | | | | |ps r|e|ts|ms|e|fs]; try discriminate H.
  - cbn [tuple_element_at] in H. destruct v; try discriminate Cn.
    rewrite content_in_tup in Cn. destruct (all2_nth_r _ _ _ _ _ Cn H) as [x [Hx Cx]].
    exists vs, x. auto.
  - cbn [tuple_element_at] in H. rewrite content_in_multi in Cn.
    apply existsb_exists in Cn. destruct Cn as [m [Hm Cm]].
    pose proof (tuple_element_at_wf _ _ _ Wt H) as WR.
    destruct (query_member_upper (tuple_element_at k) ms R m WR H Hm) as [rm [Em Mr]].
    destruct (wf_multi_inv _ Wt) as [_ [_ [Wm _]]].
    destruct (IH m ltac:(szs) v rm (Wm m Hm) Cm Em) as [vs [x [-> [Hx Cx]]]].
    exists vs, x. split; [reflexivity|]. split; [exact Hx|].
    apply (content_sound rm R x Cx Mr).
Qed.

Lemma tuple_access_tag k : forall T a_ R,
  wf_ty T = true -> matches (TTup a_) T = true -> tuple_element_at k T = Some R ->
  exists a, nth_error a_ k = Some a /\ matches a R = true.
Proof.
  induction T as [T IH] using ty_size_ind. intros a_ R Wt M H.
  destruct T as [| | | | | | |ps r|e|ts|ms|e|fs]; try discriminate H.
  - cbn [tuple_element_at] in H. rewrite matches_tup in M.
    apply (all2_nth_r _ _ _ _ _ M H).
  - cbn [tuple_element_at] in H. rewrite matches_multi_r_nm in M by reflexivity.
    apply existsb_exists in M. destruct M as [m [Hm Mm]].
    pose proof (tuple_element_at_wf _ _ _ Wt H) as WR.
    destruct (query_member_upper (tuple_element_at k) ms R m WR H Hm) as [rm [Em Mr]].
    destruct (wf_multi_inv _ Wt) as [_ [_ [Wm _]]].
    destruct (IH m ltac:(szs) a_ rm (Wm m Hm) Mm Em) as [a [Ha Ma]].
    exists a. split; [exact Ha|]. apply (matches_trans a rm R Ma Mr).
Qed.

Theorem tuple_access_sound k T v R :
  wf_ty T = true -> has_type v T = true -> tuple_element_at k T = Some R ->
  exists vs x, v = VTup vs /\ nth_error vs k = Some x /\ has_type x R = true.
Proof.
  intros Wt Hv H.
  destruct (tuple_access_content k T v R Wt (has_type_content _ _ Hv) H) as [vs [x [-> [Hx Cx]]]].
  pose proof (has_type_tag _ _ Hv) as M. cbn [as_type] in M.
  destruct (tuple_access_tag k T _ R Wt M H) as [a [Ha Ma]].
  exists vs, x. split; [reflexivity|]. split; [exact Hx|].
  rewrite nth_error_map, Hx in Ha. injection Ha as <-.
  apply has_type_intro; assumption.
Qed.

(* ---- x.f ---- *)
Lemma assoc_in_key {V} k (l : list (ident * V)) v : assoc k l = Some v -> In (k, v) l.
Proof. apply assoc_in. Qed.

Lemma field_access_content f : forall T v R,
  wf_ty T = true -> content_in v T = true -> field_type f T = Some R ->
  exists fs x, v = VStruct fs /\ assoc f fs = Some x /\ content_in x R = true.
Proof.
  induction T as [T IH] using ty_size_ind. intros v R Wt Cn H.
  destruct T as [| | | | | | |ps r|e|ts|ms|e|fs]; try discriminate H.
  - cbn [field_type] in H. rewrite content_in_multi in Cn.
    apply existsb_exists in Cn. destruct Cn as [m [Hm Cm]].
    pose proof (field_type_wf _ _ _ Wt H) as WR.
    destruct (query_member_upper (field_type f) ms R m WR H Hm) as [rm [Em Mr]].
    destruct (wf_multi_inv _ Wt) as [_ [_ [Wm _]]].
    destruct (IH m ltac:(szs) v rm (Wm m Hm) Cm Em) as [vs [x [-> [Hx Cx]]]].
    exists vs, x. split; [reflexivity|]. split; [exact Hx|].
    apply (content_sound rm R x Cx Mr).
  - cbn [field_type] in H. destruct v; try discriminate Cn.
    rewrite content_in_struct in Cn. rewrite forallb_forall in Cn.
    specialize (Cn (f, R) (assoc_in _ _ _ H)). cbn [fst snd] in Cn.
    destruct (assoc f fs0) as [x|] eqn:E; [|discriminate Cn]. exists fs0, x. auto.
Qed.

Lemma field_access_tag f : forall T fa R,
  wf_ty T = true -> matches (TStruct fa) T = true -> field_type f T = Some R ->
  exists a, assoc f fa = Some a /\ matches a R = true.
Proof.
  induction T as [T IH] using ty_size_ind. intros fa R Wt M H.
  destruct T as [| | | | | | |ps r|e|ts|ms|e|fs]; try discriminate H.
  - cbn [field_type] in H. rewrite matches_multi_r_nm in M by reflexivity.
    apply existsb_exists in M. destruct M as [m [Hm Mm]].
    pose proof (field_type_wf _ _ _ Wt H) as WR.
    destruct (query_member_upper (field_type f) ms R m WR H Hm) as [rm [Em Mr]].
    destruct (wf_multi_inv _ Wt) as [_ [_ [Wm _]]].
    destruct (IH m ltac:(szs) fa rm (Wm m Hm) Mm Em) as [a [Ha Ma]].
    exists a. split; [exact Ha|]. apply (matches_trans a rm R Ma Mr).
  - cbn [field_type] in H. rewrite matches_struct in M. rewrite forallb_forall in M.
    specialize (M (f, R) (assoc_in _ _ _ H)). cbn [fst snd] in M.
    destruct (assoc f fa) as [a|]; [|discriminate M]. exists a. auto.
Qed.

Theorem field_access_sound f T v R :
  wf_ty T = true -> has_type v T = true -> field_type f T = Some R ->
  exists fs x, v = VStruct fs /\ assoc f fs = Some x /\ has_type x R = true.
Proof.
  intros Wt Hv H.
  destruct (field_access_content f T v R Wt (has_type_content _ _ Hv) H) as [fs [x [-> [Hx Cx]]]].
  pose proof (has_type_tag _ _ Hv) as M. cbn [as_type] in M.
  destruct (field_access_tag f T _ R Wt M H) as [a [Ha Ma]].
  exists fs, x. split; [reflexivity|]. split; [exact Hx|].
  rewrite assoc_map_as_type, Hx in Ha. injection Ha as <-.
  apply has_type_intro; assumption.
Qed.

(* ---- *c : the declared content type of the cell is below the static result ---- *)
Theorem deref_sound : forall T v R,
  wf_ty T = true -> content_in v T = true -> mut_element_type_spec T = Some R ->
  exists loc ct, v = VMut loc ct /\ matches ct R = true.
Proof.
  induction T as [T IH] using ty_size_ind. intros v R Wt Cn H.
  destruct T as [| | | | | | |ps r|e|ts|ms|e|fs]; try discriminate H.
  - cbn [mut_element_type_spec] in H. rewrite content_in_multi in Cn.
    apply existsb_exists in Cn. destruct Cn as [m [Hm Cm]].
    pose proof (mut_element_type_spec_wf _ _ Wt H) as WR.
    destruct (query_member_upper mut_element_type_spec ms R m WR H Hm) as [rm [Em Mr]].
    destruct (wf_multi_inv _ Wt) as [_ [_ [Wm _]]].
    destruct (IH m ltac:(szs) v rm (Wm m Hm) Cm Em) as [loc [ct [-> Mc]]].
    exists loc, ct. split; [reflexivity|]. apply (matches_trans ct rm R Mc Mr).
  - cbn [mut_element_type_spec] in H. injection H as <-. destruct v; try discriminate Cn.
    rewrite content_in_mut in Cn. exists loc, t. split; [reflexivity|].
    apply ty_eqb_matches. exact Cn.
Qed.

(* ---- x[a:b:c] stays in the static type of x ---- *)
Lemma content_in_arr_incl : forall T t vs t' vs',
  content_in (VArr t vs) T = true -> incl vs' vs -> content_in (VArr t' vs') T = true.
Proof.
  induction T as [T IH] using ty_size_ind. intros t vs t' vs' Cn Hi.
  destruct T as [| | | | | | |ps r|e|ts|ms|e|fs]; try discriminate Cn.
  - apply content_in_any.
  - rewrite content_in_arr in *. rewrite forallb_forall in *. intros x Hx. apply Cn. apply Hi. exact Hx.
  - rewrite content_in_multi in *. apply existsb_exists in Cn. destruct Cn as [m [Hm Cm]].
    apply existsb_exists. exists m. split; [exact Hm|]. apply (IH m ltac:(szs) t vs t' vs' Cm Hi).
Qed.

Lemma arr_of_tag_below t vs :
  (forall x, In x vs -> has_type x t = true) ->
  matches (as_type (arr_of vs)) (TArr t) = true.
Proof.
  intros H. unfold arr_of. cbn [as_type]. rewrite matches_arr.
  unfold concat_all. destruct vs as [|v0 vs]; [apply matches_never_l|].
  cbn [map]. rewrite fold_concat_least. apply andb_true_iff. split.
  - apply has_type_tag. apply H. left. reflexivity.
  - apply forallb_forall. intros a Ha. apply in_map_iff in Ha. destruct Ha as [x [<- Hx]].
    apply has_type_tag. apply H. right. exact Hx.
Qed.

Theorem slice_sound W T v a b c r :
  vgood W v -> has_type v T = true -> slice_exec v a b c = Ok r -> has_type r T = true.
Proof.
  intros Hg Hv H.
  destruct (slice_exec_shape _ _ _ _ _ H) as [[s [s' [-> ->]]]|[t [vs [vs' [-> [-> Hi]]]]]].
  - rewrite (has_type_string_indep s' s). exact Hv.
  - rewrite vgood_arr in Hg. destruct Hg as [_ Hg]. rewrite Forall_forall in Hg.
    apply has_type_intro.
    + apply (matches_trans _ (TArr t)); [|apply (has_type_tag _ _ Hv)].
      apply arr_of_tag_below. intros x Hx. apply (Hg x (Hi x Hx)).
    + unfold arr_of. apply (content_in_arr_incl T t vs _ vs' (has_type_content _ _ Hv) Hi).
Qed.

(* an indexable value is a string or an array *)
Lemma indexable_shape T v :
  can_be_indexed T = true -> has_type v T = true ->
  (exists s, v = VString s) \/ (exists t vs, v = VArr t vs).
Proof.
  unfold can_be_indexed. rewrite INDEXABLE_eq. intros M H.
  pose proof (has_type_content _ _ (has_type_sound _ _ _ H M)) as Cn.
  destruct v; try discriminate Cn; eauto.
Qed.

(* ---- (a, b, ..) := e : flatten_tuple on unions of tuple types ---- *)
Definition flat_step (acc c : option (list ty)) : option (list ty) :=
  match acc, c with
  | Some a, Some c => if Nat.eqb (length a) (length c) then Some (zip_with concat a c) else None
  | _, _ => None
  end.

Lemma flatten_multi ms :
  flatten_tuple (TMulti ms) =
  match map flatten_tuple ms with
  | [] => None
  | first :: rest => fold_left flat_step rest first
  end.
Proof. reflexivity. Qed.

Lemma all2_matches_refl l : forallb wf_ty l = true -> all2 matches l l = true.
Proof.
  intros H. apply all2_refl_in. rewrite forallb_forall in H. intros x Hx.
  apply matches_refl. apply H. exact Hx.
Qed.

Lemma all2_matches_trans l1 l2 l3 :
  all2 matches l1 l2 = true -> all2 matches l2 l3 = true -> all2 matches l1 l3 = true.
Proof.
  apply (all2_trans_in matches matches matches). intros x y z _ _ _. apply matches_trans.
Qed.

Lemma flat_fold_upper : forall rest a0 ts,
  fold_left flat_step rest (Some a0) = Some ts ->
  forallb wf_ty a0 = true ->
  (forall tc, In (Some tc) rest -> forallb wf_ty tc = true) ->
  all2 matches a0 ts = true /\
  forall c, In c rest -> exists tc, c = Some tc /\ all2 matches tc ts = true.
Proof.
  induction rest as [|c rest IH]; intros a0 ts H W0 Wr.
  - cbn [fold_left] in H. injection H as <-. split; [apply all2_matches_refl; exact W0|].
    intros c [].
  - cbn [fold_left] in H. destruct c as [tc|].
    2:{ cbn [flat_step] in H. unfold flat_step in H. rewrite fold_opt_step_none in H. discriminate H. }
    cbn [flat_step] in H. destruct (Nat.eqb (length a0) (length tc)) eqn:El.
    2:{ unfold flat_step in H. rewrite fold_opt_step_none in H. discriminate H. }
    apply Nat.eqb_eq in El.
    pose proof (Wr tc (or_introl eq_refl)) as Wc.
    assert (W1 : forallb wf_ty (zip_with concat a0 tc) = true).
    { rewrite forallb_forall in W0, Wc. apply forallb_zip_with. intros x y Hx Hy.
      apply concat_wf; [apply W0; exact Hx|apply Wc; exact Hy]. }
    destruct (IH _ ts H W1) as [M1 Mr]; [intros t Ht; apply Wr; right; exact Ht|].
    assert (Ma : all2 matches a0 (zip_with concat a0 tc) = true).
    { rewrite all2_flip. apply all2_zip_with_l; [exact El|]. intros x y Hx Hy.
      apply concat_upper_l. rewrite forallb_forall in W0. apply W0. exact Hx. }
    assert (Mc : all2 matches tc (zip_with concat a0 tc) = true).
    { rewrite all2_flip. apply all2_zip_with_r; [exact El|]. intros x y Hx Hy.
      apply concat_upper_r. rewrite forallb_forall in Wc. apply Wc. exact Hy. }
    split; [apply (all2_matches_trans _ _ _ Ma M1)|].
    intros c [<-|Hc].
    + exists tc. split; [reflexivity|apply (all2_matches_trans _ _ _ Mc M1)].
    + apply Mr. exact Hc.
Qed.

Lemma flatten_member_upper ms ts m :
  wf_ty (TMulti ms) = true -> flatten_tuple (TMulti ms) = Some ts -> In m ms ->
  exists tm, flatten_tuple m = Some tm /\ all2 matches tm ts = true.
Proof.
  intros Wt H Hm. rewrite flatten_multi in H.
  destruct (wf_multi_inv _ Wt) as [_ [_ [Wm _]]].
  assert (Wq : forall x tx, In x ms -> flatten_tuple x = Some tx -> forallb wf_ty tx = true).
  { intros x tx Hx Hq. apply (flatten_tuple_wf x tx (Wm x Hx) Hq). }
  destruct ms as [|m0 ms]; [destruct Hm|]. cbn [map] in H.
  destruct (flatten_tuple m0) as [a0|] eqn:E0.
  2:{ unfold flat_step in H. rewrite fold_opt_step_none in H. discriminate H. }
  destruct (flat_fold_upper _ a0 ts H) as [M0 Mr].
  - apply (Wq m0 a0); [left; reflexivity|exact E0].
  - intros tc Hc. apply in_map_iff in Hc. destruct Hc as [x [Hq Hx]].
    apply (Wq x tc); [right; exact Hx|exact Hq].
  - destruct Hm as [<-|Hm].
    + exists a0. split; [exact E0|exact M0].
    + destruct (Mr (flatten_tuple m)) as [tc [Ec Mc]]; [apply in_map; exact Hm|].
      exists tc. split; assumption.
Qed.

Lemma flatten_content : forall T v ts,
  wf_ty T = true -> content_in v T = true -> flatten_tuple T = Some ts ->
  exists vs, v = VTup vs /\ all2 content_in vs ts = true.
Proof.
  induction T as [T IH] using ty_size_ind. intros v ts Wt Cn H.
  destruct T as [| | | | | | |ps r|e|tts|ms|e|fs]; try discriminate H.
  - cbn [flatten_tuple] in H. injection H as <-. destruct v; try discriminate Cn.
    rewrite content_in_tup in Cn. eauto.
  - rewrite content_in_multi in Cn. apply existsb_exists in Cn. destruct Cn as [m [Hm Cm]].
    destruct (flatten_member_upper ms ts m Wt H Hm) as [tm [Em Mm]].
    destruct (wf_multi_inv _ Wt) as [_ [_ [Wm _]]].
    destruct (IH m ltac:(szs) v tm (Wm m Hm) Cm Em) as [vs [-> Cv]].
    exists vs. split; [reflexivity|].
    apply (all2_content_sound vs tm ts); [|exact Cv|exact Mm].
    intros x y w _ _. apply content_sound.
Qed.

Lemma flatten_tag : forall T a_ ts,
  wf_ty T = true -> matches (TTup a_) T = true -> flatten_tuple T = Some ts ->
  all2 matches a_ ts = true.
Proof.
  induction T as [T IH] using ty_size_ind. intros a_ ts Wt M H.
  destruct T as [| | | | | | |ps r|e|tts|ms|e|fs]; try discriminate H.
  - cbn [flatten_tuple] in H. injection H as <-. rewrite matches_tup in M. exact M.
  - rewrite matches_multi_r_nm in M by reflexivity. apply existsb_exists in M.
    destruct M as [m [Hm Mm]].
    destruct (flatten_member_upper ms ts m Wt H Hm) as [tm [Em Mt]].
    destruct (wf_multi_inv _ Wt) as [_ [_ [Wm _]]].
    apply (all2_matches_trans a_ tm ts); [|exact Mt].
    apply (IH m ltac:(szs) a_ tm (Wm m Hm) Mm Em).
Qed.

Theorem flatten_sound T v ts :
  wf_ty T = true -> has_type v T = true -> flatten_tuple T = Some ts ->
  exists vs, v = VTup vs /\ all2 has_type vs ts = true.
Proof.
  intros Wt Hv H.
  destruct (flatten_content T v ts Wt (has_type_content _ _ Hv) H) as [vs [-> Cv]].
  exists vs. split; [reflexivity|]. rewrite all2_has_type, Cv, andb_true_r.
  pose proof (has_type_tag _ _ Hv) as M. cbn [as_type] in M.
  apply (flatten_tag T _ ts Wt M H).
Qed.

(* ---- the checker's test before destructuring (is_tuple, tuple_len = number of names)
   guarantees what the rule asks for (flatten_tuple answers, with that many types) ---- *)
Definition len_step (acc c : option nat) : option nat :=
  match acc, c with
  | Some a, Some c => if Nat.eqb a c then Some a else None
  | _, _ => None
  end.

Lemma tuple_len_multi ms :
  tuple_len (TMulti ms) =
  match map tuple_len ms with
  | [] => None
  | first :: rest => fold_left len_step rest first
  end.
Proof. reflexivity. Qed.

Lemma len_fold_all : forall rest a n,
  fold_left len_step rest (Some a) = Some n ->
  a = n /\ forall c, In c rest -> c = Some n.
Proof.
  induction rest as [|c rest IH]; intros a n H.
  - cbn [fold_left] in H. injection H as <-. split; [reflexivity|intros c []].
  - cbn [fold_left] in H. destruct c as [k|].
    2:{ cbn [len_step] in H. unfold len_step in H. rewrite fold_opt_step_none in H. discriminate H. }
    cbn [len_step] in H. destruct (Nat.eqb a k) eqn:E.
    2:{ unfold len_step in H. rewrite fold_opt_step_none in H. discriminate H. }
    apply Nat.eqb_eq in E. subst k. destruct (IH a n H) as [-> Hr].
    split; [reflexivity|]. intros c [<-|Hc]; [reflexivity|apply Hr; exact Hc].
Qed.

Lemma zip_with_length {A B C} (f : A -> B -> C) l1 l2 :
  length l1 = length l2 -> length (zip_with f l1 l2) = length l1.
Proof.
  revert l2. induction l1 as [|x l1 IH]; intros [|y l2] H; cbn [zip_with length] in *;
    try reflexivity; try discriminate H. f_equal. apply IH. lia.
Qed.

Lemma flat_fold_some n : forall rest a0,
  length a0 = n ->
  (forall c, In c rest -> exists tc, c = Some tc /\ length tc = n) ->
  exists ts, fold_left flat_step rest (Some a0) = Some ts /\ length ts = n.
Proof.
  induction rest as [|c rest IH]; intros a0 H0 Hr.
  - exists a0. split; [reflexivity|exact H0].
  - destruct (Hr c (or_introl eq_refl)) as [tc [-> Hc]]. cbn [fold_left flat_step].
    rewrite H0, Hc, Nat.eqb_refl. apply IH.
    + rewrite zip_with_length; [exact H0|congruence].
    + intros c Hin. apply Hr. right. exact Hin.
Qed.

Theorem destruct_guard : forall T n,
  tuple_len T = Some n -> exists ts, flatten_tuple T = Some ts /\ length ts = n.
Proof.
  induction T as [T IH] using ty_size_ind. intros n H.
  destruct T as [| | | | | | |ps r|e|tts|ms|e|fs]; try discriminate H.
  - cbn [tuple_len] in H. injection H as <-. exists tts. split; reflexivity.
  - rewrite tuple_len_multi in H. rewrite flatten_multi.
    destruct ms as [|m0 ms]; [discriminate H|]. cbn [map] in *.
    destruct (tuple_len m0) as [k|] eqn:E0.
    2:{ unfold len_step in H. rewrite fold_opt_step_none in H. discriminate H. }
    destruct (len_fold_all _ k n H) as [-> Hr].
    assert (S0 : (size m0 < size (TMulti (m0 :: ms)))%nat).
    { assert (Hin : In m0 (m0 :: ms)) by (left; reflexivity). szs. }
    destruct (IH m0 S0 n E0) as [a0 [Ea0 La0]]. rewrite Ea0.
    apply flat_fold_some; [exact La0|].
    intros c Hc. apply in_map_iff in Hc. destruct Hc as [m [<- Hm]].
    assert (Sm : (size m < size (TMulti (m0 :: ms)))%nat).
    { assert (Hin : In m (m0 :: ms)) by (right; exact Hm). clear Hm. szs. }
    apply (IH m Sm n). apply Hr. apply in_map. exact Hm.
Qed.

(* SoundLemmas.v — "layer 2" of type soundness: every value-level operator,
   applied to operands that inhabit admissible static types, neither panics nor
   leaves its static result type; the guards the checker phrases with [matches]
   against the Option-returning queries it unwraps afterwards; typing of built
   values; dispatch by runtime tag. *)
From SSL.Model Require Import Base Ty Float Value Ops Seq Syntax Rt Recreate Check.
From SSL.Lemmas Require Import TyLemmas ValueLemmas.

Arguments matches : simpl never.
Arguments ty_eqb : simpl never.
Arguments rs_wrapping_pow_u64 : simpl never.

Local Open Scope Z_scope.

(* ================================================================= *)
(* 0. small facts about has_type                                      *)
(* ================================================================= *)
Lemma has_type_content v t : has_type v t = true -> content_in v t = true.
Proof. unfold has_type. intros H. apply andb_true_iff in H. apply H. Qed.

Lemma has_type_tag v t : has_type v t = true -> matches (as_type v) t = true.
Proof. unfold has_type. intros H. apply andb_true_iff in H. apply H. Qed.

Lemma has_type_intro v t :
  matches (as_type v) t = true -> content_in v t = true -> has_type v t = true.
Proof. unfold has_type. intros -> ->. reflexivity. Qed.

(* scalars: membership depends on the constructor only *)
Lemma has_type_int_indep a b t : has_type (VInt a) t = has_type (VInt b) t.
Proof. rewrite !has_type_wf by reflexivity. reflexivity. Qed.
Lemma has_type_float_indep a b t : has_type (VFloat a) t = has_type (VFloat b) t.
Proof. rewrite !has_type_wf by reflexivity. reflexivity. Qed.
Lemma has_type_bool_indep a b t : has_type (VBool a) t = has_type (VBool b) t.
Proof. rewrite !has_type_wf by reflexivity. reflexivity. Qed.
Lemma has_type_string_indep a b t : has_type (VString a) t = has_type (VString b) t.
Proof. rewrite !has_type_wf by reflexivity. reflexivity. Qed.

Lemma has_type_bool_TBool b : has_type (VBool b) TBool = true.
Proof. reflexivity. Qed.
Lemma has_type_int_TInt z : has_type (VInt z) TInt = true.
Proof. reflexivity. Qed.

(* shape inversion against the scalar types *)
Lemma in_TInt v : has_type v TInt = true -> exists z, v = VInt z.
Proof. intros H. apply has_type_content in H. destruct v; try discriminate H. eauto. Qed.
Lemma in_TFloat v : has_type v TFloat = true -> exists f, v = VFloat f.
Proof. intros H. apply has_type_content in H. destruct v; try discriminate H. eauto. Qed.
Lemma in_TString v : has_type v TString = true -> exists s, v = VString s.
Proof. intros H. apply has_type_content in H. destruct v; try discriminate H. eauto. Qed.
Lemma in_TBool v : has_type v TBool = true -> exists b, v = VBool b.
Proof. intros H. apply has_type_content in H. destruct v; try discriminate H. eauto. Qed.
Lemma in_TArr v e : has_type v (TArr e) = true -> exists t l, v = VArr t l.
Proof. intros H. apply has_type_content in H. destruct v; try discriminate H. eauto. Qed.

(* ================================================================= *)
(* 1. what the admissibility tests let through                              *)
(* ================================================================= *)
Lemma ACC_NUM_eq : ACC_NUM = TMulti [pair_ty TInt TInt; pair_ty TFloat TFloat].
Proof. vm_compute. reflexivity. Qed.
Lemma ACC_ADD_eq : ACC_ADD = TMulti [pair_ty TInt TInt; pair_ty TFloat TFloat;
                                     pair_ty TString TString; pair_ty (TArr TAny) (TArr TAny)].
Proof. vm_compute. reflexivity. Qed.
Lemma ACC_BIT_eq : ACC_BIT = TMulti [pair_ty TInt TInt; pair_ty TBool TBool].
Proof. vm_compute. reflexivity. Qed.

Lemma pair_matches a b x y : matches (pair_ty a b) (pair_ty x y) = matches a x && matches b y.
Proof. unfold pair_ty. rewrite matches_tup. cbn [all2]. rewrite andb_true_r. reflexivity. Qed.

Lemma can_be_used_int_spec l r :
  can_be_used_int l r = matches l TInt && matches r TInt.
Proof. unfold can_be_used_int, ACC_INT. apply pair_matches. Qed.

Lemma can_be_used_num_spec l r :
  can_be_used_num l r =
  (matches l TInt && matches r TInt) || (matches l TFloat && matches r TFloat).
Proof.
  unfold can_be_used_num. rewrite ACC_NUM_eq. unfold pair_ty at 1.
  rewrite matches_multi_r by reflexivity. cbn [existsb].
  fold (pair_ty l r). rewrite !pair_matches. rewrite orb_false_r. reflexivity.
Qed.

Lemma can_be_used_bit_spec l r :
  can_be_used_bit l r =
  (matches l TInt && matches r TInt) || (matches l TBool && matches r TBool).
Proof.
  unfold can_be_used_bit. rewrite ACC_BIT_eq. unfold pair_ty at 1.
  rewrite matches_multi_r by reflexivity. cbn [existsb].
  fold (pair_ty l r). rewrite !pair_matches. rewrite orb_false_r. reflexivity.
Qed.

Lemma can_be_used_add_spec l r :
  can_be_used_add l r =
  (matches l TInt && matches r TInt) || ((matches l TFloat && matches r TFloat) ||
  ((matches l TString && matches r TString) ||
   (matches l (TArr TAny) && matches r (TArr TAny)))).
Proof.
  unfold can_be_used_add. rewrite ACC_ADD_eq. unfold pair_ty at 1.
  rewrite matches_multi_r by reflexivity. cbn [existsb].
  fold (pair_ty l r). rewrite !pair_matches. rewrite orb_false_r. reflexivity.
Qed.

(* the shape of a pair of operands *)
Inductive both_int : value -> value -> Prop :=
| BothInt a b : both_int (VInt a) (VInt b).
Inductive both_float : value -> value -> Prop :=
| BothFloat a b : both_float (VFloat a) (VFloat b).
Inductive both_bool : value -> value -> Prop :=
| BothBool a b : both_bool (VBool a) (VBool b).
Inductive both_string : value -> value -> Prop :=
| BothString a b : both_string (VString a) (VString b).
Inductive both_arr : value -> value -> Prop :=
| BothArr t1 l1 t2 l2 : both_arr (VArr t1 l1) (VArr t2 l2).

Lemma shape_int v1 v2 T1 T2 :
  has_type v1 T1 = true -> has_type v2 T2 = true ->
  matches T1 TInt && matches T2 TInt = true -> both_int v1 v2.
Proof.
  intros H1 H2 M. apply andb_true_iff in M. destruct M as [M1 M2].
  destruct (in_TInt _ (has_type_sound _ _ _ H1 M1)) as [a ->].
  destruct (in_TInt _ (has_type_sound _ _ _ H2 M2)) as [b ->]. constructor.
Qed.
Lemma shape_float v1 v2 T1 T2 :
  has_type v1 T1 = true -> has_type v2 T2 = true ->
  matches T1 TFloat && matches T2 TFloat = true -> both_float v1 v2.
Proof.
  intros H1 H2 M. apply andb_true_iff in M. destruct M as [M1 M2].
  destruct (in_TFloat _ (has_type_sound _ _ _ H1 M1)) as [a ->].
  destruct (in_TFloat _ (has_type_sound _ _ _ H2 M2)) as [b ->]. constructor.
Qed.
Lemma shape_bool v1 v2 T1 T2 :
  has_type v1 T1 = true -> has_type v2 T2 = true ->
  matches T1 TBool && matches T2 TBool = true -> both_bool v1 v2.
Proof.
  intros H1 H2 M. apply andb_true_iff in M. destruct M as [M1 M2].
  destruct (in_TBool _ (has_type_sound _ _ _ H1 M1)) as [a ->].
  destruct (in_TBool _ (has_type_sound _ _ _ H2 M2)) as [b ->]. constructor.
Qed.
Lemma shape_string v1 v2 T1 T2 :
  has_type v1 T1 = true -> has_type v2 T2 = true ->
  matches T1 TString && matches T2 TString = true -> both_string v1 v2.
Proof.
  intros H1 H2 M. apply andb_true_iff in M. destruct M as [M1 M2].
  destruct (in_TString _ (has_type_sound _ _ _ H1 M1)) as [a ->].
  destruct (in_TString _ (has_type_sound _ _ _ H2 M2)) as [b ->]. constructor.
Qed.
Lemma shape_arr v1 v2 T1 T2 :
  has_type v1 T1 = true -> has_type v2 T2 = true ->
  matches T1 (TArr TAny) && matches T2 (TArr TAny) = true -> both_arr v1 v2.
Proof.
  intros H1 H2 M. apply andb_true_iff in M. destruct M as [M1 M2].
  destruct (in_TArr _ _ (has_type_sound _ _ _ H1 M1)) as [a [l ->]].
  destruct (in_TArr _ _ (has_type_sound _ _ _ H2 M2)) as [b [l' ->]]. constructor.
Qed.

Theorem num_operands v1 v2 T1 T2 :
  has_type v1 T1 = true -> has_type v2 T2 = true -> can_be_used_num T1 T2 = true ->
  both_int v1 v2 \/ both_float v1 v2.
Proof.
  intros H1 H2 C. rewrite can_be_used_num_spec in C. apply orb_true_iff in C.
  destruct C as [C|C]; [left; eapply shape_int|right; eapply shape_float]; eassumption.
Qed.

Theorem int_operands v1 v2 T1 T2 :
  has_type v1 T1 = true -> has_type v2 T2 = true -> can_be_used_int T1 T2 = true ->
  both_int v1 v2.
Proof. intros H1 H2 C. rewrite can_be_used_int_spec in C. eapply shape_int; eassumption. Qed.

Theorem bit_operands v1 v2 T1 T2 :
  has_type v1 T1 = true -> has_type v2 T2 = true -> can_be_used_bit T1 T2 = true ->
  both_int v1 v2 \/ both_bool v1 v2.
Proof.
  intros H1 H2 C. rewrite can_be_used_bit_spec in C. apply orb_true_iff in C.
  destruct C as [C|C]; [left; eapply shape_int|right; eapply shape_bool]; eassumption.
Qed.

Theorem add_operands v1 v2 T1 T2 :
  has_type v1 T1 = true -> has_type v2 T2 = true -> can_be_used_add T1 T2 = true ->
  both_int v1 v2 \/ both_float v1 v2 \/ both_string v1 v2 \/ both_arr v1 v2.
Proof.
  intros H1 H2 C. rewrite can_be_used_add_spec in C.
  apply orb_true_iff in C. destruct C as [C|C]; [left; eapply shape_int; eassumption|].
  apply orb_true_iff in C. destruct C as [C|C]; [right; left; eapply shape_float; eassumption|].
  apply orb_true_iff in C. destruct C as [C|C]; [right; right; left; eapply shape_string; eassumption|].
  right; right; right; eapply shape_arr; eassumption.
Qed.

(* the same, spelled with existentials *)
Theorem num_operands_ex v1 v2 T1 T2 :
  has_type v1 T1 = true -> has_type v2 T2 = true -> can_be_used_num T1 T2 = true ->
  (exists a b, v1 = VInt a /\ v2 = VInt b) \/ (exists a b, v1 = VFloat a /\ v2 = VFloat b).
Proof. intros H1 H2 C. destruct (num_operands _ _ _ _ H1 H2 C) as [[a b]|[a b]]; eauto. Qed.
Theorem int_operands_ex v1 v2 T1 T2 :
  has_type v1 T1 = true -> has_type v2 T2 = true -> can_be_used_int T1 T2 = true ->
  exists a b, v1 = VInt a /\ v2 = VInt b.
Proof. intros H1 H2 C. destruct (int_operands _ _ _ _ H1 H2 C) as [a b]; eauto. Qed.
Theorem bit_operands_ex v1 v2 T1 T2 :
  has_type v1 T1 = true -> has_type v2 T2 = true -> can_be_used_bit T1 T2 = true ->
  (exists a b, v1 = VInt a /\ v2 = VInt b) \/ (exists a b, v1 = VBool a /\ v2 = VBool b).
Proof. intros H1 H2 C. destruct (bit_operands _ _ _ _ H1 H2 C) as [[a b]|[a b]]; eauto. Qed.
Theorem add_operands_ex v1 v2 T1 T2 :
  has_type v1 T1 = true -> has_type v2 T2 = true -> can_be_used_add T1 T2 = true ->
  (exists a b, v1 = VInt a /\ v2 = VInt b) \/ (exists a b, v1 = VFloat a /\ v2 = VFloat b) \/
  (exists a b, v1 = VString a /\ v2 = VString b) \/
  (exists t1 l1 t2 l2, v1 = VArr t1 l1 /\ v2 = VArr t2 l2).
Proof.
  intros H1 H2 C.
  destruct (add_operands _ _ _ _ H1 H2 C) as [[a b]|[[a b]|[[a b]|[t1 l1 t2 l2]]]]; eauto 10.
Qed.

(* ================================================================= *)
(* 2. fold_concat: the reduce(concat) over the members of a union      *)
(* ================================================================= *)
Lemma fold_concat_some t0 ts :
  fold_concat (Some t0 :: map Some ts) = Some (fold_left concat ts t0).
Proof.
  unfold fold_concat, fold_opt. revert t0.
  induction ts as [|c ts IH]; intros t0; cbn [map fold_left]; [reflexivity|apply IH].
Qed.

Lemma fold_concat_inv l r : fold_concat l = Some r ->
  exists t0 ts, l = Some t0 :: map Some ts /\ r = fold_left concat ts t0.
Proof.
  unfold fold_concat, fold_opt. destruct l as [|first rest]; [discriminate|].
  revert first. induction rest as [|c rest IH]; intros first; cbn [fold_left].
  - intros ->. exists r, []. split; reflexivity.
  - destruct first as [a|]; [|rewrite fold_opt_step_none; discriminate].
    destruct c as [c|]; [|rewrite fold_opt_step_none; discriminate].
    intros H. destruct (IH _ H) as [t0 [ts [E ->]]].
    injection E as <- ->. exists a, (c :: ts). split; reflexivity.
Qed.

Lemma fold_concat_all_some l r t : fold_concat l = Some r -> In t l -> t <> None.
Proof.
  intros H Hin. destruct (fold_concat_inv _ _ H) as [t0 [ts [-> _]]].
  destruct Hin as [<-|Hin]; [discriminate|].
  apply in_map_iff in Hin. destruct Hin as [x [<- _]]. discriminate.
Qed.

Lemma fold_concat_upper l r t :
  wf_ty r = true -> fold_concat l = Some r -> In (Some t) l -> matches t r = true.
Proof.
  intros W H Hin. destruct (fold_concat_inv _ _ H) as [t0 [ts [-> ->]]].
  pose proof (matches_refl _ W) as R. rewrite fold_concat_least in R.
  apply andb_true_iff in R. destruct R as [R0 Rs].
  destruct Hin as [E|Hin]; [injection E as <-; exact R0|].
  apply in_map_iff in Hin. destruct Hin as [x [E Hx]]. injection E as ->.
  rewrite forallb_forall in Rs. apply Rs. exact Hx.
Qed.

Lemma map_all_some {A} (q : A -> option ty) ms :
  (forall m, In m ms -> q m <> None) -> exists ts, map q ms = map Some ts.
Proof.
  induction ms as [|m ms IH]; intros H; [exists []; reflexivity|].
  destruct IH as [ts E]; [intros x Hx; apply H; right; exact Hx|].
  destruct (q m) as [t|] eqn:Eq; [|exfalso; apply (H m); [left; reflexivity|exact Eq]].
  exists (t :: ts). cbn [map]. rewrite Eq, E. reflexivity.
Qed.

Lemma fold_concat_map_some {A} (q : A -> option ty) ms :
  ms <> [] -> (forall m, In m ms -> q m <> None) -> fold_concat (map q ms) <> None.
Proof.
  intros Hne H. destruct (map_all_some q ms H) as [ts E]. rewrite E.
  destruct ts as [|t0 ts]; [destruct ms; [congruence|discriminate E]|].
  cbn [map]. rewrite fold_concat_some. discriminate.
Qed.

Lemma fold_concat_map_none {A} (q : A -> option ty) ms m :
  In m ms -> q m = None -> fold_concat (map q ms) = None.
Proof.
  intros Hin Hq. destruct (fold_concat (map q ms)) as [r|] eqn:E; [|reflexivity].
  exfalso. apply (fold_concat_all_some _ _ (q m) E); [apply in_map; exact Hin|exact Hq].
Qed.

(* a query distributes over a union: every member answers below the whole *)
Lemma query_member_upper (q : ty -> option ty) ms r m :
  wf_ty r = true -> fold_concat (map q ms) = Some r -> In m ms ->
  exists rm, q m = Some rm /\ matches rm r = true.
Proof.
  intros W H Hin. destruct (q m) as [rm|] eqn:E.
  - exists rm. split; [reflexivity|]. apply (fold_concat_upper _ _ _ W H).
    rewrite <- E. apply in_map. exact Hin.
  - rewrite (fold_concat_map_none q ms m Hin E) in H. discriminate.
Qed.

(* ================================================================= *)
(* 3. the shape of a well-formed type below a given one                *)
(* ================================================================= *)
Ltac mfalse H :=
  rewrite matches_unfold in H; cbn beta iota in H;
  try (rewrite ty_eqb_unfold in H; cbn beta iota in H); discriminate H.

Lemma wf_members T U :
  wf_ty T = true -> matches T U = true -> matches TAny U = false ->
  T = TNever \/ simple T = true \/
  (exists ms, T = TMulti ms /\ (2 <= length ms)%nat /\
     forall m, In m ms -> simple m = true /\ wf_ty m = true /\ matches m U = true).
Proof.
  intros W M A.
  destruct T as [| | | | | | |ps r|e|ts|ms|e|fs];
    try (right; left; reflexivity); try (left; reflexivity); try congruence.
  right. right. exists ms. split; [reflexivity|].
  destruct (wf_multi_inv _ W) as [L [S [Wm _]]]. split; [exact L|].
  rewrite matches_multi_l, forallb_forall in M.
  intros m Hm. auto.
Qed.

Lemma matches_simple_kind m X :
  simple m = true -> simple X = true -> matches m X = true -> tkind m = tkind X.
Proof.
  intros Sm SX M.
  destruct m; try discriminate Sm; destruct X; try discriminate SX; try reflexivity; mfalse M.
Qed.

(* nothing with an element type is below a scalar type *)
Lemma below_scalar_no_elem X T :
  (X = TInt \/ X = TFloat \/ X = TString \/ X = TBool) ->
  matches T X = true -> element_type T = None.
Proof.
  intros HX. induction T as [T IH] using ty_size_ind. intros M.
  destruct T as [| | | | | | |ps r|e|ts|ms|e|fs]; try reflexivity.
  - exfalso. destruct HX as [ -> | [ -> | [ -> | -> ]]]; mfalse M.
  - cbn [element_type]. destruct ms as [|m0 rest]; [reflexivity|].
    cbn [map]. unfold fold_concat, fold_opt.
    rewrite matches_multi_l in M. cbn [forallb] in M. apply andb_true_iff in M.
    destruct M as [M0 _]. rewrite (IH m0); [apply fold_opt_step_none| |exact M0].
    cbn [size sizes_with fold_right]. lia.
Qed.

(* a well-formed inhabited-or-not type below `[any]`: its element type exists
   unless it is `!`, and the type is below the array of it *)
Lemma below_arr_simple m :
  simple m = true -> matches m (TArr TAny) = true -> exists e, m = TArr e.
Proof.
  intros S M. pose proof (matches_simple_kind m (TArr TAny) S eq_refl M) as K.
  destruct m; try discriminate K. eauto.
Qed.

Lemma element_type_guard T :
  wf_ty T = true -> matches T (TArr TAny) = true -> T <> TNever -> element_type T <> None.
Proof.
  intros W M N. destruct (wf_members T _ W M eq_refl) as [->|[S|[ms [-> [L H]]]]]; [congruence| |].
  - destruct (below_arr_simple T S M) as [e ->]. discriminate.
  - cbn [element_type]. apply fold_concat_map_some.
    + destruct ms; [cbn in L; lia|discriminate].
    + intros m Hm. destruct (H m Hm) as [S [_ Mm]].
      destruct (below_arr_simple m S Mm) as [e ->]. discriminate.
Qed.

Lemma element_type_upper T e :
  wf_ty T = true -> element_type T = Some e -> matches T (TArr e) = true.
Proof.
  revert e. induction T as [T IH] using ty_size_ind. intros e W H.
  destruct T as [| | | | | | |ps r|e0|ts|ms|e0|fs]; try discriminate H.
  - cbn [element_type] in H. injection H as <-. apply matches_refl. exact W.
  - cbn [element_type] in H. rewrite matches_multi_l. apply forallb_forall. intros m Hm.
    pose proof (element_type_wf _ _ W H) as We.
    destruct (query_member_upper element_type ms e m We H Hm) as [rm [Em Mr]].
    destruct (wf_multi_inv _ W) as [_ [_ [Wm _]]].
    apply (matches_trans _ (TArr rm)).
    + apply IH; [szs|apply Wm; exact Hm|exact Em].
    + rewrite matches_arr. exact Mr.
Qed.

(* ================================================================= *)
(* 4. A1 — binary operators                                           *)
(* ================================================================= *)
Definition pure_op (o : binop) : bool :=
  match o with
  | Add | Subtract | Multiply | Divide | Modulo | Pow
  | Greater | GreaterOrEqual | Lower | LowerOrEqual
  | BitwiseAnd | BitwiseOr | Xor | LShift | RShift | Equal | NotEqual => true
  | _ => false
  end.

(* the documented error of each operator *)
Definition doc_error (o : binop) (e : Z) : Prop :=
  match o with
  | Divide => e = E_ZeroDivision
  | Modulo => e = E_ZeroModulo
  | Pow => e = E_NegativeExponent
  | LShift | RShift => e = E_OverflowShift
  | _ => False
  end.

(* the admissibility test the checker applies to [o] (Check.can_be_used) *)
Definition admissible (o : binop) (l r : ty) : bool :=
  match o with
  | Add => can_be_used_add l r
  | Subtract | Multiply | Divide | Pow | Lower | LowerOrEqual | Greater | GreaterOrEqual =>
      can_be_used_num l r
  | LShift | RShift | Modulo => can_be_used_int l r
  | BitwiseAnd | BitwiseOr | Xor => can_be_used_bit l r
  | Equal | NotEqual => true
  | _ => false
  end.

Lemma admissible_is_can_be_used o l r :
  pure_op o = true -> can_be_used o l r = Ok (admissible o l r).
Proof. destruct o; try discriminate; reflexivity. Qed.

Section WithPowf.
Variable powf : fbits -> fbits -> fbits.

Definition op_ok (o : binop) (v1 v2 : value) (R : ty) : Prop :=
  op_exec powf o v1 v2 <> Panic /\
  op_exec powf o v1 v2 <> OutOfFuel /\
  (forall v, op_exec powf o v1 v2 = Ok v -> has_type v R = true) /\
  (forall e, op_exec powf o v1 v2 = Err e -> doc_error o e).

Ltac ok_split := unfold op_ok; split; [discriminate|split; [discriminate|split]].
Ltac ok_val :=
  ok_split;
  [ let v := fresh "v" in let E := fresh "E" in
    intros v E; injection E as <-;
    first [ reflexivity
          | erewrite has_type_int_indep; eassumption
          | erewrite has_type_float_indep; eassumption
          | erewrite has_type_bool_indep; eassumption
          | erewrite has_type_string_indep; eassumption ]
  | let e := fresh "e" in let E := fresh "E" in intros e E; discriminate E ].
Ltac ok_err :=
  ok_split;
  [ let v := fresh "v" in let E := fresh "E" in intros v E; discriminate E
  | let e := fresh "e" in let E := fresh "E" in
    intros e E; injection E as <-; reflexivity ].

Definition arith_op (o : binop) : bool :=
  match o with Subtract | Multiply | Divide | Pow => true | _ => false end.
Definition cmp_op (o : binop) : bool :=
  match o with Greater | GreaterOrEqual | Lower | LowerOrEqual => true | _ => false end.
Definition intonly_op (o : binop) : bool :=
  match o with LShift | RShift | Modulo => true | _ => false end.
Definition bit_op (o : binop) : bool :=
  match o with BitwiseAnd | BitwiseOr | Xor => true | _ => false end.
Definition eq_op (o : binop) : bool :=
  match o with Equal | NotEqual => true | _ => false end.

Lemma arith_int_ok o v1 v2 T1 :
  arith_op o = true -> both_int v1 v2 -> has_type v1 T1 = true -> op_ok o v1 v2 T1.
Proof.
  intros Ho [a b] H1. destruct o; try discriminate Ho; unfold op_ok; cbn [op_exec].
  - ok_val.
  - ok_val.
  - destruct b; [ok_err|ok_val|ok_val].
  - destruct (b <? 0); [ok_err|ok_val].
Qed.

Lemma arith_float_ok o v1 v2 T1 :
  arith_op o = true -> both_float v1 v2 -> has_type v1 T1 = true -> op_ok o v1 v2 T1.
Proof.
  intros Ho [a b] H1. destruct o; try discriminate Ho; unfold op_ok; cbn [op_exec]; ok_val.
Qed.

Theorem arith_sound o v1 v2 T1 T2 :
  arith_op o = true ->
  has_type v1 T1 = true -> has_type v2 T2 = true -> can_be_used_num T1 T2 = true ->
  op_ok o v1 v2 T1.
Proof.
  intros Ho H1 H2 C. destruct (num_operands _ _ _ _ H1 H2 C) as [S|S].
  - apply arith_int_ok; assumption.
  - apply arith_float_ok; assumption.
Qed.

Theorem cmp_sound o v1 v2 T1 T2 :
  cmp_op o = true ->
  has_type v1 T1 = true -> has_type v2 T2 = true -> can_be_used_num T1 T2 = true ->
  op_ok o v1 v2 TBool.
Proof.
  intros Ho H1 H2 C.
  destruct (num_operands _ _ _ _ H1 H2 C) as [[a b]|[a b]];
    destruct o; try discriminate Ho; unfold op_ok; cbn [op_exec]; ok_val.
Qed.

Theorem intonly_sound o v1 v2 T1 T2 :
  intonly_op o = true ->
  has_type v1 T1 = true -> has_type v2 T2 = true -> can_be_used_int T1 T2 = true ->
  op_ok o v1 v2 TInt.
Proof.
  intros Ho H1 H2 C. destruct (int_operands _ _ _ _ H1 H2 C) as [a b].
  destruct o; try discriminate Ho; unfold op_ok; cbn [op_exec].
  - destruct b; [ok_err|ok_val|ok_val].
  - destruct ((0 <=? b) && (b <=? 63)); [ok_val|ok_err].
  - destruct ((0 <=? b) && (b <=? 63)); [ok_val|ok_err].
Qed.

Theorem bit_sound o v1 v2 T1 T2 :
  bit_op o = true ->
  has_type v1 T1 = true -> has_type v2 T2 = true -> can_be_used_bit T1 T2 = true ->
  op_ok o v1 v2 T1.
Proof.
  intros Ho H1 H2 C.
  pose proof (bit_operands _ _ _ _ H1 H2 C) as S.
  destruct S as [S|S]; destruct S as [a b];
    destruct o; try discriminate Ho; unfold op_ok; cbn [op_exec]; ok_val.
Qed.

Theorem eq_sound o v1 v2 :
  eq_op o = true -> op_ok o v1 v2 TBool.
Proof. intros Ho. destruct o; try discriminate Ho; unfold op_ok; cbn [op_exec]; ok_val. Qed.

(* ---- Add ---- *)
Lemma add_scalar_rt X T1 T2 :
  (X = TInt \/ X = TFloat \/ X = TString \/ X = TBool) ->
  matches T1 X = true -> add_return_type T1 T2 = Ok T1.
Proof.
  intros HX M. unfold add_return_type. rewrite (below_scalar_no_elem X T1 HX M). reflexivity.
Qed.

Lemma has_type_arr_elem v T e :
  wf_ty T = true -> has_type v T = true -> element_type T = Some e ->
  has_type v (TArr e) = true.
Proof.
  intros W H E. apply (has_type_sound _ _ _ H). apply element_type_upper; assumption.
Qed.

Lemma array_concat_typed t1 l1 t2 l2 e1 e2 :
  wf_ty e1 = true -> wf_ty e2 = true ->
  has_type (VArr t1 l1) (TArr e1) = true -> has_type (VArr t2 l2) (TArr e2) = true ->
  has_type (array_concat t1 l1 t2 l2) (TArr (concat e1 e2)) = true.
Proof.
  intros W1 W2 H1 H2.
  assert (U1 : matches (TArr e1) (TArr (concat e1 e2)) = true)
    by (rewrite matches_arr; apply concat_upper_l; exact W1).
  assert (U2 : matches (TArr e2) (TArr (concat e1 e2)) = true)
    by (rewrite matches_arr; apply concat_upper_r; exact W2).
  pose proof (has_type_sound _ _ _ H1 U1) as G1.
  pose proof (has_type_sound _ _ _ H2 U2) as G2.
  unfold array_concat. destruct l1 as [|x l1]; [exact G2|].
  destruct l2 as [|y l2]; [exact G1|].
  apply has_type_intro.
  - cbn [as_type]. rewrite matches_arr, concat_least.
    apply has_type_tag in G1, G2. cbn [as_type] in G1, G2. rewrite matches_arr in G1, G2.
    rewrite G1, G2. reflexivity.
  - apply has_type_content in G1, G2. rewrite content_in_arr in *.
    rewrite forallb_app, G1, G2. reflexivity.
Qed.

Theorem add_sound v1 v2 T1 T2 R :
  wf_ty T1 = true -> wf_ty T2 = true ->
  has_type v1 T1 = true -> has_type v2 T2 = true -> can_be_used_add T1 T2 = true ->
  add_return_type T1 T2 = Ok R ->
  op_ok Add v1 v2 R.
Proof.
  intros W1 W2 H1 H2 C HR. rewrite can_be_used_add_spec in C.
  apply orb_true_iff in C. destruct C as [C|C].
  { destruct (shape_int _ _ _ _ H1 H2 C) as [a b]. apply andb_true_iff in C. destruct C as [C _].
    rewrite (add_scalar_rt TInt) in HR by auto. injection HR as <-. unfold op_ok; cbn [op_exec]. ok_val. }
  apply orb_true_iff in C. destruct C as [C|C].
  { destruct (shape_float _ _ _ _ H1 H2 C) as [a b]. apply andb_true_iff in C. destruct C as [C _].
    rewrite (add_scalar_rt TFloat) in HR by auto. injection HR as <-. unfold op_ok; cbn [op_exec]. ok_val. }
  apply orb_true_iff in C. destruct C as [C|C].
  { destruct (shape_string _ _ _ _ H1 H2 C) as [a b]. apply andb_true_iff in C. destruct C as [C _].
    rewrite (add_scalar_rt TString) in HR by auto. injection HR as <-. unfold op_ok; cbn [op_exec]. ok_val. }
  destruct (shape_arr _ _ _ _ H1 H2 C) as [t1 l1 t2 l2].
  apply andb_true_iff in C. destruct C as [C1 C2].
  unfold add_return_type in HR.
  destruct (element_type T1) as [e1|] eqn:E1.
  2:{ exfalso. apply (element_type_guard T1 W1 C1); [|exact E1].
      intros ->. rewrite has_type_never in H1. discriminate. }
  destruct (element_type T2) as [e2|] eqn:E2.
  2:{ exfalso. apply (element_type_guard T2 W2 C2); [|exact E2].
      intros ->. rewrite has_type_never in H2. discriminate. }
  injection HR as <-.
  unfold op_ok; cbn [op_exec]. ok_split; [|intros e E; discriminate E].
  intros v E. injection E as <-.
  apply array_concat_typed.
  - apply (element_type_wf _ _ W1 E1).
  - apply (element_type_wf _ _ W2 E2).
  - apply (has_type_arr_elem _ T1); assumption.
  - apply (has_type_arr_elem _ T2); assumption.
Qed.

(* the static result type of `+` as it was computed before the repair:
   `element_type(rhs).unwrap()` *)
Definition add_return_type_unwrap (l r : ty) : outcome ty :=
  match element_type l with
  | None => Ok l
  | Some le => match element_type r with
               | Some re => Ok (TArr (concat le re))
               | None => Panic
               end
  end.

(* with inhabited operand types both versions exist and agree *)
Theorem add_rt_defined v1 v2 T1 T2 :
  wf_ty T1 = true -> wf_ty T2 = true ->
  has_type v1 T1 = true -> has_type v2 T2 = true -> can_be_used_add T1 T2 = true ->
  exists R, add_return_type T1 T2 = Ok R /\ add_return_type_unwrap T1 T2 = Ok R.
Proof.
  intros W1 W2 H1 H2 C. unfold add_return_type, add_return_type_unwrap.
  destruct (element_type T1) as [e1|] eqn:E1; [|eauto].
  destruct (element_type T2) as [e2|] eqn:E2; [eauto|]. exfalso.
  rewrite can_be_used_add_spec in C.
  assert (N1 : forall X, (X = TInt \/ X = TFloat \/ X = TString \/ X = TBool) ->
                         matches T1 X = true -> False).
  { intros X HX M. rewrite (below_scalar_no_elem X T1 HX M) in E1. discriminate. }
  apply orb_true_iff in C. destruct C as [C|C].
  { apply andb_true_iff in C. destruct C as [C _]. apply (N1 TInt); auto. }
  apply orb_true_iff in C. destruct C as [C|C].
  { apply andb_true_iff in C. destruct C as [C _]. apply (N1 TFloat); auto. }
  apply orb_true_iff in C. destruct C as [C|C].
  { apply andb_true_iff in C. destruct C as [C _]. apply (N1 TString); auto. }
  apply andb_true_iff in C. destruct C as [_ C2].
  apply (element_type_guard T2 W2 C2); [|exact E2].
  intros ->. rewrite has_type_never in H2. discriminate.
Qed.

(* the defect (repaired since: the model's [add_return_type] now reads
   `unwrap_or(!)`): an `!`-typed right operand passes the admissibility test of
   `+` and the result type computation then unwrapped None *)
Theorem add_rt_never_refuted :
  can_be_used Add (TArr TInt) TNever = Ok true /\
  add_return_type_unwrap (TArr TInt) TNever = Panic.
Proof. split; vm_compute; reflexivity. Qed.

(* the repaired computation never panics *)
Theorem add_rt_total l r : exists R, add_return_type l r = Ok R.
Proof.
  unfold add_return_type. destruct (element_type l); [destruct (element_type r)|]; eauto.
Qed.

(* ---- all pure operators at once ---- *)
Theorem binop_sound o T1 T2 R v1 v2 :
  pure_op o = true ->
  wf_ty T1 = true -> wf_ty T2 = true ->
  has_type v1 T1 = true -> has_type v2 T2 = true ->
  can_be_used o T1 T2 = Ok true ->
  bin_rt o T1 T2 = Ok R ->
  op_ok o v1 v2 R.
Proof.
  intros Hp W1 W2 H1 H2 C HR. rewrite (admissible_is_can_be_used _ _ _ Hp) in C.
  injection C as C.
  destruct o; try discriminate Hp; cbn [admissible] in C; cbn [bin_rt] in HR;
    try (injection HR as <-).
  - apply (add_sound _ _ T1 T2); assumption.
  - apply (arith_sound _ _ _ T1 T2); auto.
  - apply (arith_sound _ _ _ T1 T2); auto.
  - apply (arith_sound _ _ _ T1 T2); auto.
  - apply (intonly_sound _ _ _ T1 T2); auto.
  - apply (arith_sound _ _ _ T1 T2); auto.
  - apply eq_sound; reflexivity.
  - apply eq_sound; reflexivity.
  - apply (cmp_sound _ _ _ T1 T2); auto.
  - apply (cmp_sound _ _ _ T1 T2); auto.
  - apply (cmp_sound _ _ _ T1 T2); auto.
  - apply (cmp_sound _ _ _ T1 T2); auto.
  - apply (bit_sound _ _ _ T1 T2); auto.
  - apply (bit_sound _ _ _ T1 T2); auto.
  - apply (bit_sound _ _ _ T1 T2); auto.
  - apply (intonly_sound _ _ _ T1 T2); auto.
  - apply (intonly_sound _ _ _ T1 T2); auto.
Qed.

Theorem binop_rt_defined o T1 T2 v1 v2 :
  pure_op o = true ->
  wf_ty T1 = true -> wf_ty T2 = true ->
  has_type v1 T1 = true -> has_type v2 T2 = true ->
  can_be_used o T1 T2 = Ok true ->
  exists R, bin_rt o T1 T2 = Ok R.
Proof.
  intros Hp W1 W2 H1 H2 C. rewrite (admissible_is_can_be_used _ _ _ Hp) in C.
  injection C as C.
  destruct o; try discriminate Hp; cbn [bin_rt]; eauto.
  destruct (add_rt_defined v1 v2 T1 T2 W1 W2 H1 H2 C) as [R [HR _]]. eauto.
Qed.

(* no hypothesis on the types beyond admissibility is needed away from `+` *)
Theorem binop_sound_nowf o T1 T2 R v1 v2 :
  pure_op o = true -> o <> Add ->
  has_type v1 T1 = true -> has_type v2 T2 = true ->
  can_be_used o T1 T2 = Ok true ->
  bin_rt o T1 T2 = Ok R ->
  op_ok o v1 v2 R.
Proof.
  intros Hp Hna H1 H2 C HR. rewrite (admissible_is_can_be_used _ _ _ Hp) in C.
  injection C as C.
  destruct o; try discriminate Hp; try congruence; cbn [admissible] in C; cbn [bin_rt] in HR;
    injection HR as <-;
    first [ apply eq_sound; reflexivity
          | apply (arith_sound _ _ _ T1 T2); auto; fail
          | apply (intonly_sound _ _ _ T1 T2); auto; fail
          | apply (cmp_sound _ _ _ T1 T2); auto; fail
          | apply (bit_sound _ _ _ T1 T2); auto ].
Qed.

End WithPowf.

(* ================================================================= *)
(* 5. A2 — prefix operators                                           *)
(* ================================================================= *)
Theorem not_sound T v :
  matches T ACC_NOT = true -> has_type v T = true ->
  exists r, unop_exec UNot v = Ok r /\ has_type r T = true.
Proof.
  intros M H. pose proof (has_type_content _ _ (has_type_sound _ _ _ H M)) as Cn.
  destruct v; try discriminate Cn; cbn [unop_exec]; eexists; (split; [reflexivity|]).
  - erewrite has_type_bool_indep. eassumption.
  - erewrite has_type_int_indep. eassumption.
Qed.

Theorem neg_sound T v :
  matches T ACC_NEG = true -> has_type v T = true ->
  exists r, unop_exec UUnaryMinus v = Ok r /\ has_type r T = true.
Proof.
  intros M H. pose proof (has_type_content _ _ (has_type_sound _ _ _ H M)) as Cn.
  destruct v; try discriminate Cn; cbn [unop_exec]; eexists; (split; [reflexivity|]).
  - erewrite has_type_int_indep. eassumption.
  - erewrite has_type_float_indep. eassumption.
Qed.

Theorem unop_sound u T R v :
  (u = UNot /\ matches T ACC_NOT = true) \/ (u = UUnaryMinus /\ matches T ACC_NEG = true) ->
  has_type v T = true -> un_rt u T = Ok R ->
  exists r, unop_exec u v = Ok r /\ has_type r R = true.
Proof.
  intros [[-> M]|[-> M]] H HR; cbn [un_rt] in HR; injection HR as <-.
  - apply not_sound; assumption.
  - apply neg_sound; assumption.
Qed.

(* ================================================================= *)
(* 6. A3 — indexing                                                   *)
(* ================================================================= *)
Lemma INDEXABLE_eq : concat TString (TArr TAny) = TMulti [TString; TArr TAny].
Proof. vm_compute. reflexivity. Qed.

(* hereditarily: the elements of every array inhabit its stored element type
   (by tag and by contents).  Every array the interpreter builds is such
   (see [vwf_arr_of], [vwf_array_concat], [vwf_repeat_value]). *)
Fixpoint vwf (v : value) : bool :=
  match v with
  | VArr t vs => forallb (fun x => has_type x t && vwf x) vs
  | VTup vs => forallb vwf vs
  | VStruct fs => forallb (fun kv => vwf (snd kv)) fs
  | _ => true
  end.

(* the shallow part that indexing needs *)
Definition elems_typed (v : value) : bool :=
  match v with
  | VArr t vs => forallb (fun x => has_type x t) vs
  | _ => true
  end.

Lemma vwf_elems_typed v : vwf v = true -> elems_typed v = true.
Proof.
  destruct v; try reflexivity. cbn [vwf elems_typed]. intros H.
  rewrite forallb_forall in *. intros x Hx. specialize (H x Hx).
  apply andb_true_iff in H. apply H.
Qed.

Theorem at_no_panic T v i :
  can_be_indexed T = true -> has_type v T = true -> has_type i TInt = true ->
  at_exec v i <> Panic /\ at_exec v i <> OutOfFuel /\
  (forall e, at_exec v i = Err e -> e = E_IndexOutOfBounds).
Proof.
  unfold can_be_indexed. rewrite INDEXABLE_eq. intros M H Hi.
  destruct (in_TInt _ Hi) as [z ->].
  pose proof (has_type_content _ _ (has_type_sound _ _ _ H M)) as Cn.
  destruct v; try discriminate Cn; cbn [at_exec].
  - destruct (at_index (zlen s) z) as [k|]; [destruct (nth_error s k)|];
      repeat split; try discriminate; intros e E; injection E as <-; reflexivity.
  - destruct (at_index (zlen vs) z) as [k|]; [destruct (nth_error vs k)|];
      repeat split; try discriminate; intros e E; injection E as <-; reflexivity.
Qed.

Lemma at_exec_arr_in t vs i x : at_exec (VArr t vs) i = Ok x -> In x vs.
Proof.
  destruct i; try discriminate. cbn [at_exec].
  destruct (at_index (zlen vs) z) as [k|]; [|discriminate].
  destruct (nth_error vs k) eqn:E; [|discriminate].
  intros H. injection H as <-. apply (nth_error_In _ _ E).
Qed.

Lemma at_exec_string s i x : at_exec (VString s) i = Ok x -> exists c, x = VString [c].
Proof.
  destruct i; try discriminate. cbn [at_exec].
  destruct (at_index (zlen s) z) as [k|]; [|discriminate].
  destruct (nth_error s k) eqn:E; [|discriminate].
  intros H. injection H as <-. eauto.
Qed.

Lemma index_result_arr T t R :
  wf_ty T = true -> matches (TArr t) T = true -> index_result T = Some R ->
  matches t R = true.
Proof.
  revert R. induction T as [T IH] using ty_size_ind. intros R W M H.
  destruct T as [| | | | | | |ps r|e|ts|ms|e|fs]; try discriminate H.
  - mfalse M.
  - cbn [index_result] in H. injection H as <-. rewrite matches_arr in M. exact M.
  - cbn [index_result] in H. rewrite matches_multi_r in M by reflexivity.
    apply existsb_exists in M. destruct M as [m [Hm Mm]].
    pose proof (index_result_wf _ _ W H) as WR.
    destruct (query_member_upper index_result ms R m WR H Hm) as [rm [Em Mr]].
    destruct (wf_multi_inv _ W) as [_ [_ [Wm _]]].
    apply (matches_trans _ rm); [|exact Mr].
    apply (IH m); [szs|apply Wm; exact Hm|exact Mm|exact Em].
Qed.

Lemma index_result_string T R :
  wf_ty T = true -> matches TString T = true -> index_result T = Some R ->
  matches TString R = true.
Proof.
  revert R. induction T as [T IH] using ty_size_ind. intros R W M H.
  destruct T as [| | | | | | |ps r|e|ts|ms|e|fs]; try discriminate H.
  - cbn [index_result] in H. injection H as <-. reflexivity.
  - mfalse M.
  - cbn [index_result] in H. rewrite matches_multi_r in M by reflexivity.
    apply existsb_exists in M. destruct M as [m [Hm Mm]].
    pose proof (index_result_wf _ _ W H) as WR.
    destruct (query_member_upper index_result ms R m WR H Hm) as [rm [Em Mr]].
    destruct (wf_multi_inv _ W) as [_ [_ [Wm _]]].
    apply (matches_trans _ rm); [|exact Mr].
    apply (IH m); [szs|apply Wm; exact Hm|exact Mm|exact Em].
Qed.

(* by contents alone, no hypothesis on the value *)
Lemma index_result_content T t vs R :
  wf_ty T = true -> content_in (VArr t vs) T = true -> index_result T = Some R ->
  forallb (fun x => content_in x R) vs = true.
Proof.
  revert R. induction T as [T IH] using ty_size_ind. intros R W Cn H.
  destruct T as [| | | | | | |ps r|e|ts|ms|e|fs]; try discriminate H.
  - discriminate Cn.
  - cbn [index_result] in H. injection H as <-. rewrite content_in_arr in Cn. exact Cn.
  - cbn [index_result] in H. rewrite content_in_multi in Cn.
    apply existsb_exists in Cn. destruct Cn as [m [Hm Cm]].
    pose proof (index_result_wf _ _ W H) as WR.
    destruct (query_member_upper index_result ms R m WR H Hm) as [rm [Em Mr]].
    destruct (wf_multi_inv _ W) as [_ [_ [Wm _]]].
    assert (G : forallb (fun x => content_in x rm) vs = true)
      by (apply (IH m); [szs|apply Wm; exact Hm|exact Cm|exact Em]).
    rewrite forallb_forall in *. intros x Hx.
    apply (content_sound rm R x (G x Hx) Mr).
Qed.

Theorem at_content_sound T R v i x :
  wf_ty T = true -> has_type v T = true -> index_result T = Some R ->
  at_exec v i = Ok x -> content_in x R = true.
Proof.
  intros W H HR E. destruct v; try (destruct i; discriminate E).
  - destruct (at_exec_string _ _ _ E) as [c ->].
    assert (M : matches TString R = true).
    { apply (index_result_string T); [exact W| |exact HR]. apply (has_type_tag _ _ H). }
    apply (content_sound TString R); [reflexivity|exact M].
  - pose proof (index_result_content T et vs R W (has_type_content _ _ H) HR) as G.
    rewrite forallb_forall in G. apply G. apply (at_exec_arr_in _ _ _ _ E).
Qed.

Theorem at_sound T R v i x :
  wf_ty T = true -> elems_typed v = true -> has_type v T = true ->
  index_result T = Some R -> at_exec v i = Ok x -> has_type x R = true.
Proof.
  intros W V H HR E. destruct v; try (destruct i; discriminate E).
  - destruct (at_exec_string _ _ _ E) as [c ->].
    rewrite has_type_wf by reflexivity.
    apply (index_result_string T); [exact W| |exact HR]. apply (has_type_tag _ _ H).
  - cbn [elems_typed] in V. rewrite forallb_forall in V.
    pose proof (V x (at_exec_arr_in _ _ _ _ E)) as Hx.
    apply (has_type_sound _ _ _ Hx).
    apply (index_result_arr T); [exact W| |exact HR]. apply (has_type_tag _ _ H).
Qed.

(* [wf_val] alone does not give the tag half of the conclusion: the model's
   [wf_val] speaks of contents only (no implementation value is like this) *)
Theorem at_sound_needs_elems_typed :
  let v := VArr (TArr TInt) [VArr TAny [VInt 1]] in
  wf_val v = true /\ has_type v (TArr (TArr TInt)) = true /\
  at_exec v (VInt 0) = Ok (VArr TAny [VInt 1]) /\
  has_type (VArr TAny [VInt 1]) (TArr TInt) = false /\
  content_in (VArr TAny [VInt 1]) (TArr TInt) = true.
Proof. vm_compute. repeat split. Qed.

Lemma vwf_at v i x : vwf v = true -> at_exec v i = Ok x -> vwf x = true.
Proof.
  intros V E. destruct v; try (destruct i; discriminate E).
  - destruct (at_exec_string _ _ _ E) as [c ->]. reflexivity.
  - cbn [vwf] in V. rewrite forallb_forall in V.
    pose proof (V x (at_exec_arr_in _ _ _ _ E)) as Hx. apply andb_true_iff in Hx. apply Hx.
Qed.

(* ================================================================= *)
(* 7. A3 — the guards in front of the unwrapped queries                *)
(* ================================================================= *)
Lemma guard_matches (q : ty -> option ty) U T :
  (forall ms, q (TMulti ms) = fold_concat (map q ms)) ->
  (forall m, simple m = true -> wf_ty m = true -> matches m U = true -> q m <> None) ->
  matches TAny U = false ->
  wf_ty T = true -> matches T U = true -> T <> TNever -> q T <> None.
Proof.
  intros Hq Hs A W M N.
  destruct (wf_members T U W M A) as [->|[S|[ms [-> [L H]]]]]; [congruence| |].
  - apply Hs; assumption.
  - rewrite Hq. apply fold_concat_map_some.
    + destruct ms; [cbn in L; lia|discriminate].
    + intros m Hm. destruct (H m Hm) as [S [Wm Mm]]. apply Hs; assumption.
Qed.

Lemma guard_struct (q : ty -> option ty) (g : ty -> bool) T :
  (forall ms, q (TMulti ms) = fold_concat (map q ms)) ->
  (forall ms, g (TMulti ms) = forallb g ms) ->
  (forall m, is_multi m = false -> wf_ty m = true -> g m = true -> q m <> None) ->
  wf_ty T = true -> g T = true -> q T <> None.
Proof.
  intros Hq Hg Hs W G.
  destruct (is_multi T) eqn:IM; [|apply Hs; assumption].
  destruct T; try discriminate IM. rewrite Hq.
  destruct (wf_multi_inv _ W) as [L [S [Wm _]]].
  apply fold_concat_map_some.
  - destruct ms; [cbn in L; lia|discriminate].
  - rewrite Hg, forallb_forall in G. intros m Hm. apply Hs; auto.
    specialize (S m Hm). destruct m; try reflexivity; discriminate S.
Qed.

Lemma simple_below_indexable m :
  simple m = true -> matches m (TMulti [TString; TArr TAny]) = true ->
  m = TString \/ exists e, m = TArr e.
Proof.
  intros S M. rewrite matches_multi_r in M by exact S. cbn [existsb] in M.
  rewrite orb_false_r in M. apply orb_true_iff in M. destruct M as [M|M].
  - left. pose proof (matches_simple_kind m TString S eq_refl M) as K.
    destruct m; try discriminate K. reflexivity.
  - right. apply below_arr_simple; assumption.
Qed.

(* -- x[i] -- *)
Theorem index_guard T :
  wf_ty T = true -> can_be_indexed T = true -> T <> TNever -> index_result T <> None.
Proof.
  unfold can_be_indexed. rewrite INDEXABLE_eq.
  apply guard_matches; [reflexivity| |reflexivity].
  intros m S _ M. destruct (simple_below_indexable m S M) as [->|[e ->]]; discriminate.
Qed.

(* everything about x[i] in one statement: with an inhabited operand type the
   static result type exists and the run-time result inhabits it *)
Theorem at_total T v i :
  wf_ty T = true -> can_be_indexed T = true ->
  elems_typed v = true -> has_type v T = true -> has_type i TInt = true ->
  exists R, bin_rt At T TInt = Ok R /\
    at_exec v i <> Panic /\ at_exec v i <> OutOfFuel /\
    (forall x, at_exec v i = Ok x -> has_type x R = true) /\
    (forall e, at_exec v i = Err e -> e = E_IndexOutOfBounds).
Proof.
  intros W C V H Hi.
  destruct (index_result T) as [R|] eqn:E.
  - exists R. cbn [bin_rt]. rewrite E. cbn [lift_opt].
    destruct (at_no_panic T v i C H Hi) as [P [F Er]].
    repeat split; try assumption. intros x Hx. apply (at_sound T R v i x); assumption.
  - exfalso. revert E. apply index_guard; try assumption.
    intros ->. rewrite has_type_never in H. discriminate.
Qed.

(* the guard as repaired: `yt == ! || !can_be_indexed(yt)` rejects *)
Theorem index_guard_repaired T :
  wf_ty T = true -> ty_eqb T TNever || negb (can_be_indexed T) = false ->
  index_result T <> None.
Proof.
  intros W G. apply orb_false_iff in G. destruct G as [G1 G2].
  apply index_guard; [exact W|destruct (can_be_indexed T); [reflexivity|discriminate G2]|].
  intros ->. discriminate G1.
Qed.

(* the pre-repair `.unwrap()` of a type query: None panics (the repaired code uses `unwrap_or(!)`) *)
Definition lift_opt_unwrap (o : option ty) : oty := match o with Some t => Ok t | None => Panic end.

Theorem index_guard_never_refuted : can_be_indexed TNever = true /\ index_result TNever = None.
Proof. split; reflexivity. Qed.

Theorem at_rt_never_panics :
  lift_opt_unwrap (index_result TNever) = Panic /\ bin_rt At TNever TInt = Ok TNever.
Proof. split; reflexivity. Qed.

(* -- element_type behind `matches T [any]` (`$` on arrays, `+`) -- *)
Theorem element_guard T :
  wf_ty T = true -> matches T (TArr TAny) = true -> T <> TNever -> element_type T <> None.
Proof. exact (element_type_guard T). Qed.

Theorem element_guard_never_refuted :
  matches TNever (TArr TAny) = true /\ element_type TNever = None.
Proof. split; reflexivity. Qed.

Theorem iter_rt_never_panics :
  lift_opt_unwrap (element_type TNever) = Panic /\ un_rt UIter TNever = Ok (TFun [] (TTup [TBool; TNever])).
Proof. split; reflexivity. Qed.

(* -- *cell -- *)
Lemma is_mut_no_elem T : is_mut T = true -> element_type T = None.
Proof.
  induction T as [T IH] using ty_size_ind. intros M.
  destruct T as [| | | | | | |ps r|e|ts|ms|e|fs]; try reflexivity; try discriminate M.
  cbn [element_type]. destruct ms as [|m0 rest]; [reflexivity|].
  cbn [is_mut forallb] in M. apply andb_true_iff in M. destruct M as [M0 _].
  cbn [map]. unfold fold_concat, fold_opt. rewrite (IH m0); [apply fold_opt_step_none| |exact M0].
  cbn [size sizes_with fold_right]. lia.
Qed.

(* as coded, the content type of EVERY union of cell types is None *)
Theorem mut_element_type_union_none ms :
  is_mut (TMulti ms) = true -> mut_element_type (TMulti ms) = None.
Proof.
  intros M. cbn [mut_element_type]. destruct ms as [|m0 rest]; [reflexivity|].
  cbn [is_mut forallb] in M. apply andb_true_iff in M. destruct M as [M0 _].
  unfold fold_concat, fold_opt. rewrite (is_mut_no_elem m0 M0). apply fold_opt_step_none.
Qed.

Theorem mut_element_type_union_refuted :
  exists T, wf_ty T = true /\ is_mut T = true /\ mut_element_type T = None.
Proof. exists (TMulti [TMut TInt; TMut TFloat]). repeat split; vm_compute; reflexivity. Qed.

(* what unwrapping it meant for `*c` and `c = e` on c : mut int | mut float
   (repaired since: Rt.un_rt / Check.assign_ok now ask [mut_element_type_spec]) *)
Theorem deref_union_rt_panics :
  is_mut (TMulti [TMut TInt; TMut TFloat]) = true /\
  lift_opt_unwrap (mut_element_type (TMulti [TMut TInt; TMut TFloat])) = Panic /\
  un_rt UIndirection (TMulti [TMut TInt; TMut TFloat]) = Ok (TMulti [TInt; TFloat]) /\
  can_be_used Assign (TMulti [TMut TInt; TMut TFloat]) TInt = Ok false.
Proof. repeat split; vm_compute; reflexivity. Qed.

Theorem mut_guard_simple T :
  is_multi T = false -> is_mut T = true -> mut_element_type T <> None.
Proof. intros IM M. destruct T; try discriminate M; try discriminate IM. discriminate. Qed.

Theorem mut_guard_spec T :
  wf_ty T = true -> is_mut T = true -> mut_element_type_spec T <> None.
Proof.
  apply guard_struct; try reflexivity.
  intros m IM _ M. destruct m; try discriminate M; try discriminate IM. discriminate.
Qed.

(* -- f(...) -- *)
Theorem fn_guard T :
  wf_ty T = true -> is_function T = true -> fn_return_type T <> None.
Proof.
  apply guard_struct; try reflexivity.
  intros m IM _ M. destruct m; try discriminate M; try discriminate IM. discriminate.
Qed.

(* -- x.f -- *)
Theorem field_guard f T :
  wf_ty T = true -> has_field f T = true -> field_type f T <> None.
Proof.
  apply (guard_struct (field_type f) (has_field f)); try reflexivity.
  intros m IM _ M. destruct m; try discriminate M; try discriminate IM.
  cbn [has_field field_type] in *. destruct (assoc f fs); [discriminate|discriminate M].
Qed.

(* the structural guards reject `!` (and `is_struct`, phrased with matches,
   accepts it but [has_field] is asked next) *)
Theorem structural_guards_reject_never :
  is_function TNever = false /\ is_tuple TNever = false /\ is_mut TNever = false /\
  is_struct TNever = true /\ forall f, has_field f TNever = false.
Proof. repeat split. Qed.

(* -- x.k -- *)
Definition min_step (acc c : option nat) : option nat :=
  match acc, c with
  | Some a, Some c => if Nat.ltb a c then Some a else Some c
  | _, _ => None
  end.

Lemma fold_min_none l : fold_left min_step l None = None.
Proof. induction l as [|x l IH]; [reflexivity|exact IH]. Qed.

Lemma fold_min_le l a n :
  fold_left min_step l (Some a) = Some n ->
  (n <= a)%nat /\ forall c, In c l -> exists c', c = Some c' /\ (n <= c')%nat.
Proof.
  revert a. induction l as [|c l IH]; intros a; cbn [fold_left].
  - intros H. injection H as <-. split; [lia|intros c []].
  - destruct c as [c|]; cbn [min_step].
    2:{ intros H. exfalso. revert H. clear.
        rewrite fold_min_none. discriminate. }
    intros H. destruct (Nat.ltb a c) eqn:Lt.
    + destruct (IH _ H) as [Ha Hl]. apply Nat.ltb_lt in Lt. split; [exact Ha|].
      intros x [<-|Hx]; [exists c; split; [reflexivity|lia]|apply Hl; exact Hx].
    + destruct (IH _ H) as [Ha Hl]. apply Nat.ltb_ge in Lt. split; [lia|].
      intros x [<-|Hx]; [exists c; split; [reflexivity|lia]|apply Hl; exact Hx].
Qed.

Theorem tuple_guard k n T :
  wf_ty T = true -> is_tuple T = true -> min_tuple_len T = Some n -> (k < n)%nat ->
  tuple_element_at k T <> None.
Proof.
  intros W G HL Hk.
  destruct T as [| | | | | | |ps r|e|ts|ms|e|fs]; try discriminate G.
  - cbn [min_tuple_len tuple_len] in HL. injection HL as <-. cbn [tuple_element_at].
    apply nth_error_Some. exact Hk.
  - cbn [tuple_element_at]. destruct (wf_multi_inv _ W) as [L [S _]].
    cbn [is_tuple] in G. rewrite forallb_forall in G.
    apply fold_concat_map_some; [destruct ms; [cbn in L; lia|discriminate]|].
    intros m Hm. specialize (S m Hm). specialize (G m Hm).
    destruct m; try discriminate G; try discriminate S.
    cbn [tuple_element_at]. apply nth_error_Some.
    cbn [min_tuple_len] in HL. unfold fold_opt in HL.
    destruct ms as [|m0 rest]; [discriminate HL|]. cbn [map] in HL.
    change (fold_left min_step (map tuple_len rest) (tuple_len m0) = Some n) in HL.
    destruct (tuple_len m0) as [a|] eqn:E0.
    2:{ exfalso. revert HL. clear.
        rewrite fold_min_none. discriminate. }
    destruct (fold_min_le _ _ _ HL) as [Ha Hl].
    destruct Hm as [->|Hm].
    + cbn [tuple_len] in E0. injection E0 as <-. lia.
    + destruct (Hl (tuple_len (TTup ts))) as [c' [Ec Hc]]; [apply in_map; exact Hm|].
      cbn [tuple_len] in Ec. injection Ec as <-. lia.
Qed.

Lemma fold_min_some l a :
  (forall c, In c l -> c <> None) -> fold_left min_step l (Some a) <> None.
Proof.
  revert a. induction l as [|c l IH]; intros a H; cbn [fold_left]; [discriminate|].
  destruct c as [c|]; [|exfalso; apply (H None); [left; reflexivity|reflexivity]].
  cbn [min_step]. destruct (Nat.ltb a c); apply IH; intros x Hx; apply H; right; exact Hx.
Qed.

(* the checker's own `min_tuple_len(..).unwrap()` behind is_tuple *)
Theorem min_tuple_len_guard T :
  wf_ty T = true -> is_tuple T = true -> min_tuple_len T <> None.
Proof.
  intros W G. destruct T as [| | | | | | |ps r|e|ts|ms|e|fs]; try discriminate G.
  - discriminate.
  - destruct (wf_multi_inv _ W) as [L [S _]]. cbn [is_tuple] in G. rewrite forallb_forall in G.
    assert (Hm : forall m, In m ms -> tuple_len m <> None).
    { intros m Hm. specialize (S m Hm). specialize (G m Hm).
      destruct m; try discriminate G; try discriminate S. discriminate. }
    cbn [min_tuple_len]. unfold fold_opt. destruct ms as [|m0 rest]; [cbn in L; lia|].
    cbn [map]. change (fold_left min_step (map tuple_len rest) (tuple_len m0) <> None).
    destruct (tuple_len m0) as [a|] eqn:E0; [|exfalso; apply (Hm m0); [left; reflexivity|exact E0]].
    apply fold_min_some. intros c Hc. apply in_map_iff in Hc. destruct Hc as [m [<- Hin]].
    apply Hm. right. exact Hin.
Qed.

(* -- iterators: matches T ITERATOR_TYPE / ACC_SUM / ACC_PRODUCT -- *)
Fixpoint never_free (t : ty) : bool :=
  match t with
  | TNever => false
  | TFun ps r => forallb never_free ps && never_free r
  | TArr e | TMut e => never_free e
  | TTup ts | TMulti ts => forallb never_free ts
  | TStruct fs => forallb (fun kv => never_free (snd kv)) fs
  | _ => true
  end.

Lemma below_bool_is_bool t :
  wf_ty t = true -> never_free t = true -> matches t TBool = true -> t = TBool.
Proof.
  intros W N M. destruct (wf_members t TBool W M eq_refl) as [->|[S|[ms [-> [L H]]]]].
  - discriminate N.
  - pose proof (matches_simple_kind t TBool S eq_refl M) as K.
    destruct t; try discriminate K. reflexivity.
  - exfalso. destruct ms as [|a [|b ms]]; try (cbn in L; lia).
    assert (Ea : a = TBool).
    { destruct (H a) as [S [_ Ma]]; [left; reflexivity|].
      pose proof (matches_simple_kind a TBool S eq_refl Ma) as K.
      destruct a; try discriminate K. reflexivity. }
    assert (Eb : b = TBool).
    { destruct (H b) as [S [_ Mb]]; [right; left; reflexivity|].
      pose proof (matches_simple_kind b TBool S eq_refl Mb) as K.
      destruct b; try discriminate K. reflexivity. }
    subst. destruct (wf_multi_inv _ W) as [_ [_ [_ P]]].
    cbn [pairwise_neq mem_ty existsb] in P.
    replace (ty_eqb TBool TBool) with true in P by reflexivity. discriminate P.
Qed.

Lemma fold_flat_bool l x :
  (forall c, In c l -> exists y, c = Some [TBool; y]) ->
  exists z,
    fold_left (fun acc c => match acc, c with
                            | Some a, Some c =>
                                if Nat.eqb (length a) (length c)
                                then Some (zip_with concat a c) else None
                            | _, _ => None end) l (Some [TBool; x]) = Some [TBool; z].
Proof.
  revert x. induction l as [|c l IH]; intros x H; cbn [fold_left]; [eauto|].
  destruct (H c) as [y ->]; [left; reflexivity|].
  cbn [length Nat.eqb zip_with]. change (concat TBool TBool) with TBool.
  apply IH. intros c Hc. apply H. right. exact Hc.
Qed.

Lemma ret_flatten_simple r :
  simple r = true -> wf_ty r = true -> never_free r = true ->
  matches r (TTup [TBool; TAny]) = true -> exists t1, flatten_tuple r = Some [TBool; t1].
Proof.
  intros S W N M. pose proof (matches_simple_kind r (TTup [TBool; TAny]) S eq_refl M) as K.
  destruct r; try discriminate K. rewrite matches_tup in M.
  destruct ts as [|t0 [|t1 [|t2 ts]]]; cbn [all2] in M;
    try (rewrite ?andb_false_r in M; discriminate M).
  apply andb_true_iff in M. destruct M as [M0 _].
  cbn [wf_ty forallb] in W. apply andb_true_iff in W. destruct W as [W0 _].
  cbn [never_free forallb] in N. apply andb_true_iff in N. destruct N as [N0 _].
  rewrite (below_bool_is_bool t0 W0 N0 M0). cbn [flatten_tuple]. eauto.
Qed.

Lemma ret_flatten r :
  wf_ty r = true -> never_free r = true ->
  matches r (TTup [TBool; TAny]) = true -> exists t1, flatten_tuple r = Some [TBool; t1].
Proof.
  intros W N M. destruct (wf_members r _ W M eq_refl) as [->|[S|[ms [-> [L H]]]]].
  - discriminate N.
  - apply ret_flatten_simple; assumption.
  - cbn [never_free] in N. rewrite forallb_forall in N.
    assert (Hm : forall m, In m ms -> exists y, flatten_tuple m = Some [TBool; y]).
    { intros m Hm. destruct (H m Hm) as [S [Wm Mm]]. apply ret_flatten_simple; auto. }
    cbn [flatten_tuple]. destruct ms as [|m0 rest]; [cbn in L; lia|].
    cbn [map]. unfold fold_opt. destruct (Hm m0) as [x ->]; [left; reflexivity|].
    apply fold_flat_bool. intros c Hc. apply in_map_iff in Hc. destruct Hc as [m [<- Hin]].
    apply Hm. right. exact Hin.
Qed.

Lemma iter_simple m :
  simple m = true -> wf_ty m = true -> never_free m = true ->
  matches m ITERATOR_TYPE = true -> iter_element m <> None.
Proof.
  intros S W N M. pose proof (matches_simple_kind m ITERATOR_TYPE S eq_refl M) as K.
  destruct m; try discriminate K. unfold ITERATOR_TYPE in M. rewrite matches_fun in M.
  apply andb_true_iff in M. destruct M as [Mp Mr].
  destruct ps as [|p ps]; [|discriminate Mp].
  cbn [wf_ty forallb] in W. cbn [never_free forallb] in N.
  destruct (ret_flatten m W N Mr) as [t1 E]. cbn [iter_element]. rewrite E.
  replace (ty_eqb TBool TBool) with true by reflexivity. discriminate.
Qed.

Theorem iter_guard T :
  wf_ty T = true -> never_free T = true -> matches T ITERATOR_TYPE = true ->
  iter_element T <> None.
Proof.
  intros W N M. destruct (wf_members T _ W M eq_refl) as [->|[S|[ms [-> [L H]]]]].
  - discriminate N.
  - apply iter_simple; assumption.
  - cbn [never_free] in N. rewrite forallb_forall in N. cbn [iter_element].
    apply fold_concat_map_some; [destruct ms; [cbn in L; lia|discriminate]|].
    intros m Hm. destruct (H m Hm) as [S [Wm Mm]]. apply iter_simple; auto.
Qed.

Theorem sum_guard T :
  wf_ty T = true -> never_free T = true -> matches T ACC_SUM = true -> iter_element T <> None.
Proof.
  intros W N M. apply iter_guard; [exact W|exact N|].
  apply (matches_trans _ _ _ M). vm_compute. reflexivity.
Qed.

Theorem product_guard T :
  wf_ty T = true -> never_free T = true -> matches T ACC_PRODUCT = true -> iter_element T <> None.
Proof.
  intros W N M. apply iter_guard; [exact W|exact N|].
  apply (matches_trans _ _ _ M). vm_compute. reflexivity.
Qed.

Theorem iter_guard_never_refuted :
  matches TNever ITERATOR_TYPE = true /\ matches TNever ACC_SUM = true /\
  iter_element TNever = None /\
  lift_opt_unwrap (iter_element TNever) = Panic /\
  un_rt UCollect TNever = Ok (TArr TNever) /\ un_rt USum TNever = Ok TNever.
Proof. repeat split. Qed.

(* `!` inside the type is enough: a function that never returns is an iterator
   for [matches], but has no element type *)
Theorem iter_guard_fun_never_refuted :
  wf_ty (TFun [] TNever) = true /\ ty_eqb (TFun [] TNever) TNever = false /\
  matches (TFun [] TNever) ITERATOR_TYPE = true /\ matches (TFun [] TNever) ACC_SUM = true /\
  iter_element (TFun [] TNever) = None /\
  lift_opt_unwrap (iter_element (TFun [] TNever)) = Panic /\
  un_rt UCollect (TFun [] TNever) = Ok (TArr TNever) /\ un_rt USum (TFun [] TNever) = Ok TNever.
Proof. repeat split; vm_compute; reflexivity. Qed.

Theorem iter_guard_tuple_never_refuted :
  matches (TFun [] (TTup [TNever; TInt])) ITERATOR_TYPE = true /\
  iter_element (TFun [] (TTup [TNever; TInt])) = None.
Proof. split; vm_compute; reflexivity. Qed.

(* ================================================================= *)
(* 8. A4 — construction                                               *)
(* ================================================================= *)
Lemma has_type_fold_acc v ts t0 :
  has_type v t0 = true -> has_type v (fold_left concat ts t0) = true.
Proof.
  revert t0. induction ts as [|c ts IH]; intros t0 H; cbn [fold_left]; [exact H|].
  apply IH. apply has_type_union_l_all. exact H.
Qed.

Lemma has_type_fold_concat v t ts t0 :
  has_type v t = true -> In t (t0 :: ts) -> has_type v (fold_left concat ts t0) = true.
Proof.
  revert t0. induction ts as [|c ts IH]; intros t0 H Hin.
  - destruct Hin as [->|[]]. exact H.
  - destruct Hin as [->|[->|Hin]]; cbn [fold_left].
    + apply has_type_fold_acc. apply has_type_union_l_all. exact H.
    + apply has_type_fold_acc. apply has_type_union_r_all. exact H.
    + apply IH; [exact H|right; exact Hin].
Qed.

Lemma all2_in_l {A B} (f : A -> B -> bool) l1 l2 x :
  all2 f l1 l2 = true -> In x l1 -> exists y, In y l2 /\ f x y = true.
Proof.
  revert l2. induction l1 as [|a l1 IH]; intros [|b l2] H Hin; cbn [all2] in H;
    try discriminate H; try destruct Hin.
  - subst. apply andb_true_iff in H. exists b. split; [left; reflexivity|apply H].
  - apply andb_true_iff in H. destruct H as [_ H].
    destruct (IH l2 H H0) as [y [Hy Hf]]. exists y. split; [right; exact Hy|exact Hf].
Qed.

Definition join_all (ts : list ty) : ty :=
  match concat_all ts with Some t => t | None => TNever end.

(* array literal: [e1, ..., en] : [T1 | ... | Tn] *)
Theorem arr_literal_typed vs Ts :
  all2 has_type vs Ts = true -> has_type (arr_of vs) (TArr (join_all Ts)) = true.
Proof.
  intros H.
  assert (G : forall v, In v vs -> has_type v (join_all Ts) = true).
  { intros v Hv. destruct (all2_in_l _ _ _ _ H Hv) as [T [HT Hf]].
    unfold join_all, concat_all. destruct Ts as [|T0 Ts]; [destruct HT|].
    apply (has_type_fold_concat v T); assumption. }
  apply has_type_intro.
  - unfold arr_of. cbn [as_type]. rewrite matches_arr.
    unfold concat_all. destruct vs as [|v0 vs]; [apply matches_never_l|].
    cbn [map]. rewrite fold_concat_least. apply andb_true_iff. split.
    + apply has_type_tag. apply G. left. reflexivity.
    + apply forallb_forall. intros t Ht. apply in_map_iff in Ht. destruct Ht as [v [<- Hv]].
      apply has_type_tag. apply G. right. exact Hv.
  - unfold arr_of. rewrite content_in_arr. apply forallb_forall. intros v Hv.
    apply has_type_content. apply G. exact Hv.
Qed.

(* the array the interpreter builds carries the join of the runtime tags *)
Theorem arr_of_self_typed vs :
  forallb (fun x => has_type x (as_type x)) vs = true ->
  has_type (arr_of vs) (as_type (arr_of vs)) = true.
Proof.
  intros H. unfold arr_of at 2. cbn [as_type].
  apply (arr_literal_typed vs (map as_type vs)).
  induction vs as [|v vs IH]; [reflexivity|]. cbn [forallb] in H.
  apply andb_true_iff in H. destruct H as [Hv H]. cbn [map all2]. rewrite Hv, (IH H). reflexivity.
Qed.

Theorem tuple_typed vs ts : has_type (VTup vs) (TTup ts) = all2 has_type vs ts.
Proof. exact (has_type_tup_all2 vs ts). Qed.

Theorem repeat_typed v T n :
  has_type v T = true -> has_type (repeat_value v n) (TArr T) = true.
Proof.
  intros H. unfold repeat_value. apply has_type_intro.
  - cbn [as_type]. rewrite matches_arr. apply (has_type_tag _ _ H).
  - rewrite content_in_arr. apply forallb_forall. intros x Hx.
    apply repeat_spec in Hx. subst. apply (has_type_content _ _ H).
Qed.

(* ---- the hereditary invariant is kept by every array constructor ---- *)
Lemma vwf_arr_of vs :
  forallb vwf vs = true -> forallb (fun x => has_type x (as_type x)) vs = true ->
  vwf (arr_of vs) = true.
Proof.
  intros V H. unfold arr_of. cbn [vwf]. apply forallb_forall. intros x Hx.
  rewrite forallb_forall in V, H. rewrite (V x Hx), andb_true_r.
  unfold concat_all. destruct vs as [|v0 vs]; [destruct Hx|]. cbn [map].
  apply (has_type_fold_concat x (as_type x)); [apply H; exact Hx|].
  change (In (as_type x) (map as_type (v0 :: vs))). apply in_map. exact Hx.
Qed.

Lemma vwf_array_concat t1 l1 t2 l2 :
  vwf (VArr t1 l1) = true -> vwf (VArr t2 l2) = true ->
  vwf (array_concat t1 l1 t2 l2) = true.
Proof.
  intros V1 V2. unfold array_concat. destruct l1 as [|x l1]; [exact V2|].
  destruct l2 as [|y l2]; [exact V1|].
  cbn [vwf] in *. rewrite forallb_app. apply andb_true_iff.
  rewrite forallb_forall in V1, V2. split; apply forallb_forall; intros z Hz.
  - specialize (V1 z Hz). apply andb_true_iff in V1. destruct V1 as [A B].
    rewrite B, andb_true_r. apply has_type_union_l_all. exact A.
  - specialize (V2 z Hz). apply andb_true_iff in V2. destruct V2 as [A B].
    rewrite B, andb_true_r. apply has_type_union_r_all. exact A.
Qed.

Lemma vwf_repeat_value v n :
  vwf v = true -> has_type v (as_type v) = true -> vwf (repeat_value v n) = true.
Proof.
  intros V H. unfold repeat_value. cbn [vwf]. apply forallb_forall. intros x Hx.
  apply repeat_spec in Hx. subst. rewrite V, H. reflexivity.
Qed.

(* ================================================================= *)
(* 9. A5 — dispatch by runtime tag                                    *)
(* ================================================================= *)
(* `if x: T = e`, the type arms of `match` and `it ? T` test
   [matches (as_type v) T] only; for a well-formed value that decides membership *)
Theorem dispatch_by_tag_sound v T :
  wf_val v = true -> matches (as_type v) T = true -> has_type v T = true.
Proof. intros W M. rewrite has_type_wf by exact W. exact M. Qed.

Theorem dispatch_by_tag_complete v T :
  has_type v T = true -> matches (as_type v) T = true.
Proof. exact (has_type_tag v T). Qed.

Theorem dispatch_by_tag_iff v T :
  wf_val v = true -> (matches (as_type v) T = true <-> has_type v T = true).
Proof. intros W. rewrite has_type_wf by exact W. tauto. Qed.

(* ================================================================= *)
(* 10. compound assignment: what Check.assign_ok buys at run time      *)
(* ================================================================= *)
Section Compound.
Variable powf : fbits -> fbits -> fbits.

(* `c op= e` with c : L (a cell type with content type t), e : T2, accepted by
   the checker: applying the base operator to ANY content of type t and the
   value of e neither panics nor leaves t — the hypothesis under which
   CellLemmas.store_typed_run keeps every cell inside its declared type *)
Lemma assign_ok_nonmulti L T cbu rtf :
  is_multi L = false -> assign_ok L T cbu rtf = assign_ok_single L T cbu rtf.
Proof. destruct L; try reflexivity. discriminate. Qed.

(* a union target is checked member by member (cells are invariant) *)
Lemma assign_ok_multi_member ms T cbu rtf m :
  assign_ok (TMulti ms) T cbu rtf = Ok true -> In m ms -> assign_ok_single m T cbu rtf = Ok true.
Proof.
  unfold assign_ok.
  assert (G : forall l acc, fold_left (fun (acc : outcome bool) (m : ty) =>
                 obind acc (fun a : bool => if a then assign_ok_single m T cbu rtf else Ok false)) l acc = Ok true ->
               acc = Ok true /\ forall x, In x l -> assign_ok_single x T cbu rtf = Ok true).
  { induction l as [|y l IH]; intros acc H; cbn [fold_left] in H.
    { split; [exact H|]. intros x Hx. destruct Hx. }
    destruct (IH _ H) as [Ha Hl].
    destruct acc as [a0| | |]; cbn [obind] in Ha; try discriminate Ha.
    destruct a0; [|discriminate Ha].
    split; [reflexivity|]. intros x Hx. destruct Hx as [E|Hx]; [subst x; exact Ha|apply Hl; exact Hx]. }
  intros H Hm. destruct (G ms (Ok true) H) as [_ Hl]. apply Hl. exact Hm.
Qed.

Theorem compound_assign_sound aop bop L t T2 v cur :
  assign_base aop = Some bop ->
  wf_ty t = true -> wf_ty T2 = true ->
  is_multi L = false ->
  mut_element_type_spec L = Some t ->
  can_be_used aop L T2 = Ok true ->
  has_type v T2 = true -> has_type cur t = true ->
  op_ok powf bop cur v t.
Proof.
  intros Hb Wt W2 NM HL C Hv Hc.
  assert (K : forall cbu rtf, assign_ok L T2 cbu rtf = Ok true ->
              cbu t T2 = true /\ exists R, rtf t T2 = Ok R /\ matches R t = true).
  { intros cbu rtf H. rewrite (assign_ok_nonmulti _ _ _ _ NM) in H. unfold assign_ok_single in H. rewrite HL in H.
    destruct (rtf t T2) as [R| | |]; try discriminate H. cbn [obind] in H.
    injection H as H. apply andb_true_iff in H. destruct H as [H1 H2]. eauto. }
  destruct aop; try discriminate Hb; injection Hb as <-; cbn [can_be_used] in C;
    destruct (K _ _ C) as [Cb [R [HR MR]]].
  - (* += *)
    pose proof (add_sound powf cur v t T2 R Wt W2 Hc Hv Cb HR) as [P [F [Ok_ Er]]].
    split; [exact P|]. split; [exact F|]. split; [|exact Er].
    intros r E. apply (has_type_sound _ R); [apply Ok_; exact E|exact MR].
  - apply (arith_sound powf _ _ _ t T2); auto.
  - apply (arith_sound powf _ _ _ t T2); auto.
  - apply (arith_sound powf _ _ _ t T2); auto.
  - (* %= *)
    pose proof (intonly_sound powf Modulo cur v t T2 eq_refl Hc Hv Cb) as [P [F [Ok_ Er]]].
    split; [exact P|]. split; [exact F|]. split; [|exact Er].
    intros r E. pose proof (int_operands _ _ _ _ Hc Hv Cb) as S. destruct S as [a b].
    destruct (in_TInt _ (Ok_ r E)) as [z ->]. erewrite has_type_int_indep. eassumption.
  - (* <<= *)
    pose proof (intonly_sound powf LShift cur v t T2 eq_refl Hc Hv Cb) as [P [F [Ok_ Er]]].
    split; [exact P|]. split; [exact F|]. split; [|exact Er].
    intros r E. pose proof (int_operands _ _ _ _ Hc Hv Cb) as S. destruct S as [a b].
    destruct (in_TInt _ (Ok_ r E)) as [z ->]. erewrite has_type_int_indep. eassumption.
  - (* >>= *)
    pose proof (intonly_sound powf RShift cur v t T2 eq_refl Hc Hv Cb) as [P [F [Ok_ Er]]].
    split; [exact P|]. split; [exact F|]. split; [|exact Er].
    intros r E. pose proof (int_operands _ _ _ _ Hc Hv Cb) as S. destruct S as [a b].
    destruct (in_TInt _ (Ok_ r E)) as [z ->]. erewrite has_type_int_indep. eassumption.
  - apply (bit_sound powf _ _ _ t T2); auto.
  - apply (bit_sound powf _ _ _ t T2); auto.
  - apply (bit_sound powf _ _ _ t T2); auto.
  - apply (arith_sound powf _ _ _ t T2); auto.
Qed.

(* plain assignment: the checker demands the right-hand type below the content type *)
Theorem assign_sound L t T2 v :
  is_multi L = false ->
  mut_element_type_spec L = Some t -> can_be_used Assign L T2 = Ok true ->
  has_type v T2 = true -> has_type v t = true.
Proof.
  intros NM HL C Hv. cbn [can_be_used] in C. rewrite (assign_ok_nonmulti _ _ _ _ NM) in C.
  unfold assign_ok_single in C. rewrite HL in C.
  cbn [obind andb] in C. injection C as C. apply (has_type_sound _ _ _ Hv C).
Qed.

End Compound.

(* BridgeExamples.v — non-vacuity of the bridge theorems (Lemmas/Bridge1.v). *)
From SSL.Model Require Import Base Ty Float Value Ops Seq Syntax Rt Recreate Exec Check Top.
From SSL.Lemmas Require Import SoundDefs SoundTyping SoundRec3 CheckUnfold CheckBase CheckTotal
  CheckExamples RecreateTotal Bridge1.
Local Open Scope Z_scope.

(*  c := mut 0;
    f := (x: int|string) -> int {
      return match x { i: int => { i + 1; }, "a" => { 0; }, => { 2; }, };
    };
    g := (k: int) -> (int) -> int { return (u: int) -> int { return u * k; }; };
    while *c < 3 { c += f( *c ); };
    (a, b) := (g(2)(5), "s");                                                    *)
Definition bc : name := [99]. Definition bf : name := [102]. Definition bg : name := [103].
Definition bx : name := [120]. Definition bi : name := [105]. Definition bk : name := [107].
Definition bu : name := [117]. Definition ba : name := [97]. Definition bb : name := [98].

Definition bridge_prog : list sline :=
  [ LSet bc (SExpr (XMut None (XConst (VInt 0))));
    LFnDecl bf [(bx, TMulti [TInt; TString])] (Some TInt)
      [LStm (SRet (Some (SMatch (XIdent bx)
         [AType bi TInt (SBlock [LStm (SExpr (XInfix Add (XIdent bi) (XConst (VInt 1))))]);
          AValue [XConst (VString [97])] (SBlock [LStm (SExpr (XConst (VInt 0)))]);
          AOther (SBlock [LStm (SExpr (XConst (VInt 2)))])])))];
    LFnDecl bg [(bk, TInt)] (Some (TFun [TInt] TInt))
      [LStm (SRet (Some (SExpr (XFunction [(bu, TInt)] (Some TInt)
         [LStm (SRet (Some (SExpr (XInfix Multiply (XIdent bu) (XIdent bk)))))]))))];
    LStm (SWhile (XInfix Lower (XPrefix PDeref (XIdent bc)) (XConst (VInt 3)))
            (SBlock [LStm (SExpr (XInfix AssignAdd (XIdent bc)
                                    (XCall (XIdent bf) [XPrefix PDeref (XIdent bc)])))]));
    LDestruct [ba; bb]
      (SExpr (XTuple [XCall (XCall (XIdent bg) [XConst (VInt 2)]) [XConst (VInt 5)];
                      XConst (VString [115])])) ].

Example bridge_prog_hyps :
  forallb wf_sline bridge_prog = true /\ forallb blfrag bridge_prog = true.
Proof. split; vm_compute; reflexivity. Qed.

Example bridge_prog_accepted :
  obind (check_lines red0 100 [] [mkLayer [] None false] bridge_prog) (fun p => rtl_def (fst p)) =
  Ok [TMut TInt; TFun [TMulti [TInt; TString]] TInt; TFun [TInt] (TFun [TInt] TInt); TVoid;
      TTup [TInt; TString]].
Proof. vm_compute. reflexivity. Qed.

Lemma cenv_empty W : cenv W [mkLayer [] None false] [].
Proof. split; [intros n T H; discriminate H|intros n lv H; discriminate H]. Qed.
Lemma sgood_empty W : sgood W [].
Proof. intros n v H. discriminate H. Qed.

(* the theorem applied to it: what the checker built is a typed statement list *)
Example bridge_prog_typed :
  exists is e1 G1 Ts,
    check_lines red0 100 [] [mkLayer [] None false] bridge_prog = Ok (is, e1) /\
    @typed_list all_policy W_empty [] (mkK false None) is G1 Ts.
Proof.
  destruct bridge_prog_hyps as [W F].
  destruct (check_lines red0 100 [] [mkLayer [] None false] bridge_prog) as [[is e1]| | |] eqn:E.
  2-4: exfalso; pose proof bridge_prog_accepted as A; rewrite E in A; discriminate A.
  destruct (@check_lines_typed all_policy (fun _ _ _ _ _ _ => I) W_empty red0 100 []
              [mkLayer [] None false] [] bridge_prog is e1 (sgood_empty _) (cenv_empty _) W F E)
    as [G1 [Ts [Hl _]]].
  exists is, e1, G1, Ts. split; [reflexivity|exact Hl].
Qed.

(* ---------- end to end ---------- *)
From SSL.Lemmas Require Import ExecLemmas Sound1 Bridge2.

(* the same program with the destructuring inside a block (top-level lines: `x := e`,
   function declarations, statements) *)
Definition bridge_prog2 : list sline :=
  firstn 4 bridge_prog ++
  [LStm (SBlock [LDestruct [ba; bb]
      (SExpr (XTuple [XCall (XCall (XIdent bg) [XConst (VInt 2)]) [XConst (VInt 5)];
                      XConst (VString [115])]));
                 LStm (SExpr (XInfix Add (XIdent ba) (XPrefix PDeref (XIdent bc))))])].

Example bridge_prog2_hyps :
  forallb wf_sline bridge_prog2 = true /\ forallb blfrag bridge_prog2 = true /\
  forallb top_ok bridge_prog2 = true.
Proof. repeat split; vm_compute; reflexivity. Qed.

Definition e_top : lenv := [mkLayer [] None false].
Definition pre_b : prelude := mkPrelude 0 0 0 0 0 0 0 0.
Definition st_b : store := mkStore [] [] [].

Example bridge_prog2_parses :
  exists r, parse_top powf0 red0 100 [] e_top bridge_prog2 = Ok r.
Proof.
  destruct (parse_top powf0 red0 100 [] e_top bridge_prog2) as [r| | |] eqn:E;
    [eauto|exfalso; revert E; vm_compute; discriminate..].
Qed.

(* it runs to 13 = 2 * 5 + 3 (the loop leaves 3 in the cell) *)
Example bridge_prog2_runs :
  obind (parse_top powf0 red0 100 [] e_top bridge_prog2)
        (fun p => Ok (sig (run_code powf0 pre_b 100 st_b [[]] (fst p) VVoid))) = Ok (SVal (VInt 13)).
Proof. vm_compute. reflexivity. Qed.

(* the end-to-end theorem applied to it *)
Example bridge_prog2_sound :
  exists is e' G' Ts,
    parse_top powf0 red0 100 [] e_top bridge_prog2 = Ok (is, e') /\
    @typed_list all_policy W_empty [] (mkK false None) is G' Ts /\
    forall n, match sig (run_code powf0 pre_b n st_b [[]] is VVoid) with
              | SVal v => has_type v (List.last Ts TVoid) = true
              | SError x => doc_err x
              | SFuel => True
              | _ => False
              end.
Proof.
  destruct bridge_prog2_hyps as [Wl [Fl Tl]].
  destruct bridge_prog2_parses as [[is e'] E].
  destruct (parse_run_sound powf0 pre_b red0 W_empty [] (sgood_empty _) 100 0 bridge_prog2 e_top []
              is e' (tinv_empty W_empty []) Wl Fl Tl E) as [G' [Ts [Hl _]]].
  exists is, e', G', Ts. split; [exact E|]. split; [exact Hl|]. intros n.
  destruct (parse_run_sound powf0 pre_b red0 W_empty [] (sgood_empty _) 100 n bridge_prog2 e_top []
              is e' (tinv_empty W_empty []) Wl Fl Tl E) as [G'' [Ts' [Hl' R]]].
  assert (ETs : Ts' = Ts).
  { pose proof (proj1 (proj2 (proj2 (proj2 (proj2 (proj2 (typed_rt_all W_empty)))))) _ _ _ _ _ Hl) as A.
    pose proof (proj1 (proj2 (proj2 (proj2 (proj2 (proj2 (typed_rt_all W_empty)))))) _ _ _ _ _ Hl') as B.
    clear - A B. revert Ts' B. induction A as [|x T l Ts Hx _ IH]; intros Ts' B; inversion B; subst; [reflexivity|].
    f_equal; [congruence|apply IH; assumption]. }
  subst Ts'.
  destruct (R W_empty st_b [[]] VVoid TVoid) as [W' [_ [_ C]]].
  - apply ext_refl.
  - split; [split; [reflexivity|intros loc t H; destruct loc; discriminate H]|].
    split; [reflexivity|intros id c sg H; destruct id; discriminate H].
  - intros m T H. discriminate H.
  - split; reflexivity.
  - destruct (sig (run_code powf0 pre_b n st_b [[]] is VVoid)); try exact C. apply C.
Qed.

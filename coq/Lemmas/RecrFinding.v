(* RecrFinding.v — a defect found while proving preservation (repaired in /repo 8e9e772;
   the model of this file's subject is gone, the file records WHY the proof failed).

   Between repairs 0c25268 and 8e9e772, `it $+` / `it $*` chose their reducer (int / float /
   string) AT RUN TIME among those admitted by the static type of the operand, recomputed
   from the operand instruction (`self.instruction.return_type()`; [sty x] in Model/Exec.v).
   That is the one place where execution read an annotation that the constant-propagation
   pass changes: the pass replaces a name it knows as the constant v by [IVar v], whose
   static type [as_type v] is NARROWER than the declared type of the name.  For the iterator
   of an empty array, () -> (bool, !) instead of () -> (bool, float): no reducer is admitted,
   the choice falls back to the run-time type alone, and picks the int reducer.

   On the implementation at 0c25268 (harness `run-ty`):
     g := (it: () -> (bool, float)) -> float { return it $+; }; g([]~)                   => 0.0
     g := (it: () -> (bool, float)) -> float { h := () -> float { return it $+; };
                                               return h(); };  g([]~)               => 0  (int)
     ... g([]~) + 1.5                                                                => panic
   (inside h the captured `it` is a constant).  A violation of C04 (the two programs differ
   only in whether the optimizer sees the constant) and of C01/C02.

   Since 8e9e772 the reducer call is planted by the CHECKER from the static type it computes
   (Model/Check.v [plant_reducer]); USum / UProduct never reach [exec] (SPanic on both sides),
   execution reads no annotation that the pass changes ([RecrDefs.un_dispatch_sx] holds for
   every prefix operator the checker builds), and the preservation theorems cover `$+`, `$*`.

   Below: the former choice function, and the two static types giving different reducers. *)
From SSL.Model Require Import Base Ty Float Value Ops Seq Syntax Rt.

Definition IT (e : ty) : ty := TFun [] (TTup [TBool; e]).

(* sum::exec at 0c25268: s = static type of the operand, t = run-time type of the iterator;
   0 = INT_SUM, 1 = FLOAT_SUM, 2 = STRING_SUM *)
Definition old_sum_choice (s t : ty) : nat :=
  let any := matches (IT TInt) s || matches (IT TFloat) s || matches (IT TString) s in
  let choose := fun c => matches t c && (negb any || matches c s) in
  if choose (IT TInt) then 0 else if choose (IT TFloat) then 1 else 2.

(* the iterator of an empty array *)
Definition v_it : value := VFun 0 [] (TTup [TBool; TNever]).

(* the operand as the checker built it: a parameter declared () -> (bool, float) *)
Example choice_hidden : old_sum_choice (IT TFloat) (as_type v_it) = 1.
Proof. vm_compute. reflexivity. Qed.

(* the operand after the pass substituted the captured constant: [IVar v_it], whose static
   type is [as_type v_it] = () -> (bool, !) *)
Example choice_folded :
  rt (IVar v_it) = Ok (as_type v_it) /\ old_sum_choice (as_type v_it) (as_type v_it) = 0.
Proof. vm_compute. split; reflexivity. Qed.

(* RecrSim1.v — semantic preservation of [recreate], part 1: the statement of the
   induction and the expression forms.

   [rexpr f]   what the pass with fuel f does to an instruction in EXPRESSION position:
               it leaves its environment alone, never produces a local-variable node
               carrying a constant, and the result simulates the argument ([simE]).
   [simE e x x']  for all scopes that agree with e, every fuel n and store: if x finishes
               with a result that is neither SFuel nor SPanic, x' finishes — with the same
               fuel — with literally the same store, scopes and signal.
   The pass is run at parse time, i.e. against the EMPTY creating scopes ([recreate powf f
   []]): every name is resolved by the environment.  *)
From SSL.Model Require Import Base Ty Float Value Ops Seq Syntax Rt Recreate Exec Check.
From SSL.Lemmas Require Import ExecLemmas FoldLemmas RecrUnfold RecrMono RecrDefs RecrKeeps.

Arguments matches : simpl never.
Local Open Scope Z_scope.

Lemma obind_ok' {A B} (o : outcome A) (k : A -> outcome B) b :
  obind o k = Ok b -> exists a, o = Ok a /\ k a = Ok b.
Proof. destruct o; cbn [obind]; intros H; try discriminate H. eauto. Qed.

Ltac inv_bind H a Ha := apply obind_ok' in H; destruct H as [a [Ha H]]; cbv beta iota in H.

Section Sim.
Variable powf : fbits -> fbits -> fbits.
Variable pre : prelude.
Variable cl : bool.
Notation E := (exec powf pre).
Notation RC f := (recreate powf f []).

Definition simE (e : lenv) (x x' : instr) : Prop :=
  forall sc, agree e sc -> forall n, sim1 (E n) sc x x'.

Definition rexpr (f : nat) : Prop := forall e i i' e',
  RC f e i = Ok (i', e') -> wfi cl false i = true -> dok i' = true ->
  e' = e /\ noconst i' /\ simE e i i'.

Lemma simE_refl e x : simE e x x.
Proof. intros sc _ n. apply sim1_refl. Qed.

(* ---- small facts about results ---- *)
Lemma E0_not_ok st sc i : ~ okr (E 0 st sc i).
Proof. rewrite exec_O. apply okr_fuel. Qed.

Lemma with_val_sub_ok ex x st sc k : okr (with_val_def ex x st sc k) -> okr (ex st sc x).
Proof.
  unfold with_val_def. destruct (ex st sc x) as [[st1 sc1] s1].
  destruct s1; intros H; try exact H. apply okr_val.
Qed.

(* an instruction that was folded to the constant v evaluates to v, with no effect *)
Lemma sim_const n sc x v st :
  sim1 (E n) sc x (IVar v) -> okr (E n st sc x) -> E n st sc x = (st, sc, SVal v).
Proof.
  intros S Hok. rewrite <- (S st Hok). destruct n as [|n].
  - exfalso. exact (E0_not_ok _ _ _ Hok).
  - apply exec_S_IVar.
Qed.

Lemma with_val_const n sc x v st k :
  sim1 (E n) sc x (IVar v) -> okr (with_val_def (E n) x st sc k) ->
  with_val_def (E n) x st sc k = k st sc v.
Proof.
  intros S Hok. unfold with_val_def.
  rewrite (sim_const n sc x v st S (with_val_sub_ok _ _ _ _ _ Hok)). reflexivity.
Qed.

(* the folded result is reached with any positive fuel *)
Lemma E_var_S n st sc v : E (S n) st sc (IVar v) = (st, sc, SVal v).
Proof. apply exec_S_IVar. Qed.

Lemma keepsE n i : wfi cl false i = true -> keeps (E n) i.
Proof. apply wfi_keeps. Qed.

(* a result reached with fuel n is reached with fuel S n *)
Lemma E_up n st sc i : okr (E n st sc i) -> E (S n) st sc i = E n st sc i.
Proof. intros [H _]. apply (exec_fuel_mono powf pre n (S n)); [lia|exact H]. Qed.

(* ================================================================= *)
(* constants, names                                                   *)
(* ================================================================= *)
Lemma rc_var f : forall e v i' e',
  RC (S f) e (IVar v) = Ok (i', e') -> e' = e /\ noconst i' /\ simE e (IVar v) i'.
Proof.
  intros e v i' e' H. rewrite recreate_S_IVar in H. injection H as <- <-.
  split; [reflexivity|]. split; [nc|apply simE_refl].
Qed.

Lemma rc_break f : forall e i' e',
  RC (S f) e IBreak = Ok (i', e') -> e' = e /\ noconst i' /\ simE e IBreak i'.
Proof.
  intros e i' e' H. rewrite recreate_S_IBreak in H. injection H as <- <-.
  split; [reflexivity|]. split; [nc|apply simE_refl].
Qed.

Lemma rc_continue f : forall e i' e',
  RC (S f) e IContinue = Ok (i', e') -> e' = e /\ noconst i' /\ simE e IContinue i'.
Proof.
  intros e i' e' H. rewrite recreate_S_IContinue in H. injection H as <- <-.
  split; [reflexivity|]. split; [nc|apply simE_refl].
Qed.

Lemma rc_local f : forall e nm lv i' e',
  RC (S f) e (ILocal nm lv) = Ok (i', e') -> e' = e /\ noconst i' /\ simE e (ILocal nm lv) i'.
Proof.
  intros e nm lv i' e' H. rewrite recreate_S_ILocal in H. unfold resolve_name in H.
  destruct (lenv_get nm e) as [[ps r|v|t]|] eqn:Hg; cbn [obind scopes_get] in H; try discriminate H;
    injection H as <- <-; (split; [reflexivity|]); (split; [nc|]).
  - intros sc _ n st _. destruct n; [reflexivity|]. rewrite !exec_S_ILocal. reflexivity.
  - intros sc Ha n st Hok. destruct n; [exfalso; exact (E0_not_ok _ _ _ Hok)|].
    rewrite exec_S_ILocal, exec_S_IVar, (Ha nm v Hg). reflexivity.
  - intros sc _ n st _. destruct n; [reflexivity|]. rewrite !exec_S_ILocal. reflexivity.
Qed.

(* ================================================================= *)
(* one operand, same continuation                                     *)
(* ================================================================= *)
Section Wrap.
Variable C : instr -> instr.
Hypothesis HE : exists k, forall n st sc x, E (S n) st sc (C x) = with_val_def (E n) x st sc k.
Hypothesis Hnc : forall x, noconst (C x).

Lemma wrap_sim e x x' : wfi cl false x = true -> simE e x x' -> simE e (C x) (C x').
Proof.
  intros Wx S sc Ha n st. destruct n as [|n]; [intros Hok; exfalso; exact (E0_not_ok _ _ _ Hok)|].
  destruct HE as [k HEk].
  rewrite !HEk. apply with_val_sim; [apply keepsE; exact Wx|apply S; exact Ha|].
  intros; reflexivity.
Qed.

Lemma rc_wrap f (IH : rexpr f) e x i' e' :
  obind (RC f e x) (fun '(x', e) => Ok (C x', e)) = Ok (i', e') ->
  wfi cl false x = true -> (forall x', i' = C x' -> dok i' = true -> dok x' = true) -> dok i' = true ->
  e' = e /\ noconst i' /\ simE e (C x) i'.
Proof.
  intros H Wx Hd D. inv_bind H p Hp. destruct p as [x' e1]. injection H as <- <-.
  destruct (IH _ _ _ _ Hp Wx (Hd x' eq_refl D)) as [-> [_ S]].
  split; [reflexivity|]. split; [apply Hnc|]. apply wrap_sim; assumption.
Qed.
End Wrap.

Lemma rc_field f (IH : rexpr f) e x fl i' e' :
  RC (S f) e (IFieldAccess x fl) = Ok (i', e') -> wfi cl false x = true -> dok i' = true ->
  e' = e /\ noconst i' /\ simE e (IFieldAccess x fl) i'.
Proof.
  intros H. rewrite recreate_S_IFieldAccess in H.
  intros Wx D.
  refine (rc_wrap (fun x => IFieldAccess x fl) _ _ f IH e x i' e' H Wx _ D).
  - eexists. intros; apply exec_S_IFieldAccess.
  - intros; nc.
  - intros x' -> D'. exact D'.
Qed.

Lemma rc_tuple_access f (IH : rexpr f) e x k i' e' :
  RC (S f) e (ITupleAccess x k) = Ok (i', e') -> wfi cl false x = true -> dok i' = true ->
  e' = e /\ noconst i' /\ simE e (ITupleAccess x k) i'.
Proof.
  intros H. rewrite recreate_S_ITupleAccess in H.
  intros Wx D.
  refine (rc_wrap (fun x => ITupleAccess x k) _ _ f IH e x i' e' H Wx _ D).
  - eexists. intros; apply exec_S_ITupleAccess.
  - intros; nc.
  - intros x' -> D'. exact D'.
Qed.

Lemma rc_mut f (IH : rexpr f) e t x i' e' :
  RC (S f) e (IMut t x) = Ok (i', e') -> wfi cl false x = true -> dok i' = true ->
  e' = e /\ noconst i' /\ simE e (IMut t x) i'.
Proof.
  intros H. rewrite recreate_S_IMut in H.
  intros Wx D.
  refine (rc_wrap (fun x => IMut t x) _ _ f IH e x i' e' H Wx _ D).
  - eexists. intros; apply exec_S_IMut.
  - intros; nc.
  - intros x' -> D'. exact D'.
Qed.

Lemma rc_type_filter f (IH : rexpr f) e t x i' e' :
  RC (S f) e (ITypeFilter x t) = Ok (i', e') -> wfi cl false x = true -> dok i' = true ->
  e' = e /\ noconst i' /\ simE e (ITypeFilter x t) i'.
Proof.
  intros H. change (RC (S f) e (ITypeFilter x t)) with
    (obind (RC f e x) (fun '(x', e) => Ok (ITypeFilter x' t, e))) in H.
  intros Wx D.
  refine (rc_wrap (fun x => ITypeFilter x t) _ _ f IH e x i' e' H Wx _ D).
  - eexists. intros; apply exec_S_ITypeFilter.
  - intros; nc.
  - intros x' -> D'. exact D'.
Qed.

(* ================================================================= *)
(* prefix operators                                                   *)
(* ================================================================= *)
Lemma un_sim e op x x' : un_ok op = true -> wfi cl false x = true ->
  simE e x x' -> simE e (IUn op x) (IUn op x').
Proof.
  intros Ho Wx S sc Ha n st. destruct n as [|n]; [intros Hok; exfalso; exact (E0_not_ok _ _ _ Hok)|].
  rewrite !exec_S_IUn. apply with_val_sim; [apply keepsE; exact Wx|apply S; exact Ha|].
  intros st1 v _. apply un_dispatch_sx. exact Ho.
Qed.

Lemma fold_un_cases op x r : fold_un op x = Ok r ->
  (exists v w, x = IVar v /\ (op = UNot \/ op = UUnaryMinus) /\ unop_exec op v = Ok w /\ r = IVar w) \/
  r = IUn op x.
Proof.
  unfold fold_un, lift_val. intros H.
  destruct op; try (right; injection H as <-; reflexivity);
    (destruct x; try (right; injection H as <-; reflexivity));
    (destruct (unop_exec _ v) as [w| | |] eqn:Eu; cbn [obind] in H; try discriminate H);
    injection H as <-; left; exists v, w; auto.
Qed.

Lemma rc_un f (IH : rexpr f) e op x i' e' :
  RC (S f) e (IUn op x) = Ok (i', e') -> un_ok op = true -> wfi cl false x = true -> dok i' = true ->
  e' = e /\ noconst i' /\ simE e (IUn op x) i'.
Proof.
  intros H Ho Wx D. rewrite recreate_S_IUn in H. inv_bind H p Hp. destruct p as [x' e1].
  inv_bind H r Hr. injection H as <- <-.
  destruct (fold_un_cases _ _ _ Hr) as [[v [w [-> [Hop [Hu ->]]]]]| ->].
  - destruct (IH _ _ _ _ Hp Wx eq_refl) as [-> [_ S]].
    split; [reflexivity|]. split; [nc|].
    intros sc Ha n st Hok. destruct n as [|n]; [exfalso; exact (E0_not_ok _ _ _ Hok)|].
    rewrite exec_S_IUn in Hok |- *. rewrite (with_val_const n sc x v st _ (S sc Ha n) Hok).
    rewrite exec_S_IVar. destruct Hop as [-> | ->]; cbn [un_dispatch]; rewrite Hu; reflexivity.
  - cbn [dok] in D. destruct (IH _ _ _ _ Hp Wx D) as [-> [_ S]].
    split; [reflexivity|]. split; [nc|]. apply un_sim; assumption.
Qed.

(* ================================================================= *)
(* binary operators other than && and ||                              *)
(* ================================================================= *)
Lemma bin_sim e op l l' r r' : op <> And -> op <> Or ->
  wfi cl false l = true -> wfi cl false r = true ->
  simE e l l' -> simE e r r' -> simE e (IBin op l r) (IBin op l' r').
Proof.
  intros NA NO Wl Wr Sl Sr sc Ha n st.
  destruct n as [|n]; [intros Hok; exfalso; exact (E0_not_ok _ _ _ Hok)|].
  rewrite !exec_S_IBin by assumption.
  apply with_val_sim; [apply keepsE; exact Wl|apply Sl; exact Ha|]. intros st1 lv.
  apply with_val_sim; [apply keepsE; exact Wr|apply Sr; exact Ha|]. intros; reflexivity.
Qed.

Lemma bin_dispatch_pure ex m op a b st sc : foldable op = true \/ op = At ->
  bin_dispatch powf pre ex m op a b st sc =
  sig_of_outcome (exec_bin powf op a b) (fun v => (st, sc, SVal v)) st sc.
Proof. intros [H| ->]; [|reflexivity]. destruct op; try discriminate H; reflexivity. Qed.

Lemma foldable_dec op : (foldable op = true \/ op = At) \/ (foldable op = false /\ op <> At).
Proof. destruct op; cbn [foldable]; try (left; left; reflexivity); try (right; split; [reflexivity|discriminate]). left; right; reflexivity. Qed.

Lemma fold_bin_cases op l r x : fold_bin powf op l r = Ok x ->
  (exists a b v, l = IVar a /\ r = IVar b /\ (foldable op = true \/ op = At) /\
                 exec_bin powf op a b = Ok v /\ x = IVar v) \/
  x = IBin op l r.
Proof.
  intros H. destruct (foldable_dec op) as [Hf|[Hf HA]].
  - destruct (is_const l && is_const r) eqn:Ec.
    + apply andb_true_iff in Ec. destruct Ec as [Cl Cr].
      destruct l; try discriminate Cl. destruct r; try discriminate Cr.
      destruct (fold_bin_const_ok powf op v v0 x Hf H) as [w [-> Hw]].
      left. exists v, v0, w. auto.
    + rewrite (fold_bin_nonconst_eq powf op l r Ec) in H.
      destruct (early_err op l r); [discriminate H|]. injection H as <-. right. reflexivity.
  - rewrite (fold_bin_unfolded powf op l r Hf HA) in H. injection H as <-. right. reflexivity.
Qed.

Lemma rc_bin f (IH : rexpr f) e op l r i' e' : op <> And -> op <> Or ->
  RC (S f) e (IBin op l r) = Ok (i', e') ->
  wfi cl false l = true -> wfi cl false r = true -> dok i' = true ->
  e' = e /\ noconst i' /\ simE e (IBin op l r) i'.
Proof.
  intros NA NO H Wl Wr D. rewrite recreate_S_IBin in H by assumption.
  inv_bind H p Hp. destruct p as [l' e1]. inv_bind H q Hq. destruct q as [r' e2].
  inv_bind H x Hx. injection H as <- <-.
  destruct (fold_bin_cases _ _ _ _ Hx) as [[a [b [v [-> [-> [Hf [Hv ->]]]]]]]| ->].
  - destruct (IH _ _ _ _ Hp Wl eq_refl) as [-> [_ Sl]].
    destruct (IH _ _ _ _ Hq Wr eq_refl) as [-> [_ Sr]].
    split; [reflexivity|]. split; [nc|].
    intros sc Ha n st Hok. destruct n as [|n]; [exfalso; exact (E0_not_ok _ _ _ Hok)|].
    rewrite exec_S_IBin in Hok |- * by assumption.
    rewrite (with_val_const n sc l a st _ (Sl sc Ha n) Hok) in Hok |- *.
    rewrite (with_val_const n sc r b st _ (Sr sc Ha n) Hok).
    rewrite exec_S_IVar, (bin_dispatch_pure _ _ _ _ _ _ _ Hf), Hv. reflexivity.
  - cbn [dok] in D. apply andb_true_iff in D. destruct D as [Dl Dr].
    destruct (IH _ _ _ _ Hp Wl Dl) as [-> [_ Sl]].
    destruct (IH _ _ _ _ Hq Wr Dr) as [-> [_ Sr]].
    split; [reflexivity|]. split; [nc|]. apply bin_sim; assumption.
Qed.

(* ================================================================= *)
(* && and ||                                                          *)
(* ================================================================= *)
Definition bool_const (i : instr) : option value :=
  match i with IVar v => Some v | _ => None end.

Lemma and_sim e l l' r r' : wfi cl false l = true ->
  simE e l l' -> simE e r r' -> simE e (IBin And l r) (IBin And l' r').
Proof.
  intros Wl Sl Sr sc Ha n st. destruct n as [|n]; [intros Hok; exfalso; exact (E0_not_ok _ _ _ Hok)|].
  rewrite !exec_S_And. apply with_val_sim; [apply keepsE; exact Wl|apply Sl; exact Ha|].
  intros st1 v. destruct v as [b| | | | | | | | |]; try reflexivity.
  destruct b; [|reflexivity]. apply Sr. exact Ha.
Qed.

Lemma or_sim e l l' r r' : wfi cl false l = true ->
  simE e l l' -> simE e r r' -> simE e (IBin Or l r) (IBin Or l' r').
Proof.
  intros Wl Sl Sr sc Ha n st. destruct n as [|n]; [intros Hok; exfalso; exact (E0_not_ok _ _ _ Hok)|].
  rewrite !exec_S_Or. apply with_val_sim; [apply keepsE; exact Wl|apply Sl; exact Ha|].
  intros st1 v. destruct v as [b| | | | | | | | |]; try reflexivity.
  destruct b; [reflexivity|]. apply Sr. exact Ha.
Qed.

Lemma rc_and f (IH : rexpr f) e l r i' e' :
  RC (S f) e (IBin And l r) = Ok (i', e') ->
  wfi cl false l = true -> wfi cl false r = true -> dok i' = true ->
  e' = e /\ noconst i' /\ simE e (IBin And l r) i'.
Proof.
  intros H Wl Wr D. rewrite recreate_S_And in H. inv_bind H p Hp. destruct p as [l' e1].
  assert (Hc : (exists v, l' = IVar v) \/ is_const l' = false)
    by (destruct l'; try (right; reflexivity); left; eauto).
  destruct Hc as [[v ->]|Hc].
  - destruct (IH _ _ _ _ Hp Wl eq_refl) as [-> [_ Sl]].
    assert (Hv : v = VBool true \/ v <> VBool true).
    { destruct v as [[|]| | | | | | | | |]; try (right; discriminate). left; reflexivity. }
    destruct Hv as [->|Hv].
    + (* l is the constant true: the result is r *)
      destruct (IH _ _ _ _ H Wr D) as [-> [Nc Sr]].
      split; [reflexivity|]. split; [exact Nc|].
      intros sc Ha n st Hok. destruct n as [|n]; [exfalso; exact (E0_not_ok _ _ _ Hok)|].
      rewrite exec_S_And in Hok |- *.
      rewrite (with_val_const n sc l _ st _ (Sl sc Ha n) Hok) in Hok |- *.
      rewrite <- (Sr sc Ha n st Hok) in Hok |- *. apply E_up. exact Hok.
    + (* any other constant: false (a non-boolean would have panicked) *)
      assert (H' : Ok (IVar (VBool false), e) = Ok (i', e')).
      { destruct v as [[|]| | | | | | | | |]; try exact H. exfalso. apply Hv. reflexivity. }
      injection H' as <- <-. split; [reflexivity|]. split; [nc|].
      intros sc Ha n st Hok. destruct n as [|n]; [exfalso; exact (E0_not_ok _ _ _ Hok)|].
      rewrite exec_S_And in Hok |- *.
      rewrite (with_val_const n sc l _ st _ (Sl sc Ha n) Hok) in Hok |- *.
      rewrite exec_S_IVar.
      destruct v as [[|]| | | | | | | | |];
        try (exfalso; exact (okr_panic _ _ Hok)); [exfalso; apply Hv; reflexivity|reflexivity].
  - assert (H' : obind (RC f e1 r) (fun '(r', e) => Ok (IBin And l' r', e)) = Ok (i', e'))
      by (destruct l'; try exact H; discriminate Hc).
    clear H. inv_bind H' q Hq. destruct q as [r' e2]. injection H' as <- <-.
    cbn [dok] in D. apply andb_true_iff in D. destruct D as [Dl Dr].
    destruct (IH _ _ _ _ Hp Wl Dl) as [-> [_ Sl]].
    destruct (IH _ _ _ _ Hq Wr Dr) as [-> [_ Sr]].
    split; [reflexivity|]. split; [nc|]. apply and_sim; assumption.
Qed.

Lemma rc_or f (IH : rexpr f) e l r i' e' :
  RC (S f) e (IBin Or l r) = Ok (i', e') ->
  wfi cl false l = true -> wfi cl false r = true -> dok i' = true ->
  e' = e /\ noconst i' /\ simE e (IBin Or l r) i'.
Proof.
  intros H Wl Wr D. rewrite recreate_S_Or in H. inv_bind H p Hp. destruct p as [l' e1].
  assert (Hc : (exists v, l' = IVar v) \/ is_const l' = false)
    by (destruct l'; try (right; reflexivity); left; eauto).
  destruct Hc as [[v ->]|Hc].
  - destruct (IH _ _ _ _ Hp Wl eq_refl) as [-> [_ Sl]].
    assert (Hv : v = VBool true \/ v <> VBool true).
    { destruct v as [[|]| | | | | | | | |]; try (right; discriminate). left; reflexivity. }
    destruct Hv as [->|Hv].
    + injection H as <- <-. split; [reflexivity|]. split; [nc|].
      intros sc Ha n st Hok. destruct n as [|n]; [exfalso; exact (E0_not_ok _ _ _ Hok)|].
      rewrite exec_S_Or in Hok |- *.
      rewrite (with_val_const n sc l _ st _ (Sl sc Ha n) Hok). rewrite exec_S_IVar. reflexivity.
    + assert (H' : RC f e r = Ok (i', e')).
      { destruct v as [[|]| | | | | | | | |]; try exact H. exfalso. apply Hv. reflexivity. }
      destruct (IH _ _ _ _ H' Wr D) as [-> [Nc Sr]].
      split; [reflexivity|]. split; [exact Nc|].
      intros sc Ha n st Hok. destruct n as [|n]; [exfalso; exact (E0_not_ok _ _ _ Hok)|].
      rewrite exec_S_Or in Hok |- *.
      rewrite (with_val_const n sc l _ st _ (Sl sc Ha n) Hok) in Hok |- *.
      destruct v as [[|]| | | | | | | | |];
        try (exfalso; exact (okr_panic _ _ Hok)); [exfalso; apply Hv; reflexivity|].
      rewrite <- (Sr sc Ha n st Hok) in Hok |- *. apply E_up. exact Hok.
  - assert (H' : obind (RC f e1 r) (fun '(r', e) => Ok (IBin Or l' r', e)) = Ok (i', e'))
      by (destruct l'; try exact H; discriminate Hc).
    clear H. inv_bind H' q Hq. destruct q as [r' e2]. injection H' as <- <-.
    cbn [dok] in D. apply andb_true_iff in D. destruct D as [Dl Dr].
    destruct (IH _ _ _ _ Hp Wl Dl) as [-> [_ Sl]].
    destruct (IH _ _ _ _ Hq Wr Dr) as [-> [_ Sr]].
    split; [reflexivity|]. split; [nc|]. apply or_sim; assumption.
Qed.

(* ================================================================= *)
(* expression lists: tuples, arrays                                   *)
(* ================================================================= *)
Lemma rexprs f (IH : rexpr f) : forall l e l' e',
  rec_list_def (RC f) l e = Ok (l', e') ->
  forallb (wfi cl false) l = true -> forallb dok l' = true ->
  e' = e /\ Forall2 (simE e) l l' /\ Forall nc1 l'.
Proof.
  induction l as [|x l IHl]; intros e l' e' H W D.
  - injection H as <- <-. split; [reflexivity|split; constructor].
  - cbn [rec_list_def] in H. fold (rec_list_def (RC f)) in H.
    inv_bind H p Hp. destruct p as [x' e1]. inv_bind H q Hq. destruct q as [l1 e2].
    injection H as <- <-.
    cbn [forallb] in W, D. apply andb_true_iff in W. apply andb_true_iff in D.
    destruct W as [Wx Wl]. destruct D as [Dx Dl].
    destruct (IH _ _ _ _ Hp Wx Dx) as [-> [[Nx _] Sx]].
    destruct (IHl _ _ _ Hq Wl Dl) as [-> [Sl Nl]].
    split; [reflexivity|]. split; constructor; assumption.
Qed.

Lemma all_vars_map es vs : all_vars es = Some vs -> es = map IVar vs.
Proof.
  revert vs. induction es as [|x es IH]; intros vs H; cbn [all_vars fold_right] in H.
  - injection H as <-. reflexivity.
  - fold (all_vars es) in H. destruct x; try discriminate H.
    destruct (all_vars es) as [r|]; [|discriminate H]. injection H as <-.
    cbn [map]. rewrite (IH r eq_refl). reflexivity.
Qed.

Lemma dok_consts vs : forallb dok (map IVar vs) = true.
Proof. induction vs as [|v vs IH]; [reflexivity|exact IH]. Qed.

Lemma Forall2_at_sc e sc n l l' : agree e sc ->
  Forall2 (simE e) l l' -> Forall2 (sim1 (E n) sc) l l'.
Proof. intros Ha H. induction H; constructor; [apply H; exact Ha|assumption]. Qed.

Lemma keeps_all n l : forallb (wfi cl false) l = true -> Forall (keeps (E n)) l.
Proof. apply forallb_Forall. intros x. apply keepsE. Qed.

(* a list of constants evaluates to those constants *)
Lemma ex_list_consts n vs st sc :
  ex_list_def (E (S n)) (map IVar vs) st sc = (st, sc, Ok vs, SVal VVoid).
Proof.
  induction vs as [|v vs IH]; [reflexivity|]. cbn [map].
  rewrite ex_list_cons, exec_S_IVar, IH. reflexivity.
Qed.

Lemma with_list_consts n sc l vs st k : l <> [] \/ True ->
  Forall (keeps (E n)) l -> Forall2 (sim1 (E n) sc) l (map IVar vs) ->
  okr (with_list_def (E n) l st sc k) ->
  with_list_def (E n) l st sc k = k st sc vs.
Proof.
  intros _ K S Hok. rewrite <- (with_list_sim (E n) sc l (map IVar vs) st k K S Hok).
  destruct n as [|n].
  - (* fuel 0: only the empty list gets through *)
    inversion S as [|x x' l0 l0' Sx S0 El El']; subst.
    + destruct vs; [|discriminate]. reflexivity.
    + exfalso. unfold with_list_def in Hok. rewrite ex_list_cons, exec_O in Hok.
      exact (okr_fuel _ _ Hok).
  - unfold with_list_def. rewrite ex_list_consts. reflexivity.
Qed.

Lemma list_sim e l l' (k : store -> scopes -> list value -> res) (C : list instr -> instr) :
  (forall n st sc l, E (S n) st sc (C l) = with_list_def (E n) l st sc k) ->
  forallb (wfi cl false) l = true -> Forall2 (simE e) l l' -> simE e (C l) (C l').
Proof.
  intros HE W S sc Ha n st. destruct n as [|n]; [intros Hok; exfalso; exact (E0_not_ok _ _ _ Hok)|].
  rewrite !HE. apply with_list_sim; [apply keeps_all; exact W|].
  apply (Forall2_at_sc e); assumption.
Qed.

Lemma list_fold_sim e l vs (k : store -> scopes -> list value -> res) (C : list instr -> instr) w :
  (forall n st sc l, E (S n) st sc (C l) = with_list_def (E n) l st sc k) ->
  (forall st sc, k st sc vs = (st, sc, SVal w)) ->
  forallb (wfi cl false) l = true -> Forall2 (simE e) l (map IVar vs) -> simE e (C l) (IVar w).
Proof.
  intros HE Hk W S sc Ha n st Hok. destruct n as [|n]; [exfalso; exact (E0_not_ok _ _ _ Hok)|].
  rewrite HE in Hok |- *.
  rewrite (with_list_consts n sc l vs st k (or_intror I) (keeps_all n l W)
             (Forall2_at_sc e sc n _ _ Ha S) Hok).
  rewrite exec_S_IVar. symmetry. apply Hk.
Qed.

Lemma rc_tuple f (IH : rexpr f) e es i' e' :
  RC (S f) e (ITuple es) = Ok (i', e') -> forallb (wfi cl false) es = true -> dok i' = true ->
  e' = e /\ noconst i' /\ simE e (ITuple es) i'.
Proof.
  intros H W D. rewrite recreate_S_ITuple in H. inv_bind H p Hp. destruct p as [es' e1].
  destruct (all_vars es') as [vs|] eqn:Hv; injection H as <- <-.
  - apply all_vars_map in Hv. subst es'.
    destruct (rexprs f IH _ _ _ _ Hp W (dok_consts vs)) as [-> [S _]].
    split; [reflexivity|]. split; [nc|].
    apply (list_fold_sim e es vs (fun st sc vs => (st, sc, SVal (VTup vs))) ITuple).
    + intros; apply exec_S_ITuple.
    + reflexivity.
    + exact W.
    + exact S.
  - cbn [dok] in D. destruct (rexprs f IH _ _ _ _ Hp W D) as [-> [S N]].
    split; [reflexivity|]. split; [split; [exact I|exact N]|].
    apply (list_sim e es es' (fun st sc vs => (st, sc, SVal (VTup vs))) ITuple); try assumption.
    intros; apply exec_S_ITuple.
Qed.

Lemma rc_array f (IH : rexpr f) e es et i' e' :
  RC (S f) e (IArray es et) = Ok (i', e') -> forallb (wfi cl false) es = true -> dok i' = true ->
  e' = e /\ noconst i' /\ simE e (IArray es et) i'.
Proof.
  intros H W D. rewrite recreate_S_IArray in H. inv_bind H p Hp. destruct p as [es' e1].
  destruct (all_vars es') as [vs|] eqn:Hv; injection H as <- <-.
  - apply all_vars_map in Hv. subst es'.
    destruct (rexprs f IH _ _ _ _ Hp W (dok_consts vs)) as [-> [S _]].
    split; [reflexivity|]. split; [nc|].
    apply (list_fold_sim e es vs (fun st sc vs => (st, sc, SVal (arr_of vs))) (fun l => IArray l et)).
    + intros; apply exec_S_IArray.
    + reflexivity.
    + exact W.
    + exact S.
  - cbn [dok] in D. destruct (rexprs f IH _ _ _ _ Hp W D) as [-> [S _]].
    split; [reflexivity|]. split; [nc|].
    apply (list_sim e es es' (fun st sc vs => (st, sc, SVal (arr_of vs))) (fun l => IArray l et));
      try assumption.
    intros; apply exec_S_IArray.
Qed.

(* ================================================================= *)
(* [v; n]                                                             *)
(* ================================================================= *)
Lemma fold_repeat_cases v len r : fold_repeat v len = Ok r ->
  (exists x n, v = IVar x /\ len = IVar (VInt n) /\ (n <? 0) = false /\ r = IVar (repeat_value x n)) \/
  r = IArrayRepeat v len.
Proof.
  unfold fold_repeat. intros H.
  destruct len as [ | | | | | | | | | | | | | | | | | | | | | |w| | ];
    try (injection H as <-; right; reflexivity).
  destruct w as [|n| | | | | | | |]; try (injection H as <-; right; reflexivity).
  destruct (n <? 0) eqn:En; [discriminate H|].
  destruct v; try (injection H as <-; right; reflexivity).
  injection H as <-. left. exists v, n. auto.
Qed.

Lemma repeat_sim e v v' len len' : wfi cl false v = true -> wfi cl false len = true ->
  simE e v v' -> simE e len len' -> simE e (IArrayRepeat v len) (IArrayRepeat v' len').
Proof.
  intros Wv Wl Sv Sl sc Ha n st. destruct n as [|n]; [intros Hok; exfalso; exact (E0_not_ok _ _ _ Hok)|].
  rewrite !exec_S_IArrayRepeat.
  apply with_val_sim; [apply keepsE; exact Wv|apply Sv; exact Ha|]. intros st1 x.
  apply with_val_sim; [apply keepsE; exact Wl|apply Sl; exact Ha|]. intros; reflexivity.
Qed.

Lemma rc_repeat f (IH : rexpr f) e v len i' e' :
  RC (S f) e (IArrayRepeat v len) = Ok (i', e') ->
  wfi cl false v = true -> wfi cl false len = true -> dok i' = true ->
  e' = e /\ noconst i' /\ simE e (IArrayRepeat v len) i'.
Proof.
  intros H Wv Wl D. rewrite recreate_S_IArrayRepeat in H.
  inv_bind H p Hp. destruct p as [v' e1]. inv_bind H q Hq. destruct q as [len' e2].
  inv_bind H r Hr. injection H as <- <-.
  destruct (fold_repeat_cases _ _ _ Hr) as [[x [n [-> [-> [Hn ->]]]]]| ->].
  - destruct (IH _ _ _ _ Hp Wv eq_refl) as [-> [_ Sv]].
    destruct (IH _ _ _ _ Hq Wl eq_refl) as [-> [_ Sl]].
    split; [reflexivity|]. split; [nc|].
    intros sc Ha m st Hok. destruct m as [|m]; [exfalso; exact (E0_not_ok _ _ _ Hok)|].
    rewrite exec_S_IArrayRepeat in Hok |- *.
    rewrite (with_val_const m sc v x st _ (Sv sc Ha m) Hok) in Hok |- *.
    rewrite (with_val_const m sc len _ st _ (Sl sc Ha m) Hok).
    rewrite Hn, exec_S_IVar. reflexivity.
  - cbn [dok] in D. apply andb_true_iff in D. destruct D as [Dv Dl].
    destruct (IH _ _ _ _ Hp Wv Dv) as [-> [_ Sv]].
    destruct (IH _ _ _ _ Hq Wl Dl) as [-> [_ Sl]].
    split; [reflexivity|]. split; [nc|]. apply repeat_sim; assumption.
Qed.

(* ================================================================= *)
(* struct literals                                                    *)
(* ================================================================= *)
Lemma rfields f (IH : rexpr f) : forall fs e fs' e',
  rec_fields_def (RC f) fs e = Ok (fs', e') ->
  forallb (fun kv => wfi cl false (snd kv)) fs = true ->
  forallb (fun kv => dok (snd kv)) fs' = true ->
  e' = e /\ fields_rel (simE e) fs fs'.
Proof.
  induction fs as [|[k x] fs IHl]; intros e fs' e' H W D.
  - injection H as <- <-. split; [reflexivity|constructor].
  - cbn [rec_fields_def] in H. fold (rec_fields_def (RC f)) in H.
    inv_bind H p Hp. destruct p as [x' e1]. inv_bind H q Hq. destruct q as [l1 e2].
    injection H as <- <-.
    cbn [forallb snd] in W, D. apply andb_true_iff in W. apply andb_true_iff in D.
    destruct W as [Wx Wl]. destruct D as [Dx Dl].
    destruct (IH _ _ _ _ Hp Wx Dx) as [-> [_ Sx]].
    destruct (IHl _ _ _ Hq Wl Dl) as [-> Sl].
    split; [reflexivity|]. constructor; assumption.
Qed.

Lemma fields_at_sc e sc n fs fs' : agree e sc ->
  fields_rel (simE e) fs fs' -> fields_rel (sim1 (E n) sc) fs fs'.
Proof. intros Ha H. induction H; constructor; [apply H; exact Ha|assumption]. Qed.

Lemma rc_struct f (IH : rexpr f) e fs i' e' :
  RC (S f) e (IStruct fs) = Ok (i', e') ->
  forallb (fun kv => wfi cl false (snd kv)) fs = true -> dok i' = true ->
  e' = e /\ noconst i' /\ simE e (IStruct fs) i'.
Proof.
  intros H W D. rewrite recreate_S_IStruct in H. inv_bind H p Hp. destruct p as [fs' e1].
  injection H as <- <-. cbn [dok] in D.
  destruct (rfields f IH _ _ _ _ Hp W D) as [-> S].
  split; [reflexivity|]. split; [nc|].
  intros sc Ha n st. destruct n as [|n]; [intros Hok; exfalso; exact (E0_not_ok _ _ _ Hok)|].
  rewrite !exec_S_IStruct. apply struct_sim.
  - revert W. apply forallb_Forall. intros kv. apply keepsE.
  - apply (fields_at_sc e); assumption.
Qed.

(* ================================================================= *)
(* slices                                                             *)
(* ================================================================= *)
Lemma ropt f (IH : rexpr f) o e o' e' :
  rec_opt_def (RC f) o e = Ok (o', e') -> wf_opt cl o = true -> dok_opt o' = true ->
  e' = e /\ opt_rel (simE e) o o'.
Proof.
  destruct o as [x|]; cbn [rec_opt_def]; intros H W D.
  - inv_bind H p Hp. destruct p as [x' e1]. injection H as <- <-.
    destruct (IH _ _ _ _ Hp W D) as [-> [_ S]]. split; [reflexivity|exact S].
  - injection H as <- <-. split; [reflexivity|exact I].
Qed.

Lemma opt_at_sc e sc n o o' : agree e sc -> opt_rel (simE e) o o' -> opt_rel (sim1 (E n) sc) o o'.
Proof. intros Ha. destruct o, o'; cbn [opt_rel]; auto. Qed.

Lemma opt_keepsE n o : wf_opt cl o = true -> opt_keeps (E n) o.
Proof. destruct o as [x|]; [apply keepsE|intros; exact I]. Qed.

Lemma rc_slicing f (IH : rexpr f) e l a b c i' e' :
  RC (S f) e (ISlicing l a b c) = Ok (i', e') ->
  wfi cl false l = true -> wf_opt cl a = true -> wf_opt cl b = true -> wf_opt cl c = true ->
  dok i' = true ->
  e' = e /\ noconst i' /\ simE e (ISlicing l a b c) i'.
Proof.
  intros H Wl Wa Wb Wc D. rewrite recreate_S_ISlicing in H.
  inv_bind H p Hp. destruct p as [l' e1]. inv_bind H qa Ha. destruct qa as [a' e2].
  inv_bind H qb Hb. destruct qb as [b' e3]. inv_bind H qc Hc. destruct qc as [c' e4].
  injection H as <- <-. cbn [dok] in D.
  fold (dok_opt a') in D. fold (dok_opt b') in D. fold (dok_opt c') in D.
  repeat rewrite andb_true_iff in D. destruct D as [[[Dl Da] Db] Dc].
  destruct (IH _ _ _ _ Hp Wl Dl) as [-> [_ Sl]].
  destruct (ropt f IH _ _ _ _ Ha Wa Da) as [-> Sa].
  destruct (ropt f IH _ _ _ _ Hb Wb Db) as [-> Sb].
  destruct (ropt f IH _ _ _ _ Hc Wc Dc) as [-> Sc].
  split; [reflexivity|]. split; [nc|].
  intros sc Hag n st. destruct n as [|n]; [intros Hok; exfalso; exact (E0_not_ok _ _ _ Hok)|].
  rewrite !exec_S_ISlicing.
  apply with_val_sim; [apply keepsE; exact Wl|apply Sl; exact Hag|]. intros st1 lv.
  apply opt_sim; [apply opt_keepsE; exact Wa|apply (opt_at_sc e); assumption|]. intros st2 av.
  apply opt_sim; [apply opt_keepsE; exact Wb|apply (opt_at_sc e); assumption|]. intros st3 bv.
  apply opt_sim; [apply opt_keepsE; exact Wc|apply (opt_at_sc e); assumption|]. intros; reflexivity.
Qed.

(* ================================================================= *)
(* reduce                                                             *)
(* ================================================================= *)
Lemma rc_reduce f (IH : rexpr f) e a b c i' e' :
  RC (S f) e (IReduce a b c) = Ok (i', e') ->
  wfi cl false a = true -> wfi cl false b = true -> wfi cl false c = true -> dok i' = true ->
  e' = e /\ noconst i' /\ simE e (IReduce a b c) i'.
Proof.
  intros H Wa Wb Wc D.
  change (RC (S f) e (IReduce a b c)) with
    (obind (RC f e a) (fun '(it', e) => obind (RC f e b) (fun '(init', e) =>
     obind (RC f e c) (fun '(f', e) => Ok (IReduce it' init' f', e))))) in H.
  inv_bind H p Hp. destruct p as [a' e1]. inv_bind H q Hq. destruct q as [b' e2].
  inv_bind H r Hr. destruct r as [c' e3]. injection H as <- <-.
  cbn [dok] in D. repeat rewrite andb_true_iff in D. destruct D as [[Da Db] Dc].
  destruct (IH _ _ _ _ Hp Wa Da) as [-> [_ Sa]].
  destruct (IH _ _ _ _ Hq Wb Db) as [-> [_ Sb]].
  destruct (IH _ _ _ _ Hr Wc Dc) as [-> [_ Sc]].
  split; [reflexivity|]. split; [nc|].
  intros sc Hag n st. destruct n as [|n]; [intros Hok; exfalso; exact (E0_not_ok _ _ _ Hok)|].
  rewrite !exec_S_IReduce.
  apply with_val_sim; [apply keepsE; exact Wa|apply Sa; exact Hag|]. intros st1 itv.
  apply with_val_sim; [apply keepsE; exact Wb|apply Sb; exact Hag|]. intros st2 initv.
  apply with_val_sim; [apply keepsE; exact Wc|apply Sc; exact Hag|]. intros; reflexivity.
Qed.

End Sim.

(* TyFuel.v — size facts, list extensionality, fuel irrelevance and the
   one-step unfolding equations of ty_eqb / matches / conjoin.
   Everything after this file uses only the *_unfold equations, never fuel. *)
From SSL.Model Require Import Base Ty.

(* ---------- generic list facts ---------- *)
Lemma forallb_ext_in {A} (f g : A -> bool) l :
  (forall x, In x l -> f x = g x) -> forallb f l = forallb g l.
Proof.
  induction l as [|a l IH]; cbn [forallb]; intros H; [reflexivity|].
  rewrite (H a) by (left; reflexivity). rewrite IH; [reflexivity|].
  intros x Hx. apply H. right. exact Hx.
Qed.

Lemma existsb_ext_in {A} (f g : A -> bool) l :
  (forall x, In x l -> f x = g x) -> existsb f l = existsb g l.
Proof.
  induction l as [|a l IH]; cbn [existsb]; intros H; [reflexivity|].
  rewrite (H a) by (left; reflexivity). rewrite IH; [reflexivity|].
  intros x Hx. apply H. right. exact Hx.
Qed.

Lemma map_ext_in' {A B} (f g : A -> B) l :
  (forall x, In x l -> f x = g x) -> map f l = map g l.
Proof.
  induction l as [|a l IH]; cbn [map]; intros H; [reflexivity|].
  rewrite (H a) by (left; reflexivity). rewrite IH; [reflexivity|].
  intros x Hx. apply H. right. exact Hx.
Qed.

Lemma all2_ext_in {A B} (f g : A -> B -> bool) l1 l2 :
  (forall x y, In x l1 -> In y l2 -> f x y = g x y) -> all2 f l1 l2 = all2 g l1 l2.
Proof.
  revert l2. induction l1 as [|a l1 IH]; intros [|b l2] H; cbn [all2]; try reflexivity.
  rewrite (H a b) by (left; reflexivity). rewrite IH; [reflexivity|].
  intros x y Hx Hy. apply H; right; assumption.
Qed.

Lemma zip_with_ext_in {A B C} (f g : A -> B -> C) l1 l2 :
  (forall x y, In x l1 -> In y l2 -> f x y = g x y) -> zip_with f l1 l2 = zip_with g l1 l2.
Proof.
  revert l2. induction l1 as [|a l1 IH]; intros [|b l2] H; cbn [zip_with]; try reflexivity.
  rewrite (H a b) by (left; reflexivity). rewrite IH; [reflexivity|].
  intros x y Hx Hy. apply H; right; assumption.
Qed.

(* ---------- identifiers and association lists ---------- *)
Lemma ident_eqb_eq a b : ident_eqb a b = true <-> a = b.
Proof.
  revert b. induction a as [|x a IH]; intros [|y b]; cbn [ident_eqb]; split; intros H;
    try reflexivity; try discriminate.
  - apply andb_true_iff in H. destruct H as [H1 H2]. apply Z.eqb_eq in H1. apply IH in H2.
    subst. reflexivity.
  - injection H as -> ->. rewrite Z.eqb_refl. cbn [andb]. apply IH. reflexivity.
Qed.

Lemma ident_eqb_refl a : ident_eqb a a = true.
Proof. apply ident_eqb_eq. reflexivity. Qed.

Lemma ident_eqb_sym a b : ident_eqb a b = ident_eqb b a.
Proof.
  destruct (ident_eqb a b) eqn:E1, (ident_eqb b a) eqn:E2; try reflexivity.
  - apply ident_eqb_eq in E1. subst. rewrite ident_eqb_refl in E2. discriminate.
  - apply ident_eqb_eq in E2. subst. rewrite ident_eqb_refl in E1. discriminate.
Qed.

Lemma assoc_in {V} k (l : list (ident * V)) v : assoc k l = Some v -> In (k, v) l.
Proof.
  induction l as [|[k' v'] l IH]; cbn [assoc]; [discriminate|].
  destruct (ident_eqb k k') eqn:E.
  - intros H. injection H as ->. apply ident_eqb_eq in E. subst. left. reflexivity.
  - intros H. right. apply IH. exact H.
Qed.

Lemma assoc_none {V} k (l : list (ident * V)) :
  assoc k l = None <-> existsb (fun kv => ident_eqb k (fst kv)) l = false.
Proof.
  induction l as [|[k' v'] l IH]; cbn [assoc existsb fst]; [tauto|].
  destruct (ident_eqb k k'); cbn [orb]; [split; discriminate|exact IH].
Qed.

Lemma in_assoc_nodup {V} k v (l : list (ident * V)) :
  nodup_keys l = true -> In (k, v) l -> assoc k l = Some v.
Proof.
  induction l as [|[k' v'] l IH]; cbn [nodup_keys assoc In]; [tauto|].
  intros Hnd Hin. apply andb_true_iff in Hnd. destruct Hnd as [Hn1 Hn2].
  destruct Hin as [Heq|Hin].
  - injection Heq as -> ->. rewrite ident_eqb_refl. reflexivity.
  - destruct (ident_eqb k k') eqn:E.
    + exfalso. apply ident_eqb_eq in E. subst k'.
      apply negb_true_iff in Hn1.
      assert (Hex : existsb (fun kv : ident * V => ident_eqb k (fst kv)) l = true).
      { apply existsb_exists. exists (k, v). split; [exact Hin|]. cbn [fst]. apply ident_eqb_refl. }
      rewrite Hex in Hn1. discriminate.
    + apply IH; assumption.
Qed.

(* ---------- size ---------- *)
Lemma size_pos a : 1 <= size a.
Proof. destruct a; cbn [size]; lia. Qed.

Lemma in_sizes x l : In x l -> size x <= sizes_with size l.
Proof.
  induction l as [|y l IH]; cbn [In sizes_with fold_right]; [tauto|].
  intros [->|H]; [lia|]. apply IH in H. unfold sizes_with in H. lia.
Qed.

Lemma in_fsizes (x : ident * ty) l :
  In x l -> size (snd x) <= sizes_with (fun p => size (snd p)) l.
Proof.
  induction l as [|y l IH]; cbn [In sizes_with fold_right]; [tauto|].
  intros [->|H]; [lia|]. apply IH in H. unfold sizes_with in H. lia.
Qed.

Lemma assoc_size k (l : list (ident * ty)) v :
  assoc k l = Some v -> size v <= sizes_with (fun p => size (snd p)) l.
Proof. intros H. apply assoc_in in H. apply in_fsizes in H. exact H. Qed.

Ltac szs :=
  repeat match goal with
  | H : In _ _ |- _ => first [apply in_sizes in H | apply in_fsizes in H]
  | H : assoc _ _ = Some _ |- _ => apply assoc_size in H
  end;
  cbn [size snd fst] in *; lia.

(* strong induction on size, one, two and three types *)
Lemma ty_size_ind (P : ty -> Prop) :
  (forall a, (forall x, size x < size a -> P x) -> P a) -> forall a, P a.
Proof.
  intros H a. remember (size a) as n eqn:En. revert a En.
  induction n as [n IH] using lt_wf_ind. intros a En. apply H. intros x Hx.
  apply (IH (size x)); [lia|reflexivity].
Qed.

Lemma ty_size_ind2 (P : ty -> ty -> Prop) :
  (forall a b, (forall x y, size x + size y < size a + size b -> P x y) -> P a b) ->
  forall a b, P a b.
Proof.
  intros H a b. remember (size a + size b) as n eqn:En. revert a b En.
  induction n as [n IH] using lt_wf_ind. intros a b En. apply H. intros x y Hxy.
  apply (IH (size x + size y)); [lia|reflexivity].
Qed.

Lemma ty_size_ind3 (P : ty -> ty -> ty -> Prop) :
  (forall a b c,
     (forall x y z, size x + size y + size z < size a + size b + size c -> P x y z) -> P a b c) ->
  forall a b c, P a b c.
Proof.
  intros H a b c. remember (size a + size b + size c) as n eqn:En. revert a b c En.
  induction n as [n IH] using lt_wf_ind. intros a b c En. apply H. intros x y z Hxyz.
  apply (IH (size x + size y + size z)); [lia|reflexivity].
Qed.

(* ---------- one-step functionals ---------- *)
Definition eqb_step (E : ty -> ty -> bool) (a b : ty) : bool :=
  let sub := fun (l1 l2 : list ty) =>
    forallb (fun x => existsb (fun y => E x y) l2) l1 in
  let fsub := fun (l1 l2 : list (ident * ty)) =>
    forallb (fun x => match assoc (fst x) l2 with
                      | Some t => E (snd x) t | None => false end) l1 in
  match a, b with
  | TBool, TBool | TInt, TInt | TFloat, TFloat | TString, TString
  | TVoid, TVoid | TAny, TAny | TNever, TNever => true
  | TFun p1 r1, TFun p2 r2 => all2 E p1 p2 && E r1 r2
  | TArr e1, TArr e2 | TMut e1, TMut e2 => E e1 e2
  | TTup t1, TTup t2 => all2 E t1 t2
  | TMulti m1, TMulti m2 =>
      Nat.eqb (length m1) (length m2) && sub m1 m2 && sub m2 m1
  | TStruct f1, TStruct f2 =>
      Nat.eqb (length f1) (length f2) && fsub f1 f2 && fsub f2 f1
  | _, _ => false
  end.

Definition matches_step (M : ty -> ty -> bool) (a b : ty) : bool :=
  match a, b with
  | TNever, _ => true
  | TFun p1 r1, TFun p2 r2 =>
      all2 (fun x y => M y x) p1 p2 && M r1 r2
  | TArr e1, TArr e2 => M e1 e2
  | TStruct f1, TStruct f2 =>
      forallb (fun kv2 => match assoc (fst kv2) f1 with
                          | Some t1 => M t1 (snd kv2) | None => false end) f2
  | TMulti ms, _ => forallb (fun m => M m b) ms
  | _, TMulti ms => existsb (fun m => M a m) ms
  | _, TAny => true
  | TTup t1, TTup t2 => all2 M t1 t2
  | _, _ => ty_eqb a b
  end.

Definition conjoin_step (C : ty -> ty -> ty) (a b : ty) : ty :=
  if ty_eqb a b then a else
  match a, b with
  | o, TAny => o
  | TAny, o => o
  | TArr e1, TArr e2 => TArr (C e1 e2)
  | TTup t1, TTup t2 =>
      if Nat.eqb (length t1) (length t2) then TTup (zip_with C t1 t2) else TNever
  | TMulti ms, o =>
      match concat_all (map (fun m => C m o) ms) with Some t => t | None => TNever end
  | o, TMulti ms =>
      match concat_all (map (fun m => C m o) ms) with Some t => t | None => TNever end
  | TFun p1 r1, TFun p2 r2 =>
      if Nat.eqb (length p1) (length p2) then
        let r := C r1 r2 in
        if ty_eqb r TNever then TNever else TFun (zip_with concat p1 p2) r
      else TNever
  | _, _ => TNever
  end.

Lemma eqb_f_S n a b : eqb_f (S n) a b = eqb_step (eqb_f n) a b.
Proof. reflexivity. Qed.
Lemma matches_f_S n a b : matches_f (S n) a b = matches_step (matches_f n) a b.
Proof. reflexivity. Qed.
Lemma conjoin_f_S n a b : conjoin_f (S n) a b = conjoin_step (conjoin_f n) a b.
Proof. reflexivity. Qed.

(* the step functionals only look at strictly smaller pairs *)
Lemma eqb_step_ext E E' a b :
  (forall x y, size x + size y < size a + size b -> E x y = E' x y) ->
  eqb_step E a b = eqb_step E' a b.
Proof.
  intros H.
  destruct a as [| | | | | | |p1 r1|e1|t1|m1|e1|f1], b as [| | | | | | |p2 r2|e2|t2|m2|e2|f2];
    unfold eqb_step; try reflexivity.
  - f_equal; [apply all2_ext_in; intros x y Hx Hy|]; apply H; szs.
  - apply H; szs.
  - apply all2_ext_in; intros x y Hx Hy; apply H; szs.
  - f_equal; [f_equal|]; apply forallb_ext_in; intros x Hx; apply existsb_ext_in; intros y Hy;
      apply H; szs.
  - apply H; szs.
  - f_equal; [f_equal|]; apply forallb_ext_in; intros x Hx;
      destruct (assoc (fst x) _) as [t|] eqn:Ha; try reflexivity; apply H; szs.
Qed.

Lemma matches_step_ext M M' a b :
  (forall x y, size x + size y < size a + size b -> M x y = M' x y) ->
  matches_step M a b = matches_step M' a b.
Proof.
  intros H.
  destruct a as [| | | | | | |p1 r1|e1|t1|m1|e1|f1], b as [| | | | | | |p2 r2|e2|t2|m2|e2|f2];
    unfold matches_step; try reflexivity;
    try (apply existsb_ext_in; intros x Hx; apply H; szs);
    try (apply forallb_ext_in; intros x Hx; apply H; szs).
  - f_equal; [apply all2_ext_in; intros x y Hx Hy|]; apply H; szs.
  - apply H; szs.
  - apply all2_ext_in; intros x y Hx Hy; apply H; szs.
  - apply forallb_ext_in; intros x Hx.
    destruct (assoc (fst x) _) as [t|] eqn:Ha; try reflexivity; apply H; szs.
Qed.

Lemma conjoin_step_ext C C' a b :
  (forall x y, size x + size y < size a + size b -> C x y = C' x y) ->
  conjoin_step C a b = conjoin_step C' a b.
Proof.
  intros H. unfold conjoin_step. destruct (ty_eqb a b); [reflexivity|].
  assert (Hml : forall ms o, (forall m, In m ms -> size m + size o < size a + size b) ->
            map (fun m => C m o) ms = map (fun m => C' m o) ms).
  { intros ms o Hm. apply map_ext_in'. intros m Hin. apply H. apply Hm. exact Hin. }
  destruct a as [| | | | | | |p1 r1|e1|t1|m1|e1|f1], b as [| | | | | | |p2 r2|e2|t2|m2|e2|f2];
    try reflexivity;
    try (rewrite Hml; [reflexivity|intros m Hin; szs]).
  - rewrite (H r1 r2) by szs. reflexivity.
  - rewrite (H e1 e2) by szs. reflexivity.
  - rewrite (zip_with_ext_in C C' t1 t2); [reflexivity|]. intros x y Hx Hy. apply H. szs.
Qed.

(* ---------- fuel irrelevance ---------- *)
Lemma eqb_f_fuel : forall n m a b,
  size a + size b <= n -> size a + size b <= m -> eqb_f n a b = eqb_f m a b.
Proof.
  induction n as [|n IH]; intros m a b Hn Hm.
  - pose proof (size_pos a). lia.
  - destruct m as [|m]; [pose proof (size_pos a); lia|].
    rewrite !eqb_f_S. apply eqb_step_ext. intros x y Hxy. apply IH; lia.
Qed.

Lemma matches_f_fuel : forall n m a b,
  size a + size b <= n -> size a + size b <= m -> matches_f n a b = matches_f m a b.
Proof.
  induction n as [|n IH]; intros m a b Hn Hm.
  - pose proof (size_pos a). lia.
  - destruct m as [|m]; [pose proof (size_pos a); lia|].
    rewrite !matches_f_S. apply matches_step_ext. intros x y Hxy. apply IH; lia.
Qed.

Lemma conjoin_f_fuel : forall n m a b,
  size a + size b <= n -> size a + size b <= m -> conjoin_f n a b = conjoin_f m a b.
Proof.
  induction n as [|n IH]; intros m a b Hn Hm.
  - pose proof (size_pos a). lia.
  - destruct m as [|m]; [pose proof (size_pos a); lia|].
    rewrite !conjoin_f_S. apply conjoin_step_ext. intros x y Hxy. apply IH; lia.
Qed.

(* ---------- unfolding equations for the wrappers ---------- *)
Lemma ty_eqb_step a b : ty_eqb a b = eqb_step ty_eqb a b.
Proof.
  unfold ty_eqb at 1. pose proof (size_pos a) as Ha.
  destruct (size a + size b) as [|k] eqn:Ek; [lia|].
  rewrite eqb_f_S. apply eqb_step_ext. intros x y Hxy.
  unfold ty_eqb. apply eqb_f_fuel; lia.
Qed.

Lemma matches_step_eq a b : matches a b = matches_step matches a b.
Proof.
  unfold matches at 1. pose proof (size_pos a) as Ha.
  destruct (size a + size b) as [|k] eqn:Ek; [lia|].
  rewrite matches_f_S. apply matches_step_ext. intros x y Hxy.
  unfold matches. apply matches_f_fuel; lia.
Qed.

Lemma conjoin_step_eq a b : conjoin a b = conjoin_step conjoin a b.
Proof.
  unfold conjoin at 1. pose proof (size_pos a) as Ha.
  destruct (size a + size b) as [|k] eqn:Ek; [lia|].
  rewrite conjoin_f_S. apply conjoin_step_ext. intros x y Hxy.
  unfold conjoin. apply conjoin_f_fuel; lia.
Qed.

(* The same equations with the right-hand side spelled out. *)
Lemma ty_eqb_unfold a b :
  ty_eqb a b =
  match a, b with
  | TBool, TBool | TInt, TInt | TFloat, TFloat | TString, TString
  | TVoid, TVoid | TAny, TAny | TNever, TNever => true
  | TFun p1 r1, TFun p2 r2 => all2 ty_eqb p1 p2 && ty_eqb r1 r2
  | TArr e1, TArr e2 | TMut e1, TMut e2 => ty_eqb e1 e2
  | TTup t1, TTup t2 => all2 ty_eqb t1 t2
  | TMulti m1, TMulti m2 =>
      Nat.eqb (length m1) (length m2)
      && forallb (fun x => existsb (fun y => ty_eqb x y) m2) m1
      && forallb (fun x => existsb (fun y => ty_eqb x y) m1) m2
  | TStruct f1, TStruct f2 =>
      Nat.eqb (length f1) (length f2)
      && forallb (fun x => match assoc (fst x) f2 with
                           | Some t => ty_eqb (snd x) t | None => false end) f1
      && forallb (fun x => match assoc (fst x) f1 with
                           | Some t => ty_eqb (snd x) t | None => false end) f2
  | _, _ => false
  end.
Proof. rewrite ty_eqb_step. reflexivity. Qed.

Lemma matches_unfold a b :
  matches a b =
  match a, b with
  | TNever, _ => true
  | TFun p1 r1, TFun p2 r2 =>
      all2 (fun x y => matches y x) p1 p2 && matches r1 r2
  | TArr e1, TArr e2 => matches e1 e2
  | TStruct f1, TStruct f2 =>
      forallb (fun kv2 => match assoc (fst kv2) f1 with
                          | Some t1 => matches t1 (snd kv2) | None => false end) f2
  | TMulti ms, _ => forallb (fun m => matches m b) ms
  | _, TMulti ms => existsb (fun m => matches a m) ms
  | _, TAny => true
  | TTup t1, TTup t2 => all2 matches t1 t2
  | _, _ => ty_eqb a b
  end.
Proof. rewrite matches_step_eq. reflexivity. Qed.

Lemma conjoin_unfold a b :
  conjoin a b =
  if ty_eqb a b then a else
  match a, b with
  | o, TAny => o
  | TAny, o => o
  | TArr e1, TArr e2 => TArr (conjoin e1 e2)
  | TTup t1, TTup t2 =>
      if Nat.eqb (length t1) (length t2) then TTup (zip_with conjoin t1 t2) else TNever
  | TMulti ms, o =>
      match concat_all (map (fun m => conjoin m o) ms) with Some t => t | None => TNever end
  | o, TMulti ms =>
      match concat_all (map (fun m => conjoin m o) ms) with Some t => t | None => TNever end
  | TFun p1 r1, TFun p2 r2 =>
      if Nat.eqb (length p1) (length p2) then
        let r := conjoin r1 r2 in
        if ty_eqb r TNever then TNever else TFun (zip_with concat p1 p2) r
      else TNever
  | _, _ => TNever
  end.
Proof. rewrite conjoin_step_eq. reflexivity. Qed.

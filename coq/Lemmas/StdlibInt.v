(* StdlibInt.v — C18: the integer helpers of std.math meet docs/stdlib.md.
   Bit counting (count_ones/zeros, leading/trailing runs), byte swap and bit reversal on the
   64-bit two's-complement pattern, integer logarithms.  All statements are for every i64
   (or every integer), by proof. *)
From SSL.Model Require Import Base Ty Float Value Stdlib.
From Coq Require Import ZArith Lia List Bool.

Local Open Scope Z_scope.

(* ================================================================= *)
(* 64-bit patterns                                                   *)
(* ================================================================= *)
Lemma two64_pow : two64 = 2 ^ 64. Proof. reflexivity. Qed.
Lemma two63_pow : two63 = 2 ^ 63. Proof. reflexivity. Qed.

Lemma u64_range z : 0 <= u64 z < two64.
Proof. unfold u64. apply Z.mod_pos_bound. reflexivity. Qed.

Lemma u64_bits_high z i : 64 <= i -> Z.testbit (u64 z) i = false.
Proof. intros H. unfold u64. rewrite two64_pow. apply Z.mod_pow2_bits_high. lia. Qed.

Lemma u64_bits_low z i : 0 <= i < 64 -> Z.testbit (u64 z) i = Z.testbit z i.
Proof. intros H. unfold u64. rewrite two64_pow. apply Z.mod_pow2_bits_low. lia. Qed.

Lemma u64_wrap64 x : u64 (wrap64 x) = u64 x.
Proof.
  unfold u64, wrap64. rewrite Zminus_mod_idemp_l. f_equal. lia.
Qed.

Lemma wrap64_u64 z : in_i64 z -> wrap64 (u64 z) = z.
Proof.
  unfold in_i64, MIN_INT, MAX_INT, wrap64, u64. intros H.
  rewrite Zplus_mod_idemp_l. rewrite Z.mod_small; unfold two63, two64 in *; lia.
Qed.

Lemma wrap64_in_i64 x : in_i64 (wrap64 x).
Proof.
  unfold in_i64, wrap64, MIN_INT, MAX_INT.
  pose proof (Z.mod_pos_bound (x + two63) two64 eq_refl). unfold two63, two64 in *. lia.
Qed.

Lemma u64_zero_iff z : in_i64 z -> (u64 z = 0 <-> z = 0).
Proof.
  intros H. split.
  - intros E. rewrite <- (wrap64_u64 z H). rewrite E. reflexivity.
  - intros ->. reflexivity.
Qed.

(* a non-negative number below 2^64 is determined by its 64 low bits *)
Lemma bits64_inj a b :
  (forall i, 64 <= i -> Z.testbit a i = false) ->
  (forall i, 64 <= i -> Z.testbit b i = false) ->
  (forall i, 0 <= i < 64 -> Z.testbit a i = Z.testbit b i) -> a = b.
Proof.
  intros Ha Hb H. apply Z.bits_inj'. intros i Hi.
  destruct (Z_lt_le_dec i 64) as [L|G].
  - apply H. lia.
  - rewrite Ha, Hb by exact G. reflexivity.
Qed.

Lemma all_bits_zero u : 0 <= u < two64 -> (forall i, 0 <= i < 64 -> Z.testbit u i = false) -> u = 0.
Proof.
  intros R H. apply Z.bits_inj'. intros i Hi. rewrite Z.bits_0.
  destruct (Z_lt_le_dec i 64) as [L|G]; [apply H; lia|].
  rewrite <- (Z.mod_small u two64 R). rewrite two64_pow. apply Z.mod_pow2_bits_high. lia.
Qed.

(* ================================================================= *)
(* count_ones / count_zeros                                          *)
(* ================================================================= *)
Lemma count_bits_compl u n : count_bits true u n + count_bits false u n = Z.of_nat n.
Proof.
  induction n as [|n IH]; [reflexivity|].
  cbn [count_bits]. rewrite Nat2Z.inj_succ.
  destruct (Z.testbit u (Z.of_nat n)); cbn [Bool.eqb]; lia.
Qed.

Lemma count_bits_range b u n : 0 <= count_bits b u n <= Z.of_nat n.
Proof.
  induction n as [|n IH]; [cbn; lia|].
  cbn [count_bits]. rewrite Nat2Z.inj_succ.
  destruct (Bool.eqb (Z.testbit u (Z.of_nat n)) b); lia.
Qed.

Theorem count_ones_zeros : forall z, count_ones z + count_zeros z = 64.
Proof. intros z. unfold count_ones, count_zeros. rewrite count_bits_compl. reflexivity. Qed.

Theorem count_ones_range : forall z, 0 <= count_ones z <= 64.
Proof. intros z. exact (count_bits_range true (u64 z) 64). Qed.
Theorem count_zeros_range : forall z, 0 <= count_zeros z <= 64.
Proof. intros z. exact (count_bits_range false (u64 z) 64). Qed.

Theorem count_ones_minus_one : count_ones (-1) = 64. Proof. vm_compute. reflexivity. Qed.
Theorem count_ones_zero : count_ones 0 = 0. Proof. vm_compute. reflexivity. Qed.
Theorem count_zeros_minus_one : count_zeros (-1) = 0. Proof. vm_compute. reflexivity. Qed.
Theorem count_zeros_zero : count_zeros 0 = 64. Proof. vm_compute. reflexivity. Qed.
Theorem count_ones_min : count_ones MIN_INT = 1. Proof. vm_compute. reflexivity. Qed.
Theorem count_ones_max : count_ones MAX_INT = 63. Proof. vm_compute. reflexivity. Qed.

(* no position counted <-> no position set *)
Lemma count_bits_zero_iff b u n :
  count_bits b u n = 0 <-> forall i, (i < n)%nat -> Z.testbit u (Z.of_nat i) = negb b.
Proof.
  induction n as [|n IH].
  - split; [intros _ i Hi; lia|reflexivity].
  - cbn [count_bits]. pose proof (count_bits_range b u n) as R. split.
    + intros H i Hi.
      destruct (Bool.eqb (Z.testbit u (Z.of_nat n)) b) eqn:E; [lia|].
      destruct (Nat.eq_dec i n) as [->|Ne].
      * destruct (Z.testbit u (Z.of_nat n)), b; cbn in E |- *; congruence.
      * apply IH; [lia|lia].
    + intros H. rewrite (H n (Nat.lt_succ_diag_r n)).
      assert (E : Bool.eqb (negb b) b = false) by (destruct b; reflexivity).
      rewrite E. apply IH. intros i Hi. apply H. lia.
Qed.

Theorem count_ones_zero_iff : forall z, in_i64 z -> (count_ones z = 0 <-> z = 0).
Proof.
  intros z Hz. unfold count_ones. rewrite count_bits_zero_iff. rewrite <- (u64_zero_iff z Hz). split.
  - intros H. apply all_bits_zero; [apply u64_range|]. intros i Hi.
    rewrite <- (Z2Nat.id i) by lia. apply (H (Z.to_nat i)). lia.
  - intros -> i _. apply Z.bits_0.
Qed.

(* ================================================================= *)
(* leading / trailing runs                                           *)
(* ================================================================= *)
Lemma leading_run_range b u n : 0 <= leading_run b u n <= Z.of_nat n.
Proof.
  induction n as [|n IH]; [cbn; lia|].
  cbn [leading_run]. rewrite Nat2Z.inj_succ.
  destruct (Bool.eqb (Z.testbit u (Z.of_nat n)) b); lia.
Qed.

Lemma trailing_run_range b u k n : 0 <= trailing_run b u k n <= Z.of_nat n.
Proof.
  revert k. induction n as [|n IH]; intros k; [cbn; lia|].
  cbn [trailing_run]. rewrite Nat2Z.inj_succ.
  destruct (Bool.eqb (Z.testbit u k) b); [specialize (IH (k + 1))|]; lia.
Qed.

Theorem leading_zeroes_range : forall z, 0 <= leading_zeroes z <= 64.
Proof. intros z. exact (leading_run_range false (u64 z) 64). Qed.
Theorem leading_ones_range : forall z, 0 <= leading_ones z <= 64.
Proof. intros z. exact (leading_run_range true (u64 z) 64). Qed.
Theorem trailing_zeroes_range : forall z, 0 <= trailing_zeroes z <= 64.
Proof. intros z. exact (trailing_run_range false (u64 z) 0 64). Qed.
Theorem trailing_ones_range : forall z, 0 <= trailing_ones z <= 64.
Proof. intros z. exact (trailing_run_range true (u64 z) 0 64). Qed.

Lemma eqb_true_eq (x b : bool) : Bool.eqb x b = true <-> x = b.
Proof. destruct x, b; cbn; split; congruence. Qed.

(* the run below position n has length r: r positions agree with b, the next one (if any) does not *)
Lemma leading_run_spec b u n r :
  leading_run b u n = r <->
  (0 <= r <= Z.of_nat n /\
   (forall i, Z.of_nat n - r <= i < Z.of_nat n -> Z.testbit u i = b) /\
   (r < Z.of_nat n -> Z.testbit u (Z.of_nat n - r - 1) = negb b)).
Proof.
  revert r. induction n as [|n IH]; intros r.
  - cbn [leading_run]. split.
    + intros <-. split; [cbn; lia|]. split; [intros i Hi; cbn in Hi; lia|cbn; lia].
    + intros [R _]. cbn in R. lia.
  - cbn [leading_run]. rewrite Nat2Z.inj_succ.
    destruct (Bool.eqb (Z.testbit u (Z.of_nat n)) b) eqn:E.
    + apply (proj1 (eqb_true_eq _ _)) in E. split.
      * intros <-. pose proof (proj1 (IH (leading_run b u n)) eq_refl) as [R [A B]].
        split; [lia|]. split.
        -- intros i Hi. destruct (Z.eq_dec i (Z.of_nat n)) as [->|Ne]; [exact E|]. apply A. lia.
        -- intros L. replace (Z.succ (Z.of_nat n) - (1 + leading_run b u n) - 1)
             with (Z.of_nat n - leading_run b u n - 1) by lia. apply B. lia.
      * intros [R [A B]].
        destruct (Z.eq_dec r 0) as [->|Nz].
        -- exfalso. specialize (B ltac:(lia)).
           replace (Z.succ (Z.of_nat n) - 0 - 1) with (Z.of_nat n) in B by lia.
           rewrite E in B. destruct b; discriminate B.
        -- assert (IHr : leading_run b u n = r - 1).
           { apply IH. split; [lia|]. split.
             - intros i Hi. apply A. lia.
             - intros L. replace (Z.of_nat n - (r - 1) - 1) with (Z.succ (Z.of_nat n) - r - 1) by lia.
               apply B. lia. }
           lia.
    + split.
      * intros <-. split; [lia|]. split; [intros i Hi; lia|].
        intros _. replace (Z.succ (Z.of_nat n) - 0 - 1) with (Z.of_nat n) by lia.
        destruct (Z.testbit u (Z.of_nat n)), b; cbn in E |- *; congruence.
      * intros [R [A B]]. destruct (Z.eq_dec r 0) as [->|Nz]; [reflexivity|].
        exfalso. rewrite (A (Z.of_nat n)) in E by lia. destruct b; discriminate E.
Qed.

Lemma trailing_run_spec b u : forall n k r,
  trailing_run b u k n = r <->
  (0 <= r <= Z.of_nat n /\
   (forall i, k <= i < k + r -> Z.testbit u i = b) /\
   (r < Z.of_nat n -> Z.testbit u (k + r) = negb b)).
Proof.
  induction n as [|n IH]; intros k r.
  - cbn [trailing_run]. split.
    + intros <-. split; [cbn; lia|]. split; [intros i Hi; lia|cbn; lia].
    + intros [R _]. cbn in R. lia.
  - cbn [trailing_run]. rewrite Nat2Z.inj_succ.
    destruct (Bool.eqb (Z.testbit u k) b) eqn:E.
    + apply (proj1 (eqb_true_eq _ _)) in E. split.
      * intros <-. pose proof (proj1 (IH (k + 1) (trailing_run b u (k + 1) n)) eq_refl) as [R [A B]].
        split; [lia|]. split.
        -- intros i Hi. destruct (Z.eq_dec i k) as [->|Ne]; [exact E|]. apply A. lia.
        -- intros L. replace (k + (1 + trailing_run b u (k + 1) n)) with (k + 1 + trailing_run b u (k + 1) n) by lia.
           apply B. lia.
      * intros [R [A B]].
        destruct (Z.eq_dec r 0) as [->|Nz].
        -- exfalso. specialize (B ltac:(lia)). replace (k + 0) with k in B by lia.
           rewrite E in B. destruct b; discriminate B.
        -- assert (IHr : trailing_run b u (k + 1) n = r - 1).
           { apply IH. split; [lia|]. split.
             - intros i Hi. apply A. lia.
             - intros L. replace (k + 1 + (r - 1)) with (k + r) by lia. apply B. lia. }
           lia.
    + split.
      * intros <-. split; [lia|]. split; [intros i Hi; lia|].
        intros _. replace (k + 0) with k by lia.
        destruct (Z.testbit u k), b; cbn in E |- *; congruence.
      * intros [R [A B]]. destruct (Z.eq_dec r 0) as [->|Nz]; [reflexivity|].
        exfalso. rewrite (A k) in E by lia. destruct b; discriminate E.
Qed.

(* docs: "the number of leading zeros": the top r bits are 0 and bit 63-r, if any, is 1 *)
Theorem leading_zeroes_spec : forall z r,
  leading_zeroes z = r <->
  (0 <= r <= 64 /\ (forall i, 64 - r <= i < 64 -> Z.testbit (u64 z) i = false) /\
   (r < 64 -> Z.testbit (u64 z) (63 - r) = true)).
Proof.
  intros z r. unfold leading_zeroes. rewrite leading_run_spec. cbn [negb].
  replace (Z.of_nat 64) with 64 by reflexivity.
  replace (64 - r - 1) with (63 - r) by lia. reflexivity.
Qed.

Theorem leading_ones_spec : forall z r,
  leading_ones z = r <->
  (0 <= r <= 64 /\ (forall i, 64 - r <= i < 64 -> Z.testbit (u64 z) i = true) /\
   (r < 64 -> Z.testbit (u64 z) (63 - r) = false)).
Proof.
  intros z r. unfold leading_ones. rewrite leading_run_spec. cbn [negb].
  replace (Z.of_nat 64) with 64 by reflexivity.
  replace (64 - r - 1) with (63 - r) by lia. reflexivity.
Qed.

Theorem trailing_zeroes_spec : forall z r,
  trailing_zeroes z = r <->
  (0 <= r <= 64 /\ (forall i, 0 <= i < r -> Z.testbit (u64 z) i = false) /\
   (r < 64 -> Z.testbit (u64 z) r = true)).
Proof.
  intros z r. unfold trailing_zeroes. rewrite trailing_run_spec. cbn [negb].
  replace (Z.of_nat 64) with 64 by reflexivity. replace (0 + r) with r by lia. reflexivity.
Qed.

Theorem trailing_ones_spec : forall z r,
  trailing_ones z = r <->
  (0 <= r <= 64 /\ (forall i, 0 <= i < r -> Z.testbit (u64 z) i = true) /\
   (r < 64 -> Z.testbit (u64 z) r = false)).
Proof.
  intros z r. unfold trailing_ones. rewrite trailing_run_spec. cbn [negb].
  replace (Z.of_nat 64) with 64 by reflexivity. replace (0 + r) with r by lia. reflexivity.
Qed.

Theorem leading_zeroes_64_iff : forall z, in_i64 z -> (leading_zeroes z = 64 <-> z = 0).
Proof.
  intros z Hz. rewrite leading_zeroes_spec. rewrite <- (u64_zero_iff z Hz). split.
  - intros [_ [A _]]. apply all_bits_zero; [apply u64_range|]. intros i Hi. apply A. lia.
  - intros ->. split; [lia|]. split; [intros i _; apply Z.bits_0|lia].
Qed.

Theorem trailing_zeroes_64_iff : forall z, in_i64 z -> (trailing_zeroes z = 64 <-> z = 0).
Proof.
  intros z Hz. rewrite trailing_zeroes_spec. rewrite <- (u64_zero_iff z Hz). split.
  - intros [_ [A _]]. apply all_bits_zero; [apply u64_range|]. intros i Hi. apply A. lia.
  - intros ->. split; [lia|]. split; [intros i _; apply Z.bits_0|lia].
Qed.

(* a negative i64 has its sign bit set: no leading zero; a non-negative one has at least one *)
Theorem leading_zeroes_sign : forall z, in_i64 z -> (leading_zeroes z = 0 <-> z < 0).
Proof.
  intros z Hz. rewrite leading_zeroes_spec.
  assert (S : Z.testbit (u64 z) 63 = true <-> z < 0).
  { rewrite u64_bits_low by lia. unfold in_i64, MIN_INT, MAX_INT, two63 in Hz.
    rewrite Z.testbit_true by lia. change (2 ^ 63) with 9223372036854775808.
    split; intros H.
    - destruct (Z_lt_le_dec z 0) as [L|G]; [exact L|exfalso].
      rewrite Z.div_small in H by lia. discriminate H.
    - replace (z / 9223372036854775808) with (-1); [reflexivity|].
      apply Z.div_unique with (r := z + 9223372036854775808); lia. }
  split.
  - intros [_ [_ B]]. apply S. apply B. lia.
  - intros L. split; [lia|]. split; [intros i Hi; lia|]. intros _. apply S. exact L.
Qed.

(* ================================================================= *)
(* swap_bytes / reverse_bits                                         *)
(* ================================================================= *)
Lemma build_bits_testbit f n i :
  0 <= i -> Z.testbit (build_bits f n) i = if i <? Z.of_nat n then f i else false.
Proof.
  intros Hi. induction n as [|n IH].
  - cbn [build_bits]. rewrite Z.bits_0. change (Z.of_nat 0) with 0.
    destruct (Z.ltb_spec i 0); [lia|reflexivity].
  - cbn [build_bits]. rewrite Nat2Z.inj_succ.
    destruct (f (Z.of_nat n)) eqn:F.
    + rewrite Z.setbit_eqb by lia. rewrite IH.
      destruct (Z.eqb_spec (Z.of_nat n) i) as [<-|Ne].
      * rewrite Z.ltb_irrefl. destruct (Z.ltb_spec (Z.of_nat n) (Z.succ (Z.of_nat n))); [|lia].
        cbn. symmetry. exact F.
      * cbn [orb]. destruct (Z.ltb_spec i (Z.of_nat n)); destruct (Z.ltb_spec i (Z.succ (Z.of_nat n))); try reflexivity; lia.
    + rewrite IH.
      destruct (Z.ltb_spec i (Z.of_nat n)); destruct (Z.ltb_spec i (Z.succ (Z.of_nat n))); try reflexivity; try lia.
      assert (i = Z.of_nat n) by lia. subst i. symmetry. exact F.
Qed.

(* a permutation of the 64 bit positions *)
Definition perm_bits (s : Z -> Z) (z : Z) : Z :=
  wrap64 (build_bits (fun i => Z.testbit (u64 z) (s i)) 64).

Lemma perm_bits_testbit s z i :
  0 <= i < 64 -> Z.testbit (u64 (perm_bits s z)) i = Z.testbit (u64 z) (s i).
Proof.
  intros Hi. unfold perm_bits. rewrite u64_wrap64. rewrite u64_bits_low by exact Hi.
  rewrite build_bits_testbit by lia. replace (Z.of_nat 64) with 64 by reflexivity.
  rewrite (proj2 (Z.ltb_lt _ _)) by lia. reflexivity.
Qed.

Lemma perm_bits_involutive s :
  (forall i, 0 <= i < 64 -> 0 <= s i < 64 /\ s (s i) = i) ->
  forall z, in_i64 z -> perm_bits s (perm_bits s z) = z.
Proof.
  intros Hs z Hz. unfold perm_bits at 1.
  replace (build_bits (fun i => Z.testbit (u64 (perm_bits s z)) (s i)) 64) with (u64 z);
    [apply wrap64_u64; exact Hz|].
  apply bits64_inj.
  - intros i Hi. apply u64_bits_high. exact Hi.
  - intros i Hi. rewrite build_bits_testbit by lia. replace (Z.of_nat 64) with 64 by reflexivity.
    destruct (Z.ltb_spec i 64); [lia|reflexivity].
  - intros i Hi. rewrite build_bits_testbit by lia. replace (Z.of_nat 64) with 64 by reflexivity.
    rewrite (proj2 (Z.ltb_lt _ _)) by lia.
    destruct (Hs i Hi) as [R E]. rewrite perm_bits_testbit by exact R. rewrite E. reflexivity.
Qed.

Definition rev_index (i : Z) : Z := 63 - i.
Definition swap_index (i : Z) : Z := 8 * (7 - i / 8) + i mod 8.

Lemma reverse_bits_perm z : reverse_bits z = perm_bits rev_index z.
Proof. unfold reverse_bits, perm_bits, rev_index. reflexivity. Qed.
Lemma swap_bytes_perm z : swap_bytes z = perm_bits swap_index z.
Proof. unfold swap_bytes, perm_bits, swap_index. reflexivity. Qed.

Theorem reverse_bits_involutive : forall z, in_i64 z -> reverse_bits (reverse_bits z) = z.
Proof.
  intros z Hz. rewrite (reverse_bits_perm (reverse_bits z)), (reverse_bits_perm z).
  apply perm_bits_involutive; [|exact Hz]. intros i Hi. unfold rev_index. lia.
Qed.

Theorem swap_bytes_involutive : forall z, in_i64 z -> swap_bytes (swap_bytes z) = z.
Proof.
  intros z Hz. rewrite (swap_bytes_perm (swap_bytes z)), (swap_bytes_perm z).
  apply perm_bits_involutive; [|exact Hz]. intros i Hi. unfold swap_index.
  split; [Z.div_mod_to_equations; lia|].
  assert (Q : (8 * (7 - i / 8) + i mod 8) / 8 = 7 - i / 8) by (Z.div_mod_to_equations; lia).
  assert (R : (8 * (7 - i / 8) + i mod 8) mod 8 = i mod 8) by (Z.div_mod_to_equations; lia).
  rewrite Q, R. Z.div_mod_to_equations. lia.
Qed.

(* docs: "the least significant bit becomes the most significant bit, ..." *)
Theorem reverse_bits_spec : forall z i,
  0 <= i < 64 -> Z.testbit (u64 (reverse_bits z)) i = Z.testbit (u64 z) (63 - i).
Proof. intros z i Hi. rewrite reverse_bits_perm. exact (perm_bits_testbit rev_index z i Hi). Qed.

(* docs: "reverses the byte order": byte j of the result is byte 7-j of the argument *)
Theorem swap_bytes_spec : forall z j k,
  0 <= j < 8 -> 0 <= k < 8 ->
  Z.testbit (u64 (swap_bytes z)) (8 * j + k) = Z.testbit (u64 z) (8 * (7 - j) + k).
Proof.
  intros z j k Hj Hk.
  rewrite swap_bytes_perm. rewrite (perm_bits_testbit swap_index z (8 * j + k)) by lia.
  unfold swap_index. f_equal.
  assert (Q : (8 * j + k) / 8 = j) by (Z.div_mod_to_equations; lia).
  assert (R : (8 * j + k) mod 8 = k) by (Z.div_mod_to_equations; lia).
  rewrite Q, R. reflexivity.
Qed.

Theorem reverse_bits_in_i64 : forall z, in_i64 (reverse_bits z).
Proof. intros z. apply wrap64_in_i64. Qed.
Theorem swap_bytes_in_i64 : forall z, in_i64 (swap_bytes z).
Proof. intros z. apply wrap64_in_i64. Qed.

(* bit reversal exchanges leading and trailing runs *)
Theorem leading_zeroes_reverse : forall z, leading_zeroes (reverse_bits z) = trailing_zeroes z.
Proof.
  intros z. apply leading_zeroes_spec.
  pose proof (proj1 (trailing_zeroes_spec z (trailing_zeroes z)) eq_refl) as [R [A B]].
  split; [exact R|]. split.
  - intros i Hi. rewrite reverse_bits_spec by lia. apply A. lia.
  - intros L. rewrite reverse_bits_spec by lia. replace (63 - (63 - trailing_zeroes z)) with (trailing_zeroes z) by lia.
    apply B. exact L.
Qed.

(* ================================================================= *)
(* integer logarithms                                                *)
(* ================================================================= *)
Lemma ilog_loop_spec : forall fuel n b,
  2 <= b -> 1 <= n -> n < 2 ^ Z.of_nat fuel ->
  0 <= ilog_loop fuel n b /\ b ^ ilog_loop fuel n b <= n < b ^ (ilog_loop fuel n b + 1).
Proof.
  induction fuel as [|fuel IH]; intros n b Hb Hn Hf.
  - cbn in Hf. lia.
  - cbn [ilog_loop]. destruct (Z.ltb_spec n b) as [L|G].
    + rewrite Z.pow_0_r. change (0 + 1) with 1. rewrite Z.pow_1_r. lia.
    + assert (Q1 : 1 <= n / b) by (apply Z.div_le_lower_bound; lia).
      assert (Q2 : n / b < 2 ^ Z.of_nat fuel).
      { apply Z.div_lt_upper_bound; [lia|].
        rewrite Nat2Z.inj_succ, Z.pow_succ_r in Hf by lia.
        assert (0 < 2 ^ Z.of_nat fuel) by (apply Z.pow_pos_nonneg; lia). nia. }
      destruct (IH (n / b) b Hb Q1 Q2) as [K [A B]].
      set (k := ilog_loop fuel (n / b) b) in *. split; [lia|].
      replace (1 + k + 1) with (Z.succ (k + 1)) by lia.
      replace (1 + k) with (Z.succ k) by lia.
      rewrite !Z.pow_succ_r by lia.
      pose proof (Z.div_mod n b ltac:(lia)) as D.
      pose proof (Z.mod_pos_bound n b ltac:(lia)) as M.
      assert (0 < b ^ k) by (apply Z.pow_pos_nonneg; lia).
      set (P := b ^ k) in *. set (P' := b ^ (k + 1)) in *. set (q := n / b) in *.
      assert (b * P <= b * q) by (apply Z.mul_le_mono_nonneg_l; lia).
      assert (b * (q + 1) <= b * P') by (apply Z.mul_le_mono_nonneg_l; lia).
      lia.
Qed.

Lemma pow_interval_unique b k k' n :
  2 <= b -> 0 <= k -> 0 <= k' ->
  b ^ k <= n < b ^ (k + 1) -> b ^ k' <= n < b ^ (k' + 1) -> k = k'.
Proof.
  intros Hb Hk Hk' [A B] [A' B'].
  destruct (Z.lt_trichotomy k k') as [L|[E|G]]; [exfalso|exact E|exfalso].
  - assert (b ^ (k + 1) <= b ^ k') by (apply Z.pow_le_mono_r; lia). lia.
  - assert (b ^ (k' + 1) <= b ^ k) by (apply Z.pow_le_mono_r; lia). lia.
Qed.

Lemma pow_interval_nonneg b k n : 2 <= b -> 0 < n -> b ^ k <= n < b ^ (k + 1) -> 0 <= k.
Proof.
  intros Hb Hn [_ B]. destruct (Z_lt_le_dec k 0) as [L|G]; [exfalso|exact G].
  destruct (Z.eq_dec k (-1)) as [->|Ne].
  - cbn in B. lia.
  - rewrite Z.pow_neg_r in B by lia. lia.
Qed.

(* docs: "the logarithm of num with respect to an arbitrary base, rounded down";
   () if the number is negative or zero, or if the base is not at least 2 *)
Theorem ilog_spec : forall z b k,
  0 < z -> 2 <= b -> (ilog z b = Some k <-> b ^ k <= z < b ^ (k + 1)).
Proof.
  intros z b k Hz Hb. unfold ilog.
  rewrite (proj2 (Z.leb_gt z 0) Hz). rewrite (proj2 (Z.ltb_ge b 2) Hb). cbn [orb].
  assert (F : z < 2 ^ Z.of_nat (S (Z.to_nat (Z.log2 z)))).
  { rewrite Nat2Z.inj_succ, Z2Nat.id by apply Z.log2_nonneg.
    apply (Z.log2_spec z Hz). }
  destruct (ilog_loop_spec _ z b Hb ltac:(lia) F) as [K S].
  split.
  - intros [= <-]. exact S.
  - intros H. f_equal.
    apply (pow_interval_unique b _ k z Hb K (pow_interval_nonneg b k z Hb Hz H) S H).
Qed.

Theorem ilog_none : forall z b, z <= 0 \/ b < 2 -> ilog z b = None.
Proof.
  intros z b [H|H]; unfold ilog.
  - rewrite (proj2 (Z.leb_le z 0) H). reflexivity.
  - rewrite (proj2 (Z.ltb_lt b 2) H). rewrite orb_true_r. reflexivity.
Qed.

Theorem ilog_some_iff : forall z b, (exists k, ilog z b = Some k) <-> (0 < z /\ 2 <= b).
Proof.
  intros z b. split.
  - intros [k H]. destruct (Z_lt_le_dec 0 z) as [Hz|Hz]; [|rewrite ilog_none in H by lia; discriminate H].
    destruct (Z_lt_le_dec b 2) as [Hb|Hb]; [rewrite ilog_none in H by lia; discriminate H|]. lia.
  - intros [Hz Hb]. unfold ilog.
    rewrite (proj2 (Z.leb_gt z 0) Hz). rewrite (proj2 (Z.ltb_ge b 2) Hb). eexists. reflexivity.
Qed.

Theorem ilog2_spec : forall z k, 0 < z -> (ilog2 z = Some k <-> 2 ^ k <= z < 2 ^ (k + 1)).
Proof.
  intros z k Hz. unfold ilog2. rewrite (proj2 (Z.leb_gt z 0) Hz). split.
  - intros [= <-]. apply (Z.log2_spec z Hz).
  - intros H. f_equal. apply Z.log2_unique; [|exact H].
    apply (pow_interval_nonneg 2 k z); [lia|exact Hz|exact H].
Qed.

Theorem ilog2_none : forall z, z <= 0 -> ilog2 z = None.
Proof. intros z H. unfold ilog2. rewrite (proj2 (Z.leb_le z 0) H). reflexivity. Qed.

Theorem ilog10_spec : forall z k, 0 < z -> (ilog10 z = Some k <-> 10 ^ k <= z < 10 ^ (k + 1)).
Proof. intros z k Hz. unfold ilog10. apply ilog_spec; [exact Hz|lia]. Qed.

Theorem ilog10_none : forall z, z <= 0 -> ilog10 z = None.
Proof. intros z H. unfold ilog10. apply ilog_none. left. exact H. Qed.

(* the two definitions of the binary logarithm agree *)
Theorem ilog2_is_ilog : forall z, ilog2 z = ilog z 2.
Proof.
  intros z. destruct (Z_lt_le_dec 0 z) as [Hz|Hz].
  - destruct (ilog z 2) as [k|] eqn:E.
    + apply ilog2_spec; [exact Hz|]. apply (ilog_spec z 2 k Hz); [lia|exact E].
    + exfalso. destruct (proj2 (ilog_some_iff z 2) ltac:(lia)) as [k E']. congruence.
  - rewrite ilog2_none, ilog_none by lia. reflexivity.
Qed.

(* results fit u32 (indeed 0..62 on i64) *)
Theorem ilog_range : forall z b k, in_i64 z -> ilog z b = Some k -> 0 <= k < 63.
Proof.
  intros z b k Hz E.
  destruct (proj1 (ilog_some_iff z b) (ex_intro _ k E)) as [Pz Pb].
  pose proof (proj1 (ilog_spec z b k Pz Pb) E) as [A _].
  pose proof (pow_interval_nonneg b k z Pb Pz (proj1 (ilog_spec z b k Pz Pb) E)) as K.
  split; [exact K|].
  destruct (Z_lt_le_dec k 63) as [L|G]; [exact L|exfalso].
  assert (2 ^ 63 <= b ^ k).
  { apply Z.le_trans with (2 ^ k); [apply Z.pow_le_mono_r; lia|apply Z.pow_le_mono_l; lia]. }
  unfold in_i64, MAX_INT, two63 in Hz. change (2 ^ 63) with 9223372036854775808 in *. lia.
Qed.

(* Rust computes ilog2 as 63 - leading_zeros *)
Theorem ilog2_leading_zeroes : forall z, in_i64 z -> 0 < z -> ilog2 z = Some (63 - leading_zeroes z).
Proof.
  intros z Hz Pz. apply ilog2_spec; [exact Pz|].
  pose proof (proj1 (leading_zeroes_spec z (leading_zeroes z)) eq_refl) as [R [A B]].
  set (r := leading_zeroes z) in *.
  assert (U : u64 z = z).
  { unfold u64. apply Z.mod_small. unfold in_i64, MAX_INT, two63, two64 in *. lia. }
  rewrite U in A, B.
  assert (Rlt : r < 64).
  { destruct (Z.eq_dec r 64) as [E|Ne]; [|lia]. exfalso.
    assert (z = 0); [|lia]. apply (proj1 (leading_zeroes_64_iff z Hz)). exact E. }
  specialize (B Rlt).
  split.
  - (* bit 63-r is set: 2^(63-r) <= z *)
    apply Z.log2_le_pow2; [exact Pz|].
    destruct (Z_lt_le_dec (Z.log2 z) (63 - r)) as [L|G]; [exfalso|exact G].
    rewrite Z.bits_above_log2 in B by lia. discriminate B.
  - (* no bit above: z < 2^(64-r) *)
    replace (63 - r + 1) with (64 - r) by lia.
    apply Z.log2_lt_pow2; [exact Pz|].
    destruct (Z_lt_le_dec (Z.log2 z) (64 - r)) as [L|G]; [exact L|exfalso].
    pose proof (Z.bit_log2 z Pz) as T.
    assert (Z.log2 z < 64).
    { apply Z.log2_lt_pow2; [exact Pz|]. unfold in_i64, MAX_INT, two63 in Hz.
      change (2 ^ 64) with 18446744073709551616. lia. }
    rewrite A in T by lia. discriminate T.
Qed.

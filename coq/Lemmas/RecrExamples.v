(* RecrExamples.v — the hypotheses of the preservation theorems are met by a non-trivial
   program, evaluated with vm_compute.

     k := 2 + 3;                                  folded, then propagated
     a := [10, 20, 30];                           array literal folded to a constant
     c := mut 0;  i := mut 0;
     while *i < k { c += a[1] * k; i += 1; };     loop; folded index and product
     if k > 4 { c += 1; } else { c += 1000; };    pruned branch
     (p, q) := (k - 1, *c);                       destructuring, first component constant
     t := (k == 5) && ( *c > 0);                  pruned short-circuit operand
     p + q                                                                       = 505 *)
From SSL.Model Require Import Base Ty Float Value Ops Seq Syntax Rt Recreate Exec Check Top.
From SSL.Lemmas Require Import ExecLemmas RecrMono RecrDefs RecrKeeps RecrSim1 RecrSim2 RecrMain RecrTop.
Local Open Scope Z_scope.

Definition pw0 (a b : fbits) : fbits := a.
(* the function values the checker plants for the reducing operators (none is used here) *)
Definition red0 : reducers := mkReducers VVoid VVoid VVoid VVoid [] [].
Definition nk : name := [107]. Definition na : name := [97]. Definition nc : name := [99].
Definition ni : name := [105]. Definition np : name := [112]. Definition nq : name := [113].
Definition nt : name := [116].
Definition deref (n : name) : sx := XPrefix PDeref (XIdent n).
Definition num (z : Z) : sx := XConst (VInt z).

Definition fold_prog : list sline :=
  [ LSet nk (SExpr (XInfix Add (num 2) (num 3)));
    LSet na (SExpr (XArray [num 10; num 20; num 30]));
    LSet nc (SExpr (XMut None (num 0)));
    LSet ni (SExpr (XMut None (num 0)));
    LStm (SWhile (XInfix Lower (deref ni) (XIdent nk))
            (SBlock [ LStm (SExpr (XInfix AssignAdd (XIdent nc)
                                     (XInfix Multiply (XAt (XIdent na) (num 1)) (XIdent nk))));
                      LStm (SExpr (XInfix AssignAdd (XIdent ni) (num 1))) ]));
    LStm (SIfElse (XInfix Greater (XIdent nk) (num 4))
            (SBlock [LStm (SExpr (XInfix AssignAdd (XIdent nc) (num 1)))])
            (Some (SBlock [LStm (SExpr (XInfix AssignAdd (XIdent nc) (num 1000)))])));
    LDestruct [np; nq] (SExpr (XTuple [XInfix Subtract (XIdent nk) (num 1); deref nc]));
    LSet nt (SExpr (XInfix And (XInfix Equal (XIdent nk) (num 5))
                               (XInfix Greater (deref nc) (num 0))));
    LStm (SExpr (XInfix Add (XIdent np) (XIdent nq))) ].

Definition e0 : lenv := [mkLayer [] None false].
Definition pre0 : prelude := mkPrelude 0 0 0 0 0 0 0 0.
Definition st0 : store := mkStore [] [] [].

Definition both := parse_both pw0 red0 100 [] e0 fold_prog.
Definition unfolded : list instr := match both with Ok (a, _, _) => a | _ => [] end.
Definition folded : list instr := match both with Ok (_, b, _) => b | _ => [] end.
Definition env_after : lenv := match both with Ok (_, _, e) => e | _ => [] end.

Example fold_prog_parses : both = Ok (unfolded, folded, env_after).
Proof. vm_compute. reflexivity. Qed.

(* what the pass did: constants folded and propagated, the loop condition and body
   rewritten, the `if` replaced by its first branch, `&&` replaced by its right operand *)
Example fold_prog_folded :
  nth 0 folded IBreak = ISet nk (IVar (VInt 5)) /\
  nth 1 folded IBreak = ISet na (IVar (VArr TInt [VInt 10; VInt 20; VInt 30])) /\
  nth 4 folded IBreak =
    ILoop (IIfElse (IBin Lower (IUn UIndirection (ILocal ni (LOther (TMut TInt)))) (IVar (VInt 5)))
             (IBlock [IBin AssignAdd (ILocal nc (LOther (TMut TInt))) (IVar (VInt 100));
                      IBin AssignAdd (ILocal ni (LOther (TMut TInt))) (IVar (VInt 1))])
             IBreak) /\
  nth 5 folded IBreak = IBlock [IBin AssignAdd (ILocal nc (LOther (TMut TInt))) (IVar (VInt 1))] /\
  nth 6 folded IBreak =
    IDestruct [np; nq] (ITuple [IVar (VInt 4); IUn UIndirection (ILocal nc (LOther (TMut TInt)))]) /\
  nth 7 folded IBreak =
    ISet nt (IBin Greater (IUn UIndirection (ILocal nc (LOther (TMut TInt)))) (IVar (VInt 0))) /\
  nth 8 folded IBreak = IBin Add (IVar (VInt 4)) (ILocal nq (LOther TInt)).
Proof. vm_compute. repeat split; reflexivity. Qed.

Example fold_prog_hyps :
  forallb (wfi false true) unfolded = true /\ forallb dok folded = true /\ agree e0 [[]].
Proof.
  split; [vm_compute; reflexivity|]. split; [vm_compute; reflexivity|].
  intros n v H. cbn in H. discriminate H.
Qed.

(* the theorem applied: for every fuel, store and scopes agreeing with the environment *)
Example fold_prog_preserved : forall n st last,
  okr (run_code pw0 pre0 n st [[]] unfolded last) ->
  run_code pw0 pre0 n st [[]] folded last = run_code pw0 pre0 n st [[]] unfolded last.
Proof.
  destruct fold_prog_hyps as [W [D A]].
  destruct (parse_top_fold_unobservable0 pw0 pre0 red0 100 e0 fold_prog _ _ _ fold_prog_parses W D)
    as [_ H].
  intros n st last. apply H. exact A.
Qed.

(* ... and both do run: 505, with the same cells and the same effect log *)
Example fold_prog_runs :
  run_code pw0 pre0 100 st0 [[]] unfolded VVoid = run_code pw0 pre0 100 st0 [[]] folded VVoid /\
  sig (run_code pw0 pre0 100 st0 [[]] folded VVoid) = SVal (VInt 505) /\
  s_cells (sto (run_code pw0 pre0 100 st0 [[]] folded VVoid)) = [VInt 501; VInt 5] /\
  length (s_log (sto (run_code pw0 pre0 100 st0 [[]] folded VVoid))) = 13%nat.
Proof. vm_compute. repeat split; reflexivity. Qed.

(* StdlibEval.v — C18: the evaluation function [std_eval] of Model/Stdlib.v is coherent with the
   regenerated table: on arguments of the DECLARED parameter types every modelled export yields
   a value (the model never takes the "unwrap / unreachable!() reached" branch) and that value
   inhabits the DECLARED return type; only file-system and io exports are outside [std_eval].
   Holds for every instantiation of what is outside the model (libm, case mapping, float
   parsing, Display). *)
From Coq Require Import ZArith Lia List Bool.
Import ListNotations.
From SSL.Model Require Import Base Ty Float Value Stdlib.
From SSL.Gen Require Import GenStdlib.
From SSL.Lemmas Require Import TyLemmas ValueLemmas StdlibLemmas.

Local Open Scope Z_scope.

Definition n_fs : ident := [102; 115].   (* "fs" *)
Definition n_io : ident := [105; 111].   (* "io" *)

(* the struct an export lives in: the last component of its path *)
Definition module_of (path : list ident) : ident := last path n_std.

Lemma vopt_int_typed o : has_type (vopt VInt o) (ty_union [TInt; TVoid]) = true.
Proof. destruct o; reflexivity. Qed.
Lemma vopt_float_typed o : has_type (vopt VFloat o) (ty_union [TFloat; TVoid]) = true.
Proof. destruct o; reflexivity. Qed.
Lemma vopt_string_typed o : has_type (vopt VString o) (ty_union [TString; TVoid]) = true.
Proof. destruct o; reflexivity. Qed.

Lemma vstrings_typed l : has_type (vstrings l) (TArr TString) = true.
Proof.
  unfold vstrings. apply (arr_of_scalar (map VString l) KString eq_refl).
  apply forallb_forall. intros x Hx. apply in_map_iff in Hx. destruct Hx as [s [<- _]]. reflexivity.
Qed.
Lemma vints_typed l : has_type (vints l) (TArr TInt) = true.
Proof.
  unfold vints. apply (arr_of_scalar (map VInt l) KInt eq_refl).
  apply forallb_forall. intros x Hx. apply in_map_iff in Hx. destruct Hx as [s [<- _]]. reflexivity.
Qed.

Lemma ints_of_map zs : ints_of (map VInt zs) = Some zs.
Proof. induction zs as [|z zs IH]; [reflexivity|]. cbn [map ints_of]. rewrite IH. reflexivity. Qed.

Section EvalTyped.
  Variable libm1 : ident -> fbits -> fbits.
  Variable libm2 : ident -> fbits -> fbits -> fbits.
  Variable to_lower to_upper : list Z -> list Z.
  Variable parse_float : list Z -> option fbits.
  Variable display : value -> list Z.

  Notation ev := (std_eval libm1 libm2 to_lower to_upper parse_float display).

  Definition eval_ok (path : list ident) (name : ident) (dret : ty) (args : list value) : Prop :=
    match ev (module_of path) name args with
    | Some v => has_type v dret = true
    | None => ident_eqb (module_of path) n_fs || ident_eqb (module_of path) n_io = true
    end.

  Local Opaque count_ones count_zeros leading_zeroes trailing_zeroes leading_ones trailing_ones
        swap_bytes reverse_bits ilog ilog2 ilog10 std_from_bits int_to_float float_to_int
        std_is_nan std_is_infinite std_is_finite std_is_normal std_is_subnormal
        std_is_sign_positive std_is_sign_negative std_to_bits std_floor std_ceil std_trunc
        std_round std_round_ties_even std_fract parse_int chars bytes trim trim_start trim_end
        split contains starts_with ends_with replace str_from_utf8 str_from_utf8_lossy
        len_string vopt vstrings vints ints_of.

  Ltac inv_forall2 :=
    repeat match goal with
           | H : Forall2 _ _ (_ :: _) |- _ => inversion H; subst; clear H
           | H : Forall2 _ _ [] |- _ => inversion H; subst; clear H
           end.

  Ltac inv_types :=
    repeat match goal with
           | H : has_type ?v TInt = true |- _ =>
               let z := fresh "z" in destruct (has_type_int_inv v H) as [z ->]; clear H
           | H : has_type ?v TFloat = true |- _ =>
               let f := fresh "f" in destruct (has_type_float_inv v H) as [f ->]; clear H
           | H : has_type ?v TString = true |- _ =>
               let s := fresh "s" in destruct (has_type_string_inv v H) as [s ->]; clear H
           | H : has_type ?v (TArr TInt) = true |- _ =>
               let et := fresh "et" in let zs := fresh "zs" in
               destruct (has_type_arr_int_inv v H) as [et [zs ->]]; clear H
           | H : has_type ?v (TArr TAny) = true |- _ =>
               let et := fresh "et" in let vs := fresh "vs" in
               destruct (has_type_arr_any_inv v H) as [et [vs ->]]; clear H
           | H : has_type ?v (ty_union [TInt; TFloat]) = true |- _ =>
               let z := fresh "z" in let f := fresh "f" in
               destruct (has_type_int_or_float_inv v H) as [[z ->]|[f ->]]; clear H
           | H : has_type ?v (ty_union [TArr TAny; TString]) = true |- _ =>
               let et := fresh "et" in let vs := fresh "vs" in let s := fresh "s" in
               destruct (has_type_arr_or_string_inv v H) as [[et [vs ->]]|[s ->]]; clear H
           | H : has_type ?v TAny = true |- _ => clear H; destruct v
           end.

  Ltac run_eval :=
    unfold eval_ok;
    match goal with
    | |- context [std_eval ?a ?b ?c ?d ?e ?f ?m ?n ?args] =>
        let r := eval cbv in (std_eval a b c d e f m n args) in
        change (std_eval a b c d e f m n args) with r
    end;
    try rewrite ints_of_map; cbn [option_map]; cbv beta iota.

  Ltac finish :=
    first [ reflexivity
          | apply vopt_int_typed | apply vopt_float_typed | apply vopt_string_typed
          | apply vstrings_typed | apply vints_typed ].

  Ltac one_case :=
    cbn [p_declared] in *; inv_types; run_eval; finish.

  Theorem std_eval_typed : forall path name ps ret dret ra el args,
    In (EFn path name ps ret dret ra el) stdlib_exports ->
    Forall2 (fun v p => has_type v (p_declared p) = true) args ps ->
    eval_ok path name dret args.
  Proof.
    intros path name ps ret dret ra el args He Ha.
    unfold stdlib_exports in He. cbn [In] in He.
    repeat (destruct He as [He|He];
            [ first [ discriminate He
                    | injection He as <- <- <- <- <- <- <-; inv_forall2; one_case ] | ]).
    destruct He.
  Qed.
  (* constants: the model's value is the table's *)
  Theorem std_eval_constants : forall path name r t c,
    In (EConst path name r t c) stdlib_exports ->
    ev (module_of path) name [] = Some (const_value c).
  Proof.
    intros path name r t c He.
    unfold stdlib_exports in He. cbn [In] in He.
    repeat (destruct He as [He|He];
            [ first [ discriminate He | injection He as <- <- <- <- <-; reflexivity ] | ]).
    destruct He.
  Qed.
End EvalTyped.

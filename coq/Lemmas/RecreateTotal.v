(* RecreateTotal.v — C03 (e): the folding pass after the checker.

   0. Folding a constant sub-expression NARROWS static types: `[[], [[1]]][0]` has type
      [!] | [[int]] for the checker and is folded to the constant `[]` of type [!]; then
      `[k]` on it has type `!`, and `[0]` on that ... had no type at all before repair
      15efcc4 (`index_result(!)` is None and was unwrapped: Set::recreate panicked on
        g := (k: int) -> int { y := [[], [[1]]][0][k][0]; return y; };
      and on the variant through `if true { [] } else { [[1]] }`), and has type `!` since.
      The guards of the checker are NOT re-established by the pass; what survives is
      that [rt] is total ([CheckTotal.rt_total]) ([recreate_narrows], [parse_top_narrow],
      [parse_top_if_narrow]).
   1. For the EXPRESSION fragment (every expression form except function literals and
      modules; binary operators those the parser builds an XInfix for): on what the
      checker built, the pass never panics, leaves the environment alone, and whatever
      it folds to a constant inhabits the static type the checker computed
      ([recreate_expr_total]).  This is "folding only applies operators to constants
      whose types passed can_be_used".
   2. The same for STATEMENTS, LINES and FUNCTION LITERALS — everything the checker builds
      except `for` loops, tuple destructuring and modules ([recreate_lines_never_panic],
      [parse_top_line_never_panics]): the environments of the two passes are related by
      [ER] (every local variable of the checker is bound for the pass, and where the pass
      knows a constant for it, that constant inhabits the type the checker knew). *)
From SSL.Model Require Import Base Ty Float Value Ops Seq Syntax Rt Recreate Exec Check Top.
From SSL.Lemmas Require Import TyLemmas ValueLemmas SeqLemmas SoundLemmas FoldLemmas
  CheckUnfold CheckBase CheckTotal CheckExamples.
From SSL.Lemmas Require TyFuel TyEq TyMatches TyJoin TyQuery.
Import TyFuel TyEq TyMatches TyJoin TyQuery.
Local Open Scope Z_scope.

(* ================================================================= *)
(* 0. folding narrows static types                                     *)
(* ================================================================= *)
Definition powf0 (a b : fbits) : fbits := a.
Definition nk : name := [107].
Definition ng : name := [103].

(* `[[], [[1]]][0][k][0]` with k : int not a constant *)
Definition x_narrow : sx :=
  XAt (XAt (XAt (XArray [XArray []; XArray [XArray [XConst (VInt 1)]]]) (XConst (VInt 0)))
           (XIdent nk)) (XConst (VInt 0)).
Definition e_k : lenv := [mkLayer [(nk, LOther TInt)] None false].
Definition i_narrow : instr :=
  IBin At (IBin At (IBin At
     (IArray [IArray [] TNever; IArray [IArray [IVar (VInt 1)] TInt] (TArr TInt)]
             (TMulti [TArr TNever; TArr (TArr TInt)]))
     (IVar (VInt 0))) (ILocal nk (LOther TInt))) (IVar (VInt 0)).
Definition i_narrow' : instr :=
  IBin At (IBin At (IVar (VArr TNever [])) (ILocal nk (LOther TInt))) (IVar (VInt 0)).

(* accepted with type int; after the pass the static type is `!`, and the inner
   operand type `!` is one that the guard of `[]` rejects and [index_result] does not
   answer (the unwrap that panicked) *)
Theorem recreate_narrows :
  check_x red0 20 [] e_k x_narrow = Ok i_narrow /\ rt i_narrow = Ok TInt /\
  recreate powf0 20 [] e_k i_narrow = Ok (i_narrow', e_k) /\ rt i_narrow' = Ok TNever /\
  rt (IBin At (IVar (VArr TNever [])) (ILocal nk (LOther TInt))) = Ok TNever /\
  index_result TNever = None.
Proof. repeat split; vm_compute; reflexivity. Qed.

(* g := (k: int) -> int { y := [[], [[1]]][0][k][0]; return y; };   (panicked in Code::parse) *)
Definition p_narrow : list sline :=
  [LFnDecl ng [(nk, TInt)] (Some TInt)
     [LSet ny (SExpr x_narrow); LStm (SRet (Some (SExpr (XIdent ny))))]].
Theorem parse_top_narrow :
  exists r, parse_top powf0 red0 40 [] [mkLayer [] None false] p_narrow = Ok r.
Proof.
  destruct (parse_top powf0 red0 40 [] [mkLayer [] None false] p_narrow) as [r| | |] eqn:E;
    [eauto|exfalso; revert E; vm_compute; discriminate..].
Qed.

(* g := (k: int) -> int { x := if true { [] } else { [[1]] }; y := x[k]; t := y[0]; return t; };
   the same through a folded `if` (no `!`-typed branch is needed; panicked likewise) *)
Definition p_if : list sline :=
  [LFnDecl ng [(nk, TInt)] (Some TInt)
     [LSet nx (SIfElse (XConst (VBool true)) (SBlock [LStm (SExpr (XArray []))])
                   (Some (SBlock [LStm (SExpr (XArray [XArray [XConst (VInt 1)]]))])));
      LSet ny (SExpr (XAt (XIdent nx) (XIdent nk)));
      LSet nt (SExpr (XAt (XIdent ny) (XConst (VInt 0))));
      LStm (SRet (Some (SExpr (XIdent nt))))]].
Theorem parse_top_if_narrow :
  exists r, parse_top powf0 red0 40 [] [mkLayer [] None false] p_if = Ok r.
Proof.
  destruct (parse_top powf0 red0 40 [] [mkLayer [] None false] p_if) as [r| | |] eqn:E;
    [eauto|exfalso; revert E; vm_compute; discriminate..].
Qed.

(* ================================================================= *)
(* 1. values the folder may meet                                       *)
(* ================================================================= *)
(* hereditarily: stored element types are well-formed and inhabited by the elements,
   struct keys are distinct, function and cell references carry well-formed types *)
Fixpoint vok (v : value) : bool :=
  match v with
  | VArr t vs => wf_ty t && forallb (fun x => has_type x t && vok x) vs
  | VTup vs => forallb vok vs
  | VStruct fs => nodup_keys fs && forallb (fun kv => vok (snd kv)) fs
  | VFun _ ps r => wf_ty (TFun ps r)
  | VMut _ t => wf_ty t
  | _ => true
  end.

Lemma vok_vwf : forall v, vok v = true -> vwf v = true.
Proof.
  induction v as [x|x|x|x|i ps r|et vs IH|vs IH|l t|fs IH|] using value_ind';
    cbn [vok vwf]; try reflexivity; intros H.
  - apply andb_true_iff in H. destruct H as [_ H]. rewrite forallb_forall in *.
    rewrite Forall_forall in IH. intros x Hx. specialize (H x Hx).
    apply andb_true_iff in H. destruct H as [H1 H2]. rewrite H1, (IH x Hx H2). reflexivity.
  - rewrite forallb_forall in *. rewrite Forall_forall in IH. intros x Hx. apply IH; auto.
  - apply andb_true_iff in H. destruct H as [_ H]. rewrite forallb_forall in *.
    rewrite Forall_forall in IH. intros x Hx. apply IH; auto.
Qed.

Lemma existsb_keys_map {V W0} (f : V -> W0) k (l : list (ident * V)) :
  existsb (fun kv => ident_eqb k (fst kv)) (map (fun kv => (fst kv, f (snd kv))) l) =
  existsb (fun kv => ident_eqb k (fst kv)) l.
Proof.
  induction l as [|[k' v'] l IH]; [reflexivity|]. cbn [map existsb fst snd]. rewrite IH. reflexivity.
Qed.

Lemma nodup_keys_map {V W0} (f : V -> W0) (l : list (ident * V)) :
  nodup_keys (map (fun kv => (fst kv, f (snd kv))) l) = nodup_keys l.
Proof.
  induction l as [|[k v] l IH]; [reflexivity|]. cbn [map nodup_keys fst snd].
  rewrite IH, existsb_keys_map. reflexivity.
Qed.

Lemma vok_type_wf : forall v, vok v = true -> wf_ty (as_type v) = true.
Proof.
  induction v as [x|x|x|x|i ps r|et vs IH|vs IH|l t|fs IH|] using value_ind';
    cbn [vok as_type]; try reflexivity; intros H; try exact H.
  - apply andb_true_iff in H. apply H.
  - cbn [wf_ty]. rewrite forallb_forall in *. rewrite Forall_forall in IH.
    intros t Ht. apply in_map_iff in Ht. destruct Ht as [x [<- Hx]]. apply IH; auto.
  - apply andb_true_iff in H. destruct H as [H1 H2]. cbn [wf_ty].
    rewrite (nodup_keys_map as_type), H1. cbn [andb].
    rewrite forallb_forall in *. rewrite Forall_forall in IH.
    intros kt Ht. apply in_map_iff in Ht. destruct Ht as [kv [<- Hx]]. cbn [snd]. apply IH; auto.
Qed.

Lemma all2_map_as_type vs :
  Forall (fun x => has_type x (as_type x) = true) vs -> all2 has_type vs (map as_type vs) = true.
Proof.
  induction 1 as [|x vs H _ IH]; [reflexivity|]. cbn [map all2]. rewrite H, IH. reflexivity.
Qed.

Lemma vok_self_typed : forall v, vok v = true -> has_type v (as_type v) = true.
Proof.
  induction v as [x|x|x|x|i ps r|et vs IH|vs IH|l t|fs IH|] using value_ind';
    intros H; try reflexivity.
  - (* VFun *)
    cbn [vok] in H. apply has_type_intro; cbn [as_type].
    + apply matches_refl, H.
    + rewrite content_in_fun. apply matches_refl, H.
  - (* VArr *)
    cbn [vok] in H. apply andb_true_iff in H. destruct H as [Wt H].
    apply has_type_intro; cbn [as_type].
    + apply matches_refl. exact Wt.
    + rewrite content_in_arr. rewrite forallb_forall in *. intros x Hx. specialize (H x Hx).
      apply andb_true_iff in H. apply has_type_content, H.
  - (* VTup *)
    cbn [vok] in H. cbn [as_type]. rewrite has_type_tup_all2. apply all2_map_as_type.
    rewrite forallb_forall in H. rewrite Forall_forall in *. intros x Hx. apply IH; auto.
  - (* VMut *)
    cbn [vok] in H. apply has_type_intro; cbn [as_type].
    + apply matches_refl. exact H.
    + rewrite content_in_mut. apply ty_eqb_refl, H.
  - (* VStruct *)
    cbn [vok] in H. apply andb_true_iff in H. destruct H as [Hn H].
    cbn [as_type]. rewrite has_type_struct. apply forallb_forall. intros kt Hkt.
    apply in_map_iff in Hkt. destruct Hkt as [[k x] [<- Hx]]. cbn [fst snd].
    rewrite (in_assoc_nodup k x fs Hn Hx).
    rewrite forallb_forall in H. rewrite Forall_forall in IH.
    apply (IH (k, x) Hx). apply (H (k, x) Hx).
Qed.

Lemma vok_arr_of vs : forallb vok vs = true -> vok (arr_of vs) = true.
Proof.
  intros H. unfold arr_of. cbn [vok]. rewrite forallb_forall in H. apply andb_true_iff. split.
  - apply CheckTotal.concat_all_wf. apply forallb_forall. intros t Ht.
    apply in_map_iff in Ht. destruct Ht as [x [<- Hx]]. apply vok_type_wf, H, Hx.
  - apply forallb_forall. intros x Hx. rewrite (H x Hx), andb_true_r.
    unfold concat_all. destruct vs as [|v0 vs]; [destruct Hx|]. cbn [map].
    apply (has_type_fold_concat x (as_type x)); [apply vok_self_typed, H, Hx|].
    change (In (as_type x) (map as_type (v0 :: vs))). apply in_map. exact Hx.
Qed.

Lemma vok_array_concat t1 l1 t2 l2 :
  vok (VArr t1 l1) = true -> vok (VArr t2 l2) = true -> vok (array_concat t1 l1 t2 l2) = true.
Proof.
  intros V1 V2. unfold array_concat. destruct l1 as [|x l1]; [exact V2|].
  destruct l2 as [|y l2]; [exact V1|].
  cbn [vok] in *. apply andb_true_iff in V1. destruct V1 as [W1 V1].
  apply andb_true_iff in V2. destruct V2 as [W2 V2].
  rewrite (concat_wf t1 t2 W1 W2). cbn [andb]. rewrite forallb_app. apply andb_true_iff.
  rewrite forallb_forall in V1, V2. split; apply forallb_forall; intros z Hz.
  - specialize (V1 z Hz). apply andb_true_iff in V1. destruct V1 as [A B].
    rewrite B, andb_true_r. apply has_type_union_l_all. exact A.
  - specialize (V2 z Hz). apply andb_true_iff in V2. destruct V2 as [A B].
    rewrite B, andb_true_r. apply has_type_union_r_all. exact A.
Qed.

Lemma vok_repeat_value v n : vok v = true -> vok (repeat_value v n) = true.
Proof.
  intros V. unfold repeat_value. cbn [vok]. rewrite (vok_type_wf v V). cbn [andb].
  apply forallb_forall. intros x Hx. apply repeat_spec in Hx. subst.
  rewrite V, (vok_self_typed v V). reflexivity.
Qed.

Lemma vok_at v i x : vok v = true -> at_exec v i = Ok x -> vok x = true.
Proof.
  intros V H. destruct v; try (destruct i; discriminate H).
  - destruct i; try discriminate H. apply at_exec_string in H. destruct H as [c ->]. reflexivity.
  - destruct i; try discriminate H. apply at_exec_arr_in in H.
    cbn [vok] in V. apply andb_true_iff in V. destruct V as [_ V].
    rewrite forallb_forall in V. specialize (V x H). apply andb_true_iff in V. apply V.
Qed.

Section VokOps.
Variable powf : fbits -> fbits -> fbits.

Lemma vok_op o a b v :
  vok a = true -> vok b = true -> op_exec powf o a b = Ok v -> vok v = true.
Proof.
  intros Va Vb H.
  destruct o; try discriminate H; cbn [op_exec] in H;
    try (injection H as <-; reflexivity);
    destruct a; try discriminate H; destruct b; try discriminate H;
    repeat match type of H with
           | context [match ?z with _ => _ end] => destruct z; try discriminate H
           | context [if ?c then _ else _] => destruct c; try discriminate H
           end;
    try (injection H as <-; try reflexivity).
  apply vok_array_concat; assumption.
Qed.
End VokOps.

Lemma vok_unop o a v : unop_exec o a = Ok v -> vok v = true.
Proof.
  destruct o; try discriminate; destruct a; try discriminate; intros H; injection H as <-; reflexivity.
Qed.

(* ================================================================= *)
(* 2. the environments of the two passes                               *)
(* ================================================================= *)
Definition vok_lvar (lv : lvar) : bool := match lv with LVariable v => vok v | _ => true end.
Definition vok_lenv (e : lenv) : Prop :=
  forallb (fun l => forallb (fun kv : name * lvar => vok_lvar (snd kv)) (l_vars l)) e = true.
Definition vok_scopes (sc : scopes) : Prop :=
  forallb (forallb (fun kv : name * value => vok (snd kv))) sc = true.

Lemma lenv_get_vok n e v : vok_lenv e -> lenv_get n e = Some (LVariable v) -> vok v = true.
Proof.
  unfold vok_lenv. induction e as [|l e IH]; [discriminate|]. cbn [forallb lenv_get]. intros W.
  apply andb_true_iff in W. destruct W as [Wl We].
  destruct (assoc n (l_vars l)) as [lv|] eqn:E.
  - intros H. injection H as ->. apply CheckBase.assoc_in in E. destruct E as [k Hin].
    rewrite forallb_forall in Wl. apply (Wl (k, LVariable v) Hin).
  - apply IH. exact We.
Qed.

Lemma scopes_get_vok n sc v : vok_scopes sc -> scopes_get n sc = Some v -> vok v = true.
Proof.
  unfold vok_scopes. induction sc as [|s sc IH]; [discriminate|]. cbn [forallb scopes_get].
  intros W. apply andb_true_iff in W. destruct W as [Ws Wsc].
  destruct (assoc n s) as [w|] eqn:E.
  - intros H. injection H as ->. apply CheckBase.assoc_in in E. destruct E as [k Hin].
    rewrite forallb_forall in Ws. apply (Ws (k, v) Hin).
  - apply IH. exact Wsc.
Qed.

(* the pass knows lv' where the checker knew lv: if lv' is a constant, it inhabits lv's type *)
Definition lref (lv lv' : lvar) : Prop :=
  forall v, lv' = LVariable v -> vok v = true /\ has_type v (lvar_type lv) = true.
(* every local variable of the checker is bound for the pass, compatibly *)
Definition ER (e er : lenv) : Prop :=
  forall n lv, lenv_get n e = Some lv -> exists lv', lenv_get n er = Some lv' /\ lref lv lv'.
(* same bindings *)
Definition leq (e1 e2 : lenv) : Prop := forall n, lenv_get n e1 = lenv_get n e2.

Lemma lref_other lv t : lref lv (LOther t).
Proof. intros v E. discriminate E. Qed.
Lemma lref_fun lv ps r : lref lv (LFunction ps r).
Proof. intros v E. discriminate E. Qed.
Lemma lref_self lv : vok_lvar lv = true -> lref lv lv.
Proof. intros V v ->. split; [exact V|apply vok_self_typed, V]. Qed.

Lemma assoc_filter_other {V} m n (l : list (ident * V)) :
  ident_eqb m n = false ->
  assoc m (filter (fun kv => negb (ident_eqb n (fst kv))) l) = assoc m l.
Proof.
  intros Hne. induction l as [|[k v] l IH]; [reflexivity|]. cbn [filter fst].
  destruct (ident_eqb n k) eqn:E; cbn [negb assoc].
  - apply ident_eqb_eq in E. subst k. rewrite Hne. exact IH.
  - rewrite IH. reflexivity.
Qed.

Lemma lenv_get_insert m n lv e :
  lenv_get m (lenv_insert n lv e) = if ident_eqb m n then Some lv else lenv_get m e.
Proof.
  destruct e as [|l e]; cbn [lenv_insert lenv_get layer_insert l_vars assoc].
  - destruct (ident_eqb m n); reflexivity.
  - destruct (ident_eqb m n) eqn:E; [reflexivity|]. rewrite assoc_filter_other by exact E. reflexivity.
Qed.

Lemma lenv_get_set_loop m b e : lenv_get m (lenv_set_loop b e) = lenv_get m e.
Proof. destruct e; reflexivity. Qed.

Lemma leq_refl e : leq e e.
Proof. intros n. reflexivity. Qed.
Lemma leq_trans e1 e2 e3 : leq e1 e2 -> leq e2 e3 -> leq e1 e3.
Proof. intros H1 H2 n. rewrite H1. apply H2. Qed.
Lemma leq_sym e1 e2 : leq e1 e2 -> leq e2 e1.
Proof. intros H n. symmetry. apply H. Qed.
Lemma leq_set_loop b e : leq (lenv_set_loop b e) e.
Proof. intros n. apply lenv_get_set_loop. Qed.
Lemma leq_push e : leq (lenv_push e) e.
Proof. intros n. reflexivity. Qed.
Lemma leq_insert n lv e1 e2 : leq e1 e2 -> leq (lenv_insert n lv e1) (lenv_insert n lv e2).
Proof. intros H m. rewrite !lenv_get_insert, H. reflexivity. Qed.

Lemma ER_leq_l e1 e2 er : leq e1 e2 -> ER e2 er -> ER e1 er.
Proof. intros H1 H2 n lv G. rewrite H1 in G. apply H2, G. Qed.
Lemma ER_leq_r e er1 er2 : leq er1 er2 -> ER e er2 -> ER e er1.
Proof. intros H1 H2 n lv G. destruct (H2 n lv G) as [lv' [G' L]]. exists lv'. rewrite H1. auto. Qed.

Lemma ER_insert n lv lv' e er :
  ER e er -> lref lv lv' -> ER (lenv_insert n lv e) (lenv_insert n lv' er).
Proof.
  intros H L m lv0 G. rewrite lenv_get_insert in G. rewrite lenv_get_insert.
  destruct (ident_eqb m n); [injection G as <-; eauto|apply H, G].
Qed.

Lemma ER_push e er : ER e er -> ER (lenv_push e) (lenv_push er).
Proof. intros H. apply (ER_leq_l _ e), (ER_leq_r _ _ er); [apply leq_push|apply leq_push|exact H]. Qed.

Lemma ER_set_loop b b' e er : ER e er -> ER (lenv_set_loop b e) (lenv_set_loop b' er).
Proof.
  intros H. apply (ER_leq_l _ e), (ER_leq_r _ _ er); [apply leq_set_loop|apply leq_set_loop|exact H].
Qed.

Lemma params_layer_other_gen ps acc m lv :
  (forall k x, In (k, x) acc -> exists t, x = LOther t) ->
  assoc m (fold_left (fun acc p => (fst p, LOther (snd p)) ::
             filter (fun kv => negb (ident_eqb (fst p) (fst kv))) acc) ps acc) = Some lv ->
  exists t, lv = LOther t.
Proof.
  revert acc. induction ps as [|p ps IH]; intros acc Ha G.
  - apply TyFuel.assoc_in in G. eapply Ha, G.
  - cbn [fold_left] in G. apply IH in G; [exact G|].
    intros k x [E|Hin]; [injection E as <- <-; eauto|].
    apply filter_In in Hin. eapply Ha, Hin.
Qed.

Lemma params_layer_other ps m lv : assoc m (params_layer ps) = Some lv -> exists t, lv = LOther t.
Proof. apply params_layer_other_gen. intros k x []. Qed.

Lemma ER_push_fn ps f f' r r' e er :
  ER e er -> ER (lenv_push_fn (params_layer ps) f r e) (lenv_push_fn (params_layer ps) f' r' er).
Proof.
  intros H m lv G. cbn [lenv_push_fn lenv_get l_vars] in *.
  destruct (assoc m (params_layer ps)) as [x|] eqn:E.
  - injection G as <-. exists x. split; [reflexivity|].
    destruct (params_layer_other ps m x E) as [t ->]. apply lref_other.
  - apply H, G.
Qed.

Lemma ER_refl e : vok_lenv e -> ER e e.
Proof.
  intros V n lv G. exists lv. split; [exact G|]. apply lref_self.
  destruct lv; try reflexivity. apply (lenv_get_vok n e v V G).
Qed.

Lemma vok_lenv_insert n lv e : vok_lenv e -> vok_lvar lv = true -> vok_lenv (lenv_insert n lv e).
Proof.
  unfold vok_lenv. intros V Vl. destruct e as [|l e]; cbn [lenv_insert forallb layer_insert l_vars snd].
  - rewrite Vl. reflexivity.
  - cbn [forallb] in V. apply andb_true_iff in V. destruct V as [V1 V2]. rewrite Vl, V2.
    cbn [andb]. rewrite andb_true_r. rewrite forallb_forall in *. intros x Hx.
    apply filter_In in Hx. apply V1, Hx.
Qed.
Lemma vok_lenv_push e : vok_lenv e -> vok_lenv (lenv_push e).
Proof. exact (fun H => H). Qed.
Lemma vok_lenv_set_loop b e : vok_lenv e -> vok_lenv (lenv_set_loop b e).
Proof. destruct e; [reflexivity|exact (fun H => H)]. Qed.
Lemma vok_params_layer_gen ps acc :
  forallb (fun kv : name * lvar => vok_lvar (snd kv)) acc = true ->
  forallb (fun kv : name * lvar => vok_lvar (snd kv))
    (fold_left (fun acc p => (fst p, LOther (snd p)) ::
       filter (fun kv => negb (ident_eqb (fst p) (fst kv))) acc) ps acc) = true.
Proof.
  revert acc. induction ps as [|p ps IH]; intros acc H; [exact H|]. cbn [fold_left]. apply IH.
  cbn [forallb snd vok_lvar andb]. rewrite forallb_forall in *. intros x Hx. apply filter_In in Hx. apply H, Hx.
Qed.
Lemma vok_lenv_push_fn ps f r e : vok_lenv e -> vok_lenv (lenv_push_fn (params_layer ps) f r e).
Proof.
  unfold vok_lenv. intros V. cbn [lenv_push_fn forallb l_vars]. rewrite V, andb_true_r.
  apply vok_params_layer_gen. reflexivity.
Qed.

(* ================================================================= *)
(* 3. the folding pass, one fuel step at a time                        *)
(* ================================================================= *)
Definition rl_def (rec : lenv -> instr -> R) :=
  fix go (l : list instr) (e : lenv) : outcome (list instr * lenv) :=
    match l with
    | [] => Ok ([], e)
    | x :: l => obind (rec e x) (fun '(x', e) =>
                obind (go l e) (fun '(l', e) => Ok (x' :: l', e)))
    end.
Definition ro_def (rec : lenv -> instr -> R) (o : option instr) (e : lenv)
  : outcome (option instr * lenv) :=
  match o with
  | None => Ok (None, e)
  | Some x => obind (rec e x) (fun '(x', e) => Ok (Some x', e))
  end.
Definition rf_def (rec : lenv -> instr -> R) :=
  fix go (l : list (name * instr)) (e : lenv) : outcome (list (name * instr) * lenv) :=
    match l with
    | [] => Ok ([], e)
    | (k, x) :: l => obind (rec e x) (fun '(x', e) =>
                     obind (go l e) (fun '(l', e) => Ok ((k, x') :: l', e)))
    end.

Definition rarm_def (rec : lenv -> instr -> R) (e : lenv) (a : arm) : outcome (arm * lenv) :=
  match a with
  | ArmType n t b =>
      obind (rec (lenv_insert n (LOther t) (lenv_push e)) b) (fun '(b', _) =>
      Ok (ArmType n t b', e))
  | ArmValue vs b =>
      obind (rl_def rec vs e) (fun '(vs', e) =>
      obind (rec e b) (fun '(b', e) => Ok (ArmValue vs' b', e)))
  | ArmOther b => obind (rec e b) (fun '(b', e) => Ok (ArmOther b', e))
  end.
Definition ra_def (rec : lenv -> instr -> R) :=
  fix go (l : list arm) (e : lenv) : outcome (list arm * lenv) :=
    match l with
    | [] => Ok ([], e)
    | a :: l => obind (rarm_def rec e a) (fun '(a', e) =>
                obind (go l e) (fun '(l', e) => Ok (a' :: l', e)))
    end.

Section RecEq.
Variable powf : fbits -> fbits -> fbits.
Notation rec n sc := (recreate powf n sc).

Lemma rec_var n sc e v : rec (S n) sc e (IVar v) = Ok (IVar v, e).
Proof. reflexivity. Qed.
Lemma rec_local n sc e nm lv :
  rec (S n) sc e (ILocal nm lv) = obind (resolve_name sc e nm) (fun i' => Ok (i', e)).
Proof. reflexivity. Qed.
Lemma rec_array n sc e es et :
  rec (S n) sc e (IArray es et) =
  obind (rl_def (rec n sc) es e) (fun '(es', e) =>
    match all_vars es' with
    | Some vs => Ok (IVar (arr_of vs), e)
    | None => Ok (IArray es' et, e)
    end).
Proof. reflexivity. Qed.
Lemma rec_tuple n sc e es :
  rec (S n) sc e (ITuple es) =
  obind (rl_def (rec n sc) es e) (fun '(es', e) =>
    match all_vars es' with
    | Some vs => Ok (IVar (VTup vs), e)
    | None => Ok (ITuple es', e)
    end).
Proof. reflexivity. Qed.
Lemma rec_repeat n sc e v len :
  rec (S n) sc e (IArrayRepeat v len) =
  obind (rec n sc e v) (fun '(v', e) => obind (rec n sc e len) (fun '(len', e) =>
  obind (fold_repeat v' len') (fun r => Ok (r, e)))).
Proof. reflexivity. Qed.
Lemma rec_struct n sc e fs :
  rec (S n) sc e (IStruct fs) =
  obind (rf_def (rec n sc) fs e) (fun '(fs', e) => Ok (IStruct fs', e)).
Proof. reflexivity. Qed.
Lemma rec_un n sc e op x :
  rec (S n) sc e (IUn op x) =
  obind (rec n sc e x) (fun '(x', e) => obind (fold_un op x') (fun r => Ok (r, e))).
Proof. reflexivity. Qed.
Lemma rec_field n sc e x f :
  rec (S n) sc e (IFieldAccess x f) = obind (rec n sc e x) (fun '(x', e) => Ok (IFieldAccess x' f, e)).
Proof. reflexivity. Qed.
Lemma rec_tacc n sc e x k :
  rec (S n) sc e (ITupleAccess x k) = obind (rec n sc e x) (fun '(x', e) => Ok (ITupleAccess x' k, e)).
Proof. reflexivity. Qed.
Lemma rec_tfilter n sc e x t :
  rec (S n) sc e (ITypeFilter x t) = obind (rec n sc e x) (fun '(x', e) => Ok (ITypeFilter x' t, e)).
Proof. reflexivity. Qed.
Lemma rec_mut n sc e t x :
  rec (S n) sc e (IMut t x) = obind (rec n sc e x) (fun '(x', e) => Ok (IMut t x', e)).
Proof. reflexivity. Qed.
Lemma rec_reduce n sc e a b c :
  rec (S n) sc e (IReduce a b c) =
  obind (rec n sc e a) (fun '(a', e) => obind (rec n sc e b) (fun '(b', e) =>
  obind (rec n sc e c) (fun '(c', e) => Ok (IReduce a' b' c', e)))).
Proof. reflexivity. Qed.
Lemma rec_slicing n sc e l a b c :
  rec (S n) sc e (ISlicing l a b c) =
  obind (rec n sc e l) (fun '(l', e) => obind (ro_def (rec n sc) a e) (fun '(a', e) =>
  obind (ro_def (rec n sc) b e) (fun '(b', e) => obind (ro_def (rec n sc) c e) (fun '(c', e) =>
  Ok (ISlicing l' a' b' c', e))))).
Proof. reflexivity. Qed.
Lemma rec_break n sc e : rec (S n) sc e IBreak = Ok (IBreak, e).
Proof. reflexivity. Qed.
Lemma rec_continue n sc e : rec (S n) sc e IContinue = Ok (IContinue, e).
Proof. reflexivity. Qed.
Lemma rec_block n sc e body :
  rec (S n) sc e (IBlock body) =
  obind (rl_def (rec n sc) body (lenv_push e)) (fun '(body', _) => Ok (IBlock body', e)).
Proof. reflexivity. Qed.
Lemma rec_anonfn n sc e ps body ret :
  rec (S n) sc e (IAnonFn ps body ret) =
  obind (rl_def (rec n sc) body (lenv_push_fn (params_layer ps) None ret e)) (fun '(body', _) =>
  Ok (IAnonFn ps body' ret, e)).
Proof. reflexivity. Qed.
Lemma rec_fndecl n sc e nm ps body ret :
  rec (S n) sc e (IFnDecl nm ps body ret) =
  obind (rl_def (rec n sc) body
           (lenv_push_fn (params_layer ps) (Some nm) ret (lenv_insert nm (LFunction ps ret) e)))
        (fun '(body', _) =>
  Ok (IFnDecl nm ps body' ret, lenv_insert nm (LFunction ps ret) e)).
Proof. reflexivity. Qed.
Lemma rec_ifelse n sc e c t f :
  rec (S n) sc e (IIfElse c t f) =
  obind (rec n sc e c) (fun '(c', e) =>
    match c' with
    | IVar (VBool true) => rec n sc e t
    | IVar (VBool false) => rec n sc e f
    | _ => obind (rec n sc e t) (fun '(t', e) => obind (rec n sc e f) (fun '(f', e) =>
           Ok (IIfElse c' t' f', e)))
    end).
Proof. reflexivity. Qed.
Lemma rec_loop n sc e b :
  rec (S n) sc e (ILoop b) = obind (rec n sc e b) (fun '(b', e) => Ok (ILoop b', e)).
Proof. reflexivity. Qed.
Lemma rec_set n sc e nm x :
  rec (S n) sc e (ISet nm x) =
  obind (rec n sc e x) (fun '(x', e) =>
  obind (lvar_of_instr x') (fun lv => Ok (ISet nm x', lenv_insert nm lv e))).
Proof. reflexivity. Qed.
Lemma rec_setifelse n sc e nm t x ifm els :
  rec (S n) sc e (ISetIfElse nm t x ifm els) =
  obind (rec n sc e x) (fun '(x', e) =>
  obind (rec n sc (lenv_insert nm (LOther t) (lenv_push e)) ifm) (fun '(ifm', _) =>
  obind (rec n sc e els) (fun '(els', e) => Ok (ISetIfElse nm t x' ifm' els', e)))).
Proof. reflexivity. Qed.
Lemma rec_match n sc e x arms :
  rec (S n) sc e (IMatch x arms) =
  obind (rec n sc e x) (fun '(x', e) =>
  obind (ra_def (rec n sc) arms e) (fun '(arms', e) => Ok (IMatch x' arms', e))).
Proof. reflexivity. Qed.
End RecEq.

Lemma all_vars_some l vs : all_vars l = Some vs -> l = map IVar vs.
Proof.
  revert vs. induction l as [|i l IH]; intros vs H.
  - cbn in H. injection H as <-. reflexivity.
  - change (all_vars (i :: l)) with
      (match i, all_vars l with IVar v, Some r => Some (v :: r) | _, _ => None end) in H.
    destruct i; try discriminate H. destruct (all_vars l) as [r|]; [|discriminate H].
    injection H as <-. cbn [map]. f_equal. apply IH. reflexivity.
Qed.

Lemma binop_eq_and_or (op : binop) : (op = And \/ op = Or) \/ (op <> And /\ op <> Or).
Proof. destruct op; first [left; left; reflexivity|left; right; reflexivity|right; split; discriminate]. Qed.


(* ================================================================= *)
(* 4. what the pass returns                                            *)
(* ================================================================= *)
(* a folded constant is [vok] and inhabits the static type of what it replaces *)
Definition Inv (i i' : instr) : Prop :=
  forall v, i' = IVar v -> vok v = true /\ exists T, rt i = Ok T /\ has_type v T = true.

(* no panic; on success the environment is er again and the result satisfies P *)
Definition rgood {A} (er : lenv) (P : A -> Prop) (o : outcome (A * lenv)) : Prop :=
  match o with
  | Ok (a, e'') => e'' = er /\ P a
  | Panic => False
  | _ => True
  end.

Lemma rgood_bind {A B} er (P : A -> Prop) (Q : B -> Prop) o (f : A * lenv -> outcome (B * lenv)) :
  rgood er P o -> (forall a, P a -> rgood er Q (f (a, er))) -> rgood er Q (obind o f).
Proof.
  destruct o as [[a e'']| | |]; cbn [rgood obind]; try tauto. intros [-> Pa] H. apply H, Pa.
Qed.

Lemma rgood_mono {A} er (P Q : A -> Prop) o :
  (forall a, P a -> Q a) -> rgood er P o -> rgood er Q o.
Proof. intros H. destruct o as [[a e'']| | |]; cbn [rgood]; try tauto. intros [-> Pa]. auto. Qed.

Lemma Inv_nonvar i i' : (forall v, i' <> IVar v) -> Inv i i'.
Proof. intros H v E. exfalso. exact (H v E). Qed.

Lemma Inv_vars_typed es vs ts :
  Forall2 Inv es (map IVar vs) -> rtl_def es = Ok ts ->
  all2 has_type vs ts = true /\ forallb vok vs = true.
Proof.
  revert vs ts. induction es as [|x es IH]; intros vs ts H Ht.
  - inversion H as [E|]. destruct vs; [|discriminate]. injection Ht as <-. split; reflexivity.
  - destruct vs as [|v vs]; [inversion H|]. cbn [map] in H. inversion H as [|? ? ? ? Hx Hl]; subst.
    change (rtl_def (x :: es)) with
      (obind (rt x) (fun t => obind (rtl_def es) (fun ts => Ok (t :: ts)))) in Ht.
    apply obind_ok in Ht. destruct Ht as [t [Et Ht]]. apply obind_ok in Ht.
    destruct Ht as [ts' [Ets Ht]]. injection Ht as <-.
    destruct (Hx v eq_refl) as [Vv [T [ET HT]]]. rewrite Et in ET. injection ET as <-.
    destruct (IH vs ts' Hl Ets) as [A B]. cbn [all2 forallb]. rewrite HT, A, Vv, B. split; reflexivity.
Qed.

(* the admissibility facts the folder relies on *)
Definition fold_guard (op : binop) (T1 T2 : ty) : Prop :=
  match op with
  | At => can_be_indexed T1 = true /\ T2 = TInt /\ index_result T1 <> None
  | And | Or => T1 = TBool /\ T2 = TBool
  | _ => pure_op op = true ->
         can_be_used op T1 T2 = Ok true /\ exists R, bin_rt op T1 T2 = Ok R
  end.
Definition un_guard (op : unop) (T : ty) : Prop :=
  match op with
  | UNot => matches T ACC_NOT = true
  | UUnaryMinus => matches T ACC_NEG = true
  | _ => True
  end.

Section FoldGood.
Variable powf : fbits -> fbits -> fbits.

(* what folding two recreated operands gives *)
Lemma fold_bin_good op l r l' r' :
  op <> And -> op <> Or -> Inv l l' -> Inv r r' ->
  (exists T1 T2, rt l = Ok T1 /\ rt r = Ok T2 /\ wf_ty T1 = true /\ wf_ty T2 = true /\
                 fold_guard op T1 T2) ->
  match fold_bin powf op l' r' with
  | Ok x => Inv (IBin op l r) x
  | Panic => False
  | _ => True
  end.
Proof.
  intros HA HO Il Ir [T1 [T2 [E1 [E2 [W1 [W2 G]]]]]].
  destruct (FoldLemmas.is_const l' && FoldLemmas.is_const r') eqn:C.
  2:{ destruct (fold_bin_nonconst_cases powf op l' r' C) as [[-> _]|[z [-> _]]]; [|exact I].
      apply Inv_nonvar. discriminate. }
  apply andb_true_iff in C. destruct C as [Cl Cr].
  destruct l' as [ | | | | | | | | | | | | | | | | | | | | | |a| | ]; try discriminate Cl.
  destruct r' as [ | | | | | | | | | | | | | | | | | | | | | |b| | ]; try discriminate Cr.
  destruct (Il a eq_refl) as [Va [Ta [Ea Ha]]]. rewrite E1 in Ea. injection Ea as <-.
  destruct (Ir b eq_refl) as [Vb [Tb [Eb Hb]]]. rewrite E2 in Eb. injection Eb as <-.
  destruct (foldable op) eqn:F.
  - (* a value-level operator *)
    rewrite (fold_bin_const_eq powf op a b (or_introl F)). unfold exec_bin.
    assert (Hp : pure_op op = true) by (destruct op; try discriminate F; reflexivity).
    assert (Hna : op <> At) by (intros ->; discriminate F).
    assert (G' : can_be_used op T1 T2 = Ok true /\ exists R, bin_rt op T1 T2 = Ok R).
    { destruct op; try discriminate F; apply G; reflexivity. }
    destruct G' as [Hc [R HR]].
    destruct (binop_sound powf op T1 T2 R a b Hp W1 W2 Ha Hb Hc HR) as [NP [NF [HOk _]]].
    replace (match op with At => at_exec a b | _ => op_exec powf op a b end)
      with (op_exec powf op a b) by (destruct op; try reflexivity; contradiction).
    unfold lift_val. destruct (op_exec powf op a b) as [v| | |] eqn:Eo; cbn [obind]; try exact I.
    + intros v' Ev. injection Ev as <-. split; [apply (vok_op powf op a b v Va Vb Eo)|].
      exists R. rewrite rt_bin, E1, E2. split; [exact HR|apply HOk; reflexivity].
    + apply NP. reflexivity.
  - destruct op; try discriminate F;
      try (rewrite fold_bin_unfolded by (first [reflexivity|discriminate]); apply Inv_nonvar; discriminate).
    (* At *)
    rewrite (fold_bin_const_eq powf At a b (or_intror eq_refl)). unfold exec_bin.
    cbn [fold_guard] in G. destruct G as [Gi [-> Gr]].
    destruct (at_no_panic T1 a b Gi Ha Hb) as [NP [NF _]].
    unfold lift_val. destruct (at_exec a b) as [v| | |] eqn:Eo; cbn [obind]; try exact I.
    + intros v' Ev. injection Ev as <-. split; [apply (vok_at a b v Va Eo)|].
      destruct (index_result T1) as [R|] eqn:ER; [|congruence].
      exists R. rewrite rt_bin, E1, E2. cbn [obind bin_rt]. rewrite ER. split; [reflexivity|].
      apply (at_sound T1 R a b v W1); try assumption.
      apply vwf_elems_typed, vok_vwf, Va.
    + apply NP. reflexivity.
Qed.

Lemma fold_un_good op x x' :
  Inv x x' -> (exists T, rt x = Ok T /\ un_guard op T) ->
  match fold_un op x' with
  | Ok r => Inv (IUn op x) r
  | Panic => False
  | _ => True
  end.
Proof.
  intros Ix [T [E G]].
  assert (Res : Inv (IUn op x) (IUn op x')) by (apply Inv_nonvar; discriminate).
  assert (K : forall v, x' = IVar v -> (op = UNot \/ op = UUnaryMinus) ->
    match lift_val (unop_exec op v) with
    | Ok r => Inv (IUn op x) r | Panic => False | _ => True end).
  { intros v -> Hop. destruct (Ix v eq_refl) as [Vv [T' [E' Hv]]]. rewrite E in E'. injection E' as <-.
    assert (S : exists r, unop_exec op v = Ok r /\ has_type r T = true).
    { destruct Hop as [-> | ->]; cbn [un_guard] in G; [apply not_sound|apply neg_sound]; assumption. }
    destruct S as [r [Er Hr]]. rewrite Er. cbn [lift_val obind].
    intros v' Ev. injection Ev as <-. split; [apply (vok_unop op v r Er)|].
    exists T. rewrite rt_un, E. cbn [obind]. split; [destruct Hop as [-> | ->]; reflexivity|exact Hr]. }
  destruct op; try exact Res; destruct x'; try exact Res; apply (K _ eq_refl); auto.
Qed.

End FoldGood.
(* ================================================================= *)
(* 5. what the checker established, node by node                       *)
(* ================================================================= *)
Section DK.
Variable powf : fbits -> fbits -> fbits.
Variable sc : scopes.
Variable e : lenv.      (* the environment of the PASS *)

(* [dk i] : i is an expression tree, its constants are [vok], its local variables are
   bound in e compatibly with what the checker knew ([lref]), the pass does not panic on
   its function literals, and at every operator node the operand types are
   computable, well-formed and passed the operator's admissibility test *)
Fixpoint dk (i : instr) : Prop :=
  let dkl := fix go (l : list instr) : Prop :=
      match l with [] => True | x :: l => dk x /\ go l end in
  let dko := fun (o : option instr) => match o with None => True | Some x => dk x end in
  match i with
  | IVar v => vok v = true
  | ILocal n lv => (forall v, lv <> LVariable v) /\ exists lv', lenv_get n e = Some lv' /\ lref lv lv'
  | IAnonFn ps body ret => forall m, recreate powf m sc e (IAnonFn ps body ret) <> Panic
  | IMatch x arms =>      (* only the `match` planted by `$+` / `$*` occurs in an expression *)
      forall m, match recreate powf m sc e (IMatch x arms) with
                | Ok (_, e'') => e'' = e
                | Panic => False
                | _ => True
                end
  | IArray es et => dkl es /\ exists ts, rtl_def es = Ok ts /\ et = join_all ts
  | IArrayRepeat v len => dk v /\ dk len /\ exists T, rt v = Ok T
  | ITuple es => dkl es /\ exists ts, rtl_def es = Ok ts
  | IStruct fs =>
      (fix go (l : list (name * instr)) : Prop :=
         match l with [] => True | (_, x) :: l => dk x /\ go l end) fs
  | IBin op l r =>
      dk l /\ dk r /\
      exists T1 T2, rt l = Ok T1 /\ rt r = Ok T2 /\ wf_ty T1 = true /\ wf_ty T2 = true /\
                    fold_guard op T1 T2
  | IUn op x => dk x /\ exists T, rt x = Ok T /\ un_guard op T
  | IFieldAccess x _ | ITupleAccess x _ | ITypeFilter x _ | IMut _ x => dk x
  | IReduce a b c => dk a /\ dk b /\ dk c
  | ISlicing l a b c => dk l /\ dko a /\ dko b /\ dko c
  | _ => False
  end.

Definition dkl := fix go (l : list instr) : Prop :=
  match l with [] => True | x :: l => dk x /\ go l end.
Definition dko (o : option instr) : Prop := match o with None => True | Some x => dk x end.
Definition dkf := fix go (l : list (name * instr)) : Prop :=
  match l with [] => True | (_, x) :: l => dk x /\ go l end.

Lemma dk_array es et :
  dk (IArray es et) = (dkl es /\ exists ts, rtl_def es = Ok ts /\ et = join_all ts).
Proof. reflexivity. Qed.
Lemma dk_tuple es : dk (ITuple es) = (dkl es /\ exists ts, rtl_def es = Ok ts).
Proof. reflexivity. Qed.
Lemma dk_struct fs : dk (IStruct fs) = dkf fs.
Proof. reflexivity. Qed.
Lemma dk_repeat v len : dk (IArrayRepeat v len) = (dk v /\ dk len /\ exists T, rt v = Ok T).
Proof. reflexivity. Qed.
Lemma dk_bin op l r :
  dk (IBin op l r) =
  (dk l /\ dk r /\
   exists T1 T2, rt l = Ok T1 /\ rt r = Ok T2 /\ wf_ty T1 = true /\ wf_ty T2 = true /\
                 fold_guard op T1 T2).
Proof. reflexivity. Qed.
Lemma dk_un op x : dk (IUn op x) = (dk x /\ exists T, rt x = Ok T /\ un_guard op T).
Proof. reflexivity. Qed.
Lemma dk_slicing l a b c : dk (ISlicing l a b c) = (dk l /\ dko a /\ dko b /\ dko c).
Proof. reflexivity. Qed.
Lemma dk_reduce a b c : dk (IReduce a b c) = (dk a /\ dk b /\ dk c).
Proof. reflexivity. Qed.
End DK.

(* ================================================================= *)
(* 6. the pass on such trees                                           *)
(* ================================================================= *)
Section RecGood.
Variable powf : fbits -> fbits -> fbits.
Variable sc : scopes.
Variable e' : lenv.
Notation dk := (dk powf sc e').
Notation dkl := (dkl powf sc e').
Notation dko := (dko powf sc e').
Notation dkf := (dkf powf sc e').
Notation rgood := (rgood e').

Lemma rec_anonfn_env m ps body ret i' e'' :
  recreate powf m sc e' (IAnonFn ps body ret) = Ok (i', e'') ->
  e'' = e' /\ forall v, i' <> IVar v.
Proof.
  destruct m as [|m]; [discriminate|]. rewrite rec_anonfn. intros H.
  apply obind_ok in H. destruct H as [[b' e0] [_ H]]. injection H as <- <-.
  split; [reflexivity|discriminate].
Qed.

Lemma rec_match_shape m x arms i' e'' :
  recreate powf m sc e' (IMatch x arms) = Ok (i', e'') -> forall v, i' <> IVar v.
Proof.
  destruct m as [|m]; [discriminate|]. rewrite rec_match. intros H.
  apply obind_ok in H. destruct H as [[x' e0] [_ H]].
  apply obind_ok in H. destruct H as [[a' e1] [_ H]]. injection H as <- _. discriminate.
Qed.

Section Level.
Variable n : nat.
Hypothesis IH : forall i, dk i -> rgood (Inv i) (recreate powf n sc e' i).

Lemma rl_good es :
  dkl es -> rgood (Forall2 Inv es) (rl_def (recreate powf n sc) es e').
Proof.
  induction es as [|x es IHl]; intros D; [split; [reflexivity|constructor]|].
  destruct D as [Dx Dl].
  change (rl_def (recreate powf n sc) (x :: es) e') with
    (obind (recreate powf n sc e' x) (fun '(x', e0) =>
     obind (rl_def (recreate powf n sc) es e0) (fun '(l', e0) => Ok (x' :: l', e0)))).
  apply rgood_bind with (P := Inv x); [apply IH, Dx|]. intros x' Hx.
  apply rgood_bind with (P := Forall2 Inv es); [apply IHl, Dl|]. intros l' Hl.
  split; [reflexivity|constructor; assumption].
Qed.

Lemma ro_good o : dko o -> rgood (fun _ => True) (ro_def (recreate powf n sc) o e').
Proof.
  destruct o as [x|]; intros D; [|split; [reflexivity|exact I]]. cbn [ro_def].
  apply rgood_bind with (P := Inv x); [apply IH, D|]. intros x' _. split; [reflexivity|exact I].
Qed.

Lemma rf_good fs : dkf fs -> rgood (fun _ => True) (rf_def (recreate powf n sc) fs e').
Proof.
  induction fs as [|[k x] fs IHl]; intros D; [split; [reflexivity|exact I]|].
  destruct D as [Dx Dl].
  change (rf_def (recreate powf n sc) ((k, x) :: fs) e') with
    (obind (recreate powf n sc e' x) (fun '(x', e0) =>
     obind (rf_def (recreate powf n sc) fs e0) (fun '(l', e0) => Ok ((k, x') :: l', e0)))).
  apply rgood_bind with (P := Inv x); [apply IH, Dx|]. intros x' _.
  apply rgood_bind with (P := fun _ => True); [apply IHl, Dl|]. intros l' _.
  split; [reflexivity|exact I].
Qed.

Lemma rec_step i : dk i -> rgood (Inv i) (recreate powf (S n) sc e' i).
Proof.
  intros D. destruct i; try contradiction D.
  - (* IAnonFn *)
    pose proof (D (S n)) as NP.
    destruct (recreate powf (S n) sc e' (IAnonFn ps body ret)) as [[i' e'']| | |] eqn:E;
      try exact I; [|contradiction].
    destruct (rec_anonfn_env _ _ _ _ _ _ E) as [-> Hnv]. split; [reflexivity|apply Inv_nonvar, Hnv].
  - (* IArray *)
    rewrite rec_array. rewrite dk_array in D. destruct D as [Dl [ts [Ets ->]]].
    apply rgood_bind with (P := Forall2 Inv es); [apply rl_good, Dl|]. intros es' Hes.
    destruct (all_vars es') as [vs|] eqn:Ea.
    + apply all_vars_some in Ea. subst es'. destruct (Inv_vars_typed es vs ts Hes Ets) as [A B].
      split; [reflexivity|]. intros v Ev. injection Ev as <-.
      split; [apply vok_arr_of, B|]. exists (TArr (join_all ts)).
      split; [reflexivity|apply arr_literal_typed, A].
    + split; [reflexivity|apply Inv_nonvar; discriminate].
  - (* IArrayRepeat *)
    rewrite rec_repeat. rewrite dk_repeat in D. destruct D as [Dv [Dlen [T ET]]].
    apply rgood_bind with (P := Inv i1); [apply IH, Dv|]. intros v' Hv.
    apply rgood_bind with (P := Inv i2); [apply IH, Dlen|]. intros len' Hlen.
    assert (Res : rgood (Inv (IArrayRepeat i1 i2)) (Ok (IArrayRepeat v' len', e')))
      by (split; [reflexivity|apply Inv_nonvar; discriminate]).
    unfold fold_repeat.
    destruct len'; try (destruct v'; exact Res).
    destruct v; try (destruct v'; exact Res).
    destruct (z <? 0)%Z; [destruct v'; exact I|].
    destruct v'; try exact Res.
    cbn [obind]. split; [reflexivity|]. intros v0 Ev. injection Ev as <-.
    destruct (Hv v eq_refl) as [Vv [T' [E' Hv']]]. rewrite ET in E'. injection E' as <-.
    split; [apply vok_repeat_value, Vv|]. exists (TArr T). rewrite CheckTotal.rt_repeat, ET.
    split; [reflexivity|apply repeat_typed, Hv'].
  - (* IFieldAccess *)
    rewrite rec_field. apply rgood_bind with (P := Inv i); [apply IH, D|]. intros x' _.
    split; [reflexivity|apply Inv_nonvar; discriminate].
  - (* ILocal *)
    rewrite rec_local. destruct D as [_ [lv' [G L]]]. unfold resolve_name. rewrite G.
    destruct lv'; cbn [obind]; try (split; [reflexivity|apply Inv_nonvar; discriminate]).
    split; [reflexivity|]. intros v' Ev. injection Ev as <-.
    destruct (L v eq_refl) as [Vv Hv]. split; [exact Vv|]. exists (lvar_type lv). split; [reflexivity|exact Hv].
  - (* IMatch *)
    pose proof (D (S n)) as NP.
    destruct (recreate powf (S n) sc e' (IMatch i arms)) as [[i' e'']| | |] eqn:E;
      try exact I; [|contradiction].
    split; [exact NP|apply Inv_nonvar, (rec_match_shape _ _ _ _ _ E)].
  - (* IMut *)
    rewrite rec_mut. apply rgood_bind with (P := Inv i); [apply IH, D|]. intros x' _.
    split; [reflexivity|apply Inv_nonvar; discriminate].
  - (* IReduce *)
    rewrite rec_reduce. rewrite dk_reduce in D. destruct D as [D1 [D2 D3]].
    apply rgood_bind with (P := Inv i1); [apply IH, D1|]. intros a' _.
    apply rgood_bind with (P := Inv i2); [apply IH, D2|]. intros b' _.
    apply rgood_bind with (P := Inv i3); [apply IH, D3|]. intros c' _.
    split; [reflexivity|apply Inv_nonvar; discriminate].
  - (* ISlicing *)
    rewrite rec_slicing. rewrite dk_slicing in D. destruct D as [D1 [Da [Db Dc]]].
    apply rgood_bind with (P := Inv i); [apply IH, D1|]. intros l' _.
    apply rgood_bind with (P := fun _ => True); [apply ro_good, Da|]. intros a' _.
    apply rgood_bind with (P := fun _ => True); [apply ro_good, Db|]. intros b' _.
    apply rgood_bind with (P := fun _ => True); [apply ro_good, Dc|]. intros c' _.
    split; [reflexivity|apply Inv_nonvar; discriminate].
  - (* IStruct *)
    rewrite rec_struct. rewrite dk_struct in D.
    apply rgood_bind with (P := fun _ => True); [apply rf_good, D|]. intros fs' _.
    split; [reflexivity|apply Inv_nonvar; discriminate].
  - (* ITuple *)
    rewrite rec_tuple. rewrite dk_tuple in D. destruct D as [Dl [ts Ets]].
    apply rgood_bind with (P := Forall2 Inv es); [apply rl_good, Dl|]. intros es' Hes.
    destruct (all_vars es') as [vs|] eqn:Ea.
    + apply all_vars_some in Ea. subst es'. destruct (Inv_vars_typed es vs ts Hes Ets) as [A B].
      split; [reflexivity|]. intros v Ev. injection Ev as <-.
      split; [exact B|]. exists (TTup ts). rewrite rt_tuple, Ets.
      split; [reflexivity|]. rewrite tuple_typed. exact A.
    + split; [reflexivity|apply Inv_nonvar; discriminate].
  - (* ITupleAccess *)
    rewrite rec_tacc. apply rgood_bind with (P := Inv i); [apply IH, D|]. intros x' _.
    split; [reflexivity|apply Inv_nonvar; discriminate].
  - (* ITypeFilter *)
    rewrite rec_tfilter. apply rgood_bind with (P := Inv i); [apply IH, D|]. intros x' _.
    split; [reflexivity|apply Inv_nonvar; discriminate].
  - (* IVar *)
    rewrite rec_var. split; [reflexivity|]. intros v' Ev. injection Ev as <-.
    split; [exact D|]. exists (as_type v). split; [reflexivity|apply vok_self_typed, D].
  - (* IBin *)
    rewrite dk_bin in D. destruct D as [Dl [Dr G]].
    assert (Hand : forall o, o = And \/ o = Or -> op = o ->
      forall r', Inv i2 r' -> Inv (IBin op i1 i2) r').
    { intros o Ho <- r' Hr v Ev. destruct (Hr v Ev) as [Vv [T [ET HT]]]. split; [exact Vv|].
      destruct G as [T1 [T2 [E1 [E2 [_ [_ G]]]]]]. rewrite E2 in ET. injection ET as <-.
      exists TBool. rewrite rt_bin, E1, E2.
      destruct Ho as [-> | ->]; cbn [fold_guard] in G; destruct G as [_ ->]; split; try reflexivity; exact HT. }
    assert (Hb : forall o b, o = And \/ o = Or -> op = o -> Inv (IBin op i1 i2) (IVar (VBool b))).
    { intros o b Ho <- v Ev. injection Ev as <-. split; [reflexivity|].
      destruct G as [T1 [T2 [E1 [E2 _]]]]. exists TBool. rewrite rt_bin, E1, E2.
      destruct Ho as [-> | ->]; split; reflexivity. }
    destruct (binop_eq_and_or op) as [[-> | ->]|[HA HO]].
    + (* And *)
      rewrite recreate_and_step.
      apply rgood_bind with (P := Inv i1); [apply IH, Dl|]. intros l' _.
      assert (Res : rgood (Inv (IBin And i1 i2))
        (obind (recreate powf n sc e' i2) (fun '(r', e0) => Ok (IBin And l' r', e0)))).
      { apply rgood_bind with (P := Inv i2); [apply IH, Dr|]. intros r' _.
        split; [reflexivity|apply Inv_nonvar; discriminate]. }
      assert (Cst : rgood (Inv (IBin And i1 i2)) (Ok (IVar (VBool false), e')))
        by (split; [reflexivity|apply (Hb And false); auto]).
      destruct l'; try exact Res. destruct v; try exact Cst. destruct b; [|exact Cst].
      pose proof (IH i2 Dr) as Gr. destruct (recreate powf n sc e' i2) as [[r' e0]| | |]; try exact Gr.
      destruct Gr as [-> Hr]. split; [reflexivity|apply (Hand And); auto].
    + (* Or *)
      rewrite recreate_or_step.
      apply rgood_bind with (P := Inv i1); [apply IH, Dl|]. intros l' _.
      assert (Res : rgood (Inv (IBin Or i1 i2))
        (obind (recreate powf n sc e' i2) (fun '(r', e0) => Ok (IBin Or l' r', e0)))).
      { apply rgood_bind with (P := Inv i2); [apply IH, Dr|]. intros r' _.
        split; [reflexivity|apply Inv_nonvar; discriminate]. }
      assert (Cst : rgood (Inv (IBin Or i1 i2)) (Ok (IVar (VBool true), e')))
        by (split; [reflexivity|apply (Hb Or true); auto]).
      assert (Rr : rgood (Inv (IBin Or i1 i2)) (recreate powf n sc e' i2)).
      { pose proof (IH i2 Dr) as Gr. destruct (recreate powf n sc e' i2) as [[r' e0]| | |]; try exact Gr.
        destruct Gr as [-> Hr]. split; [reflexivity|apply (Hand Or); auto]. }
      destruct l'; try exact Res. destruct v; try exact Rr. destruct b; [exact Cst|exact Rr].
    + rewrite (recreate_bin_step powf n sc e' op i1 i2 HA HO).
      apply rgood_bind with (P := Inv i1); [apply IH, Dl|]. intros l' Hl.
      apply rgood_bind with (P := Inv i2); [apply IH, Dr|]. intros r' Hr.
      pose proof (fold_bin_good powf op i1 i2 l' r' HA HO Hl Hr G) as F.
      destruct (fold_bin powf op l' r') as [x| | |]; cbn [obind]; try exact F.
      split; [reflexivity|exact F].
  - (* IUn *)
    rewrite rec_un. rewrite dk_un in D. destruct D as [Dx G].
    apply rgood_bind with (P := Inv i); [apply IH, Dx|]. intros x' Hx.
    pose proof (fold_un_good op i x' Hx G) as F.
    destruct (fold_un op x') as [r| | |]; cbn [obind]; try exact F.
    split; [reflexivity|exact F].
Qed.
End Level.


Theorem rec_good n : forall i, dk i -> rgood (Inv i) (recreate powf n sc e' i).
Proof.
  induction n as [|n IHn]; intros i D; [exact I|]. apply rec_step; assumption.
Qed.
End RecGood.

(* ================================================================= *)
(* 7. the surface fragment                                             *)
(* ================================================================= *)
(* every expression, statement and line form except `for` loops, tuple destructuring and
   modules; constants are [vok]; binary operators are those the parser builds an XInfix for *)
Fixpoint frag (x : sx) : bool :=
  match x with
  | XIdent _ => true
  | XConst v => vok v
  | XMut _ y | XPrefix _ y | XTupleAccess y _ | XFieldAccess y _ | XTypeFilter y _
  | XPostfix _ y => frag y
  | XTuple es | XArray es => forallb frag es
  | XArrayRepeat a b | XAt a b => frag a && frag b
  | XInfix op a b => infix_ok op && frag a && frag b
  | XFunction _ _ body => forallb lfrag body
  | XMod _ => false
  | XStruct fs => forallb (fun kv => match kv with
                                     | (_, Some y) => frag y
                                     | (_, None) => true end) fs
  | XReduce a b c => frag a && frag b && frag c
  | XSlice y a b c =>
      frag y && match a with Some y => frag y | None => true end
             && match b with Some y => frag y | None => true end
             && match c with Some y => frag y | None => true end
  | XCall f args => frag f && forallb frag args
  end
with sfrag (s : sstm) : bool :=
  match s with
  | SExpr e => frag e
  | SBlock body => forallb lfrag body
  | SIfElse c t f => frag c && sfrag t && match f with Some f => sfrag f | None => true end
  | SSetIfElse _ _ e i els =>
      frag e && sfrag i && match els with Some f => sfrag f | None => true end
  | SMatch e arms => frag e && forallb afrag arms
  | SRet r => match r with Some s => sfrag s | None => true end
  | SLoop b => sfrag b
  | SWhile c b | SWhileSet _ _ c b => frag c && sfrag b
  | SFor _ _ _ => false
  | SBrk | SCont => true
  end
with lfrag (l : sline) : bool :=
  match l with
  | LFnDecl _ _ _ body => forallb lfrag body
  | LSet _ s | LStm s => sfrag s
  | LDestruct _ _ => false
  end
with afrag (a : sarm) : bool :=
  match a with
  | AType _ _ b | AOther b => sfrag b
  | AValue vs b => forallb frag vs && sfrag b
  end.

(* the constants the checker's environment knows are good values *)
Definition vokE (e : lenv) : Prop := forall n v, lenv_get n e = Some (LVariable v) -> vok v = true.
Lemma vok_lenv_vokE e : vok_lenv e -> vokE e.
Proof. intros V n v G. apply (lenv_get_vok n e v V G). Qed.
Lemma vokE_leq e1 e2 : leq e1 e2 -> vokE e2 -> vokE e1.
Proof. intros H V n v G. rewrite H in G. apply (V n v G). Qed.
Lemma vokE_insert n lv e : vokE e -> vok_lvar lv = true -> vokE (lenv_insert n lv e).
Proof.
  intros V Vl m v G. rewrite lenv_get_insert in G. destruct (ident_eqb m n); [|apply (V m v G)].
  injection G as ->. exact Vl.
Qed.
Lemma vokE_push_fn ps f r e : vokE e -> vokE (lenv_push_fn (params_layer ps) f r e).
Proof.
  intros V m v G. cbn [lenv_push_fn lenv_get l_vars] in G.
  destruct (assoc m (params_layer ps)) as [x|] eqn:E; [|apply (V m v G)].
  injection G as ->. destruct (params_layer_other ps m _ E) as [t Ht]. discriminate Ht.
Qed.
Lemma ER_self e : vokE e -> ER e e.
Proof.
  intros V n lv G. exists lv. split; [exact G|]. apply lref_self.
  destruct lv; try reflexivity. apply (V n v G).
Qed.

Lemma ty_eqb_int T : ty_eqb T TInt = true -> T = TInt.
Proof. rewrite ty_eqb_unfold. destruct T; try discriminate. reflexivity. Qed.
Lemma ty_eqb_bool T : ty_eqb T TBool = true -> T = TBool.
Proof. rewrite ty_eqb_unfold. destruct T; try discriminate. reflexivity. Qed.

Lemma fold_guard_infix op T1 T2 :
  infix_ok op = true -> can_be_used op T1 T2 = Ok true -> (exists R, bin_rt op T1 T2 = Ok R) ->
  fold_guard op T1 T2.
Proof.
  intros Hop Hc Hr. destruct op; try discriminate Hop; cbn [fold_guard]; try (intros _; split; assumption).
  - cbn [can_be_used] in Hc. injection Hc as Hc. apply andb_true_iff in Hc.
    destruct Hc as [H1 H2]. split; [apply ty_eqb_bool, H1|apply ty_eqb_bool, H2].
  - cbn [can_be_used] in Hc. injection Hc as Hc. apply andb_true_iff in Hc.
    destruct Hc as [H1 H2]. split; [apply ty_eqb_bool, H1|apply ty_eqb_bool, H2].
Qed.

(* inversion of the list helpers *)
Lemma cxl_inv cx es is :
  cxl_def cx es = Ok is -> Forall2 (fun y i => cx y = Ok i) es is.
Proof.
  revert is. induction es as [|y l IH]; intros is H.
  - injection H as <-. constructor.
  - change (cxl_def cx (y :: l)) with
      (obind (cx y) (fun i => obind (cxl_def cx l) (fun is => Ok (i :: is)))) in H.
    apply obind_ok in H. destruct H as [i [Ei H]]. apply obind_ok in H. destruct H as [is' [El H]].
    injection H as <-. constructor; [exact Ei|apply IH, El].
Qed.

Lemma rtl_of_forall is : Forall rt_ok is -> exists ts, rtl_def is = Ok ts.
Proof. intros H. destruct (rtl_ok is H) as [ts [E _]]. eauto. Qed.

(* ================================================================= *)
(* 8. statements and lines: the pass against the checker's environment *)
(* ================================================================= *)
Lemma filter_rev {A} (p : A -> bool) (l : list A) : filter p (rev l) = rev (filter p l).
Proof.
  induction l as [|x l IH]; [reflexivity|]. cbn [rev filter]. rewrite filter_app, IH. cbn [filter].
  destruct (p x); [reflexivity|]. rewrite app_nil_r. reflexivity.
Qed.

Lemma drop_consts_snoc l x :
  drop_consts (l ++ [x]) = filter (fun i => negb (Check.is_const i)) l ++ [x].
Proof.
  unfold drop_consts. rewrite rev_app_distr. cbn [rev app]. rewrite filter_rev, rev_involutive.
  reflexivity.
Qed.

Lemma lvar_of_instr_total i : exists lv, lvar_of_instr i = Ok lv.
Proof.
  destruct (rt_total i) as [T E].
  destruct i; cbn [lvar_of_instr]; try (rewrite E; cbn [obind]); eexists; reflexivity.
Qed.

(* the result of the pass is never a local variable that is known to be a constant *)
Definition nolv (i : instr) : Prop := forall n v, i <> ILocal n (LVariable v).

Lemma rgood_bind_any {A B} er er2 (P : A -> Prop) (Q : B -> Prop) o
      (f : A * lenv -> outcome (B * lenv)) :
  rgood er2 P o -> (forall a e0, P a -> rgood er Q (f (a, e0))) -> rgood er Q (obind o f).
Proof.
  destruct o as [[a e'']| | |]; cbn [rgood obind]; try tauto. intros [_ Pa] H. apply H, Pa.
Qed.

Section Sim.
Variable powf : fbits -> fbits -> fbits.
Variable sc : scopes.
Notation rec := (recreate powf).

Lemma recreate_nolv m : forall er i i' e'', rec m sc er i = Ok (i', e'') -> nolv i'.
Proof.
  induction m as [|m IH]; intros er i i' e'' H; [discriminate H|].
  assert (K : forall (j : instr) (e0 : lenv) (o : outcome (instr * lenv)),
            o = Ok (i', e'') -> o = Ok (j, e0) -> nolv j -> nolv i').
  { intros j e0 o H1 H2 Hj. rewrite H1 in H2. injection H2 as -> _. exact Hj. }
  destruct i.
  - rewrite rec_anonfn in H. apply obind_ok in H. destruct H as [[b e0] [_ H]]. injection H as <- _. discriminate.
  - rewrite rec_array in H. apply obind_ok in H. destruct H as [[b e0] [_ H]].
    destruct (all_vars b); injection H as <- _; discriminate.
  - rewrite rec_repeat in H. apply obind_ok in H. destruct H as [[v' e0] [_ H]].
    apply obind_ok in H. destruct H as [[l' e1] [_ H]]. apply obind_ok in H. destruct H as [r [Hr H]].
    injection H as <- _. unfold fold_repeat in Hr.
    destruct l'; try (injection Hr as <-; discriminate).
    destruct v; try (injection Hr as <-; discriminate).
    destruct (z <? 0)%Z; [discriminate Hr|]. destruct v'; injection Hr as <-; discriminate.
  - rewrite rec_block in H. apply obind_ok in H. destruct H as [[b e0] [_ H]]. injection H as <- _. discriminate.
  - rewrite rec_break in H. injection H as <- _. discriminate.
  - rewrite rec_continue in H. injection H as <- _. discriminate.
  - cbn [recreate] in H. apply obind_ok in H. destruct H as [[x' e0] [_ H]].
    apply obind_ok in H. destruct H as [e1 [_ H]]. injection H as <- _. discriminate.
  - rewrite rec_field in H. apply obind_ok in H. destruct H as [[b e0] [_ H]]. injection H as <- _. discriminate.
  - rewrite rec_fndecl in H. apply obind_ok in H. destruct H as [[b e0] [_ H]]. injection H as <- _. discriminate.
  - rewrite rec_ifelse in H. apply obind_ok in H. destruct H as [[c' e0] [_ H]].
    assert (G : obind (rec m sc e0 i2) (fun '(t', e1) => obind (rec m sc e1 i3) (fun '(f', e2) =>
                  Ok (IIfElse c' t' f', e2))) = Ok (i', e'') -> nolv i').
    { intros G. apply obind_ok in G. destruct G as [[t' e1] [_ G]].
      apply obind_ok in G. destruct G as [[f' e2] [_ G]]. injection G as <- _. discriminate. }
    destruct c'; try (apply G; exact H). destruct v; try (apply G; exact H).
    destruct b; eapply IH; exact H.
  - rewrite rec_local in H. apply obind_ok in H. destruct H as [j [Hj H]]. injection H as <- _.
    unfold resolve_name in Hj. destruct (lenv_get n er) as [[| |]|].
    + injection Hj as <-. discriminate.
    + injection Hj as <-. discriminate.
    + injection Hj as <-. discriminate.
    + destruct (scopes_get n sc); [injection Hj as <-; discriminate|discriminate Hj].
  - rewrite rec_loop in H. apply obind_ok in H. destruct H as [[b e0] [_ H]]. injection H as <- _. discriminate.
  - rewrite rec_match in H. apply obind_ok in H. destruct H as [[b e0] [_ H]].
    apply obind_ok in H. destruct H as [[a e1] [_ H]]. injection H as <- _. discriminate.
  - rewrite rec_mut in H. apply obind_ok in H. destruct H as [[b e0] [_ H]]. injection H as <- _. discriminate.
  - rewrite rec_reduce in H. apply obind_ok in H. destruct H as [[a e0] [_ H]].
    apply obind_ok in H. destruct H as [[b e1] [_ H]]. apply obind_ok in H. destruct H as [[c e2] [_ H]].
    injection H as <- _. discriminate.
  - rewrite rec_set in H. apply obind_ok in H. destruct H as [[b e0] [_ H]].
    apply obind_ok in H. destruct H as [lv [_ H]]. injection H as <- _. discriminate.
  - rewrite rec_setifelse in H. apply obind_ok in H. destruct H as [[a e0] [_ H]].
    apply obind_ok in H. destruct H as [[b e1] [_ H]]. apply obind_ok in H. destruct H as [[c e2] [_ H]].
    injection H as <- _. discriminate.
  - rewrite rec_slicing in H. apply obind_ok in H. destruct H as [[q0 e0] [_ H]].
    apply obind_ok in H. destruct H as [[q1 e1] [_ H]]. apply obind_ok in H. destruct H as [[q2 e2] [_ H]].
    apply obind_ok in H. destruct H as [[q3 e3] [_ H]]. injection H as <- _. discriminate.
  - rewrite rec_struct in H. apply obind_ok in H. destruct H as [[b e0] [_ H]]. injection H as <- _. discriminate.
  - rewrite rec_tuple in H. apply obind_ok in H. destruct H as [[b e0] [_ H]].
    destruct (all_vars b); injection H as <- _; discriminate.
  - rewrite rec_tacc in H. apply obind_ok in H. destruct H as [[b e0] [_ H]]. injection H as <- _. discriminate.
  - rewrite rec_tfilter in H. apply obind_ok in H. destruct H as [[b e0] [_ H]]. injection H as <- _. discriminate.
  - rewrite rec_var in H. injection H as <- _. discriminate.
  - destruct (binop_eq_and_or op) as [[-> | ->]|[HA HO]].
    + rewrite recreate_and_step in H. apply obind_ok in H. destruct H as [[l' e0] [_ H]].
      assert (G : obind (rec m sc e0 i2) (fun '(r', e1) => Ok (IBin And l' r', e1)) = Ok (i', e'') -> nolv i').
      { intros G. apply obind_ok in G. destruct G as [[r' e1] [_ G]]. injection G as <- _. discriminate. }
      destruct l'; try (apply G; exact H). destruct v; try (injection H as <- _; discriminate).
      destruct b; [eapply IH; exact H|injection H as <- _; discriminate].
    + rewrite recreate_or_step in H. apply obind_ok in H. destruct H as [[l' e0] [_ H]].
      assert (G : obind (rec m sc e0 i2) (fun '(r', e1) => Ok (IBin Or l' r', e1)) = Ok (i', e'') -> nolv i').
      { intros G. apply obind_ok in G. destruct G as [[r' e1] [_ G]]. injection G as <- _. discriminate. }
      destruct l'; try (apply G; exact H). destruct v; try (eapply IH; exact H).
      destruct b; [injection H as <- _; discriminate|eapply IH; exact H].
    + rewrite (recreate_bin_step powf m sc er op i1 i2 HA HO) in H.
      apply obind_ok in H. destruct H as [[l' e0] [_ H]]. apply obind_ok in H. destruct H as [[r' e1] [_ H]].
      apply obind_ok in H. destruct H as [x [Hx H]]. injection H as <- _.
      destruct (FoldLemmas.is_const l' && FoldLemmas.is_const r') eqn:C.
      * apply andb_true_iff in C. destruct C as [Cl Cr].
        destruct l'; try discriminate Cl. destruct r'; try discriminate Cr.
        destruct (foldable op) eqn:F.
        -- destruct (fold_bin_const_ok powf op v v0 x (or_introl F) Hx) as [w [-> _]]. discriminate.
        -- destruct op; try discriminate F;
             try (rewrite fold_bin_unfolded in Hx by (first [reflexivity|discriminate]);
                  injection Hx as <-; discriminate).
           destruct (fold_bin_const_ok powf At v v0 x (or_intror eq_refl) Hx) as [w [-> _]]. discriminate.
      * destruct (fold_bin_nonconst_cases powf op l' r' C) as [[E _]|[z [E _]]]; rewrite E in Hx;
          [injection Hx as <-; discriminate|discriminate Hx].
  - rewrite rec_un in H. apply obind_ok in H. destruct H as [[x' e0] [_ H]].
    apply obind_ok in H. destruct H as [r [Hr H]]. injection H as <- _.
    destruct op; try (injection Hr as <-; discriminate);
      destruct x'; try (injection Hr as <-; discriminate);
      unfold fold_un, lift_val in Hr; apply obind_ok in Hr; destruct Hr as [w [_ Hr]];
      injection Hr as <-; discriminate.
Qed.

(* ---------- statements: the pass leaves the environment alone ---------- *)
Definition SG (er : lenv) (i : instr) : Prop := forall m, rgood er (Inv i) (rec m sc er i).

Lemma SG_of_dk er i : dk powf sc er i -> SG er i.
Proof. intros D m. apply rec_good, D. Qed.

Lemma SG_break er : SG er IBreak.
Proof. intros [|m]; [exact I|]. rewrite rec_break. split; [reflexivity|apply Inv_nonvar; discriminate]. Qed.
Lemma SG_continue er : SG er IContinue.
Proof. intros [|m]; [exact I|]. rewrite rec_continue. split; [reflexivity|apply Inv_nonvar; discriminate]. Qed.
Lemma SG_void er : SG er (IVar VVoid).
Proof.
  intros [|m]; [exact I|]. rewrite rec_var. split; [reflexivity|]. intros v E. injection E as <-.
  split; [reflexivity|]. exists TVoid. split; reflexivity.
Qed.

Lemma Inv_if_l c t f t' : Inv t t' -> Inv (IIfElse c t f) t'.
Proof.
  intros H v E. destruct (H v E) as [Vv [T [ET HT]]]. split; [exact Vv|].
  destruct (rt_total f) as [Tf Ef]. exists (concat T Tf). rewrite rt_ifelse, ET, Ef.
  split; [reflexivity|apply has_type_union_l_all, HT].
Qed.
Lemma Inv_if_r c t f f' : Inv f f' -> Inv (IIfElse c t f) f'.
Proof.
  intros H v E. destruct (H v E) as [Vv [T [ET HT]]]. split; [exact Vv|].
  destruct (rt_total t) as [Tt Et]. exists (concat Tt T). rewrite rt_ifelse, Et, ET.
  split; [reflexivity|apply has_type_union_r_all, HT].
Qed.

Lemma SG_ifelse er c t f : SG er c -> SG er t -> SG er f -> SG er (IIfElse c t f).
Proof.
  intros Hc Ht Hf [|m]; [exact I|]. rewrite rec_ifelse.
  apply rgood_bind with (P := Inv c); [apply Hc|]. intros c' _.
  assert (Res : rgood er (Inv (IIfElse c t f))
    (obind (rec m sc er t) (fun '(t', e1) => obind (rec m sc e1 f) (fun '(f', e2) =>
       Ok (IIfElse c' t' f', e2))))).
  { apply rgood_bind with (P := Inv t); [apply Ht|]. intros t' _.
    apply rgood_bind with (P := Inv f); [apply Hf|]. intros f' _.
    split; [reflexivity|apply Inv_nonvar; discriminate]. }
  destruct c'; try exact Res. destruct v; try exact Res. destruct b.
  - eapply rgood_mono; [|apply Ht]. intros a. apply Inv_if_l.
  - eapply rgood_mono; [|apply Hf]. intros a. apply Inv_if_r.
Qed.

Lemma SG_loop er b : SG er b -> SG er (ILoop b).
Proof.
  intros Hb [|m]; [exact I|]. rewrite rec_loop.
  apply rgood_bind with (P := Inv b); [apply Hb|]. intros b' _.
  split; [reflexivity|apply Inv_nonvar; discriminate].
Qed.

Lemma SG_return er x : SG er x -> SG er (IUn UReturn x).
Proof.
  intros Hx [|m]; [exact I|]. rewrite rec_un.
  apply rgood_bind with (P := Inv x); [apply Hx|]. intros x' _.
  rewrite fold_un_other by (left; split; discriminate). cbn [obind].
  split; [reflexivity|apply Inv_nonvar; discriminate].
Qed.

Lemma SG_setifelse er nm t x ifm els :
  SG er x -> SG (lenv_insert nm (LOther t) (lenv_push er)) ifm -> SG er els ->
  SG er (ISetIfElse nm t x ifm els).
Proof.
  intros Hx Hi He [|m]; [exact I|]. rewrite rec_setifelse.
  apply rgood_bind with (P := Inv x); [apply Hx|]. intros x' _.
  apply rgood_bind_any with (er2 := lenv_insert nm (LOther t) (lenv_push er)) (P := Inv ifm); [apply Hi|].
  intros i' e0 _.
  apply rgood_bind with (P := Inv els); [apply He|]. intros e' _.
  split; [reflexivity|apply Inv_nonvar; discriminate].
Qed.

(* ---------- lines: the environment grows on both sides ---------- *)
Definition lstep (e : lenv) (i : instr) (e1 : lenv) : Prop :=
  forall er m, ER e er ->
    match rec m sc er i with Ok (_, er') => ER e1 er' | Panic => False | _ => True end.

Inductive LS : lenv -> list instr -> lenv -> Prop :=
| LS_nil e e' : (forall er, ER e er -> ER e' er) -> LS e [] e'
| LS_cons e i e1 is e2 : lstep e i e1 -> LS e1 is e2 -> LS e (i :: is) e2.

Lemma LS_run e is e2 : LS e is e2 -> forall m er, ER e er ->
  match rl_def (rec m sc) is er with Ok (_, er') => ER e2 er' | Panic => False | _ => True end.
Proof.
  induction 1 as [e e' H|e i e1 is e2 Hs _ IH]; intros m er HE.
  - cbn [rl_def]. apply H, HE.
  - change (rl_def (rec m sc) (i :: is) er) with
      (obind (rec m sc er i) (fun '(x', e0) =>
       obind (rl_def (rec m sc) is e0) (fun '(l', e0) => Ok (x' :: l', e0)))).
    pose proof (Hs er m HE) as G. destruct (rec m sc er i) as [[x' er1]| | |]; cbn [obind]; try exact G.
    pose proof (IH m er1 G) as G2. destruct (rl_def (rec m sc) is er1) as [[l' er2]| | |]; cbn [obind]; exact G2.
Qed.

Lemma LS_weaken_l e e1 is e2 : (forall er, ER e er -> ER e1 er) -> LS e1 is e2 -> LS e is e2.
Proof.
  intros H L. revert e H. induction L as [e1 e' H1|e1 i e1' is e2 Hs L IH]; intros e H.
  - constructor. intros er HE. apply H1, H, HE.
  - econstructor; [|exact L]. intros er m HE. apply Hs, H, HE.
Qed.

Lemma lstep_var e v e1 : lstep e (IVar v) e1 -> forall er, ER e er -> ER e1 er.
Proof. intros H er HE. exact (H er 1%nat HE). Qed.

Lemma LS_filter e is e2 :
  LS e is e2 -> LS e (filter (fun i => negb (Check.is_const i)) is) e2.
Proof.
  induction 1 as [e e' H|e i e1 is e2 Hs L IH]; [constructor; exact H|].
  cbn [filter]. destruct i; cbn [Check.is_const negb]; try (econstructor; eassumption).
  eapply LS_weaken_l; [apply (lstep_var _ _ _ Hs)|exact IH].
Qed.

Lemma LS_app e l1 e1 l2 e2 : LS e l1 e1 -> LS e1 l2 e2 -> LS e (l1 ++ l2) e2.
Proof.
  induction 1 as [e e' H|e i e1' is e1 Hs L IH]; intros L2; cbn [app].
  - eapply LS_weaken_l; eassumption.
  - econstructor; [exact Hs|apply IH, L2].
Qed.

Lemma LS_split e l1 l2 e2 : LS e (l1 ++ l2) e2 -> exists e1, LS e l1 e1 /\ LS e1 l2 e2.
Proof.
  revert e. induction l1 as [|i l1 IH]; intros e L; cbn [app] in L.
  - exists e. split; [constructor; auto|exact L].
  - inversion L as [|? ? e1' ? ? Hs L']; subst. destruct (IH _ L') as [e1 [A B]].
    exists e1. split; [econstructor; eassumption|exact B].
Qed.

Lemma LS_drop_consts e is e2 : LS e is e2 -> LS e (drop_consts is) e2.
Proof.
  intros L. destruct is as [|x is] using rev_ind; [exact L|]. clear IHis.
  rewrite drop_consts_snoc. destruct (LS_split _ _ _ _ L) as [e1 [A B]].
  eapply LS_app; [apply LS_filter, A|exact B].
Qed.

(* a block-like wrapper around a list the pass handles: no panic, same environment *)
Lemma rgood_of_LS e0 is e1 er er0 (i : instr) (k : list instr -> instr) m :
  LS e0 is e1 -> ER e0 er0 -> (forall b v, k b <> IVar v) ->
  rgood er (Inv i) (obind (rl_def (rec m sc) is er0) (fun '(b', _) => Ok (k b', er))).
Proof.
  intros L HE Hk. pose proof (LS_run _ _ _ L m er0 HE) as G.
  destruct (rl_def (rec m sc) is er0) as [[b' er1]| | |]; cbn [obind]; try exact I; [|contradiction].
  split; [reflexivity|apply Inv_nonvar, Hk].
Qed.

Lemma SG_block e0 is e1 er :
  LS e0 is e1 -> ER e0 (lenv_push er) -> SG er (IBlock is).
Proof.
  intros L HE [|m]; [exact I|]. rewrite rec_block.
  apply (rgood_of_LS e0 is e1 er (lenv_push er) _ IBlock m L HE). discriminate.
Qed.

End Sim.
(* ---------- reduce.rs::plant: the calls `$+` / `$*` are replaced by ---------- *)
Lemma plant_call_dk powf sc er f y :
  wf_fun_val f = true -> dk powf sc er y -> rt_ok y -> dk powf sc er (plant_call f y).
Proof.
  intros Hfv D Ry. destruct f; try discriminate Hfv. unfold plant_call.
  rewrite dk_bin. split; [exact Hfv|]. split; [rewrite dk_tuple; split; [split; [exact D|exact I]|]|].
  - apply rtl_of_forall. constructor; [exact Ry|constructor].
  - destruct (rt_ok_tuple [y]) as [tt [Ett Wtt]]; [constructor; [exact Ry|constructor]|].
    exists (TFun ps r), tt. split; [reflexivity|]. split; [exact Ett|]. split; [exact Hfv|].
    split; [exact Wtt|]. cbn [fold_guard]. discriminate.
Qed.

Lemma planted_arms_good powf sc er m adm :
  (forall kf, In kf adm -> wf_ty (fst kf) = true /\ wf_fun_val (snd kf) = true) ->
  rgood er (fun _ => True)
    (ra_def (recreate powf m sc)
       (map (fun kf : ty * value => ArmType n_plant (fst kf)
               (plant_call (snd kf) (ILocal n_plant (LOther (fst kf))))) adm) er).
Proof.
  induction adm as [|[k f] adm IH]; intros Hall; [split; [reflexivity|exact I]|].
  destruct (Hall (k, f) (or_introl eq_refl)) as [Wk Wf]. cbn [fst snd] in Wk, Wf.
  cbn [map fst snd].
  change (ra_def (recreate powf m sc) (?a :: ?l) er) with
    (obind (rarm_def (recreate powf m sc) er a) (fun '(a', e0) =>
     obind (ra_def (recreate powf m sc) l e0) (fun '(l', e0) => Ok (a' :: l', e0)))).
  apply rgood_bind with (P := fun _ => True).
  - cbn [rarm_def].
    apply rgood_bind_any with (er2 := lenv_insert n_plant (LOther k) (lenv_push er))
                              (P := Inv (plant_call f (ILocal n_plant (LOther k)))).
    + apply rec_good. apply plant_call_dk; [exact Wf| |apply rt_ok_local; exact Wk].
      split; [discriminate|]. exists (LOther k). split; [|apply lref_other].
      rewrite lenv_get_insert. rewrite ident_eqb_refl. reflexivity.
    + intros b' e0 _. split; [reflexivity|exact I].
  - intros a' _. apply rgood_bind with (P := fun _ => True).
    + apply IH. intros kf Hin. apply Hall. right. exact Hin.
    + intros l' _. split; [reflexivity|exact I].
Qed.

Lemma plant_reducer_dk powf sc er rs yi yt i :
  wf_reds rs = true -> dk powf sc er yi -> rt_ok yi ->
  plant_reducer rs yi yt = Ok i -> dk powf sc er i.
Proof.
  intros Wr D Ry H. unfold plant_reducer in H.
  assert (Hall : forall kf, In kf rs -> wf_ty (fst kf) = true /\ wf_fun_val (snd kf) = true).
  { intros kf Hin. destruct rs as [|kf0 rs]; [destruct Hin|]. unfold wf_reds in Wr.
    rewrite forallb_forall in Wr. apply andb_true_iff, Wr, Hin. }
  assert (Hsub : forall kf, In kf (filter (fun kf => matches (fst kf) yt) rs) -> In kf rs).
  { intros kf Hin. apply filter_In in Hin. apply Hin. }
  destruct (filter (fun kf => matches (fst kf) yt) rs) as [|[k f] [|kf2 l]] eqn:E.
  - destruct rs as [|[k f] rs]; [discriminate H|]. injection H as <-.
    apply plant_call_dk; [apply (Hall (k, f)); left; reflexivity|exact D|exact Ry].
  - injection H as <-.
    apply plant_call_dk; [apply (Hall (k, f)), Hsub; left; reflexivity|exact D|exact Ry].
  - injection H as <-. intros m. destruct m as [|m]; [exact I|]. rewrite rec_match.
    pose proof (rec_good powf sc er m yi D) as G.
    destruct (recreate powf m sc er yi) as [[x' e0]| | |]; cbn [obind rgood] in *; try exact G.
    destruct G as [-> _].
    pose proof (planted_arms_good powf sc er m ((k, f) :: kf2 :: l)
                  (fun kf Hin => Hall kf (Hsub kf Hin))) as Ga.
    destruct (ra_def (recreate powf m sc) _ er) as [[a' e1]| | |]; cbn [obind rgood] in *; try exact Ga.
    apply Ga.
Qed.

(* ================================================================= *)
(* 9. expressions: what the checker builds is [dk] for the pass        *)
(* ================================================================= *)
Section DkStep.
Variable red : reducers.
Hypothesis Wred : wf_red red.
Variable cxf : scopes -> lenv -> sx -> outcome instr.
Variable clf : scopes -> lenv -> list sline -> outcome (list instr * lenv).
Variable sc : scopes.
Hypothesis Wsc : wf_scopes sc.
Hypothesis Vsc : vok_scopes sc.
Variable powf : fbits -> fbits -> fbits.
Variable e : lenv.      (* the checker's environment *)
Variable er : lenv.     (* the pass's *)
Hypothesis We : wf_lenv e.
Hypothesis Ve : vokE e.
Hypothesis HER : ER e er.
Notation dk := (dk powf sc er).
Notation dkl := (dkl powf sc er).
Notation dko := (dko powf sc er).
Notation dkf := (dkf powf sc er).

Hypothesis Hrt : forall x i, wf_sx x = true -> cxf sc e x = Ok i -> rt_ok i.
Hypothesis IHd : forall x i, wf_sx x = true -> frag x = true -> cxf sc e x = Ok i -> dk i.
Hypothesis IHL : forall e0 l is e1, wf_lenv e0 -> vokE e0 ->
  forallb wf_sline l = true -> forallb lfrag l = true ->
  clf sc e0 l = Ok (is, e1) -> LS powf sc e0 is e1.

Lemma cxl_dk es is :
  forallb wf_sx es = true -> forallb frag es = true ->
  cxl_def (cxf sc e) es = Ok is -> dkl is /\ Forall rt_ok is.
Proof.
  intros W F H. apply cxl_inv in H. induction H as [|y i es is Ey _ IH]; [split; constructor|].
  cbn [forallb] in W, F. apply andb_true_iff in W. destruct W as [W1 W2].
  apply andb_true_iff in F. destruct F as [F1 F2]. destruct (IH W2 F2) as [D R].
  split; [split; [apply (IHd y i W1 F1 Ey)|exact D]|constructor; [apply (Hrt y i W1 Ey)|exact R]].
Qed.

Lemma cxo_dk o oi :
  match o with Some y => wf_sx y | None => true end = true ->
  match o with Some y => frag y | None => true end = true ->
  cxo_def (cxf sc e) o = Ok oi -> dko oi.
Proof.
  intros W F H. destruct o as [y|]; cbn [cxo_def] in H.
  - apply obind_ok in H. destruct H as [i [Ei H]]. injection H as <-. apply (IHd y i W F Ei).
  - injection H as <-. exact I.
Qed.

Lemma cxf_dk fs fs' :
  forallb (fun kv : name * option sx => match kv with
             | (_, Some y) => wf_sx y | (_, None) => true end) fs = true ->
  forallb (fun kv : name * option sx => match kv with
             | (_, Some y) => frag y | (_, None) => true end) fs = true ->
  cxf_def (cxf sc e) fs = Ok fs' -> dkf fs'.
Proof.
  revert fs'. induction fs as [|[k o] l IH]; intros fs' W F H.
  - injection H as <-. exact I.
  - cbn [forallb] in W, F. apply andb_true_iff in W. destruct W as [W1 W2].
    apply andb_true_iff in F. destruct F as [F1 F2]. destruct o as [y|].
    + change (cxf_def (cxf sc e) ((k, Some y) :: l)) with
        (obind (cxf sc e y) (fun i => obind (cxf_def (cxf sc e) l) (fun r => Ok ((k, i) :: r)))) in H.
      apply obind_ok in H. destruct H as [i [Ei H]]. apply obind_ok in H. destruct H as [r [Er H]].
      injection H as <-. split; [apply (IHd y i W1 F1 Ei)|apply (IH r W2 F2 Er)].
    + change (cxf_def (cxf sc e) ((k, None) :: l)) with
        (obind (cxf sc e (XIdent k)) (fun i => obind (cxf_def (cxf sc e) l) (fun r => Ok ((k, i) :: r)))) in H.
      apply obind_ok in H. destruct H as [i [Ei H]]. apply obind_ok in H. destruct H as [r [Er H]].
      injection H as <-. split; [apply (IHd (XIdent k) i eq_refl eq_refl Ei)|apply (IH r W2 F2 Er)].
Qed.

Ltac invb H a E := apply obind_ok in H; destruct H as [a [E H]].
Ltac rt_of H i T W :=
  let E' := fresh "E" in
  match goal with
  | Hr : cxf sc e ?x = Ok i |- _ =>
      let R := fresh "R" in
      assert (R : rt_ok i) by (apply (Hrt x i); assumption);
      destruct R as [T [E' W]]; rewrite E' in H; cbn [obind] in H
  end.

Lemma x_body_dk x i :
  wf_sx x = true -> frag x = true -> x_body red cxf clf sc e x = Ok i -> dk i.
Proof.
  intros Wx Fx H.
  destruct x as [nm|v|t y|es|es|v len|ps ret body|fs|body|op y|op l r|it init f|y ix|y a b c|f args
                 |y k|y f|y t|op y];
    cbv beta iota zeta delta [x_body] in H; cbn [wf_sx frag] in Wx, Fx; try discriminate Fx.
  7:{ (* XFunction *)
    andb_split Wx. pose proof (wf_ret _ Wx1) as Wr.
    invb H p Ep. destruct p as [is e1]. invb H miss Em. destruct miss; [discriminate H|].
    injection H as <-. intros m. destruct m as [|m]; [discriminate|]. rewrite rec_anonfn.
    set (r := match ret with Some t => t | None => TVoid end) in *.
    pose proof (IHL _ _ _ _ (wf_lenv_push_fn ps None r e We Wx Wr) (vokE_push_fn ps None r e Ve)
                  Wx0 Fx Ep) as L.
    apply LS_drop_consts in L.
    pose proof (LS_run powf sc _ _ _ L m _ (ER_push_fn ps None None r r e er HER)) as G.
    destruct (rl_def (recreate powf m sc) (drop_consts is) _) as [[b' e2]| | |]; cbn [obind];
      try discriminate. contradiction. }
  - (* XIdent *)
    destruct (lenv_get nm e) as [lv|] eqn:G.
    + destruct lv; injection H as <-.
      * split; [discriminate|apply HER, G].
      * apply (Ve nm v G).
      * split; [discriminate|apply HER, G].
    + destruct (scopes_get nm sc) as [v|] eqn:G'; [|discriminate H].
      injection H as <-. apply (scopes_get_vok nm sc v Vsc G').
  - (* XConst *) injection H as <-. exact Fx.
  - (* XMut *)
    andb_split Wx. destruct t as [t|]; invb H yi Ey; rt_of H yi yt Wy.
    + destruct (matches yt t); [|discriminate H]. injection H as <-. apply (IHd y yi); assumption.
    + injection H as <-. apply (IHd y yi); assumption.
  - (* XTuple *)
    invb H is Ei. injection H as <-. destruct (cxl_dk es is Wx Fx Ei) as [D R].
    rewrite dk_tuple. split; [exact D|apply rtl_of_forall, R].
  - (* XArray *)
    invb H is Ei. destruct (cxl_dk es is Wx Fx Ei) as [D R].
    invb H ts Et. injection H as <-. rewrite dk_array. split; [exact D|]. exists ts. split; [exact Et|reflexivity].
  - (* XArrayRepeat *)
    andb_split Wx. andb_split Fx. invb H vi Ev. invb H li El. rt_of H li lty Wl.
    destruct (matches lty TInt); [|discriminate H]. injection H as <-.
    rewrite dk_repeat. split; [apply (IHd v vi); assumption|]. split; [apply (IHd len li); assumption|].
    destruct (Hrt v vi Wx Ev) as [T [ET _]]. eauto.
  - (* XStruct *)
    invb H fs' Ef. injection H as <-. rewrite dk_struct. apply (cxf_dk fs fs' Wx Fx Ef).
  - (* XPrefix *)
    invb H yi Ey. pose proof (IHd y yi Wx Fx Ey) as D. rt_of H yi yt Wy.
    destruct op.
    + destruct (matches yt ACC_NOT) eqn:M; [|discriminate H]. injection H as <-.
      rewrite dk_un. split; [exact D|]. exists yt. split; [assumption|exact M].
    + destruct (matches yt ACC_NEG) eqn:M; [|discriminate H]. injection H as <-.
      rewrite dk_un. split; [exact D|]. exists yt. split; [assumption|exact M].
    + destruct (is_mut yt); [|discriminate H]. injection H as <-.
      rewrite dk_un. split; [exact D|]. exists yt. split; [assumption|exact I].
  - (* XInfix *)
    andb_split Wx. andb_split Fx. invb H li El. invb H ri Er.
    pose proof (IHd l li Wx Fx1 El) as Dl. pose proof (IHd r ri Wx0 Fx0 Er) as Dr.
    rt_of H li lty Wl. rt_of H ri rty Wr. invb H ok Eok. destruct ok; [|discriminate H].
    injection H as <-. rewrite dk_bin. split; [exact Dl|]. split; [exact Dr|].
    exists lty, rty. repeat split; try assumption.
    apply fold_guard_infix; [exact Fx|exact Eok|apply bin_rt_total].
  - (* XReduce *)
    andb_split Wx. andb_split Fx. invb H iti Eit. invb H fi Ef. invb H ini Ein.
    pose proof (IHd it iti Wx Fx Eit) as D1. pose proof (IHd f fi Wx0 Fx0 Ef) as D2.
    pose proof (IHd init ini Wx1 Fx1 Ein) as D3.
    rt_of H iti itt Wit. destruct (iter_element itt); [|discriminate H].
    rt_of H fi ft Wf. destruct (fn_return_type ft); [|discriminate H].
    rt_of H ini int_ Win. destruct (matches ft _); [|discriminate H]. injection H as <-.
    rewrite dk_reduce. repeat split; assumption.
  - (* XAt *)
    andb_split Wx. andb_split Fx. invb H yi Ey. invb H ii Ei.
    pose proof (IHd y yi Wx Fx Ey) as D1. pose proof (IHd ix ii Wx0 Fx0 Ei) as D2.
    rt_of H yi yt Wy. rt_of H ii ity Wi.
    destruct (ty_eqb ity TInt) eqn:TI; [|discriminate H]. cbn [negb] in H.
    destruct (ty_eqb yt TNever || negb (can_be_indexed yt)) eqn:G; [discriminate H|].
    injection H as <-. rewrite dk_bin. split; [exact D1|]. split; [exact D2|].
    exists yt, ity. repeat split; try assumption.
    + apply orb_false_iff in G. destruct G as [_ G]. destruct (can_be_indexed yt); [reflexivity|discriminate G].
    + apply ty_eqb_int, TI.
    + apply index_guard_repaired; assumption.
  - (* XSlice *)
    andb_split Wx. andb_split Fx. invb H yi Ey. pose proof (IHd y yi Wx Fx Ey) as D.
    rt_of H yi yt Wy. destruct (negb (can_be_indexed yt)); [discriminate H|].
    invb H ai Ea. invb H bi Eb. invb H ci Ec.
    pose proof (cxo_dk a ai Wx2 Fx2 Ea) as Da. pose proof (cxo_dk b bi Wx1 Fx1 Eb) as Db.
    pose proof (cxo_dk c ci Wx0 Fx0 Ec) as Dc.
    assert (G : obind (chk_int ai) (fun oa => obind (chk_int bi) (fun ob => obind (chk_int ci) (fun oc =>
         if oa && ob && oc then Ok (ISlicing yi ai bi ci) else reject))) = Ok i -> dk i).
    { intros G. invb G oa Eoa. invb G ob Eob. invb G oc Eoc.
      destruct (oa && ob && oc); [|discriminate G]. injection G as <-.
      rewrite dk_slicing. repeat split; assumption. }
    destruct ai, bi, ci; try (apply G; exact H). injection H as <-. exact D.
  - (* XCall *)
    andb_split Wx. andb_split Fx. invb H fi Ef. invb H ais Ea.
    pose proof (IHd f fi Wx Fx Ef) as D. destruct (cxl_dk args ais Wx0 Fx0 Ea) as [Da Ra].
    invb H ats Et.
    assert (B : dk (IBin FunctionCall fi (ITuple ais))).
    { rewrite dk_bin. split; [exact D|]. split; [rewrite dk_tuple; split; [exact Da|eauto]|].
      destruct (Hrt f fi Wx Ef) as [ft [Eft Wft]].
      destruct (rt_ok_tuple ais Ra) as [tt [Ett Wtt]].
      exists ft, tt. repeat split; try assumption. cbn [fold_guard]. discriminate. }
    assert (Gen : forall o : outcome instr,
      (o = Ok (IBin FunctionCall fi (ITuple ais)) \/ o = reject) -> o = Ok i -> dk i).
    { intros o [-> | ->] Ho; [injection Ho as <-; exact B|discriminate Ho]. }
    assert (Gif : forall c : bool, (if c then Ok (IBin FunctionCall fi (ITuple ais)) else reject) = Ok i -> dk i).
    { intros c. apply Gen. destruct c; auto. }
    assert (Ggen : obind (rt fi) (fun ft =>
         if negb (is_function ft) then reject else
         match Ty.params ft with
         | None => reject
         | Some ps => if args_ok ps ats then Ok (IBin FunctionCall fi (ITuple ais)) else reject
         end) = Ok i -> dk i).
    { intros G. invb G ft Eft. destruct (negb (is_function ft)); [discriminate G|].
      destruct (Ty.params ft); [|discriminate G]. apply (Gif _ G). }
    destruct fi as [ps0 b0 r0| | | | | | | | | |nm0 lv0| | | | | | | | | | | |v0| |]; try (apply Ggen; exact H).
    + destruct lv0; apply Ggen; exact H.
    + destruct v0; apply Ggen; exact H.
  - (* XTupleAccess *)
    invb H yi Ey. pose proof (IHd y yi Wx Fx Ey) as D. rt_of H yi yt Wy.
    destruct (negb (is_tuple yt)); [discriminate H|].
    destruct (min_tuple_len yt); [|discriminate H].
    destruct (Nat.leb n k); [discriminate H|]. injection H as <-. exact D.
  - (* XFieldAccess *)
    invb H yi Ey. pose proof (IHd y yi Wx Fx Ey) as D. rt_of H yi yt Wy.
    destruct (negb (is_struct yt)); [discriminate H|].
    destruct (negb (has_field f yt)); [discriminate H|]. injection H as <-. exact D.
  - (* XTypeFilter *)
    andb_split Wx. invb H yi Ey. pose proof (IHd y yi Wx0 Fx Ey) as D. rt_of H yi yt Wy.
    destruct (is_iterator yt && _); [|discriminate H]. injection H as <-. exact D.
  - (* XPostfix *)
    andb_split Wx. invb H yi Ey. pose proof (IHd y yi Wx0 Fx Ey) as D.
    pose proof (Hrt y yi Wx0 Ey) as Ryi. rt_of H yi yt Wy.
    assert (Plant : forall fv, wf_fun_val fv = true ->
              dk (IBin FunctionCall (IVar fv) (ITuple [yi]))).
    { intros fv Hfv. destruct fv; try discriminate Hfv.
      rewrite dk_bin. split; [exact Hfv|]. split; [rewrite dk_tuple; split; [split; [exact D|exact I]|]|].
      - apply rtl_of_forall. constructor; [exact Ryi|constructor].
      - destruct (rt_ok_tuple [yi]) as [tt [Ett Wtt]]; [constructor; [exact Ryi|constructor]|].
        exists (TFun ps r), tt. split; [reflexivity|]. split; [exact Ett|]. split; [exact Hfv|].
        split; [exact Wtt|]. cbn [fold_guard]. discriminate. }
    pose proof Wred as Wr0. unfold wf_red in Wr0. andb_split Wr0.
    destruct op; try discriminate Wx;
      match type of H with (if ?c then _ else _) = _ => destruct c; [|discriminate H] end.
    1-4: injection H as <-; apply Plant; assumption.
    1-2: eapply plant_reducer_dk; [|exact D|exact Ryi|exact H]; assumption.
    all: injection H as <-; rewrite dk_un; split; [exact D|]; exists yt; split; [assumption|exact I].
Qed.
End DkStep.

(* ================================================================= *)
(* 10. statements and lines of the checker against the pass            *)
(* ================================================================= *)
Definition cvok (i : instr) : Prop := (forall v, i = IVar v -> vok v = true) /\ nolv i.

Lemma dk_cvok powf sc er i : dk powf sc er i -> cvok i.
Proof.
  intros D. split.
  - intros v ->. exact D.
  - intros n v ->. destruct D as [Nv _]. exact (Nv v eq_refl).
Qed.

Lemma cvok_nonleaf i : (forall v, i <> IVar v) -> (forall n lv, i <> ILocal n lv) -> cvok i.
Proof. intros H1 H2. split; [intros v E; exfalso; exact (H1 v E)|intros n v E; exact (H2 n _ E)]. Qed.

Section SimStep.
Variable red : reducers.
Hypothesis Wred : wf_red red.
Variable powf : fbits -> fbits -> fbits.
Variable sc : scopes.
Hypothesis Wsc : wf_scopes sc.
Hypothesis Vsc : vok_scopes sc.
Variable cxf : scopes -> lenv -> sx -> outcome instr.
Variable csf : scopes -> lenv -> sstm -> C.
Variable clf : scopes -> lenv -> list sline -> outcome (list instr * lenv).
Notation SG := (SG powf sc).
Notation LS := (LS powf sc).
Notation rec := (recreate powf).

(* what a statement of the checker gives: same bindings afterwards, and the pass is fine
   with the instruction in every related environment, which it leaves alone *)
Definition Sres (e : lenv) (p : instr * lenv) : Prop :=
  leq (snd p) e /\ wf_lenv (snd p) /\ cvok (fst p) /\ rt_ok (fst p) /\
  forall er, ER e er -> SG er (fst p).

Hypothesis HX : forall e x i, wf_lenv e -> vokE e -> wf_sx x = true -> frag x = true ->
  cxf sc e x = Ok i -> rt_ok i /\ forall er, ER e er -> dk powf sc er i.
Hypothesis HS : forall e s p, wf_lenv e -> vokE e -> wf_sstm s = true -> sfrag s = true ->
  csf sc e s = Ok p -> Sres e p.
Hypothesis HL : forall e l is e1, wf_lenv e -> vokE e ->
  forallb wf_sline l = true -> forallb lfrag l = true ->
  clf sc e l = Ok (is, e1) -> LS e is e1 /\ Forall rt_ok is.

Lemma Sres_intro e i e1 :
  leq e1 e -> wf_lenv e1 -> cvok i -> rt_ok i -> (forall er, ER e er -> SG er i) -> Sres e (i, e1).
Proof. intros H1 H2 H3 H4 H5. split; [exact H1|]. split; [exact H2|]. split; [exact H3|]. split; assumption. Qed.

Ltac nonleaf := apply cvok_nonleaf; discriminate.

Lemma x_res e x i :
  wf_lenv e -> vokE e -> wf_sx x = true -> frag x = true -> cxf sc e x = Ok i ->
  cvok i /\ rt_ok i /\ forall er, ER e er -> SG er i.
Proof.
  intros We Ve Wx Fx H. destruct (HX e x i We Ve Wx Fx H) as [R D]. split; [|split; [exact R|]].
  - apply (dk_cvok powf sc e), D, ER_self, Ve.
  - intros er HE. apply SG_of_dk, D, HE.
Qed.

Lemma else_res e f p :
  wf_lenv e -> vokE e -> match f with Some f => wf_sstm f | None => true end = true ->
  match f with Some f => sfrag f | None => true end = true ->
  else_def (csf sc) e f = Ok p -> Sres e p.
Proof.
  intros We Ve W F H. destruct f as [f|]; cbn [else_def] in H; [apply (HS e f p); assumption|].
  injection H as <-. apply Sres_intro; [apply leq_refl|exact We| |exact rt_ok_void|intros er _; apply SG_void].
  split; [intros v E; injection E as <-; reflexivity|discriminate].
Qed.

Lemma cxl_res e vs vis :
  wf_lenv e -> vokE e -> forallb wf_sx vs = true -> forallb frag vs = true ->
  cxl_def (cxf sc e) vs = Ok vis -> forall er, ER e er -> dkl powf sc er vis.
Proof.
  intros We Ve W F H er HE. apply cxl_inv in H.
  induction H as [|y i vs vis Ey _ IH]; [exact I|].
  cbn [forallb] in W, F. apply andb_true_iff in W. destruct W as [W1 W2].
  apply andb_true_iff in F. destruct F as [F1 F2].
  split; [apply (HX e y i We Ve W1 F1 Ey), HE|apply IH; assumption].
Qed.

Lemma rl_dkl_good er vis m :
  dkl powf sc er vis -> rgood er (fun _ => True) (rl_def (rec m sc) vis er).
Proof.
  intros D. eapply rgood_mono; [|apply (rl_good powf sc er m (rec_good powf sc er m) vis D)]. auto.
Qed.

(* match arms *)
Definition Ares (e : lenv) (p : arm * lenv) : Prop :=
  leq (snd p) e /\ wf_lenv (snd p) /\ rt_ok (arm_instr (fst p)) /\
  forall er, ER e er -> forall m, rgood er (fun _ => True) (rarm_def (rec m sc) er (fst p)).
Definition ASres (e : lenv) (p : list arm * lenv) : Prop :=
  leq (snd p) e /\ wf_lenv (snd p) /\ Forall (fun a => rt_ok (arm_instr a)) (fst p) /\
  forall er, ER e er -> forall m, rgood er (fun _ => True) (ra_def (rec m sc) (fst p) er).

Lemma arm_res e a p :
  wf_lenv e -> vokE e -> wf_sarm a = true -> afrag a = true ->
  arm_def (cxf sc) (csf sc) e a = Ok p -> Ares e p.
Proof.
  intros We Ve W F H. destruct a as [nm t b|vs b|b]; cbn [arm_def wf_sarm afrag] in *.
  - andb_split W.
    assert (We1 : wf_lenv (lenv_insert nm (LOther t) (lenv_push e)))
      by (apply wf_lenv_insert; [apply wf_lenv_push; exact We|exact W]).
    assert (Ve1 : vokE (lenv_insert nm (LOther t) (lenv_push e)))
      by (apply vokE_insert; [apply (vokE_leq _ e (leq_push e) Ve)|reflexivity]).
    apply obind_ok in H. destruct H as [[bi e1] [Eb H]]. injection H as <-.
    destruct (HS _ b _ We1 Ve1 W0 F Eb) as [_ [_ [_ [Rb Gb]]]]. cbn [fst snd] in *.
    split; [apply leq_refl|]. split; [exact We|]. split; [exact Rb|].
    intros er HE m. cbn [rarm_def].
    apply rgood_bind_any with (er2 := lenv_insert nm (LOther t) (lenv_push er)) (P := Inv bi).
    + apply Gb. apply ER_insert; [apply ER_push, HE|apply lref_other].
    + intros b' e0 _. split; [reflexivity|exact I].
  - andb_split W. andb_split F.
    apply obind_ok in H. destruct H as [vis [Ev H]].
    apply obind_ok in H. destruct H as [[bi e1] [Eb H]]. injection H as <-.
    destruct (HS _ b _ We Ve W0 F0 Eb) as [L1 [W1 [_ [Rb Gb]]]]. cbn [fst snd] in *.
    split; [exact L1|]. split; [exact W1|]. split; [exact Rb|].
    intros er HE m. cbn [rarm_def].
    apply rgood_bind with (P := fun _ => True);
      [apply rl_dkl_good, (cxl_res e vs vis We Ve W F Ev er HE)|]. intros vs' _.
    apply rgood_bind with (P := Inv bi); [apply Gb, HE|]. intros b' _. split; [reflexivity|exact I].
  - apply obind_ok in H. destruct H as [[bi e1] [Eb H]]. injection H as <-.
    destruct (HS _ b _ We Ve W F Eb) as [L1 [W1 [_ [Rb Gb]]]]. cbn [fst snd] in *.
    split; [exact L1|]. split; [exact W1|]. split; [exact Rb|].
    intros er HE m. cbn [rarm_def].
    apply rgood_bind with (P := Inv bi); [apply Gb, HE|]. intros b' _. split; [reflexivity|exact I].
Qed.

Lemma arms_res arms : forall e p,
  wf_lenv e -> vokE e -> forallb wf_sarm arms = true -> forallb afrag arms = true ->
  arms_def (cxf sc) (csf sc) arms e = Ok p -> ASres e p.
Proof.
  induction arms as [|a l IH]; intros e p We Ve W F H.
  - injection H as <-. split; [apply leq_refl|]. split; [exact We|]. split; [constructor|].
    intros er _ m. cbn [ra_def]. split; [reflexivity|exact I].
  - cbn [forallb] in W, F. andb_split W. andb_split F.
    change (arms_def (cxf sc) (csf sc) (a :: l) e) with
      (obind (arm_def (cxf sc) (csf sc) e a) (fun '(a', e) =>
       obind (arms_def (cxf sc) (csf sc) l e) (fun '(l', e) => Ok (a' :: l', e)))) in H.
    apply obind_ok in H. destruct H as [[a' e1] [Ea H]].
    apply obind_ok in H. destruct H as [[l' e2] [El H]]. injection H as <-.
    destruct (arm_res e a _ We Ve W F Ea) as [L1 [W1 [Ra Ga]]]. cbn [fst snd] in *.
    destruct (IH e1 _ W1 (vokE_leq _ _ L1 Ve) W0 F0 El) as [L2 [W2 [Rl Gl]]]. cbn [fst snd] in *.
    split; [eapply leq_trans; eassumption|]. split; [exact W2|]. split; [constructor; assumption|].
    intros er HE m.
    change (ra_def (rec m sc) (a' :: l') er) with
      (obind (rarm_def (rec m sc) er a') (fun '(a'', e0) =>
       obind (ra_def (rec m sc) l' e0) (fun '(l'', e0) => Ok (a'' :: l'', e0)))).
    apply rgood_bind with (P := fun _ => True); [apply Ga, HE|]. intros a'' _.
    apply rgood_bind with (P := fun _ => True); [apply Gl, (ER_leq_l _ _ _ L1 HE)|]. intros l'' _.
    split; [reflexivity|exact I].
Qed.

Ltac invb H a E := apply obind_ok in H; destruct H as [a [E H]].
Ltac sres := split; [|split; [|split; [split; [|intros ? ? ?; discriminate]|split]]]; cbn [fst snd].

Lemma s_body_res e s p :
  wf_lenv e -> vokE e -> wf_sstm s = true -> sfrag s = true ->
  s_body cxf csf clf sc e s = Ok p -> Sres e p.
Proof.
  intros We Ve Ws Fs H.
  destruct s as [x|body|c t f|nm t x ifm els|x arms|r|b|c b|nm t x b|nm x b| |];
    cbv beta iota zeta delta [s_body] in H; cbn [wf_sstm sfrag] in Ws, Fs; try discriminate Fs.
  - (* SExpr *)
    invb H i Ei. injection H as <-. destruct (x_res e x i We Ve Ws Fs Ei) as [Cv [R G]].
    apply Sres_intro; [apply leq_refl|exact We|exact Cv|exact R|exact G].
  - (* SBlock *)
    invb H q Eqq. destruct q as [is e1]. injection H as <-.
    destruct (HL _ _ _ _ (wf_lenv_push e We) (vokE_leq _ e (leq_push e) Ve) Ws Fs Eqq) as [L R].
    apply Sres_intro; [apply leq_refl|exact We|nonleaf| |].
    + apply rt_ok_block, Forall_drop_consts, R.
    + intros er HE. apply (SG_block powf sc (lenv_push e) _ e1 er (LS_drop_consts powf sc _ _ _ L)).
      apply ER_push, HE.
  - (* SIfElse *)
    andb_split Ws. andb_split Fs. invb H ci Ec. invb H ct Ect.
    destruct (negb (ty_eqb ct TBool)); [discriminate H|].
    invb H q Et. destruct q as [ti e1]. invb H q Ef. destruct q as [fi e2]. injection H as <-.
    destruct (x_res e c ci We Ve Ws Fs Ec) as [_ [_ Gc]].
    destruct (HS e t _ We Ve Ws1 Fs1 Et) as [L1 [W1 [_ [Rt Gt]]]]. cbn [fst snd] in *.
    destruct (else_res e1 f _ W1 (vokE_leq _ _ L1 Ve) Ws0 Fs0 Ef) as [L2 [W2 [_ [Rf Gf]]]].
    cbn [fst snd] in *.
    apply Sres_intro; [eapply leq_trans; eassumption|exact W2|nonleaf|apply rt_ok_ifelse; assumption|].
    intros er HE. apply SG_ifelse; [apply Gc, HE|apply Gt, HE|apply Gf, (ER_leq_l _ _ _ L1 HE)].
  - (* SSetIfElse *)
    andb_split Ws. andb_split Fs. invb H xi Ex. invb H q Em. destruct q as [mi e1].
    invb H q Ee. destruct q as [ei e2]. injection H as <-.
    assert (We1 : wf_lenv (lenv_insert nm (LOther t) (lenv_push e)))
      by (apply wf_lenv_insert; [apply wf_lenv_push; exact We|exact Ws]).
    assert (Ve1 : vokE (lenv_insert nm (LOther t) (lenv_push e)))
      by (apply vokE_insert; [apply (vokE_leq _ e (leq_push e) Ve)|reflexivity]).
    destruct (x_res e x xi We Ve Ws2 Fs Ex) as [_ [_ Gx]].
    destruct (HS _ ifm _ We1 Ve1 Ws1 Fs1 Em) as [_ [_ [_ [Rm Gm]]]]. cbn [fst snd] in *.
    destruct (else_res e els _ We Ve Ws0 Fs0 Ee) as [L2 [W2 [_ [Re Ge]]]]. cbn [fst snd] in *.
    apply Sres_intro; [exact L2|exact W2|nonleaf|apply rt_ok_setifelse; assumption|].
    intros er HE. apply SG_setifelse; [apply Gx, HE| |apply Ge, HE].
    apply Gm. apply ER_insert; [apply ER_push, HE|apply lref_other].
  - (* SMatch *)
    andb_split Ws. andb_split Fs. invb H xi Ex. invb H xt Ext. invb H q Ea. destruct q as [arms' e1].
    destruct (match_covers arms' xt) eqn:Mc; [|discriminate H]. injection H as <-.
    destruct (x_res e x xi We Ve Ws Fs Ex) as [_ [Rx Gx]].
    destruct (arms_res arms e _ We Ve Ws0 Fs0 Ea) as [L1 [W1 [Ra Ga]]]. cbn [fst snd] in *.
    apply Sres_intro; [exact L1|exact W1|nonleaf| |].
    + apply rt_ok_match; [|exact Ra]. intros ->.
      destruct Rx as [T [ET WT]]. rewrite ET in Ext. injection Ext as <-.
      rewrite match_covers_nil in Mc by exact WT. discriminate Mc.
    + intros er HE [|m]; [exact I|]. rewrite rec_match.
      apply rgood_bind with (P := Inv xi); [apply Gx, HE|]. intros x' _.
      apply rgood_bind with (P := fun _ => True); [apply Ga, HE|]. intros a' _.
      split; [reflexivity|apply Inv_nonvar; discriminate].
  - (* SRet *)
    destruct (lenv_function e) as [[fnm fret]|]; [|discriminate H].
    invb H q Er. destruct q as [ri e1]. invb H t Et.
    destruct (matches t fret); [|discriminate H]. injection H as <-.
    destruct (else_res e r _ We Ve Ws Fs Er) as [L1 [W1 [_ [Rr Gr]]]]. cbn [fst snd] in *.
    apply Sres_intro; [exact L1|exact W1|nonleaf|apply rt_ok_return, Rr|].
    intros er HE. apply SG_return, Gr, HE.
  - (* SLoop *)
    invb H q Eb. destruct q as [bi e1]. injection H as <-.
    assert (We1 : wf_lenv (lenv_set_loop true e)) by (apply wf_lenv_set_loop, We).
    destruct (HS _ b _ We1 (vokE_leq _ e (leq_set_loop true e) Ve) Ws Fs Eb) as [L1 [W1 [_ [Rb Gb]]]].
    cbn [fst snd] in *.
    apply Sres_intro; [| |nonleaf| |].
    + eapply leq_trans; [apply leq_set_loop|]. eapply leq_trans; [exact L1|apply leq_set_loop].
    + apply wf_lenv_set_loop, W1.
    + apply rt_ok_loop.
    + intros er HE. apply SG_loop, Gb. apply (ER_leq_l _ e); [apply leq_set_loop|exact HE].
  - (* SWhile *)
    andb_split Ws. andb_split Fs. invb H ci Ec. invb H ct Ect.
    destruct (negb (ty_eqb ct TBool)); [discriminate H|].
    invb H q Eb. destruct q as [bi e1].
    assert (We1 : wf_lenv (lenv_set_loop true e)) by (apply wf_lenv_set_loop, We).
    destruct (x_res e c ci We Ve Ws Fs Ec) as [_ [_ Gc]].
    destruct (HS _ b _ We1 (vokE_leq _ e (leq_set_loop true e) Ve) Ws0 Fs0 Eb) as [L1 [W1 [_ [Rb Gb]]]].
    cbn [fst snd] in *.
    assert (L2 : leq (lenv_set_loop (lenv_in_loop e) e1) e).
    { eapply leq_trans; [apply leq_set_loop|]. eapply leq_trans; [exact L1|apply leq_set_loop]. }
    pose proof (wf_lenv_set_loop (lenv_in_loop e) e1 W1) as W2.
    assert (Gb' : forall er, ER e er -> SG er bi).
    { intros er HE. apply Gb. apply (ER_leq_l _ e); [apply leq_set_loop|exact HE]. }
    assert (Gen : Sres e (ILoop (IIfElse ci bi IBreak), lenv_set_loop (lenv_in_loop e) e1)).
    { apply Sres_intro; [exact L2|exact W2|nonleaf|apply rt_ok_loop|].
      intros er HE. apply SG_loop, SG_ifelse; [apply Gc, HE|apply Gb', HE|apply SG_break]. }
    destruct ci; try (injection H as <-; exact Gen).
    destruct (val_eqb v (VBool true)); injection H as <-.
    + apply Sres_intro; [exact L2|exact W2|nonleaf|apply rt_ok_loop|].
      intros er HE. apply SG_loop, Gb', HE.
    + apply Sres_intro; [exact L2|exact W2| |exact rt_ok_void|intros er _; apply SG_void].
      split; [intros w E; injection E as <-; reflexivity|discriminate].
  - (* SWhileSet *)
    andb_split Ws. andb_split Fs. invb H xi Ex. invb H q Eb. destruct q as [bi e1]. injection H as <-.
    assert (We1 : wf_lenv (lenv_set_loop true e)) by (apply wf_lenv_set_loop, We).
    pose proof (vokE_leq _ e (leq_set_loop true e) Ve) as Ve1.
    assert (We2 : wf_lenv (lenv_insert nm (LOther t) (lenv_push (lenv_set_loop true e))))
      by (apply wf_lenv_insert; [apply wf_lenv_push; exact We1|exact Ws]).
    assert (Ve2 : vokE (lenv_insert nm (LOther t) (lenv_push (lenv_set_loop true e))))
      by (apply vokE_insert; [apply (vokE_leq _ _ (leq_push _) Ve1)|reflexivity]).
    destruct (x_res _ x xi We1 Ve1 Ws1 Fs Ex) as [_ [_ Gx]].
    destruct (HS _ b _ We2 Ve2 Ws0 Fs0 Eb) as [_ [_ [_ [Rb Gb]]]]. cbn [fst snd] in *.
    apply Sres_intro; [| |nonleaf| |].
    + eapply leq_trans; apply leq_set_loop.
    + apply wf_lenv_set_loop, We1.
    + apply rt_ok_loop.
    + intros er HE.
      assert (HE1 : ER (lenv_set_loop true e) er) by (apply (ER_leq_l _ e); [apply leq_set_loop|exact HE]).
      apply SG_loop, SG_setifelse; [apply Gx, HE1| |apply SG_break].
      apply Gb. apply ER_insert; [apply ER_push, HE1|apply lref_other].
  - (* SBrk *)
    destruct (lenv_in_loop e); [|discriminate H]. injection H as <-.
    apply Sres_intro; [apply leq_refl|exact We|nonleaf| |].
    + exists TNever. split; reflexivity.
    + intros er _. apply SG_break.
  - (* SCont *)
    destruct (lenv_in_loop e); [|discriminate H]. injection H as <-.
    apply Sres_intro; [apply leq_refl|exact We|nonleaf| |].
    + exists TNever. split; reflexivity.
    + intros er _. apply SG_continue.
Qed.

(* ---------- lines ---------- *)
Lemma lvar_of_instr_var i lv v :
  nolv i -> lvar_of_instr i = Ok lv -> lv = LVariable v -> i = IVar v.
Proof.
  intros Nl H ->. destruct i; cbn [lvar_of_instr] in H;
    try (apply obind_ok in H; destruct H as [? [_ H]]; discriminate H); try discriminate H.
  - injection H as ->. exfalso. exact (Nl n v eq_refl).
  - injection H as ->. reflexivity.
Qed.

Lemma lstep_of_SG e i e1 : leq e1 e -> (forall er, ER e er -> SG er i) -> lstep powf sc e i e1.
Proof.
  intros L G er m HE. pose proof (G er HE m) as R.
  destruct (rec m sc er i) as [[i' er']| | |]; cbn [rgood] in R; try exact R.
  destruct R as [-> _]. apply (ER_leq_l _ e); assumption.
Qed.

Lemma line_res e ln p :
  wf_lenv e -> vokE e -> wf_sline ln = true -> lfrag ln = true ->
  line_body csf clf sc e ln = Ok p ->
  lstep powf sc e (fst p) (snd p) /\ wf_lenv (snd p) /\ vokE (snd p) /\ rt_ok (fst p).
Proof.
  intros We Ve W F H.
  destruct ln as [nm ps ret body|nm s|ids s|s]; cbv beta iota zeta delta [line_body] in H;
    cbn [wf_sline lfrag] in W, F; try discriminate F.
  - (* LFnDecl *)
    andb_split W. pose proof (wf_ret _ W1) as Wr.
    set (r := match ret with Some t => t | None => TVoid end) in *.
    assert (We0 : wf_lenv (lenv_insert nm (LFunction ps r) e))
      by (apply wf_lenv_insert; [exact We|apply wf_fun_ty; assumption]).
    assert (Ve0 : vokE (lenv_insert nm (LFunction ps r) e)) by (apply vokE_insert; [exact Ve|reflexivity]).
    invb H q Eqq. destruct q as [is e1]. invb H miss Em. destruct miss; [discriminate H|].
    injection H as <-. cbn [fst snd].
    destruct (HL _ _ _ _ (wf_lenv_push_fn ps (Some nm) r _ We0 W Wr)
                (vokE_push_fn ps (Some nm) r _ Ve0) W0 F Eqq) as [L R].
    split; [|split; [exact We0|split; [exact Ve0|]]].
    + intros er [|m] HE; [exact I|]. rewrite rec_fndecl.
      assert (HE0 : ER (lenv_insert nm (LFunction ps r) e) (lenv_insert nm (LFunction ps r) er))
        by (apply ER_insert; [exact HE|apply lref_fun]).
      pose proof (LS_run powf sc _ _ _ (LS_drop_consts powf sc _ _ _ L) m _
                    (ER_push_fn ps (Some nm) (Some nm) r r _ _ HE0)) as G.
      destruct (rl_def (rec m sc) (drop_consts is) _) as [[b' e2]| | |]; cbn [obind]; try exact I;
        [exact HE0|contradiction].
    + eexists. split; [reflexivity|]. apply wf_fun_ty; assumption.
  - (* LSet *)
    invb H q Es. destruct q as [i e1]. invb H lv El. injection H as <-. cbn [fst snd].
    destruct (HS e s _ We Ve W F Es) as [L1 [W1 [[Cv Nl] [Ri Gi]]]]. cbn [fst snd] in *.
    destruct (lvar_of_instr_ok i Ri) as [lv0 [El0 Wlv]]. rewrite El in El0. injection El0 as <-.
    split; [|split; [|split; [|apply rt_ok_set, Ri]]].
    + intros er [|m] HE; [exact I|]. rewrite rec_set.
      pose proof (Gi er HE m) as G.
      destruct (rec m sc er i) as [[x' er']| | |] eqn:Ex; cbn [rgood obind] in *; try exact G.
      destruct G as [-> Ix]. destruct (lvar_of_instr_total x') as [lv' El']. rewrite El'. cbn [obind].
      apply ER_insert; [apply (ER_leq_l _ e); assumption|].
      intros v ->. pose proof (recreate_nolv powf sc m _ _ _ _ Ex) as Nl'.
      pose proof (lvar_of_instr_var x' _ v Nl' El' eq_refl) as ->.
      destruct (Ix v eq_refl) as [Vv [T [ET HT]]]. split; [exact Vv|].
      destruct Ri as [T' [ET' _]]. rewrite ET in ET'. injection ET' as <-.
      assert (lvar_type lv = T) as ->; [|exact HT].
      destruct i; cbn [lvar_of_instr] in El;
        try (rewrite ET in El; cbn [obind] in El; injection El as <-; reflexivity);
        injection El as <-; cbn [rt] in ET; injection ET as <-; reflexivity.
    + apply wf_lenv_insert; assumption.
    + apply vokE_insert; [apply (vokE_leq _ _ L1 Ve)|].
      destruct lv; try reflexivity. pose proof (lvar_of_instr_var i _ v Nl El eq_refl) as ->.
      apply Cv. reflexivity.
  - (* LStm *)
    destruct (HS e s p We Ve W F H) as [L1 [W1 [_ [Ri Gi]]]].
    split; [apply lstep_of_SG; assumption|]. split; [exact W1|]. split; [apply (vokE_leq _ _ L1 Ve)|exact Ri].
Qed.

Lemma l_body_res e l is e1 :
  wf_lenv e -> vokE e -> forallb wf_sline l = true -> forallb lfrag l = true ->
  l_body csf clf sc e l = Ok (is, e1) -> LS e is e1 /\ Forall rt_ok is.
Proof.
  intros We Ve W F H. destruct l as [|ln l]; cbn [l_body] in H.
  - injection H as <- <-. split; constructor. auto.
  - cbn [forallb] in W, F. andb_split W. andb_split F.
    invb H q Eqq. destruct q as [i e0]. invb H q El. destruct q as [is' e2]. injection H as <- <-.
    destruct (line_res e ln _ We Ve W F Eqq) as [S1 [W1 [V1 R1]]]. cbn [fst snd] in *.
    destruct (HL e0 l is' e2 W1 V1 W0 F0 El) as [L2 R2].
    split; [econstructor; eassumption|constructor; assumption].
Qed.
End SimStep.

(* ================================================================= *)
(* 11. induction on the checker's fuel; the theorems                   *)
(* ================================================================= *)
Section Final.
Variable red : reducers.
Hypothesis Wred : wf_red red.
Variable powf : fbits -> fbits -> fbits.

Lemma sim_all n sc :
  wf_scopes sc -> vok_scopes sc ->
  (forall e x i, wf_lenv e -> vokE e -> wf_sx x = true -> frag x = true ->
     check_x red n sc e x = Ok i -> rt_ok i /\ forall er, ER e er -> dk powf sc er i) /\
  (forall e s p, wf_lenv e -> vokE e -> wf_sstm s = true -> sfrag s = true ->
     check_s red n sc e s = Ok p -> Sres powf sc e p) /\
  (forall e l is e1, wf_lenv e -> vokE e -> forallb wf_sline l = true -> forallb lfrag l = true ->
     check_lines red n sc e l = Ok (is, e1) -> LS powf sc e is e1 /\ Forall rt_ok is).
Proof.
  intros Wsc Vsc. induction n as [|n [IHX [IHS IHL]]].
  - repeat split; intros; discriminate.
  - split; [|split].
    + intros e x i We Ve Wx Fx H.
      split; [apply (check_x_rt_wf red Wred (S n) sc e x i We Wsc Wx H)|].
      intros er HE. rewrite check_x_S in H.
      apply (x_body_dk red Wred (check_x red n) (check_lines red n) sc Vsc powf e er We Ve HE)
        with (x := x); try assumption.
      * intros y j Wy Ey. apply (check_x_rt_wf red Wred n sc e y j We Wsc Wy Ey).
      * intros y j Wy Fy Ey. apply (IHX e y j We Ve Wy Fy Ey), HE.
      * intros e0 l is e1 We0 Ve0 Wl Fl El. apply (IHL e0 l is e1 We0 Ve0 Wl Fl El).
    + intros e s p We Ve Ws Fs H. rewrite check_s_S in H.
      apply (s_body_res powf sc (check_x red n) (check_s red n) (check_lines red n) IHX IHS IHL
               e s p We Ve Ws Fs H).
    + intros e l is e1 We Ve Wl Fl H. rewrite check_lines_S in H.
      apply (l_body_res powf sc (check_s red n) (check_lines red n) IHS IHL e l is e1 We Ve Wl Fl H).
Qed.

(* ---------- expressions ---------- *)
Theorem recreate_expr_total fuel fuel' sc e e' x i :
  wf_lenv e -> vok_lenv e -> wf_scopes sc -> vok_scopes sc -> wf_sx x = true -> frag x = true ->
  ER e e' ->
  check_x red fuel sc e x = Ok i ->
  recreate powf fuel' sc e' i <> Panic /\
  forall i' e'', recreate powf fuel' sc e' i = Ok (i', e'') ->
    e'' = e' /\
    forall v, i' = IVar v -> vok v = true /\ exists T, rt i = Ok T /\ has_type v T = true.
Proof.
  intros We Ve Wsc Vsc Wx Fx HE H.
  destruct (proj1 (sim_all fuel sc Wsc Vsc) e x i We (vok_lenv_vokE e Ve) Wx Fx H) as [_ D].
  pose proof (rec_good powf sc e' fuel' i (D e' HE)) as G.
  destruct (recreate powf fuel' sc e' i) as [[i' e'']| | |]; cbn [rgood] in G.
  - split; [discriminate|]. intros j ee E. injection E as <- <-. exact G.
  - split; [discriminate|]. intros j ee E. discriminate E.
  - contradiction.
  - split; [discriminate|]. intros j ee E. discriminate E.
Qed.

(* the pass may work in any environment with the same bindings *)
Lemma ER_of_leq e e' : vok_lenv e -> leq e' e -> ER e e'.
Proof. intros V L. apply (ER_leq_r _ _ e L), ER_refl, V. Qed.

(* ---------- statements ---------- *)
Theorem recreate_stm_total fuel fuel' sc e er s i e1 :
  wf_lenv e -> vok_lenv e -> wf_scopes sc -> vok_scopes sc -> wf_sstm s = true -> sfrag s = true ->
  ER e er ->
  check_s red fuel sc e s = Ok (i, e1) ->
  recreate powf fuel' sc er i <> Panic /\
  forall i' er', recreate powf fuel' sc er i = Ok (i', er') -> er' = er.
Proof.
  intros We Ve Wsc Vsc Ws Fs HE H.
  destruct (proj1 (proj2 (sim_all fuel sc Wsc Vsc)) e s _ We (vok_lenv_vokE e Ve) Ws Fs H)
    as [_ [_ [_ [_ G]]]]. cbn [fst] in G. pose proof (G er HE fuel') as R.
  destruct (recreate powf fuel' sc er i) as [[i' e'']| | |]; cbn [rgood] in R.
  - split; [discriminate|]. intros j ee E. injection E as <- <-. apply R.
  - split; [discriminate|]. intros j ee E. discriminate E.
  - contradiction.
  - split; [discriminate|]. intros j ee E. discriminate E.
Qed.

(* ---------- lines: everything check_lines builds, recreated in sequence ---------- *)
Theorem recreate_lines_never_panic fuel fuel' sc e er l is e1 :
  wf_lenv e -> vok_lenv e -> wf_scopes sc -> vok_scopes sc ->
  forallb wf_sline l = true -> forallb lfrag l = true ->
  ER e er ->
  check_lines red fuel sc e l = Ok (is, e1) ->
  rl_def (recreate powf fuel' sc) is er <> Panic /\
  forall is' er', rl_def (recreate powf fuel' sc) is er = Ok (is', er') -> ER e1 er'.
Proof.
  intros We Ve Wsc Vsc Wl Fl HE H.
  destruct (proj2 (proj2 (sim_all fuel sc Wsc Vsc)) e l is e1 We (vok_lenv_vokE e Ve) Wl Fl H) as [L _].
  pose proof (LS_run powf sc e is e1 L fuel' er HE) as G.
  destruct (rl_def (recreate powf fuel' sc) is er) as [[is' er']| | |].
  - split; [discriminate|]. intros j ee E. injection E as <- <-. exact G.
  - split; [discriminate|]. intros j ee E. discriminate E.
  - contradiction.
  - split; [discriminate|]. intros j ee E. discriminate E.
Qed.

(* Code::parse on ONE top-level line of the fragment never panics *)
Lemma check_lines_single fuel sc e ln is e1 :
  check_lines red fuel sc e [ln] = Ok (is, e1) -> exists i, is = [i].
Proof.
  destruct fuel as [|f]; [discriminate|]. rewrite check_lines_S. cbn [l_body]. intros H.
  apply obind_ok in H. destruct H as [[i e0] [_ H]].
  apply obind_ok in H. destruct H as [[is' e2] [E H]]. injection H as <- _.
  destruct f as [|f]; [discriminate E|]. rewrite check_lines_S in E. cbn [l_body] in E.
  injection E as <- _. eauto.
Qed.

Theorem parse_top_line_never_panics fuel sc e ln :
  wf_lenv e -> vok_lenv e -> wf_scopes sc -> vok_scopes sc ->
  wf_sline ln = true -> lfrag ln = true ->
  parse_top powf red fuel sc e [ln] <> Panic.
Proof.
  intros We Ve Wsc Vsc Wl Fl. cbn [parse_top].
  assert (Wp : wf_lenv (lenv_push e)) by (apply wf_lenv_push, We).
  assert (W1 : forallb wf_sline [ln] = true) by (cbn [forallb]; rewrite Wl; reflexivity).
  assert (F1 : forallb lfrag [ln] = true) by (cbn [forallb]; rewrite Fl; reflexivity).
  destruct (check_lines red fuel sc (lenv_push e) [ln]) as [[is e1]| | |] eqn:E; cbn [obind];
    try discriminate.
  2:{ exfalso. revert E. apply (check_lines_never_panics red Wred fuel sc _ [ln] Wp Wsc W1). }
  destruct (recreate_lines_never_panic fuel fuel sc (lenv_push e) e [ln] is e1 Wp
              (vok_lenv_push e Ve) Wsc Vsc W1 F1
              (ER_of_leq _ _ (vok_lenv_push e Ve) (leq_sym _ _ (leq_push e))) E) as [NP _].
  destruct (check_lines_single fuel sc _ ln is e1 E) as [i ->].
  change (rl_def (recreate powf fuel sc) [i] e) with
    (obind (recreate powf fuel sc e i) (fun '(x', e0) =>
     obind (Ok ([], e0)) (fun '(l', e0) => Ok (x' :: l', e0)))) in NP.
  destruct (recreate powf fuel sc e i) as [[i' e2]| | |]; cbn [obind] in *; try discriminate.
  contradiction.
Qed.

(* ... and so does a program of fragment lines none of which changes the environment the
   next one is checked in otherwise than by [ER]-compatible bindings: stated for
   expression statements, where the environment does not change at all *)
Theorem parse_top_exprs_never_panic fuel sc e xs :
  wf_lenv e -> vok_lenv e -> wf_scopes sc -> vok_scopes sc ->
  Forall (fun x => wf_sx x = true /\ frag x = true) xs ->
  parse_top powf red fuel sc e (map (fun x => LStm (SExpr x)) xs) <> Panic.
Proof.
  intros We Ve Wsc Vsc H. induction H as [|x xs [Wx Fx] _ IH]; [discriminate|].
  cbn [map parse_top].
  assert (Wp : wf_lenv (lenv_push e)) by (apply wf_lenv_push, We).
  assert (W1 : forallb wf_sline [LStm (SExpr x)] = true) by (cbn; rewrite Wx; reflexivity).
  assert (F1 : forallb lfrag [LStm (SExpr x)] = true) by (cbn; rewrite Fx; reflexivity).
  destruct (check_lines red fuel sc (lenv_push e) [LStm (SExpr x)]) as [[is e1]| | |] eqn:E;
    cbn [obind]; try discriminate.
  2:{ exfalso. revert E. apply (check_lines_never_panics red Wred fuel sc _ _ Wp Wsc W1). }
  destruct (check_lines_single fuel sc _ _ is e1 E) as [i ->].
  (* the instruction is what check_s built for the statement *)
  assert (S : exists n e2, check_s red n sc (lenv_push e) (SExpr x) = Ok (i, e2)).
  { destruct fuel as [|f]; [discriminate E|]. rewrite check_lines_S in E. cbn [l_body line_body] in E.
    apply obind_ok in E. destruct E as [[j e0] [Es E]]. apply obind_ok in E.
    destruct E as [[is' e2] [_ E]]. injection E as -> _ _. eauto. }
  destruct S as [n [e2 Es]].
  destruct (recreate_stm_total n fuel sc (lenv_push e) e (SExpr x) i e2 Wp (vok_lenv_push e Ve)
              Wsc Vsc Wx Fx (ER_of_leq _ _ (vok_lenv_push e Ve) (leq_sym _ _ (leq_push e))) Es)
    as [NP Henv].
  destruct (recreate powf fuel sc e i) as [[i' e3]| | |] eqn:Er; cbn [obind]; try discriminate;
    [|contradiction].
  rewrite (Henv i' e3 eq_refl).
  destruct (parse_top powf red fuel sc e (map (fun x => LStm (SExpr x)) xs)) as [[is' e4]| | |];
    cbn [obind]; try discriminate. contradiction.
Qed.
End Final.

(* ================================================================= *)
(* 12. non-vacuity                                                     *)
(* ================================================================= *)
(* `[1 + 2, k][0] + 3 * 4` with k : int not a constant: partly folded *)
Definition x_fold : sx :=
  XInfix Add (XAt (XArray [XInfix Add (XConst (VInt 1)) (XConst (VInt 2)); XIdent nk]) (XConst (VInt 0)))
             (XInfix Multiply (XConst (VInt 3)) (XConst (VInt 4))).
Example ex_fold_hyps :
  wf_lenv e_k /\ vok_lenv e_k /\ wf_scopes [] /\ vok_scopes [] /\ wf_sx x_fold = true /\
  frag x_fold = true.
Proof. repeat split; vm_compute; reflexivity. Qed.
Example ex_fold_result :
  obind (check_x red0 20 [] e_k x_fold) (recreate powf0 20 [] e_k) =
  Ok (IBin Add (IBin At (IArray [IVar (VInt 3); ILocal nk (LOther TInt)] TInt) (IVar (VInt 0)))
               (IVar (VInt 12)), e_k).
Proof. vm_compute. reflexivity. Qed.

(* `[1, 2][1] * 3` folds to the constant 6; `1 / 0` is reported as an error *)
Example ex_fold_const :
  obind (check_x red0 20 [] [] (XInfix Multiply (XAt (XArray [XConst (VInt 1); XConst (VInt 2)])
                                                    (XConst (VInt 1))) (XConst (VInt 3))))
        (recreate powf0 20 [] []) = Ok (IVar (VInt 6), []).
Proof. vm_compute. reflexivity. Qed.
Example ex_fold_error :
  obind (check_x red0 20 [] [] (XInfix Divide (XConst (VInt 1)) (XConst (VInt 0))))
        (recreate powf0 20 [] []) = Err E_ZeroDivision.
Proof. vm_compute. reflexivity. Qed.

(* the narrowing example satisfies every hypothesis of [recreate_expr_total] *)
Example ex_narrow_hyps : wf_sx x_narrow = true /\ frag x_narrow = true.
Proof. split; vm_compute; reflexivity. Qed.

(* the clause of [frag] on binary operators is needed: the model accepts an XInfix At,
   which no parser output contains, and folding it on constants panics *)
Example frag_infix_needed :
  obind (check_x red0 3 [] [] (XInfix At (XConst (VInt 1)) (XConst (VInt 1))))
        (recreate powf0 3 [] []) = Panic.
Proof. vm_compute. reflexivity. Qed.

(* statements and lines: the two functions that used to panic in Code::parse are in the
   fragment; a program with a function literal, match, while, if-set *)
Example ex_lines_hyps :
  forallb wf_sline p_narrow = true /\ forallb lfrag p_narrow = true /\
  forallb wf_sline p_if = true /\ forallb lfrag p_if = true.
Proof. repeat split; vm_compute; reflexivity. Qed.

(*  h := (v: int|string) -> int {
      n := 1 + 2;
      w := if true { n } else { 0 };
      while w < 3 { w2 := (u: int) -> int { return u * n; }; break; };
      return match v { i: int => { i + w; }, "a" => { 0; }, => { 2; }, };
    };                                                                         *)
Definition nh : name := [104]. Definition nw : name := [119]. Definition nu : name := [117].
Definition nw2 : name := [119; 50].
Definition p_stm : list sline :=
  [LFnDecl nh [(nv, TMulti [TInt; TString])] (Some TInt)
     [LSet nn (SExpr (XInfix Add (XConst (VInt 1)) (XConst (VInt 2))));
      LSet nw (SIfElse (XConst (VBool true)) (SBlock [LStm (SExpr (XIdent nn))])
                       (Some (SBlock [LStm (SExpr (XConst (VInt 0)))])));
      LStm (SWhile (XInfix Lower (XIdent nw) (XConst (VInt 3)))
              (SBlock [LSet nw2 (SExpr (XFunction [(nu, TInt)] (Some TInt)
                          [LStm (SRet (Some (SExpr (XInfix Multiply (XIdent nu) (XIdent nn)))))]));
                       LStm SBrk]));
      LStm (SRet (Some (SMatch (XIdent nv)
         [AType ni TInt (SBlock [LStm (SExpr (XInfix Add (XIdent ni) (XIdent nw)))]);
          AValue [XConst (VString [97])] (SBlock [LStm (SExpr (XConst (VInt 0)))]);
          AOther (SBlock [LStm (SExpr (XConst (VInt 2)))])])))]].
Example ex_stm_hyps : forallb wf_sline p_stm = true /\ forallb lfrag p_stm = true.
Proof. split; vm_compute; reflexivity. Qed.
Example ex_stm_parses :
  exists r, parse_top powf0 red0 60 [] [mkLayer [] None false] p_stm = Ok r.
Proof.
  destruct (parse_top powf0 red0 60 [] [mkLayer [] None false] p_stm) as [r| | |] eqn:E;
    [eauto|exfalso; revert E; vm_compute; discriminate..].
Qed.

(* RecrTop.v — the folding pass inside [Code::parse].

   [parse_top] (Model/Top.v) treats every top-level statement in two steps: the checker
   builds the instruction i (names resolved, nothing folded), then [recreate] folds it to
   i' against the base environment, which it extends for the following statements.
   [parse_both] is [parse_top] returning BOTH lists: the instructions as the checker built
   them (the program with its constants "hidden from the optimizer": no operator folded,
   no branch pruned, no computed constant propagated) and the instructions [parse_top]
   returns.  [parse_top_fold_unobservable]: running the two lists gives the same result. *)
From SSL.Model Require Import Base Ty Float Value Ops Seq Syntax Rt Recreate Exec Check Top.
From SSL.Lemmas Require Import ExecLemmas FoldLemmas RecrUnfold RecrMono RecrDefs RecrKeeps RecrSim1 RecrSim2 RecrMain.

Section Top.
Variable powf : fbits -> fbits -> fbits.
Variable pre : prelude.
Variable red : reducers.

Fixpoint parse_both (fuel : nat) (sc : scopes) (e : lenv) (l : list sline)
  : outcome (list instr * list instr * lenv) :=
  match l with
  | [] => Ok ([], [], e)
  | ln :: l =>
      obind (check_lines red fuel sc (lenv_push e) [ln]) (fun '(is, _) =>
      match is with
      | [i] =>
          obind (recreate powf fuel sc e i) (fun '(i', e) =>
          obind (parse_both fuel sc e l) (fun '(p, e) => Ok (i :: fst p, i' :: snd p, e)))
      | _ => Panic
      end)
  end.

Lemma parse_both_top fuel sc : forall l e,
  parse_top powf red fuel sc e l =
  obind (parse_both fuel sc e l) (fun '(p, e) => Ok (snd p, e)).
Proof.
  induction l as [|ln l IH]; intros e; [reflexivity|]. cbn [parse_top parse_both].
  destruct (check_lines red fuel sc (lenv_push e) [ln]) as [[is e0]| | |]; try reflexivity.
  cbn [obind]. destruct is as [|i [|j is]]; try reflexivity.
  destruct (recreate powf fuel sc e i) as [[i' e1]| | |]; try reflexivity.
  cbn [obind]. rewrite IH. destruct (parse_both fuel sc e1 l) as [[[a b] e2]| | |]; reflexivity.
Qed.

Lemma parse_both_rec fuel sc : forall l e is is' e',
  parse_both fuel sc e l = Ok (is, is', e') ->
  rec_list_def (recreate powf fuel sc) is e = Ok (is', e').
Proof.
  induction l as [|ln l IH]; intros e is is' e' H.
  - injection H as <- <- <-. reflexivity.
  - cbn [parse_both] in H. inv_bind H p Hp. destruct p as [cs e0].
    destruct cs as [|i [|j cs]]; try discriminate H.
    inv_bind H q Hq. destruct q as [i' e1]. inv_bind H r Hr. destruct r as [[a b] e2].
    injection H as <- <- <-. cbn [fst snd rec_list_def]. fold (rec_list_def (recreate powf fuel sc)).
    rewrite Hq. cbn [obind]. rewrite (IH _ _ _ _ Hr). reflexivity.
Qed.

Variable cl : bool.
Hypothesis anonfn_case : forall f, rexpr powf pre cl f -> rline powf pre cl f -> forall e ps body ret i' e',
  recreate powf (S f) [] e (IAnonFn ps body ret) = Ok (i', e') ->
  cl = true -> forallb (wfi cl true) body = true -> dok i' = true ->
  e' = e /\ noconst i' /\ simE powf pre e (IAnonFn ps body ret) i'.
Hypothesis fndecl_case : forall f, rexpr powf pre cl f -> rline powf pre cl f -> forall e nm ps body ret i' e',
  recreate powf (S f) [] e (IFnDecl nm ps body ret) = Ok (i', e') ->
  cl = true -> forallb (wfi cl true) body = true -> dok i' = true ->
  simE powf pre e (IFnDecl nm ps body ret) i' /\
  forall sc, agree e sc -> post powf pre e' sc (IFnDecl nm ps body ret).

Theorem parse_top_fold_unobservable_gen fuel e l is is' e' :
  parse_both fuel [] e l = Ok (is, is', e') ->
  forallb (wfi cl true) is = true -> forallb dok is' = true ->
  parse_top powf red fuel [] e l = Ok (is', e') /\
  forall sc, agree e sc -> forall n st last,
    okr (run_code powf pre n st sc is last) ->
    run_code powf pre n st sc is' last = run_code powf pre n st sc is last.
Proof.
  intros H W D. split.
  - rewrite parse_both_top, H. reflexivity.
  - apply (sim_code powf pre cl anonfn_case fndecl_case fuel is e is' e'); try assumption.
    apply (parse_both_rec _ _ _ _ _ _ _ H).
Qed.

End Top.

Definition parse_top_fold_unobservable0 powf pre red :=
  parse_top_fold_unobservable_gen powf pre red false (no_anonfn powf pre) (no_fndecl powf pre).

(* RecrMono.v — fuel monotonicity of the interpreter model.

   [exec n] is a fuel-indexed big-step function; SFuel is the model's own "ran out of
   fuel".  If [exec n st sc i] finishes with anything but SFuel, every larger fuel gives
   literally the same result (store, scopes, signal):

       exec_fuel_mono : n <= m -> sig (exec n st sc i) <> SFuel -> exec m st sc i = exec n st sc i

   No hypothesis on the instruction, the store or the scopes: all instruction forms,
   including the iterator operators, are covered.  The proof goes through the standalone
   copies of the local helpers of [exec] (ExecLemmas, section Defs): each of them is
   monotone in the interpreter [ex] it is given. *)
From SSL.Model Require Import Base Ty Float Value Ops Seq Syntax Rt Recreate Exec.
From SSL.Lemmas Require Import ExecLemmas.

Arguments matches : simpl never.

(* r' refines r: if r is not "out of fuel", r' is the same result *)
Definition le_res (r r' : res) : Prop := sig r <> SFuel -> r' = r.
Definition lsig (r : lres) : signal := snd r.
Definition le_lres (r r' : lres) : Prop := lsig r <> SFuel -> r' = r.
Definition le_ex (ex ex' : store -> scopes -> instr -> res) : Prop :=
  forall st sc i, le_res (ex st sc i) (ex' st sc i).

Lemma le_res_refl r : le_res r r.
Proof. intros _. reflexivity. Qed.
Lemma le_res_fuel st sc r' : le_res (st, sc, SFuel) r'.
Proof. intros H. exfalso. apply H. reflexivity. Qed.
Lemma le_lres_refl r : le_lres r r.
Proof. intros _. reflexivity. Qed.
Lemma le_lres_fuel st sc o r' : le_lres (st, sc, o, SFuel) r'.
Proof. intros H. exfalso. apply H. reflexivity. Qed.

Lemma fuel_dec (s : signal) : {s = SFuel} + {s <> SFuel}.
Proof. destruct s; (left; reflexivity) || (right; discriminate). Qed.

Lemma binop_eq_dec (a b : binop) : {a = b} + {a <> b}.
Proof. decide equality. Qed.

Lemma le_ex_refl ex : le_ex ex ex.
Proof. intros st sc i. apply le_res_refl. Qed.

Lemma le_ex_trans a b c : le_ex a b -> le_ex b c -> le_ex a c.
Proof.
  intros H1 H2 st sc i Hf. pose proof (H1 st sc i Hf) as E1.
  rewrite <- E1 in Hf. rewrite (H2 st sc i Hf). exact E1.
Qed.

Section Mono.
Variable powf : fbits -> fbits -> fbits.
Variable pre : prelude.
Variables ex ex' : store -> scopes -> instr -> res.
Hypothesis Hex : le_ex ex ex'.

(* run [ex st sc x]; either it is out of fuel, or ex' gives the same *)
Ltac run st sc x st1 sc1 s1 :=
  let Hx := fresh "Hx" in
  let NF := fresh "NF" in
  pose proof (Hex st sc x) as Hx;
  destruct (ex st sc x) as [[st1 sc1] s1];
  destruct (fuel_dec s1) as [->|NF];
  [ try apply le_res_fuel; try apply le_lres_fuel
  | rewrite (Hx NF); clear Hx ].

Lemma with_val_mono x st sc k k' :
  (forall st sc v, le_res (k st sc v) (k' st sc v)) ->
  le_res (with_val_def ex x st sc k) (with_val_def ex' x st sc k').
Proof.
  intros Hk. unfold with_val_def. run st sc x st1 sc1 s1.
  destruct s1; try apply le_res_refl. apply Hk.
Qed.

Lemma ex_list_mono l : forall st sc, le_lres (ex_list_def ex l st sc) (ex_list_def ex' l st sc).
Proof.
  induction l as [|x l IH]; intros st sc; [apply le_lres_refl|].
  rewrite !ex_list_cons. run st sc x st1 sc1 s1.
  destruct s1; try apply le_lres_refl.
  specialize (IH st1 sc1). destruct (ex_list_def ex l st1 sc1) as [[[st2 sc2] o2] s2].
  destruct (fuel_dec s2) as [->|NF2].
  - destruct o2; apply le_lres_fuel.
  - rewrite (IH NF2). apply le_lres_refl.
Qed.

Lemma with_list_mono l st sc k k' :
  (forall st sc vs, le_res (k st sc vs) (k' st sc vs)) ->
  le_res (with_list_def ex l st sc k) (with_list_def ex' l st sc k').
Proof.
  intros Hk. unfold with_list_def. pose proof (ex_list_mono l st sc) as H.
  pose proof (ex_list_shape ex l st sc) as Sh.
  destruct (ex_list_def ex l st sc) as [[[st2 sc2] o2] s2].
  destruct (fuel_dec s2) as [->|NF].
  - destruct (Sh _ _ _ _ eq_refl) as [[vs [_ [C _]]]|[-> _]]; [discriminate C|]. apply le_res_fuel.
  - rewrite (H NF). destruct o2; try apply le_res_refl. apply Hk.
Qed.

Lemma run_body_mono c st sc : le_res (run_body_def ex c st sc) (run_body_def ex' c st sc).
Proof.
  unfold run_body_def. destruct (c_body c) as [body|id]; [|apply le_res_refl].
  pose proof (ex_list_mono body st sc) as H.
  pose proof (ex_list_shape ex body st sc) as Sh.
  destruct (ex_list_def ex body st sc) as [[[st2 sc2] o2] s2].
  destruct (fuel_dec s2) as [->|NF].
  - destruct (Sh _ _ _ _ eq_refl) as [[vs [_ [C _]]]|[-> _]]; [discriminate C|]. apply le_res_fuel.
  - rewrite (H NF). apply le_res_refl.
Qed.

Lemma call_mono fid args st sc : le_res (call_def ex fid args st sc) (call_def ex' fid args st sc).
Proof.
  unfold call_def. destruct (nth_error (s_funs st) fid) as [c|]; [|apply le_res_refl].
  pose proof (run_body_mono c (log_event st (EvCall fid args)) [frame_def fid c args]) as H.
  destruct (run_body_def ex c (log_event st (EvCall fid args)) [frame_def fid c args]) as [[st2 sc2] s2].
  destruct (fuel_dec s2) as [->|NF]; [apply le_res_fuel|].
  rewrite (H NF). apply le_res_refl.
Qed.

Lemma call_v_mono f args st sc : le_res (call_v_def ex f args st sc) (call_v_def ex' f args st sc).
Proof. destruct f; try apply le_res_refl. apply call_mono. Qed.

(* run a call *)
Ltac runc H st1 sc1 s1 :=
  let NF := fresh "NF" in
  match type of H with
  | le_res ?a _ =>
      destruct a as [[st1 sc1] s1];
      destruct (fuel_dec s1) as [->|NF];
      [ try apply le_res_fuel; try apply le_lres_fuel
      | rewrite (H NF); clear H ]
  end.

Lemma pull_mono it : forall m st sc acc,
  le_lres (pull_def ex m it st sc acc) (pull_def ex' (S m) it st sc acc).
Proof.
  induction m as [|m IH]; intros st sc acc; [apply le_lres_fuel|].
  rewrite (pull_def_S ex m), (pull_def_S ex' (S m)).
  pose proof (call_v_mono it [] st sc) as H. runc H st1 sc1 s1.
  destruct s1 as [v| | | | | |]; try apply le_lres_refl.
  destruct v as [| | | | | |vs| | |]; try apply le_lres_refl.
  destruct vs as [|c rest]; [apply le_lres_refl|].
  destruct (is_false c); [apply le_lres_refl|].
  destruct rest as [|x rest]; [apply le_lres_refl|]. apply IH.
Qed.

Lemma pull_ok_void it : forall m st sc acc st' sc' vs s,
  pull_def ex m it st sc acc = (st', sc', Ok vs, s) -> s = SVal VVoid.
Proof.
  induction m as [|m IH]; intros st sc acc st' sc' vs s H; [discriminate H|].
  rewrite (pull_def_S ex m) in H.
  destruct (call_v_def ex it [] st sc) as [[st1 sc1] s1].
  destruct s1 as [v| | | | | |]; try discriminate H.
  destruct v as [| | | | | |ws| | |]; try (injection H as _ _ _ <-; reflexivity).
  destruct ws as [|c rest]; [discriminate H|].
  destruct (is_false c); [injection H as _ _ _ <-; reflexivity|].
  destruct rest as [|x rest]; [discriminate H|]. apply (IH _ _ _ _ _ _ _ H).
Qed.

Lemma reduce_mono itv fv : forall m st sc acc,
  le_res (reduce_def ex itv fv m st sc acc) (reduce_def ex' itv fv (S m) st sc acc).
Proof.
  induction m as [|m IH]; intros st sc acc; [apply le_res_fuel|].
  rewrite (reduce_def_S ex itv fv m), (reduce_def_S ex' itv fv (S m)).
  pose proof (call_v_mono itv [] st sc) as H. runc H st1 sc1 s1.
  destruct s1 as [v| | | | | |]; try apply le_res_refl.
  destruct v as [| | | | | |vs| | |]; try apply le_res_refl.
  destruct vs as [|c rest]; [apply le_res_refl|].
  destruct (is_false c); [apply le_res_refl|].
  destruct rest as [|x rest]; [apply le_res_refl|].
  pose proof (call_v_mono fv [acc; x] st1 sc1) as H2. runc H2 st2 sc2 s2.
  destruct s2; try apply le_res_refl. apply IH.
Qed.

Lemma part_mono lv rv : forall m st sc yes no,
  le_res (part_def ex lv rv m st sc yes no) (part_def ex' lv rv (S m) st sc yes no).
Proof.
  induction m as [|m IH]; intros st sc yes no; [apply le_res_fuel|].
  rewrite (part_def_S ex lv rv m), (part_def_S ex' lv rv (S m)).
  pose proof (call_v_mono lv [] st sc) as H. runc H st1 sc1 s1.
  destruct s1 as [v| | | | | |]; try apply le_res_refl.
  destruct v as [| | | | | |vs| | |]; try apply le_res_refl.
  destruct vs as [|c rest]; [apply le_res_refl|].
  destruct (is_false c); [apply le_res_refl|].
  destruct rest as [|x rest]; [apply le_res_refl|].
  pose proof (call_v_mono rv [x] st1 sc1) as H2. runc H2 st2 sc2 s2.
  destruct s2 as [w| | | | | |]; try apply le_res_refl.
  destruct w as [b| | | | | | | | |]; try apply IH. destruct b; apply IH.
Qed.

Lemma loop_mono b : forall m st sc,
  le_res (loop_def ex b m st sc) (loop_def ex' b (S m) st sc).
Proof.
  induction m as [|m IH]; intros st sc; [apply le_res_fuel|].
  rewrite (loop_def_S ex b m), (loop_def_S ex' b (S m)).
  run st sc b st1 sc1 s1.
  destruct s1; try apply le_res_refl; apply IH.
Qed.

Lemma match_cands_mono v b k k' cs :
  (forall st sc, le_res (k st sc) (k' st sc)) ->
  forall st sc, le_res (match_cands_def ex v b k cs st sc) (match_cands_def ex' v b k' cs st sc).
Proof.
  intros Hk. induction cs as [|c cs IH]; intros st sc; [apply Hk|].
  rewrite !match_cands_cons. run st sc c st1 sc1 s1.
  destruct s1; try apply le_res_refl.
  destruct (val_eqb v0 v); [apply Hex|apply IH].
Qed.

Lemma match_arms_mono v arms : forall st sc,
  le_res (match_arms_def ex v arms st sc) (match_arms_def ex' v arms st sc).
Proof.
  induction arms as [|a arms IH]; intros st sc; [apply le_res_refl|].
  destruct a as [nm t b|cands b|b].
  - rewrite !match_arms_type. destruct (matches (as_type v) t); [|apply IH].
    run st ([(nm, v)] :: sc) b st1 sc1 s1. apply le_res_refl.
  - rewrite !match_arms_value. apply match_cands_mono. exact IH.
  - rewrite !match_arms_other. apply Hex.
Qed.

Lemma struct_mono fs : forall st sc acc,
  le_res (struct_def ex fs st sc acc) (struct_def ex' fs st sc acc).
Proof.
  induction fs as [|[k x] fs IH]; intros st sc acc; [apply le_res_refl|].
  rewrite !struct_def_cons. apply with_val_mono. intros st1 sc1 v. apply IH.
Qed.

Lemma opt_mono o st sc k k' :
  (forall st sc ov, le_res (k st sc ov) (k' st sc ov)) ->
  le_res (opt_def ex o st sc k) (opt_def ex' o st sc k').
Proof.
  intros Hk. destruct o as [x|]; [|apply Hk]. unfold opt_def.
  apply with_val_mono. intros st1 sc1 v. destruct v; try apply le_res_refl. apply Hk.
Qed.

Lemma bin_dispatch_mono m op lv rv st sc :
  le_res (bin_dispatch powf pre ex m op lv rv st sc) (bin_dispatch powf pre ex' (S m) op lv rv st sc).
Proof.
  destruct op; cbn [bin_dispatch assign_base]; try apply le_res_refl.
  - (* Filter *)
    destruct (fn_return_type (as_type lv)); [|apply le_res_refl].
    pose proof (call_mono (p_filter pre) [lv; rv] st sc) as H. runc H st1 sc1 s1. apply le_res_refl.
  - (* Map *)
    destruct (fn_return_type (as_type rv)); [|apply le_res_refl].
    pose proof (call_mono (p_map pre) [lv; rv] st sc) as H. runc H st1 sc1 s1. apply le_res_refl.
  - (* FunctionCall *)
    destruct rv; try apply le_res_refl. apply call_v_mono.
  - (* Partition *)
    destruct lv; try apply le_res_refl. destruct rv; try apply le_res_refl. apply part_mono.
Qed.

Lemma un_dispatch_mono m sx op v st sc :
  le_res (un_dispatch pre ex m sx op v st sc) (un_dispatch pre ex' (S m) sx op v st sc).
Proof.
  destruct op; cbn [un_dispatch]; try apply le_res_refl.
  - (* UFunctionCall *)
    destruct v; try apply le_res_refl. destruct (nth_error (s_funs st) id); [|apply le_res_refl].
    apply run_body_mono.
  - (* UCollect *)
    destruct v; try apply le_res_refl.
    match goal with |- context [pull_def ex m ?it st sc []] =>
      pose proof (pull_mono it m st sc []) as H;
      destruct (pull_def ex m it st sc []) as [[[st2 sc2] o2] s2] eqn:EP end.
    destruct (fuel_dec s2) as [->|NF].
    + destruct o2 as [a| | |]; try apply le_res_fuel.
      discriminate (pull_ok_void _ _ _ _ _ _ _ _ _ EP).
    + rewrite (H NF). apply le_res_refl.
  - (* UIter *)
    destruct (element_type (as_type v)) as [et|]; [|apply le_res_refl].
    destruct (match alloc_default et st with Some ds => ds | None => (VVoid, st) end) as [d st0].
    match goal with |- le_res (match call_def ex ?f ?a ?s sc with _ => _ end) _ =>
      pose proof (call_mono f a s sc) as H end.
    runc H st1 sc1 s1. apply le_res_refl.
Qed.

End Mono.

Section Main.
Variable powf : fbits -> fbits -> fbits.
Variable pre : prelude.
Notation E := (exec powf pre).

Lemma exec_mono_step : forall n, le_ex (E n) (E (S n)).
Proof.
  induction n as [|n IH]; intros st sc i.
  - rewrite exec_O. apply le_res_fuel.
  - destruct i.
    + (* IAnonFn *) rewrite !exec_S_IAnonFn. apply le_res_refl.
    + (* IArray *) rewrite !exec_S_IArray. apply with_list_mono; [exact IH|]. intros; apply le_res_refl.
    + (* IArrayRepeat *) rewrite !exec_S_IArrayRepeat.
      apply with_val_mono; [exact IH|]. intros st1 sc1 x.
      apply with_val_mono; [exact IH|]. intros; apply le_res_refl.
    + (* IBlock *) rewrite !exec_S_IBlock.
      pose proof (ex_list_mono _ _ IH body st ([] :: sc)) as H.
      pose proof (ex_list_shape (E n) body st ([] :: sc)) as Sh.
      destruct (ex_list_def (E n) body st ([] :: sc)) as [[[st2 sc2] o2] s2].
      destruct (fuel_dec s2) as [->|NF].
      * destruct (Sh _ _ _ _ eq_refl) as [[vs [_ [C _]]]|[-> _]]; [discriminate C|]. apply le_res_fuel.
      * rewrite (H NF). apply le_res_refl.
    + rewrite !exec_S_IBreak. apply le_res_refl.
    + rewrite !exec_S_IContinue. apply le_res_refl.
    + (* IDestruct *) rewrite !exec_S_IDestruct. apply with_val_mono; [exact IH|]. intros; apply le_res_refl.
    + rewrite !exec_S_IFieldAccess. apply with_val_mono; [exact IH|]. intros; apply le_res_refl.
    + rewrite !exec_S_IFnDecl. apply le_res_refl.
    + (* IIfElse *) rewrite !exec_S_IIfElse. apply with_val_mono; [exact IH|]. intros st1 sc1 v.
      destruct v as [b| | | | | | | | |]; try apply le_res_refl. destruct b; apply IH.
    + rewrite !exec_S_ILocal. apply le_res_refl.
    + (* ILoop *) rewrite !exec_S_ILoop. apply loop_mono. exact IH.
    + (* IMatch *) rewrite !exec_S_IMatch. apply with_val_mono; [exact IH|]. intros st1 sc1 v.
      apply match_arms_mono. exact IH.
    + rewrite !exec_S_IMut. apply with_val_mono; [exact IH|]. intros; apply le_res_refl.
    + (* IReduce *) rewrite !exec_S_IReduce.
      apply with_val_mono; [exact IH|]. intros st1 sc1 itv.
      apply with_val_mono; [exact IH|]. intros st2 sc2 initv.
      apply with_val_mono; [exact IH|]. intros st3 sc3 fv.
      destruct itv; try apply le_res_refl. destruct fv; try apply le_res_refl.
      apply reduce_mono. exact IH.
    + rewrite !exec_S_ISet. apply with_val_mono; [exact IH|]. intros; apply le_res_refl.
    + (* ISetIfElse *) rewrite !exec_S_ISetIfElse. apply with_val_mono; [exact IH|]. intros st1 sc1 v.
      destruct (matches (as_type v) t); [|apply IH].
      pose proof (IH st1 ([(n0, v)] :: sc1) i2) as H.
      destruct (E n st1 ([(n0, v)] :: sc1) i2) as [[st2 sc2] s2].
      destruct (fuel_dec s2) as [->|NF]; [apply le_res_fuel|]. rewrite (H NF). apply le_res_refl.
    + (* ISlicing *) rewrite !exec_S_ISlicing.
      apply with_val_mono; [exact IH|]. intros st1 sc1 lv.
      apply opt_mono; [exact IH|]. intros st2 sc2 av.
      apply opt_mono; [exact IH|]. intros st3 sc3 bv.
      apply opt_mono; [exact IH|]. intros; apply le_res_refl.
    + rewrite !exec_S_IStruct. apply struct_mono. exact IH.
    + rewrite !exec_S_ITuple. apply with_list_mono; [exact IH|]. intros; apply le_res_refl.
    + rewrite !exec_S_ITupleAccess. apply with_val_mono; [exact IH|]. intros; apply le_res_refl.
    + rewrite !exec_S_ITypeFilter. apply with_val_mono; [exact IH|]. intros; apply le_res_refl.
    + rewrite !exec_S_IVar. apply le_res_refl.
    + (* IBin *)
      destruct (binop_eq_dec op And) as [->|NA].
      { rewrite !exec_S_And. apply with_val_mono; [exact IH|]. intros st1 sc1 v.
        destruct v as [b| | | | | | | | |]; try apply le_res_refl. destruct b; [apply IH|apply le_res_refl]. }
      destruct (binop_eq_dec op Or) as [->|NO].
      { rewrite !exec_S_Or. apply with_val_mono; [exact IH|]. intros st1 sc1 v.
        destruct v as [b| | | | | | | | |]; try apply le_res_refl. destruct b; [apply le_res_refl|apply IH]. }
      rewrite !exec_S_IBin by assumption.
      apply with_val_mono; [exact IH|]. intros st1 sc1 lv.
      apply with_val_mono; [exact IH|]. intros st2 sc2 rv.
      apply bin_dispatch_mono. exact IH.
    + (* IUn *) rewrite !exec_S_IUn. apply with_val_mono; [exact IH|]. intros st1 sc1 v.
      apply un_dispatch_mono. exact IH.
Qed.

Theorem exec_fuel_mono : forall n m st sc i,
  n <= m -> sig (E n st sc i) <> SFuel -> E m st sc i = E n st sc i.
Proof.
  intros n m st sc i Hle. induction Hle as [|m Hle IH]; intros Hf; [reflexivity|].
  specialize (IH Hf). rewrite <- IH in Hf. rewrite (exec_mono_step m st sc i Hf). exact IH.
Qed.

End Main.

(* TyCompat.v — concat respects ty_eqb (on well-formed types): the union is
   determined, up to `==`, by the `==`-classes of its arguments. *)
From SSL.Model Require Import Base Ty.
From SSL.Lemmas Require Import TyFuel TyEq TyMatches TyJoin.

Definition members (t : ty) : list ty :=
  match t with TMulti ms => ms | _ => [t] end.

Lemma mem_ty_app x l1 l2 : mem_ty x (l1 ++ l2) = mem_ty x l1 || mem_ty x l2.
Proof. unfold mem_ty. apply existsb_app. Qed.

Lemma mem_ty_single x y : mem_ty x [y] = ty_eqb x y.
Proof. unfold mem_ty. cbn [existsb]. apply orb_false_r. Qed.

Lemma mem_ty_intro x y l : In y l -> ty_eqb x y = true -> mem_ty x l = true.
Proof. intros Hy E. unfold mem_ty. apply existsb_exists. exists y. split; assumption. Qed.

(* pigeonhole: a pairwise-distinct list that embeds into another is no longer *)
Lemma pairwise_incl_length l1 : forall l2,
  pairwise_neq l1 = true -> (forall x, In x l1 -> mem_ty x l2 = true) ->
  length l1 <= length l2.
Proof.
  induction l1 as [|x l1 IH]; intros l2 Hp Hsub; cbn [length]; [lia|].
  cbn [pairwise_neq] in Hp. apply andb_true_iff in Hp. destruct Hp as [Hx Hp].
  apply negb_true_iff in Hx.
  pose proof (Hsub x (or_introl eq_refl)) as Hm. apply mem_ty_true in Hm.
  destruct Hm as [y [Hy Exy]]. apply in_split in Hy. destruct Hy as [la [lb ->]].
  rewrite app_length. cbn [length].
  assert (Hle : length l1 <= length (la ++ lb)).
  { apply IH; [exact Hp|]. intros x' Hx'.
    pose proof (Hsub x' (or_intror Hx')) as Hm'. apply mem_ty_true in Hm'.
    destruct Hm' as [y' [Hy' Ex'y']]. apply in_app_or in Hy'.
    destruct Hy' as [Hy'|[Hy'|Hy']].
    - apply (mem_ty_intro x' y'); [apply in_or_app; left; exact Hy'|exact Ex'y'].
    - exfalso. subst y'.
      assert (E : ty_eqb x x' = true).
      { apply (ty_eqb_trans x y x' Exy). rewrite ty_eqb_sym. exact Ex'y'. }
      rewrite (mem_ty_false x l1 Hx x' Hx') in E. discriminate E.
    - apply (mem_ty_intro x' y'); [apply in_or_app; right; exact Hy'|exact Ex'y']. }
  rewrite app_length in Hle. lia.
Qed.

(* two well-formed types with the same members up to `==` are `==` *)
Lemma ty_eqb_of_members r r' :
  wf_ty r = true -> wf_ty r' = true ->
  (forall x, In x (members r) -> mem_ty x (members r') = true) ->
  (forall x, In x (members r') -> mem_ty x (members r) = true) ->
  ty_eqb r r' = true.
Proof.
  intros W W' H1 H2.
  destruct (is_multi r) eqn:Mr, (is_multi r') eqn:Mr'.
  - destruct r as [| | | | | | |? ?|?|?|ms|?|?]; try discriminate Mr.
    destruct r' as [| | | | | | |? ?|?|?|ms'|?|?]; try discriminate Mr'.
    cbn [members] in *. rewrite ty_eqb_multi.
    pose proof (wf_multi_inv _ W) as [_ [_ [_ P]]].
    pose proof (wf_multi_inv _ W') as [_ [_ [_ P']]].
    assert (L : length ms = length ms').
    { pose proof (pairwise_incl_length ms ms' P H1).
      pose proof (pairwise_incl_length ms' ms P' H2). lia. }
    rewrite L, Nat.eqb_refl. cbn [andb]. apply andb_true_iff. split.
    + apply forallb_forall. intros x Hx. apply (H1 x Hx).
    + apply forallb_forall. intros x Hx. apply (H2 x Hx).
  - exfalso.
    destruct r as [| | | | | | |? ?|?|?|ms|?|?]; try discriminate Mr.
    assert (Mem : members r' = [r']) by (destruct r'; try discriminate Mr'; reflexivity).
    rewrite Mem in *. cbn [members] in *.
    pose proof (wf_multi_inv _ W) as [Len [_ [_ P]]].
    destruct ms as [|x1 [|x2 ms]]; cbn [length] in Len; try lia.
    cbn [pairwise_neq] in P. apply andb_true_iff in P. destruct P as [P _].
    apply negb_true_iff in P.
    pose proof (H1 x1 (or_introl eq_refl)) as E1. rewrite mem_ty_single in E1.
    pose proof (H1 x2 (or_intror (or_introl eq_refl))) as E2. rewrite mem_ty_single in E2.
    assert (E : ty_eqb x1 x2 = true).
    { apply (ty_eqb_trans x1 r' x2 E1). rewrite ty_eqb_sym. exact E2. }
    rewrite (mem_ty_false x1 (x2 :: ms) P x2 (or_introl eq_refl)) in E. discriminate E.
  - exfalso.
    destruct r' as [| | | | | | |? ?|?|?|ms|?|?]; try discriminate Mr'.
    assert (Mem : members r = [r]) by (destruct r; try discriminate Mr; reflexivity).
    rewrite Mem in *. cbn [members] in *.
    pose proof (wf_multi_inv _ W') as [Len [_ [_ P]]].
    destruct ms as [|x1 [|x2 ms]]; cbn [length] in Len; try lia.
    cbn [pairwise_neq] in P. apply andb_true_iff in P. destruct P as [P _].
    apply negb_true_iff in P.
    pose proof (H2 x1 (or_introl eq_refl)) as E1. rewrite mem_ty_single in E1.
    pose proof (H2 x2 (or_intror (or_introl eq_refl))) as E2. rewrite mem_ty_single in E2.
    assert (E : ty_eqb x1 x2 = true).
    { apply (ty_eqb_trans x1 r x2 E1). rewrite ty_eqb_sym. exact E2. }
    rewrite (mem_ty_false x1 (x2 :: ms) P x2 (or_introl eq_refl)) in E. discriminate E.
  - assert (Mem : members r = [r]) by (destruct r; try discriminate Mr; reflexivity).
    assert (Mem' : members r' = [r']) by (destruct r'; try discriminate Mr'; reflexivity).
    rewrite Mem, Mem' in *.
    pose proof (H1 r (or_introl eq_refl)) as E. rewrite mem_ty_single in E. exact E.
Qed.

(* `==` types have the same members up to `==` *)
Lemma ty_eqb_members_sub a a' x :
  ty_eqb a a' = true -> mem_ty x (members a) = true -> mem_ty x (members a') = true.
Proof.
  intros E H.
  destruct (is_multi a) eqn:Ma.
  - destruct a as [| | | | | | |? ?|?|?|ms|?|?]; try discriminate Ma.
    destruct a' as [| | | | | | |? ?|?|?|ms'|?|?]; try (rewrite ty_eqb_unfold in E; discriminate E).
    cbn [members] in *. rewrite ty_eqb_multi in E.
    apply andb_true_iff in E. destruct E as [E _].
    apply andb_true_iff in E. destruct E as [_ E]. rewrite forallb_forall in E.
    apply mem_ty_true in H. destruct H as [y [Hy Exy]].
    specialize (E y Hy). apply existsb_exists in E. destruct E as [z [Hz Eyz]].
    apply (mem_ty_intro x z _ Hz). apply (ty_eqb_trans x y z Exy Eyz).
  - assert (Ma' : is_multi a' = false).
    { destruct a; try discriminate Ma; destruct a'; try reflexivity;
        rewrite ty_eqb_unfold in E; discriminate E. }
    assert (Mem : members a = [a]) by (destruct a; try discriminate Ma; reflexivity).
    assert (Mem' : members a' = [a']) by (destruct a'; try discriminate Ma'; reflexivity).
    rewrite Mem in H. rewrite Mem'. rewrite mem_ty_single in *.
    apply (ty_eqb_trans x a a' H E).
Qed.

Lemma ty_eqb_members a a' x :
  ty_eqb a a' = true -> mem_ty x (members a) = mem_ty x (members a').
Proof.
  intros E.
  destruct (mem_ty x (members a)) eqn:E1, (mem_ty x (members a')) eqn:E2; try reflexivity.
  - rewrite (ty_eqb_members_sub a a' x E E1) in E2. discriminate E2.
  - rewrite ty_eqb_sym in E. rewrite (ty_eqb_members_sub a' a x E E2) in E1. discriminate E1.
Qed.

(* the members of a union of two proper types are the members of either *)
Lemma members_simple a : simple a = true -> members a = [a].
Proof. destruct a; try discriminate; reflexivity. Qed.

Lemma concat_members a b x :
  na a = true -> na b = true ->
  mem_ty x (members (concat a b)) = mem_ty x (members a) || mem_ty x (members b).
Proof.
  intros Na Nb.
  destruct (concat_view a b) as [Ha|Hb|Hab|He|m1 m2 Ha Hb|m1 Ha Sb|m2 Sa Hb|Sa Sb He].
  - subst a. discriminate Na.
  - subst b. discriminate Nb.
  - destruct Hab as [-> | ->]; [discriminate Na|discriminate Nb].
  - rewrite <- (ty_eqb_members a b x He). destruct (mem_ty x (members a)); reflexivity.
  - subst a b. cbn [members]. rewrite mem_ty_app.
    destruct (mem_ty x m1) eqn:E1; [reflexivity|]. cbn [orb].
    destruct (mem_ty x m2) eqn:E2.
    + apply mem_ty_true in E2. destruct E2 as [y [Hy Exy]].
      apply (mem_ty_intro x y); [|exact Exy]. apply filter_In. split; [exact Hy|].
      apply negb_true_iff. rewrite <- (mem_ty_eqb x y m1 Exy). exact E1.
    + destruct (mem_ty x (filter (fun x0 => negb (mem_ty x0 m1)) m2)) eqn:E3; [|reflexivity].
      apply mem_ty_true in E3. destruct E3 as [y [Hy Exy]]. apply filter_In in Hy.
      destruct Hy as [Hy _]. rewrite (mem_ty_intro x y m2 Hy Exy) in E2. discriminate E2.
  - subst a. rewrite (members_simple b Sb). cbn [members]. rewrite mem_ty_single.
    destruct (mem_ty b m1) eqn:Em; cbn [members].
    + destruct (ty_eqb x b) eqn:Exb; [|rewrite orb_false_r; reflexivity].
      rewrite (mem_ty_eqb x b m1 Exb), Em. reflexivity.
    + rewrite mem_ty_app, mem_ty_single. reflexivity.
  - subst b. rewrite (members_simple a Sa). cbn [members]. rewrite mem_ty_single.
    destruct (mem_ty a m2) eqn:Em; cbn [members].
    + destruct (ty_eqb x a) eqn:Exa; [|reflexivity].
      rewrite (mem_ty_eqb x a m2 Exa), Em. reflexivity.
    + rewrite mem_ty_app, mem_ty_single. apply orb_comm.
  - rewrite (members_simple a Sa), (members_simple b Sb). cbn [members].
    unfold mem_ty. cbn [existsb]. rewrite !orb_false_r. reflexivity.
Qed.

Lemma na_false_inv a : na a = false -> a = TNever \/ a = TAny.
Proof. destruct a; try discriminate; auto. Qed.

Lemma ty_eqb_na a a' : ty_eqb a a' = true -> na a = na a'.
Proof. rewrite ty_eqb_unfold. destruct a, a'; try discriminate; reflexivity. Qed.

Lemma ty_eqb_never_inv a : ty_eqb TNever a = true -> a = TNever.
Proof. rewrite ty_eqb_unfold. destruct a; try discriminate; reflexivity. Qed.

Lemma ty_eqb_any_inv a : ty_eqb TAny a = true -> a = TAny.
Proof. rewrite ty_eqb_unfold. destruct a; try discriminate; reflexivity. Qed.

Lemma wf_members x r : wf_ty r = true -> In x (members r) -> wf_ty x = true.
Proof.
  intros W H. destruct (is_multi r) eqn:M.
  - destruct r; try discriminate M. cbn [members] in H.
    apply wf_multi_inv in W. destruct W as [_ [_ [W _]]]. apply W. exact H.
  - assert (Mem : members r = [r]) by (destruct r; try discriminate M; reflexivity).
    rewrite Mem in H. destruct H as [<-|[]]. exact W.
Qed.

Theorem concat_eqb_compat a a' b b' :
  wf_ty a = true -> wf_ty a' = true -> wf_ty b = true -> wf_ty b' = true ->
  ty_eqb a a' = true -> ty_eqb b b' = true ->
  ty_eqb (concat a b) (concat a' b') = true.
Proof.
  intros Wa Wa' Wb Wb' Ea Eb.
  pose proof (ty_eqb_na a a' Ea) as Na. pose proof (ty_eqb_na b b' Eb) as Nb.
  destruct (na a) eqn:Naa.
  2: { apply na_false_inv in Naa. destruct Naa as [-> | ->].
       - apply ty_eqb_never_inv in Ea. subst a'. exact Eb.
       - apply ty_eqb_any_inv in Ea. subst a'.
         destruct (na b) eqn:Nbb.
         + assert (C1 : concat TAny b = TAny) by (destruct b; try discriminate Nbb; reflexivity).
           assert (C2 : concat TAny b' = TAny)
             by (symmetry in Nb; destruct b'; try discriminate Nb; reflexivity).
           rewrite C1, C2. reflexivity.
         + apply na_false_inv in Nbb. destruct Nbb as [-> | ->].
           * apply ty_eqb_never_inv in Eb. subst b'. reflexivity.
           * apply ty_eqb_any_inv in Eb. subst b'. reflexivity. }
  destruct (na b) eqn:Nbb.
  2: { apply na_false_inv in Nbb. destruct Nbb as [-> | ->].
       - apply ty_eqb_never_inv in Eb. subst b'.
         assert (C1 : concat a TNever = a) by (destruct a; reflexivity).
         assert (C2 : concat a' TNever = a') by (destruct a'; reflexivity).
         rewrite C1, C2. exact Ea.
       - apply ty_eqb_any_inv in Eb. subst b'.
         assert (C1 : concat a TAny = TAny) by (destruct a; try discriminate Naa; reflexivity).
         assert (C2 : concat a' TAny = TAny)
           by (symmetry in Na; destruct a'; try discriminate Na; reflexivity).
         rewrite C1, C2. reflexivity. }
  symmetry in Na, Nb.
  assert (Hsub : forall a0 b0 a1 b1,
            wf_ty a0 = true -> wf_ty b0 = true -> na a0 = true -> na b0 = true ->
            na a1 = true -> na b1 = true ->
            ty_eqb a0 a1 = true -> ty_eqb b0 b1 = true ->
            forall x, In x (members (concat a0 b0)) -> mem_ty x (members (concat a1 b1)) = true).
  { intros a0 b0 a1 b1 W0 W0' N0 N0' N1 N1' E0 E0' x Hx.
    assert (Wx : wf_ty x = true) by (apply (wf_members x (concat a0 b0)); [apply concat_wf; assumption|exact Hx]).
    assert (Hm : mem_ty x (members (concat a0 b0)) = true)
      by (apply (mem_ty_intro x x _ Hx); apply ty_eqb_refl; exact Wx).
    rewrite concat_members in Hm by assumption.
    rewrite concat_members by assumption.
    rewrite <- (ty_eqb_members a0 a1 x E0), <- (ty_eqb_members b0 b1 x E0'). exact Hm. }
  apply ty_eqb_of_members.
  - apply concat_wf; assumption.
  - apply concat_wf; assumption.
  - apply Hsub; assumption.
  - apply Hsub; try assumption; rewrite ty_eqb_sym; assumption.
Qed.

(* ---------- commutativity and associativity of concat up to `==` ---------- *)
Lemma concat_never_l b : concat TNever b = b.
Proof. reflexivity. Qed.
Lemma concat_never_r a : concat a TNever = a.
Proof. destruct a; reflexivity. Qed.
Lemma concat_any_l b : concat TAny b = TAny.
Proof. destruct b; reflexivity. Qed.
Lemma concat_any_r a : concat a TAny = TAny.
Proof. destruct a; reflexivity. Qed.

Lemma concat_na a b : na a = true -> na b = true -> na (concat a b) = true.
Proof.
  intros Na Nb.
  destruct (concat_view a b) as [Ha|Hb|Hab|He|m1 m2 Ha Hb|m1 Ha Sb|m2 Sa Hb|Sa Sb He];
    try assumption; try reflexivity.
  - destruct Hab as [-> | ->]; [discriminate Na|discriminate Nb].
  - destruct (mem_ty b m1); reflexivity.
  - destruct (mem_ty a m2); reflexivity.
Qed.

Lemma members_mem_refl x r : wf_ty r = true -> In x (members r) -> mem_ty x (members r) = true.
Proof.
  intros W H. apply (mem_ty_intro x x _ H). apply ty_eqb_refl. apply (wf_members x r W H).
Qed.

Theorem concat_comm_eqb a b :
  wf_ty a = true -> wf_ty b = true -> ty_eqb (concat a b) (concat b a) = true.
Proof.
  intros Wa Wb.
  destruct (na a) eqn:Na.
  2: { apply na_false_inv in Na. destruct Na as [-> | ->].
       - rewrite concat_never_l, concat_never_r. apply ty_eqb_refl. exact Wb.
       - rewrite concat_any_l. destruct b; reflexivity. }
  destruct (na b) eqn:Nb.
  2: { apply na_false_inv in Nb. destruct Nb as [-> | ->].
       - rewrite concat_never_l, concat_never_r. apply ty_eqb_refl. exact Wa.
       - rewrite concat_any_l. destruct a; reflexivity. }
  apply ty_eqb_of_members; try (apply concat_wf; assumption).
  - intros x Hx. apply members_mem_refl in Hx; [|apply concat_wf; assumption].
    rewrite concat_members in * by assumption. rewrite orb_comm. exact Hx.
  - intros x Hx. apply members_mem_refl in Hx; [|apply concat_wf; assumption].
    rewrite concat_members in * by assumption. rewrite orb_comm. exact Hx.
Qed.

Theorem concat_assoc_eqb a b c :
  wf_ty a = true -> wf_ty b = true -> wf_ty c = true ->
  ty_eqb (concat (concat a b) c) (concat a (concat b c)) = true.
Proof.
  intros Wa Wb Wc.
  destruct (na a) eqn:Na.
  2: { apply na_false_inv in Na. destruct Na as [-> | ->].
       - rewrite !concat_never_l. apply ty_eqb_refl. apply concat_wf; assumption.
       - rewrite !concat_any_l. reflexivity. }
  destruct (na b) eqn:Nb.
  2: { apply na_false_inv in Nb. destruct Nb as [-> | ->].
       - rewrite concat_never_l, concat_never_r. apply ty_eqb_refl. apply concat_wf; assumption.
       - rewrite !concat_any_r, !concat_any_l, concat_any_r. reflexivity. }
  destruct (na c) eqn:Nc.
  2: { apply na_false_inv in Nc. destruct Nc as [-> | ->].
       - rewrite !concat_never_r. apply ty_eqb_refl. apply concat_wf; assumption.
       - rewrite !concat_any_r. reflexivity. }
  pose proof (concat_wf a b Wa Wb) as Wab. pose proof (concat_wf b c Wb Wc) as Wbc.
  pose proof (concat_na a b Na Nb) as Nab. pose proof (concat_na b c Nb Nc) as Nbc.
  apply ty_eqb_of_members; try (apply concat_wf; assumption).
  - intros x Hx. apply members_mem_refl in Hx; [|apply concat_wf; assumption].
    rewrite !concat_members in * by assumption. rewrite orb_assoc. exact Hx.
  - intros x Hx. apply members_mem_refl in Hx; [|apply concat_wf; assumption].
    rewrite !concat_members in * by assumption. rewrite <- orb_assoc. exact Hx.
Qed.

(* RecrBack2.v — the converse direction of preservation, part 2: statements, lines,
   closure creation, the induction, and the theorems.  See RecrBack1. *)
From SSL.Model Require Import Base Ty Float Value Ops Seq Syntax Rt Recreate Exec Check Top.
From SSL.Lemmas Require Import ExecLemmas FoldLemmas RecrUnfold RecrMono RecrDefs RecrKeeps RecrSim1 RecrSim2
  RecrMain RecrTop RecrSyn RecrComp1 RecrComp2 RecrClos RecrBack1.

Arguments matches : simpl never.
Local Open Scope Z_scope.

Section Back.
Variable powf : fbits -> fbits -> fbits.
Variable pre : prelude.
Variable cl : bool.
Notation E := (exec powf pre).
Notation RC f := (recreate powf f []).
Notation bsimE := (bsimE powf pre).
Notation bexpr := (bexpr powf pre cl).

(* the forward theorem for lines: the scopes a line leaves agree with the environment *)
Hypothesis HP : forall f, rline powf pre cl f.

Definition bline (f : nat) : Prop := forall e i i' e',
  RC f e i = Ok (i', e') -> wfi cl true i = true -> dok i' = true -> bsimE f e i i'.

Ltac pos_fuel n := destruct n as [|n]; [apply bres_E0|].

(* ---- lines of a block ---- *)
Lemma blines f (IH : bline f) : forall l e l' e',
  rec_list_def (RC f) l e = Ok (l', e') ->
  forallb (wfi cl true) l = true -> forallb dok l' = true ->
  forall sc, agree e sc -> forall n m st, (n + f <= m)%nat ->
    bresl (ex_list_def (E n) l' st sc) (ex_list_def (E m) l st sc).
Proof.
  induction l as [|x l IHl]; intros e l' e' H W D sc Ha n m st Hm.
  - injection H as <- <-. apply bresl_refl.
  - cbn [rec_list_def] in H. fold (rec_list_def (RC f)) in H.
    inv_bind H p Hp. destruct p as [x' e1]. inv_bind H q Hq. destruct q as [l1 e2].
    injection H as <- <-.
    cbn [forallb] in W, D. apply andb_true_iff in W. apply andb_true_iff in D.
    destruct W as [Wx Wl]. destruct D as [Dx Dl].
    destruct (HP f _ _ _ _ Hp Wx Dx) as [_ Px].
    rewrite !ex_list_cons.
    pose proof (IH _ _ _ _ Hp Wx Dx sc Ha n m st Hm) as B. specialize (Px sc Ha m st).
    destruct (E n st sc x') as [[st1 sc1] s1].
    destruct (fuel_dec s1) as [->|NF]; [intros C; exfalso; apply C; reflexivity|].
    destruct (B NF) as [B1|B1]; clear B.
    + destruct (E m st sc x) as [[st2 sc2] s2]. cbn [sig snd] in B1. subst s2. intros _. left. reflexivity.
    + rewrite B1 in Px |- *. destruct s1; try apply bresl_refl.
      specialize (IHl _ _ _ Hq Wl Dl sc1 (Px _ _ _ eq_refl) n m st1 Hm).
      destruct (ex_list_def (E n) l1 st1 sc1) as [[[st2 sc2] o2] s2].
      intros Hf. assert (Hf2 : lsig (st2, sc2, o2, s2) <> SFuel) by (destruct o2; exact Hf).
      destruct (IHl Hf2) as [P|P].
      * left. destruct (ex_list_def (E m) l st1 sc1) as [[[st3 sc3] o3] s3]. cbn [lsig snd] in P. subst s3.
        destruct o3; reflexivity.
      * right. rewrite P. reflexivity.
Qed.

Lemma bc_block f (IH : bline f) e body i' e' :
  RC (S f) e (IBlock body) = Ok (i', e') -> forallb (wfi cl true) body = true -> dok i' = true ->
  bsimE (S f) e (IBlock body) i'.
Proof.
  intros H W D. rewrite recreate_S_IBlock in H. inv_bind H p Hp. destruct p as [body' e1].
  injection H as <- <-. cbn [dok] in D.
  intros sc Ha n m st Hm. pos_fuel n. destruct m as [|m]; [lia|]. rewrite !exec_S_IBlock.
  pose proof (blines f IH _ _ _ _ Hp W D ([] :: sc) (agree_push _ _ Ha) n m st ltac:(lia)) as B.
  pose proof (ex_list_shape (E n) body' st ([] :: sc)) as Sh.
  pose proof (ex_list_shape (E m) body st ([] :: sc)) as Sh'.
  destruct (ex_list_def (E n) body' st ([] :: sc)) as [[[st2 sc2] o2] s2].
  destruct (Sh _ _ _ _ eq_refl) as [[vs [-> [-> _]]]|[-> Hn]].
  - destruct (B ltac:(discriminate)) as [P|P].
    + destruct (ex_list_def (E m) body st ([] :: sc)) as [[[st3 sc3] o3] s3]. cbn [lsig snd] in P. subst s3.
      destruct (Sh' _ _ _ _ eq_refl) as [[ws [_ [C _]]]|[-> _]]; [discriminate C|]. apply bres_panic.
    + rewrite P. apply bres_refl.
  - intros Hf. destruct (B Hf) as [P|P].
    + destruct (ex_list_def (E m) body st ([] :: sc)) as [[[st3 sc3] o3] s3]. cbn [lsig snd] in P. subst s3.
      destruct (Sh' _ _ _ _ eq_refl) as [[ws [_ [C _]]]|[-> _]]; [discriminate C|]. left. reflexivity.
    + rewrite P. right. reflexivity.
Qed.

(* ---- if ---- *)
Lemma bc_if f (IH : bexpr f) e c t fl i' e' :
  RC (S f) e (IIfElse c t fl) = Ok (i', e') ->
  wfi cl false c = true -> wfi cl false t = true -> wfi cl false fl = true -> dok i' = true ->
  bsimE (S f) e (IIfElse c t fl) i'.
Proof.
  intros H Wc Wt Wf D. rewrite recreate_S_IIfElse in H. inv_bind H p Hp. destruct p as [c' e1].
  pose proof (same1 powf cl _ _ _ _ _ Hp Wc) as ->.
  assert (Hc : (exists b, c' = IVar (VBool b)) \/ (forall b, c' <> IVar (VBool b))).
  { destruct c' as [ | | | | | | | | | | | | | | | | | | | | | |v| | ]; try (right; intros ?; discriminate).
    destruct v as [b| | | | | | | | |]; try (right; intros ?; discriminate). left; eauto. }
  destruct Hc as [[b ->]|Hc].
  - pose proof (IH _ _ _ _ Hp Wc eq_refl) as Sc.
    destruct b.
    + pose proof (IH _ _ _ _ H Wt D) as St.
      intros sc Ha n m st Hm. pos_fuel n. destruct m as [|m]; [lia|]. rewrite exec_S_IIfElse.
      apply (with_val_const_b powf pre f e c _ sc 1 m st _ _ Sc Ha); [lia|lia|].
      apply St; [exact Ha|lia].
    + pose proof (IH _ _ _ _ H Wf D) as Sf.
      intros sc Ha n m st Hm. pos_fuel n. destruct m as [|m]; [lia|]. rewrite exec_S_IIfElse.
      apply (with_val_const_b powf pre f e c _ sc 1 m st _ _ Sc Ha); [lia|lia|].
      apply Sf; [exact Ha|lia].
  - assert (H' : obind (RC f e t) (fun '(t', e) => obind (RC f e fl) (fun '(f', e) =>
                   Ok (IIfElse c' t' f', e))) = Ok (i', e')).
    { destruct c'; try exact H. destruct v as [b| | | | | | | | |]; try exact H.
      exfalso. exact (Hc b eq_refl). }
    clear H. inv_bind H' q Hq. destruct q as [t' e2]. inv_bind H' r Hr. destruct r as [f' e3].
    injection H' as <- <-. pose proof (same1 powf cl _ _ _ _ _ Hq Wt) as ->.
    cbn [dok] in D. repeat rewrite andb_true_iff in D. destruct D as [[Dc Dt] Df].
    pose proof (IH _ _ _ _ Hp Wc Dc) as Sc. pose proof (IH _ _ _ _ Hq Wt Dt) as St.
    pose proof (IH _ _ _ _ Hr Wf Df) as Sf.
    intros sc Ha n m st Hm. pos_fuel n. destruct m as [|m]; [lia|]. rewrite !exec_S_IIfElse.
    apply with_val_b; [apply (keepsE powf pre cl); exact Wc|intros st0; apply Sc; [exact Ha|lia]|].
    intros st1 v. destruct v as [b| | | | | | | | |]; try apply bres_refl.
    destruct b; [apply St|apply Sf]; first [exact Ha|lia].
Qed.

(* ---- if-set ---- *)
Lemma bc_setif f (IH : bexpr f) e nm t x ifm els i' e' :
  RC (S f) e (ISetIfElse nm t x ifm els) = Ok (i', e') ->
  wfi cl false x = true -> wfi cl false ifm = true -> wfi cl false els = true -> dok i' = true ->
  bsimE (S f) e (ISetIfElse nm t x ifm els) i'.
Proof.
  intros H Wx Wa Wb D. rewrite recreate_S_ISetIfElse in H.
  inv_bind H p Hp. destruct p as [x' e1]. inv_bind H q Hq. destruct q as [ifm' e2].
  inv_bind H r Hr. destruct r as [els' e3]. injection H as <- <-.
  pose proof (same1 powf cl _ _ _ _ _ Hp Wx) as ->.
  cbn [dok] in D. repeat rewrite andb_true_iff in D. destruct D as [[Dx Da] Db].
  pose proof (IH _ _ _ _ Hp Wx Dx) as Sx. pose proof (IH _ _ _ _ Hq Wa Da) as Sa.
  pose proof (IH _ _ _ _ Hr Wb Db) as Sb.
  intros sc Ha n m st Hm. pos_fuel n. destruct m as [|m]; [lia|]. rewrite !exec_S_ISetIfElse.
  apply with_val_b; [apply (keepsE powf pre cl); exact Wx|intros st0; apply Sx; [exact Ha|lia]|].
  intros st1 v. destruct (matches (as_type v) t).
  - specialize (Sa ([(nm, v)] :: sc) (agree_bind_layer e sc nm t v Ha) n m st1 ltac:(lia)).
    destruct (E n st1 ([(nm, v)] :: sc) ifm') as [[st2 sc2] s2].
    intros Hf. destruct (Sa Hf) as [P|P].
    + destruct (E m st1 ([(nm, v)] :: sc) ifm) as [[st3 sc3] s3]. cbn [sig snd] in P. subst s3. left. reflexivity.
    + rewrite P. right. reflexivity.
  - apply Sb; [exact Ha|lia].
Qed.

(* ---- match ---- *)
Definition armB (f : nat) (e : lenv) (a a' : arm) : Prop :=
  match a, a' with
  | ArmType n t b, ArmType n' t' b' =>
      n' = n /\ t' = t /\ bsimE f (lenv_insert n (LOther t) (lenv_push e)) b b'
  | ArmValue cs b, ArmValue cs' b' => Forall2 (bsimE f e) cs cs' /\ bsimE f e b b'
  | ArmOther b, ArmOther b' => bsimE f e b b'
  | _, _ => False
  end.

Lemma armB_at f e sc n m a a' : agree e sc -> (n + f <= m)%nat ->
  armB f e a a' -> arm_bsim (E n) (E m) sc a a'.
Proof.
  intros Ha Hm. destruct a as [nm t b|cs b|b], a' as [nm' t' b'|cs' b'|b']; cbn [armB arm_bsim]; try tauto.
  - intros [-> [-> S]]. split; [reflexivity|]. split; [reflexivity|].
    intros v st. apply S; [apply agree_bind_layer; exact Ha|exact Hm].
  - intros [Scs Sb]. split; [apply (Forall2_b_at powf pre f e); assumption|intros st; apply Sb; assumption].
  - intros S st. apply S; assumption.
Qed.

Lemma barm f (IH : bexpr f) a e a' e' :
  rec_arm_def (RC f) a e = Ok (a', e') -> wf_arm cl a = true -> dok_arm a' = true ->
  e' = e /\ armB f e a a'.
Proof.
  destruct a as [nm t b|cs b|b]; cbn [rec_arm_def wf_arm]; intros H W D.
  - inv_bind H p Hp. destruct p as [b' e1]. injection H as <- <-. cbn [dok_arm] in D.
    split; [reflexivity|]. cbn [armB]. split; [reflexivity|]. split; [reflexivity|].
    apply (IH _ _ _ _ Hp W D).
  - inv_bind H p Hp. destruct p as [cs' e1]. inv_bind H q Hq. destruct q as [b' e2].
    injection H as <- <-. cbn [dok_arm] in D.
    apply andb_true_iff in W. apply andb_true_iff in D. destruct W as [Wc Wb]. destruct D as [Dc Db].
    pose proof (same_env_list powf [] cl f (rec_same_env powf [] cl f) _ _ _ _ Hp Wc) as ->.
    split; [apply (same1 powf cl _ _ _ _ _ Hq Wb)|]. cbn [armB].
    split; [apply (bexprs powf pre cl f IH _ _ _ _ Hp Wc Dc)|apply (IH _ _ _ _ Hq Wb Db)].
  - inv_bind H p Hp. destruct p as [b' e1]. injection H as <- <-. cbn [dok_arm] in D.
    split; [apply (same1 powf cl _ _ _ _ _ Hp W)|]. pose proof (same1 powf cl _ _ _ _ _ Hp W) as ->.
    apply (IH _ _ _ _ Hp W D).
Qed.

Lemma barms f (IH : bexpr f) : forall arms e arms' e',
  rec_arms_def (RC f) arms e = Ok (arms', e') ->
  forallb (wf_arm cl) arms = true -> forallb dok_arm arms' = true ->
  Forall2 (armB f e) arms arms'.
Proof.
  induction arms as [|a arms IHl]; intros e arms' e' H W D.
  - injection H as <- <-. constructor.
  - cbn [rec_arms_def] in H. fold (rec_arms_def (RC f)) in H.
    inv_bind H p Hp. destruct p as [a' e1]. inv_bind H q Hq. destruct q as [l1 e2].
    injection H as <- <-.
    cbn [forallb] in W, D. apply andb_true_iff in W. apply andb_true_iff in D.
    destruct W as [Wa Wl]. destruct D as [Da Dl].
    destruct (barm f IH _ _ _ _ Hp Wa Da) as [-> Sa].
    constructor; [exact Sa|apply (IHl _ _ _ Hq Wl Dl)].
Qed.

Lemma bc_match f (IH : bexpr f) e x arms i' e' :
  RC (S f) e (IMatch x arms) = Ok (i', e') ->
  wfi cl false x = true -> forallb (wf_arm cl) arms = true -> dok i' = true ->
  bsimE (S f) e (IMatch x arms) i'.
Proof.
  intros H Wx Wa D. rewrite recreate_S_IMatch in H.
  inv_bind H p Hp. destruct p as [x' e1]. inv_bind H q Hq. destruct q as [arms' e2].
  injection H as <- <-. pose proof (same1 powf cl _ _ _ _ _ Hp Wx) as ->.
  cbn [dok] in D. fold dok_arm in D. apply andb_true_iff in D. destruct D as [Dx Da].
  pose proof (IH _ _ _ _ Hp Wx Dx) as Sx. pose proof (barms f IH _ _ _ _ Hq Wa Da) as Sa.
  intros sc Ha n m st Hm. pos_fuel n. destruct m as [|m]; [lia|]. rewrite !exec_S_IMatch.
  apply with_val_b; [apply (keepsE powf pre cl); exact Wx|intros st0; apply Sx; [exact Ha|lia]|].
  intros st1 v. apply match_arms_b.
  - revert Wa. apply forallb_Forall. intros a. apply (arm_keepsE powf pre cl).
  - clear -Sa Ha Hm. induction Sa as [|a a' l l' Haa _ IHF]; [constructor|].
    constructor; [apply (armB_at f e); [exact Ha|lia|exact Haa]|exact IHF].
Qed.

(* ---- loop ---- *)
Lemma bc_loop f (IH : bexpr f) e b i' e' :
  RC (S f) e (ILoop b) = Ok (i', e') -> wfi cl false b = true -> dok i' = true ->
  bsimE (S f) e (ILoop b) i'.
Proof.
  intros H Wb D. rewrite recreate_S_ILoop in H. inv_bind H p Hp. destruct p as [b' e1].
  injection H as <- <-. cbn [dok] in D. pose proof (IH _ _ _ _ Hp Wb D) as Sb.
  intros sc Ha n m st Hm. pos_fuel n. destruct m as [|m]; [lia|]. rewrite !exec_S_ILoop.
  apply loop_b; [apply (keepsE powf pre cl); exact Wb|intros st0; apply Sb; [exact Ha|lia]|lia].
Qed.

(* ---- closure creation: the same closure on both sides ---- *)
Lemma bc_anonfn f e ps body ret i' e' :
  RC (S f) e (IAnonFn ps body ret) = Ok (i', e') ->
  cl = true -> forallb (wfi cl true) body = true -> dok i' = true ->
  bsimE (S f) e (IAnonFn ps body ret) i'.
Proof.
  intros H -> W D. rewrite recreate_S_IAnonFn in H.
  inv_bind H p Hp. destruct p as [body1 e1]. injection H as <- <-. cbn [dok] in D.
  intros sc Ha n m st Hm. pos_fuel n. destruct m as [|m]; [lia|]. rewrite !exec_S_IAnonFn.
  rewrite (body_same powf sc _ [mkLayer (params_layer ps) None false] f body body1 e1 Hp W D
             (Rel_anon sc e ps ret Ha)).
  apply bres_refl.
Qed.

Lemma bl_fndecl f e nm ps body ret i' e' :
  RC (S f) e (IFnDecl nm ps body ret) = Ok (i', e') ->
  cl = true -> forallb (wfi cl true) body = true -> dok i' = true ->
  bsimE (S f) e (IFnDecl nm ps body ret) i'.
Proof.
  intros H -> W D. rewrite recreate_S_IFnDecl in H.
  inv_bind H p Hp. destruct p as [body1 e1]. injection H as <- <-. cbn [dok] in D.
  intros sc Ha n m st Hm. pos_fuel n. destruct m as [|m]; [lia|]. rewrite !exec_S_IFnDecl.
  rewrite (body_same powf sc _ [layer_insert nm (LFunction ps ret) (mkLayer (params_layer ps) None false)]
             f body body1 e1 Hp W D (Rel_named sc e nm ps ret Ha)).
  apply bres_refl.
Qed.

(* ---- lines ---- *)
Lemma bl_set f (IH : bexpr f) e nm x i' e' :
  RC (S f) e (ISet nm x) = Ok (i', e') -> wfi cl false x = true -> dok i' = true ->
  bsimE (S f) e (ISet nm x) i'.
Proof.
  intros H Wx D. rewrite recreate_S_ISet in H. inv_bind H p Hp. destruct p as [x' e1].
  inv_bind H lv Hlv. injection H as <- <-. cbn [dok] in D.
  apply (wrap_b powf pre cl (fun y => ISet nm y)); [|exact Wx|apply (IH _ _ _ _ Hp Wx D)].
  eexists. intros; apply exec_S_ISet.
Qed.

Lemma bl_destruct f (IH : bexpr f) e ids x i' e' :
  RC (S f) e (IDestruct ids x) = Ok (i', e') -> wfi cl false x = true -> dok i' = true ->
  bsimE (S f) e (IDestruct ids x) i'.
Proof.
  intros H Wx D. rewrite recreate_S_IDestruct in H. inv_bind H p Hp. destruct p as [x' e1].
  inv_bind H e2 He2. injection H as <- <-. cbn [dok] in D.
  apply andb_true_iff in D. destruct D as [_ D].
  apply (wrap_b powf pre cl (fun y => IDestruct ids y)); [|exact Wx|apply (IH _ _ _ _ Hp Wx D)].
  eexists. intros; apply exec_S_IDestruct.
Qed.

(* ---- the induction ---- *)
Lemma bexpr_O : bexpr 0.
Proof. intros e i i' e' H. rewrite recreate_O in H. discriminate H. Qed.
Lemma bline_O : bline 0.
Proof. intros e i i' e' H. rewrite recreate_O in H. discriminate H. Qed.

Lemma bexpr_S f : bexpr f -> bline f -> bexpr (S f).
Proof.
  intros IH IHl e i i' e' H W D.
  destruct i; cbn [wfi] in W; repeat rewrite andb_true_iff in W.
  - destruct W as [Wc Wb]. apply (bc_anonfn f _ _ _ _ _ _ H Wc Wb D).
  - apply (bc_array powf pre cl f IH _ _ _ _ _ H W D).
  - destruct W as [Wa Wb]. apply (bc_repeat powf pre cl f IH _ _ _ _ _ H Wa Wb D).
  - apply (bc_block f IHl _ _ _ _ H W D).
  - rewrite recreate_S_IBreak in H. injection H as <- <-. apply bc_atom. reflexivity.
  - rewrite recreate_S_IContinue in H. injection H as <- <-. apply bc_atom. reflexivity.
  - destruct W as [C _]. discriminate C.
  - rewrite recreate_S_IFieldAccess in H.
    refine (bc_wrap powf pre cl (fun y => IFieldAccess y f0) _ f IH e i i' e' H W _ D).
    + eexists. intros; apply exec_S_IFieldAccess.
    + intros x' -> D'. exact D'.
  - destruct W as [[C _] _]. discriminate C.
  - destruct W as [[Wc Wt] Wf]. apply (bc_if f IH _ _ _ _ _ _ H Wc Wt Wf D).
  - apply (bc_local powf pre f _ _ _ _ _ H).
  - apply (bc_loop f IH _ _ _ _ H W D).
  - destruct W as [Wx Wa]. apply (bc_match f IH _ _ _ _ _ H Wx Wa D).
  - rewrite recreate_S_IMut in H.
    refine (bc_wrap powf pre cl (fun y => IMut t y) _ f IH e i i' e' H W _ D).
    + eexists. intros; apply exec_S_IMut.
    + intros x' -> D'. exact D'.
  - destruct W as [[Wa Wb] Wc]. apply (bc_reduce powf pre cl f IH _ _ _ _ _ _ H Wa Wb Wc D).
  - destruct W as [C _]. discriminate C.
  - destruct W as [[Wx Wa] Wb]. apply (bc_setif f IH _ _ _ _ _ _ _ _ H Wx Wa Wb D).
  - destruct W as [[[Wl Wa] Wb] Wc]. apply (bc_slicing powf pre cl f IH _ _ _ _ _ _ _ H Wl Wa Wb Wc D).
  - apply (bc_struct powf pre cl f IH _ _ _ _ H W D).
  - apply (bc_tuple powf pre cl f IH _ _ _ _ H W D).
  - rewrite recreate_S_ITupleAccess in H.
    refine (bc_wrap powf pre cl (fun y => ITupleAccess y k) _ f IH e i i' e' H W _ D).
    + eexists. intros; apply exec_S_ITupleAccess.
    + intros x' -> D'. exact D'.
  - rewrite recreate_S_ITypeFilter in H.
    refine (bc_wrap powf pre cl (fun y => ITypeFilter y t) _ f IH e i i' e' H W _ D).
    + eexists. intros; apply exec_S_ITypeFilter.
    + intros x' -> D'. exact D'.
  - rewrite recreate_S_IVar in H. injection H as <- <-. apply bc_atom. reflexivity.
  - destruct W as [Wa Wb].
    destruct (binop_eq_dec op And) as [->|NA]; [apply (bc_and powf pre cl f IH _ _ _ _ _ H Wa Wb D)|].
    destruct (binop_eq_dec op Or) as [->|NO]; [apply (bc_or powf pre cl f IH _ _ _ _ _ H Wa Wb D)|].
    apply (bc_bin powf pre cl f IH _ _ _ _ _ _ NA NO H Wa Wb D).
  - destruct W as [Wo Wx]. apply (bc_un powf pre cl f IH _ _ _ _ _ H Wo Wx D).
Qed.

Lemma bline_S f : bexpr f -> bline f -> bline (S f).
Proof.
  intros IH IHl e i i' e' H W D.
  pose proof (bexpr_S f IH IHl) as IHS.
  destruct i; try (apply (IHS _ _ _ _ H W D)).
  - cbn [wfi andb] in W. apply (bl_destruct f IH _ _ _ _ _ H W D).
  - cbn [wfi andb] in W. apply andb_true_iff in W. destruct W as [Wc Wb].
    apply (bl_fndecl f _ _ _ _ _ _ _ H Wc Wb D).
  - cbn [wfi andb] in W. apply (bl_set f IH _ _ _ _ _ H W D).
Qed.

Theorem ball : forall f, bexpr f /\ bline f.
Proof.
  induction f as [|f [IH IHl]]; [split; [apply bexpr_O|apply bline_O]|].
  split; [apply bexpr_S|apply bline_S]; assumption.
Qed.

(* ---- the theorems ---- *)
Theorem back_expr f e i i' e' :
  RC f e i = Ok (i', e') -> wfi cl false i = true -> dok i' = true ->
  forall sc, agree e sc -> forall n m st, (n + f <= m)%nat ->
    sig (E n st sc i') <> SFuel -> sig (E m st sc i) = SPanic \/ E m st sc i = E n st sc i'.
Proof. intros H W D sc Ha n m st Hm. apply (proj1 (ball f) _ _ _ _ H W D sc Ha n m st Hm). Qed.

Theorem back_line f e i i' e' :
  RC f e i = Ok (i', e') -> wfi cl true i = true -> dok i' = true ->
  forall sc, agree e sc -> forall n m st, (n + f <= m)%nat ->
    sig (E n st sc i') <> SFuel -> sig (E m st sc i) = SPanic \/ E m st sc i = E n st sc i'.
Proof. intros H W D sc Ha n m st Hm. apply (proj2 (ball f) _ _ _ _ H W D sc Ha n m st Hm). Qed.

Theorem back_code f : forall l e l' e',
  rec_list_def (RC f) l e = Ok (l', e') ->
  forallb (wfi cl true) l = true -> forallb dok l' = true ->
  forall sc, agree e sc -> forall n m st last, (n + f <= m)%nat ->
    sig (run_code powf pre n st sc l' last) <> SFuel ->
    sig (run_code powf pre m st sc l last) = SPanic \/
    run_code powf pre m st sc l last = run_code powf pre n st sc l' last.
Proof.
  induction l as [|x l IHl]; intros e l' e' H W D sc Ha n m st last Hm.
  - injection H as <- <-. intros _. right. reflexivity.
  - cbn [rec_list_def] in H. fold (rec_list_def (RC f)) in H.
    inv_bind H p Hp. destruct p as [x' e1]. inv_bind H q Hq. destruct q as [l1 e2].
    injection H as <- <-.
    cbn [forallb] in W, D. apply andb_true_iff in W. apply andb_true_iff in D.
    destruct W as [Wx Wl]. destruct D as [Dx Dl].
    destruct (HP f _ _ _ _ Hp Wx Dx) as [_ Px]. specialize (Px sc Ha m st).
    pose proof (back_line f _ _ _ _ Hp Wx Dx sc Ha n m st Hm) as B.
    cbn [run_code]. destruct (E n st sc x') as [[st1 sc1] s1].
    destruct (fuel_dec s1) as [->|NF]; [intros C; exfalso; apply C; reflexivity|].
    destruct (B NF) as [B1|B1]; clear B.
    + destruct (E m st sc x) as [[st2 sc2] s2]. cbn [sig snd] in B1. subst s2. intros _. left. reflexivity.
    + rewrite B1 in Px |- *. destruct s1; try (intros _; right; reflexivity).
      apply (IHl _ _ _ Hq Wl Dl sc1 (Px _ _ _ eq_refl) n m st1 v Hm).
Qed.

End Back.

(* ---- instances ---- *)
Section Instances.
Variable powf : fbits -> fbits -> fbits.
Variable pre : prelude.

Lemma rline0 f : rline powf pre false f.
Proof. apply (rall powf pre false (no_anonfn powf pre) (no_fndecl powf pre) f). Qed.
Lemma rline1 f : rline powf pre true f.
Proof. apply (rall powf pre true (anonfn_true powf pre) (fndecl_true powf pre) f). Qed.

Definition back_expr0 := back_expr powf pre false rline0.
Definition back_line0 := back_line powf pre false rline0.
Definition back_code0 := back_code powf pre false rline0.
Definition back_expr1 := back_expr powf pre true rline1.
Definition back_line1 := back_line powf pre true rline1.
Definition back_code1 := back_code powf pre true rline1.

End Instances.

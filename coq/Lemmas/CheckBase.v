(* CheckBase.v — the vocabulary of the totality proof of the checker:
   [good b P o]  : the outcome o is not a Panic, is OutOfFuel only if the fuel
                   bound b fails, and satisfies P if it is a result;
   [rt_ok i]     : the static type of i is computable and well-formed;
   plus what the environments, the type queries and [rt] need for it. *)
From SSL.Model Require Import Base Ty Float Value Ops Seq Syntax Rt Recreate Check.
From SSL.Lemmas Require Import TyLemmas SoundLemmas CheckUnfold.
From SSL.Lemmas Require TyFuel TyEq TyMatches TyJoin TyQuery.
Import TyFuel TyEq TyMatches TyJoin TyQuery.

(* ================================================================= *)
(* 1. outcomes                                                         *)
(* ================================================================= *)
Definition good {A} (b : Prop) (P : A -> Prop) (o : outcome A) : Prop :=
  match o with Ok a => P a | Err _ => True | Panic => False | OutOfFuel => ~ b end.

Lemma good_bind {A B} (b : Prop) (P : A -> Prop) (Q : B -> Prop) o (f : A -> outcome B) :
  good b P o -> (forall a, o = Ok a -> P a -> good b Q (f a)) -> good b Q (obind o f).
Proof. destruct o; cbn; auto. Qed.

Lemma good_weaken {A} (b b' : Prop) (P : A -> Prop) o : (b -> b') -> good b' P o -> good b P o.
Proof. destruct o; cbn; auto. Qed.

Lemma good_mono {A} (b : Prop) (P Q : A -> Prop) o :
  (forall a, o = Ok a -> P a -> Q a) -> good b P o -> good b Q o.
Proof. destruct o; cbn; auto. Qed.

Lemma good_ok {A} (b : Prop) (P : A -> Prop) a : P a -> good b P (Ok a).
Proof. exact (fun H => H). Qed.

Lemma good_reject {A} (b : Prop) (P : A -> Prop) : good b P (@reject A).
Proof. exact I. Qed.

Lemma good_ok_inv {A} (b : Prop) (P : A -> Prop) o a : good b P o -> o = Ok a -> P a.
Proof. intros H ->. exact H. Qed.

Lemma good_not_panic {A} (b : Prop) (P : A -> Prop) o : good b P o -> o <> Panic.
Proof. intros H ->. exact H. Qed.

Lemma good_not_fuel {A} (b : Prop) (P : A -> Prop) o : good b P o -> b -> o <> OutOfFuel.
Proof. intros H Hb ->. exact (H Hb). Qed.

Lemma obind_ok {A B} (o : outcome A) (f : A -> outcome B) b :
  obind o f = Ok b -> exists a, o = Ok a /\ f a = Ok b.
Proof. destruct o; cbn; try discriminate. eauto. Qed.

Lemma obind_panic {A B} (o : outcome A) (f : A -> outcome B) :
  obind o f = Panic -> o = Panic \/ exists a, o = Ok a /\ f a = Panic.
Proof. destruct o; cbn; try discriminate; eauto. Qed.

(* ================================================================= *)
(* 2. rt, one constructor at a time                                    *)
(* ================================================================= *)
Definition rt_ok (i : instr) : Prop := exists T, rt i = Ok T /\ wf_ty T = true.

Definition last_rt :=
  fix last (l : list instr) : oty :=
    match l with
    | [] => Ok TVoid
    | [x] => rt x
    | _ :: l => last l
    end.
Definition arm_instr (a : arm) : instr :=
  match a with ArmType _ _ i | ArmValue _ i | ArmOther i => i end.
Definition arms_rt :=
  fix go (l : list arm) (acc : option ty) : oty :=
    match l with
    | [] => lift_opt acc
    | a :: l =>
        obind (match a with ArmType _ _ i | ArmValue _ i | ArmOther i => rt i end)
              (fun t => go l (Some (match acc with Some u => concat u t | None => t end)))
    end.
Definition struct_rt :=
  fix go (l : list (name * instr)) (acc : list (ident * ty)) : oty :=
    match l with
    | [] => Ok (TStruct acc)
    | (k, i) :: l => obind (rt i) (fun t => go l (struct_ty_insert k t acc))
    end.

Lemma rt_block body : rt (IBlock body) = last_rt body.
Proof. reflexivity. Qed.
Lemma rt_match x arms : rt (IMatch x arms) = arms_rt arms None.
Proof. reflexivity. Qed.
Lemma rt_struct fs : rt (IStruct fs) = struct_rt fs [].
Proof. reflexivity. Qed.
Lemma rt_tuple es : rt (ITuple es) = obind (rtl_def es) (fun ts => Ok (TTup ts)).
Proof. reflexivity. Qed.
Lemma rt_bin op l r : rt (IBin op l r) = obind (rt l) (fun a => obind (rt r) (fun b => bin_rt op a b)).
Proof. reflexivity. Qed.
Lemma rt_un op i : rt (IUn op i) = obind (rt i) (fun t => un_rt op t).
Proof. reflexivity. Qed.

Lemma rt_ok_intro i T : rt i = Ok T -> wf_ty T = true -> rt_ok i.
Proof. intros H W. exists T. split; assumption. Qed.

Lemma rt_good (b : Prop) i : rt_ok i -> good b (fun t => wf_ty t = true) (rt i).
Proof. intros [T [E W]]. rewrite E. exact W. Qed.

(* rts of a list of typable instructions *)
Lemma rtl_ok is : Forall rt_ok is -> exists ts, rtl_def is = Ok ts /\ forallb wf_ty ts = true.
Proof.
  induction 1 as [|i is [T [E W]] _ [ts [E' W']]]; [exists []; split; reflexivity|].
  exists (T :: ts).
  change (rtl_def (i :: is)) with
    (obind (rt i) (fun t => obind (rtl_def is) (fun ts => Ok (t :: ts)))).
  rewrite E. cbn [obind]. rewrite E'. cbn [obind forallb]. rewrite W, W'. split; reflexivity.
Qed.

Lemma rtl_good (b : Prop) is :
  Forall rt_ok is -> good b (fun ts => forallb wf_ty ts = true) (rtl_def is).
Proof. intros H. destruct (rtl_ok is H) as [ts [E W]]. rewrite E. exact W. Qed.

Lemma rtl_inv is ts : rtl_def is = Ok ts -> forallb wf_ty ts = true -> Forall rt_ok is.
Proof.
  revert ts. induction is as [|i is IH]; intros ts H W; [constructor|].
  change (rtl_def (i :: is)) with
    (obind (rt i) (fun t => obind (rtl_def is) (fun ts => Ok (t :: ts)))) in H.
  destruct (rt i) as [t| | |] eqn:E; try discriminate H. cbn [obind] in H.
  destruct (rtl_def is) as [ts'| | |] eqn:E'; try discriminate H. cbn [obind] in H.
  injection H as <-. cbn [forallb] in W. apply andb_true_iff in W. destruct W as [W1 W2].
  constructor; [exists t; auto|eapply IH; eauto].
Qed.

Lemma rt_ok_tuple is : Forall rt_ok is -> rt_ok (ITuple is).
Proof.
  intros H. destruct (rtl_ok is H) as [ts [E W]]. exists (TTup ts).
  rewrite rt_tuple, E. split; [reflexivity|exact W].
Qed.

Lemma rt_ok_tuple_inv is : rt_ok (ITuple is) -> Forall rt_ok is.
Proof.
  intros [T [E W]]. rewrite rt_tuple in E. apply obind_ok in E. destruct E as [ts [E1 E2]].
  injection E2 as <-. eapply rtl_inv; eauto.
Qed.

(* blocks *)
Lemma last_rt_app l x : last_rt (l ++ [x]) = rt x.
Proof.
  induction l as [|y l IH]; [reflexivity|].
  cbn [app]. destruct (l ++ [x]) eqn:E; [destruct l; discriminate E|].
  exact IH.
Qed.

Lemma last_rt_ok l : Forall rt_ok l -> exists T, last_rt l = Ok T /\ wf_ty T = true.
Proof.
  destruct l as [|x l] using rev_ind; intros H.
  - exists TVoid. split; reflexivity.
  - rewrite last_rt_app. apply Forall_app in H. destruct H as [_ H]. inversion H; subst. assumption.
Qed.

Lemma rt_ok_block l : Forall rt_ok l -> rt_ok (IBlock l).
Proof. intros H. unfold rt_ok. rewrite rt_block. apply last_rt_ok. exact H. Qed.

(* drop_consts keeps a sublist *)
Lemma drop_consts_incl l i : In i (drop_consts l) -> In i l.
Proof.
  unfold drop_consts. destruct (rev l) as [|lst front] eqn:E; [intros []|].
  intros H. apply in_app_or in H. apply in_rev. rewrite E. destruct H as [H|[<-|[]]].
  - right. apply in_rev in H. apply filter_In in H. tauto.
  - left. reflexivity.
Qed.

Lemma Forall_drop_consts (P : instr -> Prop) l : Forall P l -> Forall P (drop_consts l).
Proof.
  rewrite !Forall_forall. intros H i Hi. apply H. apply drop_consts_incl. exact Hi.
Qed.

(* has_never / missing_return never panic on typable bodies *)
Lemma has_never_good (b : Prop) l : Forall rt_ok l -> good b (fun _ => True) (has_never l).
Proof.
  induction 1 as [|i l [T [E _]] _ IH]; [exact I|].
  cbn [has_never]. rewrite E. cbn [obind]. destruct (ty_eqb T TNever); [exact I|exact IH].
Qed.

Lemma missing_return_good (b : Prop) r l :
  Forall rt_ok l -> good b (fun _ => True) (missing_return r l).
Proof.
  intros H. unfold missing_return. destruct (matches TVoid r); [exact I|].
  apply good_bind with (P := fun _ => True); [apply has_never_good; exact H|].
  intros; exact I.
Qed.

(* match *)
Lemma arms_rt_ok arms acc :
  Forall (fun a => rt_ok (arm_instr a)) arms ->
  match acc with Some u => wf_ty u = true | None => arms <> [] end ->
  exists T, arms_rt arms acc = Ok T /\ wf_ty T = true.
Proof.
  intros H. revert acc. induction H as [|a arms [T [E W]] _ IH]; intros acc Hacc.
  - destruct acc as [u|]; [|congruence]. exists u. split; [reflexivity|exact Hacc].
  - assert (Ea : arms_rt (a :: arms) acc = obind (rt (arm_instr a))
      (fun t => arms_rt arms (Some (match acc with Some u => concat u t | None => t end))))
      by (destruct a; reflexivity).
    rewrite Ea, E. cbn [obind]. apply IH. destruct acc as [u|]; [apply concat_wf; assumption|exact W].
Qed.

Lemma rt_ok_match x arms :
  arms <> [] -> Forall (fun a => rt_ok (arm_instr a)) arms -> rt_ok (IMatch x arms).
Proof. intros Hne H. unfold rt_ok. rewrite rt_match. apply arms_rt_ok; assumption. Qed.

(* struct literals *)
Lemma nodup_keys_filter {V} (p : ident * V -> bool) (l : list (ident * V)) :
  nodup_keys l = true -> nodup_keys (filter p l) = true.
Proof.
  induction l as [|[k v] l IH]; [reflexivity|]. cbn [nodup_keys]. intros H.
  apply andb_true_iff in H. destruct H as [H1 H2]. cbn [filter].
  destruct (p (k, v)); [|apply IH; exact H2].
  cbn [nodup_keys]. rewrite (IH H2), andb_true_r.
  apply negb_true_iff. apply negb_true_iff in H1.
  apply not_true_is_false. intros Hex. apply existsb_exists in Hex.
  destruct Hex as [kv [Hin Hk]]. apply filter_In in Hin. destruct Hin as [Hin _].
  assert (existsb (fun kv => ident_eqb k (fst kv)) l = true)
    by (apply existsb_exists; exists kv; auto).
  congruence.
Qed.

Lemma nodup_keys_snoc {V} (l : list (ident * V)) k v :
  nodup_keys l = true -> existsb (fun kv => ident_eqb k (fst kv)) l = false ->
  nodup_keys (l ++ [(k, v)]) = true.
Proof.
  induction l as [|[k' v'] l IH]; [reflexivity|]. cbn [nodup_keys existsb fst app].
  intros H Hk. apply andb_true_iff in H. destruct H as [H1 H2].
  apply orb_false_iff in Hk. destruct Hk as [Hk1 Hk2].
  rewrite (IH H2 Hk2), andb_true_r. rewrite existsb_app. cbn [existsb fst].
  apply negb_true_iff in H1. rewrite H1, orb_false_r. cbn [orb].
  rewrite ident_eqb_sym, Hk1. reflexivity.
Qed.

Lemma struct_ty_insert_wf k t acc :
  wf_ty (TStruct acc) = true -> wf_ty t = true -> wf_ty (TStruct (struct_ty_insert k t acc)) = true.
Proof.
  cbn [wf_ty]. intros H Wt. apply andb_true_iff in H. destruct H as [H1 H2].
  unfold struct_ty_insert. apply andb_true_iff. split.
  - apply nodup_keys_snoc; [apply nodup_keys_filter; exact H1|].
    apply not_true_is_false. intros Hex. apply existsb_exists in Hex.
    destruct Hex as [kv [Hin Hk]]. apply filter_In in Hin. destruct Hin as [_ Hn].
    rewrite Hk in Hn. discriminate Hn.
  - rewrite forallb_app. cbn [forallb snd]. rewrite Wt, andb_true_r.
    rewrite forallb_forall in H2. apply forallb_forall. intros kv Hin.
    apply filter_In in Hin. apply H2. tauto.
Qed.

Lemma struct_rt_ok fs acc :
  Forall (fun ki => rt_ok (snd ki)) fs -> wf_ty (TStruct acc) = true ->
  exists T, struct_rt fs acc = Ok T /\ wf_ty T = true.
Proof.
  intros H. revert acc. induction H as [|[k i] fs [T [E W]] _ IH]; intros acc Hacc.
  - exists (TStruct acc). split; [reflexivity|exact Hacc].
  - change (struct_rt ((k, i) :: fs) acc) with
      (obind (rt i) (fun t => struct_rt fs (struct_ty_insert k t acc))).
    cbn [snd] in E. rewrite E. cbn [obind]. apply IH. apply struct_ty_insert_wf; assumption.
Qed.

Lemma rt_ok_struct fs : Forall (fun ki => rt_ok (snd ki)) fs -> rt_ok (IStruct fs).
Proof. intros H. unfold rt_ok. rewrite rt_struct. apply struct_rt_ok; [exact H|reflexivity]. Qed.

(* ================================================================= *)
(* 3. environments                                                     *)
(* ================================================================= *)
Lemma wf_layer_intro vars fn lp :
  wf_vars vars = true -> match fn with Some (_, r) => wf_ty r | None => true end = true ->
  wf_layer (mkLayer vars fn lp) = true.
Proof. intros H1 H2. unfold wf_layer. cbn [l_vars l_fn]. rewrite H1, H2. reflexivity. Qed.

Lemma wf_layer_inv l :
  wf_layer l = true ->
  wf_vars (l_vars l) = true /\ match l_fn l with Some (_, r) => wf_ty r | None => true end = true.
Proof. unfold wf_layer. intros H. apply andb_true_iff in H. exact H. Qed.

Lemma wf_lenv_cons l e : wf_lenv (l :: e) <-> wf_layer l = true /\ wf_lenv e.
Proof. unfold wf_lenv. cbn [forallb]. rewrite andb_true_iff. tauto. Qed.

Lemma wf_lenv_nil : wf_lenv [].
Proof. reflexivity. Qed.

Lemma assoc_in {V} k (l : list (ident * V)) v : assoc k l = Some v -> exists k', In (k', v) l.
Proof.
  induction l as [|[k' v'] l IH]; [discriminate|]. cbn [assoc].
  destruct (ident_eqb k k').
  - intros H. injection H as ->. exists k'. left. reflexivity.
  - intros H. destruct (IH H) as [k'' Hin]. exists k''. right. exact Hin.
Qed.

Lemma lenv_get_wf n e lv : wf_lenv e -> lenv_get n e = Some lv -> wf_ty (lvar_type lv) = true.
Proof.
  induction e as [|l e IH]; [discriminate|]. intros W. apply wf_lenv_cons in W. destruct W as [Wl We].
  cbn [lenv_get]. destruct (assoc n (l_vars l)) as [v|] eqn:E.
  - intros H. injection H as ->. apply assoc_in in E. destruct E as [k Hin].
    apply wf_layer_inv in Wl. destruct Wl as [Wv _]. unfold wf_vars in Wv.
    rewrite forallb_forall in Wv. apply (Wv (k, lv) Hin).
  - apply IH. exact We.
Qed.

Lemma scopes_get_wf n sc v : wf_scopes sc -> scopes_get n sc = Some v -> wf_ty (as_type v) = true.
Proof.
  unfold wf_scopes. induction sc as [|s sc IH]; [discriminate|]. cbn [forallb scopes_get].
  intros W. apply andb_true_iff in W. destruct W as [Ws Wsc].
  destruct (assoc n s) as [w|] eqn:E.
  - intros H. injection H as ->. apply assoc_in in E. destruct E as [k Hin].
    rewrite forallb_forall in Ws. apply (Ws (k, v) Hin).
  - apply IH. exact Wsc.
Qed.

Lemma wf_vars_filter p vs : wf_vars vs = true -> wf_vars (filter p vs) = true.
Proof.
  unfold wf_vars. rewrite !forallb_forall. intros H x Hx. apply filter_In in Hx. apply H. tauto.
Qed.

Lemma wf_vars_cons k lv vs :
  wf_ty (lvar_type lv) = true -> wf_vars vs = true -> wf_vars ((k, lv) :: vs) = true.
Proof.
  intros H1 H2. change (wf_ty (lvar_type lv) && wf_vars vs = true). rewrite H1, H2. reflexivity.
Qed.

Lemma wf_layer_insert n lv l :
  wf_layer l = true -> wf_ty (lvar_type lv) = true -> wf_layer (layer_insert n lv l) = true.
Proof.
  intros Wl Wlv. apply wf_layer_inv in Wl. destruct Wl as [Wv Wf].
  unfold layer_insert. apply wf_layer_intro; [|exact Wf].
  apply wf_vars_cons; [exact Wlv|apply (wf_vars_filter _ _ Wv)].
Qed.

Lemma wf_lenv_insert n lv e :
  wf_lenv e -> wf_ty (lvar_type lv) = true -> wf_lenv (lenv_insert n lv e).
Proof.
  intros We Wlv. destruct e as [|l e]; cbn [lenv_insert].
  - apply wf_lenv_cons. split; [|exact wf_lenv_nil]. apply wf_layer_intro; [|reflexivity].
    apply wf_vars_cons; [exact Wlv|reflexivity].
  - apply wf_lenv_cons in We. destruct We as [Wl We]. apply wf_lenv_cons. split; [|exact We].
    apply wf_layer_insert; assumption.
Qed.

Lemma wf_lenv_push e : wf_lenv e -> wf_lenv (lenv_push e).
Proof. intros W. unfold lenv_push. apply wf_lenv_cons. split; [reflexivity|exact W]. Qed.

Lemma wf_lenv_set_loop b e : wf_lenv e -> wf_lenv (lenv_set_loop b e).
Proof.
  intros W. destruct e as [|l e]; cbn [lenv_set_loop].
  - apply wf_lenv_cons. split; [reflexivity|exact wf_lenv_nil].
  - apply wf_lenv_cons in W. destruct W as [Wl We]. apply wf_lenv_cons. split; [|exact We].
    apply wf_layer_inv in Wl. destruct Wl. apply wf_layer_intro; assumption.
Qed.

Lemma wf_params_layer_gen ps acc :
  wf_params ps = true -> wf_vars acc = true ->
  wf_vars (fold_left (fun acc p => (fst p, LOther (snd p)) ::
             filter (fun kv => negb (ident_eqb (fst p) (fst kv))) acc) ps acc) = true.
Proof.
  revert acc. induction ps as [|p ps IH]; intros acc Wp Wa; [exact Wa|].
  cbn [wf_params forallb] in Wp. apply andb_true_iff in Wp. destruct Wp as [Wp1 Wp2].
  cbn [fold_left]. apply IH; [exact Wp2|].
  apply wf_vars_cons; [exact Wp1|apply (wf_vars_filter _ _ Wa)].
Qed.

Lemma wf_params_layer ps : wf_params ps = true -> wf_vars (params_layer ps) = true.
Proof. intros W. unfold params_layer. apply wf_params_layer_gen; [exact W|reflexivity]. Qed.

Lemma wf_lenv_push_fn ps fname r e :
  wf_lenv e -> wf_params ps = true -> wf_ty r = true ->
  wf_lenv (lenv_push_fn (params_layer ps) fname r e).
Proof.
  intros We Wp Wr. unfold lenv_push_fn. apply wf_lenv_cons. split; [|exact We].
  apply wf_layer_intro; [apply wf_params_layer; exact Wp|exact Wr].
Qed.

Lemma wf_params_map ps : wf_params ps = true -> forallb wf_ty (map snd ps) = true.
Proof.
  unfold wf_params. induction ps as [|p ps IH]; [reflexivity|]. cbn [forallb map].
  intros H. apply andb_true_iff in H. destruct H as [H1 H2]. rewrite H1, (IH H2). reflexivity.
Qed.

Lemma wf_fun_ty ps r : wf_params ps = true -> wf_ty r = true -> wf_ty (TFun (map snd ps) r) = true.
Proof. intros Wp Wr. cbn [wf_ty]. rewrite (wf_params_map _ Wp), Wr. reflexivity. Qed.

(* LocalVariable::from(&Instruction) *)
Lemma lvar_of_instr_ok i :
  rt_ok i -> exists lv, lvar_of_instr i = Ok lv /\ wf_ty (lvar_type lv) = true.
Proof.
  intros [T [E W]].
  destruct i; cbn [lvar_of_instr]; try (rewrite E; cbn [obind]; exists (LOther T); split; [reflexivity|exact W]).
  - eexists. split; [reflexivity|]. cbn [rt] in E. injection E as <-. exact W.
  - eexists. split; [reflexivity|]. cbn [rt] in E. injection E as <-. exact W.
  - eexists. split; [reflexivity|]. cbn [rt] in E. injection E as <-. exact W.
Qed.

Lemma zip_insert_good {A} (b : Prop) (f : A -> outcome lvar) ids xs e :
  Forall (fun x => exists lv, f x = Ok lv /\ wf_ty (lvar_type lv) = true) xs ->
  wf_lenv e -> good b wf_lenv (zip_insert f ids xs e).
Proof.
  unfold zip_insert. intros H. revert ids e. induction H as [|x xs [lv [E W]] _ IH]; intros ids e We.
  - destruct ids; exact We.
  - destruct ids as [|n ids]; [exact We|]. rewrite E. cbn [obind]. apply IH.
    apply wf_lenv_insert; assumption.
Qed.

(* ================================================================= *)
(* 4. guards the library does not have yet                             *)
(* ================================================================= *)
(* `it @ f` : f below (elem) -> any, and not `!` *)
Lemma map_guard e T :
  wf_ty T = true -> matches T (TFun [e] TAny) = true -> T <> TNever -> fn_return_type T <> None.
Proof.
  apply guard_matches; [reflexivity| |].
  - intros m S _ M. pose proof (matches_simple_kind m (TFun [e] TAny) S eq_refl M) as K.
    destruct m; try discriminate K. discriminate.
  - rewrite matches_unfold. cbn beta iota. rewrite ty_eqb_unfold. reflexivity.
Qed.

Lemma ty_eqb_never T : ty_eqb T TNever = true -> T = TNever.
Proof. rewrite ty_eqb_unfold. destruct T; try discriminate. reflexivity. Qed.

(* (a, b) := e : flatten_tuple behind is_tuple and tuple_len = Some *)
Definition len_step (acc c : option nat) : option nat :=
  match acc, c with
  | Some a, Some c => if Nat.eqb a c then Some a else None
  | _, _ => None
  end.
Definition flat_step (acc c : option (list ty)) : option (list ty) :=
  match acc, c with
  | Some a, Some c => if Nat.eqb (length a) (length c) then Some (zip_with concat a c) else None
  | _, _ => None
  end.

Lemma len_step_none l : fold_left len_step l None = None.
Proof. induction l; [reflexivity|assumption]. Qed.

Lemma zip_with_length {A B C0} (f : A -> B -> C0) l1 l2 :
  length l1 = length l2 -> length (zip_with f l1 l2) = length l1.
Proof.
  revert l2. induction l1 as [|x l1 IH]; intros [|y l2] H; try discriminate H; [reflexivity|].
  cbn [zip_with length]. rewrite IH; [reflexivity|]. injection H as H. exact H.
Qed.

Lemma flatten_fold ms n r acc :
  (forall m, In m ms -> exists ts, m = TTup ts) ->
  fold_left len_step (map tuple_len ms) (Some n) = Some r -> length acc = n ->
  fold_left flat_step (map flatten_tuple ms) (Some acc) <> None.
Proof.
  revert n acc. induction ms as [|m ms IH]; intros n acc Hm Hl Hacc; [discriminate|].
  destruct (Hm m (or_introl eq_refl)) as [ts ->].
  cbn [map fold_left tuple_len flatten_tuple len_step flat_step] in *.
  destruct (Nat.eqb n (length ts)) eqn:E; [|rewrite len_step_none in Hl; discriminate Hl].
  apply Nat.eqb_eq in E. rewrite Hacc, E, Nat.eqb_refl.
  apply (IH n); [intros x Hx; apply Hm; right; exact Hx|exact Hl|].
  rewrite zip_with_length; congruence.
Qed.

Theorem flatten_guard T n :
  wf_ty T = true -> is_tuple T = true -> tuple_len T = Some n -> flatten_tuple T <> None.
Proof.
  intros W G HL. destruct T as [| | | | | | |ps r|e|ts|ms|e|fs]; try discriminate G.
  - discriminate.
  - destruct (wf_multi_inv _ W) as [L [S _]]. cbn [is_tuple] in G. rewrite forallb_forall in G.
    assert (Hm : forall m, In m ms -> exists ts, m = TTup ts).
    { intros m Hin. specialize (S m Hin). specialize (G m Hin).
      destruct m; try discriminate G; try discriminate S. eauto. }
    cbn [tuple_len flatten_tuple] in *. unfold fold_opt in *.
    destruct ms as [|m0 rest]; [discriminate HL|]. cbn [map] in *.
    destruct (Hm m0 (or_introl eq_refl)) as [ts0 ->]. cbn [tuple_len flatten_tuple] in *.
    change (fold_left len_step (map tuple_len rest) (Some (length ts0)) = Some n) in HL.
    change (fold_left flat_step (map flatten_tuple rest) (Some ts0) <> None).
    eapply flatten_fold; [intros x Hx; apply Hm; right; exact Hx|exact HL|reflexivity].
Qed.

(* Sound1.v — layer 3, the framework of the preservation proof and stage 1
   (expressions without store effects).

   [sig_ok W K T s]     what a signal may be for an instruction of type T in context K:
                        a value of type T, Break/Continue only inside a loop, Return
                        only inside a function and with a value of its result type,
                        one of the six documented errors, never a panic;
   [concl W K T sc r]   the result r leaves the scopes as they were, its store is
                        typed by an extension of W, and its signal is [sig_ok];
   [sound_at n]         every typed instruction, run with fuel n in a typed
                        configuration, satisfies [concl].
   Each instruction form gets a lemma [case_*] deriving [concl] at fuel S n from
   [sound_at n]; Sound3.v ties the knot by induction on the fuel. *)
From SSL.Model Require Import Base Ty Float Value Ops Seq Syntax Rt Recreate Exec Check.
From SSL.Lemmas Require Import TyLemmas ValueLemmas SeqLemmas ExecLemmas SoundLemmas CellLemmas
  SoundDefs SoundVals SoundTyping.

Arguments matches : simpl never.
Arguments ty_eqb : simpl never.
Arguments concat : simpl never.

Local Open Scope Z_scope.

Section WithFlag.
Context {FL : Policy}.

Definition doc_err (e : Z) : Prop :=
  In e [E_IndexOutOfBounds; E_NegativeLength; E_NegativeExponent;
        E_ZeroDivision; E_ZeroModulo; E_OverflowShift].

Lemma doc_error_doc_err o e : doc_error o e -> doc_err e.
Proof. destruct o; cbn [doc_error]; intros H; try contradiction; subst e; cbn; tauto. Qed.

Definition sig_ok (W : sty) (K : kctx) (T : ty) (s : signal) : Prop :=
  match s with
  | SVal v => gv W v T
  | SBreak | SContinue => in_loop K = true
  | SReturn v => exists Tr, ret K = Some Tr /\ gv W v Tr
  | SError e => doc_err e
  | SPanic => False
  | SFuel => True
  end.

Definition concl (W : sty) (K : kctx) (T : ty) (sc : scopes) (r : res) : Prop :=
  scs r = sc /\ exists W', ext W W' /\ store_ok W' (sto r) /\ sig_ok W' K T (sig r).

Definition ctx_ok (W0 W : sty) (st : store) (sc : scopes) (G : genv) : Prop :=
  ext W0 W /\ store_ok W st /\ env_ok W sc G.

Lemma ctx_ext W0 W st sc G : ctx_ok W0 W st sc G -> ext W0 W.
Proof. intros H. apply H. Qed.
Lemma ctx_store W0 W st sc G : ctx_ok W0 W st sc G -> store_ok W st.
Proof. intros H. apply H. Qed.
Lemma ctx_env W0 W st sc G : ctx_ok W0 W st sc G -> env_ok W sc G.
Proof. intros H. apply H. Qed.
Lemma ctx_wf W0 W st sc G : ctx_ok W0 W st sc G -> genv_wf G.
Proof. intros H. apply (env_ok_wf W sc). apply H. Qed.

Lemma ctx_step W0 W W1 st st1 sc G :
  ctx_ok W0 W st sc G -> ext W W1 -> store_ok W1 st1 -> ctx_ok W0 W1 st1 sc G.
Proof.
  intros [A [B C]] E S. split; [apply (ext_trans W0 W W1); assumption|].
  split; [exact S|]. apply (env_ok_mono W W1); assumption.
Qed.

Lemma sig_ok_nonval W K T T' s : nonval s -> sig_ok W K T s -> sig_ok W K T' s.
Proof. destruct s; cbn; intros N H; try contradiction; exact H. Qed.

Lemma concl_ext W W1 K T sc r : ext W W1 -> concl W1 K T sc r -> concl W K T sc r.
Proof.
  intros E [A [W' [B [C D]]]]. split; [exact A|]. exists W'.
  split; [apply (ext_trans W W1 W'); assumption|]. split; assumption.
Qed.

Lemma concl_intro W K T st sc s : store_ok W st -> sig_ok W K T s -> concl W K T sc (st, sc, s).
Proof.
  intros S H. split; [reflexivity|]. exists W. split; [apply ext_refl|]. split; assumption.
Qed.

Lemma concl_val W K T st sc v : store_ok W st -> gv W v T -> concl W K T sc (st, sc, SVal v).
Proof. intros S H. apply concl_intro; assumption. Qed.

Lemma concl_retype W K T T' sc r : nonval (sig r) -> concl W K T sc r -> concl W K T' sc r.
Proof.
  intros N [A [W' [B [C D]]]]. split; [exact A|]. exists W'. split; [exact B|].
  split; [exact C|]. apply (sig_ok_nonval W' K T T'); assumption.
Qed.

(* a value of a sub-type is a value of the type *)
Lemma concl_sub W K A B sc r : matches A B = true -> concl W K A sc r -> concl W K B sc r.
Proof.
  intros M [H1 [W' [H2 [H3 H4]]]]. split; [exact H1|]. exists W'. split; [exact H2|].
  split; [exact H3|]. destruct (sig r); cbn [sig_ok] in *; try exact H4.
  apply (gv_sub W' v A B); assumption.
Qed.

Lemma concl_map W K A B sc r :
  (forall W' v, gv W' v A -> gv W' v B) -> concl W K A sc r -> concl W K B sc r.
Proof.
  intros M [H1 [W' [H2 [H3 H4]]]]. split; [exact H1|]. exists W'. split; [exact H2|].
  split; [exact H3|]. destruct (sig r); cbn [sig_ok] in *; try exact H4. apply M. exact H4.
Qed.

Lemma concl_sig_of_outcome {A} W K T st sc (o : outcome A) (k : A -> res) :
  store_ok W st -> o <> Panic -> (forall e, o = Err e -> doc_err e) ->
  (forall a, o = Ok a -> concl W K T sc (k a)) ->
  concl W K T sc (sig_of_outcome o k st sc).
Proof.
  intros S NP HE HK. destruct o as [a|e| |]; cbn [sig_of_outcome].
  - apply HK. reflexivity.
  - apply concl_intro; [exact S|]. apply (HE e eq_refl).
  - congruence.
  - apply concl_intro; [exact S|exact I].
Qed.

Section Sound.
Variable powf : fbits -> fbits -> fbits.
Variable pre : prelude.
Notation E := (exec powf pre).

Definition sound_at (n : nat) : Prop :=
  forall W0 G K i T, typed W0 G K i T ->
  forall W st sc, ctx_ok W0 W st sc G -> concl W K T sc (E n st sc i).

(* ---- evaluating a sub-expression first ---- *)
Lemma with_val_sound n (IH : sound_at n) W0 G K x Tx W st sc T k :
  typed W0 G K x Tx -> ctx_ok W0 W st sc G ->
  (forall W1 st1 v, ext W W1 -> ctx_ok W0 W1 st1 sc G -> gv W1 v Tx ->
     concl W1 K T sc (k st1 sc v)) ->
  concl W K T sc (with_val_def (E n) x st sc k).
Proof.
  intros Hx HC Hk. pose proof (IH _ _ _ _ _ Hx _ _ _ HC) as C.
  unfold with_val_def. destruct (E n st sc x) as [[st1 sc1] s1].
  destruct C as [Hsc [W1 [HE [HS Hsig]]]]. unfold scs, sto, sig in *. cbn [fst snd] in *. subst sc1.
  destruct s1; try (apply (concl_ext W W1); [exact HE|apply concl_intro; [exact HS|exact Hsig]]).
  apply (concl_ext W W1); [exact HE|]. apply Hk; [exact HE| |exact Hsig].
  apply (ctx_step W0 W W1 st st1); assumption.
Qed.

(* ---- evaluating a list of expressions (tuple, array, candidates) ---- *)
Definition lconcl (W : sty) (K : kctx) (Ts : list ty) (sc : scopes) (r : lres) : Prop :=
  let '(st', sc', o, s) := r in
  sc' = sc /\ exists W', ext W W' /\ store_ok W' st' /\
    match o with
    | Ok vs => Forall2 (gv W') vs Ts
    | _ => nonval s /\ sig_ok W' K TNever s
    end.

Lemma ex_list_all_sound n (IH : sound_at n) W0 G K es Ts :
  typed_all W0 G K es Ts ->
  forall W st sc, ctx_ok W0 W st sc G -> lconcl W K Ts sc (ex_list_def (E n) es st sc).
Proof.
  intros H. induction H as [G K|G K x es T Ts Hx Hes IHes]; intros W st sc HC.
  - rewrite ex_list_nil. split; [reflexivity|]. exists W. split; [apply ext_refl|].
    split; [apply (ctx_store _ _ _ _ _ HC)|constructor].
  - rewrite ex_list_cons. pose proof (IH _ _ _ _ _ Hx _ _ _ HC) as C.
    destruct (E n st sc x) as [[st1 sc1] s1].
    destruct C as [Hsc [W1 [HE [HS Hsig]]]]. unfold scs, sto, sig in *. cbn [fst snd] in *. subst sc1.
    assert (NV : forall s, s = s1 -> nonval s ->
              lconcl W K (T :: Ts) sc (st1, sc, Panic, s)).
    { intros s -> N. split; [reflexivity|]. exists W1. split; [exact HE|]. split; [exact HS|].
      split; [exact N|]. apply (sig_ok_nonval W1 K T TNever); assumption. }
    destruct s1; try (apply NV; [reflexivity|exact I]).
    specialize (IHes W1 st1 sc (ctx_step _ _ _ _ _ _ _ HC HE HS)).
    destruct (ex_list_def (E n) es st1 sc) as [[[st2 sc2] o2] s2].
    destruct IHes as [Hsc2 [W2 [HE2 [HS2 Ho]]]]. subst sc2.
    destruct o2 as [vs|e| |]; (split; [reflexivity|]); exists W2;
      (split; [apply (ext_trans W W1 W2); assumption|]); (split; [exact HS2|]); try exact Ho.
    constructor; [apply (gv_mono W1 W2); assumption|exact Ho].
Qed.

Lemma with_list_sound n (IH : sound_at n) W0 G K es Ts W st sc T k :
  typed_all W0 G K es Ts -> ctx_ok W0 W st sc G ->
  (forall W1 st1 vs, ext W W1 -> ctx_ok W0 W1 st1 sc G -> Forall2 (gv W1) vs Ts ->
     concl W1 K T sc (k st1 sc vs)) ->
  concl W K T sc (with_list_def (E n) es st sc k).
Proof.
  intros Hes HC Hk. pose proof (ex_list_all_sound n IH _ _ _ _ _ Hes _ _ _ HC) as C.
  unfold with_list_def. destruct (ex_list_def (E n) es st sc) as [[[st1 sc1] o] s1].
  destruct C as [Hsc [W1 [HE [HS Ho]]]]. subst sc1.
  destruct o as [vs|e| |];
    try (destruct Ho as [N Hs]; apply (concl_ext W W1); [exact HE|];
         apply concl_intro; [exact HS|apply (sig_ok_nonval W1 K TNever T); assumption]).
  apply (concl_ext W W1); [exact HE|]. apply Hk; [exact HE| |exact Ho].
  apply (ctx_step W0 W W1 st st1); assumption.
Qed.

Lemma Forall2_gv_all2 W vs Ts : Forall2 (gv W) vs Ts -> all2 has_type vs Ts = true.
Proof.
  intros H. induction H as [|v T vs Ts [Hv _] _ IH]; [reflexivity|]. cbn [all2]. rewrite Hv, IH. reflexivity.
Qed.

Lemma Forall2_gv_good W vs Ts : Forall2 (gv W) vs Ts -> Forall (vgood W) vs.
Proof. intros H. induction H as [|v T vs Ts [_ Hv] _ IH]; constructor; assumption. Qed.

(* ================================================================= *)
(* stage 1                                                            *)
(* ================================================================= *)
Lemma case_var n W0 G K v W st sc :
  vgood W0 v -> ctx_ok W0 W st sc G -> concl W K (as_type v) sc (E (S n) st sc (IVar v)).
Proof.
  intros Hv HC. rewrite exec_S_IVar. apply concl_val; [apply (ctx_store _ _ _ _ _ HC)|].
  assert (Hg : vgood W v) by (apply (vgood_mono W0 W); [apply (ctx_ext _ _ _ _ _ HC)|exact Hv]).
  split; [apply (vgood_self W); exact Hg|exact Hg].
Qed.

Lemma case_local n W0 G K nm lv W st sc :
  assoc nm G = Some (lvar_type lv) -> ctx_ok W0 W st sc G ->
  concl W K (lvar_type lv) sc (E (S n) st sc (ILocal nm lv)).
Proof.
  intros Hn HC. rewrite exec_S_ILocal.
  destruct (ctx_env _ _ _ _ _ HC nm _ Hn) as [_ [v [Hv Hg]]]. rewrite Hv.
  apply concl_val; [apply (ctx_store _ _ _ _ _ HC)|exact Hg].
Qed.

Lemma case_tuple n (IH : sound_at n) W0 G K es Ts W st sc :
  typed_all W0 G K es Ts -> ctx_ok W0 W st sc G ->
  concl W K (TTup Ts) sc (E (S n) st sc (ITuple es)).
Proof.
  intros Hes HC. rewrite exec_S_ITuple.
  apply (with_list_sound n IH W0 G K es Ts); [exact Hes|exact HC|].
  intros W1 st1 vs HE HC1 Hvs. apply concl_val; [apply (ctx_store _ _ _ _ _ HC1)|]. split.
  - rewrite tuple_typed. apply (Forall2_gv_all2 W1). exact Hvs.
  - rewrite vgood_tup. apply (Forall2_gv_good W1 vs Ts). exact Hvs.
Qed.

Lemma case_array n (IH : sound_at n) W0 G K es Ts et W st sc :
  typed_all W0 G K es Ts -> wf_ty et = true -> matches (join_all Ts) et = true ->
  ctx_ok W0 W st sc G ->
  concl W K (TArr et) sc (E (S n) st sc (IArray es et)).
Proof.
  intros Hes Wet Met HC. rewrite exec_S_IArray.
  apply (concl_sub W K (TArr (join_all Ts)) (TArr et)); [rewrite matches_arr; exact Met|].
  apply (with_list_sound n IH W0 G K es Ts); [exact Hes|exact HC|].
  intros W1 st1 vs HE HC1 Hvs. apply concl_val; [apply (ctx_store _ _ _ _ _ HC1)|]. split.
  - apply arr_literal_typed. apply (Forall2_gv_all2 W1). exact Hvs.
  - apply vgood_arr_of. apply (Forall2_gv_good W1 vs Ts). exact Hvs.
Qed.

Lemma case_repeat n (IH : sound_at n) W0 G K v len T Tl W st sc :
  typed W0 G K v T -> typed W0 G K len Tl -> matches Tl TInt = true ->
  ctx_ok W0 W st sc G ->
  concl W K (TArr T) sc (E (S n) st sc (IArrayRepeat v len)).
Proof.
  intros Hv Hl Hm HC. rewrite exec_S_IArrayRepeat.
  apply (with_val_sound n IH W0 G K v T); [exact Hv|exact HC|].
  intros W1 st1 x HE1 HC1 Hx.
  apply (with_val_sound n IH W0 G K len Tl); [exact Hl|exact HC1|].
  intros W2 st2 k HE2 HC2 Hk.
  destruct (in_TInt k) as [z ->]; [apply (has_type_sound k Tl TInt); [apply Hk|exact Hm]|].
  destruct (z <? 0).
  - apply concl_intro; [apply (ctx_store _ _ _ _ _ HC2)|]. cbn. tauto.
  - apply concl_val; [apply (ctx_store _ _ _ _ _ HC2)|].
    apply (gv_mono W1 W2) in Hx; [|exact HE2]. destruct Hx as [Hx Hg]. split.
    + apply repeat_typed. exact Hx.
    + apply vgood_repeat. exact Hg.
Qed.

Lemma case_struct_go n (IH : sound_at n) W0 G K fs acct out :
  typed_fields W0 G K fs acct out ->
  forall W st sc accv, ctx_ok W0 W st sc G ->
  aligned accv acct -> vgood W (VStruct accv) ->
  concl W K (TStruct out) sc (struct_def (E n) fs st sc accv).
Proof.
  intros H. induction H as [G K acct|G K k x fs T acct out Hx Hfs IHfs]; intros W st sc accv HC Ha Hg.
  - cbn [struct_def]. apply concl_val; [apply (ctx_store _ _ _ _ _ HC)|]. split; [|exact Hg].
    apply aligned_has_type; [exact Ha|]. rewrite vgood_struct in Hg. apply Hg.
  - cbn [struct_def]. fold (struct_def (E n)).
    apply (with_val_sound n IH W0 G K x T); [exact Hx|exact HC|].
    intros W1 st1 v HE1 HC1 [Hv Hvg]. apply IHfs; [exact HC1| |].
    + apply aligned_insert; assumption.
    + apply vgood_struct_insert; [|exact Hvg]. apply (vgood_mono W W1); assumption.
Qed.

Lemma case_struct n (IH : sound_at n) W0 G K fs out W st sc :
  typed_fields W0 G K fs [] out -> ctx_ok W0 W st sc G ->
  concl W K (TStruct out) sc (E (S n) st sc (IStruct fs)).
Proof.
  intros Hfs HC. rewrite exec_S_IStruct.
  apply (case_struct_go n IH W0 G K fs [] out Hfs); [exact HC|constructor|].
  rewrite vgood_struct. split; [reflexivity|constructor].
Qed.

Lemma case_tuple_access n (IH : sound_at n) W0 G K x k T R W st sc :
  typed W0 G K x T -> qres (tuple_element_at k) T R -> ctx_ok W0 W st sc G ->
  concl W K R sc (E (S n) st sc (ITupleAccess x k)).
Proof.
  intros Hx Hq HC. rewrite exec_S_ITupleAccess.
  apply (with_val_sound n IH W0 G K x T); [exact Hx|exact HC|].
  intros W1 st1 v HE1 HC1 [Hv Hg].
  destruct Hq as [Hq|[-> _]]; [|rewrite has_type_never in Hv; discriminate Hv].
  pose proof (typed_wf _ _ _ _ _ Hx (ctx_wf _ _ _ _ _ HC)) as Wt.
  destruct (tuple_access_sound k T v R Wt Hv Hq) as [vs [r [-> [Hr Ht]]]]. rewrite Hr.
  apply concl_val; [apply (ctx_store _ _ _ _ _ HC1)|]. split; [exact Ht|].
  rewrite vgood_tup in Hg. rewrite Forall_forall in Hg. apply Hg. apply (nth_error_In _ _ Hr).
Qed.

Lemma case_field_access n (IH : sound_at n) W0 G K x f T R W st sc :
  typed W0 G K x T -> qres (field_type f) T R -> ctx_ok W0 W st sc G ->
  concl W K R sc (E (S n) st sc (IFieldAccess x f)).
Proof.
  intros Hx Hq HC. rewrite exec_S_IFieldAccess.
  apply (with_val_sound n IH W0 G K x T); [exact Hx|exact HC|].
  intros W1 st1 v HE1 HC1 [Hv Hg].
  destruct Hq as [Hq|[-> _]]; [|rewrite has_type_never in Hv; discriminate Hv].
  pose proof (typed_wf _ _ _ _ _ Hx (ctx_wf _ _ _ _ _ HC)) as Wt.
  destruct (field_access_sound f T v R Wt Hv Hq) as [fs [r [-> [Hr Ht]]]]. rewrite Hr.
  apply concl_val; [apply (ctx_store _ _ _ _ _ HC1)|]. split; [exact Ht|].
  rewrite vgood_struct in Hg. destruct Hg as [_ Hg]. rewrite Forall_forall in Hg.
  apply (Hg (f, r)). apply assoc_in. exact Hr.
Qed.

Lemma pure_not_logic op : pure_op op = true -> op <> And /\ op <> Or.
Proof. destruct op; intros H; try discriminate H; split; discriminate. Qed.

Lemma bin_dispatch_pure ex fuel op lv rv st sc :
  pure_op op = true ->
  bin_dispatch powf pre ex fuel op lv rv st sc =
  sig_of_outcome (op_exec powf op lv rv) (fun v => (st, sc, SVal v)) st sc.
Proof. destruct op; intros H; try discriminate H; reflexivity. Qed.

Lemma case_bin_pure n (IH : sound_at n) W0 G K op l r T1 T2 R W st sc :
  pure_op op = true -> typed W0 G K l T1 -> typed W0 G K r T2 ->
  can_be_used op T1 T2 = Ok true -> bin_rt op T1 T2 = Ok R ->
  ctx_ok W0 W st sc G ->
  concl W K R sc (E (S n) st sc (IBin op l r)).
Proof.
  intros Hp Hl Hr Hc Hrt HC. destruct (pure_not_logic op Hp) as [NA NO].
  rewrite exec_S_IBin by assumption.
  apply (with_val_sound n IH W0 G K l T1); [exact Hl|exact HC|].
  intros W1 st1 lv HE1 HC1 Hlv.
  apply (with_val_sound n IH W0 G K r T2); [exact Hr|exact HC1|].
  intros W2 st2 rv HE2 HC2 [Hrv Hrg].
  apply (gv_mono W1 W2) in Hlv; [|exact HE2]. destruct Hlv as [Hlv Hlg].
  rewrite bin_dispatch_pure by exact Hp.
  pose proof (typed_wf _ _ _ _ _ Hl (ctx_wf _ _ _ _ _ HC)) as Wt1.
  pose proof (typed_wf _ _ _ _ _ Hr (ctx_wf _ _ _ _ _ HC)) as Wt2.
  destruct (binop_sound powf op T1 T2 R lv rv Hp Wt1 Wt2 Hlv Hrv Hc Hrt) as [NP [_ [HV HErr]]].
  apply concl_sig_of_outcome; [apply (ctx_store _ _ _ _ _ HC2)|exact NP| |].
  - intros e He. apply (doc_error_doc_err op). apply HErr. exact He.
  - intros v Hv. apply concl_val; [apply (ctx_store _ _ _ _ _ HC2)|]. split; [apply HV; exact Hv|].
    apply (vgood_op_exec W2 powf op lv rv v Hv); assumption.
Qed.

Lemma case_at n (IH : sound_at n) W0 G K l r T Ti R W st sc :
  typed W0 G K l T -> typed W0 G K r Ti -> matches Ti TInt = true ->
  can_be_indexed T = true -> qres index_result T R ->
  ctx_ok W0 W st sc G ->
  concl W K R sc (E (S n) st sc (IBin At l r)).
Proof.
  intros Hl Hr Hi Hci Hq HC. rewrite exec_S_IBin by discriminate.
  apply (with_val_sound n IH W0 G K l T); [exact Hl|exact HC|].
  intros W1 st1 lv HE1 HC1 Hlv.
  apply (with_val_sound n IH W0 G K r Ti); [exact Hr|exact HC1|].
  intros W2 st2 rv HE2 HC2 Hrv.
  apply (gv_mono W1 W2) in Hlv; [|exact HE2]. destruct Hlv as [Hlv Hlg].
  apply (gv_sub W2 rv Ti TInt) in Hrv; [|exact Hi]. destruct Hrv as [Hrv _].
  destruct Hq as [Hq|[-> _]]; [|rewrite has_type_never in Hlv; discriminate Hlv].
  cbn [bin_dispatch].
  pose proof (typed_wf _ _ _ _ _ Hl (ctx_wf _ _ _ _ _ HC)) as Wt.
  destruct (at_no_panic T lv rv Hci Hlv Hrv) as [NP [_ HErr]].
  apply concl_sig_of_outcome; [apply (ctx_store _ _ _ _ _ HC2)|exact NP| |].
  - intros e He. rewrite (HErr e He). cbn. tauto.
  - intros v Hv. apply concl_val; [apply (ctx_store _ _ _ _ _ HC2)|]. split.
    + apply (at_sound T R lv rv v Wt); try assumption.
      apply vwf_elems_typed. apply (vgood_vwf W2). exact Hlg.
    + apply (vgood_at W2 lv rv v Hv Hlg).
Qed.

(* the checker's test for && and || gives the rule's premises *)
Lemma logic_can_be_used op T1 T2 :
  logic_op op = true -> can_be_used op T1 T2 = Ok true ->
  matches T1 TBool = true /\ matches T2 TBool = true.
Proof.
  destruct op; intros H; try discriminate H; cbn [can_be_used]; intros C;
    injection C as C; apply andb_true_iff in C; destruct C as [A B];
    split; apply ty_eqb_matches; assumption.
Qed.

Lemma case_logic n (IH : sound_at n) W0 G K op l r T1 T2 W st sc :
  logic_op op = true -> typed W0 G K l T1 -> typed W0 G K r T2 ->
  matches T1 TBool = true -> matches T2 TBool = true -> ctx_ok W0 W st sc G ->
  concl W K TBool sc (E (S n) st sc (IBin op l r)).
Proof.
  intros Hop Hl Hr E1 E2 HC.
  assert (HR : forall W1 st1, ctx_ok W0 W1 st1 sc G -> concl W1 K TBool sc (E n st1 sc r)).
  { intros W1 st1 HC1. apply (concl_sub W1 K T2 TBool); [exact E2|].
    apply (IH _ _ _ _ _ Hr _ _ _ HC1). }
  destruct op; try discriminate Hop; [rewrite exec_S_And|rewrite exec_S_Or];
    (apply (with_val_sound n IH W0 G K l T1); [exact Hl|exact HC|]);
    intros W1 st1 v HE1 HC1 Hv;
    apply (gv_sub W1 v T1 TBool) in Hv; try exact E1;
    destruct (in_TBool v (proj1 Hv)) as [b ->]; destruct b;
    try (apply HR; exact HC1);
    (apply concl_val; [apply (ctx_store _ _ _ _ _ HC1)|apply gv_bool]).
Qed.

Lemma case_not n (IH : sound_at n) W0 G K x T W st sc :
  typed W0 G K x T -> matches T ACC_NOT = true -> ctx_ok W0 W st sc G ->
  concl W K T sc (E (S n) st sc (IUn UNot x)).
Proof.
  intros Hx Hm HC. rewrite exec_S_IUn.
  apply (with_val_sound n IH W0 G K x T); [exact Hx|exact HC|].
  intros W1 st1 v HE1 HC1 [Hv Hg]. cbn [un_dispatch].
  destruct (not_sound T v Hm Hv) as [r [Hr Ht]]. rewrite Hr. cbn [sig_of_outcome].
  apply concl_val; [apply (ctx_store _ _ _ _ _ HC1)|]. split; [exact Ht|].
  apply (vgood_unop_exec W1 UNot v r Hr).
Qed.

Lemma case_neg n (IH : sound_at n) W0 G K x T W st sc :
  typed W0 G K x T -> matches T ACC_NEG = true -> ctx_ok W0 W st sc G ->
  concl W K T sc (E (S n) st sc (IUn UUnaryMinus x)).
Proof.
  intros Hx Hm HC. rewrite exec_S_IUn.
  apply (with_val_sound n IH W0 G K x T); [exact Hx|exact HC|].
  intros W1 st1 v HE1 HC1 [Hv Hg]. cbn [un_dispatch].
  destruct (neg_sound T v Hm Hv) as [r [Hr Ht]]. rewrite Hr. cbn [sig_of_outcome].
  apply concl_val; [apply (ctx_store _ _ _ _ _ HC1)|]. split; [exact Ht|].
  apply (vgood_unop_exec W1 UUnaryMinus v r Hr).
Qed.

(* ---- slicing ---- *)
Lemma opt_sound n (IH : sound_at n) W0 G K o W st sc T k :
  typed_opt W0 G K o -> ctx_ok W0 W st sc G ->
  (forall W1 st1 a, ext W W1 -> ctx_ok W0 W1 st1 sc G ->
     concl W1 K T sc (k st1 sc (option_map VInt a))) ->
  concl W K T sc (opt_def (E n) o st sc k).
Proof.
  intros Ho HC Hk. destruct Ho as [G K|G K x Tx Hx Hi]; cbn [opt_def].
  - apply (Hk W st None); [apply ext_refl|exact HC].
  - apply (with_val_sound n IH W0 G K x Tx); [exact Hx|exact HC|].
    intros W1 st1 v HE1 HC1 Hv. apply (gv_sub W1 v Tx TInt) in Hv; [|exact Hi].
    destruct (in_TInt v (proj1 Hv)) as [z ->]. apply (Hk W1 st1 (Some z)); assumption.
Qed.

Lemma case_slice n (IH : sound_at n) W0 G K l a b c T W st sc :
  typed W0 G K l T -> can_be_indexed T = true ->
  typed_opt W0 G K a -> typed_opt W0 G K b -> typed_opt W0 G K c ->
  ctx_ok W0 W st sc G ->
  concl W K T sc (E (S n) st sc (ISlicing l a b c)).
Proof.
  intros Hl Hci Ha Hb Hc HC. rewrite exec_S_ISlicing.
  apply (with_val_sound n IH W0 G K l T); [exact Hl|exact HC|].
  intros W1 st1 lv HE1 HC1 Hlv.
  apply (opt_sound n IH W0 G K a); [exact Ha|exact HC1|]. intros W2 st2 av HE2 HC2.
  apply (opt_sound n IH W0 G K b); [exact Hb|exact HC2|]. intros W3 st3 bv HE3 HC3.
  apply (opt_sound n IH W0 G K c); [exact Hc|exact HC3|]. intros W4 st4 cv HE4 HC4.
  assert (HE14 : ext W1 W4) by (apply (ext_trans W1 W2 W4); [exact HE2|apply (ext_trans W2 W3 W4); assumption]).
  apply (gv_mono W1 W4) in Hlv; [|exact HE14]. destruct Hlv as [Hlv Hlg].
  apply concl_sig_of_outcome; [apply (ctx_store _ _ _ _ _ HC4)| | |].
  - destruct (indexable_shape T lv Hci Hlv) as [[s ->]|[t [vs ->]]].
    + apply slice_str_no_panic.
    + apply slice_arr_no_panic.
  - intros e He. exfalso. destruct (indexable_shape T lv Hci Hlv) as [[s ->]|[t [vs ->]]].
    + apply (slice_str_no_err _ _ _ _ _ He).
    + apply (slice_arr_no_err _ _ _ _ _ _ He).
  - intros r Hr. apply concl_val; [apply (ctx_store _ _ _ _ _ HC4)|]. split.
    + apply (slice_sound W4 T lv _ _ _ r Hlg Hlv Hr).
    + apply (vgood_slice W4 lv _ _ _ r Hr Hlg).
Qed.

End Sound.

End WithFlag.

(* SoundFrag.v — the fragments of the instruction language covered by layer 3, as
   boolean predicates on the instruction tree:
     frag 1 : expressions without store effects
     frag 2 : + statements (blocks, `:=`, destructuring, if, if-set, match, loop, break,
              continue, return)
     frag 3 : + cells (`mut`, `*c`, `c = e`, `c op= e`)
     frag 4 : + calls f(args)
     frag 5 : + closure creation
     frag 6 : + the iterator operators (collect, reduce, type filter, sum, product)
   [typed_frag]: whatever the judgement types lies in fragment 5 (4 with the empty policy);
   so a stage-k theorem is the preservation theorem restricted to [frag k]. *)
From SSL.Model Require Import Base Ty Float Value Ops Seq Syntax Rt Recreate Exec Check.
From SSL.Lemmas Require Import TyLemmas ValueLemmas SoundLemmas SoundDefs SoundVals SoundTyping.

Definition bin_stage (o : binop) : nat :=
  match o with
  | Add | Subtract | Multiply | Divide | Modulo | Pow
  | Equal | NotEqual | Greater | GreaterOrEqual | Lower | LowerOrEqual
  | And | Or | BitwiseAnd | BitwiseOr | Xor | LShift | RShift | At => 1
  | Assign | AssignAdd | AssignSubtract | AssignMultiply | AssignDivide | AssignModulo
  | AssignLShift | AssignRShift | AssignBitwiseAnd | AssignBitwiseOr | AssignXor | AssignPow => 3
  | FunctionCall => 4
  | Filter | Map | Partition => 6
  end.

Definition un_stage (u : unop) : nat :=
  match u with
  | UNot | UUnaryMinus => 1
  | UReturn => 2
  | UIndirection => 3
  | USum | UProduct | UCollect | UIter => 6
  | _ => 9
  end.

Fixpoint frag (k : nat) (i : instr) {struct i} : bool :=
  let opt := fun (o : option instr) => match o with None => true | Some x => frag k x end in
  match i with
  | IVar _ | ILocal _ _ => true
  | ITuple es | IArray es _ => forallb (frag k) es
  | IArrayRepeat a b => frag k a && frag k b
  | IStruct fs => forallb (fun kv => frag k (snd kv)) fs
  | ITupleAccess x _ | IFieldAccess x _ => frag k x
  | ISlicing l a b c => frag k l && opt a && opt b && opt c
  | IBin op a b => Nat.leb (bin_stage op) k && frag k a && frag k b
  | IUn op x => Nat.leb (un_stage op) k && frag k x
  | IBlock body => Nat.leb 2 k && forallb (frag k) body
  | ISet _ x | IDestruct _ x | ILoop x => Nat.leb 2 k && frag k x
  | IIfElse c t f => Nat.leb 2 k && frag k c && frag k t && frag k f
  | ISetIfElse _ _ x a b => Nat.leb 2 k && frag k x && frag k a && frag k b
  | IMatch x arms =>
      Nat.leb 2 k && frag k x &&
      forallb (fun a => match a with
                        | ArmType _ _ b | ArmOther b => frag k b
                        | ArmValue cs b => forallb (frag k) cs && frag k b
                        end) arms
  | IBreak | IContinue => Nat.leb 2 k
  | IMut _ x => Nat.leb 3 k && frag k x
  | IAnonFn _ body _ | IFnDecl _ _ body _ => Nat.leb 5 k && forallb (frag k) body
  | IReduce a b c => Nat.leb 6 k && frag k a && frag k b && frag k c
  | ITypeFilter x _ => Nat.leb 6 k && frag k x
  end.

Definition frag_opt (k : nat) (o : option instr) : bool :=
  match o with None => true | Some x => frag k x end.

Definition frag_arm (k : nat) (a : arm) : bool :=
  match a with
  | ArmType _ _ b | ArmOther b => frag k b
  | ArmValue cs b => forallb (frag k) cs && frag k b
  end.

Lemma pure_stage o : pure_op o = true -> bin_stage o = 1.
Proof. destruct o; intros H; try discriminate H; reflexivity. Qed.
Lemma logic_stage o : logic_op o = true -> bin_stage o = 1.
Proof. destruct o; intros H; try discriminate H; reflexivity. Qed.
Lemma opassign_stage o b : assign_base o = Some b -> bin_stage o = 3.
Proof. destruct o; intros H; try discriminate H; reflexivity. Qed.

Section WithFlag.
Context {FL : Policy}.

Variable kmax : nat.
Hypothesis kmax_4 : 4 <= kmax.
Hypothesis kmax_5 : forall W0 G nm ps body r,
  closure_ok W0 G nm ps body r -> wf_ty (TFun (map snd ps) r) = true -> 5 <= kmax.
Hypothesis kmax_6 : forall W0 G i, iter_gate W0 G i -> 6 <= kmax.

Lemma kmax_it W0 G i : iter_gate W0 G i -> Nat.leb 6 kmax = true.
Proof. intros H. apply Nat.leb_le. apply (kmax_6 _ _ _ H). Qed.

Lemma kmax_ge k : k <= 4 -> Nat.leb k kmax = true.
Proof. intros H. apply Nat.leb_le. lia. Qed.

Lemma kmax_fn W0 G nm ps body r :
  closure_ok W0 G nm ps body r -> wf_ty (TFun (map snd ps) r) = true -> Nat.leb 5 kmax = true.
Proof. intros H Hw. apply Nat.leb_le. apply (kmax_5 _ _ _ _ _ _ H Hw). Qed.

Theorem typed_frag_all W0 :
  (forall G K i T, typed W0 G K i T -> frag kmax i = true) /\
  (forall G K es Ts, typed_all W0 G K es Ts -> forallb (frag kmax) es = true) /\
  (forall G K fs acc out, typed_fields W0 G K fs acc out ->
     forallb (fun kv => frag kmax (snd kv)) fs = true) /\
  (forall G K o, typed_opt W0 G K o -> frag_opt kmax o = true) /\
  (forall G K i T G', typed_line W0 G K i T G' -> frag kmax i = true) /\
  (forall G K l G' Ts, typed_list W0 G K l G' Ts -> forallb (frag kmax) l = true) /\
  (forall G K arms Ts, typed_arms W0 G K arms Ts -> forallb (frag_arm kmax) arms = true).
Proof.
  apply typed_mutind; intros; cbn [frag frag_opt frag_arm forallb snd bin_stage un_stage];
    fold (frag_opt kmax); fold (frag_arm kmax);
    repeat match goal with H : _ = true |- _ => rewrite H end;
    try reflexivity;
    try (rewrite ?kmax_ge by lia; reflexivity).
  - rewrite (pure_stage _ H), kmax_ge by lia. reflexivity.
  - rewrite (logic_stage _ H), kmax_ge by lia. reflexivity.
  - (* slice *)
    change (match a with Some x => frag kmax x | None => true end) with (frag_opt kmax a).
    change (match b with Some x => frag kmax x | None => true end) with (frag_opt kmax b).
    change (match c with Some x => frag kmax x | None => true end) with (frag_opt kmax c).
    repeat match goal with H : _ = true |- _ => rewrite H end. reflexivity.
  - (* match *)
    match goal with |- context [match a with ArmValue _ _ => _ | ArmType _ _ _ => _ | ArmOther _ => _ end] =>
      fold (frag_arm kmax a) end.
    match goal with H : forallb (frag_arm kmax) (_ :: _) = true |- _ =>
      cbn [forallb] in H; rewrite H end. rewrite kmax_ge by lia. reflexivity.
  - rewrite (opassign_stage _ _ H), kmax_ge by lia. reflexivity.
  - erewrite kmax_fn by eassumption. reflexivity.
  - erewrite kmax_it by eassumption. reflexivity.
  - erewrite kmax_it by eassumption. reflexivity.
  - erewrite kmax_it by eassumption. reflexivity.
  - erewrite kmax_it by eassumption. reflexivity.
  - erewrite kmax_fn by eassumption. reflexivity.
Qed.

Theorem typed_frag_gen W0 G K i T : typed W0 G K i T -> frag kmax i = true.
Proof. apply (typed_frag_all W0). Qed.

End WithFlag.

Theorem typed_frag {FL : Policy} W0 G K i T : typed W0 G K i T -> frag 6 i = true.
Proof. apply (typed_frag_gen 6); [lia|intros; lia|intros; lia]. Qed.

(* without the iterator gate: fragment 5 *)
Theorem typed_frag5 {FL : Policy} W0 G K i T :
  (forall W1 G1 j, ~ iter_gate W1 G1 j) -> typed W0 G K i T -> frag 5 i = true.
Proof.
  intros Hno. apply (typed_frag_gen 5); [lia|intros; lia|]. intros W1 G1 j H. destruct (Hno _ _ _ H).
Qed.

Theorem typed_frag_nofn W0 G K i T :
  @typed no_fn_policy W0 G K i T -> frag 4 i = true.
Proof.
  apply (@typed_frag_gen no_fn_policy 4); [lia| |].
  - intros W1 G1 nm ps body r [_ ->] Wf. cbn [wf_ty] in Wf. apply andb_true_iff in Wf.
    destruct Wf as [_ Wf]. discriminate Wf.
  - intros W1 G1 j Hg. exfalso. apply Hg. split; reflexivity.
Qed.

Lemma forallb_impl {A} (f g : A -> bool) l :
  (forall x, In x l -> f x = true -> g x = true) -> forallb f l = true -> forallb g l = true.
Proof.
  intros H Hf. rewrite forallb_forall in *. intros x Hx. apply H; [exact Hx|apply Hf; exact Hx].
Qed.
